(* Props/C06_real_fields.v — property C06 over the REAL numbers, continued from Props/C06_real.v (separate file so that
   the two are audited in parallel): gradient, Laplacian, Hessian, kinetic energy densities as honest
   (Coquelicot) derivatives of the real density function.  Only statements closed by [exact] of a lemma of Proofs/DensityRealP.v, each followed
   by Print Assumptions (the classical real numbers of the standard library).

   Reading guide.  [basis] is any list of well-formed shells (Cartesian / spherical / mixed, any l, any contraction).
     bfun basis a x y z        the number evaluate_basis_model returns for basis function a at the point (x,y,z)
     bdfun basis o a x y z     the number evaluate_deriv_basis_model returns for derivative order o
     pd3 ox oy oz F x y z      d^ox/dx^ox d^oy/dy^oy d^oz/dz^oz F at (x,y,z), iterated Coquelicot Derive_n
     pdk k F x y z             first partial derivative of F along axis k (Derive);  lap3 = pd3 200 + 020 + 002
     rhob basis P x y z        = sum_ab P_ab bfun_a(x,y,z) bfun_b(x,y,z), the electron density as a real FUNCTION
     Gb basis P o1 o2 x y z    = sum_ab P_ab pd3 o1 bfun_a  pd3 o2 bfun_b at (x,y,z): the symbol G(o1,o2) of the jets
     at_pt H x y z             the assignment (o1,o2) |-> H o1 o2 x y z fed to DensityJets.eval
   DensityJets.{density,grad,lap,hess,ked,gked}_model and [shortcut] are the formulas density.py computes
   (Props/C06.v: C06_code_general / C06_code_direct re-prove that on every run from the traced source). *)
From Coq Require Import Reals List Arith.
From Coquelicot Require Import Coquelicot.
From GB Require Import Base.Field Model.Shell Gauss.Bridge3D Gauss.DensityJets Proofs.DensityP Proofs.ScreeningP
  Proofs.SameFunP Proofs.SameFunRealP Proofs.DensityRealP.
Import ListNotations.
Local Open Scope R_scope.

(* evaluate_density_gradient: component k is the derivative of rho along axis k *)
Theorem C06_real_gradient :
  forall (basis : list (shell R)), List.Forall shell_wf basis ->
  forall (P : nat -> nat -> R), (forall a b, P a b = P b a) -> forall x y z,
  is_derive (fun t => rhob basis P t y z) x (eval RK (at_pt (Gb basis P) x y z) (grad_model RK 0))
  /\ is_derive (fun t => rhob basis P x t z) y (eval RK (at_pt (Gb basis P) x y z) (grad_model RK 1))
  /\ is_derive (fun t => rhob basis P x y t) z (eval RK (at_pt (Gb basis P) x y z) (grad_model RK 2)).
Proof. exact (fun basis W P Ps => grad_real (nfun basis) P (bfun basis) (Hfb basis W) Ps). Qed.
Print Assumptions C06_real_gradient.

(* evaluate_density_laplacian = the Laplacian of the real density *)
Theorem C06_real_laplacian :
  forall (basis : list (shell R)), List.Forall shell_wf basis ->
  forall (P : nat -> nat -> R), (forall a b, P a b = P b a) -> forall x y z,
  eval RK (at_pt (Gb basis P) x y z) (lap_model RK) = lap3 (rhob basis P) x y z.
Proof. exact (fun basis W P Ps => lap_real (nfun basis) P (bfun basis) (Hfb basis W) Ps). Qed.
Print Assumptions C06_real_laplacian.

(* evaluate_density_hessian: entry (p,q) = d/dr_p d/dr_q rho *)
Theorem C06_real_hessian :
  forall (basis : list (shell R)), List.Forall shell_wf basis ->
  forall (P : nat -> nat -> R), (forall a b, P a b = P b a) ->
  forall p q x y z, (p < 3)%nat -> (q < 3)%nat ->
  eval RK (at_pt (Gb basis P) x y z) (hess_model RK p q) = pdk p (pdk q (rhob basis P)) x y z.
Proof. exact (fun basis W P Ps => hess_real (nfun basis) P (bfun basis) (Hfb basis W) Ps). Qed.
Print Assumptions C06_real_hessian.

(* consequently the real second partial derivatives of rho commute (Schwarz, here a corollary of hess_sym) and
   the trace of the real Hessian is the real Laplacian *)
Theorem C06_real_schwarz_and_trace :
  forall (basis : list (shell R)), List.Forall shell_wf basis ->
  forall (P : nat -> nat -> R), (forall a b, P a b = P b a) ->
  (forall p q x y z, (p < 3)%nat -> (q < 3)%nat ->
     pdk p (pdk q (rhob basis P)) x y z = pdk q (pdk p (rhob basis P)) x y z)
  /\ (forall x y z,
     pdk 0 (pdk 0 (rhob basis P)) x y z + pdk 1 (pdk 1 (rhob basis P)) x y z + pdk 2 (pdk 2 (rhob basis P)) x y z
     = lap3 (rhob basis P) x y z).
Proof.
  exact (fun basis W P Ps =>
    conj (schwarz_rho (nfun basis) P (bfun basis) (Hfb basis W) Ps)
         (hess_trace_real (nfun basis) P (bfun basis) (Hfb basis W) Ps)).
Qed.
Print Assumptions C06_real_schwarz_and_trace.

(* positive-definite KED = 1/2 sum_ab P_ab grad bfun_a . grad bfun_b (real gradients);
   general KED = t_+ + alpha * Laplacian(rho) *)
Theorem C06_real_kinetic :
  forall (basis : list (shell R)), List.Forall shell_wf basis ->
  forall (P : nat -> nat -> R), (forall a b, P a b = P b a) -> forall alpha x y z,
  eval RK (at_pt (Gb basis P) x y z) (ked_model RK) = tplusb basis P x y z
  /\ eval RK (at_pt (Gb basis P) x y z) (gked_model RK alpha)
     = tplusb basis P x y z + alpha * lap3 (rhob basis P) x y z
  /\ tplusb basis P x y z
     = / 2 * (rsum (nfun basis) (fun a => rsum (nfun basis) (fun b =>
                 P a b * pdk 0 (bfun basis a) x y z * pdk 0 (bfun basis b) x y z))
              + rsum (nfun basis) (fun a => rsum (nfun basis) (fun b =>
                 P a b * pdk 1 (bfun basis a) x y z * pdk 1 (bfun basis b) x y z))
              + rsum (nfun basis) (fun a => rsum (nfun basis) (fun b =>
                 P a b * pdk 2 (bfun basis a) x y z * pdk 2 (bfun basis b) x y z))).
Proof.
  exact (fun basis W P Ps alpha x y z =>
    conj (ked_real (nfun basis) P (bfun basis) x y z)
      (conj (gked_real (nfun basis) P (bfun basis) (Hfb basis W) Ps alpha x y z) eq_refl)).
Qed.
Print Assumptions C06_real_kinetic.

