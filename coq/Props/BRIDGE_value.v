(* Props/BRIDGE_value.v — the value of the Gaussian integral and the CLOSED form of bridge (B1) of
   DESIGN.md 2.6 (no hypothesis left).  Only statements closed by [exact] of a lemma proved in
   Gauss/GaussInt.v, each followed by Print Assumptions.  Notation as in Props/BRIDGE.v:
   gint g l := is_RInt_gen g (Rbar_locally m_infty) (Rbar_locally p_infty) l  (improper Riemann
   integral over the whole line, spelled out by BRIDGE_gint_meaning), Gint := RInt_gen likewise. *)
From Coq Require Import List Reals.
From Coquelicot Require Import Coquelicot.
From GB Require Import Base.Field Gauss.Moment1D Gauss.Bridge Gauss.DerivBridge Gauss.BridgeR Gauss.GaussInt.
Import ListNotations.
Open Scope R_scope.

Theorem BRIDGE_gaussian_integral_unit : gint (fun x => exp (- x ^ 2)) (sqrt PI).
Proof. exact gaussian_integral_unit. Qed.
Print Assumptions BRIDGE_gaussian_integral_unit.

Theorem BRIDGE_gaussian_integral :
  forall p : R, 0 < p -> gint (fun x => exp (- p * x ^ 2)) (sqrt (PI / p)).
Proof. exact gaussian_integral. Qed.
Print Assumptions BRIDGE_gaussian_integral.

Theorem BRIDGE_gaussian_integral_value :
  forall p : R, 0 < p -> Gint (fun x => exp (- p * x ^ 2)) = sqrt (PI / p).
Proof. exact gaussian_integral_value. Qed.
Print Assumptions BRIDGE_gaussian_integral_value.

(* (B1): for every p > 0, centre P, polynomial f (coefficient list in y = x - P):
   int_R f(x-P) e^{-p (x-P)^2} dx exists and equals sqrt(PI/p) * E f,  E of Gauss/Moment1D.v at v = 1/(2p) *)
Theorem BRIDGE_B1_closed :
  forall (p P : R) (f : list R), 0 < p ->
  gint (fun x => peval f (x - P) * exp (- p * (x - P) ^ 2)) (sqrt (PI / p) * E RKd (/ (2 * p)) f)
  /\ Gint (fun x => peval f (x - P) * exp (- p * (x - P) ^ 2)) / sqrt (PI / p) = E RKd (/ (2 * p)) f.
Proof. exact bridge_B1_closed. Qed.
Print Assumptions BRIDGE_B1_closed.

Theorem BRIDGE_B1_monomials_closed :
  forall (p P : R) (n : nat), 0 < p ->
  gint (fun x => (x - P) ^ n * exp (- p * (x - P) ^ 2)) (sqrt (PI / p) * mom RKd (/ (2 * p)) n).
Proof. exact bridge_B1_monomials_closed. Qed.
Print Assumptions BRIDGE_B1_monomials_closed.

(* the 1-D factor of overlap (k = 0) and multipole-moment integrals is the S3 of Gauss/Moment1D.v *)
Theorem BRIDGE_overlap_1d_integral :
  forall (al be A B C : R) (k i j : nat), 0 < al -> 0 < be ->
  let p := al + be in let P := (al * A + be * B) / p in let mu := al * be / p in
  gint (fun x => (x - C) ^ k * (x - A) ^ i * (x - B) ^ j
                 * exp (- al * (x - A) ^ 2) * exp (- be * (x - B) ^ 2))
       (exp (- mu * (A - B) ^ 2) * sqrt (PI / p)
        * S3 RKd (/ (2 * p)) (P - A) (P - B) (P - C) 0 k i j).
Proof. exact overlap_1d_integral. Qed.
Print Assumptions BRIDGE_overlap_1d_integral.
