(* Props/C07.v — theorems backing property C07 (multipole moments exact). *)
From Coq Require Import List Arith.
From GB Require Import Base.Field Base.Tables Gauss.Moment1D Model.MomentInt Proofs.MomentIntP.

(* every moment order k, every la lb: the entry is prefactor x E((y+PC)^k (y+PA)^i (y+PB)^j),
   the 1-D integral of (x-A)^i (x-X)^k (x-B)^j against the Gaussian product *)
Theorem C07_moment_table_exact :
  forall (F : Type) (K : Fops F), is_field K ->
  forall (Ax Bx Cx alpha beta : F) (la lb km : nat),
  psum K alpha beta <> f0 K -> fadd K (f1 K) (f1 K) <> f0 K ->
  forall k j i, k <= km -> j <= lb -> i <= la ->
  nth3 K k j i (table K Ax Bx Cx alpha beta la lb km)
  = fmul K (base K Ax Bx alpha beta)
      (T3 K (fdiv K (f1 K) (twop K alpha beta))
          (PA K Ax Bx alpha beta) (PB K Ax Bx alpha beta) (PC K Ax Bx Cx alpha beta) k i j).
Proof. exact (fun F K Kf Ax Bx Cx alpha beta la lb km Hp H2 =>
         table_correct K Kf Ax Bx Cx alpha beta la lb km Hp H2). Qed.
Print Assumptions C07_moment_table_exact.

(* order 0 reproduces the overlap whatever the origin *)
Theorem C07_order0_is_overlap :
  forall (F : Type) (K : Fops F), is_field K ->
  forall (Ax Bx Cx Cx' alpha beta : F) (la lb km km' : nat),
  psum K alpha beta <> f0 K -> fadd K (f1 K) (f1 K) <> f0 K ->
  forall j i, j <= lb -> i <= la ->
  nth3 K 0 j i (table K Ax Bx Cx alpha beta la lb km)
  = nth3 K 0 j i (table K Ax Bx Cx' alpha beta la lb km').
Proof. exact (fun F K Kf Ax Bx Cx Cx' alpha beta la lb km km' Hp H2 j i Hj Hi =>
  eq_trans (table_correct K Kf Ax Bx Cx alpha beta la lb km Hp H2 0 j i (Nat.le_0_l _) Hj Hi)
    (eq_sym (table_correct K Kf Ax Bx Cx' alpha beta la lb km' Hp H2 0 j i (Nat.le_0_l _) Hj Hi))). Qed.
Print Assumptions C07_order0_is_overlap.
