(* Props/C04_orient.v — property C04 (and C11): the electron-repulsion block does not depend on which of
   the eight orientations of the quartet the recursions are evaluated for.

   After the orientation repair, ElectronRepulsionIntegral.construct_array_contraction evaluates the
   recursions of _two_elec_int.py for ONE of (ab|cd) (ba|cd) (ab|dc) (ba|dc) (cd|ab) (dc|ab) (cd|ba) (dc|ba),
   chosen by a floating-point conditioning estimate, and transposes the axes back.  The model
   (Model/TwoElec.v: orient, eri_block_oriented, eri_block_impl) takes the choice as an ORACLE
   `choose : shell -> shell -> shell -> shell -> orient`; the theorems below show that the exact result is the
   same for every oracle, so the model stays a faithful transcription whatever the estimate decides.

   Chain:  per axis and per s, the four-index bivariate Gaussian moment M4 (= hh of Ms, C04_core) is symmetric
   under a<->b, c<->d (moving a mean by AB is the binomial/horizontal recursion: C04_mean_shift_first/second) and under
   the exchange of the electrons (C04_wick_swap with p<->q, P<->Q)  ==>  the VALUE of the s-polynomial R4 of
   two_elec_correct at every s is symmetric  ==>  (a coefficient list vanishing at 0,1,2,.. is zero; char. 0)
   Phi_0 (R4) is symmetric, prefactor and Boys argument being symmetric  ==>  the specification value
   eri_spec (the right-hand side of C04_two_elec_correct) is symmetric  ==>  every entry of
   eri_block_oriented o equals the entry of eri_block.

   Every theorem is over an arbitrary field of characteristic 0, all angular momenta, exponents, centres,
   contraction shapes; all are closed under the global context.  Only `Theorem ... Proof. exact lemma. Qed.`
   + `Print Assumptions`, and `Example`s (hypotheses satisfiable; a concrete quartet at Qc with the eight
   oriented blocks compared entry by entry by vm_compute). *)
From Coq Require Import List Arith ZArith.
From GB Require Import Base.Field Base.FNum Base.Tables Gauss.Moment1D Gauss.SPoly Gauss.Wick2D
  Model.Shell Model.OneElec Model.TwoElec Proofs.TwoElecP Proofs.EriOrientP.
Import ListNotations.

(* ------------------------------------------------------------------------------------------------ *)
(* 1. per axis, per s                                                                                *)
(* ------------------------------------------------------------------------------------------------ *)

(* with T j = L(x^j), Hf d T b a = L(x^a (x+d)^b): re-expanding around x + d and going back *)
Theorem C04_hrr_shift_swap :
  forall (F : Type) (K : Fops F), is_field K ->
  forall (d : F) (h : nat -> F) (a b : nat),
  Hf K (fopp K d) (fun j => Hf K d h j 0) a b = Hf K d h b a.
Proof. exact (fun F K Kf => Hf_shift_swap K Kf). Qed.
Print Assumptions C04_hrr_shift_swap.

(* Stein's lemma for E[(y1+a1+d)^i (y1+a1)^j (y2+c1)^k] = T3 i j k := Hf d (fun j' => M j' k) i j *)
Theorem C04_stein_three_factors :
  forall (F : Type) (K : Fops F), is_field K ->
  forall (a1 c1 s11 s12 s22 d : F) (i j k : nat),
  T3 K a1 c1 s11 s12 s22 d i (S j) k
  = fadd K (fadd K (fmul K a1 (T3 K a1 c1 s11 s12 s22 d i j k))
       (fmul K s11 (fadd K (fmul K (ofnat K j) (T3 K a1 c1 s11 s12 s22 d i (j - 1) k))
                           (fmul K (ofnat K i) (T3 K a1 c1 s11 s12 s22 d (i - 1) j k)))))
     (fmul K s12 (fmul K (ofnat K k) (T3 K a1 c1 s11 s12 s22 d i j (k - 1)))).
Proof. exact (fun F K Kf => M_stein3 K Kf). Qed.
Print Assumptions C04_stein_three_factors.

(* moving the mean of the first (second) variable by d is the binomial (horizontal) recursion *)
Theorem C04_mean_shift_first :
  forall (F : Type) (K : Fops F), is_field K ->
  forall (a1 c1 s11 s12 s22 d : F) (i k : nat),
  M K (fadd K a1 d) c1 s11 s12 s22 i k = Hf K d (fun j => M K a1 c1 s11 s12 s22 j k) i 0.
Proof. exact (fun F K Kf => M_mean_shift1 K Kf). Qed.
Print Assumptions C04_mean_shift_first.

Theorem C04_mean_shift_second :
  forall (F : Type) (K : Fops F), is_field K ->
  forall (a1 c1 s11 s12 s22 d : F) (i k : nat),
  M K a1 (fadd K c1 d) s11 s12 s22 i k = Hf K d (fun l => M K a1 c1 s11 s12 s22 i l) k 0.
Proof. exact (fun F K Kf => M_mean_shift2 K Kf). Qed.
Print Assumptions C04_mean_shift_second.

(* exchanging the electrons in the (a0|c0) integrand: p <-> q, PA <-> QC, PQ -> QP *)
Theorem C04_Ms_electron_swap :
  forall (F : Type) (K : Fops F), is_field K ->
  forall (p q PA QC PQ s : F) (i k : nat),
  Ms K p q PA QC PQ s i k = Ms K q p QC PA (fopp K PQ) s k i.
Proof. exact (fun F K Kf => Ms_el_swap K Kf). Qed.
Print Assumptions C04_Ms_electron_swap.

(* the exact per-axis integrand E[(y1+PA)^a (y1+PB)^b (y2+QC)^c (y2+QD)^d] at s: three generators *)
Theorem C04_M4_swap_ab :
  forall (F : Type) (K : Fops F), is_field K ->
  forall (alpha beta gamma delta xa xb xc xd s : F) (a b c d : nat),
  M4 K alpha beta gamma delta xa xb xc xd s a b c d = M4 K beta alpha gamma delta xb xa xc xd s b a c d.
Proof. exact (fun F K Kf => M4_swap_ab K Kf). Qed.
Print Assumptions C04_M4_swap_ab.

Theorem C04_M4_swap_cd :
  forall (F : Type) (K : Fops F), is_field K ->
  forall (alpha beta gamma delta xa xb xc xd s : F) (a b c d : nat),
  M4 K alpha beta gamma delta xa xb xc xd s a b c d = M4 K alpha beta delta gamma xa xb xd xc s a b d c.
Proof. exact (fun F K Kf => M4_swap_cd K Kf). Qed.
Print Assumptions C04_M4_swap_cd.

Theorem C04_M4_swap_electrons :
  forall (F : Type) (K : Fops F), is_field K ->
  forall (alpha beta gamma delta xa xb xc xd s : F) (a b c d : nat),
  M4 K alpha beta gamma delta xa xb xc xd s a b c d = M4 K gamma delta alpha beta xc xd xa xb s c d a b.
Proof. exact (fun F K Kf => M4_swap_el K Kf). Qed.
Print Assumptions C04_M4_swap_electrons.

(* ------------------------------------------------------------------------------------------------ *)
(* 2. the s-polynomial of a primitive quartet: values, then Phi_0                                    *)
(* ------------------------------------------------------------------------------------------------ *)

(* the VALUE of R4 at every s is symmetric (for the primitive quartet alpha beta | gamma delta; only the
   exponent sums must be non-zero) *)
Theorem C04_R4_value_swap_ab :
  forall (F : Type) (K : Fops F), is_field K ->
  forall (s1 s2 s3 s4 : shell F) (i1 i2 i3 i4 : nat) (alpha beta gamma delta : F),
  fadd K (f1 K) (f1 K) <> f0 K -> fadd K alpha beta <> f0 K -> fadd K gamma delta <> f0 K ->
  fadd K (fadd K alpha beta) (fadd K gamma delta) <> f0 K ->
  forall s : F,
  peval K (R4 K s1 s2 s3 s4 i1 i2 i3 i4 alpha beta gamma delta) s
  = peval K (R4 K s2 s1 s3 s4 i2 i1 i3 i4 beta alpha gamma delta) s.
Proof. exact (fun F K Kf => R4_value_swap_ab K Kf). Qed.
Print Assumptions C04_R4_value_swap_ab.

Theorem C04_R4_value_swap_cd :
  forall (F : Type) (K : Fops F), is_field K ->
  forall (s1 s2 s3 s4 : shell F) (i1 i2 i3 i4 : nat) (alpha beta gamma delta : F),
  fadd K (f1 K) (f1 K) <> f0 K -> fadd K alpha beta <> f0 K -> fadd K gamma delta <> f0 K ->
  fadd K (fadd K alpha beta) (fadd K gamma delta) <> f0 K ->
  forall s : F,
  peval K (R4 K s1 s2 s3 s4 i1 i2 i3 i4 alpha beta gamma delta) s
  = peval K (R4 K s1 s2 s4 s3 i1 i2 i4 i3 alpha beta delta gamma) s.
Proof. exact (fun F K Kf => R4_value_swap_cd K Kf). Qed.
Print Assumptions C04_R4_value_swap_cd.

Theorem C04_R4_value_swap_electrons :
  forall (F : Type) (K : Fops F), is_field K ->
  forall (s1 s2 s3 s4 : shell F) (i1 i2 i3 i4 : nat) (alpha beta gamma delta : F),
  fadd K (f1 K) (f1 K) <> f0 K -> fadd K alpha beta <> f0 K -> fadd K gamma delta <> f0 K ->
  fadd K (fadd K alpha beta) (fadd K gamma delta) <> f0 K ->
  forall s : F,
  peval K (R4 K s1 s2 s3 s4 i1 i2 i3 i4 alpha beta gamma delta) s
  = peval K (R4 K s3 s4 s1 s2 i3 i4 i1 i2 gamma delta alpha beta) s.
Proof. exact (fun F K Kf => R4_value_swap_el K Kf). Qed.
Print Assumptions C04_R4_value_swap_electrons.

(* hence Phi_0, with the sequence beta_m = pref * F_m(rho |PQ|^2) the model feeds to the recursions (itself
   symmetric), is the same number: uniqueness of the polynomial representative, characteristic 0 *)
Theorem C04_R4_Phi_swap_ab :
  forall (F : Type) (K : Fops F), is_field K ->
  forall (s1 s2 s3 s4 : shell F) (i1 i2 i3 i4 : nat) (alpha beta gamma delta : F),
  fadd K (f1 K) (f1 K) <> f0 K -> fadd K alpha beta <> f0 K -> fadd K gamma delta <> f0 K ->
  fadd K (fadd K alpha beta) (fadd K gamma delta) <> f0 K ->
  (forall n : nat, ofnat K (S n) <> f0 K) ->
  Phi K (eri_base K (s_x s1) (s_y s1) (s_z s1) (s_x s2) (s_y s2) (s_z s2) (s_x s3) (s_y s3) (s_z s3) (s_x s4) (s_y s4) (s_z s4) alpha beta gamma delta) 0
        (R4 K s1 s2 s3 s4 i1 i2 i3 i4 alpha beta gamma delta)
  = Phi K (eri_base K (s_x s2) (s_y s2) (s_z s2) (s_x s1) (s_y s1) (s_z s1) (s_x s3) (s_y s3) (s_z s3) (s_x s4) (s_y s4) (s_z s4) beta alpha gamma delta) 0
        (R4 K s2 s1 s3 s4 i2 i1 i3 i4 beta alpha gamma delta).
Proof. exact (fun F K Kf => R4_Phi_swap_ab K Kf). Qed.
Print Assumptions C04_R4_Phi_swap_ab.

Theorem C04_R4_Phi_swap_cd :
  forall (F : Type) (K : Fops F), is_field K ->
  forall (s1 s2 s3 s4 : shell F) (i1 i2 i3 i4 : nat) (alpha beta gamma delta : F),
  fadd K (f1 K) (f1 K) <> f0 K -> fadd K alpha beta <> f0 K -> fadd K gamma delta <> f0 K ->
  fadd K (fadd K alpha beta) (fadd K gamma delta) <> f0 K ->
  (forall n : nat, ofnat K (S n) <> f0 K) ->
  Phi K (eri_base K (s_x s1) (s_y s1) (s_z s1) (s_x s2) (s_y s2) (s_z s2) (s_x s3) (s_y s3) (s_z s3) (s_x s4) (s_y s4) (s_z s4) alpha beta gamma delta) 0
        (R4 K s1 s2 s3 s4 i1 i2 i3 i4 alpha beta gamma delta)
  = Phi K (eri_base K (s_x s1) (s_y s1) (s_z s1) (s_x s2) (s_y s2) (s_z s2) (s_x s4) (s_y s4) (s_z s4) (s_x s3) (s_y s3) (s_z s3) alpha beta delta gamma) 0
        (R4 K s1 s2 s4 s3 i1 i2 i4 i3 alpha beta delta gamma).
Proof. exact (fun F K Kf => R4_Phi_swap_cd K Kf). Qed.
Print Assumptions C04_R4_Phi_swap_cd.

Theorem C04_R4_Phi_swap_electrons :
  forall (F : Type) (K : Fops F), is_field K ->
  forall (s1 s2 s3 s4 : shell F) (i1 i2 i3 i4 : nat) (alpha beta gamma delta : F),
  fadd K (f1 K) (f1 K) <> f0 K -> fadd K alpha beta <> f0 K -> fadd K gamma delta <> f0 K ->
  fadd K (fadd K alpha beta) (fadd K gamma delta) <> f0 K ->
  (forall n : nat, ofnat K (S n) <> f0 K) ->
  Phi K (eri_base K (s_x s1) (s_y s1) (s_z s1) (s_x s2) (s_y s2) (s_z s2) (s_x s3) (s_y s3) (s_z s3) (s_x s4) (s_y s4) (s_z s4) alpha beta gamma delta) 0
        (R4 K s1 s2 s3 s4 i1 i2 i3 i4 alpha beta gamma delta)
  = Phi K (eri_base K (s_x s3) (s_y s3) (s_z s3) (s_x s4) (s_y s4) (s_z s4) (s_x s1) (s_y s1) (s_z s1) (s_x s2) (s_y s2) (s_z s2) gamma delta alpha beta) 0
        (R4 K s3 s4 s1 s2 i3 i4 i1 i2 gamma delta alpha beta).
Proof. exact (fun F K Kf => R4_Phi_swap_el K Kf). Qed.
Print Assumptions C04_R4_Phi_swap_electrons.

(* ------------------------------------------------------------------------------------------------ *)
(* 3. the specification value of C04_two_elec_correct                                                *)
(* ------------------------------------------------------------------------------------------------ *)

(* eri_spec is, literally, the right-hand side of C04_two_elec_correct *)
Theorem C04_eri_spec_unfold :
  forall (F : Type) (K : Fops F) (s1 s2 s3 s4 : shell F) (m1 i1 m2 i2 m3 i3 m4 i4 : nat),
  eri_spec K s1 s2 s3 s4 m1 i1 m2 i2 m3 i3 m4 i4
  = fmul K (fmul K (fmul K (fmul K
      (csum K (wts K s1) m1 (s_exps s1) (fun alpha =>
        csum K (wts K s2) m2 (s_exps s2) (fun beta =>
          csum K (wts K s3) m3 (s_exps s3) (fun gamma =>
            csum K (wts K s4) m4 (s_exps s4) (fun delta =>
              Phi K (eri_base K (s_x s1) (s_y s1) (s_z s1) (s_x s2) (s_y s2) (s_z s2) (s_x s3) (s_y s3) (s_z s3) (s_x s4) (s_y s4) (s_z s4) alpha beta gamma delta) 0
                    (R4 K s1 s2 s3 s4 i1 i2 i3 i4 alpha beta gamma delta))))))
      (inv_sqrt_df K (nth i1 (comps_of s1) (0, 0, 0)))) (inv_sqrt_df K (nth i2 (comps_of s2) (0, 0, 0))))
      (inv_sqrt_df K (nth i3 (comps_of s3) (0, 0, 0)))) (inv_sqrt_df K (nth i4 (comps_of s4) (0, 0, 0))).
Proof. exact (fun F K => eri_spec_unfold K). Qed.
Print Assumptions C04_eri_spec_unfold.

(* spec symmetry: (a) a <-> b, (b) c <-> d, (c) the two electrons; sums over the primitives commute *)
Theorem C04_eri_spec_symmetric :
  forall (F : Type) (K : Fops F), is_field K ->
  forall (s1 s2 s3 s4 : shell F) (m1 i1 m2 i2 m3 i3 m4 i4 : nat),
  (forall n : nat, ofnat K (S n) <> f0 K) ->
  (forall alpha beta, In alpha (s_exps s1) -> In beta (s_exps s2) -> fadd K alpha beta <> f0 K) ->
  (forall gamma delta, In gamma (s_exps s3) -> In delta (s_exps s4) -> fadd K gamma delta <> f0 K) ->
  (forall alpha beta gamma delta, In alpha (s_exps s1) -> In beta (s_exps s2) ->
     In gamma (s_exps s3) -> In delta (s_exps s4) ->
     fadd K (fadd K alpha beta) (fadd K gamma delta) <> f0 K) ->
  eri_spec K s1 s2 s3 s4 m1 i1 m2 i2 m3 i3 m4 i4 = eri_spec K s2 s1 s3 s4 m2 i2 m1 i1 m3 i3 m4 i4
  /\ eri_spec K s1 s2 s3 s4 m1 i1 m2 i2 m3 i3 m4 i4 = eri_spec K s1 s2 s4 s3 m1 i1 m2 i2 m4 i4 m3 i3
  /\ eri_spec K s1 s2 s3 s4 m1 i1 m2 i2 m3 i3 m4 i4 = eri_spec K s3 s4 s1 s2 m3 i3 m4 i4 m1 i1 m2 i2.
Proof. exact (fun F K Kf => eri_spec_symmetric K Kf). Qed.
Print Assumptions C04_eri_spec_symmetric.

(* all eight orientations: opick_k o x1 x2 x3 x4 = x_{order[k]} for order = _ORIENTATIONS[o] *)
Theorem C04_eri_spec_symmetric_8 :
  forall (F : Type) (K : Fops F), is_field K ->
  forall (o : orient) (s1 s2 s3 s4 : shell F) (m1 i1 m2 i2 m3 i3 m4 i4 : nat),
  (forall n : nat, ofnat K (S n) <> f0 K) ->
  (forall alpha beta, In alpha (s_exps s1) -> In beta (s_exps s2) -> fadd K alpha beta <> f0 K) ->
  (forall gamma delta, In gamma (s_exps s3) -> In delta (s_exps s4) -> fadd K gamma delta <> f0 K) ->
  (forall alpha beta gamma delta, In alpha (s_exps s1) -> In beta (s_exps s2) ->
     In gamma (s_exps s3) -> In delta (s_exps s4) ->
     fadd K (fadd K alpha beta) (fadd K gamma delta) <> f0 K) ->
  eri_spec K (opick1 o s1 s2 s3 s4) (opick2 o s1 s2 s3 s4) (opick3 o s1 s2 s3 s4) (opick4 o s1 s2 s3 s4)
           (opick1 o m1 m2 m3 m4) (opick1 o i1 i2 i3 i4) (opick2 o m1 m2 m3 m4) (opick2 o i1 i2 i3 i4)
           (opick3 o m1 m2 m3 m4) (opick3 o i1 i2 i3 i4) (opick4 o m1 m2 m3 m4) (opick4 o i1 i2 i3 i4)
  = eri_spec K s1 s2 s3 s4 m1 i1 m2 i2 m3 i3 m4 i4.
Proof. exact (fun F K Kf => eri_spec_symmetric_8 K Kf). Qed.
Print Assumptions C04_eri_spec_symmetric_8.

(* ------------------------------------------------------------------------------------------------ *)
(* 4. list level: the oracle is irrelevant                                                           *)
(* ------------------------------------------------------------------------------------------------ *)

(* EVERY entry of the block evaluated in ANY of the eight orientations and transposed back equals the
   entry of the block evaluated in the given orientation.  Hypotheses as in C04_two_elec_correct
   (exact arithmetic, non-zero exponent sums, indices in range, component degrees) plus characteristic 0. *)
Theorem C04_eri_block_orientation_independent :
  forall (F : Type) (K : Fops F), is_field K ->
  forall (o : orient) (s1 s2 s3 s4 : shell F) (m1 i1 m2 i2 m3 i3 m4 i4 : nat),
  (forall x : F, fapx K x = x) ->
  (forall n : nat, ofnat K (S n) <> f0 K) ->
  (forall alpha beta, In alpha (s_exps s1) -> In beta (s_exps s2) -> fadd K alpha beta <> f0 K) ->
  (forall gamma delta, In gamma (s_exps s3) -> In delta (s_exps s4) -> fadd K gamma delta <> f0 K) ->
  (forall alpha beta gamma delta, In alpha (s_exps s1) -> In beta (s_exps s2) ->
     In gamma (s_exps s3) -> In delta (s_exps s4) ->
     fadd K (fadd K alpha beta) (fadd K gamma delta) <> f0 K) ->
  m1 < nseg s1 -> m2 < nseg s2 -> m3 < nseg s3 -> m4 < nseg s4 ->
  i1 < length (comps_of s1) -> i2 < length (comps_of s2) ->
  i3 < length (comps_of s3) -> i4 < length (comps_of s4) ->
  compsum (nth i1 (comps_of s1) (0, 0, 0)) <= s_l s1 -> compsum (nth i2 (comps_of s2) (0, 0, 0)) <= s_l s2 ->
  compsum (nth i3 (comps_of s3) (0, 0, 0)) <= s_l s3 -> compsum (nth i4 (comps_of s4) (0, 0, 0)) <= s_l s4 ->
  nth i4 (nth m4 (nth i3 (nth m3 (nth i2 (nth m2 (nth i1 (nth m1 (eri_block_oriented K o s1 s2 s3 s4) []) []) []) []) []) []) []) (f0 K)
  = nth i4 (nth m4 (nth i3 (nth m3 (nth i2 (nth m2 (nth i1 (nth m1 (eri_block K s1 s2 s3 s4) []) []) []) []) []) []) []) (f0 K).
Proof. exact (fun F K Kf => eri_block_orientation_independent K Kf). Qed.
Print Assumptions C04_eri_block_orientation_independent.

(* for ANY choice function (the floating-point conditioning estimate of the implementation), the block of
   the implementation agrees entry by entry with eri_block *)
Theorem C04_eri_block_impl_is_eri_block :
  forall (F : Type) (K : Fops F), is_field K ->
  forall (choose : shell F -> shell F -> shell F -> shell F -> orient)
         (s1 s2 s3 s4 : shell F) (m1 i1 m2 i2 m3 i3 m4 i4 : nat),
  (forall x : F, fapx K x = x) ->
  (forall n : nat, ofnat K (S n) <> f0 K) ->
  (forall alpha beta, In alpha (s_exps s1) -> In beta (s_exps s2) -> fadd K alpha beta <> f0 K) ->
  (forall gamma delta, In gamma (s_exps s3) -> In delta (s_exps s4) -> fadd K gamma delta <> f0 K) ->
  (forall alpha beta gamma delta, In alpha (s_exps s1) -> In beta (s_exps s2) ->
     In gamma (s_exps s3) -> In delta (s_exps s4) ->
     fadd K (fadd K alpha beta) (fadd K gamma delta) <> f0 K) ->
  m1 < nseg s1 -> m2 < nseg s2 -> m3 < nseg s3 -> m4 < nseg s4 ->
  i1 < length (comps_of s1) -> i2 < length (comps_of s2) ->
  i3 < length (comps_of s3) -> i4 < length (comps_of s4) ->
  compsum (nth i1 (comps_of s1) (0, 0, 0)) <= s_l s1 -> compsum (nth i2 (comps_of s2) (0, 0, 0)) <= s_l s2 ->
  compsum (nth i3 (comps_of s3) (0, 0, 0)) <= s_l s3 -> compsum (nth i4 (comps_of s4) (0, 0, 0)) <= s_l s4 ->
  nth i4 (nth m4 (nth i3 (nth m3 (nth i2 (nth m2 (nth i1 (nth m1 (eri_block_impl K choose s1 s2 s3 s4) []) []) []) []) []) []) []) (f0 K)
  = nth i4 (nth m4 (nth i3 (nth m3 (nth i2 (nth m2 (nth i1 (nth m1 (eri_block K s1 s2 s3 s4) []) []) []) []) []) []) []) (f0 K).
Proof. exact (fun F K Kf => eri_block_impl_is_eri_block K Kf). Qed.
Print Assumptions C04_eri_block_impl_is_eri_block.

(* ------------------------------------------------------------------------------------------------ *)
(* Examples                                                                                          *)
(* ------------------------------------------------------------------------------------------------ *)

(* characteristic 0 holds at the executable instance (the other hypotheses: C04_two_elec_hyps_ex) *)
Example C04_orient_char0_ex : forall n, ofnat KQ4 (S n) <> f0 KQ4.
Proof. exact orient_char0_ex. Qed.
Print Assumptions C04_orient_char0_ex.

(* a concrete (p s | s p) quartet at Qc, four centres, two primitives / two segmented contractions on the
   first shell, two segmented contractions on the third: the eight oriented blocks coincide with eri_block
   on all 36 entries (both sides computed by vm_compute, exact rationals) *)
Example C04_eight_orientations_ex :
  (let r := eri_block KQ4 o_s1 o_s2 o_s3 o_s4 in
   forallb (fun o => block_eqb (eri_block_oriented KQ4 o o_s1 o_s2 o_s3 o_s4) r) all_orients) = true.
Proof. exact eight_orientations_ex. Qed.
Print Assumptions C04_eight_orientations_ex.

(* the transposition is not vacuous: (cd|ab) read in the axis order of (ab|cd) is a different array *)
Example C04_transposition_matters_ex :
  block_eqb (eri_block KQ4 o_s3 o_s4 o_s1 o_s2) (eri_block KQ4 o_s1 o_s2 o_s3 o_s4) = false
  /\ length (flat8 (eri_block KQ4 o_s1 o_s2 o_s3 o_s4)) = 36.
Proof. exact transposition_matters_ex. Qed.
Print Assumptions C04_transposition_matters_ex.
