(* Props/C02_assembled.v — the ASSEMBLED kinetic-energy matrix (Model/OneBody.kinetic_integral, the model run
   against gbasis.integrals.kinetic_energy.kinetic_energy_integral).  Index maps, hypotheses and symbols as in
   Props/C01_assembled.v; kin_prim as in Props/C02_block.v. *)
From Coq Require Import List Arith.
From GB Require Import Base.Field Base.FNum Base.Tables Model.Shell Model.MomentInt Model.Overlap Model.DiffOp
  Model.OneBody Proofs.CoreSumP Proofs.CoreBlockP Proofs.CoreDiffP
  Proofs.BlockMatP Proofs.AssembledP Proofs.AssembledOverlapP Proofs.AssembledSphP Proofs.AssembledSphOverlapP
  Proofs.CoreExamplesP Proofs.AssembledExamplesP.
Import ListNotations.

(* Cartesian bases: EVERY entry (evaluated blocks and transposed copies) is the normalised contracted
   kinetic spec of the ordered pair (row shell, column shell) *)
Theorem C02_kinetic_integral_entry :
  forall (F : Type) (K : Fops F), is_field K ->
  (forall x : F, fapx K x = x) -> fadd K (f1 K) (f1 K) <> f0 K ->
  forall (bs : list (shell F)) (i j m c m' c' : nat),
  cart_basis bs -> basis_wf bs -> basis_exps K bs bs ->
  i < length bs -> j < length bs ->
  m < nseg (sh_at K bs i) -> c < ncomp (sh_at K bs i) -> m' < nseg (sh_at K bs j) -> c' < ncomp (sh_at K bs j) ->
  let sa := sh_at K bs i in let sb := sh_at K bs j in
  let ca := nth c (comps_of sa) (0, 0, 0) in let cb := nth c' (comps_of sb) (0, 0, 0) in
  nth (gidx K bs j m' c') (nth (gidx K bs i m c) (kinetic_integral K bs None) []) (f0 K)
  = fmul K (fmul K (ncont K sa m c) (ncont K sb m' c')) (contracted K sa sb ca cb m m' (kin_prim K sa sb ca cb)).
Proof. exact (fun F K Kf Hapx H2 => kinetic_integral_entry K Kf Hapx H2). Qed.
Print Assumptions C02_kinetic_integral_entry.

(* any assignment of coordinate types: (+)T on both indices of the all-Cartesian matrix *)
Theorem C02_kinetic_mixed_is_cart_transformed :
  forall (F : Type) (K : Fops F), is_field K ->
  (forall x : F, fapx K x = x) -> fadd K (f1 K) (f1 K) <> f0 K ->
  forall bs : list (shell F), (forall s, In s bs -> 0 < nseg s) -> basis_wf bs -> basis_exps K bs bs ->
  forall i j m q m' q', i < length bs -> j < length bs ->
  m < nseg (sh_at K bs i) -> q < osize (sh_at K bs i) -> m' < nseg (sh_at K bs j) -> q' < osize (sh_at K bs j) ->
  nth (oidx K bs j m' q') (nth (oidx K bs i m q) (kinetic_integral K bs None) []) (f0 K)
  = dsum K (sh_at K bs i) (sh_at K bs j) q q' (fun c c' =>
      nth (gidx K (map to_cart bs) j m' c') (nth (gidx K (map to_cart bs) i m c)
          (kinetic_integral K (map to_cart bs) None) []) (f0 K)).
Proof. exact (fun F K Kf Hapx H2 => kinetic_mixed_is_cart_transformed K Kf Hapx H2). Qed.
Print Assumptions C02_kinetic_mixed_is_cart_transformed.

(* the hypotheses are satisfiable: the Qc bases of Props/C01_assembled.v (Cartesian: d K=2 M=2, p, contracted s;
   mixed: the same with the d and s shells spherical) *)
Example C02_assembled_hypotheses_Qc :
  forall opi osqrt oexp oln oboys,
  let K := Proofs.CoreExamplesP.KQ opi osqrt oexp oln oboys in
  (is_field K /\ (forall x, fapx K x = x) /\ fadd K (f1 K) (f1 K) <> f0 K
   /\ cart_basis Proofs.AssembledExamplesP.ex_basis /\ basis_wf Proofs.AssembledExamplesP.ex_basis
   /\ basis_exps K Proofs.AssembledExamplesP.ex_basis Proofs.AssembledExamplesP.ex_basis
   /\ btotal K Proofs.AssembledExamplesP.ex_basis = 16
   /\ gidx K Proofs.AssembledExamplesP.ex_basis 0 1 4 = 10 /\ gidx K Proofs.AssembledExamplesP.ex_basis 1 0 2 = 14)
  /\ ((forall s, In s Proofs.AssembledExamplesP.ex_mixed -> 0 < nseg s) /\ basis_wf Proofs.AssembledExamplesP.ex_mixed
      /\ basis_exps K Proofs.AssembledExamplesP.ex_mixed Proofs.AssembledExamplesP.ex_mixed
      /\ ototal K Proofs.AssembledExamplesP.ex_mixed = 14).
Proof.
  exact (fun opi osqrt oexp oln oboys =>
    conj (Proofs.AssembledExamplesP.assembled_hypotheses_satisfiable opi osqrt oexp oln oboys)
      (match Proofs.AssembledExamplesP.mixed_hypotheses_satisfiable opi osqrt oexp oln oboys with
       | conj a (conj b (conj c (conj d _))) => conj a (conj b (conj c d)) end)).
Qed.
Print Assumptions C02_assembled_hypotheses_Qc.
