(* Props/C11.v — theorems backing property C11 (index symmetries; reordering shells only
   reorders indices).  Only statements closed by [exact] of a lemma of Proofs/PermP.v,
   Proofs/OrientP.v, Proofs/PermEx.v, each followed by Print Assumptions.

   A reordering is an index list p (new position k holds old shell [nth k p 0]); the new shell
   list is [sel d p l].  Every theorem holds for ANY p with entries < number of shells
   (selections, repetitions); for a permutation p of 0..n-1 the induced list [iperm r p] of old
   basis-function indices in the new order is a permutation of 0..N-1
   (C11_index_map_is_permutation), where r i = number of functions of old shell i.
   [sel1 d ip v] / [sel2 d ip1 ip2 m] look a vector / matrix up through index lists.
   No bound on the number of shells, their sizes, types, segment counts, or p. *)
From Coq Require Import List Arith Bool Permutation ZArith.
From GB Require Import Base.Field Base.Tables Base.Blocks Gauss.Moment1D Model.Shell Model.MomentInt
  Model.DiffOp Model.Assembly Model.Assembly14 Model.Overlap Model.OneBody
  Proofs.PermP Proofs.OrientP Proofs.PermEx.
Import ListNotations.

(* ================= 1. assemble_perm ================= *)
Theorem C11_index_map_is_permutation :
  forall (r : nat -> nat) (n : nat) (p : list nat),
  Permutation p (seq 0 n) -> Permutation (iperm r p) (seq 0 (off r n)).
Proof. exact iperm_Permutation. Qed.
Print Assumptions C11_index_map_is_permutation.

(* one index, any per-shell piece function (evaluate_basis, evaluate_deriv_basis, ...) *)
Theorem C11_assemble_perm_one_index_generic :
  forall (B C : Type) (g : B -> list C) (l : list B) (d : B) (d' : C) (p : list nat),
  Forall (fun k => k < length l) p ->
  concat (map g (sel d p l))
  = sel1 d' (iperm (fun k => length (g (nth k l d))) p) (concat (map g l)).
Proof. exact @one_perm. Qed.
Print Assumptions C11_assemble_perm_one_index_generic.

(* one index, the model of base_one.py (Assembly14.one_mix) *)
Theorem C11_assemble_perm_one_index :
  forall (F A : Type) (azero : A) (aadd : A -> A -> A) (ascale : F -> A -> A)
         (l : list (@sh F * list (list A))) (d : @sh F * list (list A)) (p : list nat),
  Forall (fun k => k < length l) p ->
  one_mix azero aadd ascale (sel d p l)
  = sel1 azero (iperm (fun k => length (one_piece azero aadd ascale (nth k l d))) p)
         (one_mix azero aadd ascale l).
Proof. exact @one_mix_perm. Qed.
Print Assumptions C11_assemble_perm_one_index.

Example C11_one_index_instance :
  one_mix 0%Z Z.add Z.mul (sel (sh_a, []) p3 l1)
  = sel1 0%Z (iperm (fun k => length (one_piece 0%Z Z.add Z.mul (nth k l1 (sh_a, [])))) p3)
         (one_mix 0%Z Z.add Z.mul l1)
  /\ one_mix 0%Z Z.add Z.mul (sel (sh_a, []) p3 l1) = [25; (-2); 10; 1; 4; 9; 4; 5; 6]%Z.
Proof. exact ex_one_mix_perm. Qed.
Print Assumptions C11_one_index_instance.

(* two indices, block matrices in general = the asymmetric class (no symmetry hypothesis;
   independent selections of row and column shells) *)
Theorem C11_assemble_perm_blocks :
  forall (A : Type) (azero : A) (n1 n2 : nat) (r1 r2 : nat -> nat) (Bf : nat -> nat -> list (list A))
         (p1 p2 : list nat),
  shape2 n1 n2 r1 r2 Bf -> p2 <> [] ->
  Forall (fun k => k < n1) p1 -> Forall (fun k => k < n2) p2 ->
  two_asymm_blocks (length p1) (length p2) (fun k l => Bf (nth k p1 0) (nth l p2 0))
  = sel2 azero (iperm r1 p1) (iperm r2 p2) (two_asymm_blocks n1 n2 Bf).
Proof. exact @blocks_perm. Qed.
Print Assumptions C11_assemble_perm_blocks.

Example C11_blocks_instance :
  shape2 3 3 r3 r3 Bas /\
  two_asymm_blocks 3 2 (fun k l => Bas (nth k p3 0) (nth l [1; 2] 0))
  = sel2 0 (iperm r3 p3) (iperm r3 [1; 2]) (two_asymm_blocks 3 3 Bas).
Proof. exact ex_blocks_perm. Qed.
Print Assumptions C11_blocks_instance.

(* overlap_integral_asymmetric (Overlap.two_asymm_integral) *)
Theorem C11_assemble_perm_two_index_asymmetric :
  forall (F : Type) (K : Fops F) (A : Type) (azero : A) (aadd : A -> A -> A) (ascale : F -> A -> A)
         (blockf : shell F -> shell F -> list (list (list (list A))))
         (b1 b2 : list (shell F)) (ds : shell F) (r1 r2 : nat -> nat) (p1 p2 : list nat),
  shape2 (length b1) (length b2) r1 r2 (Bfun K azero aadd ascale blockf b1 b2 ds) -> p2 <> [] ->
  Forall (fun k => k < length b1) p1 -> Forall (fun k => k < length b2) p2 ->
  two_asymm_integral K azero aadd ascale blockf (sel ds p1 b1) (sel ds p2 b2) None None
  = sel2 azero (iperm r1 p1) (iperm r2 p2) (two_asymm_integral K azero aadd ascale blockf b1 b2 None None).
Proof. exact @two_asymm_integral_perm. Qed.
Print Assumptions C11_assemble_perm_two_index_asymmetric.

(* the symmetric class: if the processed block function satisfies
   block (j, i) = transpose (block (i, j))  [bsym], the assembled matrix of the reordered
   list is the original one with rows and columns looked up through iperm *)
Theorem C11_assemble_perm_symm_blocks :
  forall (A : Type) (azero : A) (n : nat) (r : nat -> nat) (Bf : nat -> nat -> list (list A)) (p : list nat),
  shape2 n n r r Bf -> bsym azero n Bf -> Forall (fun k => k < n) p ->
  two_symm_blocks azero (length p) (fun k l => Bf (nth k p 0) (nth l p 0))
  = sel2 azero (iperm r p) (iperm r p) (two_symm_blocks azero n Bf).
Proof. exact @symm_blocks_perm. Qed.
Print Assumptions C11_assemble_perm_symm_blocks.

Example C11_symm_blocks_instance :
  (shape2 3 3 r3 r3 Bex /\ bsym 0 3 Bex) /\
  (iperm r3 p3 = [3; 4; 5; 0; 1; 2] /\ Permutation p3 (seq 0 3)) /\
  (two_symm_blocks 0 (length p3) (fun k l => Bex (nth k p3 0) (nth l p3 0))
   = sel2 0 (iperm r3 p3) (iperm r3 p3) (two_symm_blocks 0 3 Bex)
   /\ two_symm_blocks 0 (length p3) (fun k l => Bex (nth k p3 0) (nth l p3 0)) <> two_symm_blocks 0 3 Bex).
Proof. exact (conj ex_shape_sym (conj ex_iperm ex_symm_blocks_perm)). Qed.
Print Assumptions C11_symm_blocks_instance.

(* Overlap.two_symm_integral: overlap_integral, kinetic_energy_integral, moment_integral,
   point_charge_integral (nuclear attraction is a sum over its last axis) *)
Theorem C11_assemble_perm_two_index_symmetric :
  forall (F : Type) (K : Fops F) (A : Type) (azero : A) (aadd : A -> A -> A) (ascale : F -> A -> A)
         (blockf : shell F -> shell F -> list (list (list (list A))))
         (basis : list (shell F)) (ds : shell F) (r : nat -> nat) (p : list nat),
  shape2 (length basis) (length basis) r r (Bfun K azero aadd ascale blockf basis basis ds) ->
  bsym azero (length basis) (Bfun K azero aadd ascale blockf basis basis ds) ->
  Forall (fun k => k < length basis) p ->
  two_symm_integral K azero aadd ascale blockf (sel ds p basis) None
  = sel2 azero (iperm r p) (iperm r p) (two_symm_integral K azero aadd ascale blockf basis None).
Proof. exact @two_symm_integral_perm. Qed.
Print Assumptions C11_assemble_perm_two_index_symmetric.

(* hypotheses satisfiable and conclusion evaluated: shells s, p (two segments), d (spherical);
   new order (2, 0, 1) *)
Example C11_two_index_symmetric_instance :
  shape2 3 3 wb wb (Bfun ZK 0%Z Z.add Z.mul blockf_ex basis3 basis3 (shl 0 1 false)) /\
  bsym 0%Z 3 (Bfun ZK 0%Z Z.add Z.mul blockf_ex basis3 basis3 (shl 0 1 false)) /\
  two_symm_integral ZK 0%Z Z.add Z.mul blockf_ex (sel (shl 0 1 false) p3 basis3) None
  = sel2 0%Z (iperm wb p3) (iperm wb p3) (two_symm_integral ZK 0%Z Z.add Z.mul blockf_ex basis3 None).
Proof. exact ex_two_symm_integral. Qed.
Print Assumptions C11_two_index_symmetric_instance.

(* OneBody.two_symm_integral_h: momentum_integral, angular_momentum_integral (the model carries
   the real matrix R of the value -i R; aconj = negation; hypothesis: block (j,i) = conj-transpose) *)
Theorem C11_assemble_perm_two_index_hermitian :
  forall (F : Type) (K : Fops F) (A : Type) (azero : A) (aadd : A -> A -> A) (ascale : F -> A -> A)
         (blockf : shell F -> shell F -> list (list (list (list A)))) (aconj : A -> A)
         (basis : list (shell F)) (ds : shell F) (r : nat -> nat) (p : list nat),
  shape2 (length basis) (length basis) r r (Bfun K azero aadd ascale blockf basis basis ds) ->
  bsym_h azero aconj (length basis) (Bfun K azero aadd ascale blockf basis basis ds) ->
  Forall (fun k => k < length basis) p ->
  two_symm_integral_h K azero aadd ascale aconj blockf (sel ds p basis) None
  = sel2 azero (iperm r p) (iperm r p) (two_symm_integral_h K azero aadd ascale aconj blockf basis None).
Proof. exact @two_symm_integral_h_perm. Qed.
Print Assumptions C11_assemble_perm_two_index_hermitian.

Example C11_hermitian_blocks_instance :
  shape2 3 3 r3 r3 Bh /\ bsym_h 0%Z Z.opp 3 Bh /\
  two_symm_blocks_h 0%Z Z.opp (length p3) (fun k l => Bh (nth k p3 0) (nth l p3 0))
  = sel2 0%Z (iperm r3 p3) (iperm r3 p3) (two_symm_blocks_h 0%Z Z.opp 3 Bh).
Proof. exact ex_herm. Qed.
Print Assumptions C11_hermitian_blocks_instance.

(* the label-level transcriptions of Assembly14 (every code path: mode 0 cartesian, 1 spherical, 2 mix) *)
Theorem C11_assemble_perm_two_symm_n :
  forall (F A : Type) (azero : A) (aadd : A -> A -> A) (ascale : F -> A -> A) (mode : nat)
         (ss : list (@sh F)) (bf : nat -> nat -> list (list (list (list A)))) (r : nat -> nat) (p : list nat),
  shape2 (length ss) (length ss) r r (B14 azero aadd ascale mode ss ss bf) ->
  bsym azero (length ss) (B14 azero aadd ascale mode ss ss bf) ->
  Forall (fun k => k < length ss) p ->
  two_symm_n azero aadd ascale mode (sel (mkSh false [] []) p ss) (fun k l => bf (nth k p 0) (nth l p 0))
  = sel2 azero (iperm r p) (iperm r p) (two_symm_n azero aadd ascale mode ss bf).
Proof. exact @two_symm_n_perm. Qed.
Print Assumptions C11_assemble_perm_two_symm_n.

Example C11_two_symm_n_instance :
  shape2 3 3 w14 w14 (B14 0%Z Z.add Z.mul 2 ss3 ss3 raw2) /\ bsym 0%Z 3 (B14 0%Z Z.add Z.mul 2 ss3 ss3 raw2) /\
  two_symm_n 0%Z Z.add Z.mul 2 (sel (mkSh false [] []) p3 ss3) (fun k l => raw2 (nth k p3 0) (nth l p3 0))
  = sel2 0%Z (iperm w14 p3) (iperm w14 p3) (two_symm_n 0%Z Z.add Z.mul 2 ss3 raw2).
Proof. exact ex_two_symm_n. Qed.
Print Assumptions C11_two_symm_n_instance.

Theorem C11_assemble_perm_two_asymm_n :
  forall (F A : Type) (azero : A) (aadd : A -> A -> A) (ascale : F -> A -> A) (mode : nat)
         (ss1 ss2 : list (@sh F)) (bf : nat -> nat -> list (list (list (list A))))
         (r1 r2 : nat -> nat) (p1 p2 : list nat),
  shape2 (length ss1) (length ss2) r1 r2 (B14 azero aadd ascale mode ss1 ss2 bf) -> p2 <> [] ->
  Forall (fun k => k < length ss1) p1 -> Forall (fun k => k < length ss2) p2 ->
  two_asymm_n azero aadd ascale mode (sel (mkSh false [] []) p1 ss1) (sel (mkSh false [] []) p2 ss2)
    (fun k l => bf (nth k p1 0) (nth l p2 0))
  = sel2 azero (iperm r1 p1) (iperm r2 p2) (two_asymm_n azero aadd ascale mode ss1 ss2 bf).
Proof. exact @two_asymm_n_perm. Qed.
Print Assumptions C11_assemble_perm_two_asymm_n.

(* ---- four indices (base_four_symm.py) ---- *)
(* the nested concatenation along axes 3, 2, 1, 0: entry = entry of the block at the offsets *)
Theorem C11_four_concat_entry :
  forall (A : Type) (azero : A) (n : nat) (r : nat -> nat)
         (cell : nat -> nat -> nat -> nat -> list (list (list (list A)))),
  shape4 n r cell ->
  forall i j k l a b c e, i < n -> j < n -> k < n -> l < n -> a < r i -> b < r j -> c < r k -> e < r l ->
  get4 azero (four_concat n cell) (off r i + a) (off r j + b) (off r k + c) (off r l + e)
  = get4 azero (cell i j k l) a b c e.
Proof. exact @four_concat_entry. Qed.
Print Assumptions C11_four_concat_entry.

(* the store of the eight permuted writes with "last write wins": given the eight-fold
   symmetry [sym8] of the processed blocks, every cell holds the block of its own quartet *)
Theorem C11_four_store_holds_every_block :
  forall (A : Type) (azero : A) (n : nat) (Bf : nat -> nat -> nat -> nat -> list (list (list (list A)))),
  sym8 azero n Bf ->
  forall i j k l, i < n -> j < n -> k < n -> l < n ->
  lookup (all_writes azero n Bf) (i, j, k, l) = Bf i j k l.
Proof. exact @lookup_all_writes. Qed.
Print Assumptions C11_four_store_holds_every_block.

(* four-index permutation theorem, entry by entry over the whole array *)
Theorem C11_assemble_perm_four_index :
  forall (F A : Type) (azero : A) (aadd : A -> A -> A) (ascale : F -> A -> A) (mode : nat)
         (ss : list (@sh F))
         (bf : nat -> nat -> nat -> nat -> list (list (list (list (list (list (list (list A))))))))
         (r : nat -> nat) (p : list nat),
  shape4 (length ss) r (B4f azero aadd ascale mode ss bf) ->
  sym8 azero (length ss) (B4f azero aadd ascale mode ss bf) ->
  Forall (fun k => k < length ss) p ->
  forall x1 x2 x3 x4, x1 < length (iperm r p) -> x2 < length (iperm r p) ->
    x3 < length (iperm r p) -> x4 < length (iperm r p) ->
  get4 azero (four_symm azero aadd ascale mode (sel (mkSh false [] []) p ss)
               (fun a b c d => bf (nth a p 0) (nth b p 0) (nth c p 0) (nth d p 0))) x1 x2 x3 x4
  = get4 azero (four_symm azero aadd ascale mode ss bf)
      (nth x1 (iperm r p) 0) (nth x2 (iperm r p) 0) (nth x3 (iperm r p) 0) (nth x4 (iperm r p) 0).
Proof. exact @four_symm_perm. Qed.
Print Assumptions C11_assemble_perm_four_index.

Example C11_four_index_instance :
  shape4 3 w4 (B4f 0%Z Z.add Z.mul 2 ss4 raw4) /\ sym8 0%Z 3 (B4f 0%Z Z.add Z.mul 2 ss4 raw4) /\
  (four_symm 0%Z Z.add Z.mul 2 (sel (mkSh false [] []) p3 ss4)
     (fun a b c d => raw4 (nth a p3 0) (nth b p3 0) (nth c p3 0) (nth d p3 0))
   = sel4 (iperm w4 p3) (four_symm 0%Z Z.add Z.mul 2 ss4 raw4)
   /\ iperm w4 p3 = [3; 4; 0; 1; 2]).
Proof. exact (conj ex_shape4 (conj ex_sym8 ex_four_symm_perm)). Qed.
Print Assumptions C11_four_index_instance.

(* electron_repulsion_integral (OneBody.eri_integral, chemists' notation, no transform); the two hypotheses
   [shape4] and [sym8] are theorems for this model: Props/C11_sym8.v (C11_assemble_perm_eri_integral_full) *)
Theorem C11_assemble_perm_eri_integral :
  forall (F : Type) (K : Fops F) (basis : list (shell F)) (ds : shell F) (r : nat -> nat) (p : list nat),
  shape4 (length basis) r (Beri K basis) -> sym8 (f0 K) (length basis) (Beri K basis) ->
  Forall (fun k => k < length basis) p ->
  forall x1 x2 x3 x4, x1 < length (iperm r p) -> x2 < length (iperm r p) ->
    x3 < length (iperm r p) -> x4 < length (iperm r p) ->
  get4 (f0 K) (eri_integral K (sel ds p basis) None false) x1 x2 x3 x4
  = get4 (f0 K) (eri_integral K basis None false)
      (nth x1 (iperm r p) 0) (nth x2 (iperm r p) 0) (nth x3 (iperm r p) 0) (nth x4 (iperm r p) 0).
Proof. exact @eri_integral_perm. Qed.
Print Assumptions C11_assemble_perm_eri_integral.

(* ================= 2. symmetric_output ================= *)
(* What the mirrored assembly returns WHATEVER the block function (only the evaluated blocks
   i <= j are constrained, by their shapes).  This does NOT settle the property: the entries
   below the block diagonal are copies, so an asymmetry of the block routine (block (j,i) <>
   transpose (block (i,j))) is invisible in the returned array - see C11_copy_hides_asymmetry
   - which is why the correspondence check evaluates both orientations independently. *)
Theorem C11_symmetric_output_offdiag :
  forall (A : Type) (azero : A) (n : nat) (r : nat -> nat) (bf : nat -> nat -> list (list A)),
  (forall i, i < n -> 0 < r i) ->
  (forall i j, i < n -> j < n -> i <= j ->
     length (bf i j) = r i /\ Forall (fun row => length row = r j) (bf i j)) ->
  forall i j a b, i < n -> j < n -> i <> j -> a < r i -> b < r j ->
  ent azero (two_symm_blocks_t azero n bf) (off r i + a) (off r j + b)
  = ent azero (two_symm_blocks_t azero n bf) (off r j + b) (off r i + a).
Proof. exact @symmetric_output_offdiag. Qed.
Print Assumptions C11_symmetric_output_offdiag.

(* inside one shell the code writes the TRANSPOSE of the evaluated (s,s) block (the tril loop
   includes the diagonal): symmetric there only if the block routine is *)
Theorem C11_symmetric_output_diag :
  forall (A : Type) (azero : A) (n : nat) (r : nat -> nat) (bf : nat -> nat -> list (list A)),
  (forall i, i < n -> 0 < r i) ->
  (forall i j, i < n -> j < n -> i <= j ->
     length (bf i j) = r i /\ Forall (fun row => length row = r j) (bf i j)) ->
  forall i a b, i < n -> a < r i -> b < r i ->
  ent azero (two_symm_blocks_t azero n bf) (off r i + a) (off r i + b) = ent azero (bf i i) b a.
Proof. exact @symmetric_output_diag. Qed.
Print Assumptions C11_symmetric_output_diag.

Theorem C11_symmetric_output :
  forall (A : Type) (azero : A) (n : nat) (r : nat -> nat) (bf : nat -> nat -> list (list A)),
  (forall i, i < n -> 0 < r i) ->
  (forall i j, i < n -> j < n -> i <= j ->
     length (bf i j) = r i /\ Forall (fun row => length row = r j) (bf i j)) ->
  (forall i a b, i < n -> a < r i -> b < r i -> ent azero (bf i i) a b = ent azero (bf i i) b a) ->
  forall x y, x < off r n -> y < off r n ->
  ent azero (two_symm_blocks_t azero n bf) x y = ent azero (two_symm_blocks_t azero n bf) y x.
Proof. exact @symmetric_output. Qed.
Print Assumptions C11_symmetric_output.

(* the variant used by Overlap.two_symm_integral (diagonal block kept as evaluated) *)
Theorem C11_symmetric_output_model_entries :
  forall (A : Type) (azero : A) (n : nat) (r : nat -> nat) (bf : nat -> nat -> list (list A)),
  (forall i, i < n -> 0 < r i) ->
  (forall i j, i < n -> j < n -> i <= j ->
     length (bf i j) = r i /\ Forall (fun row => length row = r j) (bf i j)) ->
  forall i j a b, i < n -> j < n -> a < r i -> b < r j ->
  ent azero (two_symm_blocks azero n bf) (off r i + a) (off r j + b)
  = if Nat.leb i j then ent azero (bf i j) a b else ent azero (bf j i) b a.
Proof. exact @symm_entry. Qed.
Print Assumptions C11_symmetric_output_model_entries.

(* Hermitian class (two_symm_integral_h): across different shells the real matrix R of the value
   -i R satisfies R[y][x] = aconj R[x][y] (aconj = negation: R^T = -R there) whatever bf;
   inside one shell the entry is aconj of the transposed evaluated block *)
Theorem C11_hermitian_output_offdiag :
  forall (A : Type) (azero : A) (n : nat) (r : nat -> nat) (bf : nat -> nat -> list (list A)),
  (forall i, i < n -> 0 < r i) ->
  (forall i j, i < n -> j < n -> i <= j ->
     length (bf i j) = r i /\ Forall (fun row => length row = r j) (bf i j)) ->
  forall (aconj : A -> A) i j a b, i < n -> j < n -> i < j -> a < r i -> b < r j ->
  ent azero (two_symm_blocks_h azero aconj n bf) (off r j + b) (off r i + a)
  = aconj (ent azero (two_symm_blocks_h azero aconj n bf) (off r i + a) (off r j + b)).
Proof. exact @hermitian_output_offdiag. Qed.
Print Assumptions C11_hermitian_output_offdiag.

Theorem C11_hermitian_output_diag :
  forall (A : Type) (azero : A) (n : nat) (r : nat -> nat) (bf : nat -> nat -> list (list A)),
  (forall i, i < n -> 0 < r i) ->
  (forall i j, i < n -> j < n -> i <= j ->
     length (bf i j) = r i /\ Forall (fun row => length row = r j) (bf i j)) ->
  forall (aconj : A -> A) i a b, i < n -> a < r i -> b < r i ->
  ent azero (two_symm_blocks_h azero aconj n bf) (off r i + a) (off r i + b)
  = aconj (ent azero (bf i i) b a).
Proof. exact @hermitian_output_diag. Qed.
Print Assumptions C11_hermitian_output_diag.

Example C11_copy_hides_asymmetry :
  ent 0 (two_symm_blocks_t 0 3 Bas) 0 2 = ent 0 (two_symm_blocks_t 0 3 Bas) 2 0 /\
  ent 0 (Bas 0 1) 0 1 <> ent 0 (Bas 1 0) 1 0.
Proof. exact ex_copy_hides_asymmetry. Qed.
Print Assumptions C11_copy_hides_asymmetry.

(* ================= 3. both_orientations_agree ================= *)
(* the recursion table computed for the swapped pair (B, beta, lb | A, alpha, la), read
   transposed, equals the table of (A, alpha, la | B, beta, lb): overlap and every moment order *)
Theorem C11_both_orientations_agree_moment_tables :
  forall (F : Type) (K : Fops F), is_field K ->
  forall Ax Bx Cx alpha beta : F,
  psum K alpha beta <> f0 K -> fadd K (f1 K) (f1 K) <> f0 K ->
  forall la lb km k j i, k <= km -> j <= lb -> i <= la ->
  nth3 K k i j (table K Bx Ax Cx beta alpha lb la km)
  = nth3 K k j i (table K Ax Bx Cx alpha beta la lb km).
Proof. exact @table_swap. Qed.
Print Assumptions C11_both_orientations_agree_moment_tables.

(* derivative tables (the derivative acts on the left, padded, function in both computations):
   (-1)^k, i.e. antisymmetric for momentum / angular momentum, symmetric for kinetic energy *)
Theorem C11_both_orientations_derivative_tables :
  forall (F : Type) (K : Fops F), is_field K ->
  forall Ax Bx alpha beta : F,
  psum K alpha beta <> f0 K -> fadd K (f1 K) (f1 K) <> f0 K ->
  forall la lb D k j i, k <= D -> j <= lb -> i <= la ->
  nth3 K k i j (dtable K Bx Ax beta alpha lb la D)
  = sg K k (nth3 K k j i (dtable K Ax Bx alpha beta la lb D)).
Proof. exact @dtable_swap. Qed.
Print Assumptions C11_both_orientations_derivative_tables.

Theorem C11_first_derivative_antisymmetric :
  forall (F : Type) (K : Fops F), is_field K ->
  forall Ax Bx alpha beta : F,
  psum K alpha beta <> f0 K -> fadd K (f1 K) (f1 K) <> f0 K ->
  forall la lb D j i, 1 <= D -> j <= lb -> i <= la ->
  nth3 K 1 i j (dtable K Bx Ax beta alpha lb la D)
  = fopp K (nth3 K 1 j i (dtable K Ax Bx alpha beta la lb D)).
Proof. exact @dtable_swap_first. Qed.
Print Assumptions C11_first_derivative_antisymmetric.

Theorem C11_second_derivative_symmetric :
  forall (F : Type) (K : Fops F), is_field K ->
  forall Ax Bx alpha beta : F,
  psum K alpha beta <> f0 K -> fadd K (f1 K) (f1 K) <> f0 K ->
  forall la lb D j i, 2 <= D -> j <= lb -> i <= la ->
  nth3 K 2 i j (dtable K Bx Ax beta alpha lb la D)
  = nth3 K 2 j i (dtable K Ax Bx alpha beta la lb D).
Proof. exact @dtable_swap_second. Qed.
Print Assumptions C11_second_derivative_symmetric.

Example C11_orientation_hypotheses_satisfiable :
  is_field QK /\ psum QK (f1 QK) (fadd QK (f1 QK) (f1 QK)) <> f0 QK /\ fadd QK (f1 QK) (f1 QK) <> f0 QK.
Proof. exact ex_orient_hyps. Qed.
Print Assumptions C11_orientation_hypotheses_satisfiable.
