(* Props/C01_sph.v — property C01, diag_one_sph: the diagonal of the assembled overlap matrix is 1 at SPHERICAL
   shells (l <= 10), for bases mixing Cartesian and spherical shells.  Only statements closed by [exact] of a
   lemma of Proofs/DiagSphP.v / DiagSphCheckP.v / DiagSphRealP.v, each followed by Print Assumptions.

   Symbols (C01sph_unfold):  D_c = dfp c = prod (2c_i-1)!!;  g(n) = gk n = (n-1)!! (n even), 0 (n odd);
   G(c,c') = Gk c c' = prod_axis g(c_i + c'_i) — the overlap of the monomials x^c, x^c' of one shell up to the
   radial factor;  rs c = 1/sqrt D_c;  Rad s m = the radial part of the self-overlap of segment m;
   Orth s q q' = sum_cc' T_s[q][c] T_s[q'][c'] G(c,c') rs c rs c' — Gram matrix of the rows of the shell's
   transformation for unit-normalised Cartesians (T_s = Model/Spherical.shell_transform for a spherical shell,
   identity for a Cartesian one);  sqrt_ok x = (sqrt x)^2 = x and x <> 0;  hcoef / hrad = the rational
   coefficient and the radicand of a row of generate_transformation (no square root);
   Eorth l m sine = hrad l m / (2l-1)!! * sum_cc' h_c G(c,c') h_c' on the default Cartesian order.

   How the statement is obtained, and what is NOT used: Props/C10.v proves orthonormality of the rows on the exact
   model Model/SphExact.v (entries r*sqrt q).  Composing it with the assembled overlap would need the lemma
     MISSING:  Model/Spherical.sph_transform K l carts labels [i][j] = r * fsqrt K q  for (r, q) the entry of
               SphExact.left_form l carts labels, in a field K with exact square roots,
   which is not proved.  Instead the orthonormality is re-established here for Model/Spherical itself (the
   transform the assembled models use), on the same finite domain: rational identity by complete enumeration
   l <= 10 over the exact rationals (C01sph_rows_unit_Qc, vm_compute), transported to R (C01sph_rows_unit_R).
   Restrictions kept visible: default Cartesian order of the spherical shell (a permuted order needs invariance of
   the double sum under permutation); the positivity of the segment's self-overlap is a premise, as in
   C01_diag_one_cart_R, and is discharged for uncontracted shells. *)
From Coq Require Import List Arith Reals.
From GB Require Import Base.Field Base.FNum Base.Tables Model.Shell Model.MomentInt Model.Spherical Model.Overlap
  Proofs.CoreSumP Proofs.CoreBlockP Proofs.ScreeningP Proofs.AssembledP Proofs.AssembledOverlapP
  Proofs.AssembledRealP Proofs.AssembledSphP Proofs.AssembledSphOverlapP
  Proofs.DiagSphP Proofs.DiagSphCheckP Proofs.DiagSphRealP.
Import ListNotations.

Theorem C01sph_unfold :
  forall (F : Type) (K : Fops F) (s : shell F) (c c' : comp) (n m q q' l : nat) (sine : bool) (x : F),
  dfp K c = fmul K (fmul K (fdf_odd K (cx c)) (fdf_odd K (cy c))) (fdf_odd K (cz c))
  /\ gk K n = (if Nat.even n then fdf_odd K (n / 2) else f0 K)
  /\ Gk K c c' = fmul K (fmul K (gk K (cx c + cx c')) (gk K (cy c + cy c'))) (gk K (cz c + cz c'))
  /\ rs K c = fdiv K (f1 K) (fsqrt K (dfp K c))
  /\ Orth K s q q' = dsum K s s q q' (fun a b =>
       fmul K (Gk K (nth a (comps_of s) (0, 0, 0)) (nth b (comps_of s) (0, 0, 0)))
              (fmul K (rs K (nth a (comps_of s) (0, 0, 0))) (rs K (nth b (comps_of s) (0, 0, 0)))))
  /\ (sqrt_ok K x <-> fmul K (fsqrt K x) (fsqrt K x) = x /\ x <> f0 K)
  /\ hrad K l m = fdiv K (fmul K (fmul K (fadd K (f1 K) (f1 K)) (ffact K (l + m))) (ffact K (l - m)))
                         (if Nat.eqb m 0 then fadd K (f1 K) (f1 K) else f1 K)
  /\ Eorth K l m sine = fmul K (fdiv K (hrad K l m) (fdf_odd K l))
       (FNum.fsum K (map (fun a => FNum.fsum K (map (fun b =>
          fmul K (fmul K (hcoef K l m sine a) (Gk K a b)) (hcoef K l m sine b)) (default_comps l))) (default_comps l))).
Proof. exact (fun F K s c c' n m q q' l sine x => conj eq_refl (conj eq_refl (conj eq_refl (conj eq_refl
         (conj eq_refl (conj (conj (fun H => H) (fun H => H)) (conj eq_refl eq_refl))))))). Qed.
Print Assumptions C01sph_unfold.

(* ---- any field: the self-overlap block factorises; the contraction norm is component-independent ---- *)
Theorem C01sph_self_block_factor :
  forall (F : Type) (K : Fops F), is_field K -> (forall x : F, fapx K x = x) -> fadd K (f1 K) (f1 K) <> f0 K ->
  forall s : shell F, wf_shell s -> comps_homog s -> exps_ok K s s ->
  forall m c c', m < nseg s -> c < ncomp s -> c' < ncomp s ->
  nth4 K m c m c' (overlap_block K s s)
  = fmul K (Rad K s m)
      (fmul K (Gk K (nth c (comps_of s) (0, 0, 0)) (nth c' (comps_of s) (0, 0, 0)))
              (fmul K (rs K (nth c (comps_of s) (0, 0, 0))) (rs K (nth c' (comps_of s) (0, 0, 0))))).
Proof. exact (fun F K Kf Hapx H2 => self_block_factor K Kf Hapx H2). Qed.
Print Assumptions C01sph_self_block_factor.

Theorem C01sph_norm_cont_component_independent :
  forall (F : Type) (K : Fops F), is_field K -> (forall x : F, fapx K x = x) -> fadd K (f1 K) (f1 K) <> f0 K ->
  forall s : shell F, wf_shell s -> comps_homog s -> exps_ok K s s ->
  forall m c, m < nseg s -> c < ncomp s -> sqrt_ok K (dfp K (nth c (comps_of s) (0, 0, 0))) ->
  nth4 K m c m c (overlap_block K s s) = Rad K s m
  /\ ncont K s m c = fdiv K (f1 K) (fsqrt K (Rad K s m)).
Proof. exact (fun F K Kf Hapx H2 s Ws Hs Es m c Hm Hc Hd =>
         conj (self_block_diag K Kf Hapx H2 s Ws Hs Es m c Hm Hc Hd)
              (ncont_component_independent K Kf Hapx H2 s Ws Hs Es m c Hm Hc Hd)). Qed.
Print Assumptions C01sph_norm_cont_component_independent.

(* within one segment of one shell the assembled overlap IS the Gram matrix of the rows of T_s *)
Theorem C01sph_diag_block_is_Orth :
  forall (F : Type) (K : Fops F), is_field K -> (forall x : F, fapx K x = x) -> fadd K (f1 K) (f1 K) <> f0 K ->
  forall bs : list (shell F), (forall s, In s bs -> 0 < nseg s) -> basis_wf bs -> basis_exps K bs bs ->
  forall i m q q', i < length bs -> comps_homog (sh_at K bs i) ->
  m < nseg (sh_at K bs i) -> q < osize (sh_at K bs i) -> q' < osize (sh_at K bs i) ->
  (forall c, c < ncomp (sh_at K bs i) -> sqrt_ok K (dfp K (nth c (comps_of (sh_at K bs i)) (0, 0, 0)))) ->
  sqrt_ok K (Rad K (sh_at K bs i) m) ->
  nth (oidx K bs i m q') (nth (oidx K bs i m q) (overlap_integral K bs None) []) (f0 K)
  = Orth K (sh_at K bs i) q q'.
Proof. exact (fun F K Kf Hapx H2 => sph_diag_block_is_Orth K Kf Hapx H2). Qed.
Print Assumptions C01sph_diag_block_is_Orth.

(* diag_one_sph given orthonormal rows (any field with a square-root oracle exact on the self-overlap) *)
Theorem C01_diag_one_sph_of_orthonormal :
  forall (F : Type) (K : Fops F), is_field K -> (forall x : F, fapx K x = x) -> fadd K (f1 K) (f1 K) <> f0 K ->
  forall bs : list (shell F), (forall s, In s bs -> 0 < nseg s) -> basis_wf bs -> basis_exps K bs bs ->
  forall i m q, i < length bs -> comps_homog (sh_at K bs i) ->
  m < nseg (sh_at K bs i) -> q < osize (sh_at K bs i) ->
  (forall c, c < ncomp (sh_at K bs i) -> sqrt_ok K (dfp K (nth c (comps_of (sh_at K bs i)) (0, 0, 0)))) ->
  sqrt_ok K (Rad K (sh_at K bs i) m) ->
  Orth K (sh_at K bs i) q q = f1 K ->
  nth (oidx K bs i m q) (nth (oidx K bs i m q) (overlap_integral K bs None) []) (f0 K) = f1 K.
Proof. exact (fun F K Kf Hapx H2 => diag_one_sph_of_orthonormal K Kf Hapx H2). Qed.
Print Assumptions C01_diag_one_sph_of_orthonormal.

(* the rows of Model/Spherical.sph_transform in rational terms: Orth(q,q) = rad/(2l-1)!! * h.G.h *)
Theorem C01sph_Orth_rational :
  forall (F : Type) (K : Fops F), is_field K -> (forall x : F, fapx K x = x) ->
  forall (s : shell F) (q : nat), s_sph s = true -> q < nlab s ->
  let lb := nth q (labels_of s) (false, false, 0) in
  (forall c, c < ncomp s -> sqrt_ok K (dfp K (nth c (comps_of s) (0, 0, 0)))) ->
  sqrt_ok K (fdf_odd K (s_l s)) ->
  fmul K (fsqrt K (hrad K (s_l s) (snd lb))) (fsqrt K (hrad K (s_l s) (snd lb))) = hrad K (s_l s) (snd lb) ->
  Orth K s q q
  = fmul K (fdiv K (hrad K (s_l s) (snd lb)) (fdf_odd K (s_l s)))
           (HGH K (s_l s) (snd lb) (snd (fst lb)) (comps_of s)).
Proof. exact (fun F K Kf Hapx => Orth_rational K Kf Hapx). Qed.
Print Assumptions C01sph_Orth_rational.

(* ---- the finite domain l <= 10, enumerated completely over the exact rationals ---- *)
Theorem C01sph_rows_unit_Qc :
  forall l sine m, l <= 10 -> m <= l /\ (sine = true -> 1 <= m) -> Eorth QK l m sine = f1 QK.
Proof. exact Eorth_Q_le10. Qed.
Print Assumptions C01sph_rows_unit_Qc.

Theorem C01sph_rows_unit_R :
  forall l sine m, l <= 10 -> m <= l /\ (sine = true -> 1 <= m) -> Eorth RK l m sine = 1%R.
Proof. exact orth_rational_le10_R. Qed.
Print Assumptions C01sph_rows_unit_R.

(* ---- diag_one_sph over the reals ---- *)
Theorem C01_diag_one_sph_R :
  forall bs : list (shell R), (forall s, In s bs -> 0 < nseg s) -> basis_wf bs ->
  (forall s, In s bs -> forall x, In x (s_exps s) -> (0 < x)%R) ->
  forall i m q, i < length bs ->
  let s := sh_at RK bs i in
  s_sph s = true -> s_l s <= 10 -> comps_of s = default_comps (s_l s) ->
  m < nseg s -> q < length (labels_of s) ->
  (let lb := nth q (labels_of s) (false, false, 0) in snd lb <= s_l s /\ (snd (fst lb) = true -> 1 <= snd lb)) ->
  (0 < nth4 RK m 0 m 0 (overlap_block RK s s))%R ->
  nth (oidx RK bs i m q) (nth (oidx RK bs i m q) (overlap_integral RK bs None) []) 0%R = 1%R.
Proof. exact diag_one_sph_R. Qed.
Print Assumptions C01_diag_one_sph_R.

(* the whole diagonal of a basis of default-convention shells, Cartesian and spherical mixed *)
Theorem C01_diag_one_mixed_R :
  forall bs : list (shell R), (forall s, In s bs -> 0 < nseg s) -> basis_wf bs ->
  (forall s, In s bs -> forall x, In x (s_exps s) -> (0 < x)%R) ->
  (forall s, In s bs -> s_comps s = [] /\ s_labels s = [] /\ (s_sph s = true -> s_l s <= 10)) ->
  (forall i m, i < length bs -> m < nseg (sh_at RK bs i) ->
     (0 < nth4 RK m 0 m 0 (overlap_block RK (sh_at RK bs i) (sh_at RK bs i)))%R) ->
  forall I, I < ototal RK bs -> nth I (nth I (overlap_integral RK bs None) []) 0%R = 1%R.
Proof. exact diag_one_mixed_R. Qed.
Print Assumptions C01_diag_one_mixed_R.

(* uncontracted shells with non-zero coefficients: no premise left *)
Theorem C01_diag_one_mixed_uncontracted_R :
  forall bs : list (shell R), (forall s, In s bs -> 0 < nseg s) ->
  (forall s, In s bs -> exists alpha row,
     (s_exps s = [alpha] /\ s_coeffs s = [row] /\ (0 < alpha)%R
      /\ (forall cc, In cc (comps_of s) -> cx cc + cy cc + cz cc = s_l s))
     /\ forall d, In d row -> d <> 0%R) ->
  (forall s, In s bs -> s_comps s = [] /\ s_labels s = [] /\ (s_sph s = true -> s_l s <= 10)) ->
  forall I, I < ototal RK bs -> nth I (nth I (overlap_integral RK bs None) []) 0%R = 1%R.
Proof. exact diag_one_mixed_uncontracted_R. Qed.
Print Assumptions C01_diag_one_mixed_uncontracted_R.

(* default labels are admissible (so the label hypothesis of C01_diag_one_sph_R is satisfiable) *)
Example C01sph_default_labels_admissible :
  forall l lb, In lb (default_labels l) -> snd lb <= l /\ (snd (fst lb) = true -> 1 <= snd lb).
Proof. exact default_labels_valid. Qed.
Print Assumptions C01sph_default_labels_admissible.

(* a basis over R meeting the hypotheses of C01_diag_one_mixed_R: spherical generalized d shell (K = 2, M = 2),
   Cartesian p shell, spherical f shell: 20 functions *)
Example C01sph_hypotheses_satisfiable :
  (forall s, In s ex_basis_sph -> 0 < nseg s) /\ basis_wf ex_basis_sph
  /\ (forall s, In s ex_basis_sph -> forall x, In x (s_exps s) -> (0 < x)%R)
  /\ (forall s, In s ex_basis_sph -> s_comps s = [] /\ s_labels s = [] /\ (s_sph s = true -> s_l s <= 10))
  /\ ototal RK ex_basis_sph = 20.
Proof. exact diag_sph_hypotheses_satisfiable. Qed.
Print Assumptions C01sph_hypotheses_satisfiable.

(* ... and a basis meeting every hypothesis of C01_diag_one_mixed_uncontracted_R (spherical d shell with two
   segments + Cartesian p shell): its 13 diagonal elements are 1 *)
Example C01_diag_one_sph_example_R :
  forall I, I < 13 -> nth I (nth I (overlap_integral RK ex_basis_unc None) []) 0%R = 1%R.
Proof. exact diag_one_sph_example_R. Qed.
Print Assumptions C01_diag_one_sph_example_R.
