(* Props/C20.v — theorems backing property C20 (overlap screening follows the documented cutoff
   and is conservative).  Only statements closed by [exact] of a lemma proved in
   Proofs/ScreeningP.v, each followed by Print Assumptions.

   Generic theorems (any field [K], no axioms) speak about the executable model
   (Model/Screening.v) that the correspondence check runs against /repo.  Theorems about the
   ORDER (cutoff, monotonicity, conservativeness) are stated for the same model functions
   instantiated at the real numbers, [RK] = (R, +, *, ..., Rle_dec, sqrt, exp, ln, PI); they rely
   on the classical-real axioms of the standard library (printed below). *)
From Coq Require Import List Arith Reals.
From GB Require Import Base.Field Base.Tables Model.Shell Model.MomentInt Model.Assembly Model.Overlap
  Model.Screening Proofs.ScreeningP.
Import ListNotations.

(* ---- no tolerance means no screening: decision, block, assembled matrix ---- *)
Theorem C20_no_tol_no_screen :
  forall (F : Type) (K : Fops F),
  (forall sa sb : shell F, is_screened K None sa sb = false) /\
  (forall sa sb : shell F, overlap_block_screened K None sa sb = overlap_block K sa sb) /\
  (forall (basis : list (shell F)) (T : option (list (list F))),
     overlap_integral_screened K basis T None = overlap_integral K basis T).
Proof. exact (fun F K => conj (no_tol_no_screen_dec K)
                (conj (no_tol_no_screen_block K) (no_tol_no_screen_integral K))). Qed.
Print Assumptions C20_no_tol_no_screen.

(* ---- a kept pair contributes exactly the unscreened block ---- *)
Theorem C20_kept_blocks_equal :
  forall (F : Type) (K : Fops F) (tol : option F) (sa sb : shell F),
  is_screened K tol sa sb = false -> overlap_block_screened K tol sa sb = overlap_block K sa sb.
Proof. exact (fun F K => kept_block K). Qed.
Print Assumptions C20_kept_blocks_equal.

(* ---- a removed pair contributes the all-zero block of shape (M_a, L_a, M_b, L_b), which is the
        unscreened block with every entry replaced by zero (same shape) ---- *)
Theorem C20_removed_blocks_zero :
  forall (F : Type) (K : Fops F) (tol : option F) (sa sb : shell F),
  is_screened K tol sa sb = true ->
  overlap_block_screened K tol sa sb = zero_block K sa sb
  /\ (forall m1 c1 m2 c2, nth4 K m1 c1 m2 c2 (overlap_block_screened K tol sa sb) = f0 K)
  /\ overlap_block_screened K tol sa sb = map4 (fun _ => f0 K) (overlap_block K sa sb).
Proof.
  exact (fun F K tol sa sb H =>
    conj (removed_block K tol sa sb H)
      (conj (fun m1 c1 m2 c2 => eq_ind_r (fun b => nth4 K m1 c1 m2 c2 b = f0 K)
                                  (zero_block_entry K sa sb m1 c1 m2 c2) (removed_block K tol sa sb H))
            (eq_trans (removed_block K tol sa sb H) (zero_block_is_zeroed K sa sb)))).
Qed.
Print Assumptions C20_removed_blocks_zero.

Theorem C20_zero_block_shape :
  forall (F : Type) (K : Fops F) (sa sb : shell F),
  length (zero_block K sa sb) = nseg sa /\
  (forall m1, m1 < nseg sa -> length (nth m1 (zero_block K sa sb) []) = length (comps_of sa) /\
   forall c1, c1 < length (comps_of sa) ->
     length (nth c1 (nth m1 (zero_block K sa sb) []) []) = nseg sb /\
     forall m2, m2 < nseg sb ->
       length (nth m2 (nth c1 (nth m1 (zero_block K sa sb) []) []) []) = length (comps_of sb)).
Proof. exact (fun F K => zero_block_shape K). Qed.
Print Assumptions C20_zero_block_shape.

(* ---- lift to the assembled matrix (any basis, any transform, any tolerance): the screened matrix is
        produced by the same triangle assembly from the unscreened processed blocks of the kept pairs and
        from all-zero matrices of the same shape for the removed pairs ---- *)
Theorem C20_screened_assembly :
  forall (F : Type) (K : Fops F), is_field K ->
  forall (basis : list (shell F)) (T : option (list (list F))) (tol : option F),
  overlap_integral_screened K basis T tol =
  let m := two_symm_blocks (f0 K) (length basis) (fun i j =>
             if pair_screened K tol basis i j then map2 (fun _ => f0 K) (ublock K basis i j)
             else ublock K basis i j) in
  match T with None => m | Some t => lincomb2 (f0 K) (fadd K) (fmul K) t t m end.
Proof. exact (fun F K Kf => screened_assembly K Kf). Qed.
Print Assumptions C20_screened_assembly.

Theorem C20_unscreened_assembly :
  forall (F : Type) (K : Fops F) (basis : list (shell F)),
  overlap_integral K basis None = two_symm_blocks (f0 K) (length basis) (ublock K basis).
Proof. exact (fun F K => overlap_integral_blocks K). Qed.
Print Assumptions C20_unscreened_assembly.

(* ---- the model's squared comparison is the documented rule  |R_b - R_a| > sqrt(-(a+b)/(ab) ln tol)
        with a, b the minima of the two exponent lists, for every tolerance in (0, 1] ---- *)
Theorem C20_screened_iff_documented :
  forall (tol : R) (sa sb : shell R),
  pos_exps sa -> pos_exps sb -> (0 < tol <= 1)%R ->
  (is_screened RK (Some tol) sa sb = true
   <-> (sqrt (dist2 RK sa sb)
        > sqrt (- (min_exp RK sa + min_exp RK sb) / (min_exp RK sa * min_exp RK sb) * ln tol))%R).
Proof. exact screened_iff_documented. Qed.
Print Assumptions C20_screened_iff_documented.

Theorem C20_min_exp_is_minimum :
  forall s : shell R, pos_exps s ->
  In (min_exp RK s) (s_exps s) /\ forall x, In x (s_exps s) -> (min_exp RK s <= x)%R.
Proof. exact min_exp_is_min. Qed.
Print Assumptions C20_min_exp_is_minimum.

(* ---- lowering the tolerance never removes more blocks ---- *)
Theorem C20_screen_monotone :
  forall (tol1 tol2 : R) (sa sb : shell R),
  pos_exps sa -> pos_exps sb -> (0 < tol1)%R -> (tol1 <= tol2)%R -> (tol2 <= 1)%R ->
  is_screened RK (Some tol1) sa sb = true -> is_screened RK (Some tol2) sa sb = true.
Proof. exact screen_monotone. Qed.
Print Assumptions C20_screen_monotone.

(* ---- the decision depends on the exponents only through the two minima ---- *)
Theorem C20_cutoff_uses_min_exponents :
  forall (tol : option R) (sa sb sa' sb' : shell R) (ma mb : R),
  is_min ma (s_exps sa) -> is_min ma (s_exps sa') ->
  is_min mb (s_exps sb) -> is_min mb (s_exps sb') ->
  s_x sa = s_x sa' -> s_y sa = s_y sa' -> s_z sa = s_z sa' ->
  s_x sb = s_x sb' -> s_y sb = s_y sb' -> s_z sb = s_z sb' ->
  is_screened RK tol sa sb = is_screened RK tol sa' sb'.
Proof. exact cutoff_uses_min_exponents. Qed.
Print Assumptions C20_cutoff_uses_min_exponents.

Theorem C20_replace_nonminimal_exponent :
  forall (m x y : R) (l1 l2 : list R),
  In m (l1 ++ l2) -> is_min m (l1 ++ x :: l2) -> (m <= y)%R -> is_min m (l1 ++ y :: l2).
Proof. exact is_min_replace. Qed.
Print Assumptions C20_replace_nonminimal_exponent.

(* ---- conservative: every removed s-type element is below tol times the sums of the normalised
        absolute contraction coefficients ---- *)
Theorem C20_removed_s_bound :
  forall (la lb : list (R * R)) (na nb tol d2 ma mb : R),
  (forall ca, In ca la -> (0 < snd ca)%R) -> (forall cb, In cb lb -> (0 < snd cb)%R) ->
  is_min ma (map snd la) -> is_min mb (map snd lb) ->
  (0 < tol <= 1)%R -> (0 <= na)%R -> (0 <= nb)%R ->
  (- (ma + mb) / (ma * mb) * ln tol < d2)%R ->
  (Rabs (S_contr na nb la lb d2) <= tol * (na * abs_sum la) * (nb * abs_sum lb))%R
  /\ ((0 < na * abs_sum la)%R -> (0 < nb * abs_sum lb)%R ->
      (Rabs (S_contr na nb la lb d2) < tol * (na * abs_sum la) * (nb * abs_sum lb))%R).
Proof. exact removed_s_bound. Qed.
Print Assumptions C20_removed_s_bound.

Theorem C20_removed_s_bound_model :
  forall (sa sb : shell R) (ca cb : list R) (na nb tol : R),
  pos_exps sa -> pos_exps sb -> length ca = length (s_exps sa) -> length cb = length (s_exps sb) ->
  (0 < tol <= 1)%R -> (0 <= na)%R -> (0 <= nb)%R ->
  is_screened RK (Some tol) sa sb = true ->
  let la := combine ca (s_exps sa) in let lb := combine cb (s_exps sb) in
  (Rabs (S_contr na nb la lb (dist2 RK sa sb)) <= tol * (na * abs_sum la) * (nb * abs_sum lb))%R
  /\ ((0 < na * abs_sum la)%R -> (0 < nb * abs_sum lb)%R ->
      (Rabs (S_contr na nb la lb (dist2 RK sa sb)) < tol * (na * abs_sum la) * (nb * abs_sum lb))%R).
Proof. exact removed_s_bound_model. Qed.
Print Assumptions C20_removed_s_bound_model.

(* the ingredients of the bound, proved, not assumed *)
Theorem C20_mu_monotone :
  forall a b a' b' : R, (0 < a)%R -> (0 < b)%R -> (a <= a')%R -> (b <= b')%R -> (mu a b <= mu a' b')%R.
Proof. exact mu_mono. Qed.
Print Assumptions C20_mu_monotone.

Theorem C20_prefactor_at_most_one :
  forall a b : R, (0 < a)%R -> (0 < b)%R -> (0 <= pref a b <= 1)%R.
Proof. exact pref_bounds. Qed.
Print Assumptions C20_prefactor_at_most_one.

(* the primitive overlap used in the bound is the number the model computes for two normalised s
   primitives (norms of contractions.py:455-461 times the three 1-D prefactors of _moment_int.py) *)
Theorem C20_sprim_is_model_primitive :
  forall a b ax ay az bx by_ bz : R, (0 < a)%R -> (0 < b)%R ->
  (norm_prim RK 0 (0, 0, 0)%nat a * norm_prim RK 0 (0, 0, 0)%nat b
   * (base RK ax bx a b * base RK ay by_ a b * base RK az bz a b)
   = sprim a b ((bx - ax) * (bx - ax) + (by_ - ay) * (by_ - ay) + (bz - az) * (bz - az)))%R.
Proof. exact sprim_is_model_primitive. Qed.
Print Assumptions C20_sprim_is_model_primitive.

(* the raw s-s block entry of the model IS the abstract double sum (any two shells with l = 0 and the
   default component list; positive exponents) *)
Theorem C20_ss_entry_dsum :
  forall xa ya za ea ca sa_ la_ xb yb zb eb cb sb_ lb_ m1 m2,
  let sa := ss_shell xa ya za ea ca sa_ la_ in let sb := ss_shell xb yb zb eb cb sb_ lb_ in
  m1 < nseg sa -> m2 < nseg sb ->
  (forall x, In x ea -> (0 < x)%R) -> (forall x, In x eb -> (0 < x)%R) ->
  nth4 RK m1 0 m2 0 (overlap_block RK sa sb)
  = dsum (col m1 ea ca) (col m2 eb cb) (fun a b => sprim a b (dist2 RK sa sb)).
Proof. exact ss_entry_dsum. Qed.
Print Assumptions C20_ss_entry_dsum.

(* the property's last clause on the model itself: entry of the normalised s-s block (the model's own
   contraction norms [norm_cont]) of a removed pair *)
Theorem C20_removed_s_bound_normalised :
  forall xa ya za ea ca sa_ la_ xb yb zb eb cb sb_ lb_ m1 m2 (tol : R),
  let sa := ss_shell xa ya za ea ca sa_ la_ in let sb := ss_shell xb yb zb eb cb sb_ lb_ in
  pos_exps sa -> pos_exps sb -> length ca = length ea -> length cb = length eb ->
  m1 < nseg sa -> m2 < nseg sb ->
  (0 < tol <= 1)%R ->
  is_screened RK (Some tol) sa sb = true ->
  let Sa := (ncont sa m1 * abs_sum (col m1 ea ca))%R in let Sb := (ncont sb m2 * abs_sum (col m2 eb cb))%R in
  let e := nth4 RK m1 0 m2 0 (normalise RK Rmult (norm_cont RK sa) (norm_cont RK sb) (overlap_block RK sa sb)) in
  (Rabs e <= tol * Sa * Sb)%R /\ ((0 < Sa)%R -> (0 < Sb)%R -> (Rabs e < tol * Sa * Sb)%R).
Proof. exact removed_s_bound_normalised. Qed.
Print Assumptions C20_removed_s_bound_normalised.

(* ... and on the entry of the processed block the assembly places in the matrix (Cartesian s shells;
   [C20_screened_assembly] says this is the block replaced by zeros when the pair is removed) *)
Theorem C20_removed_s_bound_pblock :
  forall xa ya za ea ca la_ xb yb zb eb cb lb_ m1 m2 (tol : R),
  let sa := ss_shell xa ya za ea ca false la_ in let sb := ss_shell xb yb zb eb cb false lb_ in
  pos_exps sa -> pos_exps sb -> length ca = length ea -> length cb = length eb ->
  m1 < nseg sa -> m2 < nseg sb ->
  (0 < tol <= 1)%R ->
  is_screened RK (Some tol) sa sb = true ->
  let Sa := (ncont sa m1 * abs_sum (col m1 ea ca))%R in let Sb := (ncont sb m2 * abs_sum (col m2 eb cb))%R in
  let e := nth m2 (nth m1 (pblock RK 0%R Rplus Rmult (overlap_block RK) (prep RK sa) (prep RK sb)) []) 0%R in
  (Rabs e <= tol * Sa * Sb)%R /\ ((0 < Sa)%R -> (0 < Sb)%R -> (Rabs e < tol * Sa * Sb)%R).
Proof. exact removed_s_bound_pblock. Qed.
Print Assumptions C20_removed_s_bound_pblock.

(* ---- hypotheses are satisfiable: concrete instances ---- *)
Example C20_screen_monotone_ex :
  is_screened RK (Some (3 / 4)%R) (ex_shell 0) (ex_shell 3) = true.
Proof. exact screen_monotone_ex. Qed.
Print Assumptions C20_screen_monotone_ex.

Example C20_cutoff_uses_min_exponents_ex :
  forall big big' : R, (1 <= big)%R -> (1 <= big')%R ->
  is_screened RK (Some (/ 2)%R) (mkShell R 0 0%R 0%R 0%R [1%R; big] [[1%R]; [1%R]] false [] []) (ex_shell 3)
  = is_screened RK (Some (/ 2)%R) (mkShell R 0 0%R 0%R 0%R [1%R; big'] [[1%R]; [1%R]] false [] []) (ex_shell 3).
Proof. exact cutoff_uses_min_exponents_ex. Qed.
Print Assumptions C20_cutoff_uses_min_exponents_ex.

Example C20_removed_s_bound_ex :
  (Rabs (S_contr 1 1 [(1, 1)] [(1, 1)] 9) < / 2 * (1 * abs_sum [(1, 1)]) * (1 * abs_sum [(1, 1)]))%R.
Proof. exact removed_s_bound_ex. Qed.
Print Assumptions C20_removed_s_bound_ex.

Example C20_removed_s_bound_pblock_ex :
  let sa := ss_shell 0 0 0 [1%R] [[1%R]] false [] in let sb := ss_shell 3 0 0 [1%R] [[1%R]] false [] in
  (Rabs (nth 0 (nth 0 (pblock RK 0 Rplus Rmult (overlap_block RK) (prep RK sa) (prep RK sb)) []) 0)
   <= / 2 * (ncont sa 0 * abs_sum (col 0 [1] [[1]])) * (ncont sb 0 * abs_sum (col 0 [1] [[1]])))%R.
Proof. exact removed_s_bound_pblock_ex. Qed.
Print Assumptions C20_removed_s_bound_pblock_ex.
