(* Props/C20.v — theorems backing property C20 (overlap screening). *)
From Coq Require Import List Arith.
From GB Require Import Base.Field Model.Shell Model.MomentInt Model.Overlap Model.Screening Proofs.ScreeningP.

Theorem C20_no_tol_no_screen :
  forall (F : Type) (K : Fops F) (basis : list (shell F)) (T : option (list (list F))),
  overlap_integral_screened K basis T None = overlap_integral K basis T.
Proof. exact (fun F K => no_tol_no_screen_integral K). Qed.
Print Assumptions C20_no_tol_no_screen.
