(* Props/C06.v — theorems backing property C06 (density and density-derived fields equal their
   definitions).  Only statements closed by [exact] of a lemma proved in Proofs/DensityP.v or
   Proofs/DensityTraceP.v, each followed by Print Assumptions.

   Reading guide.  A symbol (o1,o2) stands for G(o1,o2) = sum_ab P_ab d^o1 phi_a d^o2 phi_b;  [eval K g j] is
   the value of the formal combination j when the symbols take the values g;  [drho K L] is the L-th total
   derivative of G(0,0) by the product rule d_k G(o1,o2) = G(o1+e_k,o2) + G(o1,o2+e_k).  Statements quantify
   over EVERY g (or every symmetric g, which is what a symmetric density matrix gives: Gval_sym). *)
From Coq Require Import List Arith ZArith QArith Qcanon Reals.
From GB Require Import Base.Field Gauss.DensityJets Proofs.DensityP Gen.DensityTrace Proofs.DensityTraceP.
Import ListNotations.
Local Close Scope Q_scope.
Local Close Scope R_scope.
Local Open Scope nat_scope.

(* The Leibniz double-binomial sum of the docstring is the iterated product rule: every order triple,
   every field, every assignment (no symmetry needed). *)
Theorem C06_leibniz_is_iterated_product_rule :
  forall (F : Type) (K : Fops F), is_field K ->
  forall (g : ord -> ord -> F) (L : ord), eval K g (leibniz K L) = eval K g (drho K L).
Proof. exact (fun F K Kf g L => leibniz_drho K Kf g L). Qed.
Print Assumptions C06_leibniz_is_iterated_product_rule.

(* The l_x <= L_x/2 loop with factor 2 (1 for the middle term of an even L_x) of evaluate_deriv_density
   equals the derivative, for every order triple, when the density matrix is symmetric. *)
Theorem C06_shortcut_correct :
  forall (F : Type) (K : Fops F), is_field K ->
  forall g : ord -> ord -> F, (forall a b, g a b = g b a) ->
  forall L : ord, eval K g (shortcut K L) = eval K g (drho K L).
Proof. exact (fun F K Kf g Hs L => shortcut_correct K Kf g Hs L). Qed.
Print Assumptions C06_shortcut_correct.

Theorem C06_grad_correct :
  forall (F : Type) (K : Fops F), is_field K ->
  forall g : ord -> ord -> F, (forall a b, g a b = g b a) ->
  forall k, k < 3 -> eval K g (grad_model K k) = eval K g (drho K (eax k)).
Proof. exact (fun F K Kf g Hs k => grad_correct K Kf g Hs k). Qed.
Print Assumptions C06_grad_correct.

Theorem C06_lap_correct :
  forall (F : Type) (K : Fops F), is_field K ->
  forall g : ord -> ord -> F, (forall a b, g a b = g b a) ->
  eval K g (lap_model K) = eval K g (lap_def K).
Proof. exact (fun F K Kf g Hs => lap_correct K Kf g Hs). Qed.
Print Assumptions C06_lap_correct.

Theorem C06_hess_correct :
  forall (F : Type) (K : Fops F), is_field K ->
  forall g : ord -> ord -> F, (forall a b, g a b = g b a) ->
  forall p q, p < 3 -> q < 3 ->
  eval K g (hess_model K p q) = eval K g (drho K (oplus (eax p) (eax q))).
Proof. exact (fun F K Kf g Hs p q => hess_correct K Kf g Hs p q). Qed.
Print Assumptions C06_hess_correct.

Theorem C06_hess_sym :
  forall (F : Type) (K : Fops F), is_field K ->
  forall (g : ord -> ord -> F) p q, eval K g (hess_model K p q) = eval K g (hess_model K q p).
Proof. exact (fun F K Kf g p q => hess_sym K g p q). Qed.
Print Assumptions C06_hess_sym.

Theorem C06_hess_trace_lap :
  forall (F : Type) (K : Fops F), is_field K ->
  forall g : ord -> ord -> F, (forall a b, g a b = g b a) ->
  eval K g (hess_model K 0 0 ++ hess_model K 1 1 ++ hess_model K 2 2) = eval K g (lap_model K).
Proof. exact (fun F K Kf g Hs => hess_trace_lap K Kf g Hs). Qed.
Print Assumptions C06_hess_trace_lap.

Theorem C06_gked_correct :
  forall (F : Type) (K : Fops F), is_field K ->
  forall g : ord -> ord -> F, (forall a b, g a b = g b a) ->
  forall alpha : F, eval K g (gked_model K alpha) = eval K g (gked_def K alpha).
Proof. exact (fun F K Kf g Hs alpha => gked_correct K Kf g Hs alpha). Qed.
Print Assumptions C06_gked_correct.

(* The hypotheses are satisfiable and are the intended ones: Qc is a field; for a symmetric matrix P the
   numbers G(o1,o2) = sum_ab P_ab phi^o1_a phi^o2_b are symmetric in (o1,o2). *)
Example C06_hyp_field : is_field KQ.
Proof. exact KQ_field. Qed.
Print Assumptions C06_hyp_field.

Example C06_hyp_symmetric :
  forall (n : nat) (P : nat -> nat -> R) (phi : ord -> nat -> R),
  (forall a b, P a b = P b a) -> forall o1 o2, Gval n P phi o1 o2 = Gval n P phi o2 o1.
Proof. exact Gval_sym. Qed.
Print Assumptions C06_hyp_symmetric.

(* Positive semi-definite density matrix: density and positive-definite kinetic energy density >= 0. *)
Theorem C06_density_nonneg :
  forall (n : nat) (P : nat -> nat -> R) (phi : ord -> nat -> R),
  (forall v, (0 <= quad n P v)%R) -> (0 <= Gval n P phi ord0 ord0)%R.
Proof. exact density_nonneg. Qed.
Print Assumptions C06_density_nonneg.

Theorem C06_ked_nonneg :
  forall (n : nat) (P : nat -> nat -> R) (phi : ord -> nat -> R),
  (forall v, (0 <= quad n P v)%R) ->
  (0 <= / 2 * (Gval n P phi (eax 0) (eax 0) + Gval n P phi (eax 1) (eax 1) + Gval n P phi (eax 2) (eax 2)))%R.
Proof. exact ked_nonneg. Qed.
Print Assumptions C06_ked_nonneg.

Example C06_hyp_psd : forall v : nat -> R, (0 <= quad 1 (fun _ _ => 1%R) v)%R.
Proof. exact psd_satisfiable. Qed.
Print Assumptions C06_hyp_psd.

(* The threshold rule: a negative value is returned as 0 when its magnitude is at most the threshold,
   is an error when it is larger, anything else is returned unchanged. *)
Theorem C06_clip_spec :
  forall thr x : Q, (0 <= thr)%Q ->
  ((x < - thr)%Q -> clip thr x = None) /\
  ((- thr <= x)%Q /\ (x < 0)%Q -> clip thr x = Some 0%Q) /\
  ((0 <= x)%Q -> clip thr x = Some x) /\
  (clip thr x = None -> (x < - thr)%Q).
Proof. exact clip_spec. Qed.
Print Assumptions C06_clip_spec.

(* Array form (the code tests the minimum only): rejected iff some element is below -thr. *)
Theorem C06_clip_arr_spec :
  forall (thr x : Q) (r : list Q), (0 <= thr)%Q ->
  (clip_arr thr x r = None <-> exists y, In y (x :: r) /\ (y < - thr)%Q).
Proof. exact clip_arr_spec. Qed.
Print Assumptions C06_clip_arr_spec.

(* The formulas the CURRENT density.py computes (traced on every run, Gen/DensityTrace.v) are the defining
   quantities: all 125 order triples of evaluate_deriv_density, gradient, Laplacian, Hessian (symmetric,
   trace = Laplacian), posdef KED (threshold applied to the returned quantity), general KED; for the
   "general" and the "direct" back-end flag (the direct back-end is only ever asked for orders <= 2). *)
Theorem C06_code_general :
  code_formulas_ok 1 tr_deriv_general tr_grad_general tr_lap_general tr_hess_general
    tr_ked_general_tested tr_ked_general_returned tr_gked_general_a0 tr_gked_general_a1 tr_gked_general_zero.
Proof. exact code_general_correct. Qed.
Print Assumptions C06_code_general.

Theorem C06_code_direct :
  code_formulas_ok 2 tr_deriv_direct tr_grad_direct tr_lap_direct tr_hess_direct
    tr_ked_direct_tested tr_ked_direct_returned tr_gked_direct_a0 tr_gked_direct_a1 tr_gked_direct_zero.
Proof. exact code_direct_correct. Qed.
Print Assumptions C06_code_direct.

Theorem C06_code_density :
  (forall g, symg g -> eval KQ g (conv tr_density_returned) = eval KQ g (drho KQ ord0)) /\
  (forall g, symg g -> eval KQ g (conv tr_density_tested) = eval KQ g (conv tr_density_returned)).
Proof. exact code_density_correct. Qed.
Print Assumptions C06_code_density.
