(* Props/C09.v — theorems backing property C09 (spherical, mixed and linearly
   transformed results derive from the Cartesian ones).  Only statements closed
   by [exact] of a lemma of Proofs/AssemblyP.v, each followed by Print Assumptions.
   All statements are unbounded in the number of shells, block shapes and T. *)
From Coq Require Import List Arith Bool.
From GB Require Import Base.Field Base.Tables Base.Blocks Model.Shell Model.Spherical Model.Assembly
  Model.Assembly14 Proofs.AssemblyP.
Import ListNotations.

(* ---- one index (base_one.py) ---- *)
(* (a) any list of shells, any cart/sph assignment, any blocks: the assembled array
   is the all-Cartesian array with (+)_s T_s applied to the basis index. *)
Theorem C09_one_mix_is_cart_transformed :
  forall (F : Type) (K : Fops F) (A : Type) (azero : A) (aadd : A -> A -> A) (ascale : F -> A -> A)
         (P : A -> Prop), module_laws K azero aadd ascale P ->
  forall l : list (@sh F * list (list A)), Forall (shell_ok ascale P) l ->
  one_mix azero aadd ascale l = lin azero aadd ascale (Ubasis K ascale l) (one_cartesian ascale l).
Proof. exact (fun F K A z a s P ML => one_mix_is_cart_transformed_L K z a s P ML). Qed.
Print Assumptions C09_one_mix_is_cart_transformed.

Example C09_module_laws_satisfiable :
  forall (F : Type) (K : Fops F), is_field K -> module_laws K (f0 K) (fadd K) (fmul K) (fun _ => True).
Proof. exact (fun F K Kf => module_laws_field K Kf). Qed.
Print Assumptions C09_module_laws_satisfiable.

Example C09_shell_ok_satisfiable :
  forall (F : Type) (K : Fops F) (x y : F),
  Forall (shell_ok (fmul K) (fun _ => True))
    [ (mkSh true [[f1 K; f1 K]] [[f1 K; f1 K]], [[x; y]]); (mkSh false [] [[f1 K]], [[x]]) ].
Proof. exact (fun F K x y => shell_ok_example K x y). Qed.
Print Assumptions C09_shell_ok_satisfiable.

(* (b) the three code paths agree *)
Theorem C09_one_spherical_is_mix_all_sph :
  forall (F : Type) (A : Type) (azero : A) (aadd : A -> A -> A) (ascale : F -> A -> A)
         (l : list (@sh F * list (list A))),
  one_spherical azero aadd ascale l = one_mix azero aadd ascale (map (set_sph true) l).
Proof. exact (fun F A z a s l => one_spherical_is_mix z a s l). Qed.
Print Assumptions C09_one_spherical_is_mix_all_sph.

Theorem C09_one_cartesian_is_mix_all_cart :
  forall (F : Type) (A : Type) (azero : A) (aadd : A -> A -> A) (ascale : F -> A -> A)
         (l : list (@sh F * list (list A))),
  one_cartesian ascale l = one_mix azero aadd ascale (map (set_sph false) l).
Proof. exact (fun F A z a s l => one_cartesian_is_mix z a s l). Qed.
Print Assumptions C09_one_cartesian_is_mix_all_cart.

(* (c) lincomb = T (any shape) applied to the array of the shells' types; entry i is
   the dot product sum_k T[i][k] * array[k] *)
Theorem C09_one_lincomb_is_T_applied :
  forall (F : Type) (A : Type) (azero : A) (aadd : A -> A -> A) (ascale : F -> A -> A)
         (T : list (list F)) (l : list (@sh F * list (list A))),
  one_lincomb azero aadd ascale T l = lin azero aadd ascale T (one_mix azero aadd ascale l) /\
  forall i, i < length T ->
    nth i (one_lincomb azero aadd ascale T l) azero
    = dot azero aadd ascale (nth i T []) (one_mix azero aadd ascale l).
Proof. exact (fun F A z a s T l => conj (one_lincomb_is_T_applied z a s T l)
  (fun i Hi => eq_trans (f_equal (fun v => nth i v z) (one_lincomb_is_T_applied z a s T l))
                        (lin_entry z a s T _ i Hi))). Qed.
Print Assumptions C09_one_lincomb_is_T_applied.

(* ---- two indices (base_two_asymm.py, base_two_symm.py) ---- *)
(* (a) per block: the processed block of shells (s1, s2) is T_s1 on index 0 and T_s2 on
   index 1 of the Cartesian (normalised, merged) block *)
Theorem C09_block2_is_cart_transformed :
  forall (F : Type) (K : Fops F) (A : Type) (azero : A) (aadd : A -> A -> A) (ascale : F -> A -> A)
         (P : A -> Prop), module_laws K azero aadd ascale P ->
  forall sph1 sph2 s1 s2 blk, block2_ok ascale P sph1 sph2 s1 s2 blk ->
  block2 azero aadd ascale sph1 sph2 s1 s2 blk
  = mat_left_w azero aadd ascale (axis_width sph2 s2) (U_left K ascale sph1 s1 s2 blk)
      (mat_right azero aadd ascale (U_of K sph2 s2) (block2 azero aadd ascale false false s1 s2 blk)).
Proof. exact (fun F K A z a s P ML => block2_is_cart_transformed_L K z a s P ML). Qed.
Print Assumptions C09_block2_is_cart_transformed.

(* block-matrix core: assembling (vcat of hcat) commutes with block-diagonal maps, for any
   numbers of row and column blocks and any block sizes *)
Theorem C09_assembly_commutes_with_block_diagonal :
  forall (F : Type) (K : Fops F) (A : Type) (azero : A) (aadd : A -> A -> A) (ascale : F -> A -> A)
         (P : A -> Prop), module_laws K azero aadd ascale P ->
  forall n1 n2 (U1 U2 : nat -> list (list F)) (Cf Bf : nat -> nat -> list (list A)),
  0 < n2 ->
  (forall i j, i < n1 -> j < n2 ->
     Bf i j = mat_left_w azero aadd ascale (length (U2 j)) (U1 i) (mat_right azero aadd ascale (U2 j) (Cf i j))) ->
  (forall i, i < n1 -> rect (U1 i)) -> (forall j, j < n2 -> rect (U2 j)) ->
  (forall i j, i < n1 -> j < n2 -> length (Cf i j) = ncols (U1 i) /\ mat_ok P (ncols (U2 j)) (Cf i j)) ->
  two_asymm_blocks n1 n2 Bf
  = mat_left_w azero aadd ascale (fold_right plus 0 (mk n2 (fun j => length (U2 j)))) (bdiag K (mk n1 U1))
      (mat_right azero aadd ascale (bdiag K (mk n2 U2)) (two_asymm_blocks n1 n2 Cf)).
Proof. exact (fun F K A z a s P ML => asm_blocks_L K z a s P ML). Qed.
Print Assumptions C09_assembly_commutes_with_block_diagonal.

(* (a) asymmetric class: mix = (+)T_s of basis one on index 0 and (+)T_s of basis two on index 1
   of the all-Cartesian array *)
Theorem C09_two_asymm_mix_is_cart_transformed :
  forall (F : Type) (K : Fops F) (A : Type) (azero : A) (aadd : A -> A -> A) (ascale : F -> A -> A)
         (P : A -> Prop), module_laws K azero aadd ascale P ->
  forall ss1 ss2 bf, 0 < length ss1 -> 0 < length ss2 ->
  (forall i j, i < length ss1 -> j < length ss2 ->
     pair_ok K azero aadd ascale P (nth i ss1 (mkSh false [] [])) (nth j ss2 (mkSh false [] [])) (bf i j)) ->
  two_asymm_n azero aadd ascale 2 ss1 ss2 bf
  = mat_left_w azero aadd ascale (Wlist K ss2) (Ulist K ss1)
      (mat_right azero aadd ascale (Ulist K ss2) (two_asymm_n azero aadd ascale 0 ss1 ss2 bf)).
Proof. exact (fun F K A z a s P ML => two_asymm_mix_is_cart_transformed_L K z a s P ML). Qed.
Print Assumptions C09_two_asymm_mix_is_cart_transformed.

Example C09_pair_ok_satisfiable :
  forall (F : Type) (K : Fops F) (a b c d : F),
  let s := mkSh true [[f1 K; f1 K]] [[f1 K; f1 K]] in
  pair_ok K (f0 K) (fadd K) (fmul K) (fun _ => True) s s [[ [[a; b]]; [[c; d]] ]].
Proof. exact (fun F K a b c d => pair_ok_example K a b c d). Qed.
Print Assumptions C09_pair_ok_satisfiable.

(* (a) symmetric class (upper blocks evaluated, all others = transposed mirrored block).
   PARTIAL: the third hypothesis (transposition exchanges the two transforms on the mirrored
   blocks, and the transposed Cartesian blocks are well-shaped) is assumed, not derived. It does
   NOT assume that the block function is symmetric: mix = transformed cart holds for the
   mirrored assembly as such; symmetry of the block function under swapping the shells is what
   makes the mirrored assembly equal to the full one (C09_two_symm_is_full below). *)
Theorem C09_two_symm_mix_is_cart_transformed_partial :
  forall (F : Type) (K : Fops F) (A : Type) (azero : A) (aadd : A -> A -> A) (ascale : F -> A -> A)
         (P : A -> Prop), module_laws K azero aadd ascale P ->
  forall ss bf, 0 < length ss ->
  (forall i j, i < length ss -> j < length ss ->
     pair_ok K azero aadd ascale P (nth i ss (mkSh false [] [])) (nth j ss (mkSh false [] [])) (bf i j)) ->
  (forall i j, j <= i -> i < length ss ->
     let C := block2 azero aadd ascale false false (nth j ss (mkSh false [] [])) (nth i ss (mkSh false [] [])) (bf j i) in
     transpose azero (mat_left_w azero aadd ascale (length (Ui K ss i)) (Ui K ss j) (mat_right azero aadd ascale (Ui K ss i) C))
     = mat_left_w azero aadd ascale (length (Ui K ss j)) (Ui K ss i) (mat_right azero aadd ascale (Ui K ss j) (transpose azero C)) /\
     length (transpose azero C) = ncols (Ui K ss i) /\ mat_ok P (ncols (Ui K ss j)) (transpose azero C)) ->
  two_symm_n azero aadd ascale 2 ss bf
  = mat_left_w azero aadd ascale (Wlist K ss) (Ulist K ss)
      (mat_right azero aadd ascale (Ulist K ss) (two_symm_n azero aadd ascale 0 ss bf)).
Proof. exact (fun F K A z a s P ML => two_symm_mix_is_cart_transformed_partial_L K z a s P ML). Qed.
Print Assumptions C09_two_symm_mix_is_cart_transformed_partial.

(* with a block function that is symmetric under swapping the shells (processed blocks:
   B j i transposed = B i j) the mirrored assembly is the assembly of all blocks *)
Theorem C09_two_symm_is_full :
  forall (A : Type) (azero : A) (n : nat) (Bf : nat -> nat -> list (list A)),
  (forall i j, j <= i -> i < n -> transpose azero (Bf j i) = Bf i j) ->
  two_symm_blocks_t azero n Bf = two_asymm_blocks n n Bf.
Proof. exact (fun A z n Bf H => two_symm_is_full z n Bf H). Qed.
Print Assumptions C09_two_symm_is_full.

Example C09_symmetric_block_function_exists :
  forall (A : Type) (azero x : A),
  let Bf := fun _ _ : nat => [[x]] in
  forall i j, j <= i -> i < 3 -> transpose azero (Bf j i) = Bf i j.
Proof. exact (fun A z x i j _ _ => eq_refl). Qed.
Print Assumptions C09_symmetric_block_function_exists.

(* (b) the cartesian / spherical code paths are the mix path on all-Cartesian / all-spherical types *)
Theorem C09_two_paths_agree :
  forall (F : Type) (A : Type) (azero : A) (aadd : A -> A -> A) (ascale : F -> A -> A) mode,
  (forall ss1 ss2 bf,
    (mode = 0 -> forall s, In s ss1 \/ In s ss2 -> sh_sph s = false) ->
    (mode = 1 -> forall s, In s ss1 \/ In s ss2 -> sh_sph s = true) ->
    two_asymm_n azero aadd ascale mode ss1 ss2 bf = two_asymm_n azero aadd ascale 2 ss1 ss2 bf) /\
  (forall ss bf,
    (mode = 0 -> forall s : @sh F, In s ss -> sh_sph s = false) ->
    (mode = 1 -> forall s, In s ss -> sh_sph s = true) ->
    two_symm_n azero aadd ascale mode ss bf = two_symm_n azero aadd ascale 2 ss bf).
Proof. exact (fun F A z a s mode => conj (two_asymm_paths z a s mode) (two_symm_paths z a s mode)). Qed.
Print Assumptions C09_two_paths_agree.

(* (c) lincomb with (rectangular) T1, T2: entry (i, j) = sum_l T2[j][l] * (sum_k T1[i][k] * row_k)[l] *)
Theorem C09_two_lincomb_is_T_applied :
  forall (F : Type) (A : Type) (azero : A) (aadd : A -> A -> A) (ascale : F -> A -> A)
         (T1 T2 : list (list F)) (m : list (list A)) i j,
  i < length T1 -> j < length T2 ->
  nth j (nth i (lincomb2n azero aadd ascale (Some T1) (Some T2) m) []) azero
  = dot azero aadd ascale (nth j T2 [])
      (dot (rzero azero (length (hd [] m))) (radd aadd) (rscale ascale) (nth i T1 []) m).
Proof. exact (fun F A z a s T1 T2 m i j => lincomb2n_entry z a s T1 T2 m i j). Qed.
Print Assumptions C09_two_lincomb_is_T_applied.

(* ---- four indices (base_four_symm.py) ---- *)
(* PARTIAL (this form): per block, first index only, as an equation between whole blocks.  The
   statement for ALL FOUR indices is proved entry by entry in Props/C09_block4.v
   (C09_block4_entry / C09_block4_is_cart_transformed, any module, no law; C09_block4_quadruple_sum
   over a field) and lifted to the assembled arrays there (C09_four_symm_mix_is_cart_transformed,
   C09_eri_mixed_is_cart_transformed_full: no symmetry hypothesis, sym8 is a theorem for the ERI
   blocks, C09_eri_sym8).  For an ARBITRARY block function the eight-fold symmetry stays a
   hypothesis (the code evaluates one quartet per orbit and copies); the list-level equation
   C09_four_mix_statement below is not proved in that generality (it is checked by the
   labelled-integer correspondence for every type pattern of <= 4 shells). *)
Theorem C09_block4_index1_partial :
  forall (F : Type) (K : Fops F) (A : Type) (azero : A) (aadd : A -> A -> A) (ascale : F -> A -> A)
         (P : A -> Prop), module_laws K azero aadd ascale P ->
  forall t1 t2 t3 t4 s1 s2 s3 s4 blk,
  ax_ok (P3 P t2 t3 t4 s2 s3 s4) t1 (sh_T s1) (b2_of azero aadd ascale t2 t3 t4 s1 s2 s3 s4 blk) ->
  block4 azero aadd ascale t1 t2 t3 t4 s1 s2 s3 s4 blk
  = lin (rzero (rzero (rzero azero (axis_width t4 s4)) (axis_width t3 s3)) (axis_width t2 s2))
        (r3add aadd) (r3scale ascale)
        (Ush K t1 (sh_T s1) (b2_of azero aadd ascale t2 t3 t4 s1 s2 s3 s4 blk))
        (block4 azero aadd ascale false t2 t3 t4 s1 s2 s3 s4 blk).
Proof. exact (fun F K A z a s P ML => block4_index1_partial K z a s P ML). Qed.
Print Assumptions C09_block4_index1_partial.

(* the full four-index statement (a Definition, not a theorem: not proved) *)
Definition C09_four_mix_statement : Prop :=
  forall (F : Type) (K : Fops F), is_field K ->
  forall (ss : list (@sh F)) bf,
  four_symm (f0 K) (fadd K) (fmul K) 2 ss bf
  = (let U := Ulist K ss in
     let m := four_symm (f0 K) (fadd K) (fmul K) 0 ss bf in
     map (map (map (lin (f0 K) (fadd K) (fmul K) U)))
       (map (map (fun r2 => lin (rzero (f0 K) (length (hd [] r2))) (radd (fadd K)) (rscale (fmul K)) U r2))
         (map (fun r3 => lin (rzero (rzero (f0 K) (length (hd [] (hd [] r3)))) (length (hd [] r3)))
                              (radd (radd (fadd K))) (rscale (rscale (fmul K))) U r3)
           (lin (rzero (rzero (rzero (f0 K) (length (hd [] (hd [] (hd [] m))))) (length (hd [] (hd [] m))))
                       (length (hd [] m)))
                (radd (radd (radd (fadd K)))) (rscale (rscale (rscale (fmul K)))) U m)))).

(* ---- (d) component order / sign conventions ---- *)
(* the transform of a shell reporting permuted Cartesian components (pi) and permuted / signed
   spherical labels (sg) is the reference transform with columns permuted by pi, rows permuted
   and signed by sg: all l, all conventions *)
Theorem C09_convention_perm_sign :
  forall (F : Type) (K : Fops F), is_field K ->
  forall l (carts : list comp) (labels : list label) (pi : list nat) (sg : list (nat * bool)) dc dl,
  Forall (fun k => k < length carts) pi -> Forall (fun p => fst p < length labels) sg ->
  sph_transform K l (map (fun k => nth k carts dc) pi)
                    (map (fun p => flip_label (snd p) (nth (fst p) labels dl)) sg)
  = map (fun p => map (fun k => fmul K (sgn K (snd p))
                                  (nth k (nth (fst p) (sph_transform K l carts labels) []) (f0 K))) pi) sg.
Proof. exact (fun F K Kf l carts labels pi sg dc dl => sph_transform_convention K Kf l carts labels pi sg dc dl). Qed.
Print Assumptions C09_convention_perm_sign.

(* and the output of a shell follows the rows of its transform: rows permuted and scaled by
   signs give outputs permuted and signed (any block, any T).  PARTIAL with respect to the
   property text: the statement that permuting the Cartesian components (columns of T together
   with the block's component axis) leaves spherical outputs unchanged needs commutativity of
   the sum and is only checked numerically. *)
Theorem C09_convention_output_rows_partial :
  forall (F : Type) (K : Fops F) (A : Type) (azero : A) (aadd : A -> A -> A) (ascale : F -> A -> A),
  (forall s, ascale s azero = azero) ->
  (forall s x y, ascale s (aadd x y) = aadd (ascale s x) (ascale s y)) ->
  (forall s a x, ascale (fmul K s a) x = ascale s (ascale a x)) ->
  forall (T : list (list F)) (sg : list (nat * F)) (v : list A),
  lin azero aadd ascale (map (fun p => map (fmul K (snd p)) (nth (fst p) T [])) sg) v
  = map (fun p => ascale (snd p) (nth (fst p) (lin azero aadd ascale T v) (dot azero aadd ascale [] v))) sg.
Proof. exact (fun F K A z a s H1 H2 H3 => lin_rows_convention K z a s H1 H2 H3). Qed.
Print Assumptions C09_convention_output_rows_partial.

Example C09_scaling_laws_satisfiable :
  forall (F : Type) (K : Fops F), is_field K ->
  (forall s, fmul K s (f0 K) = f0 K) /\
  (forall s x y, fmul K s (fadd K x y) = fadd K (fmul K s x) (fmul K s y)) /\
  (forall s a x, fmul K (fmul K s a) x = fmul K s (fmul K a x)).
Proof. exact (fun F K Kf => scaling_laws_field K Kf). Qed.
Print Assumptions C09_scaling_laws_satisfiable.
