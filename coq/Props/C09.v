(* Props/C09.v — theorems backing property C09 (spherical, mixed and linearly
   transformed results derive from the Cartesian ones).  Only statements closed
   by [exact] of a lemma of Proofs/AssemblyP.v, each followed by Print Assumptions.
   All statements are unbounded in the number of shells, block shapes and T. *)
From Coq Require Import List Arith Bool.
From GB Require Import Base.Field Base.Tables Base.Blocks Model.Shell Model.Spherical Model.Assembly
  Model.Assembly14 Proofs.AssemblyP.
Import ListNotations.

(* ---- one index (base_one.py) ---- *)
(* (a) any list of shells, any cart/sph assignment, any blocks: the assembled array
   is the all-Cartesian array with (+)_s T_s applied to the basis index. *)
Theorem C09_one_mix_is_cart_transformed :
  forall (F : Type) (K : Fops F) (A : Type) (azero : A) (aadd : A -> A -> A) (ascale : F -> A -> A)
         (P : A -> Prop), module_laws K azero aadd ascale P ->
  forall l : list (@sh F * list (list A)), Forall (shell_ok ascale P) l ->
  one_mix azero aadd ascale l = lin azero aadd ascale (Ubasis K ascale l) (one_cartesian ascale l).
Proof. exact (fun F K A z a s P ML => one_mix_is_cart_transformed_L K z a s P ML). Qed.
Print Assumptions C09_one_mix_is_cart_transformed.

Example C09_module_laws_satisfiable :
  forall (F : Type) (K : Fops F), is_field K -> module_laws K (f0 K) (fadd K) (fmul K) (fun _ => True).
Proof. exact (fun F K Kf => module_laws_field K Kf). Qed.
Print Assumptions C09_module_laws_satisfiable.

Example C09_shell_ok_satisfiable :
  forall (F : Type) (K : Fops F) (x y : F),
  Forall (shell_ok (fmul K) (fun _ => True))
    [ (mkSh true [[f1 K; f1 K]] [[f1 K; f1 K]], [[x; y]]); (mkSh false [] [[f1 K]], [[x]]) ].
Proof. exact (fun F K x y => shell_ok_example K x y). Qed.
Print Assumptions C09_shell_ok_satisfiable.

(* (b) the three code paths agree *)
Theorem C09_one_spherical_is_mix_all_sph :
  forall (F : Type) (A : Type) (azero : A) (aadd : A -> A -> A) (ascale : F -> A -> A)
         (l : list (@sh F * list (list A))),
  one_spherical azero aadd ascale l = one_mix azero aadd ascale (map (set_sph true) l).
Proof. exact (fun F A z a s l => one_spherical_is_mix z a s l). Qed.
Print Assumptions C09_one_spherical_is_mix_all_sph.

Theorem C09_one_cartesian_is_mix_all_cart :
  forall (F : Type) (A : Type) (azero : A) (aadd : A -> A -> A) (ascale : F -> A -> A)
         (l : list (@sh F * list (list A))),
  one_cartesian ascale l = one_mix azero aadd ascale (map (set_sph false) l).
Proof. exact (fun F A z a s l => one_cartesian_is_mix z a s l). Qed.
Print Assumptions C09_one_cartesian_is_mix_all_cart.

(* (c) lincomb = T (any shape) applied to the array of the shells' types; entry i is
   the dot product sum_k T[i][k] * array[k] *)
Theorem C09_one_lincomb_is_T_applied :
  forall (F : Type) (A : Type) (azero : A) (aadd : A -> A -> A) (ascale : F -> A -> A)
         (T : list (list F)) (l : list (@sh F * list (list A))),
  one_lincomb azero aadd ascale T l = lin azero aadd ascale T (one_mix azero aadd ascale l) /\
  forall i, i < length T ->
    nth i (one_lincomb azero aadd ascale T l) azero
    = dot azero aadd ascale (nth i T []) (one_mix azero aadd ascale l).
Proof. exact (fun F A z a s T l => conj (one_lincomb_is_T_applied z a s T l)
  (fun i Hi => eq_trans (f_equal (fun v => nth i v z) (one_lincomb_is_T_applied z a s T l))
                        (lin_entry z a s T _ i Hi))). Qed.
Print Assumptions C09_one_lincomb_is_T_applied.
