(* Props/C12_rotation3.v — property C12, GENERAL ROTATIONS (proper and improper), continued from C12_rotation2.v:
   the EVALUATIONS (function values and gradients; Proofs/RotationEvalP.v) and the ELECTRON REPULSION at the level of
   the algebraic specification (Gauss/Poly6.v, Proofs/RotationEriP.v).  Any field, no analysis, no axioms; no property
   of exp, sqrt, pi or of the Boys function is used.

   CONVENTIONS as in C12_rotation.v / C12_rotation2.v: R : mat3 (rows), [rot_shell R s] has centre R * centre(s),
   [mapply R r] = R r, D(R)[a,a'] = coefficient of u^a' in (R^T u)^a, Jsum J (rot_expand R a) = sum_a' D(R)[a,a'] J a',
   [rep_mat R a' a] = D(R)[a,a'] collected over [default_comps l]; [orthogonal R] is R R^T = R^T R = 1, nothing is
   assumed about det R. *)
From Coq Require Import List Arith ZArith QArith Qcanon.
From GB Require Import Base.Field Base.FNum Base.Tables Gauss.Moment1D Gauss.Poly3 Model.Shell Model.MomentInt
  Model.Overlap Model.Eval Proofs.EvalP Proofs.SameFunP Proofs.RigidP Proofs.RotationP Proofs.RotationBlockP
  Proofs.RotationEvalP.
Import ListNotations.

(* ==================================================================================================== *)
(* 1. evaluations *)

(* the value (r-A)^a exp(-alpha |r-A|^2) of a Cartesian primitive: rotated shell at the rotated point, D-contracted *)
Theorem C12_rotation3_eval_prim :
  forall (F : Type) (K : Fops F), is_field K ->
  forall (R : @mat3 F) (A : @vec3 F) (alpha : F) (a : comp) (r : @vec3 F), orthogonal K R ->
  Jsum K (fun a' => gauss_prim K (mapply K R A) alpha a' (mapply K R r)) (rot_expand K R a)
  = gauss_prim K A alpha a r.
Proof. exact (@eval_prim_rotation_covariant). Qed.
Print Assumptions C12_rotation3_eval_prim.

(* [gauss_prim] is the order-(0,0,0) case of the expression the evaluation model computes per primitive *)
Theorem C12_rotation3_eval_prim_is_order0 :
  forall (F : Type) (K : Fops F) (A : @vec3 F) (alpha : F) (c : comp) (r : @vec3 F),
  gauss_prim_deriv K (0, 0, 0)%nat A alpha c r = gauss_prim K A alpha c r.
Proof. exact (@gauss_prim_deriv_0). Qed.
Print Assumptions C12_rotation3_eval_prim_is_order0.

(* the three first derivatives rotate as a vector *)
Theorem C12_rotation3_eval_prim_gradient :
  forall (F : Type) (K : Fops F), is_field K ->
  forall (R : @mat3 F) (A : @vec3 F) (alpha : F) (a : comp) (r : @vec3 F) (i : axis), orthogonal K R ->
  Jsum K (fun a' => gauss_prim_deriv K (eax i) (mapply K R A) alpha a' (mapply K R r)) (rot_expand K R a)
  = sum3 K (fun k => fmul K (matf R i k) (gauss_prim_deriv K (eax k) A alpha a r)).
Proof. exact (@eval_prim_gradient_rotation_covariant). Qed.
Print Assumptions C12_rotation3_eval_prim_gradient.

(* the un-normalised entry of the evaluation block is the contracted sum of [gauss_prim_deriv] *)
Theorem C12_rotation3_raw_entry_is_contracted :
  forall (F : Type) (K : Fops F), is_field K ->
  forall (o : comp) (s : shell F) (m ic : nat) (p : point (F:=F)),
  raw_entry K o s m ic p
  = contracted1 K (s_l s) m (combine (s_exps s) (s_coeffs s)) (compi s ic)
      (fun c alpha => gauss_prim_deriv K o (s_x s, s_y s, s_z s) alpha c p).
Proof. exact (@raw_entry_contracted1). Qed.
Print Assumptions C12_rotation3_raw_entry_is_contracted.

(* EVERY ENTRY of EvalDeriv/Eval.construct_array_contraction (general back-end, orders 0): any l, any number of
   primitives and segments, any points *)
Theorem C12_rotation3_eval_block :
  forall (F : Type) (K : Fops F), is_field K ->
  (forall x : F, fapx K x = x) -> (forall c, dfnorm K c <> f0 K) ->
  forall R, orthogonal K R -> forall l, exists M : comp -> comp -> F, mono_rep K R l M /\
    forall (s : shell F) (pts : list (point (F:=F))), s_l s = l -> s_comps s = [] ->
    forall blk blk',
      eval_block K s pts (0, 0, 0)%nat General = Some blk ->
      eval_block K (rot_shell K R s) (map (mapply K R) pts) (0, 0, 0)%nat General = Some blk' ->
      forall m j p, (m < nseg s)%nat -> (j < length (default_comps l))%nat -> (p < length pts)%nat ->
        let cmp i := nth i (default_comps l) (0, 0, 0)%nat in
        fmul K (dfnorm K (cmp j)) (nth p (nth j (nth m blk []) []) (f0 K))
        = FNum.fsum K (map (fun i => fmul K (fmul K (M (cmp i) (cmp j)) (dfnorm K (cmp i)))
                                       (nth p (nth i (nth m blk' []) []) (f0 K)))
                    (seq 0 (length (default_comps l)))).
Proof. exact (@eval_block_rotation_law). Qed.
Print Assumptions C12_rotation3_eval_block.

(* EVERY ENTRY of the three first-derivative blocks: vector law on the derivative index, D on the function index *)
Theorem C12_rotation3_eval_block_gradient :
  forall (F : Type) (K : Fops F), is_field K ->
  (forall x : F, fapx K x = x) -> (forall c, dfnorm K c <> f0 K) ->
  forall R, orthogonal K R -> forall l, exists M : comp -> comp -> F, mono_rep K R l M /\
    forall (s : shell F) (pts : list (point (F:=F))), s_l s = l -> s_comps s = [] ->
    forall (i : axis) gx gy gz blk',
      eval_block K s pts (eax AX) General = Some gx -> eval_block K s pts (eax AY) General = Some gy ->
      eval_block K s pts (eax AZ) General = Some gz ->
      eval_block K (rot_shell K R s) (map (mapply K R) pts) (eax i) General = Some blk' ->
      forall m j p, (m < nseg s)%nat -> (j < length (default_comps l))%nat -> (p < length pts)%nat ->
        let cmp i := nth i (default_comps l) (0, 0, 0)%nat in
        fmul K (dfnorm K (cmp j))
          (fadd K (fadd K (fmul K (matf R i AX) (nth p (nth j (nth m gx []) []) (f0 K)))
                          (fmul K (matf R i AY) (nth p (nth j (nth m gy []) []) (f0 K))))
                  (fmul K (matf R i AZ) (nth p (nth j (nth m gz []) []) (f0 K))))
        = FNum.fsum K (map (fun i' => fmul K (fmul K (M (cmp i') (cmp j)) (dfnorm K (cmp i')))
                                        (nth p (nth i' (nth m blk' []) []) (f0 K)))
                    (seq 0 (length (default_comps l)))).
Proof. exact (@eval_block_gradient_rotation_law). Qed.
Print Assumptions C12_rotation3_eval_block_gradient.

(* descriptor form (SameFunP.eval_spec): Cartesian function (m, j) with weights coefficient * norm_prim *)
Theorem C12_rotation3_eval_spec :
  forall (F : Type) (K : Fops F), is_field K ->
  (forall x : F, fapx K x = x) -> (forall c, dfnorm K c <> f0 K) ->
  forall R, orthogonal K R -> forall (s : shell F), s_comps s = [] ->
  forall m j (r : point (F:=F)), (j < length (default_comps (s_l s)))%nat ->
    let cmp i := nth i (default_comps (s_l s)) (0, 0, 0)%nat in
    fmul K (dfnorm K (cmp j)) (eval_spec K (cart_desc_raw K s m j) r)
    = FNum.fsum K (map (fun i => fmul K (fmul K (rep_mat K R (cmp i) (cmp j)) (dfnorm K (cmp i)))
                          (eval_spec K (cart_desc_raw K (rot_shell K R s) m i) (mapply K R r)))
                (seq 0 (length (default_comps (s_l s))))).
Proof. exact (@eval_spec_rotation_law). Qed.
Print Assumptions C12_rotation3_eval_spec.

(* the descriptor of SameFunP (what evaluate_basis returns, [same_function_eval]) is the raw one times norm_cont *)
Theorem C12_rotation3_cart_desc_scaled :
  forall (F : Type) (K : Fops F), is_field K ->
  forall (o : comp) (s : shell F) (m ic : nat) (p : point (F:=F)),
  deriv_spec K o (cart_desc K s m ic) p = fmul K (ncf K s m ic) (deriv_spec K o (cart_desc_raw K s m ic) p).
Proof. exact (@cart_desc_is_scaled_raw). Qed.
Print Assumptions C12_rotation3_cart_desc_scaled.

Theorem C12_rotation3_eval_hypotheses_satisfiable :
  exists (F : Type) (K : Fops F) (R1 R2 : @mat3 F) (s : shell F),
    is_field K /\ (forall x, fapx K x = x) /\ (forall c, dfnorm K c <> f0 K)
    /\ orthogonal K R1 /\ orthogonal K R2 /\ s_comps s = [].
Proof. exact eval_rotation_hypotheses_satisfiable. Qed.
Print Assumptions C12_rotation3_eval_hypotheses_satisfiable.
