(* Props/C12_rotation3.v — property C12, GENERAL ROTATIONS (proper and improper), continued from C12_rotation2.v:
   the EVALUATIONS (function values and gradients; Proofs/RotationEvalP.v) and the ELECTRON REPULSION at the level of
   the algebraic specification and of every entry of the model's eri_block (Gauss/Poly6.v, Proofs/RotationEriP.v,
   Proofs/RotationEriBlockP.v).  Any field (characteristic 0 where Phi_unique is used), no analysis, no axioms; no
   property of exp, sqrt, pi or of the Boys function is used.

   CONVENTIONS as in C12_rotation.v / C12_rotation2.v: R : mat3 (rows), [rot_shell R s] has centre R * centre(s),
   [mapply R r] = R r, D(R)[a,a'] = coefficient of u^a' in (R^T u)^a, Jsum J (rot_expand R a) = sum_a' D(R)[a,a'] J a',
   [rep_mat R a' a] = D(R)[a,a'] collected over [default_comps l]; [orthogonal R] is R R^T = R^T R = 1, nothing is
   assumed about det R. *)
From Coq Require Import List Arith.
From GB Require Import Base.Field Base.FNum Base.Tables Gauss.Moment1D Gauss.SPoly Gauss.Poly3 Gauss.Wick2D Gauss.Poly6
  Model.Shell Model.MomentInt Model.Overlap Model.Eval Model.TwoElec Proofs.EvalP Proofs.SameFunP Proofs.TwoElecP
  Proofs.RigidP Proofs.RotationP Proofs.RotationBlockP Proofs.RotationMoreP Proofs.RotationEvalP Proofs.RotationEriP
  Proofs.RotationEriBlockP.
Import ListNotations.

(* ==================================================================================================== *)
(* 1. evaluations *)

(* the value (r-A)^a exp(-alpha |r-A|^2) of a Cartesian primitive: rotated shell at the rotated point, D-contracted *)
Theorem C12_rotation3_eval_prim :
  forall (F : Type) (K : Fops F), is_field K ->
  forall (R : @mat3 F) (A : @vec3 F) (alpha : F) (a : comp) (r : @vec3 F), orthogonal K R ->
  Jsum K (fun a' => gauss_prim K (mapply K R A) alpha a' (mapply K R r)) (rot_expand K R a)
  = gauss_prim K A alpha a r.
Proof. exact (@eval_prim_rotation_covariant). Qed.
Print Assumptions C12_rotation3_eval_prim.

(* [gauss_prim] is the order-(0,0,0) case of the expression the evaluation model computes per primitive *)
Theorem C12_rotation3_eval_prim_is_order0 :
  forall (F : Type) (K : Fops F) (A : @vec3 F) (alpha : F) (c : comp) (r : @vec3 F),
  gauss_prim_deriv K (0, 0, 0)%nat A alpha c r = gauss_prim K A alpha c r.
Proof. exact (@gauss_prim_deriv_0). Qed.
Print Assumptions C12_rotation3_eval_prim_is_order0.

(* the three first derivatives rotate as a vector *)
Theorem C12_rotation3_eval_prim_gradient :
  forall (F : Type) (K : Fops F), is_field K ->
  forall (R : @mat3 F) (A : @vec3 F) (alpha : F) (a : comp) (r : @vec3 F) (i : axis), orthogonal K R ->
  Jsum K (fun a' => gauss_prim_deriv K (eax i) (mapply K R A) alpha a' (mapply K R r)) (rot_expand K R a)
  = sum3 K (fun k => fmul K (matf R i k) (gauss_prim_deriv K (eax k) A alpha a r)).
Proof. exact (@eval_prim_gradient_rotation_covariant). Qed.
Print Assumptions C12_rotation3_eval_prim_gradient.

(* the un-normalised entry of the evaluation block is the contracted sum of [gauss_prim_deriv] *)
Theorem C12_rotation3_raw_entry_is_contracted :
  forall (F : Type) (K : Fops F), is_field K ->
  forall (o : comp) (s : shell F) (m ic : nat) (p : point (F:=F)),
  raw_entry K o s m ic p
  = contracted1 K (s_l s) m (combine (s_exps s) (s_coeffs s)) (compi s ic)
      (fun c alpha => gauss_prim_deriv K o (s_x s, s_y s, s_z s) alpha c p).
Proof. exact (@raw_entry_contracted1). Qed.
Print Assumptions C12_rotation3_raw_entry_is_contracted.

(* EVERY ENTRY of EvalDeriv/Eval.construct_array_contraction (general back-end, orders 0): any l, any number of
   primitives and segments, any points *)
Theorem C12_rotation3_eval_block :
  forall (F : Type) (K : Fops F), is_field K ->
  (forall x : F, fapx K x = x) -> (forall c, dfnorm K c <> f0 K) ->
  forall R, orthogonal K R -> forall l, exists M : comp -> comp -> F, mono_rep K R l M /\
    forall (s : shell F) (pts : list (point (F:=F))), s_l s = l -> s_comps s = [] ->
    forall blk blk',
      eval_block K s pts (0, 0, 0)%nat General = Some blk ->
      eval_block K (rot_shell K R s) (map (mapply K R) pts) (0, 0, 0)%nat General = Some blk' ->
      forall m j p, (m < nseg s)%nat -> (j < length (default_comps l))%nat -> (p < length pts)%nat ->
        let cmp i := nth i (default_comps l) (0, 0, 0)%nat in
        fmul K (dfnorm K (cmp j)) (nth p (nth j (nth m blk []) []) (f0 K))
        = FNum.fsum K (map (fun i => fmul K (fmul K (M (cmp i) (cmp j)) (dfnorm K (cmp i)))
                                       (nth p (nth i (nth m blk' []) []) (f0 K)))
                    (seq 0 (length (default_comps l)))).
Proof. exact (@eval_block_rotation_law). Qed.
Print Assumptions C12_rotation3_eval_block.

(* EVERY ENTRY of the three first-derivative blocks: vector law on the derivative index, D on the function index *)
Theorem C12_rotation3_eval_block_gradient :
  forall (F : Type) (K : Fops F), is_field K ->
  (forall x : F, fapx K x = x) -> (forall c, dfnorm K c <> f0 K) ->
  forall R, orthogonal K R -> forall l, exists M : comp -> comp -> F, mono_rep K R l M /\
    forall (s : shell F) (pts : list (point (F:=F))), s_l s = l -> s_comps s = [] ->
    forall (i : axis) gx gy gz blk',
      eval_block K s pts (eax AX) General = Some gx -> eval_block K s pts (eax AY) General = Some gy ->
      eval_block K s pts (eax AZ) General = Some gz ->
      eval_block K (rot_shell K R s) (map (mapply K R) pts) (eax i) General = Some blk' ->
      forall m j p, (m < nseg s)%nat -> (j < length (default_comps l))%nat -> (p < length pts)%nat ->
        let cmp i := nth i (default_comps l) (0, 0, 0)%nat in
        fmul K (dfnorm K (cmp j))
          (fadd K (fadd K (fmul K (matf R i AX) (nth p (nth j (nth m gx []) []) (f0 K)))
                          (fmul K (matf R i AY) (nth p (nth j (nth m gy []) []) (f0 K))))
                  (fmul K (matf R i AZ) (nth p (nth j (nth m gz []) []) (f0 K))))
        = FNum.fsum K (map (fun i' => fmul K (fmul K (M (cmp i') (cmp j)) (dfnorm K (cmp i')))
                                        (nth p (nth i' (nth m blk' []) []) (f0 K)))
                    (seq 0 (length (default_comps l)))).
Proof. exact (@eval_block_gradient_rotation_law). Qed.
Print Assumptions C12_rotation3_eval_block_gradient.

(* descriptor form (SameFunP.eval_spec): Cartesian function (m, j) with weights coefficient * norm_prim *)
Theorem C12_rotation3_eval_spec :
  forall (F : Type) (K : Fops F), is_field K ->
  (forall x : F, fapx K x = x) -> (forall c, dfnorm K c <> f0 K) ->
  forall R, orthogonal K R -> forall (s : shell F), s_comps s = [] ->
  forall m j (r : point (F:=F)), (j < length (default_comps (s_l s)))%nat ->
    let cmp i := nth i (default_comps (s_l s)) (0, 0, 0)%nat in
    fmul K (dfnorm K (cmp j)) (eval_spec K (cart_desc_raw K s m j) r)
    = FNum.fsum K (map (fun i => fmul K (fmul K (rep_mat K R (cmp i) (cmp j)) (dfnorm K (cmp i)))
                          (eval_spec K (cart_desc_raw K (rot_shell K R s) m i) (mapply K R r)))
                (seq 0 (length (default_comps (s_l s))))).
Proof. exact (@eval_spec_rotation_law). Qed.
Print Assumptions C12_rotation3_eval_spec.

(* the descriptor of SameFunP (what evaluate_basis returns, [same_function_eval]) is the raw one times norm_cont *)
Theorem C12_rotation3_cart_desc_scaled :
  forall (F : Type) (K : Fops F), is_field K ->
  forall (o : comp) (s : shell F) (m ic : nat) (p : point (F:=F)),
  deriv_spec K o (cart_desc K s m ic) p = fmul K (ncf K s m ic) (deriv_spec K o (cart_desc_raw K s m ic) p).
Proof. exact (@cart_desc_is_scaled_raw). Qed.
Print Assumptions C12_rotation3_cart_desc_scaled.

Theorem C12_rotation3_eval_hypotheses_satisfiable :
  exists (F : Type) (K : Fops F) (R1 R2 : @mat3 F) (s : shell F),
    is_field K /\ (forall x, fapx K x = x) /\ (forall c, dfnorm K c <> f0 K)
    /\ orthogonal K R1 /\ orthogonal K R2 /\ s_comps s = [].
Proof. exact eval_rotation_hypotheses_satisfiable. Qed.
Print Assumptions C12_rotation3_eval_hypotheses_satisfiable.

(* ==================================================================================================== *)
(* 2. the six-dimensional Gaussian moment functional (Gauss/Poly6.v): electron 1 -> y1 in R^3, electron 2 -> y2 in R^3,
      covariance [[s11 I, s12 I], [s12 I, s22 I]], means (a1, c1); six-variable polynomials as monomial lists built as
      tensor products f(y1) g(y2) of the three-variable ones of Poly3.v *)

(* Stein rule of the six-dimensional functional, electron-1 variables *)
Theorem C12_rotation3_E6_stein_electron1 :
  forall (F : Type) (K : Fops F),
  is_field K ->
  forall (a1 c1 : axis -> F) (s11 s12 s22 : F) (i : axis) (f : poly6),
  E6 K a1 c1 s11 s12 s22 (mulv6 E1 i f) =
  fadd K (fadd K (fmul K (a1 i) (E6 K a1 c1 s11 s12 s22 f)) (fmul K s11 (E6 K a1 c1 s11 s12 s22 (dv6 K E1 i f))))
    (fmul K s12 (E6 K a1 c1 s11 s12 s22 (dv6 K E2 i f))).
Proof. exact (@stein6_1). Qed.
Print Assumptions C12_rotation3_E6_stein_electron1.

(* Stein rule, electron-2 variables *)
Theorem C12_rotation3_E6_stein_electron2 :
  forall (F : Type) (K : Fops F),
  is_field K ->
  forall (a1 c1 : axis -> F) (s11 s12 s22 : F) (i : axis) (f : poly6),
  E6 K a1 c1 s11 s12 s22 (mulv6 E2 i f) =
  fadd K (fadd K (fmul K (c1 i) (E6 K a1 c1 s11 s12 s22 f)) (fmul K s12 (E6 K a1 c1 s11 s12 s22 (dv6 K E1 i f))))
    (fmul K s22 (E6 K a1 c1 s11 s12 s22 (dv6 K E2 i f))).
Proof. exact (@stein6_2). Qed.
Print Assumptions C12_rotation3_E6_stein_electron2.

(* a function on six-variable monomials obeying the six Wick/Stein recurrences is c0 * M6 *)
Theorem C12_rotation3_E6_moments_unique :
  forall (F : Type) (K : Fops F),
  is_field K ->
  forall (a1 c1 : axis -> F) (s11 s12 s22 : F) (J : mon6 -> F) (c0 : F),
  stein6_laws K a1 c1 s11 s12 s22 c0 J -> forall m : mon6, J m = fmul K c0 (M6 K a1 c1 s11 s12 s22 m).
Proof. exact (@moments6_unique). Qed.
Print Assumptions C12_rotation3_E6_moments_unique.

(* a linear functional obeying the six Stein rules on monomials is I(1) * E6 *)
Theorem C12_rotation3_E6_uniqueness :
  forall (F : Type) (K : Fops F),
  is_field K ->
  forall (a1 c1 : axis -> F) (s11 s12 s22 : F) (I : poly6 -> F),
  plinear6 K I ->
  stein6_on_monomials K a1 c1 s11 s12 s22 I -> forall f : poly6, I f = fmul K (I (one6 K)) (E6 K a1 c1 s11 s12 s22 f).
Proof. exact (@gauss6_uniqueness). Qed.
Print Assumptions C12_rotation3_E6_uniqueness.

(* (f (x) g) o (Q + Q) == (f o Q) (x) (g o Q) *)
Theorem C12_rotation3_subst6_tensor :
  forall (F : Type) (K : Fops F),
  is_field K -> forall (Q : mat) (f g : poly3), peq6 K (subst6 K Q (tens K f g)) (tens K (subst K Q f) (subst K Q g)).
Proof. exact (@subst6_tens). Qed.
Print Assumptions C12_rotation3_subst6_tensor.

(* THE SIX-DIMENSIONAL FUNCTIONAL IS COVARIANT UNDER THE SIMULTANEOUS ORTHOGONAL SUBSTITUTION (means rotate) *)
Theorem C12_rotation3_E6_rotation_covariant :
  forall (F : Type) (K : Fops F),
  is_field K ->
  forall (Q : mat) (a1 c1 : axis -> F) (s11 s12 s22 : F),
  orth_rows K Q ->
  forall f : poly6,
  E6 K a1 c1 s11 s12 s22 (subst6 K Q f) =
  E6 K (fun i : axis => dot K (Q i) a1) (fun i : axis => dot K (Q i) c1) s11 s12 s22 f.
Proof. exact (@E6_subst6_orth). Qed.
Print Assumptions C12_rotation3_E6_rotation_covariant.

(* E6 of ((y1+cB)^b y1^a) (x) ((y2+cD)^d y2^c) is the product over the axes of the four-index Wick quantities *)
Theorem C12_rotation3_E6_factorises :
  forall (F : Type) (K : Fops F),
  is_field K ->
  forall (a1 c1 : axis -> F) (s11 s12 s22 : F) (cB cD : axis -> F) (a b c d : mon),
  E6 K a1 c1 s11 s12 s22 (tens K (smono K cB b (mono3 K a)) (smono K cD d (mono3 K c))) =
  fmul K
    (fmul K
       (shf K (cB AX) (fun a' : nat => shf K (cD AX) (Mw K a1 c1 s11 s12 s22 AX a') (expo AX d) (expo AX c)) 
          (expo AX b) (expo AX a))
       (shf K (cB AY) (fun a' : nat => shf K (cD AY) (Mw K a1 c1 s11 s12 s22 AY a') (expo AY d) (expo AY c)) 
          (expo AY b) (expo AY a)))
    (shf K (cB AZ) (fun a' : nat => shf K (cD AZ) (Mw K a1 c1 s11 s12 s22 AZ a') (expo AZ d) (expo AZ c)) 
       (expo AZ b) (expo AZ a)).
Proof. exact (@E6_tens_smono). Qed.
Print Assumptions C12_rotation3_E6_factorises.

(* ==================================================================================================== *)
(* 3. electron repulsion: the specification of a primitive quartet and every entry of the block *)

(* the exact integrand of a primitive quartet at s (product over the axes of TwoElecP.M4) is E6 of the product polynomial *)
Theorem C12_rotation3_eri_integrand_is_E6 :
  forall (F : Type) (K : Fops F),
  is_field K ->
  forall (alpha beta gamma delta : F) (A B C D : axis -> F) (s : F) (a b c d : Shell.comp),
  M4prod K alpha beta gamma delta A B C D s a b c d =
  E6 K (mean1v K alpha beta gamma delta A B C D s) (mean2v K alpha beta gamma delta A B C D s)
    (sig11 K (fadd K alpha beta) (fadd K gamma delta) s) (sig12 K (fadd K alpha beta) (fadd K gamma delta) s)
    (sig22 K (fadd K alpha beta) (fadd K gamma delta) s) (quartet_poly K (dvec K A B) (dvec K C D) a b c d).
Proof. exact (@M4_product_is_E6). Qed.
Print Assumptions C12_rotation3_eri_integrand_is_E6.

(* FOR EVERY s the integrand of the rotated quartet, D-contracted on the four indices, is that of the original one *)
Theorem C12_rotation3_eri_integrand_covariant :
  forall (F : Type) (K : Fops F),
  is_field K ->
  forall alpha beta gamma delta : F,
  fadd K alpha beta <> f0 K ->
  fadd K gamma delta <> f0 K ->
  fadd K (fadd K alpha beta) (fadd K gamma delta) <> f0 K ->
  forall (R : mat) (A B C D : axis -> F) (s : F) (a b c d : Shell.comp),
  orth_rows K (transpose R) ->
  Jsum K
    (fun a' : mon =>
     Jsum K
       (fun b' : mon =>
        Jsum K
          (fun c' : mon =>
           Jsum K
             (fun d' : mon =>
              M4prod K alpha beta gamma delta (RotationMoreP.rotv K R A) (RotationMoreP.rotv K R B)
                (RotationMoreP.rotv K R C) (RotationMoreP.rotv K R D) s a' b' c' d') (subst_mon K (transpose R) d))
          (subst_mon K (transpose R) c)) (subst_mon K (transpose R) b)) (subst_mon K (transpose R) a) =
  M4prod K alpha beta gamma delta A B C D s a b c d.
Proof. exact (@eri_quartet_rotation_covariant_eval). Qed.
Print Assumptions C12_rotation3_eri_integrand_covariant.

(* the values of the s-polynomial R4c are the M4 products *)
Theorem C12_rotation3_eri_R4c_eval :
  forall (F : Type) (K : Fops F),
  is_field K ->
  forall alpha beta gamma delta : F,
  fadd K alpha beta <> f0 K ->
  fadd K gamma delta <> f0 K ->
  fadd K (fadd K alpha beta) (fadd K gamma delta) <> f0 K ->
  fadd K (f1 K) (f1 K) <> f0 K ->
  forall (A B C D : axis -> F) (c1 c2 c3 c4 : Shell.comp) (s : F),
  SPoly.peval K (R4c K alpha beta gamma delta A B C D c1 c2 c3 c4) s = M4prod K alpha beta gamma delta A B C D s c1 c2 c3 c4.
Proof. exact (@R4c_eval). Qed.
Print Assumptions C12_rotation3_eri_R4c_eval.

(* the summand of TwoElecP.two_elec_correct is eri_quartet_spec (R4 = R4c at the components of the entry) *)
Theorem C12_rotation3_eri_summand_is_spec :
  forall (F : Type) (K : Fops F) (s1 s2 s3 s4 : Shell.shell F) (i1 i2 i3 i4 : nat) (alpha beta gamma delta : F),
  SPoly.Phi K
    (eri_base K (Shell.s_x s1) (Shell.s_y s1) (Shell.s_z s1) (Shell.s_x s2) (Shell.s_y s2) (Shell.s_z s2) 
       (Shell.s_x s3) (Shell.s_y s3) (Shell.s_z s3) (Shell.s_x s4) (Shell.s_y s4) (Shell.s_z s4) alpha beta gamma delta) 0
    (R4 K s1 s2 s3 s4 i1 i2 i3 i4 alpha beta gamma delta) =
  eri_quartet_spec K alpha beta gamma delta (RotationMoreP.centre s1) (RotationMoreP.centre s2) 
    (RotationMoreP.centre s3) (RotationMoreP.centre s4) (List.nth i1 (Shell.comps_of s1) (0, 0, 0))
    (List.nth i2 (Shell.comps_of s2) (0, 0, 0)) (List.nth i3 (Shell.comps_of s3) (0, 0, 0))
    (List.nth i4 (Shell.comps_of s4) (0, 0, 0)).
Proof. exact (@two_elec_summand_is_spec). Qed.
Print Assumptions C12_rotation3_eri_summand_is_spec.

(* through Phi_m of ANY sequence (Phi_unique, characteristic 0) *)
Theorem C12_rotation3_eri_Phi_covariant :
  forall (F : Type) (K : Fops F),
  is_field K ->
  forall alpha beta gamma delta : F,
  fadd K alpha beta <> f0 K ->
  fadd K gamma delta <> f0 K ->
  fadd K (fadd K alpha beta) (fadd K gamma delta) <> f0 K ->
  fadd K (f1 K) (f1 K) <> f0 K ->
  (forall n : nat, ofnat K (S n) <> f0 K) ->
  forall (R : mat) (A B C D : axis -> F) (a b c d : Shell.comp) (bet : nat -> F) (m : nat),
  orth_rows K (transpose R) ->
  Jsum K
    (fun a' : mon =>
     Jsum K
       (fun b' : mon =>
        Jsum K
          (fun c' : mon =>
           Jsum K
             (fun d' : mon =>
              SPoly.Phi K bet m
                (R4c K alpha beta gamma delta (RotationMoreP.rotv K R A) (RotationMoreP.rotv K R B)
                   (RotationMoreP.rotv K R C) (RotationMoreP.rotv K R D) a' b' c' d')) (subst_mon K (transpose R) d))
          (subst_mon K (transpose R) c)) (subst_mon K (transpose R) b)) (subst_mon K (transpose R) a) =
  SPoly.Phi K bet m (R4c K alpha beta gamma delta A B C D a b c d).
Proof. exact (@Phi_R4c_rotation_covariant). Qed.
Print Assumptions C12_rotation3_eri_Phi_covariant.

(* prefactor and Boys argument depend on |A-B|^2, |C-D|^2, |P-Q|^2 only *)
Theorem C12_rotation3_eri_base_invariant :
  forall (F : Type) (K : Fops F),
  is_field K ->
  forall alpha beta gamma delta : F,
  fadd K alpha beta <> f0 K ->
  fadd K gamma delta <> f0 K ->
  forall (R : mat) (A B C D : axis -> F) (m : nat),
  orth_rows K (transpose R) ->
  eri_base_v K alpha beta gamma delta (RotationMoreP.rotv K R A) (RotationMoreP.rotv K R B) (RotationMoreP.rotv K R C)
    (RotationMoreP.rotv K R D) m = eri_base_v K alpha beta gamma delta A B C D m.
Proof. exact (@eri_base_rot). Qed.
Print Assumptions C12_rotation3_eri_base_invariant.

(* GENERAL ROTATIONS, electron repulsion of four primitives at specification level *)
Theorem C12_rotation3_eri_spec :
  forall (F : Type) (K : Fops F),
  is_field K ->
  forall alpha beta gamma delta : F,
  fadd K alpha beta <> f0 K ->
  fadd K gamma delta <> f0 K ->
  fadd K (fadd K alpha beta) (fadd K gamma delta) <> f0 K ->
  fadd K (f1 K) (f1 K) <> f0 K ->
  (forall n : nat, ofnat K (S n) <> f0 K) ->
  forall (R : mat) (A B C D : axis -> F) (a b c d : Shell.comp),
  orth_rows K (transpose R) ->
  Jsum K
    (fun a' : mon =>
     Jsum K
       (fun b' : mon =>
        Jsum K
          (fun c' : mon =>
           Jsum K
             (fun d' : mon =>
              eri_quartet_spec K alpha beta gamma delta (RotationMoreP.rotv K R A) (RotationMoreP.rotv K R B)
                (RotationMoreP.rotv K R C) (RotationMoreP.rotv K R D) a' b' c' d') (subst_mon K (transpose R) d))
          (subst_mon K (transpose R) c)) (subst_mon K (transpose R) b)) (subst_mon K (transpose R) a) =
  eri_quartet_spec K alpha beta gamma delta A B C D a b c d.
Proof. exact (@eri_spec_rotation_covariant). Qed.
Print Assumptions C12_rotation3_eri_spec.

(* the same in the vocabulary of RigidP: mat3, rot_shell, rot_expand *)
Theorem C12_rotation3_eri_spec_shells :
  forall (F : Type) (K : Fops F),
  is_field K ->
  forall (R : RigidP.mat3) (s1 s2 s3 s4 : Shell.shell F) (alpha beta gamma delta : F) (a b c d : Shell.comp),
  RigidP.orthogonal K R ->
  fadd K alpha beta <> f0 K ->
  fadd K gamma delta <> f0 K ->
  fadd K (fadd K alpha beta) (fadd K gamma delta) <> f0 K ->
  fadd K (f1 K) (f1 K) <> f0 K ->
  (forall n : nat, ofnat K (S n) <> f0 K) ->
  Jsum K
    (fun a' : mon =>
     Jsum K
       (fun b' : mon =>
        Jsum K
          (fun c' : mon =>
           Jsum K
             (fun d' : mon =>
              eri_quartet_spec K alpha beta gamma delta (RotationMoreP.centre (RigidP.rot_shell K R s1))
                (RotationMoreP.centre (RigidP.rot_shell K R s2)) (RotationMoreP.centre (RigidP.rot_shell K R s3))
                (RotationMoreP.centre (RigidP.rot_shell K R s4)) a' b' c' d') (RotationP.rot_expand K R d))
          (RotationP.rot_expand K R c)) (RotationP.rot_expand K R b)) (RotationP.rot_expand K R a) =
  eri_quartet_spec K alpha beta gamma delta (RotationMoreP.centre s1) (RotationMoreP.centre s2) 
    (RotationMoreP.centre s3) (RotationMoreP.centre s4) a b c d.
Proof. exact (@eri_spec_rotation_covariant_shells). Qed.
Print Assumptions C12_rotation3_eri_spec_shells.

(* EVERY ENTRY of ElectronRepulsionIntegral.construct_array_contraction (the model's eri_block): Cartesian shells in
   the default component order, any l1..l4, exponents, generalized contractions; proper and improper R *)
Theorem C12_rotation3_eri_block :
  forall (F : Type) (K : Fops F), is_field K ->
  (forall x : F, fapx K x = x) -> (forall n : nat, ofnat K (S n) <> f0 K) -> (forall c, dfnorm K c <> f0 K) ->
  forall R, orthogonal K R -> forall l1 l2 l3 l4, exists M1 M2 M3 M4 : comp -> comp -> F,
    mono_rep K R l1 M1 /\ mono_rep K R l2 M2 /\ mono_rep K R l3 M3 /\ mono_rep K R l4 M4 /\
    forall s1 s2 s3 s4 : shell F,
      s_l s1 = l1 -> s_l s2 = l2 -> s_l s3 = l3 -> s_l s4 = l4 ->
      s_comps s1 = [] -> s_comps s2 = [] -> s_comps s3 = [] -> s_comps s4 = [] ->
      (forall alpha beta, In alpha (s_exps s1) -> In beta (s_exps s2) -> fadd K alpha beta <> f0 K) ->
      (forall gamma delta, In gamma (s_exps s3) -> In delta (s_exps s4) -> fadd K gamma delta <> f0 K) ->
      (forall alpha beta gamma delta, In alpha (s_exps s1) -> In beta (s_exps s2) ->
         In gamma (s_exps s3) -> In delta (s_exps s4) -> fadd K (fadd K alpha beta) (fadd K gamma delta) <> f0 K) ->
      forall m1 m2 m3 m4 j1 j2 j3 j4,
      (m1 < nseg s1)%nat -> (m2 < nseg s2)%nat -> (m3 < nseg s3)%nat -> (m4 < nseg s4)%nat ->
      (j1 < length (default_comps l1))%nat -> (j2 < length (default_comps l2))%nat ->
      (j3 < length (default_comps l3))%nat -> (j4 < length (default_comps l4))%nat ->
      let cmp l i := nth i (default_comps l) (0, 0, 0)%nat in
      fmul K (fmul K (fmul K (fmul K (dfnorm K (cmp l1 j1)) (dfnorm K (cmp l2 j2))) (dfnorm K (cmp l3 j3)))
                     (dfnorm K (cmp l4 j4)))
        (nth j4 (nth m4 (nth j3 (nth m3 (nth j2 (nth m2 (nth j1 (nth m1 (eri_block K s1 s2 s3 s4)
            []) []) []) []) []) []) []) (f0 K))
      = FNum.fsum K (map (fun i1 => FNum.fsum K (map (fun i2 => FNum.fsum K (map (fun i3 => FNum.fsum K (map (fun i4 =>
          fmul K (fmul K (fmul K (fmul K (M1 (cmp l1 i1) (cmp l1 j1)) (M2 (cmp l2 i2) (cmp l2 j2)))
                                 (M3 (cmp l3 i3) (cmp l3 j3))) (M4 (cmp l4 i4) (cmp l4 j4)))
            (fmul K (fmul K (fmul K (fmul K (dfnorm K (cmp l1 i1)) (dfnorm K (cmp l2 i2))) (dfnorm K (cmp l3 i3)))
                            (dfnorm K (cmp l4 i4)))
               (nth i4 (nth m4 (nth i3 (nth m3 (nth i2 (nth m2 (nth i1 (nth m1
                   (eri_block K (rot_shell K R s1) (rot_shell K R s2) (rot_shell K R s3) (rot_shell K R s4))
                   []) []) []) []) []) []) []) (f0 K))))
          (seq 0 (length (default_comps l4))))) (seq 0 (length (default_comps l3)))))
          (seq 0 (length (default_comps l2))))) (seq 0 (length (default_comps l1)))).
Proof. exact (@eri_block_rotation_law). Qed.
Print Assumptions C12_rotation3_eri_block.

Theorem C12_rotation3_eri_hypotheses_satisfiable :
  exists (F : Type) (K : Fops F) (R1 R2 : @mat3 F) (alpha beta gamma delta : F),
    is_field K /\ orthogonal K R1 /\ orthogonal K R2
    /\ fadd K alpha beta <> f0 K /\ fadd K gamma delta <> f0 K
    /\ fadd K (fadd K alpha beta) (fadd K gamma delta) <> f0 K /\ fadd K (f1 K) (f1 K) <> f0 K
    /\ (forall n, ofnat K (S n) <> f0 K).
Proof. exact eri_rotation_hypotheses_satisfiable. Qed.
Print Assumptions C12_rotation3_eri_hypotheses_satisfiable.

Theorem C12_rotation3_eri_block_hypotheses_satisfiable :
  exists (F : Type) (K : Fops F) (R1 R2 : @mat3 F) (s1 s2 s3 s4 : shell F),
    is_field K /\ (forall x, fapx K x = x) /\ (forall n, ofnat K (S n) <> f0 K) /\ (forall c, dfnorm K c <> f0 K)
    /\ orthogonal K R1 /\ orthogonal K R2
    /\ s_comps s1 = [] /\ s_comps s2 = [] /\ s_comps s3 = [] /\ s_comps s4 = []
    /\ (forall a b, In a (s_exps s1) -> In b (s_exps s2) -> fadd K a b <> f0 K)
    /\ (forall g d, In g (s_exps s3) -> In d (s_exps s4) -> fadd K g d <> f0 K)
    /\ (forall a b g d, In a (s_exps s1) -> In b (s_exps s2) -> In g (s_exps s3) -> In d (s_exps s4) ->
          fadd K (fadd K a b) (fadd K g d) <> f0 K).
Proof. exact eri_block_law_hypotheses_satisfiable. Qed.
Print Assumptions C12_rotation3_eri_block_hypotheses_satisfiable.
