(* Props/C12_rotation.v — property C12, GENERAL ROTATIONS (proper and improper), proved at the level of the algebraic
   specification and, for the overlap, of the list-level model's block.

   Chain (all over an arbitrary field, no analysis, no axioms):
     Gauss/Poly3.v      polynomials in three variables as monomial lists seen through all linear functionals [Jsum J];
                        the isotropic 3-D Gaussian moment functional E3 v (the 1-D functional of Gauss/Moment1D.v with
                        the same variance along x, y, z); Stein's rule along each axis; UNIQUENESS (a linear functional
                        with I(y_i f) = v I(d_i f) is I(1) E3 v); linear substitution f o R, its multiplicativity and
                        chain rule; hence  E3 v (f o R) = E3 v f  for every R with R R^T = 1 and EVERY polynomial f.
     Proofs/RotationP.v the product over the axes of the 1-D factors T1 of [ovl_prim] / [mom_prim] is E3 of the product
                        polynomial (y+PA)^a (y+PB)^b [(y+PC)^k]; P, PA, PB, PC rotate with the centres, the prefactor
                        depends on |A-B|^2; covariance of the primitive overlap and multipole-moment specifications,
                        the representation matrix read off (R^T u)^a multiplied out ([rot_expand]).
     Proofs/RotationBlockP.v  the matrix collected over [default_comps l] ([rep_mat], satisfies RigidP.mono_rep) and the
                        law lifted through contraction and normalisation to every entry of [overlap_block]
                        (= Overlap.construct_array_contraction): the conclusion of [RigidP.rotation_law_overlap], under
                        its hypotheses plus 1+1 <> 0 and one coefficient row per exponent.

   CONVENTIONS.  R : mat3 (rows); [rot_shell R s] has centre R * centre(s); D(R)[a, a'] = [rep_mat R a' a] = coefficient
   of u^a' in (R^T u)^a, so that  sum_{a'} D(R)[a,a'] (integral about the rotated centres with index a') = (integral
   of the original system with index a).  [orthogonal R] is R R^T = R^T R = 1: nothing is assumed about det R.

   Kinetic energy: Laplacian, y.grad and |y|^2 commute with every orthogonal substitution, [kin_prim] is the
   corresponding operator acting on the right index of the overlap, hence the primitive kinetic-energy specification and
   every entry of [kinetic_block] (= KineticEnergyIntegral.construct_array_contraction) obey the same law.

   STILL ONLY TESTED for general rotations (harness/c12.py, rational rotations from integer quaternions, 1e-9):
   momentum, angular momentum, point-charge and electron-repulsion integrals, spherical / mixed shells, evaluations,
   densities; the multipole moment above the primitive level; whole-basis assembly.  Full statement for those:
   Props/C12.v header. *)
From Coq Require Import List Arith ZArith QArith Qcanon Field_theory.
From GB Require Import Base.Field Base.FNum Base.Tables Gauss.Moment1D Gauss.Poly3 Model.Shell Model.MomentInt
  Model.Overlap Model.DiffOp Proofs.CoreSumP Proofs.CoreBlockP Proofs.CoreDiffP Proofs.RigidP Proofs.RotationP
  Proofs.RotationBlockP.
Import ListNotations.

(* ==================================================================================================== *)
(* 1. the isotropic Gaussian moment functional in three variables *)

(* Stein's rule along every axis: E3 (y_i f) = v E3 (d_i f) *)
Theorem C12_rotation_stein3 :
  forall (F : Type) (K : Fops F), is_field K ->
  forall (v : F) (i : axis) (f : poly3), E3 K v (mulv i f) = fmul K v (E3 K v (dv K i f)).
Proof. exact (@stein3). Qed.
Print Assumptions C12_rotation_stein3.

(* the moment sequence m_a m_b m_c is the only solution of the three Stein recurrences *)
Theorem C12_rotation_moments3_unique :
  forall (F : Type) (K : Fops F), is_field K ->
  forall (v : F) (J : mon -> F) (c0 : F),
  stein_laws K v c0 J -> forall m : mon, J m = fmul K c0 (M3 K v m).
Proof. exact (@moments3_unique). Qed.
Print Assumptions C12_rotation_moments3_unique.

(* UNIQUENESS: a linear functional on monomial lists obeying Stein's rule on monomials is I(1) * E3 *)
Theorem C12_rotation_gauss3_uniqueness :
  forall (F : Type) (K : Fops F), is_field K ->
  forall (v : F) (I : poly3 -> F),
  plinear3 K I -> stein_on_monomials K v I -> forall f : poly3, I f = fmul K (I (one3 K)) (E3 K v f).
Proof. exact (@gauss3_uniqueness). Qed.
Print Assumptions C12_rotation_gauss3_uniqueness.

(* [subst] is substitution: the value of f o R at u is the value of f at R u *)
Theorem C12_rotation_subst_is_substitution :
  forall (F : Type) (K : Fops F), is_field K ->
  forall (u : axis -> F) (R : mat) (f : poly3),
  peval K u (subst K R f) = peval K (fun i : axis => dot K (R i) u) f.
Proof. exact (@peval_subst). Qed.
Print Assumptions C12_rotation_subst_is_substitution.

(* (y_i f) o R = (sum_j R i j y_j) (f o R), seen through every linear functional *)
Theorem C12_rotation_subst_multiplicative :
  forall (F : Type) (K : Fops F), is_field K ->
  forall (R : mat) (i : axis) (f : poly3), peq K (subst K R (mulv i f)) (mullin K (R i) (subst K R f)).
Proof. exact (@subst_mulv). Qed.
Print Assumptions C12_rotation_subst_multiplicative.

(* chain rule: d_k (f o R) = sum_i R i k ((d_i f) o R) *)
Theorem C12_rotation_chain_rule :
  forall (F : Type) (K : Fops F), is_field K ->
  forall (R : mat) (k : axis) (f : poly3) (J : mon -> F),
  Jsum K J (dv K k (subst K R f)) = sum3 K (fun i : axis => fmul K (R i k) (Jsum K J (subst K R (dv K i f)))).
Proof. exact (@dv_subst). Qed.
Print Assumptions C12_rotation_chain_rule.

(* ROTATION INVARIANCE: for every R with R R^T = 1 (proper or improper), every polynomial f, every variance v *)
Theorem C12_rotation_E3_invariant :
  forall (F : Type) (K : Fops F), is_field K ->
  forall (v : F) (R : mat), orth_rows K R -> forall f : poly3, E3 K v (subst K R f) = E3 K v f.
Proof. exact (@E3_subst_orth). Qed.
Print Assumptions C12_rotation_E3_invariant.

(* the kinetic operator -h (Lap - 4 beta y.grad - 6 beta + 4 beta^2 |y|^2) commutes with every orthogonal substitution *)
Theorem C12_rotation_kinetic_operator_invariant :
  forall (F : Type) (K : Fops F), is_field K ->
  forall (R : mat) (h beta : F) (f : poly3),
  orth_rows K R -> orth_rows K (transpose R) ->
  peq K (kinop K h beta (subst K R f)) (subst K R (kinop K h beta f)).
Proof. exact (@kinop_subst). Qed.
Print Assumptions C12_rotation_kinetic_operator_invariant.

Theorem C12_rotation_laplacian_invariant :
  forall (F : Type) (K : Fops F), is_field K ->
  forall (R : mat) (f : poly3), orth_rows K R -> peq K (lap K (subst K R f)) (subst K R (lap K f)).
Proof. exact (@lap_subst). Qed.
Print Assumptions C12_rotation_laplacian_invariant.

(* ==================================================================================================== *)
(* 2. the primitive specifications of the block theorems are E3 of a product polynomial *)

Theorem C12_rotation_ovl_prim_is_E3 :
  forall (F : Type) (K : Fops F), is_field K ->
  forall (sa sb : shell F) (ca cb : comp) (alpha beta : F),
  ovl_prim K sa sb ca cb alpha beta =
  fmul K (KAB K sa sb alpha beta) (E3 K (fdiv K (f1 K) (twop K alpha beta)) (pair_poly K sa sb ca cb alpha beta)).
Proof. exact (@ovl_prim_is_E3). Qed.
Print Assumptions C12_rotation_ovl_prim_is_E3.

Theorem C12_rotation_mom_prim_is_E3 :
  forall (F : Type) (K : Fops F), is_field K ->
  forall (C : vec3) (o : comp) (sa sb : shell F) (ca cb : comp) (alpha beta : F),
  mom_prim K (vget C 0) (vget C 1) (vget C 2) o sa sb ca cb alpha beta =
  fmul K (KAB K sa sb alpha beta)
    (E3 K (fdiv K (f1 K) (twop K alpha beta)) (triple_poly K C o sa sb ca cb alpha beta)).
Proof. exact (@mom_prim_is_E3). Qed.
Print Assumptions C12_rotation_mom_prim_is_E3.

(* kin_prim (CoreDiffP) is the kinetic operator acting on the right index of ovl_prim *)
Theorem C12_rotation_kin_prim_is_operator :
  forall (F : Type) (K : Fops F), is_field K ->
  forall (sa sb : shell F) (ca cb : comp) (alpha beta : F),
  kin_prim K sa sb ca cb alpha beta =
  kinT K (fdiv K (f1 K) (fadd K (f1 K) (f1 K))) beta (fun b : mon => ovl_prim K sa sb ca b alpha beta) cb.
Proof. exact (@kin_prim_is_kinT). Qed.
Print Assumptions C12_rotation_kin_prim_is_operator.

(* the s-s prefactor sees the centres only through |A - B|^2 *)
Theorem C12_rotation_prefactor_invariant :
  forall (F : Type) (K : Fops F), is_field K ->
  (forall x y : F, fexp K (fadd K x y) = fmul K (fexp K x) (fexp K y)) ->
  forall (R : mat3) (sa sb : shell F) (alpha beta : F),
  orthogonal K R -> KAB K (rot_shell K R sa) (rot_shell K R sb) alpha beta = KAB K sa sb alpha beta.
Proof. exact (@KAB_rot). Qed.
Print Assumptions C12_rotation_prefactor_invariant.

(* ==================================================================================================== *)
(* 3. general rotations, primitive level *)

(* meaning of [rot_expand]: the polynomial (R^T u)^a in monomials of u *)
Theorem C12_rotation_rot_expand_meaning :
  forall (F : Type) (K : Fops F), is_field K ->
  forall (R : mat3) (a : comp) (u : vec3),
  Jsum K (monomial K u) (rot_expand K R a) = monomial K (mapply_t K R u) a.
Proof. exact (@rot_expand_eval). Qed.
Print Assumptions C12_rotation_rot_expand_meaning.

(* overlap of two primitives, any exponent triples a, b *)
Theorem C12_rotation_overlap_primitive :
  forall (F : Type) (K : Fops F), is_field K ->
  (forall x y : F, fexp K (fadd K x y) = fmul K (fexp K x) (fexp K y)) ->
  forall (R : mat3) (sa sb : shell F) (ca cb : comp) (alpha beta : F),
  orthogonal K R -> psum K alpha beta <> f0 K ->
  Jsum K (fun a' : mon => Jsum K (fun b' : mon =>
       ovl_prim K (rot_shell K R sa) (rot_shell K R sb) a' b' alpha beta)
     (rot_expand K R cb)) (rot_expand K R ca)
  = ovl_prim K sa sb ca cb alpha beta.
Proof. exact (@overlap_prim_rotation_covariant). Qed.
Print Assumptions C12_rotation_overlap_primitive.

(* multipole moment (r - C)^o about the rotated origin R C: the order index rotates with the same representation *)
Theorem C12_rotation_moment_primitive :
  forall (F : Type) (K : Fops F), is_field K ->
  (forall x y : F, fexp K (fadd K x y) = fmul K (fexp K x) (fexp K y)) ->
  forall (R : mat3) (C : vec3) (o : comp) (sa sb : shell F) (ca cb : comp) (alpha beta : F),
  orthogonal K R -> psum K alpha beta <> f0 K ->
  let C' := mapply K R C in
  Jsum K (fun o' : mon => Jsum K (fun a' : mon => Jsum K (fun b' : mon =>
       mom_prim K (vget C' 0) (vget C' 1) (vget C' 2) o' (rot_shell K R sa) (rot_shell K R sb) a' b' alpha beta)
     (rot_expand K R cb)) (rot_expand K R ca)) (rot_expand K R o)
  = mom_prim K (vget C 0) (vget C 1) (vget C 2) o sa sb ca cb alpha beta.
Proof. exact (@moment_prim_rotation_covariant). Qed.
Print Assumptions C12_rotation_moment_primitive.

(* kinetic energy of two primitives *)
Theorem C12_rotation_kinetic_primitive :
  forall (F : Type) (K : Fops F), is_field K ->
  (forall x y : F, fexp K (fadd K x y) = fmul K (fexp K x) (fexp K y)) ->
  forall (R : mat3) (sa sb : shell F) (ca cb : comp) (alpha beta : F),
  orthogonal K R -> psum K alpha beta <> f0 K ->
  Jsum K (fun a' : mon => Jsum K (fun b' : mon =>
       kin_prim K (rot_shell K R sa) (rot_shell K R sb) a' b' alpha beta)
     (rot_expand K R cb)) (rot_expand K R ca)
  = kin_prim K sa sb ca cb alpha beta.
Proof. exact (@kinetic_prim_rotation_covariant). Qed.
Print Assumptions C12_rotation_kinetic_primitive.

(* the collected coefficients form a representation matrix in the sense of RigidP.mono_rep *)
Theorem C12_rotation_rep_mat_represents :
  forall (F : Type) (K : Fops F), is_field K ->
  forall (R : mat3) (l : nat), mono_rep K R l (rep_mat K R).
Proof. exact (@rep_mat_mono_rep). Qed.
Print Assumptions C12_rotation_rep_mat_represents.

(* matrix form over the Cartesian components of the two shells *)
Theorem C12_rotation_overlap_primitive_matrix :
  forall (F : Type) (K : Fops F), is_field K ->
  (forall x y : F, fexp K (fadd K x y) = fmul K (fexp K x) (fexp K y)) ->
  forall (R : mat3) (la lb : nat) (sa sb : shell F) (ja jb : comp) (alpha beta : F),
  orthogonal K R -> psum K alpha beta <> f0 K ->
  In ja (default_comps la) -> In jb (default_comps lb) ->
  fsum K (map (fun ia : comp => fsum K (map (fun ib : comp =>
      fmul K (fmul K (rep_mat K R ia ja) (rep_mat K R ib jb))
        (ovl_prim K (rot_shell K R sa) (rot_shell K R sb) ia ib alpha beta))
    (default_comps lb))) (default_comps la))
  = ovl_prim K sa sb ja jb alpha beta.
Proof. exact (@overlap_prim_rotation_matrix). Qed.
Print Assumptions C12_rotation_overlap_primitive_matrix.

(* ==================================================================================================== *)
(* 4. general rotations, Overlap.construct_array_contraction (list-level model): every entry, every segment,
      any angular momenta, any contraction.  This is RigidP.rotation_law_overlap with the hypotheses
      "1+1 <> 0" and "one coefficient row per exponent" added (C12_general_rotation_law_overlap_statement of
      Props/C12.v without them is therefore still not a theorem, only by these two side conditions). *)
Theorem C12_rotation_overlap_block :
  forall (F : Type) (K : Fops F), is_field K ->
  (forall x : F, fapx K x = x) ->
  (forall x y : F, fexp K (fadd K x y) = fmul K (fexp K x) (fexp K y)) ->
  (forall c : comp, dfnorm K c <> f0 K) ->
  fadd K (f1 K) (f1 K) <> f0 K ->
  forall R : mat3, orthogonal K R ->
  forall la lb : nat, exists Ma Mb : comp -> comp -> F,
    mono_rep K R la Ma /\ mono_rep K R lb Mb /\
    forall sa sb : shell F,
    s_l sa = la -> s_l sb = lb -> s_comps sa = [] -> s_comps sb = [] ->
    wf_coeffs sa -> wf_coeffs sb ->
    (forall a b : F, In a (s_exps sa) -> In b (s_exps sb) -> fadd K a b <> f0 K) ->
    forall ma mb ja jb : nat,
    (ma < nseg sa)%nat -> (mb < nseg sb)%nat ->
    (ja < length (default_comps la))%nat -> (jb < length (default_comps lb))%nat ->
    let cmp := fun l i : nat => nth i (default_comps l) (0, 0, 0)%nat in
    fmul K (fmul K (dfnorm K (cmp la ja)) (dfnorm K (cmp lb jb)))
      (nth jb (nth mb (nth ja (nth ma (overlap_block K sa sb) []) []) []) (f0 K))
    = fsum K (map (fun ia : nat => fsum K (map (fun ib : nat =>
        fmul K (fmul K (fmul K (fmul K (Ma (cmp la ia) (cmp la ja)) (Mb (cmp lb ib) (cmp lb jb)))
                               (dfnorm K (cmp la ia))) (dfnorm K (cmp lb ib)))
          (nth ib (nth mb (nth ia (nth ma (overlap_block K (rot_shell K R sa) (rot_shell K R sb)) []) []) [])
               (f0 K)))
        (seq 0 (length (default_comps lb))))) (seq 0 (length (default_comps la)))).
Proof. exact (@rotation_law_overlap_wf_holds). Qed.
Print Assumptions C12_rotation_overlap_block.

(* the stated law of Props/C12.v implies the proved one (they differ by the two side conditions only) *)
Theorem C12_rotation_stated_law_implies_proved :
  forall (F : Type) (K : Fops F), rotation_law_overlap K -> rotation_law_overlap_wf K.
Proof. exact (@rotation_law_overlap_implies_wf). Qed.
Print Assumptions C12_rotation_stated_law_implies_proved.

(* KineticEnergyIntegral.construct_array_contraction (list-level model): the same sentence ([block_law]: the equation
   of C12_rotation_overlap_block with kinetic_block in place of overlap_block) *)
Theorem C12_rotation_kinetic_block :
  forall (F : Type) (K : Fops F), is_field K ->
  (forall x : F, fapx K x = x) ->
  (forall x y : F, fexp K (fadd K x y) = fmul K (fexp K x) (fexp K y)) ->
  (forall c : comp, dfnorm K c <> f0 K) ->
  fadd K (f1 K) (f1 K) <> f0 K ->
  forall R : mat3, orthogonal K R ->
  forall la lb : nat, exists Ma Mb : comp -> comp -> F,
    mono_rep K R la Ma /\ mono_rep K R lb Mb /\
    forall sa sb : shell F,
    s_l sa = la -> s_l sb = lb -> s_comps sa = [] -> s_comps sb = [] ->
    wf_coeffs sa -> wf_coeffs sb ->
    (forall a b : F, In a (s_exps sa) -> In b (s_exps sb) -> fadd K a b <> f0 K) ->
    forall ma mb ja jb : nat,
    (ma < nseg sa)%nat -> (mb < nseg sb)%nat ->
    (ja < length (default_comps la))%nat -> (jb < length (default_comps lb))%nat ->
    let cmp := fun l i : nat => nth i (default_comps l) (0, 0, 0)%nat in
    fmul K (fmul K (dfnorm K (cmp la ja)) (dfnorm K (cmp lb jb)))
      (nth jb (nth mb (nth ja (nth ma (kinetic_block K sa sb) []) []) []) (f0 K))
    = fsum K (map (fun ia : nat => fsum K (map (fun ib : nat =>
        fmul K (fmul K (fmul K (fmul K (Ma (cmp la ia) (cmp la ja)) (Mb (cmp lb ib) (cmp lb jb)))
                               (dfnorm K (cmp la ia))) (dfnorm K (cmp lb ib)))
          (nth ib (nth mb (nth ia (nth ma (kinetic_block K (rot_shell K R sa) (rot_shell K R sb)) []) []) [])
               (f0 K)))
        (seq 0 (length (default_comps lb))))) (seq 0 (length (default_comps la)))).
Proof. exact (@kinetic_block_rotation_law_holds). Qed.
Print Assumptions C12_rotation_kinetic_block.

(* ==================================================================================================== *)
(* 5. the hypotheses are satisfiable (3-4-5 rotation about z and the improper (1/3)[[1,2,2],[2,1,-2],[2,-2,1]]) *)
Theorem C12_rotation_hypotheses_satisfiable :
  exists (F : Type) (K : Fops F) (R1 R2 : mat3) (alpha beta : F),
    is_field K /\ (forall x y, fexp K (fadd K x y) = fmul K (fexp K x) (fexp K y))
    /\ orthogonal K R1 /\ orthogonal K R2 /\ psum K alpha beta <> f0 K.
Proof. exact rotation_hypotheses_satisfiable. Qed.
Print Assumptions C12_rotation_hypotheses_satisfiable.

Theorem C12_rotation_block_hypotheses_satisfiable :
  exists (F : Type) (K : Fops F) (R : mat3) (sa sb : shell F),
    is_field K /\ (forall x y, fexp K (fadd K x y) = fmul K (fexp K x) (fexp K y)) /\ (forall x, fapx K x = x)
    /\ fadd K (f1 K) (f1 K) <> f0 K /\ (forall c, dfnorm K c <> f0 K)
    /\ orthogonal K R /\ wf_coeffs sa /\ wf_coeffs sb /\ s_comps sa = [] /\ s_comps sb = []
    /\ (forall a b, In a (s_exps sa) -> In b (s_exps sb) -> fadd K a b <> f0 K).
Proof. exact block_law_hypotheses_satisfiable_packed. Qed.
Print Assumptions C12_rotation_block_hypotheses_satisfiable.

(* the statements re-evaluated by computation on concrete rational data (p and d primitives; a contracted p shell
   with two segments against a d shell through the list-level model), proper and improper rotation *)
Theorem C12_rotation_examples_computed :
  forallb (fun ca => forallb (fun cb => ovl_cov_check R345 ca cb) pd_comps) pd_comps = true
  /\ forallb (fun ca => forallb (fun cb => ovl_cov_check Rimp ca cb)
       [(0, 1, 0)%nat; (1, 0, 1)%nat; (0, 0, 2)%nat]) pd_comps = true
  /\ forallb (fun R => forallb (fun ca => forallb (fun cb => kin_cov_check R ca cb)
       [(0, 1, 0)%nat; (1, 0, 1)%nat; (0, 0, 2)%nat]) [(1, 0, 0)%nat; (1, 1, 0)%nat]) [R345; Rimp] = true
  /\ block_law_all (overlap_block exKQ) = true /\ block_law_all (kinetic_block exKQ) = true.
Proof.
  exact (conj overlap_rotation_345_computed (conj overlap_rotation_improper_computed
          (conj kinetic_rotation_computed (conj block_law_computed kinetic_block_law_computed)))).
Qed.
Print Assumptions C12_rotation_examples_computed.
