(* Props/C14_full.v — property C14, the transform statement at FULL strength: Props/C14.v has
   C14_esp_transform_is_backtransformed_partial with the hypothesis [squareb ...] (the model's integral array is
   n x n x N); here that hypothesis is a THEOREM for every basis whose shells have at least one contraction and
   component / label lists of the size their angular momentum demands (the default orders in particular), any
   coordinate types, any number of shells and points.  Only statements closed by [exact] of a lemma of
   Proofs/EspFullP.v, each followed by Print Assumptions.

   esp_wf_shell s      0 < nseg s  /\  osize s = (if spherical then 2 l + 1 else (l+1)(l+2)/2)
   arr_shape n np V    V has n rows, every row n entries, every entry a vector of np numbers *)
From Coq Require Import List Arith Bool QArith Qcanon.
From GB Require Import Base.Field Base.Tables Model.Shell Model.Assembly Model.OneElec Model.OneBody
  Model.Esp Proofs.AssembledP Proofs.AssembledSphP Proofs.AssembledLincombP Proofs.EspP Proofs.EspFullP.
Import ListNotations.
Local Open Scope nat_scope.

Theorem C14_full_unfold :
  forall (F : Type) (s : shell F) (bs : list (shell F)) n np (V : list (list (list F))),
  (esp_wf_shell s <-> 0 < nseg s /\ osize s = if s_sph s then num_sph (s_l s) else num_cart (s_l s))
  /\ (esp_wf_basis bs <-> forall s, In s bs -> esp_wf_shell s)
  /\ (arr_shape n np V <-> length V = n /\ (forall I, I < n -> length (nth I V []) = n) /\
                           forall I J, I < n -> J < n -> length (nth J (nth I V []) []) = np).
Proof. exact (fun F s bs n np V => conj (iff_refl _) (conj (iff_refl _) (iff_refl _))). Qed.
Print Assumptions C14_full_unfold.

(* shells with the default component and label orders are well-formed *)
Theorem C14_default_shells_wf :
  forall (F : Type) (s : shell F), s_comps s = [] -> s_labels s = [] -> 0 < nseg s -> esp_wf_shell s.
Proof. exact (fun F => esp_wf_default). Qed.
Print Assumptions C14_default_shells_wf.

(* the number of contractions of the code's size check is the size of the assembled matrix *)
Theorem C14_nfun_is_matrix_size :
  forall (F : Type) (K : Fops F) (bs : list (shell F)), esp_wf_basis bs -> nfun_basis bs = ototal K bs.
Proof. exact (fun F K => nfun_is_ototal K). Qed.
Print Assumptions C14_nfun_is_matrix_size.

(* shape of point_charge_integral(basis, points, charges): [n][n][N] for ANY charges *)
Theorem C14_point_charge_integral_shape :
  forall (F : Type) (K : Fops F) (points : list (F * F * F * F)) (bs : list (shell F)),
  esp_wf_basis bs -> arr_shape (nfun_basis bs) (length points) (point_charge_integral K points bs None).
Proof. exact (fun F K => point_charge_integral_shape_none K). Qed.
Print Assumptions C14_point_charge_integral_shape.

(* ... and with transform = t (S rows, one column per contraction): [S][S][N] *)
Theorem C14_point_charge_integral_shape_transform :
  forall (F : Type) (K : Fops F) (points : list (F * F * F * F)) (bs : list (shell F)) (t : list (list F)) S,
  esp_wf_basis bs -> bs <> [] -> mat_shape S (nfun_basis bs) t ->
  arr_shape S (length points) (point_charge_integral K points bs (Some t)).
Proof. exact (fun F K => point_charge_integral_shape_T K). Qed.
Print Assumptions C14_point_charge_integral_shape_transform.

(* the bit the runner reports for every case is always true *)
Theorem C14_shape_bit_is_a_theorem :
  forall (F : Type) (K : Fops F) (points : list (F * F * F * F)) (bs : list (shell F)),
  esp_wf_basis bs -> squareb (nfun_basis bs) (length points) (point_charge_integral K points bs None) = true.
Proof. exact (fun F K => point_charge_integral_squareb K). Qed.
Print Assumptions C14_shape_bit_is_a_theorem.

(* FULL: an accepted call with a transform (any number of rows) returns what the untransformed path returns for
   T^T P T; and that call is accepted too *)
Theorem C14_esp_transform_is_backtransformed :
  forall (F : Type) (K : Fops F), is_field K ->
  forall basis P points ncoords ncharges T thr v,
  esp_wf_basis basis ->
  esp K basis P points ncoords ncharges (Some T) thr = Some v ->
  v = esp_values K (point_charge_integral K (unit_neg_points K points) basis None)
        (backtransform K T P (nfun_basis basis)) points (combine ncoords ncharges) thr
  /\ ((forall x y, feqb K x y = true <-> x = y) ->
      esp K basis (backtransform K T P (nfun_basis basis)) points ncoords ncharges None thr = Some v).
Proof. exact (fun F K Kf => esp_transform_is_backtransformed_full K Kf). Qed.
Print Assumptions C14_esp_transform_is_backtransformed.

(* ---- the hypotheses are satisfiable ---- *)
Example C14_wf_basis_satisfiable :
  forall (F : Type) (K : Fops F) (x y : F),
  esp_wf_basis [mkShell F 0 x x x [y] [[y]] false [] [];
                mkShell F 1 y x y [x; y] [[x; y]; [y; x]] true [] []].
Proof. exact (fun F K => esp_wf_example K). Qed.
Print Assumptions C14_wf_basis_satisfiable.

(* a concrete accepted call with a rectangular (2 x 4) transform over Qc (stand-in oracles), by vm_compute *)
Example C14_full_hypotheses_satisfiable :
  esp_wf_basis ex_basis /\
  exists v, esp exK ex_basis ex_P ex_points [(Q2Qc 0, Q2Qc 0, Q2Qc 0)] [Q2Qc 1] (Some ex_T) (Q2Qc 0) = Some v.
Proof. exact esp_full_example. Qed.
Print Assumptions C14_full_hypotheses_satisfiable.
