(* Props/C01.v — theorems backing property C01 (overlap integrals exact).
   Only statements closed by [exact] of a lemma proved elsewhere, each followed
   by Print Assumptions. *)
From Coq Require Import List Arith.
From GB Require Import Base.Field Base.Tables Gauss.Moment1D Model.MomentInt Proofs.MomentIntP.

(* Every entry of the table built by the code's recursion (any la, lb, moment
   order, exponents, centres; one axis, one primitive pair) is the s-s
   prefactor times the Gaussian moment E((y+PC)^k (y+PA)^i (y+PB)^j). *)
Theorem C01_table_exact :
  forall (F : Type) (K : Fops F), is_field K ->
  forall (Ax Bx Cx alpha beta : F) (la lb km : nat),
  psum K alpha beta <> f0 K -> fadd K (f1 K) (f1 K) <> f0 K ->
  forall k j i, k <= km -> j <= lb -> i <= la ->
  nth3 K k j i (table K Ax Bx Cx alpha beta la lb km)
  = fmul K (base K Ax Bx alpha beta)
      (T3 K (fdiv K (f1 K) (twop K alpha beta))
          (PA K Ax Bx alpha beta) (PB K Ax Bx alpha beta) (PC K Ax Bx Cx alpha beta) k i j).
Proof. exact (fun F K Kf Ax Bx Cx alpha beta la lb km Hp H2 =>
         table_correct K Kf Ax Bx Cx alpha beta la lb km Hp H2). Qed.
Print Assumptions C01_table_exact.
