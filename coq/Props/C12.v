(* Props/C12.v — theorems backing property C12 (results are covariant under rigid motions).

   FULL STATEMENT of the property, in model terms (not proved in full): for every orthogonal matrix R
   (proper or improper) and every translation t, with every centre, point, charge position and the moment
   origin moved by x -> R x + t, each integral array of the moved system is the array of the original system
   transformed by one representation matrix per basis index (the representation of R on the degree-l
   polynomials, in gbasis' per-component normalisation; the induced (2l+1)x(2l+1) orthogonal matrix for
   spherical shells), with vector / tensor components (moments, momentum, derivatives) rotating with R and the
   angular momentum with det(R) R; values, densities and potentials at the moved points are unchanged; and
   quantities about the coordinate origin shift by d x p / binomially.
   [C12_general_rotation_law_overlap_statement] below writes this out for the overlap block as a Coq
   proposition (a Definition: it is neither proved nor assumed anywhere).

   PROVED here (all inputs, no bound): the translation part for every model; the origin laws; the 48 signed
   axis permutations (one reflection + two transpositions generate them) for the separable integrals at the
   levels named in each theorem; for Boys-type integrals the law at the level of the specification.
   Theorems whose name ends in _partial prove less than the sentence of the property they belong to; the comment
   says what is missing.  NOT PROVED: general rotations (needs the representation theory of O(3) on
   homogeneous polynomials); decided by the correspondence check harness/c12.py only (rational rotations from
   integer quaternions, tolerance 1e-9).
   This file is generated from the lemma list in tools/gen_c12_props.py: the statements are those printed by Coq
   for the lemmas of Proofs/RigidP.v. *)
From Coq Require Import List Arith ZArith QArith Qcanon Field_theory.
From GB Require Import Base.Field Base.FNum Base.Tables Gauss.Moment1D Gauss.SPoly Model.Shell Model.MomentInt
  Model.DiffOp Model.OneElec Model.TwoElec Model.Eval Model.Overlap Model.OneBody Model.Assembly Proofs.RigidP.
Import ListNotations.

(* the law for general rotations, written out for Overlap.construct_array_contraction (see Proofs/RigidP.v,
   section 5, for the vocabulary: orthogonal, rot_shell, mono_rep, dfnorm) *)
Definition C12_general_rotation_law_overlap_statement : Prop :=
  forall (F : Type) (K : Fops F), is_field K -> rotation_law_overlap K.

(* ==================================================================================================== *)
(* 1. Translation invariance (every model sees centres, points, charges and the moment origin only through differences) *)

(* one axis, one primitive pair: the whole Obara-Saika table (all la lb, all moment orders) *)
Theorem C12_translation_moment_table :
  forall (F : Type) (K : Fops F),
  is_field K ->
  forall (Ax Bx Cx alpha beta t : F) (la lb km : nat),
  psum K alpha beta <> f0 K ->
  table K (fadd K Ax t) (fadd K Bx t) (fadd K Cx t) alpha beta la lb km =
  table K Ax Bx Cx alpha beta la lb km.
Proof. exact (@table_shift). Qed.
Print Assumptions C12_translation_moment_table.

(* the padded derivative table of _diff_operator_int.py, every order D *)
Theorem C12_translation_derivative_table :
  forall (F : Type) (K : Fops F),
  is_field K ->
  forall (Ax Bx alpha beta t : F) (la lb D : nat),
  psum K alpha beta <> f0 K ->
  dtable K (fadd K Ax t) (fadd K Bx t) alpha beta la lb D = dtable K Ax Bx alpha beta la lb D.
Proof. exact (@dtable_shift). Qed.
Print Assumptions C12_translation_derivative_table.

(* point-charge primitive cube: PA, PC, AB, the exp argument and the Boys argument are unchanged *)
Theorem C12_translation_vrr_primitive :
  forall (F : Type) (K : Fops F),
  is_field K ->
  forall (L : nat) (Ax Ay Az Bx By Bz Cx Cy Cz alpha beta tx ty tz : F),
  fadd K alpha beta <> f0 K ->
  vrr_prim K L (fadd K Ax tx) (fadd K Ay ty) (fadd K Az tz) (fadd K Bx tx) 
    (fadd K By ty) (fadd K Bz tz) (fadd K Cx tx) (fadd K Cy ty) (fadd K Cz tz) alpha beta =
  vrr_prim K L Ax Ay Az Bx By Bz Cx Cy Cz alpha beta.
Proof. exact (@vrr_prim_shift). Qed.
Print Assumptions C12_translation_vrr_primitive.

(* electron-repulsion primitive: vertical recursion + electron transfer, all four centres moved *)
Theorem C12_translation_eri_primitive :
  forall (F : Type) (K : Fops F),
  is_field K ->
  forall (L Lc : nat) (Ax Ay Az Bx By Bz Cx Cy Cz Dx Dy Dz alpha beta gamma delta tx ty tz : F),
  fadd K alpha beta <> f0 K ->
  fadd K gamma delta <> f0 K ->
  eri_prim K L Lc (fadd K Ax tx, fadd K Ay ty, fadd K Az tz)
    (fadd K Bx tx, fadd K By ty, fadd K Bz tz) (fadd K Cx tx, fadd K Cy ty, fadd K Cz tz)
    (fadd K Dx tx, fadd K Dy ty, fadd K Dz tz) alpha beta gamma delta =
  eri_prim K L Lc (Ax, Ay, Az) (Bx, By, Bz) (Cx, Cy, Cz) (Dx, Dy, Dz) alpha beta gamma delta.
Proof. exact (@eri_prim_shift). Qed.
Print Assumptions C12_translation_eri_primitive.

(* basis-function evaluation: the Gaussian argument and the three axis rows *)
Theorem C12_translation_eval_primitive :
  forall (F : Type) (K : Fops F),
  is_field K ->
  forall (md : rowmode) (ef : F -> F) (s : shell F) (o : comp) (tx ty tz : F) 
    (p : F * F * F) (alpha : F),
  prim_data K md ef (shift_shell K tx ty tz s) o (shift_point K tx ty tz p) alpha =
  prim_data K md ef s o p alpha.
Proof. exact (@prim_data_shift). Qed.
Print Assumptions C12_translation_eval_primitive.

(* _compute_multipole_moment_integrals with the origin moved along *)
Theorem C12_translation_multipole_block :
  forall (F : Type) (K : Fops F),
  is_field K ->
  forall (Cx Cy Cz : F) (orders : list comp) (sa sb : shell F) (tx ty tz : F),
  exps_ok K sa sb ->
  mm_block K (fadd K Cx tx) (fadd K Cy ty) (fadd K Cz tz) orders (shift_shell K tx ty tz sa)
    (shift_shell K tx ty tz sb) = mm_block K Cx Cy Cz orders sa sb.
Proof. exact (@mm_block_shift). Qed.
Print Assumptions C12_translation_multipole_block.

(* Moment.construct_array_contraction *)
Theorem C12_translation_moment_block :
  forall (F : Type) (K : Fops F),
  is_field K ->
  forall (Cx Cy Cz : F) (orders : list comp) (sa sb : shell F) (tx ty tz : F),
  exps_ok K sa sb ->
  moment_block K (fadd K Cx tx) (fadd K Cy ty) (fadd K Cz tz) orders (shift_shell K tx ty tz sa)
    (shift_shell K tx ty tz sb) = moment_block K Cx Cy Cz orders sa sb.
Proof. exact (@moment_block_shift). Qed.
Print Assumptions C12_translation_moment_block.

(* Overlap.construct_array_contraction *)
Theorem C12_translation_overlap_block :
  forall (F : Type) (K : Fops F),
  is_field K ->
  forall (sa sb : shell F) (tx ty tz : F),
  exps_ok K sa sb ->
  overlap_block K (shift_shell K tx ty tz sa) (shift_shell K tx ty tz sb) = overlap_block K sa sb.
Proof. exact (@overlap_block_shift). Qed.
Print Assumptions C12_translation_overlap_block.

(* _compute_differential_operator_integrals, any list of orders *)
Theorem C12_translation_diffop_block :
  forall (F : Type) (K : Fops F),
  is_field K ->
  forall (orders : list comp) (sa sb : shell F) (tx ty tz : F),
  exps_ok K sa sb ->
  diffop_block K orders (shift_shell K tx ty tz sa) (shift_shell K tx ty tz sb) =
  diffop_block K orders sa sb.
Proof. exact (@diffop_block_shift). Qed.
Print Assumptions C12_translation_diffop_block.

(* KineticEnergyIntegral.construct_array_contraction *)
Theorem C12_translation_kinetic_block :
  forall (F : Type) (K : Fops F),
  is_field K ->
  forall (sa sb : shell F) (tx ty tz : F),
  exps_ok K sa sb ->
  kinetic_block K (shift_shell K tx ty tz sa) (shift_shell K tx ty tz sb) = kinetic_block K sa sb.
Proof. exact (@kinetic_block_shift). Qed.
Print Assumptions C12_translation_kinetic_block.

(* MomentumIntegral.construct_array_contraction (real matrix R of -iR) *)
Theorem C12_translation_momentum_block :
  forall (F : Type) (K : Fops F),
  is_field K ->
  forall (sa sb : shell F) (tx ty tz : F),
  exps_ok K sa sb ->
  momentum_block_re K (shift_shell K tx ty tz sa) (shift_shell K tx ty tz sb) =
  momentum_block_re K sa sb.
Proof. exact (@momentum_block_shift). Qed.
Print Assumptions C12_translation_momentum_block.

(* _compute_one_elec_integrals for one point charge *)
Theorem C12_translation_one_elec_point :
  forall (F : Type) (K : Fops F),
  is_field K ->
  forall (Cx Cy Cz : F) (sa sb : shell F) (tx ty tz : F),
  exps_ok K sa sb ->
  one_elec_point K (fadd K Cx tx) (fadd K Cy ty) (fadd K Cz tz) (shift_shell K tx ty tz sa)
    (shift_shell K tx ty tz sb) = one_elec_point K Cx Cy Cz sa sb.
Proof. exact (@one_elec_point_shift). Qed.
Print Assumptions C12_translation_one_elec_point.

(* PointChargeIntegral.construct_array_contraction, all charges moved *)
Theorem C12_translation_point_charge_block :
  forall (F : Type) (K : Fops F),
  is_field K ->
  forall (points : list (F * F * F * F)) (sa sb : shell F) (tx ty tz : F),
  exps_ok K sa sb ->
  point_charge_block K (map (shift_charge K tx ty tz) points) (shift_shell K tx ty tz sa)
    (shift_shell K tx ty tz sb) = point_charge_block K points sa sb.
Proof. exact (@point_charge_block_shift). Qed.
Print Assumptions C12_translation_point_charge_block.

(* ElectronRepulsionIntegral.construct_array_contraction *)
Theorem C12_translation_eri_block :
  forall (F : Type) (K : Fops F),
  is_field K ->
  forall (s1 s2 s3 s4 : shell F) (tx ty tz : F),
  exps_ok K s1 s2 ->
  exps_ok K s3 s4 ->
  eri_block K (shift_shell K tx ty tz s1) (shift_shell K tx ty tz s2) (shift_shell K tx ty tz s3)
    (shift_shell K tx ty tz s4) = eri_block K s1 s2 s3 s4.
Proof. exact (@eri_block_shift). Qed.
Print Assumptions C12_translation_eri_block.

(* the (M, L, N) evaluation block for any row mode (both back-ends, error scales) *)
Theorem C12_translation_eval_block_with :
  forall (F : Type) (K : Fops F),
  is_field K ->
  forall (md : rowmode) (cm ef : F -> F) (s : shell F) (o : comp) (pts : list (F * F * F))
    (tx ty tz : F),
  block_with K md cm ef (shift_shell K tx ty tz s) o (map (shift_point K tx ty tz) pts) =
  block_with K md cm ef s o pts.
Proof. exact (@block_with_shift). Qed.
Print Assumptions C12_translation_eval_block_with.

(* EvalDeriv.construct_array_contraction, any order and back-end (including refusals) *)
Theorem C12_translation_eval_block :
  forall (F : Type) (K : Fops F),
  is_field K ->
  forall (s : shell F) (pts : list (F * F * F)) (o : comp) (bk : backend) (tx ty tz : F),
  eval_block K (shift_shell K tx ty tz s) (map (shift_point K tx ty tz) pts) o bk =
  eval_block K s pts o bk.
Proof. exact (@eval_block_shift). Qed.
Print Assumptions C12_translation_eval_block.

(* the public overlap_integral of a whole basis (Cartesian/spherical/mixed, any transform) *)
Theorem C12_translation_overlap_integral :
  forall (F : Type) (K : Fops F),
  is_field K ->
  forall (tx ty tz : F) (basis : list (shell F)) (T : option (list (list F))),
  basis_ok K basis ->
  overlap_integral K (map (shift_shell K tx ty tz) basis) T = overlap_integral K basis T.
Proof. exact (@overlap_integral_shift). Qed.
Print Assumptions C12_translation_overlap_integral.

(* kinetic_energy_integral *)
Theorem C12_translation_kinetic_integral :
  forall (F : Type) (K : Fops F),
  is_field K ->
  forall (tx ty tz : F) (basis : list (shell F)) (T : option (list (list F))),
  basis_ok K basis ->
  kinetic_integral K (map (shift_shell K tx ty tz) basis) T = kinetic_integral K basis T.
Proof. exact (@kinetic_integral_shift). Qed.
Print Assumptions C12_translation_kinetic_integral.

(* moment_integral with the origin moved along *)
Theorem C12_translation_moment_integral :
  forall (F : Type) (K : Fops F),
  is_field K ->
  forall (tx ty tz Cx Cy Cz : F) (orders : list comp) (basis : list (shell F))
    (T : option (list (list F))),
  basis_ok K basis ->
  moment_integral K (fadd K Cx tx) (fadd K Cy ty) (fadd K Cz tz) orders
    (map (shift_shell K tx ty tz) basis) T = moment_integral K Cx Cy Cz orders basis T.
Proof. exact (@moment_integral_shift). Qed.
Print Assumptions C12_translation_moment_integral.

(* point_charge_integral *)
Theorem C12_translation_point_charge_integral :
  forall (F : Type) (K : Fops F),
  is_field K ->
  forall (tx ty tz : F) (points : list (F * F * F * F)) (basis : list (shell F))
    (T : option (list (list F))),
  basis_ok K basis ->
  point_charge_integral K (map (shift_charge K tx ty tz) points) (map (shift_shell K tx ty tz) basis)
    T = point_charge_integral K points basis T.
Proof. exact (@point_charge_integral_shift). Qed.
Print Assumptions C12_translation_point_charge_integral.

(* nuclear_electron_attraction_integral *)
Theorem C12_translation_nuclear_attraction_integral :
  forall (F : Type) (K : Fops F),
  is_field K ->
  forall (tx ty tz : F) (points : list (F * F * F * F)) (basis : list (shell F))
    (T : option (list (list F))),
  basis_ok K basis ->
  nuclear_attraction_integral K (map (shift_charge K tx ty tz) points)
    (map (shift_shell K tx ty tz) basis) T = nuclear_attraction_integral K points basis T.
Proof. exact (@nuclear_attraction_integral_shift). Qed.
Print Assumptions C12_translation_nuclear_attraction_integral.

(* evaluate_deriv_basis at the moved points (any order, back-end, transform) *)
Theorem C12_translation_evaluate_deriv_basis :
  forall (F : Type) (K : Fops F),
  is_field K ->
  forall (tx ty tz : F) (basis : list (shell F)) (pts : list (F * F * F)) 
    (o : comp) (T : option (list (list F))) (bk : backend),
  (forall s : shell F, In s basis -> exps_ok K s s) ->
  evaluate_deriv_basis_model K (map (shift_shell K tx ty tz) basis) (map (shift_point K tx ty tz) pts)
    o T bk = evaluate_deriv_basis_model K basis pts o T bk.
Proof. exact (@evaluate_deriv_basis_shift). Qed.
Print Assumptions C12_translation_evaluate_deriv_basis.

(* evaluate_basis at the moved points *)
Theorem C12_translation_evaluate_basis :
  forall (F : Type) (K : Fops F),
  is_field K ->
  forall (tx ty tz : F) (basis : list (shell F)) (pts : list (F * F * F)) (T : option (list (list F))),
  (forall s : shell F, In s basis -> exps_ok K s s) ->
  evaluate_basis_model K (map (shift_shell K tx ty tz) basis) (map (shift_point K tx ty tz) pts) T =
  evaluate_basis_model K basis pts T.
Proof. exact (@evaluate_basis_shift). Qed.
Print Assumptions C12_translation_evaluate_basis.

(* ==================================================================================================== *)
(* 2. Origin laws *)

(* (y+c+t)^k = sum_m binom(k,m) t^(k-m) (y+c)^m under every E_n, any two other linear factors *)
Theorem C12_origin_shift_moments_S3 :
  forall (F : Type) (K : Fops F),
  is_field K ->
  forall (v a b c t : F) (k n i j : nat),
  S3 K v a b (fadd K c t) n k i j = bsum K t k (fun m : nat => S3 K v a b c n m i j).
Proof. exact (@S3_origin_shift). Qed.
Print Assumptions C12_origin_shift_moments_S3.

(* the 1-D moment integral about a displaced origin: binomial law *)
Theorem C12_origin_shift_moments_T3 :
  forall (F : Type) (K : Fops F),
  is_field K ->
  forall (v a b c t : F) (k i j : nat),
  T3 K v a b (fadd K c t) k i j = bsum K t k (fun m : nat => T3 K v a b c m i j).
Proof. exact (@T3_origin_shift). Qed.
Print Assumptions C12_origin_shift_moments_T3.

(* the same law for the table the code builds (origin Cx -> Cx - t), every entry *)
Theorem C12_origin_shift_moment_table :
  forall (F : Type) (K : Fops F),
  is_field K ->
  forall (Ax Bx Cx alpha beta t : F) (la lb km k j i : nat),
  psum K alpha beta <> f0 K ->
  fadd K (f1 K) (f1 K) <> f0 K ->
  (k <= km)%nat ->
  (j <= lb)%nat ->
  (i <= la)%nat ->
  nth3 K k j i (table K Ax Bx (fsub K Cx t) alpha beta la lb km) =
  bsum K t k (fun m : nat => nth3 K m j i (table K Ax Bx Cx alpha beta la lb km)).
Proof. exact (@table_origin_shift). Qed.
Print Assumptions C12_origin_shift_moment_table.

(* angular momentum about a displaced origin = L + t x p (t = -d) for the primitive products that
   angmom_block_re contracts (moment, derivative and momentum tables of the models) *)
Theorem C12_origin_shift_angular_momentum_primitive :
  forall (F : Type) (K : Fops F),
  is_field K ->
  forall (Ax Ay Az Bx By Bz alpha beta tx ty tz : F) (la lb : nat) (ca cb : comp),
  (forall x : F, fapx K x = x) ->
  fadd K alpha beta <> f0 K ->
  fadd K (f1 K) (f1 K) <> f0 K ->
  (fst (fst ca) <= la)%nat /\ (snd (fst ca) <= la)%nat /\ (snd ca <= la)%nat ->
  (fst (fst cb) <= lb)%nat /\ (snd (fst cb) <= lb)%nat /\ (snd cb <= lb)%nat ->
  let d :=
    (dtable K Ax Bx alpha beta la lb 1, dtable K Ay By alpha beta la lb 1,
     dtable K Az Bz alpha beta la lb 1) in
  let m0 :=
    (table K Ax Bx (f0 K) alpha beta la lb 1, table K Ay By (f0 K) alpha beta la lb 1,
     table K Az Bz (f0 K) alpha beta la lb 1) in
  let mt :=
    (table K (fadd K Ax tx) (fadd K Bx tx) (f0 K) alpha beta la lb 1,
     table K (fadd K Ay ty) (fadd K By ty) (f0 K) alpha beta la lb 1,
     table K (fadd K Az tz) (fadd K Bz tz) (f0 K) alpha beta la lb 1) in
  let p :=
    (prim3 K d (1%nat, 0%nat, 0%nat) ca cb, prim3 K d (0%nat, 1%nat, 0%nat) ca cb,
     prim3 K d (0%nat, 0%nat, 1%nat) ca cb) in
  angmom_prim K d mt ca cb =
  map (fun '(l, x) => fadd K l x) (combine (angmom_prim K d m0 ca cb) (cross3 K (tx, ty, tz) p)).
Proof. exact (@angmom_prim_shift). Qed.
Print Assumptions C12_origin_shift_angular_momentum_primitive.

(* AngularMomentumIntegral.construct_array_contraction is its three Cartesian component blocks zipped *)
Theorem C12_angular_momentum_block_components :
  forall (F : Type) (K : Fops F) (sa sb : shell F),
  angmom_block_re K sa sb =
  zip4 (fun (xy : list F) (z : F) => xy ++ [z])
    (zip4 (fun x y : F => [x; y]) (angmom_comp_block K sa sb 0) (angmom_comp_block K sa sb 1))
    (angmom_comp_block K sa sb 2).
Proof. exact (@angmom_block_re_comps). Qed.
Print Assumptions C12_angular_momentum_block_components.

(* MomentumIntegral.construct_array_contraction likewise *)
Theorem C12_momentum_block_components :
  forall (F : Type) (K : Fops F) (sa sb : shell F),
  momentum_block_re K sa sb =
  zip4 (fun (xy : list F) (z : F) => xy ++ [z])
    (zip4 (fun x y : F => [x; y]) (momentum_comp_block K sa sb 0) (momentum_comp_block K sa sb 1))
    (momentum_comp_block K sa sb 2).
Proof. exact (@momentum_block_re_comps). Qed.
Print Assumptions C12_momentum_block_components.

(* block level (through the contraction): every entry of every Cartesian component of the angular-momentum block of
   the moved shell pair = entry of the original + (t x p) with p the momentum block entries, i.e. L about a
   displaced origin = L - d x p; PARTIAL here (one shell pair); lifted through the Hermitian assembly to the whole-basis
   angmom_integral_re, any coordinate types, in Props/C12_assembled.v *)
Theorem C12_origin_shift_angular_momentum_block_partial :
  forall (F : Type) (K : Fops F),
  is_field K ->
  forall (sa sb : shell F) (tx ty tz : F) (c ma ia mb ib : nat),
  (forall x : F, fapx K x = x) ->
  fadd K (f1 K) (f1 K) <> f0 K ->
  exps_ok K sa sb ->
  comps_within sa ->
  comps_within sb ->
  (c < 3)%nat ->
  (ma < nseg sa)%nat ->
  (mb < nseg sb)%nat ->
  (ia < length (comps_of sa))%nat ->
  (ib < length (comps_of sb))%nat ->
  let t := (tx, ty, tz) in
  let p := fun k : nat => get4 K ma ia mb ib (momentum_comp_block K sa sb k) in
  get4 K ma ia mb ib (angmom_comp_block K (shift_shell K tx ty tz sa) (shift_shell K tx ty tz sb) c) =
  fadd K
    (fadd K (get4 K ma ia mb ib (angmom_comp_block K sa sb c))
       (fmul K (tget t ((c + 1) mod 3)) (p ((c + 2) mod 3))))
    (fmul K (fopp K (tget t ((c + 2) mod 3))) (p ((c + 1) mod 3))).
Proof. exact (@angmom_block_shift). Qed.
Print Assumptions C12_origin_shift_angular_momentum_block_partial.

(* ==================================================================================================== *)
(* 3. The 48 signed axis permutations (generated by one reflection and two transpositions) *)

(* parity of the 1-D moments, every auxiliary index n *)
Theorem C12_reflection_parity_S3 :
  forall (F : Type) (K : Fops F),
  is_field K ->
  forall (v a b c : F) (k i j n : nat),
  S3 K v (fopp K a) (fopp K b) (fopp K c) n k i j =
  fmul K (sg K (n + k + i + j)) (S3 K v a b c n k i j).
Proof. exact (@S3_parity). Qed.
Print Assumptions C12_reflection_parity_S3.

(* T3(-a,-b,-c)(k,i,j) = (-1)^(k+i+j) T3(a,b,c)(k,i,j) *)
Theorem C12_reflection_parity_T3 :
  forall (F : Type) (K : Fops F),
  is_field K ->
  forall (v a b c : F) (k i j : nat),
  T3 K v (fopp K a) (fopp K b) (fopp K c) k i j = fmul K (sg K (k + i + j)) (T3 K v a b c k i j).
Proof. exact (@T3_parity). Qed.
Print Assumptions C12_reflection_parity_T3.

(* the code's table for the reflected axis (centres and origin negated) *)
Theorem C12_reflection_parity_moment_table :
  forall (F : Type) (K : Fops F),
  is_field K ->
  forall (Ax Bx Cx alpha beta : F) (la lb : nat),
  psum K alpha beta <> f0 K ->
  fadd K (f1 K) (f1 K) <> f0 K ->
  forall km k j i : nat,
  (k <= km)%nat ->
  (j <= lb)%nat ->
  (i <= la)%nat ->
  nth3 K k j i (table K (fopp K Ax) (fopp K Bx) (fopp K Cx) alpha beta la lb km) =
  fmul K (sg K (k + i + j)) (nth3 K k j i (table K Ax Bx Cx alpha beta la lb km)).
Proof. exact (@table_parity). Qed.
Print Assumptions C12_reflection_parity_moment_table.

(* the derivative table: each derivative flips the parity once more *)
Theorem C12_reflection_parity_derivative_table :
  forall (F : Type) (K : Fops F),
  is_field K ->
  forall (Ax Bx alpha beta : F) (la lb : nat),
  psum K alpha beta <> f0 K ->
  fadd K (f1 K) (f1 K) <> f0 K ->
  forall D k j i : nat,
  (k <= D)%nat ->
  (j <= lb)%nat ->
  (i <= la)%nat ->
  nth3 K k j i (dtable K (fopp K Ax) (fopp K Bx) alpha beta la lb D) =
  fmul K (sg K (k + i + j)) (nth3 K k j i (dtable K Ax Bx alpha beta la lb D)).
Proof. exact (@dtable_parity). Qed.
Print Assumptions C12_reflection_parity_derivative_table.

(* the 3-D primitive is a product over the axes: exchanging x,y tables exchanges the component / order indices *)
Theorem C12_axis_swap_xy_primitive :
  forall (F : Type) (K : Fops F),
  is_field K ->
  forall (t : table3) (o ca cb : comp),
  prim3 K (swap_xy t) (swap_xy o) (swap_xy ca) (swap_xy cb) = prim3 K t o ca cb.
Proof. exact (@prim3_swap_xy). Qed.
Print Assumptions C12_axis_swap_xy_primitive.

(* same for y,z *)
Theorem C12_axis_swap_yz_primitive :
  forall (F : Type) (K : Fops F),
  is_field K ->
  forall (t : table3) (o ca cb : comp),
  prim3 K (swap_yz t) (swap_yz o) (swap_yz ca) (swap_yz cb) = prim3 K t o ca cb.
Proof. exact (@prim3_swap_yz). Qed.
Print Assumptions C12_axis_swap_yz_primitive.

(* reflection of the x axis multiplies the 3-D primitive by (-1)^(o_x+a_x+b_x) *)
Theorem C12_reflection_x_primitive :
  forall (F : Type) (K : Fops F),
  is_field K ->
  forall (Ax Bx Cx alpha beta : F) (la lb km : nat) (ty tz : list (list (list F))) (o ca cb : comp),
  (forall x : F, fapx K x = x) ->
  psum K alpha beta <> f0 K ->
  fadd K (f1 K) (f1 K) <> f0 K ->
  (fst (fst o) <= km)%nat ->
  (fst (fst ca) <= la)%nat ->
  (fst (fst cb) <= lb)%nat ->
  prim3 K (table K (fopp K Ax) (fopp K Bx) (fopp K Cx) alpha beta la lb km, ty, tz) o ca cb =
  fmul K (sg K (fst (fst o) + fst (fst ca) + fst (fst cb)))
    (prim3 K (table K Ax Bx Cx alpha beta la lb km, ty, tz) o ca cb).
Proof. exact (@prim3_reflect_x). Qed.
Print Assumptions C12_reflection_x_primitive.

(* same for the derivative family *)
Theorem C12_reflection_x_derivative_primitive :
  forall (F : Type) (K : Fops F),
  is_field K ->
  forall (Ax Bx alpha beta : F) (la lb D : nat) (ty tz : list (list (list F))) (o ca cb : comp),
  (forall x : F, fapx K x = x) ->
  psum K alpha beta <> f0 K ->
  fadd K (f1 K) (f1 K) <> f0 K ->
  (fst (fst o) <= D)%nat ->
  (fst (fst ca) <= la)%nat ->
  (fst (fst cb) <= lb)%nat ->
  prim3 K (dtable K (fopp K Ax) (fopp K Bx) alpha beta la lb D, ty, tz) o ca cb =
  fmul K (sg K (fst (fst o) + fst (fst ca) + fst (fst cb)))
    (prim3 K (dtable K Ax Bx alpha beta la lb D, ty, tz) o ca cb).
Proof. exact (@dprim3_reflect_x). Qed.
Print Assumptions C12_reflection_x_derivative_primitive.

(* block level: every entry of the multipole block of the x-reflected pair (origin reflected along) *)
Theorem C12_reflection_x_multipole_block :
  forall (F : Type) (K : Fops F),
  is_field K ->
  forall (Cx Cy Cz : F) (orders : list comp) (sa sb : shell F) (io ma ia mb ib : nat),
  (forall x : F, fapx K x = x) ->
  fadd K (f1 K) (f1 K) <> f0 K ->
  exps_ok K sa sb ->
  comps_within sa ->
  comps_within sb ->
  (io < length orders)%nat ->
  (ma < nseg sa)%nat ->
  (mb < nseg sb)%nat ->
  (ia < length (comps_of sa))%nat ->
  (ib < length (comps_of sb))%nat ->
  get4 K ma ia mb ib
    (nth io (mm_block K (fopp K Cx) Cy Cz orders (reflect_x_shell K sa) (reflect_x_shell K sb)) []) =
  fmul K
    (sg K
       (fst (fst (nth io orders (0%nat, 0%nat, 0%nat))) +
        fst (fst (nth ia (comps_of sa) (0%nat, 0%nat, 0%nat))) +
        fst (fst (nth ib (comps_of sb) (0%nat, 0%nat, 0%nat)))))
    (get4 K ma ia mb ib (nth io (mm_block K Cx Cy Cz orders sa sb) [])).
Proof. exact (@mm_block_reflect_x). Qed.
Print Assumptions C12_reflection_x_multipole_block.

(* Overlap.construct_array_contraction of the x-reflected pair *)
Theorem C12_reflection_x_overlap_block :
  forall (F : Type) (K : Fops F),
  is_field K ->
  forall (sa sb : shell F) (ma ia mb ib : nat),
  (forall x : F, fapx K x = x) ->
  fadd K (f1 K) (f1 K) <> f0 K ->
  exps_ok K sa sb ->
  comps_within sa ->
  comps_within sb ->
  (ma < nseg sa)%nat ->
  (mb < nseg sb)%nat ->
  (ia < length (comps_of sa))%nat ->
  (ib < length (comps_of sb))%nat ->
  get4 K ma ia mb ib (overlap_block K (reflect_x_shell K sa) (reflect_x_shell K sb)) =
  fmul K
    (sg K
       (fst (fst (nth ia (comps_of sa) (0%nat, 0%nat, 0%nat))) +
        fst (fst (nth ib (comps_of sb) (0%nat, 0%nat, 0%nat)))))
    (get4 K ma ia mb ib (overlap_block K sa sb)).
Proof. exact (@overlap_block_reflect_x). Qed.
Print Assumptions C12_reflection_x_overlap_block.

(* derivative blocks (kinetic, momentum) of the x-reflected pair *)
Theorem C12_reflection_x_diffop_block :
  forall (F : Type) (K : Fops F),
  is_field K ->
  forall (orders : list comp) (sa sb : shell F) (io ma ia mb ib : nat),
  (forall x : F, fapx K x = x) ->
  fadd K (f1 K) (f1 K) <> f0 K ->
  exps_ok K sa sb ->
  comps_within sa ->
  comps_within sb ->
  (io < length orders)%nat ->
  (ma < nseg sa)%nat ->
  (mb < nseg sb)%nat ->
  (ia < length (comps_of sa))%nat ->
  (ib < length (comps_of sb))%nat ->
  get4 K ma ia mb ib (nth io (diffop_block K orders (reflect_x_shell K sa) (reflect_x_shell K sb)) []) =
  fmul K
    (sg K
       (fst (fst (nth io orders (0%nat, 0%nat, 0%nat))) +
        fst (fst (nth ia (comps_of sa) (0%nat, 0%nat, 0%nat))) +
        fst (fst (nth ib (comps_of sb) (0%nat, 0%nat, 0%nat)))))
    (get4 K ma ia mb ib (nth io (diffop_block K orders sa sb) [])).
Proof. exact (@diffop_block_reflect_x). Qed.
Print Assumptions C12_reflection_x_diffop_block.

(* the hypothesis comps_within holds for the default Cartesian components *)
Theorem C12_default_components_within_l :
  forall (F : Type) (s : shell F), s_comps s = [] -> comps_within s.
Proof. exact (@default_comps_within). Qed.
Print Assumptions C12_default_components_within_l.

(* block level: the x<->y exchanged system's block read at the exchanged component positions *)
Theorem C12_axis_swap_xy_multipole_block :
  forall (F : Type) (K : Fops F),
  is_field K ->
  forall (Cx Cy Cz : F) (orders : list (nat * nat * nat)) (sa sb : shell F)
    (io ma ia ia' mb ib ib' : nat),
  (io < length orders)%nat ->
  (ma < nseg sa)%nat ->
  (mb < nseg sb)%nat ->
  (ia < length (comps_of sa))%nat ->
  (ia' < length (comps_of sa))%nat ->
  (ib < length (comps_of sb))%nat ->
  (ib' < length (comps_of sb))%nat ->
  nth ia' (comps_of sa) (0%nat, 0%nat, 0%nat) = swap_xy (nth ia (comps_of sa) (0%nat, 0%nat, 0%nat)) ->
  nth ib' (comps_of sb) (0%nat, 0%nat, 0%nat) = swap_xy (nth ib (comps_of sb) (0%nat, 0%nat, 0%nat)) ->
  get4 K ma ia' mb ib'
    (nth io (mm_block K Cy Cx Cz (map swap_xy orders) (swap_xy_shell sa) (swap_xy_shell sb)) []) =
  get4 K ma ia mb ib (nth io (mm_block K Cx Cy Cz orders sa sb) []).
Proof. exact (@mm_block_swap_xy). Qed.
Print Assumptions C12_axis_swap_xy_multipole_block.

(* block level, y<->z *)
Theorem C12_axis_swap_yz_multipole_block :
  forall (F : Type) (K : Fops F),
  is_field K ->
  forall (Cx Cy Cz : F) (orders : list (nat * nat * nat)) (sa sb : shell F)
    (io ma ia ia' mb ib ib' : nat),
  (io < length orders)%nat ->
  (ma < nseg sa)%nat ->
  (mb < nseg sb)%nat ->
  (ia < length (comps_of sa))%nat ->
  (ia' < length (comps_of sa))%nat ->
  (ib < length (comps_of sb))%nat ->
  (ib' < length (comps_of sb))%nat ->
  nth ia' (comps_of sa) (0%nat, 0%nat, 0%nat) = swap_yz (nth ia (comps_of sa) (0%nat, 0%nat, 0%nat)) ->
  nth ib' (comps_of sb) (0%nat, 0%nat, 0%nat) = swap_yz (nth ib (comps_of sb) (0%nat, 0%nat, 0%nat)) ->
  get4 K ma ia' mb ib'
    (nth io (mm_block K Cx Cz Cy (map swap_yz orders) (swap_yz_shell sa) (swap_yz_shell sb)) []) =
  get4 K ma ia mb ib (nth io (mm_block K Cx Cy Cz orders sa sb) []).
Proof. exact (@mm_block_swap_yz). Qed.
Print Assumptions C12_axis_swap_yz_multipole_block.

(* Overlap.construct_array_contraction *)
Theorem C12_axis_swap_xy_overlap_block :
  forall (F : Type) (K : Fops F),
  is_field K ->
  forall (sa sb : shell F) (ma ia ia' mb ib ib' : nat),
  (ma < nseg sa)%nat ->
  (mb < nseg sb)%nat ->
  (ia < length (comps_of sa))%nat ->
  (ia' < length (comps_of sa))%nat ->
  (ib < length (comps_of sb))%nat ->
  (ib' < length (comps_of sb))%nat ->
  nth ia' (comps_of sa) (0%nat, 0%nat, 0%nat) = swap_xy (nth ia (comps_of sa) (0%nat, 0%nat, 0%nat)) ->
  nth ib' (comps_of sb) (0%nat, 0%nat, 0%nat) = swap_xy (nth ib (comps_of sb) (0%nat, 0%nat, 0%nat)) ->
  get4 K ma ia' mb ib' (overlap_block K (swap_xy_shell sa) (swap_xy_shell sb)) =
  get4 K ma ia mb ib (overlap_block K sa sb).
Proof. exact (@overlap_block_swap_xy). Qed.
Print Assumptions C12_axis_swap_xy_overlap_block.

(* Overlap.construct_array_contraction *)
Theorem C12_axis_swap_yz_overlap_block :
  forall (F : Type) (K : Fops F),
  is_field K ->
  forall (sa sb : shell F) (ma ia ia' mb ib ib' : nat),
  (ma < nseg sa)%nat ->
  (mb < nseg sb)%nat ->
  (ia < length (comps_of sa))%nat ->
  (ia' < length (comps_of sa))%nat ->
  (ib < length (comps_of sb))%nat ->
  (ib' < length (comps_of sb))%nat ->
  nth ia' (comps_of sa) (0%nat, 0%nat, 0%nat) = swap_yz (nth ia (comps_of sa) (0%nat, 0%nat, 0%nat)) ->
  nth ib' (comps_of sb) (0%nat, 0%nat, 0%nat) = swap_yz (nth ib (comps_of sb) (0%nat, 0%nat, 0%nat)) ->
  get4 K ma ia' mb ib' (overlap_block K (swap_yz_shell sa) (swap_yz_shell sb)) =
  get4 K ma ia mb ib (overlap_block K sa sb).
Proof. exact (@overlap_block_swap_yz). Qed.
Print Assumptions C12_axis_swap_yz_overlap_block.

(* derivative blocks (kinetic, momentum): orders exchanged along *)
Theorem C12_axis_swap_xy_diffop_block :
  forall (F : Type) (K : Fops F),
  is_field K ->
  forall (orders : list (nat * nat * nat)) (sa sb : shell F) (io ma ia ia' mb ib ib' : nat),
  (io < length orders)%nat ->
  (ma < nseg sa)%nat ->
  (mb < nseg sb)%nat ->
  (ia < length (comps_of sa))%nat ->
  (ia' < length (comps_of sa))%nat ->
  (ib < length (comps_of sb))%nat ->
  (ib' < length (comps_of sb))%nat ->
  nth ia' (comps_of sa) (0%nat, 0%nat, 0%nat) = swap_xy (nth ia (comps_of sa) (0%nat, 0%nat, 0%nat)) ->
  nth ib' (comps_of sb) (0%nat, 0%nat, 0%nat) = swap_xy (nth ib (comps_of sb) (0%nat, 0%nat, 0%nat)) ->
  get4 K ma ia' mb ib'
    (nth io (diffop_block K (map swap_xy orders) (swap_xy_shell sa) (swap_xy_shell sb)) []) =
  get4 K ma ia mb ib (nth io (diffop_block K orders sa sb) []).
Proof. exact (@diffop_block_swap_xy). Qed.
Print Assumptions C12_axis_swap_xy_diffop_block.

(* derivative blocks, y<->z *)
Theorem C12_axis_swap_yz_diffop_block :
  forall (F : Type) (K : Fops F),
  is_field K ->
  forall (orders : list (nat * nat * nat)) (sa sb : shell F) (io ma ia ia' mb ib ib' : nat),
  (io < length orders)%nat ->
  (ma < nseg sa)%nat ->
  (mb < nseg sb)%nat ->
  (ia < length (comps_of sa))%nat ->
  (ia' < length (comps_of sa))%nat ->
  (ib < length (comps_of sb))%nat ->
  (ib' < length (comps_of sb))%nat ->
  nth ia' (comps_of sa) (0%nat, 0%nat, 0%nat) = swap_yz (nth ia (comps_of sa) (0%nat, 0%nat, 0%nat)) ->
  nth ib' (comps_of sb) (0%nat, 0%nat, 0%nat) = swap_yz (nth ib (comps_of sb) (0%nat, 0%nat, 0%nat)) ->
  get4 K ma ia' mb ib'
    (nth io (diffop_block K (map swap_yz orders) (swap_yz_shell sa) (swap_yz_shell sb)) []) =
  get4 K ma ia mb ib (nth io (diffop_block K orders sa sb) []).
Proof. exact (@diffop_block_swap_yz). Qed.
Print Assumptions C12_axis_swap_yz_diffop_block.

(* Boys-type integrals, SPEC level (Gauss/SPoly.v): the one-axis vertical recursion for ANY sequence beta has
   parity (-1)^a under (PA,PC) -> (-PA,-PC); PARTIAL: stated for the specification recursion Vf / polynomials Pc,
   the tie of Model/OneElec.vpass and TwoElec to them belongs to C03 / C04 *)
Theorem C12_boys_reflection_recursion_partial :
  forall (F : Type) (K : Fops F),
  is_field K ->
  forall (pa pc v : F) (beta : nat -> F) (a m : nat),
  Vf K (fopp K pa) (fopp K pc) v beta a m = fmul K (sg K a) (Vf K pa pc v beta a m) /\
  Vf K (fopp K pa) (fopp K pc) v beta (S a) m = fmul K (sg K (S a)) (Vf K pa pc v beta (S a) m).
Proof. exact (@Vf_parity). Qed.
Print Assumptions C12_boys_reflection_recursion_partial.

(* the s-polynomial seen through every Phi_m *)
Theorem C12_boys_reflection_polynomial_Phi_partial :
  forall (F : Type) (K : Fops F),
  is_field K ->
  forall (pa pc v : F) (beta : nat -> F) (a m : nat),
  Phi K beta m (Pc K (fopp K pa) (fopp K pc) v a) = fmul K (sg K a) (Phi K beta m (Pc K pa pc v a)).
Proof. exact (@Pc_parity_Phi). Qed.
Print Assumptions C12_boys_reflection_polynomial_Phi_partial.

(* ... and through every evaluation (the per-s Gaussian moment) *)
Theorem C12_boys_reflection_polynomial_eval_partial :
  forall (F : Type) (K : Fops F),
  is_field K ->
  forall (pa pc v : F) (a : nat) (s : F),
  peval K (Pc K (fopp K pa) (fopp K pc) v a) s = fmul K (sg K a) (peval K (Pc K pa pc v a) s).
Proof. exact (@Pc_parity_eval). Qed.
Print Assumptions C12_boys_reflection_polynomial_eval_partial.

(* Phi of a product of per-axis polynomials does not depend on the order of the axes *)
Theorem C12_boys_product_symmetric_partial :
  forall (F : Type) (K : Fops F),
  is_field K ->
  forall (beta : nat -> F) (f g : list F) (m : nat),
  Phi K beta m (pmul K f g) = Phi K beta m (pmul K g f).
Proof. exact (@Phi_pmul_comm). Qed.
Print Assumptions C12_boys_product_symmetric_partial.

(* 3-D specification Phi_m(Px Py Pz): exchanging x and y *)
Theorem C12_boys_spec_swap_xy_partial :
  forall (F : Type) (K : Fops F),
  is_field K ->
  forall (beta : nat -> F) (v : F) (pa pc : F * F * F) (a : nat * nat * nat) (m : nat),
  boys_spec K beta v (swap_xy pa) (swap_xy pc) (swap_xy a) m = boys_spec K beta v pa pc a m.
Proof. exact (@boys_spec_swap_xy). Qed.
Print Assumptions C12_boys_spec_swap_xy_partial.

(* exchanging y and z *)
Theorem C12_boys_spec_swap_yz_partial :
  forall (F : Type) (K : Fops F),
  is_field K ->
  forall (beta : nat -> F) (v : F) (pa pc : F * F * F) (a : nat * nat * nat) (m : nat),
  boys_spec K beta v (swap_yz pa) (swap_yz pc) (swap_yz a) m = boys_spec K beta v pa pc a m.
Proof. exact (@boys_spec_swap_yz). Qed.
Print Assumptions C12_boys_spec_swap_yz_partial.

(* reflecting x: factor (-1)^(a_x) *)
Theorem C12_boys_spec_reflect_x_partial :
  forall (F : Type) (K : Fops F),
  is_field K ->
  forall (beta : nat -> F) (v : F) (pa pc : F * F * F) (a : comp) (m : nat),
  boys_spec K beta v (fopp K (fst (fst pa)), snd (fst pa), snd pa)
    (fopp K (fst (fst pc)), snd (fst pc), snd pc) a m =
  fmul K (sg K (fst (fst a))) (boys_spec K beta v pa pc a m).
Proof. exact (@boys_spec_reflect_x). Qed.
Print Assumptions C12_boys_spec_reflect_x_partial.

(* the hypotheses used above (field, 1+1 <> 0, fapx = identity, exponent sums non-zero) are satisfiable:
   the executable instance at Qc with two concrete shells *)
Example C12_hypotheses_satisfiable :
  forall (opi : Qc) (osqrt oexp oln : Qc -> Qc) (oboys : nat -> Qc -> Qc),
  is_field (hypK opi osqrt oexp oln oboys) /\
  fadd (hypK opi osqrt oexp oln oboys) (f1 (hypK opi osqrt oexp oln oboys))
    (f1 (hypK opi osqrt oexp oln oboys)) <> f0 (hypK opi osqrt oexp oln oboys) /\
  (forall x : Qc, fapx (hypK opi osqrt oexp oln oboys) x = x) /\
  basis_ok (hypK opi osqrt oexp oln oboys) [hyp_shA; hyp_shB] /\
  exps_ok (hypK opi osqrt oexp oln oboys) hyp_shA hyp_shB /\
  psum (hypK opi osqrt oexp oln oboys) (hq 1) (hq 3) <> f0 (hypK opi osqrt oexp oln oboys).
Proof. exact hyp_example. Qed.
Print Assumptions C12_hypotheses_satisfiable.
