(* Props/BRIDGE_boys.v — bridge (B2) narrowed: the Boys functional.  Only statements closed by [exact] of a
   lemma proved in Gauss/BoysBridge.v, each followed by Print Assumptions.

   Fboys m T := RInt (fun t => t^(2m) * exp(-T t^2)) 0 1   (Coquelicot's Riemann integral: the Boys function)
   Phi K beta m f := sum_k f_k * beta (m+k),  peval K f s := value at s of the coefficient list f   (Gauss/SPoly.v)
   RK  := the number interface at R (Proofs/ScreeningP.v);  RKB := RK with fboys := Fboys
   prim_val K C A B al be ca cb := Phi (boys_seq ...) 0 (prim_poly ...): the spec of one primitive pair of the
   one-electron Coulomb models (Proofs/OneElecP.v; one_elec_spec is its contraction, one_elec_entry ties the
   model to it).

   What remains trusted for (B2) after this file: the identity
     int_{R^3} phi_a phi_b / |r-C| d^3r = right-hand side of BRIDGE_B2_prim_val_is_t_integral
   (Laplace representation of 1/r, exchange of integrals, Gaussian integration at fixed u — which is (B1) —
   and the substitution t^2 = u^2/(p+u^2)); stated precisely in the header of Gauss/BoysBridge.v. *)
From Coq Require Import List Reals.
From Coquelicot Require Import Coquelicot.
From GB Require Import Base.Field Base.FNum Gauss.Moment1D Gauss.SPoly Gauss.BridgeR
  Model.Shell Proofs.ScreeningP Proofs.OneElecP Gauss.BoysBridge.
Import ListNotations.
Open Scope R_scope.

(* ---------------- (B2): the Boys functional ---------------- *)
Theorem BRIDGE_B2_Phi_boys :
  forall (c T : R) (m : nat) (f : list R),
  Phi RK (fun k => c * Fboys k T) m f
  = c * RInt (fun t => SPoly.peval RK f (t ^ 2) * t ^ (2 * m) * exp (- T * t ^ 2)) 0 1.
Proof. exact Phi_boys. Qed.
Print Assumptions BRIDGE_B2_Phi_boys.

Theorem BRIDGE_B2_Phi_boys_integrable :
  forall (T : R) (m : nat) (f : list R),
  ex_RInt (fun t => SPoly.peval RK f (t ^ 2) * t ^ (2 * m) * exp (- T * t ^ 2)) 0 1.
Proof. exact Phi_boys_ex. Qed.
Print Assumptions BRIDGE_B2_Phi_boys_integrable.

Theorem BRIDGE_B2_Fboys_is_integral :
  forall (m : nat) (T : R), is_RInt (fun t => t ^ (2 * m) * exp (- T * t ^ 2)) 0 1 (Fboys m T).
Proof. exact Fboys_correct. Qed.
Print Assumptions BRIDGE_B2_Fboys_is_integral.

Theorem BRIDGE_B2_Fboys_0 : forall m : nat, Fboys m 0 = / INR (2 * m + 1).
Proof. exact Fboys_0. Qed.
Print Assumptions BRIDGE_B2_Fboys_0.

Theorem BRIDGE_B2_Fboys_recurrence :
  forall (m : nat) (T : R), INR (2 * m + 1) * Fboys m T = 2 * T * Fboys (S m) T + exp (- T).
Proof. exact Fboys_rec. Qed.
Print Assumptions BRIDGE_B2_Fboys_recurrence.

Theorem BRIDGE_B2_Fboys_pos : forall (m : nat) (T : R), 0 < Fboys m T.
Proof. exact Fboys_pos. Qed.
Print Assumptions BRIDGE_B2_Fboys_pos.

Theorem BRIDGE_B2_Fboys_le : forall (m : nat) (T : R), 0 <= T -> Fboys m T <= / INR (2 * m + 1).
Proof. exact Fboys_le. Qed.
Print Assumptions BRIDGE_B2_Fboys_le.

Theorem BRIDGE_B2_Fboys_decreasing_in_m : forall (m : nat) (T : R), Fboys (S m) T <= Fboys m T.
Proof. exact Fboys_decr. Qed.
Print Assumptions BRIDGE_B2_Fboys_decreasing_in_m.

Theorem BRIDGE_B2_prim_val_is_t_integral :
  forall (Cx Cy Cz Ax Ay Az Bx By Bz al be : R) (ca cb : Shell.comp),
  let p := al + be in
  let Px := (al * Ax + be * Bx) / p in let Py := (al * Ay + be * By) / p in
  let Pz := (al * Az + be * Bz) / p in
  let mu := al * be / p in
  let ab2 := (Ax - Bx) * (Ax - Bx) + (Ay - By) * (Ay - By) + (Az - Bz) * (Az - Bz) in
  let pc2 := (Px - Cx) * (Px - Cx) + (Py - Cy) * (Py - Cy) + (Pz - Cz) * (Pz - Cz) in
  let v := 1 / ((1 + 1) * p) in
  prim_val RKB Cx Cy Cz Ax Ay Az Bx By Bz al be ca cb
  = (1 + 1) * PI / p * exp (- (mu * ab2))
    * RInt (fun t =>
              S3 RKB (v * (1 - t ^ 2)) (Px - Ax - t ^ 2 * (Px - Cx)) (Px - Bx - t ^ 2 * (Px - Cx)) 0 0 0
                 (fst (fst ca)) (fst (fst cb))
              * S3 RKB (v * (1 - t ^ 2)) (Py - Ay - t ^ 2 * (Py - Cy)) (Py - By - t ^ 2 * (Py - Cy)) 0 0 0
                   (snd (fst ca)) (snd (fst cb))
              * S3 RKB (v * (1 - t ^ 2)) (Pz - Az - t ^ 2 * (Pz - Cz)) (Pz - Bz - t ^ 2 * (Pz - Cz)) 0 0 0
                   (snd ca) (snd cb)
              * exp (- (p * pc2) * t ^ 2)) 0 1.
Proof. exact prim_val_is_t_integral. Qed.
Print Assumptions BRIDGE_B2_prim_val_is_t_integral.

Example BRIDGE_B2_prim_val_ss :
  forall (Cx Cy Cz Ax Ay Az Bx By Bz al be : R),
  let p := al + be in
  let Px := (al * Ax + be * Bx) / p in let Py := (al * Ay + be * By) / p in
  let Pz := (al * Az + be * Bz) / p in
  let mu := al * be / p in
  let ab2 := (Ax - Bx) * (Ax - Bx) + (Ay - By) * (Ay - By) + (Az - Bz) * (Az - Bz) in
  let pc2 := (Px - Cx) * (Px - Cx) + (Py - Cy) * (Py - Cy) + (Pz - Cz) * (Pz - Cz) in
  prim_val RKB Cx Cy Cz Ax Ay Az Bx By Bz al be (0, 0, 0)%nat (0, 0, 0)%nat
  = (1 + 1) * PI / p * exp (- (mu * ab2)) * Fboys 0 (p * pc2).
Proof. exact prim_val_ss. Qed.
Print Assumptions BRIDGE_B2_prim_val_ss.
