(* Props/C18.v — theorems backing property C18 (basis-set import preserves every shell and leaves its
   arguments intact).  Only statements closed by [exact] of a lemma proved in Proofs/ParsersP.v, each
   followed by Print Assumptions.  Model: Model/Parsers.v (line/token level; numbers are literal strings). *)
From Coq Require Import List String.
From GB Require Import Model.Parsers Proofs.ParsersP.
Import ListNotations.
Open Scope string_scope.

(* NWChem: for EVERY well-formed basis set (any number of elements, blocks, primitives, columns; combined
   shells such as SP; any literals float() accepts that are not bare words) and EVERY layout (zero, one
   or many lines before the first element, comment / blank / other filler lines anywhere between lines,
   any indentation / separation / trailing blanks, upper- or lower-case shell letters) the parser returns
   exactly the shells written, per element, in file order, combined shells split. *)
Theorem parse_print_roundtrip_nwchem :
  forall (L : layout), layout_ok_nw L ->
  forall (a : ast), wf_ast a = true ->
  parse_nwchem_model (print_nwchem a L) = Some (expected a).
Proof. exact roundtrip_nwchem. Qed.
Print Assumptions parse_print_roundtrip_nwchem.

(* Gaussian94: same statement; a generalized shell is written as consecutive one-column blocks with equal
   exponents and the merge rule (parsers.py:150-164) puts it back together.  [close] is the comparison the
   merge rule applies to two exponent literals (np.allclose after float()), only assumed reflexive;
   wf_ast_gbs adds that no two consecutive shells of an element that are meant to be separate have the
   same angular momentum and pairwise-close exponents. *)
Theorem parse_print_roundtrip_gbs :
  forall (close : string -> string -> bool), (forall s, close s s = true) ->
  forall (L : layout), layout_ok_gbs L ->
  forall (a : ast), wf_ast_gbs close a = true ->
  parse_gbs_model close (print_gbs a L) = Some (expected a).
Proof. exact roundtrip_gbs. Qed.
Print Assumptions parse_print_roundtrip_gbs.

(* make_contractions: whenever the call returns, the contractions are, atom after atom (icenter = atom
   index, that atom's coordinate row), that atom's shells in dict order; the coordinate types are the
   entries of the list / tuple (or the one string repeated) in order, normalised; there are as many
   contractions as shells. *)
Theorem make_contractions_spec :
  forall (C : Type) (d : dict) (atoms : list string) (coords : list C) (ct : ctypes) res,
  fst (make_contractions_model (d, atoms, coords, ct)) = Some res ->
  List.length atoms = List.length coords /\
  map c_place res = placed_from d 0 (combine atoms coords) /\
  map (fun c => Some (c_type c)) res = map norm_type (expand ct (List.length res)) /\
  total_shells d atoms = Some (List.length res).
Proof. exact (@mc_spec). Qed.
Print Assumptions make_contractions_spec.

(* ... and the call does return for valid arguments: as many rows as atoms, every atom in the dict, one
   valid type per shell (list or tuple) or one valid string *)
Theorem make_contractions_accepts :
  forall (C : Type) (d : dict) (atoms : list string) (coords : list C) (ct : ctypes) (n : nat),
  List.length atoms = List.length coords ->
  total_shells d atoms = Some n ->
  List.length (expand ct n) = n -> Forall valid_type (expand ct n) ->
  (match ct with CStr s => valid_type s | _ => True end) ->
  exists res, fst (make_contractions_model (d, atoms, coords, ct)) = Some res.
Proof. exact (@mc_accepts). Qed.
Print Assumptions make_contractions_accepts.

(* the four argument objects are, after the call, what they were before; hence a second call with the
   same objects gives the same result; a tuple is treated as the list with the same entries *)
Theorem args_untouched :
  forall (C : Type) (args : @mc_args C), snd (make_contractions_model args) = args.
Proof. exact (@mc_args_untouched). Qed.
Print Assumptions args_untouched.
Theorem repeated_call_same :
  forall (C : Type) (args : @mc_args C),
  make_contractions_model (snd (make_contractions_model args)) = make_contractions_model args.
Proof. exact (@mc_repeatable). Qed.
Print Assumptions repeated_call_same.
Theorem tuple_as_list :
  forall (C : Type) d atoms (coords : list C) l,
  fst (make_contractions_model (d, atoms, coords, CList l)) = fst (make_contractions_model (d, atoms, coords, CTuple l)).
Proof. exact (@mc_list_tuple). Qed.
Print Assumptions tuple_as_list.

(* the hypotheses are satisfiable: a realistic basis set (6-31G-like Li with an SP shell, a two-column
   generalized d shell, a k shell, D / E / plain literals), realistic layouts and the bare layout with no
   line before the first element *)
Example hypotheses_satisfiable :
  (wf_ast ex_ast = true /\ wf_ast_gbs close_lit ex_ast = true) /\
  (layout_ok_nw ex_layout_nw /\ layout_ok_nw ex_layout_bare) /\
  (layout_ok_gbs ex_layout_gbs /\ layout_ok_gbs ex_layout_bare) /\
  (forall s, close_lit s s = true).
Proof. exact (conj ex_ast_wf (conj ex_layout_nw_ok (conj ex_layout_gbs_ok close_lit_refl))). Qed.
Print Assumptions hypotheses_satisfiable.
Example roundtrip_instances :
  parse_nwchem_model (print_nwchem ex_ast ex_layout_nw) = Some (expected ex_ast) /\
  parse_nwchem_model (print_nwchem ex_ast ex_layout_bare) = Some (expected ex_ast) /\
  parse_gbs_model close_lit (print_gbs ex_ast ex_layout_gbs) = Some (expected ex_ast) /\
  parse_gbs_model close_lit (print_gbs ex_ast ex_layout_bare) = Some (expected ex_ast) /\
  List.length (expected_shells (snd (hd ("", []) ex_ast))) = 5.
Proof. exact ex_roundtrips. Qed.
Print Assumptions roundtrip_instances.
Example make_contractions_instance :
  exists res,
    fst (make_contractions_model (C := nat)
           (expected ex_ast, ["H"; "Li"; "H"], [10; 11; 12],
            CTuple ["c"; "p"; "spherical"; "cartesian"; "c"; "p"; "p"; "c"; "spherical"; "p"; "c"])) = Some res /\
    List.length res = 11 /\
    map (fun c => fst (fst (fst c))) res = [0; 0; 0; 1; 1; 1; 1; 1; 2; 2; 2] /\
    map (fun c => snd (fst (fst c))) res = [10; 10; 10; 11; 11; 11; 11; 11; 12; 12; 12] /\
    map snd res = ["cartesian"; "spherical"; "spherical"; "cartesian"; "cartesian"; "spherical"; "spherical";
                   "cartesian"; "spherical"; "spherical"; "cartesian"].
Proof. exact ex_make_contractions. Qed.
Print Assumptions make_contractions_instance.
