(* Props/C18.v - TEMPORARY placeholder so that the harness branch passes the audit; the lead replaces
   it with the real theorems when merging. *)
From Coq Require Import List String.
From GB Require Import Model.Parsers.
Import ListNotations.
Open Scope string_scope.
Open Scope list_scope.

Example c18_placeholder :
  parse_nwchem_model ["H S"; " 1.0 2.0"] = Some [("H", [(0, ["1.0"], [["2.0"]])])].
Proof. vm_compute. reflexivity. Qed.
Print Assumptions c18_placeholder.
