(* Props/BRIDGE_coulomb.v — bridge (B2) reduced to the exchange of integrals.  Only statements closed by [exact] of a
   lemma proved in Gauss/CoulombBridge.v, each followed by Print Assumptions.

   gint g l   : improper Riemann integral of g over R is l                       (Gauss/BridgeR.v)
   gint3 F l  : iterated improper integral of F over R^3 is l                    (Gauss/Bridge3D.v)
   hint g l   : improper Riemann integral of g over [0, +oo) is l
                (is_RInt_gen g (at_point 0) (Rbar_locally p_infty) l; BRIDGE_B2_hint_meaning)
   HInt g     : its value (RInt_gen)
   cprim al A c : Cartesian Gaussian primitive (x-Ax)^cx (y-Ay)^cy (z-Az)^cz exp(-al |r-A|^2)   (Gauss/Bridge3D.v)
   coulomb_kernel C A B al be ca cb u x y z = (2/sqrt PI) phi_a(r) phi_b(r) exp(-u^2 |r-C|^2)
   coulomb_integrand C A B al be ca cb x y z = phi_a(r) phi_b(r) / sqrt(|r-C|^2)
   Ju ... u   : the closed form of the iterated integral over R^3 of the kernel at fixed u (model variables)
   prim_val RKB ... : the spec of one primitive pair of the one-electron Coulomb models (Proofs/OneElecP.v) at the
                reals with the honest Boys function (Gauss/BoysBridge.v)
   exchange_holds K F := forall J L, (forall u, 0 <= u -> gint3 (K u) (J u)) -> hint J L -> gint3 F L

   What remains trusted for (B2) after this file: ONLY the exchange of the u-integral with the integral over R^3
   (Fubini-Tonelli) for the explicit continuous kernel [coulomb_kernel], i.e. the hypothesis [exchange_holds] of
   BRIDGE_B2_coulomb_prim_is_prim_val_modulo_exchange, which by BRIDGE_B2_exchange_equivalent_to_conclusion is
   exactly as strong as the conclusion.  The Laplace representation of 1/r (i), the Gaussian integration at fixed u
   (iii) and the substitution t^2 = u^2/(p+u^2) (iv) are theorems below. *)
From Coq Require Import List Reals.
From Coquelicot Require Import Coquelicot.
From GB Require Import Base.Field Base.FNum Gauss.Moment1D Gauss.SPoly Gauss.DerivBridge Gauss.BridgeR
  Gauss.Bridge3D Model.Shell Proofs.CoreBlockP Proofs.ScreeningP Proofs.OneElecP Gauss.BoysBridge
  Gauss.CoulombBridge.
Import ListNotations.
Open Scope R_scope.

(* ---------------- the half-line integral ---------------- *)
Theorem BRIDGE_B2_hint_meaning :
  forall (g : R -> R) (l : R),
  hint g l <->
  (forall eps : posreal, exists M : R, forall b : R, M < b ->
     exists y : R, is_RInt g 0 b y /\ Rabs (y - l) < eps).
Proof. exact hint_spelled_out. Qed.
Print Assumptions BRIDGE_B2_hint_meaning.

Theorem BRIDGE_B2_even_half :
  forall (g : R -> R) (l : R), (forall x, g (- x) = g x) -> gint g l -> hint g (l / 2).
Proof. exact gint_even_half. Qed.
Print Assumptions BRIDGE_B2_even_half.

(* ---------------- (i) Laplace / Gaussian representation of 1/r ---------------- *)
Theorem BRIDGE_B2_inv_r_gaussian_representation :
  forall r : R, 0 < r -> hint (fun u => exp (- u ^ 2 * r ^ 2)) (sqrt PI / (2 * r)).
Proof. exact inv_r_gaussian_representation. Qed.
Print Assumptions BRIDGE_B2_inv_r_gaussian_representation.

Theorem BRIDGE_B2_inv_r_laplace :
  forall r : R, 0 < r -> / r = 2 / sqrt PI * HInt (fun u => exp (- u ^ 2 * r ^ 2)).
Proof. exact inv_r_laplace. Qed.
Print Assumptions BRIDGE_B2_inv_r_laplace.

Theorem BRIDGE_B2_inv_sqrt_laplace :
  forall d2 : R, 0 < d2 -> hint (fun u => 2 / sqrt PI * exp (- u ^ 2 * d2)) (/ sqrt d2).
Proof. exact inv_sqrt_laplace. Qed.
Print Assumptions BRIDGE_B2_inv_sqrt_laplace.

Theorem BRIDGE_B2_coulomb_integrand_is_u_integral :
  forall (Cx Cy Cz Ax Ay Az Bx By Bz al be : R) (ca cb : Shell.comp) (x y z : R),
  (x, y, z) <> (Cx, Cy, Cz) ->
  hint (fun u => 2 / sqrt PI * (cprim al Ax Ay Az ca x y z * cprim be Bx By Bz cb x y z)
                 * exp (- u ^ 2 * ((x - Cx) ^ 2 + (y - Cy) ^ 2 + (z - Cz) ^ 2)))
       (cprim al Ax Ay Az ca x y z * cprim be Bx By Bz cb x y z
        / sqrt ((x - Cx) ^ 2 + (y - Cy) ^ 2 + (z - Cz) ^ 2)).
Proof. exact coulomb_integrand_is_u_integral. Qed.
Print Assumptions BRIDGE_B2_coulomb_integrand_is_u_integral.

(* ---------------- (iii) Gaussian integration at fixed u ---------------- *)
Theorem BRIDGE_B2_three_gauss_1d :
  forall (al be w A B C : R) (i j : nat), 0 < al -> 0 < be -> 0 <= w ->
  let p := al + be in let P := (al * A + be * B) / p in let mu := al * be / p in
  let q := p + w in let W := (p * P + w * C) / q in
  gint (fun x => (x - A) ^ i * (x - B) ^ j
                 * exp (- al * (x - A) ^ 2) * exp (- be * (x - B) ^ 2) * exp (- w * (x - C) ^ 2))
       (exp (- mu * (A - B) ^ 2) * exp (- (p * w / q) * (P - C) ^ 2) * sqrt (PI / q)
        * S3 RKd (vR q) (W - A) (W - B) 0 0 0 i j).
Proof. exact three_gauss_1d. Qed.
Print Assumptions BRIDGE_B2_three_gauss_1d.

Theorem BRIDGE_B2_three_gauss_1d_model :
  forall (al be w A B C : R) (i j : nat), 0 < al -> 0 < be -> 0 <= w ->
  let p := al + be in let P := (al * A + be * B) / p in let mu := al * be / p in
  let q := p + w in let s := w / q in let v := 1 / ((1 + 1) * p) in
  gint (fun x => cg1 al A i x * cg1 be B j x * exp (- w * (x - C) ^ 2))
       (exp (- mu * (A - B) ^ 2) * exp (- (p * s) * (P - C) ^ 2) * sqrt (PI / q)
        * S3 RKB (v * (1 - s)) (P - A - s * (P - C)) (P - B - s * (P - C)) 0 0 0 i j).
Proof. exact three_gauss_1d_model. Qed.
Print Assumptions BRIDGE_B2_three_gauss_1d_model.

Theorem BRIDGE_B2_gaussian_at_fixed_u_raw :
  forall (Cx Cy Cz Ax Ay Az Bx By Bz al be : R) (ca cb : Shell.comp) (u : R),
  0 < al -> 0 < be ->
  let p := al + be in
  let Px := (al * Ax + be * Bx) / p in let Py := (al * Ay + be * By) / p in
  let Pz := (al * Az + be * Bz) / p in
  let mu := al * be / p in
  let q := p + u ^ 2 in
  let Wx := (p * Px + u ^ 2 * Cx) / q in let Wy := (p * Py + u ^ 2 * Cy) / q in
  let Wz := (p * Pz + u ^ 2 * Cz) / q in
  gint3 (fun x y z => cprim al Ax Ay Az ca x y z * cprim be Bx By Bz cb x y z
                      * exp (- u ^ 2 * ((x - Cx) ^ 2 + (y - Cy) ^ 2 + (z - Cz) ^ 2)))
        (PI / q * sqrt (PI / q)
         * exp (- mu * ((Ax - Bx) ^ 2 + (Ay - By) ^ 2 + (Az - Bz) ^ 2))
         * exp (- (p * u ^ 2 / q) * ((Px - Cx) ^ 2 + (Py - Cy) ^ 2 + (Pz - Cz) ^ 2))
         * (S3 RKd (vR q) (Wx - Ax) (Wx - Bx) 0 0 0 (cx ca) (cx cb)
            * S3 RKd (vR q) (Wy - Ay) (Wy - By) 0 0 0 (cy ca) (cy cb)
            * S3 RKd (vR q) (Wz - Az) (Wz - Bz) 0 0 0 (cz ca) (cz cb))).
Proof. exact gaussian_at_fixed_u_raw. Qed.
Print Assumptions BRIDGE_B2_gaussian_at_fixed_u_raw.

Theorem BRIDGE_B2_gaussian_at_fixed_u :
  forall (Cx Cy Cz Ax Ay Az Bx By Bz al be : R) (ca cb : Shell.comp) (u : R),
  0 < al -> 0 < be ->
  let p := al + be in
  let Px := (al * Ax + be * Bx) / p in let Py := (al * Ay + be * By) / p in
  let Pz := (al * Az + be * Bz) / p in
  let mu := al * be / p in
  let ab2 := (Ax - Bx) * (Ax - Bx) + (Ay - By) * (Ay - By) + (Az - Bz) * (Az - Bz) in
  let pc2 := (Px - Cx) * (Px - Cx) + (Py - Cy) * (Py - Cy) + (Pz - Cz) * (Pz - Cz) in
  let v := 1 / ((1 + 1) * p) in
  let q := p + u ^ 2 in let s := u ^ 2 / q in
  gint3 (fun x y z => 2 / sqrt PI * (cprim al Ax Ay Az ca x y z * cprim be Bx By Bz cb x y z)
                      * exp (- u ^ 2 * ((x - Cx) ^ 2 + (y - Cy) ^ 2 + (z - Cz) ^ 2)))
        (2 / sqrt PI * (PI / q * sqrt (PI / q)) * exp (- (mu * ab2)) * exp (- (p * pc2) * s)
         * (S3 RKB (v * (1 - s)) (Px - Ax - s * (Px - Cx)) (Px - Bx - s * (Px - Cx)) 0 0 0
               (fst (fst ca)) (fst (fst cb))
            * S3 RKB (v * (1 - s)) (Py - Ay - s * (Py - Cy)) (Py - By - s * (Py - Cy)) 0 0 0
                 (snd (fst ca)) (snd (fst cb))
            * S3 RKB (v * (1 - s)) (Pz - Az - s * (Pz - Cz)) (Pz - Bz - s * (Pz - Cz)) 0 0 0
                 (snd ca) (snd cb))).
Proof. exact gaussian_at_fixed_u. Qed.
Print Assumptions BRIDGE_B2_gaussian_at_fixed_u.

(* ---------------- (iv) the substitution t = u / sqrt(p + u^2) ---------------- *)
Theorem BRIDGE_B2_substitution :
  forall (p : R) (g : R -> R), 0 < p -> (forall t, continuous g t) ->
  hint (fun u => p / ((p + u ^ 2) * sqrt (p + u ^ 2)) * g (u / sqrt (p + u ^ 2))) (RInt g 0 1).
Proof. exact hint_subst_tau. Qed.
Print Assumptions BRIDGE_B2_substitution.

Theorem BRIDGE_B2_Ju_integral :
  forall (Cx Cy Cz Ax Ay Az Bx By Bz al be : R) (ca cb : Shell.comp), 0 < al -> 0 < be ->
  hint (Ju Cx Cy Cz Ax Ay Az Bx By Bz al be ca cb) (prim_val RKB Cx Cy Cz Ax Ay Az Bx By Bz al be ca cb).
Proof. exact Ju_integral. Qed.
Print Assumptions BRIDGE_B2_Ju_integral.

(* ---------------- composition ---------------- *)
Theorem BRIDGE_B2_coulomb_u_then_r_integral_is_prim_val :
  forall (Cx Cy Cz Ax Ay Az Bx By Bz al be : R) (ca cb : Shell.comp), 0 < al -> 0 < be ->
  exists J : R -> R,
    (forall u, gint3 (coulomb_kernel Cx Cy Cz Ax Ay Az Bx By Bz al be ca cb u) (J u)) /\
    hint J (prim_val RKB Cx Cy Cz Ax Ay Az Bx By Bz al be ca cb).
Proof. exact coulomb_u_then_r_integral_is_prim_val. Qed.
Print Assumptions BRIDGE_B2_coulomb_u_then_r_integral_is_prim_val.

Theorem BRIDGE_B2_coulomb_prim_is_prim_val_modulo_exchange :
  forall (Cx Cy Cz Ax Ay Az Bx By Bz al be : R) (ca cb : Shell.comp), 0 < al -> 0 < be ->
  exchange_holds (coulomb_kernel Cx Cy Cz Ax Ay Az Bx By Bz al be ca cb)
                 (coulomb_integrand Cx Cy Cz Ax Ay Az Bx By Bz al be ca cb) ->
  gint3 (fun x y z => cprim al Ax Ay Az ca x y z * cprim be Bx By Bz cb x y z
                      / sqrt ((x - Cx) ^ 2 + (y - Cy) ^ 2 + (z - Cz) ^ 2))
        (prim_val RKB Cx Cy Cz Ax Ay Az Bx By Bz al be ca cb).
Proof. exact coulomb_prim_is_prim_val_modulo_exchange. Qed.
Print Assumptions BRIDGE_B2_coulomb_prim_is_prim_val_modulo_exchange.

Theorem BRIDGE_B2_coulomb_prim_is_prim_val_modulo_exchange_HInt :
  forall (Cx Cy Cz Ax Ay Az Bx By Bz al be : R) (ca cb : Shell.comp), 0 < al -> 0 < be ->
  exchange_holds (coulomb_kernel Cx Cy Cz Ax Ay Az Bx By Bz al be ca cb)
                 (fun x y z => HInt (fun u => coulomb_kernel Cx Cy Cz Ax Ay Az Bx By Bz al be ca cb u x y z)) ->
  gint3 (fun x y z =>
           HInt (fun u => 2 / sqrt PI * (cprim al Ax Ay Az ca x y z * cprim be Bx By Bz cb x y z)
                          * exp (- u ^ 2 * ((x - Cx) ^ 2 + (y - Cy) ^ 2 + (z - Cz) ^ 2))))
        (prim_val RKB Cx Cy Cz Ax Ay Az Bx By Bz al be ca cb).
Proof. exact coulomb_prim_is_prim_val_modulo_exchange_HInt. Qed.
Print Assumptions BRIDGE_B2_coulomb_prim_is_prim_val_modulo_exchange_HInt.

Theorem BRIDGE_B2_coulomb_HInt_integrand_eq :
  forall (Cx Cy Cz Ax Ay Az Bx By Bz al be : R) (ca cb : Shell.comp) (x y z : R),
  (x, y, z) <> (Cx, Cy, Cz) ->
  HInt (fun u => coulomb_kernel Cx Cy Cz Ax Ay Az Bx By Bz al be ca cb u x y z)
  = coulomb_integrand Cx Cy Cz Ax Ay Az Bx By Bz al be ca cb x y z.
Proof. exact coulomb_HInt_integrand_eq. Qed.
Print Assumptions BRIDGE_B2_coulomb_HInt_integrand_eq.

Theorem BRIDGE_B2_coulomb_value_modulo_exchange :
  forall (Cx Cy Cz Ax Ay Az Bx By Bz al be : R) (ca cb : Shell.comp) (l : R), 0 < al -> 0 < be ->
  exchange_holds (coulomb_kernel Cx Cy Cz Ax Ay Az Bx By Bz al be ca cb)
                 (coulomb_integrand Cx Cy Cz Ax Ay Az Bx By Bz al be ca cb) ->
  gint3 (coulomb_integrand Cx Cy Cz Ax Ay Az Bx By Bz al be ca cb) l ->
  l = prim_val RKB Cx Cy Cz Ax Ay Az Bx By Bz al be ca cb.
Proof. exact coulomb_value_modulo_exchange. Qed.
Print Assumptions BRIDGE_B2_coulomb_value_modulo_exchange.

(* the hypothesis is exactly as strong as the conclusion: nothing more than the exchange is assumed *)
Theorem BRIDGE_B2_exchange_equivalent_to_conclusion :
  forall (Cx Cy Cz Ax Ay Az Bx By Bz al be : R) (ca cb : Shell.comp), 0 < al -> 0 < be ->
  (exchange_holds (coulomb_kernel Cx Cy Cz Ax Ay Az Bx By Bz al be ca cb)
                  (coulomb_integrand Cx Cy Cz Ax Ay Az Bx By Bz al be ca cb)
   <-> gint3 (coulomb_integrand Cx Cy Cz Ax Ay Az Bx By Bz al be ca cb)
             (prim_val RKB Cx Cy Cz Ax Ay Az Bx By Bz al be ca cb)).
Proof. exact exchange_equivalent_to_conclusion. Qed.
Print Assumptions BRIDGE_B2_exchange_equivalent_to_conclusion.

(* ---------------- the hypotheses are satisfiable ---------------- *)
Example BRIDGE_B2_inv_r_hypothesis_satisfiable :
  exists r, 0 < r /\ hint (fun u => exp (- u ^ 2 * r ^ 2)) (sqrt PI / (2 * r)).
Proof. exact inv_r_hypothesis_satisfiable. Qed.
Print Assumptions BRIDGE_B2_inv_r_hypothesis_satisfiable.

Example BRIDGE_B2_three_gauss_hypotheses_satisfiable : exists al be w : R, 0 < al /\ 0 < be /\ 0 <= w.
Proof. exact three_gauss_hypotheses_satisfiable. Qed.
Print Assumptions BRIDGE_B2_three_gauss_hypotheses_satisfiable.

Example BRIDGE_B2_substitution_hypotheses_satisfiable :
  exists (p : R) (g : R -> R), 0 < p /\ (forall t, continuous g t) /\
    hint (fun u => dtau p u * g (tau p u)) (RInt g 0 1).
Proof. exact hint_subst_tau_hypotheses_satisfiable. Qed.
Print Assumptions BRIDGE_B2_substitution_hypotheses_satisfiable.

Example BRIDGE_B2_exchange_premises_satisfied :
  exists (J : R -> R) (L : R),
    (forall u, 0 <= u -> gint3 (coulomb_kernel 0 0 0 0 0 0 0 0 0 1 1 (0, 0, 0)%nat (0, 0, 0)%nat u) (J u))
    /\ hint J L.
Proof. exact exchange_premises_satisfied. Qed.
Print Assumptions BRIDGE_B2_exchange_premises_satisfied.

Example BRIDGE_B2_exchange_holds_satisfiable_abstract : exchange_holds (fun _ _ _ _ => 0) (fun _ _ _ => 0).
Proof. exact exchange_holds_satisfiable_abstract. Qed.
Print Assumptions BRIDGE_B2_exchange_holds_satisfiable_abstract.
