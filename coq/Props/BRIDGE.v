(* Props/BRIDGE.v — the analytic bridge (B1) of DESIGN.md 2.6, narrowed.  Only statements closed by
   [exact] of a lemma proved in Gauss/Bridge.v (algebra, any field) or Gauss/BridgeR.v (real
   analysis, Coquelicot), each followed by Print Assumptions.

   gint g l  :=  is_RInt_gen g (Rbar_locally m_infty) (Rbar_locally p_infty) l
                 (improper Riemann integral over the whole real line; spelled out in BRIDGE_gint_meaning)
   Gint g    :=  RInt_gen g (Rbar_locally m_infty) (Rbar_locally p_infty)
   peval f x :=  value at x of the coefficient list f (low degree first)
   E RKd (vR p) f  :=  the algebraic moment functional of Gauss/Moment1D.v at the reals, v = 1/(2p)

   What (B1) still needs after this file: the one equation between real numbers
        Gint (fun x => exp (- x^2)) = sqrt PI
   (hypothesis of BRIDGE_B1; existence and positivity of that integral are proved here).  That equation
   is proved in Gauss/GaussInt.v; Props/BRIDGE_value.v states the closed form BRIDGE_B1_closed. *)
From Coq Require Import List Reals.
From Coquelicot Require Import Coquelicot.
From GB Require Import Base.Field Gauss.Moment1D Gauss.Bridge Gauss.DerivBridge Gauss.BridgeR.
Import ListNotations.

(* ---------------- algebra, any field ---------------- *)

Theorem BRIDGE_moments_unique :
  forall (F : Type) (K : Fops F), is_field K ->
  forall p v : F, fmul K (fmul K (fadd K (f1 K) (f1 K)) p) v = f1 K ->
  forall J : nat -> F, gauss_moment_laws K p J -> forall n, J n = fmul K (J 0%nat) (mom K v n).
Proof. exact @moments_unique. Qed.
Print Assumptions BRIDGE_moments_unique.

Theorem BRIDGE_uniqueness :
  forall (F : Type) (K : Fops F), is_field K ->
  forall p v : F, fmul K (fmul K (fadd K (f1 K) (f1 K)) p) v = f1 K ->
  forall I : list F -> F, plinear K I -> kills_derivatives K p I ->
  forall f, I f = fmul K (I [f1 K]) (E K v f).
Proof. exact @bridge_uniqueness. Qed.
Print Assumptions BRIDGE_uniqueness.

Theorem BRIDGE_characterisation :
  forall (F : Type) (K : Fops F), is_field K ->
  forall p v : F, fmul K (fmul K (fadd K (f1 K) (f1 K)) p) v = f1 K ->
  forall I : list F -> F, plinear K I ->
  (kills_derivatives K p I <-> forall f, I f = fmul K (I [f1 K]) (E K v f)).
Proof. exact @bridge_characterisation. Qed.
Print Assumptions BRIDGE_characterisation.

Theorem BRIDGE_E_linear :
  forall (F : Type) (K : Fops F), is_field K -> forall v : F, plinear K (E K v).
Proof. exact @E_linear. Qed.
Print Assumptions BRIDGE_E_linear.

Theorem BRIDGE_E_kills_derivatives :
  forall (F : Type) (K : Fops F), is_field K ->
  forall p v : F, fmul K (fmul K (fadd K (f1 K) (f1 K)) p) v = f1 K ->
  kills_all_derivatives K p (E K v).
Proof. exact @E_kills_derivatives. Qed.
Print Assumptions BRIDGE_E_kills_derivatives.

Theorem BRIDGE_gauss_product_identity :
  forall (F : Type) (K : Fops F), is_field K ->
  forall al be A B x : F, fadd K al be <> f0 K ->
  let p := fadd K al be in
  let P := fdiv K (fadd K (fmul K al A) (fmul K be B)) p in
  let mu := fdiv K (fmul K al be) p in
  fadd K (fmul K al (fmul K (fsub K x A) (fsub K x A))) (fmul K be (fmul K (fsub K x B) (fsub K x B)))
  = fadd K (fmul K p (fmul K (fsub K x P) (fsub K x P))) (fmul K mu (fmul K (fsub K A B) (fsub K A B))).
Proof. exact @gauss_product_identity. Qed.
Print Assumptions BRIDGE_gauss_product_identity.

Theorem BRIDGE_hypotheses_satisfiable :
  exists (F : Type) (K : Fops F) (p v : F) (I : list F -> F),
    is_field K /\ fmul K (fmul K (fadd K (f1 K) (f1 K)) p) v = f1 K /\
    plinear K I /\ kills_derivatives K p I /\ I [f1 K] <> f0 K.
Proof. exact bridge_hypotheses_satisfiable_packed. Qed.
Print Assumptions BRIDGE_hypotheses_satisfiable.

(* ---------------- real analysis ---------------- *)
Open Scope R_scope.

Theorem BRIDGE_gint_meaning :
  forall (g : R -> R) (l : R),
  gint g l <->
  (forall eps : posreal, exists M : R, forall a b : R, a < - M -> M < b ->
     exists y : R, is_RInt g a b y /\ Rabs (y - l) < eps).
Proof. exact gint_spelled_out. Qed.
Print Assumptions BRIDGE_gint_meaning.

Theorem BRIDGE_derivative_rule :
  forall (p : R) (n : nat) (x : R),
  is_derive (fun t => t ^ n * exp (- p * t ^ 2)) x
    ((match n with O => 0 | S n' => INR n * x ^ n' end - 2 * p * x ^ (S n)) * exp (- p * x ^ 2)).
Proof. exact gw_derive. Qed.
Print Assumptions BRIDGE_derivative_rule.

Theorem BRIDGE_poly_gauss_derive :
  forall (p : R) (f : list R) (x : R),
  is_derive (fun t => peval f t * exp (- p * t ^ 2)) x
            (peval (gderiv RKd p f) x * exp (- p * x ^ 2)).
Proof. exact poly_gauss_derive. Qed.
Print Assumptions BRIDGE_poly_gauss_derive.

Theorem BRIDGE_decay :
  forall (p : R) (n : nat), 0 < p ->
  filterlim (fun x => x ^ n * exp (- p * x ^ 2)) (Rbar_locally p_infty) (locally 0) /\
  filterlim (fun x => x ^ n * exp (- p * x ^ 2)) (Rbar_locally m_infty) (locally 0).
Proof. exact gw_decay. Qed.
Print Assumptions BRIDGE_decay.

Theorem BRIDGE_gauss_integral_kills_derivatives :
  forall (p : R) (n : nat), 0 < p ->
  gint (fun x => (match n with O => 0 | S n' => INR n * x ^ n' end - 2 * p * x ^ (S n))
                 * exp (- p * x ^ 2)) 0.
Proof. exact gauss_integral_kills_derivatives. Qed.
Print Assumptions BRIDGE_gauss_integral_kills_derivatives.

Theorem BRIDGE_gauss_integral_kills_all_derivatives :
  forall (p : R) (f : list R), 0 < p ->
  gint (fun x => peval (gderiv RKd p f) x * exp (- p * x ^ 2)) 0.
Proof. exact gauss_integral_kills_all_derivatives. Qed.
Print Assumptions BRIDGE_gauss_integral_kills_all_derivatives.

Theorem BRIDGE_first_moment_zero :
  forall p : R, 0 < p -> gint (fun x => x ^ 1 * exp (- p * x ^ 2)) 0.
Proof. exact gauss_first_moment. Qed.
Print Assumptions BRIDGE_first_moment_zero.

Theorem BRIDGE_gauss_moments :
  forall p J0 : R, 0 < p -> gint (fun x => exp (- p * x ^ 2)) J0 ->
  forall n, gint (fun x => x ^ n * exp (- p * x ^ 2)) (J0 * mom RKd (/ (2 * p)) n).
Proof. exact gauss_moments. Qed.
Print Assumptions BRIDGE_gauss_moments.

Theorem BRIDGE_gauss_moments_values :
  forall (p : R) (J : nat -> R), 0 < p ->
  (forall n, gint (fun x => x ^ n * exp (- p * x ^ 2)) (J n)) ->
  forall n, J n = J 0%nat * mom RKd (/ (2 * p)) n.
Proof. exact gauss_moments_values. Qed.
Print Assumptions BRIDGE_gauss_moments_values.

Theorem BRIDGE_gaussian_integral_exists :
  forall p : R, 0 < p -> exists J0 : R, gint (fun x => exp (- p * x ^ 2)) J0.
Proof. exact gaussian_integral_exists. Qed.
Print Assumptions BRIDGE_gaussian_integral_exists.

Theorem BRIDGE_gaussian_integral_pos :
  forall p : R, 0 < p -> forall J0 : R, gint (fun x => exp (- p * x ^ 2)) J0 -> 0 < J0.
Proof. exact gaussian_integral_pos. Qed.
Print Assumptions BRIDGE_gaussian_integral_pos.

(* no hypothesis at all: the normalised Gaussian expectation of a polynomial is E f *)
Theorem BRIDGE_normalised :
  forall (p P : R) (f : list R), 0 < p ->
  gint (fun x => peval f (x - P) * exp (- p * (x - P) ^ 2))
       (Gint (fun x => exp (- p * x ^ 2)) * E RKd (/ (2 * p)) f)
  /\ Gint (fun x => peval f (x - P) * exp (- p * (x - P) ^ 2)) / Gint (fun x => exp (- p * x ^ 2))
     = E RKd (/ (2 * p)) f.
Proof. exact gauss_bridge_normalised. Qed.
Print Assumptions BRIDGE_normalised.

Theorem BRIDGE_integral_satisfies_abstract_laws :
  forall p J0 : R, 0 < p -> gint (fun x => exp (- p * x ^ 2)) J0 ->
  plinear RKd (Gfun p) /\ kills_all_derivatives RKd p (Gfun p) /\ Gfun p [1] = J0.
Proof. exact Gfun_bridge_laws. Qed.
Print Assumptions BRIDGE_integral_satisfies_abstract_laws.

Theorem BRIDGE_B1_modulo_gaussian_integral :
  forall p P : R, 0 < p ->
  gint (fun x => exp (- p * x ^ 2)) (sqrt (PI / p)) ->
  forall f : list R,
    gint (fun x => peval f (x - P) * exp (- p * (x - P) ^ 2)) (sqrt (PI / p) * E RKd (/ (2 * p)) f)
    /\ Gint (fun x => peval f (x - P) * exp (- p * (x - P) ^ 2)) / sqrt (PI / p) = E RKd (/ (2 * p)) f.
Proof. exact bridge_B1_modulo_gaussian_integral. Qed.
Print Assumptions BRIDGE_B1_modulo_gaussian_integral.

Theorem BRIDGE_B1_from_value :
  forall p P : R, 0 < p -> Gint (fun x => exp (- p * x ^ 2)) = sqrt (PI / p) ->
  forall f : list R,
    Gint (fun x => peval f (x - P) * exp (- p * (x - P) ^ 2)) / sqrt (PI / p) = E RKd (/ (2 * p)) f.
Proof. exact bridge_B1_from_value. Qed.
Print Assumptions BRIDGE_B1_from_value.

Theorem BRIDGE_B1_monomials :
  forall p P : R, 0 < p -> gint (fun x => exp (- p * x ^ 2)) (sqrt (PI / p)) ->
  forall n, gint (fun x => (x - P) ^ n * exp (- p * (x - P) ^ 2)) (sqrt (PI / p) * mom RKd (/ (2 * p)) n).
Proof. exact bridge_B1_monomials. Qed.
Print Assumptions BRIDGE_B1_monomials.

Theorem BRIDGE_gaussian_integral_from_unit :
  forall p : R, 0 < p -> gint (fun x => exp (- x ^ 2)) (sqrt PI) ->
  gint (fun x => exp (- p * x ^ 2)) (sqrt (PI / p)).
Proof. exact gaussian_integral_from_unit. Qed.
Print Assumptions BRIDGE_gaussian_integral_from_unit.

Theorem BRIDGE_B1 :
  forall p P : R, 0 < p ->
  gint (fun x => exp (- x ^ 2)) (sqrt PI) ->
  forall f : list R,
    gint (fun x => peval f (x - P) * exp (- p * (x - P) ^ 2)) (sqrt (PI / p) * E RKd (/ (2 * p)) f)
    /\ Gint (fun x => peval f (x - P) * exp (- p * (x - P) ^ 2)) / sqrt (PI / p) = E RKd (/ (2 * p)) f.
Proof. exact bridge_B1. Qed.
Print Assumptions BRIDGE_B1.
