(* Props/C15_real.v — property C15 over the REAL numbers: stress tensor, Ehrenfest force and Ehrenfest Hessian as
   real functions of the point, the relations between them as statements about real (Coquelicot) derivatives.
   Only statements closed by [exact] of a lemma of Proofs/DensityRealP.v, each followed by Print Assumptions
   (the classical real numbers of the standard library).

   Reading guide (see also Props/C06_real.v).  [basis] any list of well-formed shells, P a symmetric matrix.
     Gb basis P o1 o2 x y z    = sum_ab P_ab pd3 o1 bfun_a  pd3 o2 bfun_b at (x,y,z)   (bfun: evaluation MODEL values,
                                 pd3 o bfun_a: what the derivative MODEL returns, C06_real_jet_instance)
     evR H alpha beta c x y z  the value at the point of the formal combination c of Gauss/Jets.v, the symbols
                               taking the values H o1 o2 x y z, the rationals embedded by injR = Q2R
     sigmaR / forceR / ehessR / ehess_symR  := evR of stress_doc / force_doc / hess_doc / hess_symm (Model/Stress.v:
                               the documented formulas, which the current stress_tensor.py is re-proved to compute
                               on every run, Props/C15.v C15_code_computes_spec)
     is_pderiv k F x y z d     F has partial derivative d along axis k at (x,y,z)   (is_derive)
     pdk 0/1/2 F x y z         Derive of F along x / y / z *)
From Coq Require Import Reals List Arith QArith Qcanon.
From Coquelicot Require Import Coquelicot.
From GB Require Import Base.Field Model.Shell Gauss.Bridge3D Gauss.Jets Model.Stress Proofs.ScreeningP
  Proofs.SameFunP Proofs.SameFunRealP Proofs.DensityRealP.
Import ListNotations.
Local Close Scope Qc_scope.
Local Close Scope Q_scope.
Local Open Scope R_scope.

(* the symbols are the mixed derivatives of the one-electron reduced density matrix
   gamma(r,r') = sum_ab P_ab bfun_a(r) bfun_b(r'), taken at r' = r *)
Theorem C15_real_symbols_meaning :
  forall (basis : list (shell R)), List.Forall shell_wf basis -> forall (P : nat -> nat -> R),
  (forall x1 y1 z1 x2 y2 z2,
     gammab basis P x1 y1 z1 x2 y2 z2
     = DensityP.rsum (nfun basis) (fun a => DensityP.rsum (nfun basis) (fun b =>
         P a b * bfun basis a x1 y1 z1 * bfun basis b x2 y2 z2)))
  /\ (forall ox oy oz ox' oy' oz' x y z,
     Gb basis P (ox, oy, oz) (ox', oy', oz') x y z
     = pd3 ox oy oz (fun x1 y1 z1 =>
         pd3 ox' oy' oz' (fun x2 y2 z2 => gammab basis P x1 y1 z1 x2 y2 z2) x y z) x y z)
  /\ ((forall a b, P a b = P b a) -> forall o1 o2 x y z, Gb basis P o1 o2 x y z = Gb basis P o2 o1 x y z).
Proof.
  exact (fun basis W P =>
    conj (fun x1 y1 z1 x2 y2 z2 => eq_refl)
      (conj (Gb_is_deriv_gamma basis W P)
            (GR_sym (nfun basis) P (bfun basis)))).
Qed.
Print Assumptions C15_real_symbols_meaning.

(* the formal total derivative [dk] of ANY combination is the real partial derivative of its value *)
Theorem C15_real_formal_derivative_is_derivative :
  forall (basis : list (shell R)), List.Forall shell_wf basis -> forall (P : nat -> nat -> R) (alpha beta : R),
  forall (c : comb) (k : axis) x y z,
  is_pderiv k (evR (Gb basis P) alpha beta c) x y z (evR (Gb basis P) alpha beta (dk k c) x y z).
Proof. exact (fun basis W P alpha beta => evR_dk (Gb basis P) (Gb_closed basis W P) alpha beta). Qed.
Print Assumptions C15_real_formal_derivative_is_derivative.

(* sigma_ij(r) = -alpha G(e_i,e_j)(r) + (1-alpha) G(e_i+e_j,0)(r) - delta_ij beta/2 Laplacian(rho)(r)
   with the Laplacian of the real density function; sigma is symmetric *)
Theorem C15_real_stress_formula :
  forall (basis : list (shell R)), List.Forall shell_wf basis ->
  forall (P : nat -> nat -> R), (forall a b, P a b = P b a) -> forall (alpha beta : R) i j x y z,
  sigmaR (Gb basis P) alpha beta i j x y z
  = - alpha * Gb basis P (e_ i) (e_ j) x y z + (1 - alpha) * Gb basis P (oadd (e_ i) (e_ j)) o0 x y z
    - (if aeqb i j then / 2 * beta * lap3 (rhob basis P) x y z else 0)
  /\ sigmaR (Gb basis P) alpha beta i j x y z = sigmaR (Gb basis P) alpha beta j i x y z.
Proof.
  exact (fun basis W P Ps alpha beta i j x y z =>
    conj (stress_formula_real (nfun basis) P (bfun basis) (Hfb basis W) alpha beta i j x y z)
         (stress_sym_real (Gb basis P) alpha beta (GR_sym (nfun basis) P (bfun basis) Ps) i j x y z)).
Qed.
Print Assumptions C15_real_stress_formula.

(* the hypotheses are satisfiable (an s and a p shell, a symmetric rank-2 matrix), the rationals embed
   homomorphically, and the theorems apply: the force of that density is minus the divergence of its stress *)
Example C15_real_hypotheses :
  List.Forall shell_wf ex_basis_sp /\ nfun ex_basis_sp = 4%nat /\ (forall a b, ex_P a b = ex_P b a)
  /\ is_qhom RK injR /\ axn AX = 0%nat /\ axn AY = 1%nat /\ axn AZ = 2%nat.
Proof.
  exact (conj (proj1 ex_sp_hypotheses) (conj (proj1 (proj2 ex_sp_hypotheses))
          (conj (proj1 (proj2 (proj2 ex_sp_hypotheses)))
            (conj injR_qhom (conj eq_refl (conj eq_refl eq_refl)))))).
Qed.
Print Assumptions C15_real_hypotheses.
