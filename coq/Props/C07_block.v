(* Props/C07_block.v — block-level theorems backing property C07 (multipole moments exact for every
   order and origin).  Spec (Proofs/CoreBlockP.v), for the moment origin C = (Cx, Cy, Cz) and an order
   triple o:
     mom_prim C o sa sb ca cb alpha beta
       = KAB * T1_x(o_x, a_x, b_x) * T1_y(o_y, a_y, b_y) * T1_z(o_z, a_z, b_z),
     T1 A B C alpha beta k i j = T3 (1/(2p)) (P-A) (P-B) (P-C) k i j
       = normalised 1-D Gaussian integral of (x-C)^k (x-A)^i (x-B)^j,
   contracted over the primitives as in Props/C01_block.v.  Hypotheses as there. *)
From Coq Require Import List Arith.
From GB Require Import Base.Field Base.FNum Base.Tables Gauss.Moment1D Model.Shell Model.MomentInt Model.Overlap
  Model.DiffOp Proofs.CoreSumP Proofs.CoreBlockP Proofs.CoreShiftP Proofs.CoreExamplesP.
Import ListNotations.

Theorem C07_spec_unfold :
  forall (F : Type) (K : Fops F) (Cx Cy Cz : F) (o : comp) (sa sb : shell F) (ca cb : comp) (alpha beta : F),
  mom_prim K Cx Cy Cz o sa sb ca cb alpha beta
  = fmul K (KAB K sa sb alpha beta)
      (fmul K (fmul K
         (T3 K (fdiv K (f1 K) (twop K alpha beta)) (PA K (s_x sa) (s_x sb) alpha beta)
             (PB K (s_x sa) (s_x sb) alpha beta) (PC K (s_x sa) (s_x sb) Cx alpha beta) (cx o) (cx ca) (cx cb))
         (T3 K (fdiv K (f1 K) (twop K alpha beta)) (PA K (s_y sa) (s_y sb) alpha beta)
             (PB K (s_y sa) (s_y sb) alpha beta) (PC K (s_y sa) (s_y sb) Cy alpha beta) (cy o) (cy ca) (cy cb)))
         (T3 K (fdiv K (f1 K) (twop K alpha beta)) (PA K (s_z sa) (s_z sb) alpha beta)
             (PB K (s_z sa) (s_z sb) alpha beta) (PC K (s_z sa) (s_z sb) Cz alpha beta) (cz o) (cz ca) (cz cb))).
Proof. exact (fun F K Cx Cy Cz o sa sb ca cb alpha beta => eq_refl). Qed.
Print Assumptions C07_spec_unfold.

(* moment_correct on _compute_multipole_moment_integrals: slice d of the (D, M_a, L_a, M_b, L_b) array is the
   contracted three-factor moment spec of the d-th requested triple — all orders, l, K, M, origins *)
Theorem C07_mm_block_correct :
  forall (F : Type) (K : Fops F), is_field K ->
  (forall x : F, fapx K x = x) -> fadd K (f1 K) (f1 K) <> f0 K ->
  forall (Cx Cy Cz : F) (orders : list comp) (sa sb : shell F),
  wf_shell sa -> wf_shell sb -> exps_ok K sa sb ->
  forall d ma ia mb ib, d < length orders ->
  ma < nseg sa -> ia < length (comps_of sa) -> mb < nseg sb -> ib < length (comps_of sb) ->
  nth4 K ma ia mb ib (nth d (mm_block K Cx Cy Cz orders sa sb) [])
  = contracted K sa sb (nth ia (comps_of sa) (0,0,0)) (nth ib (comps_of sb) (0,0,0)) ma mb
      (mom_prim K Cx Cy Cz (nth d orders (0,0,0)) sa sb
                (nth ia (comps_of sa) (0,0,0)) (nth ib (comps_of sb) (0,0,0))).
Proof. exact (fun F K Kf Hapx H2 => mm_block_correct K Kf Hapx H2). Qed.
Print Assumptions C07_mm_block_correct.

(* moment_correct + orders_axis_order on Moment.construct_array_contraction ([Ma][La][Mb][Lb][D]): the last
   axis has one entry per requested triple, in the order given (repeats and any sequence allowed), and the
   d-th entry is the contracted moment spec of the d-th triple *)
Theorem C07_moment_block_correct :
  forall (F : Type) (K : Fops F), is_field K ->
  (forall x : F, fapx K x = x) -> fadd K (f1 K) (f1 K) <> f0 K ->
  forall (Cx Cy Cz : F) (orders : list comp) (sa sb : shell F) (ma ia mb ib : nat),
  wf_shell sa -> wf_shell sb -> exps_ok K sa sb -> orders <> [] ->
  ma < nseg sa -> ia < length (comps_of sa) -> mb < nseg sb -> ib < length (comps_of sb) ->
  let e := nth ib (nth mb (nth ia (nth ma (moment_block K Cx Cy Cz orders sa sb) []) []) []) [] in
  length e = length orders /\
  forall d, d < length orders ->
    nth d e (f0 K)
    = contracted K sa sb (nth ia (comps_of sa) (0,0,0)) (nth ib (comps_of sb) (0,0,0)) ma mb
        (mom_prim K Cx Cy Cz (nth d orders (0,0,0)) sa sb
                  (nth ia (comps_of sa) (0,0,0)) (nth ib (comps_of sb) (0,0,0))).
Proof. exact (fun F K Kf Hapx H2 => moment_block_correct K Kf Hapx H2). Qed.
Print Assumptions C07_moment_block_correct.

(* moment_000_is_overlap at block level: wherever (0,0,0) stands in the list, whatever the origin *)
Theorem C07_moment_000_is_overlap :
  forall (F : Type) (K : Fops F), is_field K ->
  (forall x : F, fapx K x = x) -> fadd K (f1 K) (f1 K) <> f0 K ->
  forall (Cx Cy Cz : F) (orders : list comp) (sa sb : shell F) (d ma ia mb ib : nat),
  wf_shell sa -> wf_shell sb -> exps_ok K sa sb ->
  d < length orders -> nth d orders (0,0,0) = (0,0,0) ->
  ma < nseg sa -> ia < length (comps_of sa) -> mb < nseg sb -> ib < length (comps_of sb) ->
  nth4 K ma ia mb ib (nth d (mm_block K Cx Cy Cz orders sa sb) [])
  = nth4 K ma ia mb ib (overlap_block K sa sb).
Proof. exact (fun F K Kf Hapx H2 => mm_000_is_overlap K Kf Hapx H2). Qed.
Print Assumptions C07_moment_000_is_overlap.

(* every moment slice of the exchanged pair is the transpose (used by C11) *)
Theorem C07_mm_block_sym :
  forall (F : Type) (K : Fops F), is_field K ->
  (forall x : F, fapx K x = x) -> fadd K (f1 K) (f1 K) <> f0 K ->
  forall (Cx Cy Cz : F) (orders : list comp) (sa sb : shell F) (d ma ia mb ib : nat),
  wf_shell sa -> wf_shell sb -> exps_ok K sa sb -> d < length orders ->
  ma < nseg sa -> ia < length (comps_of sa) -> mb < nseg sb -> ib < length (comps_of sb) ->
  nth4 K mb ib ma ia (nth d (mm_block K Cx Cy Cz orders sb sa) [])
  = nth4 K ma ia mb ib (nth d (mm_block K Cx Cy Cz orders sa sb) []).
Proof. exact (fun F K Kf Hapx H2 => mm_block_sym K Kf Hapx H2). Qed.
Print Assumptions C07_mm_block_sym.

(* origin_shift_binomial, on the moment functional (any k, i, j, any ring elements) ... *)
Theorem C07_origin_shift_binomial_T3 :
  forall (F : Type) (K : Fops F), is_field K ->
  forall (delta v a b c : F) (k i j : nat),
  T3 K v a b (fadd K c delta) k i j
  = FNum.fsum K (mk (S k) (fun m =>
      fmul K (fmul K (ofnat K (binom k m)) (FNum.fpow K delta (k - m))) (T3 K v a b c m i j))).
Proof. exact (fun F K Kf => T3_origin_shift K Kf). Qed.
Print Assumptions C07_origin_shift_binomial_T3.

(* ... and on the 1-D integral of a primitive pair: moments about C' from the moments about C *)
Theorem C07_origin_shift_binomial_T1 :
  forall (F : Type) (K : Fops F), is_field K ->
  forall (A B C C' alpha beta : F) (k i j : nat),
  T1 K A B C' alpha beta k i j
  = FNum.fsum K (mk (S k) (fun m =>
      fmul K (fmul K (ofnat K (binom k m)) (FNum.fpow K (fsub K C C') (k - m))) (T1 K A B C alpha beta m i j))).
Proof. exact (fun F K Kf => T1_origin_shift K Kf). Qed.
Print Assumptions C07_origin_shift_binomial_T1.

(* [binom] (Pascal's triangle) is the binomial coefficient *)
Theorem C07_binom_is_binomial :
  forall (F : Type) (K : Fops F), is_field K ->
  forall n k, k <= n ->
  fmul K (fmul K (ofnat K (binom n k)) (ffact K k)) (ffact K (n - k)) = ffact K n.
Proof. exact (fun F K Kf => binom_fact K Kf). Qed.
Print Assumptions C07_binom_is_binomial.

Example C07_block_hypotheses_Qc :
  forall opi osqrt oexp oln oboys,
  let K := KQ opi osqrt oexp oln oboys in
  is_field K /\ (forall x, fapx K x = x) /\ fadd K (f1 K) (f1 K) <> f0 K
  /\ wf_shell ex_sa /\ wf_shell ex_sb /\ exps_ok K ex_sa ex_sb /\ exps_ok K ex_sa ex_sa
  /\ 1 < nseg ex_sa /\ 5 < length (comps_of ex_sa) /\ 0 < nseg ex_sb /\ 2 < length (comps_of ex_sb).
Proof. exact block_hypotheses_satisfiable. Qed.
Print Assumptions C07_block_hypotheses_Qc.

Example C07_orders_hypotheses :
  [(2,0,1); (0,0,0); (2,0,1)] <> [] /\ 1 < length [(2,0,1); (0,0,0); (2,0,1)]
  /\ nth 1 [(2,0,1); (0,0,0); (2,0,1)] (0,0,0) = (0,0,0).
Proof. exact (conj (fun E => @nil_cons _ _ _ (eq_sym E)) (conj (le_S 2 2 (le_n 2)) eq_refl)). Qed.
Print Assumptions C07_orders_hypotheses.
