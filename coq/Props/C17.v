(* Props/C17.v — theorems backing property C17 (integral arrays satisfy the positivity and Schwarz
   bounds of Gram matrices).  Only statements closed by [exact] of a lemma proved in
   Proofs/GramP.v, each followed by Print Assumptions.

   PARTIAL BY DESIGN.  The full statement of the property is
       "the overlap matrix S_ab = int phi_a phi_b, the kinetic matrix T_ab = 1/2 int grad phi_a . grad phi_b,
        minus the point-charge matrix V_ab/q = int phi_a phi_b / |r - C| and the repulsion array
        (ab|cd) = iint phi_a phi_b (1) phi_c phi_d (2) / r12 are Gram matrices",
   i.e. each is  G_ab = <v_a, v_b>  for a symmetric bilinear form with <v, v> >= 0 on the real span of
   the basis functions (resp. of their gradients, of the products phi_a phi_b).  That these four forms
   ARE positive (an integral of a square; the weight 1/|r-C| >= 0; the Coulomb kernel is positive
   definite) is the analytic bridge B3 of DESIGN.md 2.6: it is NOT derived here, and cannot be derived
   from the algebraic moment functional of Gauss/Moment1D.v for functions on different centres.
   Everything the property concludes from it IS derived here, over R, for ANY such space
   ([ipspace]: a carrier with addition, scaling, zero and a symmetric, left-linear form with
   ip v v >= 0 — no definiteness, no dimension), any index type and any finite coefficient list.

   The theorems over R use the classical-real axioms of the standard library (printed). *)
From Coq Require Import List Reals.
From GB Require Import Base.Field Gauss.Moment1D Model.MomentInt Proofs.DiffOpP Proofs.GramP.
Import ListNotations.
Local Open Scope R_scope.

(* 0. THE FULL STATEMENT OF THE PROPERTY, with the analytic bridge B3 as its explicit hypotheses:
      if the overlap array is the Gram matrix of the basis functions in some semi-inner-product space
      (L2), the kinetic array that of their gradients, the point-charge array -q times that of the basis
      functions under the weight 1/|r-C|, and the repulsion array that of the pair densities under the
      Coulomb form, and the overlap diagonal is 1 (C01), then: S is symmetric PSD with |S_ab| <= 1;
      T is symmetric PSD; V is symmetric NSD for q >= 0; the repulsion array is PSD over index pairs,
      pair-symmetric, (ab|ab) >= 0 and (ab|cd)^2 <= (ab|ab)(cd|cd).
      The four [exists] hypotheses are what is NOT proved here (B3). *)
Theorem C17_all_bounds_from_B3_partial :
  forall (I : Type) (Sm Tm Vm : I -> I -> R) (G : I -> I -> I -> I -> R) (q : R),
  0 <= q ->
  (exists (L2 : ipspace) (phi : I -> vec L2), forall a b, Sm a b = ip L2 (phi a) (phi b)) ->
  (exists (H1 : ipspace) (dphi : I -> vec H1), forall a b, Tm a b = ip H1 (dphi a) (dphi b)) ->
  (exists (W : ipspace) (phi : I -> vec W), forall a b, Vm a b = - q * ip W (phi a) (phi b)) ->
  (exists (C : ipspace) (rho : I -> I -> vec C), forall a b c d, G a b c d = ip C (rho a b) (rho c d)) ->
  (forall a, Sm a a = 1) ->
  symm Sm /\ psd Sm /\ (forall a b, Rabs (Sm a b) <= 1) /\
  symm Tm /\ psd Tm /\
  symm Vm /\ nsd Vm /\
  psd (fun p r : I * I => G (fst p) (snd p) (fst r) (snd r)) /\
  (forall a b c d, G a b c d = G c d a b) /\
  (forall a b, 0 <= G a b a b) /\
  (forall a b c d, G a b c d * G a b c d <= G a b a b * G c d c d).
Proof. exact all_bounds_from_B3. Qed.
Print Assumptions C17_all_bounds_from_B3_partial.

Example C17_ex_B3_hypotheses_satisfiable :
  exists (Sm Tm Vm : unit -> unit -> R) (G : unit -> unit -> unit -> unit -> R),
  (exists (L2 : ipspace) (phi : unit -> vec L2), forall a b, Sm a b = ip L2 (phi a) (phi b)) /\
  (exists (H1 : ipspace) (dphi : unit -> vec H1), forall a b, Tm a b = ip H1 (dphi a) (dphi b)) /\
  (exists (W : ipspace) (phi : unit -> vec W), forall a b, Vm a b = - 2 * ip W (phi a) (phi b)) /\
  (exists (C : ipspace) (rho : unit -> unit -> vec C), forall a b c d, G a b c d = ip C (rho a b) (rho c d)) /\
  (forall a, Sm a a = 1).
Proof. exact all_bounds_hypotheses_satisfiable. Qed.
Print Assumptions C17_ex_B3_hypotheses_satisfiable.

(* 1. The quadratic form of a Gram matrix is non-negative: sum_a sum_b c_a c_b <v_a, v_b> >= 0.
      [qf G l] is that double sum for the coefficient list l = [(c, a); ...]. *)
Theorem C17_gram_psd :
  forall (S : ipspace) (I : Type) (v : I -> vec S) (l : list (R * I)),
  0 <= rsum (map (fun p => rsum (map (fun q => fst p * fst q * ip S (v (snd p)) (v (snd q))) l)) l).
Proof. exact (fun S I v => gram_psd S v). Qed.
Print Assumptions C17_gram_psd.

(* ... because it is the squared norm of the linear combination *)
Theorem C17_gram_form_is_norm :
  forall (S : ipspace) (I : Type) (v : I -> vec S) (l : list (R * I)),
  qf (gram S v) l = ip S (lincomb S v l) (lincomb S v l).
Proof. exact (fun S I v => qf_gram_is_norm S v). Qed.
Print Assumptions C17_gram_form_is_norm.

(* 2. Cauchy-Schwarz (discriminant argument, valid without definiteness), its absolute-value form,
      and the bound |G_ab| <= 1 for unit diagonal (overlap of normalised functions). *)
Theorem C17_cauchy_schwarz :
  forall (S : ipspace) (u w : vec S), ip S u w * ip S u w <= ip S u u * ip S w w.
Proof. exact cauchy_schwarz. Qed.
Print Assumptions C17_cauchy_schwarz.

Theorem C17_gram_schwarz_abs :
  forall (S : ipspace) (I : Type) (v : I -> vec S) (a b : I),
  Rabs (gram S v a b) <= sqrt (gram S v a a * gram S v b b).
Proof. exact (fun S I v => gram_schwarz_abs S v). Qed.
Print Assumptions C17_gram_schwarz_abs.

Theorem C17_unit_diag_bound :
  forall (S : ipspace) (I : Type) (v : I -> vec S) (a b : I),
  gram S v a a = 1 -> gram S v b b = 1 -> Rabs (gram S v a b) <= 1.
Proof. exact (fun S I v => unit_diag_bound S v). Qed.
Print Assumptions C17_unit_diag_bound.

(* the same bounds for ANY symmetric positive semi-definite matrix (not only one given as a Gram matrix) *)
Theorem C17_psd_schwarz :
  forall (I : Type) (G : I -> I -> R) (a b : I), symm G -> psd G -> G a b * G a b <= G a a * G b b.
Proof. exact (fun I G a b => psd_schwarz G a b). Qed.
Print Assumptions C17_psd_schwarz.

(* 3. Repulsion array = Gram matrix over index pairs (w a b = the product density phi_a phi_b in the
      Coulomb semi-inner-product space): positive semi-definite over pairs, (ab|ab) >= 0,
      (ab|cd)^2 <= (ab|ab)(cd|cd), (ab|cd) = (cd|ab). *)
Theorem C17_eri_pair_psd :
  forall (S : ipspace) (I : Type) (w : I -> I -> vec S), psd (eri_mat S w).
Proof. exact (fun S I w => eri_pair_psd S w). Qed.
Print Assumptions C17_eri_pair_psd.

Theorem C17_eri_schwarz :
  forall (S : ipspace) (I : Type) (w : I -> I -> vec S) (a b c d : I),
  0 <= eri S w a b a b /\
  eri S w a b c d * eri S w a b c d <= eri S w a b a b * eri S w c d c d /\
  Rabs (eri S w a b c d) <= sqrt (eri S w a b a b * eri S w c d c d) /\
  eri S w a b c d = eri S w c d a b.
Proof.
  exact (fun S I w a b c d => conj (eri_diag_nonneg S w a b) (conj (eri_schwarz S w a b c d)
           (conj (eri_schwarz_abs S w a b c d) (eri_pair_symm S w a b c d)))).
Qed.
Print Assumptions C17_eri_schwarz.

(* 4. Point-charge matrix of a non-negative charge q: -q * G with G the Gram matrix of the weighted
      form int f g / |r - C| is negative semi-definite. *)
Theorem C17_point_charge_nsd :
  forall (S : ipspace) (I : Type) (v : I -> vec S) (q : R), 0 <= q ->
  forall l : list (R * I), qf (fun a b => - q * gram S v a b) l <= 0.
Proof. exact (fun S I v q Hq => neg_charge_nsd S v q Hq). Qed.
Print Assumptions C17_point_charge_nsd.

(* 6. What "within tolerance of the exact matrix" (the correspondence check) gives for the computed
      matrix M: if |M_ab - G_ab| <= eps for all a, b then c^T M c >= - n eps |c|^2, n = number of
      coefficients: every eigenvalue of the symmetric part of M is >= - n eps. *)
Theorem C17_perturbation :
  forall (S : ipspace) (I : Type) (v : I -> vec S) (M : I -> I -> R) (eps : R) (l : list (R * I)),
  (forall a b, Rabs (M a b - gram S v a b) <= eps) ->
  - (INR (length l) * eps * sum_sq l) <= qf M l.
Proof. exact (fun S I v => gram_perturbation S v). Qed.
Print Assumptions C17_perturbation.

(* 5. Model-level facts that ARE algebraic (any field, no axioms): the one-dimensional primitive
      integrals from which the overlap and kinetic models are assembled are symmetric under exchanging
      the two functions:  S_ab(i,j) = S_ba(j,i)  and  <d^2 a|b>(i,j) = <d^2 b|a>(j,i)
      ([Sfun] = prefactor x Gaussian moment, the value of every entry of the code's table by
      C01_table_exact; [negA] = minus the derivative with respect to the left function's coordinate,
      the operator of the code's derivative recursion by C02's diffop_slice_valid).  Symmetry of the
      ASSEMBLED matrices is by construction (lower blocks are transposes: Model/Assembly.two_symm_blocks,
      Proofs/OverlapP.two_symm_integral_unfold) and is the subject of C11. *)
Theorem C17_overlap_prim_symm :
  forall (F : Type) (K : Fops F), is_field K ->
  forall (Ax Bx alpha beta : F), Model.MomentInt.psum K alpha beta <> f0 K ->
  forall i j : nat, Sfun K Bx Ax beta alpha j i = Sfun K Ax Bx alpha beta i j.
Proof. exact (fun F K Kf Ax Bx alpha beta Hp => overlap_prim_symm K Kf Ax Bx alpha beta Hp). Qed.
Print Assumptions C17_overlap_prim_symm.

Theorem C17_kinetic_prim_symm :
  forall (F : Type) (K : Fops F), is_field K ->
  forall (Ax Bx alpha beta : F), Model.MomentInt.psum K alpha beta <> f0 K -> fadd K (f1 K) (f1 K) <> f0 K ->
  forall i j : nat,
  iterop (negA K beta) 2 (Sfun K Bx Ax beta alpha) j i = iterop (negA K alpha) 2 (Sfun K Ax Bx alpha beta) i j.
Proof. exact (fun F K Kf Ax Bx alpha beta Hp H2 => kinetic_prim_symm K Kf Ax Bx alpha beta Hp H2). Qed.
Print Assumptions C17_kinetic_prim_symm.

(* One centre, one exponent pair, one axis — the case in which the bridge B3 is NOT needed:
   the Gaussian moment functional E (variance v = 1/(2p) >= 0) is positive on squares, E(f f) >= 0 for
   every polynomial f of every degree ([hank v 0 f g] = sum_i f_i E(y^i g) = E(f g)); hence the matrix
   E(f_a f_b) of ANY finite family of polynomials (the 1-D overlap matrix of functions sharing centre
   and exponent pair) is positive semi-definite and satisfies Schwarz.
   PARTIAL with respect to the property: the three-dimensional (tensor-product) case and families on
   several centres / with several exponents are not derived from E (bridge B3). *)
Theorem C17_one_centre_square_nonneg :
  forall (v : R) (f : list R), 0 <= v -> 0 <= hank v 0 f f.
Proof. exact hankel_psd. Qed.
Print Assumptions C17_one_centre_square_nonneg.

Theorem C17_one_centre_moment_identity :
  forall (v : R) (f g : list R) (N : nat), (length f <= N)%nat ->
  hank v 0 f g = rsumn (S N) (fun k => wk v k * ek v k f * ek v k g).
Proof. exact hank_identity. Qed.
Print Assumptions C17_one_centre_moment_identity.

Theorem C17_one_centre_gram_psd_partial :
  forall (v : R), 0 <= v -> forall (I : Type) (fam : I -> list R) (l : list (R * I)),
  0 <= qf (fun a b => hank v 0 (fam a) (fam b)) l.
Proof. exact (fun v Hv I fam => one_centre_gram_psd v Hv fam). Qed.
Print Assumptions C17_one_centre_gram_psd_partial.

Theorem C17_one_centre_schwarz_partial :
  forall (v : R), 0 <= v -> forall f g : list R,
  hank v 0 f g * hank v 0 f g <= hank v 0 f f * hank v 0 g g.
Proof. exact one_centre_schwarz. Qed.
Print Assumptions C17_one_centre_schwarz_partial.

(* ---- the hypotheses are satisfiable: R^2 with the dot product; a linearly dependent family; a
        degenerate (semi-definite) space; unit diagonal; the perturbation hypothesis ---- *)
Example C17_ex_R2_schwarz : forall x1 y1 x2 y2 : R,
  (x1 * x2 + y1 * y2) * (x1 * x2 + y1 * y2) <= (x1 * x1 + y1 * y1) * (x2 * x2 + y2 * y2).
Proof. exact R2_schwarz_example. Qed.
Print Assumptions C17_ex_R2_schwarz.

Example C17_ex_R2_dependent_family : forall c0 c1 c2 : R,
  let fam := fun i : nat => match i with 0%nat => (1, 0) | 1%nat => (1 / 2, 1) | _ => (1, 0) end in
  0 <= qf (gram R2 fam) [(c0, 0%nat); (c1, 1%nat); (c2, 2%nat)].
Proof. exact R2_gram_example. Qed.
Print Assumptions C17_ex_R2_dependent_family.

Example C17_ex_semidefinite_space : ip R2semi (0, 1) (0, 1) = 0 /\ (0, 1) <> vzero R2semi.
Proof. exact R2semi_degenerate. Qed.
Print Assumptions C17_ex_semidefinite_space.

Example C17_ex_unit_diag :
  gram R2 (fun i : bool => if i then (1, 0) else (3 / 5, 4 / 5)) true true = 1 /\
  gram R2 (fun i : bool => if i then (1, 0) else (3 / 5, 4 / 5)) false false = 1.
Proof. exact unit_diag_satisfiable. Qed.
Print Assumptions C17_ex_unit_diag.

Example C17_ex_perturbation : forall c : R,
  - (INR 1 * (1 / 4) * (c * c + 0)) <= qf (fun _ _ : unit => 3 / 4) [(c, tt)].
Proof. exact perturbation_example. Qed.
Print Assumptions C17_ex_perturbation.

Example C17_ex_standard_normal_moments : hank 1 0 [1; 1] [1; 1] = 2 /\ hank 1 0 [0; 0; 1] [0; 0; 1] = 3.
Proof. exact hank_example. Qed.
Print Assumptions C17_ex_standard_normal_moments.
