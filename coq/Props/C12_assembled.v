(* Props/C12_assembled.v — property C12, "quantities about the coordinate origin shift by d x p": the angular
   momentum about a displaced origin, for the WHOLE-BASIS model of angular_momentum_integral
   (Model/OneBody.angmom_integral_re: the real array R of the value -iR, last axis = x, y, z).
   Props/C12.v has the law for one shell pair (C12_origin_shift_angular_momentum_block_partial); here it is lifted
   through the Hermitian assembly (blocks above the diagonal evaluated, all others conjugated transposes) for every
   position (I, J), both triangles and the diagonal blocks, any number of shells, any assignment of coordinate
   types.  Only statements closed by [exact] of a lemma of Proofs/AngmomAsmP.v + Print Assumptions.

   shift_shell K tx ty tz s   s with its centre moved by (tx, ty, tz);  tget t c = component c of t
   Moving every centre by t with the origin fixed = moving the origin by -t:
       L^t[I][J][c] = L[I][J][c] + t_{c+1} p[I][J][c+2] - t_{c+2} p[I][J][c+1]   (indices mod 3),  i.e.  L^t = L + t x p,
   p = momentum_integral_re of the original basis (the value of the operator is -i times these real arrays).
   Hypotheses: a field, exact arithmetic (fapx = id), 2 <> 0, shells with at least one segment, one coefficient
   row per exponent and components within l, exponent sums non-zero.  transform = None (the final
   transformation acts linearly on both sides; not stated). *)
From Coq Require Import List Arith QArith Qcanon.
From GB Require Import Base.Field Base.FNum Base.Tables Model.Shell Model.MomentInt Model.DiffOp Model.Overlap
  Model.OneBody Proofs.CoreSumP Proofs.CoreBlockP Proofs.CoreExamplesP Proofs.AssembledP Proofs.AssembledOverlapP
  Proofs.AssembledSphP Proofs.AssembledSphOverlapP Proofs.AssembledExamplesP Proofs.RigidP Proofs.AngmomAsmP.
Import ListNotations.
Local Open Scope nat_scope.

(* Cartesian bases, positions through btotal *)
Theorem C12_origin_shift_angular_momentum_integral_cart :
  forall (F : Type) (K : Fops F), is_field K ->
  (forall x : F, fapx K x = x) -> fadd K (f1 K) (f1 K) <> f0 K ->
  forall bs : list (shell F), cart_basis bs -> basis_wf bs -> basis_exps K bs bs ->
  forall (tx ty tz : F) (I J c : nat), I < btotal K bs -> J < btotal K bs -> c < 3 ->
  let t := (tx, ty, tz) in
  let Lt := nth J (nth I (angmom_integral_re K (map (shift_shell K tx ty tz) bs) None) []) [] in
  let L0 := nth J (nth I (angmom_integral_re K bs None) []) [] in
  let P := nth J (nth I (momentum_integral_re K bs None) []) [] in
  nth c Lt (f0 K)
  = fadd K (fadd K (nth c L0 (f0 K)) (fmul K (tget t ((c + 1) mod 3)) (nth ((c + 2) mod 3) P (f0 K))))
           (fmul K (fopp K (tget t ((c + 2) mod 3))) (nth ((c + 1) mod 3) P (f0 K))).
Proof. exact (fun F K Kf => angmom_integral_origin_shift K Kf). Qed.
Print Assumptions C12_origin_shift_angular_momentum_integral_cart.

(* any assignment of coordinate types (Cartesian / spherical / mixed), positions through ototal *)
Theorem C12_origin_shift_angular_momentum_integral :
  forall (F : Type) (K : Fops F), is_field K ->
  (forall x : F, fapx K x = x) -> fadd K (f1 K) (f1 K) <> f0 K ->
  forall bs : list (shell F), seg_basis bs -> basis_wf bs -> basis_exps K bs bs ->
  forall (tx ty tz : F) (I J c : nat), I < ototal K bs -> J < ototal K bs -> c < 3 ->
  let t := (tx, ty, tz) in
  let Lt := nth J (nth I (angmom_integral_re K (map (shift_shell K tx ty tz) bs) None) []) [] in
  let L0 := nth J (nth I (angmom_integral_re K bs None) []) [] in
  let P := nth J (nth I (momentum_integral_re K bs None) []) [] in
  nth c Lt (f0 K)
  = fadd K (fadd K (nth c L0 (f0 K)) (fmul K (tget t ((c + 1) mod 3)) (nth ((c + 2) mod 3) P (f0 K))))
           (fmul K (fopp K (tget t ((c + 2) mod 3))) (nth ((c + 1) mod 3) P (f0 K))).
Proof. exact (fun F K Kf => angmom_integral_origin_shift_mixed K Kf). Qed.
Print Assumptions C12_origin_shift_angular_momentum_integral.

(* the moved basis has the same index map *)
Theorem C12_shifted_basis_same_positions :
  forall (F : Type) (K : Fops F) (bs : list (shell F)) (tx ty tz : F),
  ototal K (map (shift_shell K tx ty tz) bs) = ototal K bs /\
  forall i m q, i < length bs ->
    oidx K (map (shift_shell K tx ty tz) bs) i m q = oidx K bs i m q.
Proof.
  exact (fun F K bs tx ty tz =>
    conj (eq_trans (f_equal (ooff K _) (map_length _ bs)) (ooff_shift K bs tx ty tz (length bs) (le_n _)))
         (oidx_shift K bs tx ty tz)).
Qed.
Print Assumptions C12_shifted_basis_same_positions.

(* ---- the hypotheses are satisfiable: generalized spherical d shell (two segments), off-centre Cartesian p shell,
   contracted spherical s shell over Qc, any oracle closures; the theorem instantiated ---- *)
Example C12_assembled_hypotheses_satisfiable :
  forall (opi : Qc) (osqrt oexp oln : Qc -> Qc) (oboys : nat -> Qc -> Qc),
  let K := KQ opi osqrt oexp oln oboys in
  is_field K /\ (forall x : Qc, fapx K x = x) /\ fadd K (f1 K) (f1 K) <> f0 K /\
  seg_basis ex_mixed /\ basis_wf ex_mixed /\ basis_exps K ex_mixed ex_mixed /\ ototal K ex_mixed = 14.
Proof.
  exact (fun opi osqrt oexp oln oboys =>
    conj (KQ_field _ _ _ _ _) (conj (KQ_apx _ _ _ _ _) (conj (KQ_two _ _ _ _ _)
      (conj ex_mixed_seg (conj ex_mixed_wf (conj (ex_mixed_exps opi osqrt oexp oln oboys)
        (proj1 (proj2 (proj2 (proj2 (mixed_hypotheses_satisfiable opi osqrt oexp oln oboys))))))))))).
Qed.
Print Assumptions C12_assembled_hypotheses_satisfiable.

(* the law at a LOWER-triangle position of that basis (row = p_z of the Cartesian shell, column = a spherical d
   function), x component, centres moved by (1, 2, 3): L_x gains 2 p_z - 3 p_y *)
Example C12_assembled_instance :
  forall (opi : Qc) (osqrt oexp oln : Qc -> Qc) (oboys : nat -> Qc -> Qc),
  let K := KQ opi osqrt oexp oln oboys in
  let t := (Q2Qc 1, Q2Qc 2, Q2Qc 3) in
  let Lt := nth 8 (nth 12 (angmom_integral_re K (map (shift_shell K (Q2Qc 1) (Q2Qc 2) (Q2Qc 3)) ex_mixed) None) []) [] in
  let L0 := nth 8 (nth 12 (angmom_integral_re K ex_mixed None) []) [] in
  let P := nth 8 (nth 12 (momentum_integral_re K ex_mixed None) []) [] in
  nth 0 Lt (f0 K)
  = fadd K (fadd K (nth 0 L0 (f0 K)) (fmul K (tget t 1) (nth 2 P (f0 K))))
           (fmul K (fopp K (tget t 2)) (nth 1 P (f0 K))).
Proof. exact ex_angmom_shift. Qed.
Print Assumptions C12_assembled_instance.
