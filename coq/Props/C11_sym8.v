(* Props/C11_sym8.v — property C11 for electron_repulsion_integral WITHOUT hypotheses on the model's output:
   Props/C11.v proves the four-index permutation theorem (C11_assemble_perm_eri_integral) and "every cell of the
   store holds the block of its own quartet" (C11_four_store_holds_every_block) under two hypotheses about the
   processed blocks, their shape [shape4] and their eight-fold symmetry [sym8].  Both are THEOREMS for the model
   of the ERI (Proofs/EriSym8P.v): the processed block of a permuted shell quartet, evaluated independently by the
   asymmetric recursion, normalised and transformed, is the correspondingly transposed processed block of
   (s_i s_j | s_k s_l), as nested lists; any assignment of coordinate types, any l, segments, number of shells.
   Only statements closed by [exact] of a lemma of Proofs/EriSym8P.v, each followed by Print Assumptions.

   eri_basis_ok K bs   every shell has a segment, components of degree <= l; all exponent sums alpha+beta and
                       (alpha+beta)+(gamma+delta) over the shells of the basis are non-zero
                       (Props/C09_block4.v C09_eri_basis_ok_unfold) *)
From Coq Require Import List Arith Bool.
From GB Require Import Base.Field Base.Tables Model.Shell Model.Assembly Model.Assembly14 Model.Overlap Model.TwoElec
  Model.OneBody Proofs.AssembledP Proofs.AssembledSphP Proofs.PermP Proofs.EriStructP Proofs.TwoElecP Proofs.EriOrientP
  Proofs.Block4FullP Proofs.EriSym8P.
Import ListNotations.

(* the eight index symmetries (ab|cd) = (ba|cd) = (ab|dc) = (ba|dc) = (cd|ab) = (dc|ab) = (cd|ba) = (dc|ba) of the
   processed blocks, list level *)
Theorem C11_eri_sym8 :
  forall (F : Type) (K : Fops F), is_field K ->
  (forall x : F, fapx K x = x) -> (forall n, ofnat K (S n) <> f0 K) ->
  forall bs : list (shell F), eri_basis_ok K bs ->
  forall i j k l, i < length bs -> j < length bs -> k < length bs -> l < length bs ->
  let B := Beri K bs in let sw := swapax (f0 K) in
  B i j l k = sw 2 3 (B i j k l) /\
  B j i k l = sw 0 1 (B i j k l) /\
  B j i l k = sw 0 1 (sw 2 3 (B i j k l)) /\
  B k l i j = sw 0 2 (sw 1 3 (B i j k l)) /\
  B l k i j = sw 0 1 (sw 0 2 (sw 1 3 (B i j k l))) /\
  B k l j i = sw 2 3 (sw 0 2 (sw 1 3 (B i j k l))) /\
  B l k j i = sw 0 3 (sw 1 2 (B i j k l)).
Proof. exact (fun F K Kf Hapx c0 bs OK => eri_sym8 K Kf Hapx c0 bs OK). Qed.
Print Assumptions C11_eri_sym8.

(* shape of the processed blocks: [odim s_i][odim s_j][odim s_k][odim s_l], odim = segments x output size *)
Theorem C11_eri_blocks_shape :
  forall (F : Type) (K : Fops F) (bs : list (shell F)),
  shape4 (length bs) (fun k => odim (sh_at K bs k)) (Beri K bs).
Proof. exact (fun F K bs => Beri_shape4 K bs). Qed.
Print Assumptions C11_eri_blocks_shape.

(* whatever the order of the eight writes, the assembled array is the plain concatenation of all n^4 blocks *)
Theorem C11_eri_integral_is_concat :
  forall (F : Type) (K : Fops F), is_field K ->
  (forall x : F, fapx K x = x) -> (forall n, ofnat K (S n) <> f0 K) ->
  forall bs : list (shell F), eri_basis_ok K bs ->
  eri_integral K bs None false = four_concat (length bs) (Beri K bs).
Proof. exact (fun F K Kf => eri_integral_is_concat K Kf). Qed.
Print Assumptions C11_eri_integral_is_concat.

(* assemble_perm for electron_repulsion_integral, no hypothesis on the blocks *)
Theorem C11_assemble_perm_eri_integral_full :
  forall (F : Type) (K : Fops F), is_field K ->
  (forall x : F, fapx K x = x) -> (forall n, ofnat K (S n) <> f0 K) ->
  forall (bs : list (shell F)), eri_basis_ok K bs ->
  forall (ds : shell F) (p : list nat), Forall (fun k => k < length bs) p ->
  let r := fun k => odim (sh_at K bs k) in
  forall x1 x2 x3 x4, x1 < length (iperm r p) -> x2 < length (iperm r p) ->
    x3 < length (iperm r p) -> x4 < length (iperm r p) ->
  Assembly14.get4 (f0 K) (eri_integral K (sel ds p bs) None false) x1 x2 x3 x4
  = Assembly14.get4 (f0 K) (eri_integral K bs None false)
      (nth x1 (iperm r p) 0) (nth x2 (iperm r p) 0) (nth x3 (iperm r p) 0) (nth x4 (iperm r p) 0).
Proof. exact (fun F K Kf Hapx c0 bs OK ds p => eri_integral_perm_full K Kf Hapx c0 bs OK ds p). Qed.
Print Assumptions C11_assemble_perm_eri_integral_full.

(* the hypotheses are satisfiable: spherical d shell, Cartesian p shell, s shell over Qc *)
Example C11_sym8_hypotheses_satisfiable :
  is_field KQ4 /\ (forall x, fapx KQ4 x = x) /\ (forall n, ofnat KQ4 (S n) <> f0 KQ4) /\
  eri_basis_ok KQ4 ex_eri_basis /\ ototal KQ4 ex_eri_basis = 9 /\
  sym8 (f0 KQ4) 3 (Beri KQ4 ex_eri_basis).
Proof. exact ex_eri_full. Qed.
Print Assumptions C11_sym8_hypotheses_satisfiable.
