(* Props/C06_real.v — property C06 over the REAL numbers: the formal jets of Props/C06.v instantiated with honest
   (Coquelicot) derivatives.  Only statements closed by [exact] of a lemma of Proofs/DensityRealP.v, each followed
   by Print Assumptions (the classical real numbers of the standard library).

   Reading guide.  [basis] is any list of well-formed shells (Cartesian / spherical / mixed, any l, any contraction).
     bfun basis a x y z        the number evaluate_basis_model returns for basis function a at the point (x,y,z)
     bdfun basis o a x y z     the number evaluate_deriv_basis_model returns for derivative order o
     pd3 ox oy oz F x y z      d^ox/dx^ox d^oy/dy^oy d^oz/dz^oz F at (x,y,z), iterated Coquelicot Derive_n
     pdk k F x y z             first partial derivative of F along axis k (Derive);  lap3 = pd3 200 + 020 + 002
     rhob basis P x y z        = sum_ab P_ab bfun_a(x,y,z) bfun_b(x,y,z), the electron density as a real FUNCTION
     Gb basis P o1 o2 x y z    = sum_ab P_ab pd3 o1 bfun_a  pd3 o2 bfun_b at (x,y,z): the symbol G(o1,o2) of the jets
     at_pt H x y z             the assignment (o1,o2) |-> H o1 o2 x y z fed to DensityJets.eval
   DensityJets.{density,grad,lap,hess,ked,gked}_model and [shortcut] are the formulas density.py computes
   (Props/C06.v: C06_code_general / C06_code_direct re-prove that on every run from the traced source). *)
From Coq Require Import Reals List Arith.
From Coquelicot Require Import Coquelicot.
From GB Require Import Base.Field Model.Shell Gauss.Bridge3D Gauss.DensityJets Proofs.DensityP Proofs.ScreeningP
  Proofs.SameFunP Proofs.SameFunRealP Proofs.DensityRealP.
Import ListNotations.
Local Open Scope R_scope.

(* The jets instantiated: (a) phi^o_a is what the derivative MODEL returns; (b) the symbol is the double sum of
   these numbers; (c) the product rule d_k G(o1,o2) = G(o1+e_k,o2) + G(o1,o2+e_k), which DEFINES the total
   derivative in Props/C06.v and Props/C15.v, is the real partial derivative of r |-> G(o1,o2)(r). *)
Theorem C06_real_jet_instance :
  forall (basis : list (shell R)), List.Forall shell_wf basis -> forall P : nat -> nat -> R,
  (forall ox oy oz a x y z, (a < nfun basis)%nat ->
     phiR (bfun basis) x y z (ox, oy, oz) a = bdfun basis (ox, oy, oz) a x y z)
  /\ (forall ox oy oz ox' oy' oz' x y z,
        Gb basis P (ox, oy, oz) (ox', oy', oz') x y z
        = rsum (nfun basis) (fun a => rsum (nfun basis) (fun b =>
            P a b * bdfun basis (ox, oy, oz) a x y z * bdfun basis (ox', oy', oz') b x y z)))
  /\ (forall o1 o2 x y z,
        is_derive (fun t => Gb basis P o1 o2 t y z) x
                  (Gb basis P (bump 0 o1) o2 x y z + Gb basis P o1 (bump 0 o2) x y z)
        /\ is_derive (fun t => Gb basis P o1 o2 x t z) y
                  (Gb basis P (bump 1 o1) o2 x y z + Gb basis P o1 (bump 1 o2) x y z)
        /\ is_derive (fun t => Gb basis P o1 o2 x y t) z
                  (Gb basis P (bump 2 o1) o2 x y z + Gb basis P o1 (bump 2 o2) x y z)).
Proof. exact jet_instance. Qed.
Print Assumptions C06_real_jet_instance.

(* every mixed partial derivative of the functions the evaluation model returns is differentiable *)
Theorem C06_real_basis_smooth :
  forall (basis : list (shell R)) (a : nat), List.Forall shell_wf basis -> (a < nfun basis)%nat ->
  forall ox oy oz x y z,
    is_derive (fun t => pd3 ox oy oz (bfun basis a) t y z) x (pd3 (S ox) oy oz (bfun basis a) x y z)
    /\ is_derive (fun t => pd3 ox oy oz (bfun basis a) x t z) y (pd3 ox (S oy) oz (bfun basis a) x y z)
    /\ is_derive (fun t => pd3 ox oy oz (bfun basis a) x y t) z (pd3 ox oy (S oz) (bfun basis a) x y z).
Proof. exact smooth3_bfun. Qed.
Print Assumptions C06_real_basis_smooth.

(* evaluate_density: the value is rho(r); and rho is by definition the double sum of products of model values *)
Theorem C06_real_density :
  forall (basis : list (shell R)), List.Forall shell_wf basis -> forall (P : nat -> nat -> R) x y z,
  eval RK (at_pt (Gb basis P) x y z) (density_model RK) = rhob basis P x y z
  /\ rhob basis P x y z
     = rsum (nfun basis) (fun a => rsum (nfun basis) (fun b => P a b * bfun basis a x y z * bfun basis b x y z)).
Proof.
  exact (fun basis W P x y z =>
    conj (density_real (nfun basis) P (bfun basis) x y z) eq_refl).
Qed.
Print Assumptions C06_real_density.

(* evaluate_deriv_density, EVERY order triple: the l_x <= L_x/2 factor-2 loop (symmetric P) and the Leibniz
   double-binomial sum of the docstring (any P) both equal the mixed partial derivative of the real density *)
Theorem C06_real_deriv_density :
  forall (basis : list (shell R)), List.Forall shell_wf basis -> forall (P : nat -> nat -> R),
  (forall lx ly lz x y z,
     eval RK (at_pt (Gb basis P) x y z) (leibniz RK (lx, ly, lz)) = pd3 lx ly lz (rhob basis P) x y z)
  /\ ((forall a b, P a b = P b a) -> forall lx ly lz x y z,
     eval RK (at_pt (Gb basis P) x y z) (shortcut RK (lx, ly, lz)) = pd3 lx ly lz (rhob basis P) x y z).
Proof.
  exact (fun basis W P =>
    conj (leibniz_real (nfun basis) P (bfun basis) (Hfb basis W))
         (deriv_density_real (nfun basis) P (bfun basis) (Hfb basis W))).
Qed.
Print Assumptions C06_real_deriv_density.

(* P = C C^T (r columns): the real density and the real positive-definite KED are non-negative everywhere *)
Theorem C06_real_nonneg :
  forall (basis : list (shell R)) (r : nat) (C : nat -> nat -> R) x y z,
  0 <= rhob basis (gram r C) x y z /\ 0 <= tplusb basis (gram r C) x y z
  /\ (forall a b, gram r C a b = rsum r (fun m => C a m * C b m))
  /\ (forall a b, gram r C a b = gram r C b a).
Proof.
  exact (fun basis r C x y z =>
    conj (rho_nonneg_real (nfun basis) r C (bfun basis) x y z)
      (conj (ked_nonneg_real (nfun basis) r C (bfun basis) x y z)
        (conj (fun a b => eq_refl) (gram_sym r C)))).
Qed.
Print Assumptions C06_real_nonneg.

(* the hypotheses are satisfiable: an s shell and a p shell (4 functions), a rank-2 matrix C C^T *)
Example C06_real_hypotheses :
  List.Forall shell_wf ex_basis_sp /\ nfun ex_basis_sp = 4%nat
  /\ (forall a b, ex_P a b = ex_P b a) /\ (forall v, 0 <= quad 4 ex_P v).
Proof. exact ex_sp_hypotheses. Qed.
Print Assumptions C06_real_hypotheses.

Example C06_real_instance :
  forall x y z,
  eval RK (at_pt (Gb ex_basis_sp ex_P) x y z) (shortcut RK (1, 0, 1)%nat) = pd3 1 0 1 (rhob ex_basis_sp ex_P) x y z
  /\ 0 <= rhob ex_basis_sp ex_P x y z.
Proof. exact ex_sp_deriv_density. Qed.
Print Assumptions C06_real_instance.
