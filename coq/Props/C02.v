(* Props/C02.v — theorems backing property C02 (kinetic-energy integrals exact). *)
From Coq Require Import List Arith.
From GB Require Import Base.Field Base.Tables Gauss.Moment1D Model.MomentInt Model.DiffOp
  Proofs.MomentIntP Proofs.DiffOpP.

(* Padding argument, for every la, lb and derivative order D: on the whole slice the
   code returns (i <= la), at every order k <= D, the entry of the padded recursion
   equals (negA^k S)(i, j): k-fold application of minus the x-derivative of the left
   primitive to the exact 1-D overlap integrals S. *)
Theorem C02_diffop_slice_valid :
  forall (F : Type) (K : Fops F), is_field K ->
  forall (Ax Bx alpha beta : F) (la lb D : nat),
  psum K alpha beta <> f0 K -> fadd K (f1 K) (f1 K) <> f0 K ->
  forall k j i, k <= D -> j <= lb -> i <= la ->
  nth3 K k j i (dtable K Ax Bx alpha beta la lb D)
  = iterop (negA K alpha) k (Sfun K Ax Bx alpha beta) i j.
Proof. exact (fun F K Kf Ax Bx alpha beta la lb D Hp H2 =>
         diffop_slice_valid K Kf Ax Bx alpha beta la lb D Hp H2). Qed.
Print Assumptions C02_diffop_slice_valid.

(* Integration by parts, every order: the same entry is the integral of phi_a times the
   k-th x-derivative of phi_b (Bop = derivative rule of the right primitive). For k = 2
   and summed over the axes with factor -1/2 this is the kinetic-energy integral. *)
Theorem C02_diffop_is_derivative_of_right :
  forall (F : Type) (K : Fops F), is_field K ->
  forall (Ax Bx alpha beta : F) (la lb D : nat),
  psum K alpha beta <> f0 K -> fadd K (f1 K) (f1 K) <> f0 K ->
  forall k j i, k <= D -> j <= lb -> i <= la ->
  nth3 K k j i (dtable K Ax Bx alpha beta la lb D)
  = iterop (Bop K beta) k (Sfun K Ax Bx alpha beta) i j.
Proof. exact (fun F K Kf Ax Bx alpha beta la lb D Hp H2 =>
         diffop_slice_is_deriv_b K Kf Ax Bx alpha beta la lb D Hp H2). Qed.
Print Assumptions C02_diffop_is_derivative_of_right.
