(* Props/C04.v — structural theorems backing property C04 (electron-repulsion integrals exact in
   both index conventions).  Only statements closed by [exact] of a lemma of Proofs/EriStructP.v,
   each followed by Print Assumptions.  They cover the parts of the property that are about the
   SHAPE of the computation: the physicist convention, the axis layout of a quartet block, the
   eight-fold fill of the full tensor and the order of transform / convention.  The statements that
   the numbers in a block are the exact Coulomb integrals (vertical recursion, electron transfer,
   contraction, horizontal recursions) are in Props/C04_core.v.
   All statements are unbounded in the basis, the shells, the transform and the carrier type. *)
From Coq Require Import List Arith Bool.
From GB Require Import Base.Field Base.Tables Base.Blocks Model.Shell Model.Assembly Model.Assembly14
  Model.Overlap Model.TwoElec Model.OneBody Proofs.EriStructP.
Import ListNotations.

(* ---- (a) physicists' convention = chemists' array with the two middle indices exchanged ---- *)
(* for every basis (Cartesian, spherical, mixed) and every transform *)
Theorem C04_physicist_is_middle_swap :
  forall (F : Type) (K : Fops F) (basis : list (shell F)) (T : option (list (list F))),
  eri_integral K basis T true = swapax (f0 K) 1 2 (eri_integral K basis T false).
Proof. exact (fun F K basis T => eri_physicist_is_swap K basis T). Qed.
Print Assumptions C04_physicist_is_middle_swap.

(* what the exchange does to elements: for ANY four-axis array b (even a ragged one), the element
   (i, j, k, l) of the exchanged array is the element (i, k, j, l) of b; the in-range hypotheses are
   those of the exchanged array (j runs over axis 2 of b, k over axis 1) *)
Theorem C04_swap_middle_index :
  forall (A : Type) (azero : A) (b : list (list (list (list A)))) i j k l,
  i < length b -> k < length (hd [] b) -> j < length (hd [] (hd [] b)) ->
  l < length (hd [] (hd [] (hd [] b))) ->
  get4 azero (swapax azero 1 2 b) i j k l = get4 azero b i k j l.
Proof. exact (fun A z b i j k l => get4_swapax_12 z b i j k l). Qed.
Print Assumptions C04_swap_middle_index.

(* the same for any pair of axes (the eight-fold fill uses (0 1), (2 3), (0 2), (1 3), (0 3), (1 2)) *)
Theorem C04_swap_any_axes_index :
  forall (A : Type) (azero : A) (a b : nat) (blk : list (list (list (list A)))) x0 x1 x2 x3,
  let ds := swapl a b (dims4 blk) 0 in
  x0 < nth 0 ds 0 -> x1 < nth 1 ds 0 -> x2 < nth 2 ds 0 -> x3 < nth 3 ds 0 ->
  get4 azero (swapax azero a b blk) x0 x1 x2 x3
  = (let ix := swapl a b [x0; x1; x2; x3] 0 in
     get4 azero blk (nth 0 ix 0) (nth 1 ix 0) (nth 2 ix 0) (nth 3 ix 0)).
Proof. exact (fun A z a b blk x0 x1 x2 x3 => get4_swapax z a b blk x0 x1 x2 x3). Qed.
Print Assumptions C04_swap_any_axes_index.

(* element form for the public function *)
Theorem C04_physicist_entry :
  forall (F : Type) (K : Fops F) (basis : list (shell F)) (T : option (list (list F))) i j k l,
  let chem := eri_integral K basis T false in
  i < length chem -> k < length (hd [] chem) -> j < length (hd [] (hd [] chem)) ->
  l < length (hd [] (hd [] (hd [] chem))) ->
  get4 (f0 K) (eri_integral K basis T true) i j k l = get4 (f0 K) chem i k j l.
Proof. exact (fun F K basis T i j k l => eri_physicist_entry K basis T i j k l). Qed.
Print Assumptions C04_physicist_entry.

(* exchanging twice returns every element (physicist of physicist = chemist) ... *)
Theorem C04_swap_middle_twice_entry :
  forall (A : Type) (azero : A) (b : list (list (list (list A)))) i j k l,
  i < length b -> j < length (hd [] b) -> k < length (hd [] (hd [] b)) ->
  l < length (hd [] (hd [] (hd [] b))) ->
  get4 azero (swapax azero 1 2 (swapax azero 1 2 b)) i j k l = get4 azero b i j k l.
Proof. exact (fun A z b i j k l => get4_swapax_12_twice z b i j k l). Qed.
Print Assumptions C04_swap_middle_twice_entry.

(* ... and for rectangular arrays with non-empty axes the exchange is an involution on the array
   itself (an empty axis loses the inner lengths in a nested-list representation, hence 0 < d) *)
Theorem C04_swap_middle_involutive :
  forall (A : Type) (azero : A) d0 d1 d2 d3 (b : list (list (list (list A)))),
  rect4 d0 d1 d2 d3 b -> 0 < d0 -> 0 < d1 -> 0 < d2 ->
  swapax azero 1 2 (swapax azero 1 2 b) = b.
Proof. exact (fun A z d0 d1 d2 d3 b => swapax_12_involutive z d0 d1 d2 d3 b). Qed.
Print Assumptions C04_swap_middle_involutive.

(* dimensions of the exchanged array *)
Theorem C04_swap_middle_dims :
  forall (A : Type) (azero : A) (b : list (list (list (list A)))) d0 d1 d2 d3,
  dims4 b = [d0; d1; d2; d3] -> 0 < d0 -> 0 < d1 -> 0 < d2 ->
  dims4 (swapax azero 1 2 b) = [d0; d2; d1; d3].
Proof. exact (fun A z b d0 d1 d2 d3 => dims4_swapax_12 z b d0 d1 d2 d3). Qed.
Print Assumptions C04_swap_middle_dims.

(* the hypotheses are satisfiable, and the exchange is not the identity: a 1 x 2 x 3 x 1 array *)
Example C04_swap_hypotheses_satisfiable :
  (rect4 1 2 3 1 ex_arr /\ 0 < 1 /\ 0 < 2 /\ 0 < 3) /\
  (0 < length ex_arr /\ 1 < length (hd [] ex_arr) /\ 2 < length (hd [] (hd [] ex_arr)) /\
   0 < length (hd [] (hd [] (hd [] ex_arr))) /\
   get4 0 (swapax 0 1 2 ex_arr) 0 2 1 0 = 6 /\ get4 0 ex_arr 0 1 2 0 = 6 /\
   swapax 0 1 2 ex_arr = [[[[1]; [4]]; [[2]; [5]]; [[3]; [6]]]]).
Proof. exact (conj ex_arr_rect ex_arr_swap). Qed.
Print Assumptions C04_swap_hypotheses_satisfiable.

(* ---- (b) axis layout of ElectronRepulsionIntegral.construct_array_contraction ---- *)
(* [M1][L1][M2][L2][M3][L3][M4][L4] for all four shells: M = number of segmented contractions,
   L = number of Cartesian components; every sub-list at every level has the stated length *)
Theorem C04_block_shape :
  forall (F : Type) (K : Fops F) (s1 s2 s3 s4 : shell F),
  shape8 (nseg s1) (length (comps_of s1)) (nseg s2) (length (comps_of s2))
         (nseg s3) (length (comps_of s3)) (nseg s4) (length (comps_of s4))
         (eri_block K s1 s2 s3 s4).
Proof. exact (fun F K s1 s2 s3 s4 => eri_block_shape K s1 s2 s3 s4). Qed.
Print Assumptions C04_block_shape.

(* with the default component order L = (l+1)(l+2)/2, every l *)
Theorem C04_default_component_count :
  forall l, 2 * length (default_comps l) = (l + 1) * (l + 2).
Proof. exact length_default_comps. Qed.
Print Assumptions C04_default_component_count.

(* ---- (c) assembly of the four-index array (base_four_symm.py) ---- *)
(* without a transform the chemists' array is the nested concatenation of the cells of the store
   the eight-fold fill writes into *)
Theorem C04_array_is_concatenation_of_cells :
  forall (F : Type) (K : Fops F) (basis : list (shell F)),
  eri_integral K basis None false = four_concat (length basis) (eri_cell K basis).
Proof. exact (fun F K basis => eri_integral_cells K basis). Qed.
Print Assumptions C04_array_is_concatenation_of_cells.

(* every cell (a, b, c, d) of that store, for shells of the basis, is one of the eight permuted
   images of the processed block evaluated for a canonical quartet i <= j, k <= l of the basis:
   no cell is left unwritten and none holds anything else ("last write wins" included) *)
Theorem C04_cell_is_image_of_computed_block :
  forall (F : Type) (K : Fops F) (basis : list (shell F)) a b c d,
  let n := length basis in
  a < n -> b < n -> c < n -> d < n ->
  exists i j k l, i <= j < n /\ k <= l < n /\
    In ((a, b, c, d), eri_cell K basis a b c d) (writes8 (f0 K) i j k l (eri_pblock K basis i j k l)).
Proof. exact (fun F K basis a b c d => eri_cell_is_image K basis a b c d). Qed.
Print Assumptions C04_cell_is_image_of_computed_block.

Example C04_cell_hypotheses_satisfiable :
  forall (F : Type) (s : shell F), let n := length [s] in 0 < n /\ 0 < n /\ 0 < n /\ 0 < n.
Proof. exact (fun F s => ex_cell_range s). Qed.
Print Assumptions C04_cell_hypotheses_satisfiable.

(* the eight images spelled out: key = permuted quartet, value = block with the matching axes
   exchanged ((ij|kl) = (ij|lk) = (ji|kl) = (ji|lk) = (kl|ij) = (lk|ij) = (kl|ji) = (lk|ji)) *)
Theorem C04_eight_images :
  forall (A : Type) (azero : A) i j k l (blk : list (list (list (list A)))) x v,
  In (x, v) (writes8 azero i j k l blk) ->
  (x = (i, j, k, l) /\ v = blk) \/
  (x = (i, j, l, k) /\ v = swapax azero 2 3 blk) \/
  (x = (j, i, k, l) /\ v = swapax azero 0 1 blk) \/
  (x = (j, i, l, k) /\ v = swapax azero 0 1 (swapax azero 2 3 blk)) \/
  (x = (k, l, i, j) /\ v = swapax azero 0 2 (swapax azero 1 3 blk)) \/
  (x = (l, k, i, j) /\ v = swapax azero 0 1 (swapax azero 0 2 (swapax azero 1 3 blk))) \/
  (x = (k, l, j, i) /\ v = swapax azero 2 3 (swapax azero 0 2 (swapax azero 1 3 blk))) \/
  (x = (l, k, j, i) /\ v = swapax azero 0 3 (swapax azero 1 2 blk)).
Proof. exact (fun A z i j k l blk x v => writes8_images z i j k l blk x v). Qed.
Print Assumptions C04_eight_images.

(* the fill in general (any block function): soundness and completeness of the store *)
Theorem C04_fill_sound_and_complete :
  forall (A : Type) (azero : A) n (bf : nat -> nat -> nat -> nat -> list (list (list (list A)))),
  (forall x v, In (x, v) (all_writes azero n bf) ->
     exists i j k l, i <= j < n /\ k <= l < n /\ In (x, v) (writes8 azero i j k l (bf i j k l))) /\
  (forall a b c d, a < n -> b < n -> c < n -> d < n ->
     exists v, In ((a, b, c, d), v) (all_writes azero n bf)).
Proof. exact (fun A z n bf => conj (all_writes_in z n bf) (all_writes_complete z n bf)). Qed.
Print Assumptions C04_fill_sound_and_complete.

(* ---- (d) order of transform and convention ---- *)
(* the transform acts on each of the four indices of the untransformed chemists' array; the
   physicist exchange is applied last (theorem (a) with T = Some t) *)
Theorem C04_transform_then_convention :
  forall (F : Type) (K : Fops F) (basis : list (shell F)) (t : list (list F)),
  eri_integral K basis (Some t) false
  = lincomb4 (f0 K) (fadd K) (fmul K) t (eri_integral K basis None false).
Proof. exact (fun F K basis t => eri_integral_transform K basis t). Qed.
Print Assumptions C04_transform_then_convention.
