(* Props/C10.v — theorems backing property C10 (the Cartesian-to-spherical
   matrix is the set of real regular solid harmonics).  Only statements closed
   by [exact] of a lemma of Proofs/SphExactP.v, each followed by Print
   Assumptions.  The model is Model/SphExact.v (exact: every entry is a pair
   (r, q) denoting r * sqrt q). *)
From Coq Require Import List Arith Bool String ZArith QArith Qcanon.
From GB Require Import Base.Field Gauss.Moment1D Model.Shell Model.SphExact Proofs.SphExactP.
Import ListNotations.
Local Open Scope nat_scope.

(* For every l <= 10 (the domain of the property, enumerated completely by
   vm_compute) the default-convention matrix passes [check_l]: 2l+1 rows; each
   row, with the normalisation of the unit-normalised Cartesians divided out,
   is sqrt(rho) times a rational homogeneous polynomial of degree l whose
   Laplacian vanishes; the rows are orthonormal for the overlap of
   unit-normalised Cartesians of one shell; the row at the position of m in
   the documented order (s_l..s_1 c_0 c_1..c_l; (c1,s1,c0) for l = 1) equals
   A(x^2+y^2, z) * Re (x+iy)^m resp. A * Im (x+iy)^m with the SAME A for the
   c_m / s_m partners and a positive value of A near the pole; the public entry
   point on the default conventions returns these matrices; left = right^T;
   every Cartesian monomial occurs in some row. *)
Theorem C10_all : forall l, l <= 10 -> check_l l = true.
Proof. exact check_le10. Qed.
Print Assumptions C10_all.

(* Every l, every Cartesian order, every label order / sign list: if the
   request is accepted, then entry (function i, component j) of the result
   (in either form) is sign_i times the entry of the default-convention
   matrix at the positions p, q that function i (without its sign) and
   component j have in the default orders — and such positions exist. *)
Theorem C10_convention_honoured :
  forall l carts strs sd M,
  generate_transformation l carts strs sd = Some M ->
  exists lbs,
    parse_labels l strs = Some lbs /\ List.length lbs = List.length strs
    /\ (forall i, i < List.length strs -> nth i strs ""%string = fmt_label (nth i lbs dl))
    /\ forall i j, i < List.length strs -> j < List.length carts ->
       exists p q, p < 2 * l + 1 /\ q < ncart l
         /\ nth p (default_labels l) dl = unsigned (nth i lbs dl)
         /\ nth q (default_comps l) dc = nth j carts dc
         /\ get sd M i j = sneg (is_neg (nth i lbs dl)) (get SLeft (default_left l) p q).
Proof. exact convention_honoured. Qed.
Print Assumptions C10_convention_honoured.

(* the default matrix used above IS what the entry point returns on the default
   conventions, for every l (so the hypothesis of the previous theorem is satisfiable) *)
Theorem C10_default_generated :
  forall sd l,
  generate_transformation l (default_comps l) (default_label_strings l) sd
  = Some (form sd l (default_comps l) (default_labels l)).
Proof. exact default_generated. Qed.
Print Assumptions C10_default_generated.

(* left form = transpose of the right form: every l, every convention *)
Theorem C10_left_is_transpose :
  forall l carts lbs i j, i < List.length lbs -> j < List.length carts ->
  nth j (nth i (left_form l carts lbs) []) szero = nth i (nth j (right_form l carts lbs) []) szero.
Proof. exact left_is_transpose. Qed.
Print Assumptions C10_left_is_transpose.

(* an invalid convention is rejected: whatever is accepted has exactly 2l+1
   labels, each of one of the four documented forms with an admissible index,
   every function of the shell named (so none twice), and a Cartesian order
   that is a rearrangement of the components of the shell *)
Theorem C10_invalid_rejected :
  forall l carts strs sd M,
  generate_transformation l carts strs sd = Some M ->
  List.length strs = 2 * l + 1
  /\ (forall s, In s strs -> exists neg sine m,
        s = fmt_label (neg, sine, m) /\ m <= l /\ (sine = true -> 1 <= m))
  /\ (forall sine m, m <= l -> (sine = true -> 1 <= m) ->
        In (fmt_label (false, sine, m)) strs \/ In (fmt_label (true, sine, m)) strs)
  /\ List.length carts = ncart l
  /\ (forall x y z, In (x, y, z) carts -> x + y + z = l)
  /\ (forall x y z, x + y + z = l -> In (x, y, z) carts).
Proof. exact accepted_wellformed. Qed.
Print Assumptions C10_invalid_rejected.

(* the four documented forms are all accepted by the label parser *)
Theorem C10_documented_forms_accepted :
  forall l neg sine m, m <= l -> (sine = true -> 1 <= m) ->
  parse_label l (fmt_label (neg, sine, m)) = Some (neg, sine, m).
Proof. exact (fun l neg sine m H1 H2 => parse_fmt l (neg, sine, m) (conj H1 H2)). Qed.
Print Assumptions C10_documented_forms_accepted.

(* the one-axis factor [g1] of the Gram matrix used by the orthonormality check is
   the Gaussian moment m_n of Gauss/Moment1D.v (the functional the overlap
   theorems of C01 are about) at v = 1, in any field; satisfiable: Qc, R *)
Theorem C10_gram_is_gaussian_moment :
  forall (F : Type) (K : Fops F), is_field K ->
  forall n, mom K (f1 K) n = ofnat K (Z.to_nat (g1 n)).
Proof. exact (fun F K Kf => gram1_is_moment K Kf). Qed.
Print Assumptions C10_gram_is_gaussian_moment.

Example C10_reject_c_minus_1 :
  generate_transformation 1 (default_comps 1) ["c-1"; "s1"; "c0"]%string SLeft = None.
Proof. exact reject_c_minus_1. Qed.
Print Assumptions C10_reject_c_minus_1.

Example C10_reject_s_minus_2 :
  generate_transformation 2 (default_comps 2) ["s-2"; "s1"; "c0"; "c1"; "c2"]%string SRight = None.
Proof. exact reject_s_minus_2. Qed.
Print Assumptions C10_reject_s_minus_2.

Example C10_reject_duplicate :
  generate_transformation 1 (default_comps 1) ["c1"; "-c1"; "c0"]%string SLeft = None.
Proof. exact reject_duplicate. Qed.
Print Assumptions C10_reject_duplicate.

Example C10_reject_wrong_count :
  generate_transformation 1 (default_comps 1) ["c1"; "s1"; "c0"; "c0"]%string SLeft = None.
Proof. exact reject_wrong_count. Qed.
Print Assumptions C10_reject_wrong_count.

Example C10_reject_bad_carts :
  generate_transformation 1 [(1, 0, 0); (1, 0, 0); (0, 0, 1)]%nat ["c1"; "s1"; "c0"]%string SLeft = None.
Proof. exact reject_bad_carts. Qed.
Print Assumptions C10_reject_bad_carts.

Example C10_accept_orca_f :
  exists M, generate_transformation 3 (rev (default_comps 3))
              ["c0"; "c1"; "s1"; "c2"; "s2"; "-c3"; "-s3"]%string SLeft = Some M.
Proof. exact accept_orca_f. Qed.
Print Assumptions C10_accept_orca_f.

Example C10_gram_is_gaussian_moment_Qc :
  forall n, mom K0 (f1 K0) n = ofnat K0 (Z.to_nat (g1 n)).
Proof. exact gram1_is_moment_Qc. Qed.
Print Assumptions C10_gram_is_gaussian_moment_Qc.
