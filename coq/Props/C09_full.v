(* Props/C09_full.v — property C09, two-index symmetric class (base_two_symm.py) at FULL strength: the statement
   that Props/C09.v has as C09_two_symm_mix_is_cart_transformed_partial (there with the exchange of the two
   transforms under transposition ASSUMED) is proved here for all blocks and both triangles, on the assembly
   model the integral models use (Model/Overlap.two_symm_integral, Model/OneBody.two_symm_integral_h).
   Only statements closed by [exact] of a lemma of Proofs/AssemblyFullP.v, each followed by Print Assumptions.
   Unbounded in the number of shells, angular momenta, segments; any assignment of coordinate types; any
   element module (no algebraic law) unless said otherwise.

   oidx bs k m q / gidx bs k m c   output position of (shell k, segment m, spherical-or-Cartesian row q) /
                                   Cartesian position (Props/C01_assembled.v C01_mixed_unfold, C01_index_unfold)
   tsum sph T L q f                sum_{c<L} T[q][c] . f c  if sph, f q otherwise: T_s applied to one index
   to_cart s                       s with coord_type Cartesian
   The four-index class is in Props/C09_block4.v: C09_block4_index1_partial does not extend to indices 2-4 as an
   equation between whole blocks (index 1 is the OUTERMOST stage, moving T_s2 out through it needs additivity
   laws that [module_laws] does not contain), but stated ENTRY BY ENTRY it needs no law at all and is proved
   there for all four indices, with the assembled corollaries under the eight-fold symmetry hypothesis of C11.
   The convention-permutation statement C09_convention_output_rows_partial is unchanged. *)
From Coq Require Import List Arith Bool.
From GB Require Import Base.Field Base.FNum Base.Tables Model.Shell Model.MomentInt Model.Spherical Model.Assembly Model.Overlap
  Model.DiffOp Model.OneBody Proofs.CoreDiffP Proofs.AssembledP Proofs.AssembledSphP Proofs.AssembledSphOverlapP
  Proofs.AssemblyFullP.
Import ListNotations.

(* what the symbols stand for (by definition) *)
Theorem C09_full_unfold :
  forall (F : Type) (K : Fops F) (A : Type) (azero : A) (aadd : A -> A -> A) (ascale : F -> A -> A)
         (sph : bool) (T : list (list F)) (L q : nat) (f : nat -> A) (s : shell F),
  tsum K azero aadd ascale sph T L q f
  = (if sph then asum azero aadd (mk L (fun c => ascale (nth c (nth q T []) (f0 K)) (f c))) else f q)
  /\ to_cart s = mkShell F (s_l s) (s_x s) (s_y s) (s_z s) (s_exps s) (s_coeffs s) false (s_comps s) (s_labels s)
  /\ osize s = (if s_sph s then length (labels_of s) else length (comps_of s)).
Proof. exact (fun F K A z a sc sph T L q f s => conj eq_refl (conj eq_refl eq_refl)). Qed.
Print Assumptions C09_full_unfold.

(* the FULL two-index symmetric statement: every entry, both triangles, any module *)
Theorem C09_two_symm_mix_is_cart_transformed :
  forall (F : Type) (K : Fops F) (A : Type) (azero : A) (aadd : A -> A -> A) (ascale : F -> A -> A)
         (blockf : shell F -> shell F -> list (list (list (list A)))),
  (forall a b, blockf (to_cart a) (to_cart b) = blockf a b) ->
  forall bs : list (shell F), (forall s, In s bs -> 0 < nseg s) -> blocks_shaped blockf bs bs ->
  forall i j m q m' q', i < length bs -> j < length bs ->
  m < nseg (sh_at K bs i) -> q < osize (sh_at K bs i) -> m' < nseg (sh_at K bs j) -> q' < osize (sh_at K bs j) ->
  let si := sh_at K bs i in let sj := sh_at K bs j in
  let cart := fun c c' =>
    nth (gidx K (map to_cart bs) j m' c') (nth (gidx K (map to_cart bs) i m c)
        (two_symm_integral K azero aadd ascale blockf (map to_cart bs) None) []) azero in
  nth (oidx K bs j m' q') (nth (oidx K bs i m q) (two_symm_integral K azero aadd ascale blockf bs None) []) azero
  = if Nat.leb i j
    then tsum K azero aadd ascale (s_sph sj) (shell_transform K sj) (ncomp sj) q' (fun c' =>
           tsum K azero aadd ascale (s_sph si) (shell_transform K si) (ncomp si) q (fun c => cart c c'))
    else tsum K azero aadd ascale (s_sph si) (shell_transform K si) (ncomp si) q (fun c =>
           tsum K azero aadd ascale (s_sph sj) (shell_transform K sj) (ncomp sj) q' (fun c' => cart c c')).
Proof. exact (fun F K A z a sc => two_symm_mix_is_cart_transformed K z a sc). Qed.
Print Assumptions C09_two_symm_mix_is_cart_transformed.

(* scalar entries over a field: the two orders of summation coincide — one double sum for both triangles
   (dsum: Props/C01_assembled.v C01_mixed_unfold) *)
Theorem C09_two_symm_mix_is_cart_transformed_scalar :
  forall (F : Type) (K : Fops F), is_field K ->
  forall blockf : shell F -> shell F -> list (list (list (list F))),
  (forall a b, blockf (to_cart a) (to_cart b) = blockf a b) ->
  forall bs : list (shell F), (forall s, In s bs -> 0 < nseg s) -> blocks_shaped blockf bs bs ->
  forall i j m q m' q', i < length bs -> j < length bs ->
  m < nseg (sh_at K bs i) -> q < osize (sh_at K bs i) -> m' < nseg (sh_at K bs j) -> q' < osize (sh_at K bs j) ->
  nth (oidx K bs j m' q') (nth (oidx K bs i m q)
      (two_symm_integral K (f0 K) (fadd K) (fmul K) blockf bs None) []) (f0 K)
  = dsum K (sh_at K bs i) (sh_at K bs j) q q' (fun c c' =>
      nth (gidx K (map to_cart bs) j m' c') (nth (gidx K (map to_cart bs) i m c)
          (two_symm_integral K (f0 K) (fadd K) (fmul K) blockf (map to_cart bs) None) []) (f0 K)).
Proof. exact (fun F K Kf => two_symm_mix_is_cart_transformed_scalar K Kf). Qed.
Print Assumptions C09_two_symm_mix_is_cart_transformed_scalar.

(* the conjugating assembly (momentum, angular momentum: blocks strictly above the diagonal evaluated, all others
   conjugated transposes), for a conjugation that is additive and commutes with scaling *)
Theorem C09_two_symm_h_mix_is_cart_transformed :
  forall (F : Type) (K : Fops F) (A : Type) (azero : A) (aadd : A -> A -> A) (ascale : F -> A -> A)
         (blockf : shell F -> shell F -> list (list (list (list A)))),
  (forall a b, blockf (to_cart a) (to_cart b) = blockf a b) ->
  forall bs : list (shell F), (forall s, In s bs -> 0 < nseg s) -> blocks_shaped blockf bs bs ->
  forall aconj : A -> A, aconj azero = azero ->
  (forall x y, aconj (aadd x y) = aadd (aconj x) (aconj y)) ->
  (forall t x, aconj (ascale t x) = ascale t (aconj x)) ->
  forall i j m q m' q', i < length bs -> j < length bs ->
  m < nseg (sh_at K bs i) -> q < osize (sh_at K bs i) -> m' < nseg (sh_at K bs j) -> q' < osize (sh_at K bs j) ->
  let si := sh_at K bs i in let sj := sh_at K bs j in
  let cart := fun c c' =>
    nth (gidx K (map to_cart bs) j m' c') (nth (gidx K (map to_cart bs) i m c)
        (two_symm_integral_h K azero aadd ascale aconj blockf (map to_cart bs) None) []) (aconj azero) in
  nth (oidx K bs j m' q') (nth (oidx K bs i m q)
      (two_symm_integral_h K azero aadd ascale aconj blockf bs None) []) (aconj azero)
  = if Nat.ltb i j
    then tsum K azero aadd ascale (s_sph sj) (shell_transform K sj) (ncomp sj) q' (fun c' =>
           tsum K azero aadd ascale (s_sph si) (shell_transform K si) (ncomp si) q (fun c => cart c c'))
    else tsum K azero aadd ascale (s_sph si) (shell_transform K si) (ncomp si) q (fun c =>
           tsum K azero aadd ascale (s_sph sj) (shell_transform K sj) (ncomp sj) q' (fun c' => cart c c')).
Proof. exact (fun F K A z a sc => two_symm_h_mix_is_cart_transformed K z a sc). Qed.
Print Assumptions C09_two_symm_h_mix_is_cart_transformed.

(* instances on the production models *)
Theorem C09_momentum_mixed_is_cart_transformed :
  forall (F : Type) (K : Fops F), is_field K ->
  forall bs : list (shell F), (forall s, In s bs -> 0 < nseg s) ->
  forall i j m q m' q', i < length bs -> j < length bs ->
  m < nseg (sh_at K bs i) -> q < osize (sh_at K bs i) -> m' < nseg (sh_at K bs j) -> q' < osize (sh_at K bs j) ->
  let si := sh_at K bs i in let sj := sh_at K bs j in
  let cart := fun c c' =>
    nth (gidx K (map to_cart bs) j m' c') (nth (gidx K (map to_cart bs) i m c)
        (momentum_integral_re K (map to_cart bs) None) []) (vneg K (@vzero F)) in
  nth (oidx K bs j m' q') (nth (oidx K bs i m q) (momentum_integral_re K bs None) []) (vneg K (@vzero F))
  = if Nat.ltb i j
    then tsum K (@vzero F) (vadd K) (vscale K) (s_sph sj) (shell_transform K sj) (ncomp sj) q' (fun c' =>
           tsum K (@vzero F) (vadd K) (vscale K) (s_sph si) (shell_transform K si) (ncomp si) q (fun c => cart c c'))
    else tsum K (@vzero F) (vadd K) (vscale K) (s_sph si) (shell_transform K si) (ncomp si) q (fun c =>
           tsum K (@vzero F) (vadd K) (vscale K) (s_sph sj) (shell_transform K sj) (ncomp sj) q' (fun c' => cart c c')).
Proof. exact (fun F K Kf => momentum_mixed_is_cart_transformed K Kf). Qed.
Print Assumptions C09_momentum_mixed_is_cart_transformed.

Theorem C09_angmom_mixed_is_cart_transformed :
  forall (F : Type) (K : Fops F), is_field K ->
  forall bs : list (shell F), (forall s, In s bs -> 0 < nseg s) ->
  forall i j m q m' q', i < length bs -> j < length bs ->
  m < nseg (sh_at K bs i) -> q < osize (sh_at K bs i) -> m' < nseg (sh_at K bs j) -> q' < osize (sh_at K bs j) ->
  let si := sh_at K bs i in let sj := sh_at K bs j in
  let cart := fun c c' =>
    nth (gidx K (map to_cart bs) j m' c') (nth (gidx K (map to_cart bs) i m c)
        (angmom_integral_re K (map to_cart bs) None) []) (vneg K (@vzero F)) in
  nth (oidx K bs j m' q') (nth (oidx K bs i m q) (angmom_integral_re K bs None) []) (vneg K (@vzero F))
  = if Nat.ltb i j
    then tsum K (@vzero F) (vadd K) (vscale K) (s_sph sj) (shell_transform K sj) (ncomp sj) q' (fun c' =>
           tsum K (@vzero F) (vadd K) (vscale K) (s_sph si) (shell_transform K si) (ncomp si) q (fun c => cart c c'))
    else tsum K (@vzero F) (vadd K) (vscale K) (s_sph si) (shell_transform K si) (ncomp si) q (fun c =>
           tsum K (@vzero F) (vadd K) (vscale K) (s_sph sj) (shell_transform K sj) (ncomp sj) q' (fun c' => cart c c')).
Proof. exact (fun F K Kf => angmom_mixed_is_cart_transformed K Kf). Qed.
Print Assumptions C09_angmom_mixed_is_cart_transformed.

(* ---- the hypotheses are satisfiable ---- *)
Example C09_full_hypotheses_satisfiable :
  forall (F : Type) (K : Fops F) (bs : list (shell F)),
  (forall a b, overlap_block K (to_cart a) (to_cart b) = overlap_block K a b)
  /\ blocks_shaped (overlap_block K) bs bs
  /\ (forall a b, kinetic_block K (to_cart a) (to_cart b) = kinetic_block K a b)
  /\ blocks_shaped (kinetic_block K) bs bs.
Proof. exact (fun F K bs => full_hypotheses_satisfiable K bs). Qed.
Print Assumptions C09_full_hypotheses_satisfiable.

Example C09_conjugation_laws_satisfiable :
  forall (F : Type) (K : Fops F), is_field K ->
  vneg K (@vzero F) = @vzero F
  /\ (forall x y : list F, vneg K (vadd K x y) = vadd K (vneg K x) (vneg K y))
  /\ (forall t (x : list F), vneg K (vscale K t x) = vscale K t (vneg K x)).
Proof. exact (fun F K Kf => conj_laws_satisfiable K Kf). Qed.
Print Assumptions C09_conjugation_laws_satisfiable.
