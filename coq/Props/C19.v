(* Props/C19.v — theorems backing property C19 (calls are pure).
   They are statements about the state machine of Model/Effects.v, for EVERY deterministic library
   (result_of, norm_of, window are universally quantified) and EVERY history (lists of operations).
   PARTIAL with respect to the property: that gbasis behaves like this machine (no aliasing, no hidden
   state) is observed by the monitor harness/c19.py on generated histories, not proved. *)
From Coq Require Import ZArith List.
From GB Require Import Model.Effects Proofs.EffectsP.
Import ListNotations.

(* Any sequence consisting only of public calls - valid or invalid, returning or raising - leaves the
   world (every argument object, every shell incl. its cached norm, the numpy error state) identical. *)
Theorem calls_preserve_world :
  forall (result_of : Z -> errstate -> list val -> result) (norm_of : val -> val -> val -> val -> val)
         (window : Z -> errstate -> errstate) (ops : list op) (w : world),
  Forall is_call ops ->
  fst (exec result_of norm_of window w ops) = w
  /\ Forall (fun x => exists r, x = OCall r /\ (r = Raised \/ exists v, r = Returned v))
            (snd (exec result_of norm_of window w ops)).
Proof. exact calls_preserve_world_any_result. Qed.
Print Assumptions calls_preserve_world.

(* The outcome of a call made after ANY history equals the outcome of the same function on a fresh world
   whose argument values (and error state) are equal. *)
Theorem result_depends_on_values_only :
  forall (result_of : Z -> errstate -> list val -> result) (norm_of : val -> val -> val -> val -> val)
         (window : Z -> errstate -> errstate) (w0 : world) (hist : list op) (wfresh : world)
         (f : Z) (args args' : list arg),
  let w := fst (exec result_of norm_of window w0 hist) in
  w_err w = w_err wfresh ->
  map (arg_value w) args = map (arg_value wfresh) args' ->
  snd (step result_of norm_of window w (Call f args))
  = snd (step result_of norm_of window wfresh (Call f args')).
Proof. exact result_depends_on_values_only_l. Qed.
Print Assumptions result_depends_on_values_only.

(* Repeating a call - immediately or after any sequence of other public calls - gives the same outcome. *)
Theorem repeated_call_same_outcome :
  forall (result_of : Z -> errstate -> list val -> result) (norm_of : val -> val -> val -> val -> val)
         (window : Z -> errstate -> errstate) (w : world) (f : Z) (args : list arg) (mid : list op),
  Forall is_call mid ->
  exists o omid,
    o = OCall (result_of f (w_err w) (map (arg_value w) args))
    /\ snd (exec result_of norm_of window w (Call f args :: mid ++ [Call f args])) = o :: omid ++ [o].
Proof. exact repeat_same_outcome_l. Qed.
Print Assumptions repeated_call_same_outcome.

(* An accepted parameter update changes exactly that parameter of exactly that shell and leaves the cached
   norm as it was (stale); a rejected one changes nothing. *)
Theorem update_changes_exactly_that_field :
  forall (result_of : Z -> errstate -> list val -> result) (norm_of : val -> val -> val -> val -> val)
         (window : Z -> errstate -> errstate) (w : world) (s : nat) (fld : field) (v : val) (sh sh' : shell),
  nth_error (w_shells w) s = Some sh -> setter fld sh v = Some sh' ->
  let w' := fst (step result_of norm_of window w (Update s fld v)) in
  nth_error (w_shells w') s = Some sh'
  /\ params_eq_except fld sh sh'
  /\ s_norm sh' = s_norm sh
  /\ w_objs w' = w_objs w /\ w_err w' = w_err w
  /\ (forall s0, s0 <> s -> nth_error (w_shells w') s0 = nth_error (w_shells w) s0).
Proof. exact update_changes_exactly_l. Qed.
Print Assumptions update_changes_exactly_that_field.

Theorem rejected_update_changes_nothing :
  forall (result_of : Z -> errstate -> list val -> result) (norm_of : val -> val -> val -> val -> val)
         (window : Z -> errstate -> errstate) (w : world) (s : nat) (fld : field) (v : val),
  snd (step result_of norm_of window w (Update s fld v)) = ORejected ->
  fst (step result_of norm_of window w (Update s fld v)) = w.
Proof. exact rejected_update_changes_nothing_l. Qed.
Print Assumptions rejected_update_changes_nothing.

(* After any history ending in assign_norm_cont on shell s, that shell is exactly a freshly constructed
   shell with the same parameters: its cached norm is the norm of its CURRENT parameters. *)
Theorem renormalised_after_update :
  forall (result_of : Z -> errstate -> list val -> result) (norm_of : val -> val -> val -> val -> val)
         (window : Z -> errstate -> errstate) (w : world) (ops : list op) (s : nat) (sh : shell),
  nth_error (w_shells (fst (exec result_of norm_of window w (ops ++ [AssignNorm s])))) s = Some sh ->
  sh = construct norm_of (s_angmom sh) (s_coord sh) (s_exps sh) (s_coeffs sh) (s_ctype sh)
  /\ s_norm sh = norm_of (s_angmom sh) (s_coord sh) (s_exps sh) (s_coeffs sh).
Proof. exact renormalised_after_update_l. Qed.
Print Assumptions renormalised_after_update.

Theorem update_then_assign_is_fresh :
  forall (result_of : Z -> errstate -> list val -> result) (norm_of : val -> val -> val -> val -> val)
         (window : Z -> errstate -> errstate) (w : world) (s : nat) (fld : field) (v : val) (sh sh' : shell),
  nth_error (w_shells w) s = Some sh -> setter fld sh v = Some sh' ->
  nth_error (w_shells (fst (exec result_of norm_of window w [Update s fld v; AssignNorm s]))) s
  = Some (construct norm_of (s_angmom sh') (s_coord sh') (s_exps sh') (s_coeffs sh') (s_ctype sh')).
Proof. exact update_then_assign_l. Qed.
Print Assumptions update_then_assign_is_fresh.

(* No operation of the library (calls, setters, assign_norm_cont) changes the numpy error state, whatever
   state a function switches to while it computes; with user changes in the history the state is the
   user's last choice. *)
Theorem errstate_restored :
  forall (result_of : Z -> errstate -> list val -> result) (norm_of : val -> val -> val -> val -> val)
         (window : Z -> errstate -> errstate) (ops : list op) (w : world),
  Forall (fun o => ~ is_seterr o) ops ->
  w_err (fst (exec result_of norm_of window w ops)) = w_err w.
Proof. exact errstate_restored_l. Qed.
Print Assumptions errstate_restored.

Theorem errstate_is_last_user_choice :
  forall (result_of : Z -> errstate -> list val -> result) (norm_of : val -> val -> val -> val -> val)
         (window : Z -> errstate -> errstate) (ops : list op) (e : errstate) (rest : list op) (w : world),
  Forall (fun o => ~ is_seterr o) rest ->
  w_err (fst (exec result_of norm_of window w (ops ++ SetErr e :: rest))) = e.
Proof. exact errstate_last_seterr_l. Qed.
Print Assumptions errstate_is_last_user_choice.

(* The boolean comparisons the executable predictions are made with decide equality. *)
Theorem prediction_equalities_are_exact :
  (forall a b, world_eqb a b = true <-> a = b) /\ (forall a b, outcome_eqb a b = true <-> a = b).
Proof. exact (conj world_eqb_spec outcome_eqb_spec). Qed.
Print Assumptions prediction_equalities_are_exact.

(* Non-vacuity: in the free interpretation an update really leaves the norm stale, and outcomes follow the
   argument values through a concrete history (same before / same after / different across the update). *)
Example staleness_is_real :
  let w := fst (exec result_free norm_free window_exec ex_world [Update 0 FExps (ex_f [3; 4]%Z)]) in
  map fresh (w_shells w) = [false].
Proof. exact stale_after_update. Qed.
Print Assumptions staleness_is_real.

(* A concrete history through the executable predictor (kind 0 call / 1 rejected / 2 accepted, index of the
   first op with the same outcome, world changed): the hypotheses of the theorems above are satisfiable -
   accepted and rejected updates, equal outcomes before an update, a different one after it. *)
Example history_example :
  let ops := [Call 0 [AObj 0]; Call 9 [AObj 0; AObj 1]; Call 0 [AObj 0];
              Update 0 FExps (ex_f [3; 4]%Z); AssignNorm 0; Call 0 [AObj 0]; Update 0 FExps (ex_f [3]%Z);
              Call ESP [AObj 0]; Call 0 [AObj 0]] in
  map (fun '(k, i, ch) => (k, i, ch)) (fst (fst (predict ex_world ops)))
  = [(0, 0%nat, false); (0, 1%nat, false); (0, 0%nat, false); (2, 3%nat, true); (2, 4%nat, true);
     (0, 5%nat, false); (1, 6%nat, false); (0, 7%nat, false); (0, 5%nat, false)]%Z.
Proof. exact outcomes_follow_values. Qed.
Print Assumptions history_example.
