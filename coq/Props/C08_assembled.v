(* Props/C08_assembled.v — herm_assembly: theorems about the ASSEMBLED momentum / angular-momentum matrices,
   i.e. about the models Model/OneBody.momentum_integral_re / angmom_integral_re that the correspondence
   check runs against gbasis.integrals.momentum.momentum_integral / angular_momentum.angular_momentum_integral
   (property C08).  The model carries the REAL array R of the value -i R; an element is the triple (x, y, z).
   Bases of Cartesian shells, no final transformation; ANY number of shells in ANY order, any l, K, M.
   Index map and basis hypotheses as in Props/C01_assembled.v.

   What the model does with the blocks (Model/OneBody.two_symm_blocks_h = base_two_symm.py with the repaired
   conjugation): blocks with i < j are evaluated; EVERY block with i >= j — the diagonal blocks included — is
   conj(transpose(block j i)), conj = negation of R.  Consequence proved here: R[J][I] = -R[I][J] everywhere
   needs the antisymmetry of the DIAGONAL blocks only (block(s,s)[m'][c'][m][c] = -block(s,s)[m][c][m'][c']);
   between different shells it holds by construction. *)
From Coq Require Import List Arith.
From GB Require Import Base.Field Base.FNum Base.Tables Model.Shell Model.MomentInt Model.Overlap Model.DiffOp
  Model.OneBody Proofs.CoreSumP Proofs.CoreBlockP Proofs.CoreDiffP Proofs.CoreExamplesP
  Proofs.BlockMatP Proofs.AssembledP Proofs.AssembledOverlapP Proofs.AssembledHermP
  Proofs.AssembledSphP Proofs.AssembledSphOverlapP Proofs.AssembledSphHermP Proofs.AssembledLincombP Proofs.AssembledExamplesP.
Import ListNotations.

(* herm_assembly, any block function (elements = lists over F, conj = negation) *)
Theorem C08_herm_assembly_cart :
  forall (F : Type) (K : Fops F), is_field K ->
  forall (blockf : shell F -> shell F -> list (list (list (list (list F))))) (bs : list (shell F)),
  cart_basis bs ->
  (forall sa sb, In sa bs -> In sb bs -> shape4 (nseg sa) (ncomp sa) (nseg sb) (ncomp sb) (blockf sa sb)) ->
  (forall s, In s bs -> forall m c m' c', m < nseg s -> c < ncomp s -> m' < nseg s -> c' < ncomp s ->
     get4 [] m' c' m c (blockf s s) = vneg K (get4 [] m c m' c' (blockf s s))) ->
  forall I J, I < btotal K bs -> J < btotal K bs ->
  let R := two_symm_integral_h K vzero (vadd K) (vscale K) (vneg K) blockf bs None in
  nth I (nth J R []) [] = vneg K (nth J (nth I R []) []).
Proof. exact (fun F K Kf blockf bs => herm_assembly_cart K Kf blockf bs). Qed.
Print Assumptions C08_herm_assembly_cart.

(* the assembled entry in either triangle, as the model fills it *)
Theorem C08_herm_entry :
  forall (F : Type) (K : Fops F)
         (blockf : shell F -> shell F -> list (list (list (list (list F))))) (bs : list (shell F)),
  cart_basis bs ->
  (forall sa sb, In sa bs -> In sb bs -> shape4 (nseg sa) (ncomp sa) (nseg sb) (ncomp sb) (blockf sa sb)) ->
  forall i j m c m' c', i < length bs -> j < length bs ->
  m < nseg (sh_at K bs i) -> c < ncomp (sh_at K bs i) -> m' < nseg (sh_at K bs j) -> c' < ncomp (sh_at K bs j) ->
  nth (gidx K bs j m' c') (nth (gidx K bs i m c)
      (two_symm_integral_h K vzero (vadd K) (vscale K) (vneg K) blockf bs None) []) []
  = if Nat.ltb i j
    then vscale K (fmul K (ncont K (sh_at K bs i) m c) (ncont K (sh_at K bs j) m' c'))
                  (get4 [] m c m' c' (blockf (sh_at K bs i) (sh_at K bs j)))
    else vneg K (vscale K (fmul K (ncont K (sh_at K bs j) m' c') (ncont K (sh_at K bs i) m c))
                  (get4 [] m' c' m c (blockf (sh_at K bs j) (sh_at K bs i)))).
Proof. exact (fun F K blockf bs => herm_entry K blockf bs). Qed.
Print Assumptions C08_herm_entry.

(* momentum: R[J][I] = -R[I][J] at every position, any order of the shells (so -iR is Hermitian) *)
Theorem C08_momentum_integral_herm :
  forall (F : Type) (K : Fops F), is_field K ->
  (forall x : F, fapx K x = x) -> fadd K (f1 K) (f1 K) <> f0 K ->
  forall bs : list (shell F), cart_basis bs -> basis_wf bs -> basis_exps K bs bs ->
  forall I J, I < btotal K bs -> J < btotal K bs ->
  nth I (nth J (momentum_integral_re K bs None) []) []
  = map (fopp K) (nth J (nth I (momentum_integral_re K bs None) []) []).
Proof. exact (fun F K Kf Hapx H2 => momentum_integral_herm K Kf Hapx H2). Qed.
Print Assumptions C08_momentum_integral_herm.

Theorem C08_angmom_integral_herm :
  forall (F : Type) (K : Fops F), is_field K ->
  (forall x : F, fapx K x = x) -> fadd K (f1 K) (f1 K) <> f0 K ->
  forall bs : list (shell F), cart_basis bs -> basis_wf bs -> basis_exps K bs bs ->
  forall I J, I < btotal K bs -> J < btotal K bs ->
  nth I (nth J (angmom_integral_re K bs None) []) []
  = map (fopp K) (nth J (nth I (angmom_integral_re K bs None) []) []).
Proof. exact (fun F K Kf Hapx H2 => angmom_integral_herm K Kf Hapx H2). Qed.
Print Assumptions C08_angmom_integral_herm.

(* exactness of the assembled matrices: EVERY entry, in either triangle and on the diagonal blocks, is
   norm_cont_i norm_cont_j x the contracted spec of phi_a d/dx_k phi_b (resp. phi_a (r x grad)_k phi_b)
   of Props/C08_block.v for the ordered pair (row shell, column shell) *)
Theorem C08_momentum_integral_entry :
  forall (F : Type) (K : Fops F), is_field K ->
  (forall x : F, fapx K x = x) -> fadd K (f1 K) (f1 K) <> f0 K ->
  forall bs : list (shell F), cart_basis bs -> basis_wf bs -> basis_exps K bs bs ->
  forall i j m c m' c', i < length bs -> j < length bs ->
  m < nseg (sh_at K bs i) -> c < ncomp (sh_at K bs i) -> m' < nseg (sh_at K bs j) -> c' < ncomp (sh_at K bs j) ->
  let sa := sh_at K bs i in let sb := sh_at K bs j in
  let ca := nth c (comps_of sa) (0, 0, 0) in let cb := nth c' (comps_of sb) (0, 0, 0) in
  let nn := fmul K (ncont K sa m c) (ncont K sb m' c') in
  nth (gidx K bs j m' c') (nth (gidx K bs i m c) (momentum_integral_re K bs None) []) []
  = [ fmul K nn (contracted K sa sb ca cb m m' (mom_x_prim K sa sb ca cb));
      fmul K nn (contracted K sa sb ca cb m m' (mom_y_prim K sa sb ca cb));
      fmul K nn (contracted K sa sb ca cb m m' (mom_z_prim K sa sb ca cb)) ].
Proof. exact (fun F K Kf Hapx H2 => momentum_integral_entry K Kf Hapx H2). Qed.
Print Assumptions C08_momentum_integral_entry.

Theorem C08_angmom_integral_entry :
  forall (F : Type) (K : Fops F), is_field K ->
  (forall x : F, fapx K x = x) -> fadd K (f1 K) (f1 K) <> f0 K ->
  forall bs : list (shell F), cart_basis bs -> basis_wf bs -> basis_exps K bs bs ->
  forall i j m c m' c', i < length bs -> j < length bs ->
  m < nseg (sh_at K bs i) -> c < ncomp (sh_at K bs i) -> m' < nseg (sh_at K bs j) -> c' < ncomp (sh_at K bs j) ->
  let sa := sh_at K bs i in let sb := sh_at K bs j in
  let ca := nth c (comps_of sa) (0, 0, 0) in let cb := nth c' (comps_of sb) (0, 0, 0) in
  let nn := fmul K (ncont K sa m c) (ncont K sb m' c') in
  nth (gidx K bs j m' c') (nth (gidx K bs i m c) (angmom_integral_re K bs None) []) []
  = [ fmul K nn (contracted K sa sb ca cb m m' (ang_x_prim K sa sb ca cb));
      fmul K nn (contracted K sa sb ca cb m m' (ang_y_prim K sa sb ca cb));
      fmul K nn (contracted K sa sb ca cb m m' (ang_z_prim K sa sb ca cb)) ].
Proof. exact (fun F K Kf Hapx H2 => angmom_integral_entry K Kf Hapx H2). Qed.
Print Assumptions C08_angmom_integral_entry.

(* the arrays are btotal x btotal (x 3) *)
Theorem C08_momentum_integral_shape :
  forall (F : Type) (K : Fops F) (bs : list (shell F)), cart_basis bs -> 0 < length bs ->
  length (momentum_integral_re K bs None) = btotal K bs
  /\ forall I, I < btotal K bs -> length (nth I (momentum_integral_re K bs None) []) = btotal K bs.
Proof. exact (fun F K bs C => herm_shape K (momentum_block_re K) bs C (fun sa sb _ _ => momentum_block_shape K sa sb)). Qed.
Print Assumptions C08_momentum_integral_shape.

(* ---- the hypotheses are satisfiable (the basis of Props/C01_assembled.v), and the Hermiticity theorem at a
        pair of positions inside a DIAGONAL block (3, 10: both in the generalized d shell) and across shells ---- *)
Example C08_assembled_hypotheses_Qc :
  forall opi osqrt oexp oln oboys,
  let K := KQ opi osqrt oexp oln oboys in
  is_field K /\ (forall x, fapx K x = x) /\ fadd K (f1 K) (f1 K) <> f0 K
  /\ cart_basis ex_basis /\ basis_wf ex_basis /\ basis_exps K ex_basis ex_basis
  /\ btotal K ex_basis = 16 /\ gidx K ex_basis 0 1 4 = 10 /\ gidx K ex_basis 1 0 2 = 14.
Proof. exact assembled_hypotheses_satisfiable. Qed.
Print Assumptions C08_assembled_hypotheses_Qc.

Example C08_momentum_herm_Qc :
  forall opi osqrt oexp oln oboys,
  let K := KQ opi osqrt oexp oln oboys in
  nth 3 (nth 10 (momentum_integral_re K ex_basis None) []) []
  = vneg K (nth 10 (nth 3 (momentum_integral_re K ex_basis None) []) [])
  /\ nth 14 (nth 10 (momentum_integral_re K ex_basis None) []) []
  = vneg K (nth 10 (nth 14 (momentum_integral_re K ex_basis None) []) []).
Proof. exact momentum_herm_ex. Qed.
Print Assumptions C08_momentum_herm_Qc.

(* ================= spherical / mixed bases (any assignment of coordinate types) =================
   oidx / osize / ototal / tco / dsum / to_cart as in Props/C01_assembled.v (C01_mixed_unfold). *)

(* herm_assembly, any block function whose entries are vectors of a common length d and whose DIAGONAL blocks
   are antisymmetric: R[J][I] = -R[I][J] at every position, any order and any types of the shells *)
Theorem C08_herm_assembly_mixed :
  forall (F : Type) (K : Fops F), is_field K ->
  forall (blockf : shell F -> shell F -> list (list (list (list (list F))))) (bs : list (shell F)) (d : nat),
  (forall s, In s bs -> 0 < nseg s) ->
  (forall sa sb, In sa bs -> In sb bs -> shape4 (nseg sa) (ncomp sa) (nseg sb) (ncomp sb) (blockf sa sb)) ->
  (forall sa sb, In sa bs -> In sb bs -> forall ma ia mb ib,
     ma < nseg sa -> ia < ncomp sa -> mb < nseg sb -> ib < ncomp sb ->
     length (get4 [] ma ia mb ib (blockf sa sb)) = d) ->
  (forall s, In s bs -> forall m c m' c', m < nseg s -> c < ncomp s -> m' < nseg s -> c' < ncomp s ->
     get4 [] m' c' m c (blockf s s) = vneg K (get4 [] m c m' c' (blockf s s))) ->
  forall I J, I < ototal K bs -> J < ototal K bs ->
  let R := two_symm_integral_h K vzero (vadd K) (vscale K) (vneg K) blockf bs None in
  nth I (nth J R []) [] = vneg K (nth J (nth I R []) []).
Proof. exact (fun F K Kf blockf bs d => herm_assembly_mixed K Kf blockf bs d). Qed.
Print Assumptions C08_herm_assembly_mixed.

Theorem C08_momentum_integral_herm_mixed :
  forall (F : Type) (K : Fops F), is_field K ->
  (forall x : F, fapx K x = x) -> fadd K (f1 K) (f1 K) <> f0 K ->
  forall bs : list (shell F), (forall s, In s bs -> 0 < nseg s) -> basis_wf bs -> basis_exps K bs bs ->
  forall I J, I < ototal K bs -> J < ototal K bs ->
  nth I (nth J (momentum_integral_re K bs None) []) []
  = map (fopp K) (nth J (nth I (momentum_integral_re K bs None) []) []).
Proof. exact (fun F K Kf Hapx H2 => momentum_integral_herm_mixed K Kf Hapx H2). Qed.
Print Assumptions C08_momentum_integral_herm_mixed.

Theorem C08_angmom_integral_herm_mixed :
  forall (F : Type) (K : Fops F), is_field K ->
  (forall x : F, fapx K x = x) -> fadd K (f1 K) (f1 K) <> f0 K ->
  forall bs : list (shell F), (forall s, In s bs -> 0 < nseg s) -> basis_wf bs -> basis_exps K bs bs ->
  forall I J, I < ototal K bs -> J < ototal K bs ->
  nth I (nth J (angmom_integral_re K bs None) []) []
  = map (fopp K) (nth J (nth I (angmom_integral_re K bs None) []) []).
Proof. exact (fun F K Kf Hapx H2 => angmom_integral_herm_mixed K Kf Hapx H2). Qed.
Print Assumptions C08_angmom_integral_herm_mixed.

(* exactness for spherical / mixed bases: every component k of every entry is (+)T on both indices of the
   all-Cartesian matrix (whose entries are C08_momentum_integral_entry) *)
Theorem C08_momentum_mixed_is_cart_transformed :
  forall (F : Type) (K : Fops F), is_field K ->
  (forall x : F, fapx K x = x) -> fadd K (f1 K) (f1 K) <> f0 K ->
  forall bs : list (shell F), (forall s, In s bs -> 0 < nseg s) -> basis_wf bs -> basis_exps K bs bs ->
  forall i j m q m' q', i < length bs -> j < length bs ->
  m < nseg (sh_at K bs i) -> q < osize (sh_at K bs i) -> m' < nseg (sh_at K bs j) -> q' < osize (sh_at K bs j) ->
  let e := nth (oidx K bs j m' q') (nth (oidx K bs i m q) (momentum_integral_re K bs None) []) [] in
  length e = 3 /\
  forall k, k < 3 ->
    nth k e (f0 K) = dsum K (sh_at K bs i) (sh_at K bs j) q q' (fun c c' =>
      nth k (nth (gidx K (map to_cart bs) j m' c') (nth (gidx K (map to_cart bs) i m c)
              (momentum_integral_re K (map to_cart bs) None) []) []) (f0 K)).
Proof. exact (fun F K Kf Hapx H2 => momentum_mixed_is_cart_transformed K Kf Hapx H2). Qed.
Print Assumptions C08_momentum_mixed_is_cart_transformed.

Theorem C08_angmom_mixed_is_cart_transformed :
  forall (F : Type) (K : Fops F), is_field K ->
  (forall x : F, fapx K x = x) -> fadd K (f1 K) (f1 K) <> f0 K ->
  forall bs : list (shell F), (forall s, In s bs -> 0 < nseg s) -> basis_wf bs -> basis_exps K bs bs ->
  forall i j m q m' q', i < length bs -> j < length bs ->
  m < nseg (sh_at K bs i) -> q < osize (sh_at K bs i) -> m' < nseg (sh_at K bs j) -> q' < osize (sh_at K bs j) ->
  let e := nth (oidx K bs j m' q') (nth (oidx K bs i m q) (angmom_integral_re K bs None) []) [] in
  length e = 3 /\
  forall k, k < 3 ->
    nth k e (f0 K) = dsum K (sh_at K bs i) (sh_at K bs j) q q' (fun c c' =>
      nth k (nth (gidx K (map to_cart bs) j m' c') (nth (gidx K (map to_cart bs) i m c)
              (angmom_integral_re K (map to_cart bs) None) []) []) (f0 K)).
Proof. exact (fun F K Kf Hapx H2 => angmom_mixed_is_cart_transformed K Kf Hapx H2). Qed.
Print Assumptions C08_angmom_mixed_is_cart_transformed.

(* the mixed Qc basis of Props/C01_assembled.v (spherical d, Cartesian p, spherical s): Hermiticity inside the
   diagonal block of the spherical d shell and across a spherical / Cartesian pair *)
Example C08_momentum_herm_mixed_Qc :
  forall opi osqrt oexp oln oboys,
  let K := KQ opi osqrt oexp oln oboys in
  nth 2 (nth 8 (momentum_integral_re K ex_mixed None) []) []
  = vneg K (nth 8 (nth 2 (momentum_integral_re K ex_mixed None) []) [])
  /\ nth 12 (nth 8 (angmom_integral_re K ex_mixed None) []) []
  = vneg K (nth 8 (nth 12 (angmom_integral_re K ex_mixed None) []) []).
Proof. exact momentum_herm_mixed_ex. Qed.
Print Assumptions C08_momentum_herm_mixed_Qc.

(* ================= the final transformation (transform = T, lincomb) ================= *)
(* an antisymmetric N x N matrix of vectors stays antisymmetric under T on both indices (T: S x N, rectangular
   allowed) *)
Theorem C08_antisym_lincomb :
  forall (F : Type) (K : Fops F), is_field K ->
  forall (t : list (list F)) (M : list (list (list F))) (N S d : nat),
  0 < N -> (length M = N /\ Forall (fun row => length row = N) M) ->
  (length t = S /\ Forall (fun row => length row = N) t) ->
  (forall I J, I < N -> J < N -> length (nth J (nth I M []) []) = d) ->
  (forall I J, I < N -> J < N -> nth I (nth J M []) [] = vneg K (nth J (nth I M []) [])) ->
  forall a b, a < S -> b < S ->
  nth a (nth b (Model.Assembly.lincomb2 vzero (vadd K) (vscale K) t t M) []) []
  = vneg K (nth b (nth a (Model.Assembly.lincomb2 vzero (vadd K) (vscale K) t t M) []) []).
Proof. exact (fun F K Kf => antisym_lincomb K Kf). Qed.
Print Assumptions C08_antisym_lincomb.

(* momentum / angular momentum with transform = T: Hermitian for any basis (any types, any order), any T *)
Theorem C08_momentum_integral_herm_T :
  forall (F : Type) (K : Fops F), is_field K ->
  (forall x : F, fapx K x = x) -> fadd K (f1 K) (f1 K) <> f0 K ->
  forall bs : list (shell F), (forall s, In s bs -> 0 < nseg s) -> basis_wf bs -> basis_exps K bs bs ->
  0 < length bs ->
  forall (t : list (list F)) (S : nat),
  (length t = S /\ Forall (fun row => length row = ototal K bs) t) ->
  forall a b, a < S -> b < S ->
  nth a (nth b (momentum_integral_re K bs (Some t)) []) []
  = map (fopp K) (nth b (nth a (momentum_integral_re K bs (Some t)) []) []).
Proof. exact (fun F K Kf Hapx H2 => momentum_integral_herm_T K Kf Hapx H2). Qed.
Print Assumptions C08_momentum_integral_herm_T.

Theorem C08_angmom_integral_herm_T :
  forall (F : Type) (K : Fops F), is_field K ->
  (forall x : F, fapx K x = x) -> fadd K (f1 K) (f1 K) <> f0 K ->
  forall bs : list (shell F), (forall s, In s bs -> 0 < nseg s) -> basis_wf bs -> basis_exps K bs bs ->
  0 < length bs ->
  forall (t : list (list F)) (S : nat),
  (length t = S /\ Forall (fun row => length row = ototal K bs) t) ->
  forall a b, a < S -> b < S ->
  nth a (nth b (angmom_integral_re K bs (Some t)) []) []
  = map (fopp K) (nth b (nth a (angmom_integral_re K bs (Some t)) []) []).
Proof. exact (fun F K Kf Hapx H2 => angmom_integral_herm_T K Kf Hapx H2). Qed.
Print Assumptions C08_angmom_integral_herm_T.

(* a rectangular 2 x 14 transformation of the mixed Qc basis meets the hypotheses *)
Example C08_momentum_herm_T_Qc :
  forall opi osqrt oexp oln oboys,
  let K := KQ opi osqrt oexp oln oboys in
  (length ex_T = 2 /\ Forall (fun row => length row = ototal K ex_mixed) ex_T)
  /\ nth 0 (nth 1 (momentum_integral_re K ex_mixed (Some ex_T)) []) []
     = vneg K (nth 1 (nth 0 (momentum_integral_re K ex_mixed (Some ex_T)) []) []).
Proof. exact (fun opi osqrt oexp oln oboys => conj (ex_T_shape opi osqrt oexp oln oboys) (momentum_herm_T_ex opi osqrt oexp oln oboys)). Qed.
Print Assumptions C08_momentum_herm_T_Qc.
