(* Props/C09_block4.v — property C09, FOUR-INDEX class (base_four_symm.py): the statement that Props/C09.v has
   for the first index only (C09_block4_index1_partial) is proved here for ALL FOUR indices, entry by entry, for
   every assignment of coordinate types, every element module (no algebraic law needed), any number of segments
   and components; over a field as one quadruple sum whose order of summation is irrelevant; and lifted to the
   assembled arrays (Assembly14.four_symm, OneBody.eri_integral).
   Only statements closed by [exact] of a lemma of Proofs/Block4FullP.v, each followed by Print Assumptions.

   blk[m1][c1][m2][c2][m3][c3][m4][c4]   raw quartet block, sh8 M1 L1 .. M4 L4 its shape
   nsh M L n                            the norm table n has M rows of L entries
   osz t T L                            output size of one index: rows of T if t (spherical), L otherwise
   tsum t T L q f                       sum_{c<L} T[q][c] . f c  if t,  f q  otherwise
   nrm8 .. m1 c1 .. m4 c4               n4[m4][c4] . (n3[m3][c3] . (n2[m2][c2] . (n1[m1][c1] . blk[m1][c1]..[m4][c4])))
   ucoef t T q c                        T[q][c] if t, Kronecker delta(q, c) otherwise
   qsum4 L1 L2 L3 L4 g                  sum_{c1<L1} sum_{c2<L2} sum_{c3<L3} sum_{c4<L4} g c1 c2 c3 c4

   The generic assembled statement (any block function) keeps the eight-fold symmetry [sym8] of the processed
   blocks as a hypothesis, necessarily: base_four_symm.py evaluates one quartet per orbit and copies, so for an
   arbitrary block function the store does not hold the block of every quartet.  For the production model it is a
   THEOREM (Proofs/EriSym8P.v: quadruple-sum form of every entry + irrelevance of the summation order + the
   orientation theorems of Props/C04_orient.v / C11_eri.v): C09_eri_sym8, hence
   C09_eri_mixed_is_cart_transformed_full and C09_eri_integral_entry carry NO symmetry hypothesis, only: a field
   of characteristic 0, exact arithmetic, shells with a segment and components of degree <= l, non-zero
   exponent sums. *)
From Coq Require Import List Arith Bool ZArith.
From GB Require Import Base.Field Base.FNum Base.Tables Base.Blocks Model.Shell Model.Spherical Model.Assembly
  Model.Assembly14 Model.Overlap Model.TwoElec Model.OneBody Proofs.BlockMatP Proofs.AssembledP Proofs.AssembledSphP
  Proofs.AssembledSphOverlapP Proofs.PermP Proofs.PermEx Proofs.TwoElecP Proofs.EriOrientP Proofs.Block4FullP
  Proofs.EriSym8P.
Import ListNotations.

(* what the symbols stand for (by definition) *)
Theorem C09_block4_unfold :
  forall (F : Type) (K : Fops F) (A : Type) (azero : A) (aadd : A -> A -> A) (ascale : F -> A -> A)
         (t : bool) (T : list (list F)) (L q c : nat) (f : nat -> A) (n : list (list F)) M
         (s1 s2 s3 s4 : @sh F) blk m1 c1 m2 c2 m3 c3 m4 c4 (g : nat -> nat -> nat -> nat -> F),
  tsum K azero aadd ascale t T L q f
  = (if t then asum azero aadd (mk L (fun c => ascale (nth c (nth q T []) (f0 K)) (f c))) else f q)
  /\ osz t T L = (if t then length T else L)
  /\ (nsh M L n <-> length n = M /\ Forall (fun r => length r = L) n)
  /\ nrm8 K azero ascale s1 s2 s3 s4 blk m1 c1 m2 c2 m3 c3 m4 c4
     = ascale (nth c4 (nth m4 (sh_n s4) []) (f0 K)) (ascale (nth c3 (nth m3 (sh_n s3) []) (f0 K))
         (ascale (nth c2 (nth m2 (sh_n s2) []) (f0 K)) (ascale (nth c1 (nth m1 (sh_n s1) []) (f0 K))
            (nth c4 (nth m4 (nth c3 (nth m3 (nth c2 (nth m2 (nth c1 (nth m1 blk []) []) []) []) []) []) []) azero))))
  /\ ucoef K t T q c = (if t then nth c (nth q T []) (f0 K) else if Nat.eqb q c then f1 K else f0 K)
  /\ qsum4 K L L L L g
     = fsum K (mk L (fun c1 => fsum K (mk L (fun c2 => fsum K (mk L (fun c3 => fsum K (mk L (fun c4 => g c1 c2 c3 c4)))))))).
Proof.
  exact (fun F K A z a sc t T L q c f n M s1 s2 s3 s4 blk m1 c1 m2 c2 m3 c3 m4 c4 g =>
    conj eq_refl (conj eq_refl (conj (iff_refl _) (conj eq_refl (conj eq_refl eq_refl))))).
Qed.
Print Assumptions C09_block4_unfold.

(* shape and EVERY entry of the processed quartet block, any module *)
Theorem C09_block4_entry :
  forall (F : Type) (K : Fops F) (A : Type) (azero : A) (aadd : A -> A -> A) (ascale : F -> A -> A)
         t1 t2 t3 t4 (s1 s2 s3 s4 : @sh F) blk M1 L1 M2 L2 M3 L3 M4 L4,
  nsh M1 L1 (sh_n s1) -> nsh M2 L2 (sh_n s2) -> nsh M3 L3 (sh_n s3) -> nsh M4 L4 (sh_n s4) ->
  sh8 M1 L1 M2 L2 M3 L3 M4 L4 blk ->
  (t1 = true -> Forall (fun r => length r = L1) (sh_T s1)) -> (t2 = true -> Forall (fun r => length r = L2) (sh_T s2)) ->
  (t3 = true -> Forall (fun r => length r = L3) (sh_T s3)) -> (t4 = true -> Forall (fun r => length r = L4) (sh_T s4)) ->
  let O1 := osz t1 (sh_T s1) L1 in let O2 := osz t2 (sh_T s2) L2 in
  let O3 := osz t3 (sh_T s3) L3 in let O4 := osz t4 (sh_T s4) L4 in
  let B := block4 azero aadd ascale t1 t2 t3 t4 s1 s2 s3 s4 blk in
  lshape (lshape (lshape (lshape (fun _ : A => True) (M4 * O4)) (M3 * O3)) (M2 * O2)) (M1 * O1) B /\
  forall m1 q1 m2 q2 m3 q3 m4 q4,
    m1 < M1 -> q1 < O1 -> m2 < M2 -> q2 < O2 -> m3 < M3 -> q3 < O3 -> m4 < M4 -> q4 < O4 ->
    Assembly14.get4 azero B (m1 * O1 + q1) (m2 * O2 + q2) (m3 * O3 + q3) (m4 * O4 + q4)
    = tsum K azero aadd ascale t1 (sh_T s1) L1 q1 (fun c1 =>
      tsum K azero aadd ascale t2 (sh_T s2) L2 q2 (fun c2 =>
      tsum K azero aadd ascale t3 (sh_T s3) L3 q3 (fun c3 =>
      tsum K azero aadd ascale t4 (sh_T s4) L4 q4 (fun c4 =>
        nrm8 K azero ascale s1 s2 s3 s4 blk m1 c1 m2 c2 m3 c3 m4 c4)))).
Proof. exact (fun F K A z a sc => block4_spec K z a sc). Qed.
Print Assumptions C09_block4_entry.

(* every entry of the mixed block = T_s1 (x) T_s2 (x) T_s3 (x) T_s4 applied to the all-Cartesian processed block *)
Theorem C09_block4_is_cart_transformed :
  forall (F : Type) (K : Fops F) (A : Type) (azero : A) (aadd : A -> A -> A) (ascale : F -> A -> A)
         t1 t2 t3 t4 (s1 s2 s3 s4 : @sh F) blk M1 L1 M2 L2 M3 L3 M4 L4,
  nsh M1 L1 (sh_n s1) -> nsh M2 L2 (sh_n s2) -> nsh M3 L3 (sh_n s3) -> nsh M4 L4 (sh_n s4) ->
  sh8 M1 L1 M2 L2 M3 L3 M4 L4 blk ->
  (t1 = true -> Forall (fun r => length r = L1) (sh_T s1)) -> (t2 = true -> Forall (fun r => length r = L2) (sh_T s2)) ->
  (t3 = true -> Forall (fun r => length r = L3) (sh_T s3)) -> (t4 = true -> Forall (fun r => length r = L4) (sh_T s4)) ->
  forall m1 q1 m2 q2 m3 q3 m4 q4,
  m1 < M1 -> q1 < osz t1 (sh_T s1) L1 -> m2 < M2 -> q2 < osz t2 (sh_T s2) L2 ->
  m3 < M3 -> q3 < osz t3 (sh_T s3) L3 -> m4 < M4 -> q4 < osz t4 (sh_T s4) L4 ->
  Assembly14.get4 azero (block4 azero aadd ascale t1 t2 t3 t4 s1 s2 s3 s4 blk)
    (m1 * osz t1 (sh_T s1) L1 + q1) (m2 * osz t2 (sh_T s2) L2 + q2)
    (m3 * osz t3 (sh_T s3) L3 + q3) (m4 * osz t4 (sh_T s4) L4 + q4)
  = tsum K azero aadd ascale t1 (sh_T s1) L1 q1 (fun c1 =>
    tsum K azero aadd ascale t2 (sh_T s2) L2 q2 (fun c2 =>
    tsum K azero aadd ascale t3 (sh_T s3) L3 q3 (fun c3 =>
    tsum K azero aadd ascale t4 (sh_T s4) L4 q4 (fun c4 =>
      Assembly14.get4 azero (block4 azero aadd ascale false false false false s1 s2 s3 s4 blk)
        (m1 * L1 + c1) (m2 * L2 + c2) (m3 * L3 + c3) (m4 * L4 + c4))))).
Proof. exact (fun F K A z a sc => block4_is_cart_transformed K z a sc). Qed.
Print Assumptions C09_block4_is_cart_transformed.

(* the all-Cartesian processed block: the four norms, nothing else *)
Theorem C09_block4_cartesian_entry :
  forall (F : Type) (K : Fops F) (A : Type) (azero : A) (aadd : A -> A -> A) (ascale : F -> A -> A)
         (s1 s2 s3 s4 : @sh F) blk M1 L1 M2 L2 M3 L3 M4 L4,
  nsh M1 L1 (sh_n s1) -> nsh M2 L2 (sh_n s2) -> nsh M3 L3 (sh_n s3) -> nsh M4 L4 (sh_n s4) ->
  sh8 M1 L1 M2 L2 M3 L3 M4 L4 blk ->
  forall m1 c1 m2 c2 m3 c3 m4 c4,
  m1 < M1 -> c1 < L1 -> m2 < M2 -> c2 < L2 -> m3 < M3 -> c3 < L3 -> m4 < M4 -> c4 < L4 ->
  Assembly14.get4 azero (block4 azero aadd ascale false false false false s1 s2 s3 s4 blk)
    (m1 * L1 + c1) (m2 * L2 + c2) (m3 * L3 + c3) (m4 * L4 + c4)
  = nrm8 K azero ascale s1 s2 s3 s4 blk m1 c1 m2 c2 m3 c3 m4 c4.
Proof. exact (fun F K A z a sc => block4_cart_entry K z a sc). Qed.
Print Assumptions C09_block4_cartesian_entry.

(* over a field: ONE quadruple sum with the matrices U_k = T_k (spherical) / identity (Cartesian) *)
Theorem C09_block4_quadruple_sum :
  forall (F : Type) (K : Fops F), is_field K ->
  forall t1 t2 t3 t4 (s1 s2 s3 s4 : @sh F) blk M1 L1 M2 L2 M3 L3 M4 L4,
  nsh M1 L1 (sh_n s1) -> nsh M2 L2 (sh_n s2) -> nsh M3 L3 (sh_n s3) -> nsh M4 L4 (sh_n s4) ->
  sh8 M1 L1 M2 L2 M3 L3 M4 L4 blk ->
  (t1 = true -> Forall (fun r => length r = L1) (sh_T s1)) -> (t2 = true -> Forall (fun r => length r = L2) (sh_T s2)) ->
  (t3 = true -> Forall (fun r => length r = L3) (sh_T s3)) -> (t4 = true -> Forall (fun r => length r = L4) (sh_T s4)) ->
  forall m1 q1 m2 q2 m3 q3 m4 q4,
  m1 < M1 -> q1 < osz t1 (sh_T s1) L1 -> m2 < M2 -> q2 < osz t2 (sh_T s2) L2 ->
  m3 < M3 -> q3 < osz t3 (sh_T s3) L3 -> m4 < M4 -> q4 < osz t4 (sh_T s4) L4 ->
  Assembly14.get4 (f0 K) (block4 (f0 K) (fadd K) (fmul K) t1 t2 t3 t4 s1 s2 s3 s4 blk)
    (m1 * osz t1 (sh_T s1) L1 + q1) (m2 * osz t2 (sh_T s2) L2 + q2)
    (m3 * osz t3 (sh_T s3) L3 + q3) (m4 * osz t4 (sh_T s4) L4 + q4)
  = qsum4 K L1 L2 L3 L4 (fun c1 c2 c3 c4 =>
      fmul K (fmul K (fmul K (fmul K (ucoef K t1 (sh_T s1) q1 c1) (ucoef K t2 (sh_T s2) q2 c2))
                 (ucoef K t3 (sh_T s3) q3 c3)) (ucoef K t4 (sh_T s4) q4 c4))
        (Assembly14.get4 (f0 K) (block4 (f0 K) (fadd K) (fmul K) false false false false s1 s2 s3 s4 blk)
           (m1 * L1 + c1) (m2 * L2 + c2) (m3 * L3 + c3) (m4 * L4 + c4))).
Proof. exact (fun F K Kf => block4_quadruple_sum K Kf). Qed.
Print Assumptions C09_block4_quadruple_sum.

(* the order in which the four contractions are performed is not observable: adjacent summations commute
   (these three exchanges generate all 24 orders) *)
Theorem C09_block4_sum_order :
  forall (F : Type) (K : Fops F), is_field K ->
  forall L1 L2 L3 L4 (g : nat -> nat -> nat -> nat -> F),
  qsum4 K L1 L2 L3 L4 g = qsum4 K L2 L1 L3 L4 (fun c2 c1 c3 c4 => g c1 c2 c3 c4) /\
  qsum4 K L1 L2 L3 L4 g = qsum4 K L1 L3 L2 L4 (fun c1 c3 c2 c4 => g c1 c2 c3 c4) /\
  qsum4 K L1 L2 L3 L4 g = qsum4 K L1 L2 L4 L3 (fun c1 c2 c4 c3 => g c1 c2 c3 c4).
Proof.
  exact (fun F K Kf L1 L2 L3 L4 g =>
    conj (qsum4_swap12 K Kf L1 L2 L3 L4 g) (conj (qsum4_swap23 K Kf L1 L2 L3 L4 g) (qsum4_swap34 K Kf L1 L2 L3 L4 g))).
Qed.
Print Assumptions C09_block4_sum_order.

(* ---- assembled: Assembly14.four_symm, the mix path (mode 2) against the cartesian path (mode 0) ---- *)
Theorem C09_four_symm_mix_is_cart_transformed :
  forall (F : Type) (K : Fops F) (A : Type) (azero : A) (aadd : A -> A -> A) (ascale : F -> A -> A)
         (ss : list (@sh F)) bf (Mf Lf : nat -> nat),
  let s_ := fun k => nth k ss (mkSh false [] []) in
  (forall k, k < length ss -> nsh (Mf k) (Lf k) (sh_n (s_ k))) ->
  (forall k, k < length ss -> sh_sph (s_ k) = true -> Forall (fun r => length r = Lf k) (sh_T (s_ k))) ->
  (forall i j k l, i < length ss -> j < length ss -> k < length ss -> l < length ss ->
     sh8 (Mf i) (Lf i) (Mf j) (Lf j) (Mf k) (Lf k) (Mf l) (Lf l) (bf i j k l)) ->
  let O := fun k => osz (sh_sph (s_ k)) (sh_T (s_ k)) (Lf k) in
  let rmix := fun k => Mf k * O k in let rcart := fun k => Mf k * Lf k in
  forall i j k l m1 q1 m2 q2 m3 q3 m4 q4,
  sym8 azero (length ss) (B4f azero aadd ascale 2 ss bf) -> sym8 azero (length ss) (B4f azero aadd ascale 0 ss bf) ->
  i < length ss -> j < length ss -> k < length ss -> l < length ss ->
  m1 < Mf i -> q1 < O i -> m2 < Mf j -> q2 < O j -> m3 < Mf k -> q3 < O k -> m4 < Mf l -> q4 < O l ->
  Assembly14.get4 azero (four_symm azero aadd ascale 2 ss bf)
    (offs rmix i + (m1 * O i + q1)) (offs rmix j + (m2 * O j + q2))
    (offs rmix k + (m3 * O k + q3)) (offs rmix l + (m4 * O l + q4))
  = tsum K azero aadd ascale (sh_sph (s_ i)) (sh_T (s_ i)) (Lf i) q1 (fun c1 =>
    tsum K azero aadd ascale (sh_sph (s_ j)) (sh_T (s_ j)) (Lf j) q2 (fun c2 =>
    tsum K azero aadd ascale (sh_sph (s_ k)) (sh_T (s_ k)) (Lf k) q3 (fun c3 =>
    tsum K azero aadd ascale (sh_sph (s_ l)) (sh_T (s_ l)) (Lf l) q4 (fun c4 =>
      Assembly14.get4 azero (four_symm azero aadd ascale 0 ss bf)
        (offs rcart i + (m1 * Lf i + c1)) (offs rcart j + (m2 * Lf j + c2))
        (offs rcart k + (m3 * Lf k + c3)) (offs rcart l + (m4 * Lf l + c4)))))).
Proof. exact (fun F K A z a sc ss bf Mf Lf => four_symm_mix_is_cart_transformed K z a sc ss bf Mf Lf). Qed.
Print Assumptions C09_four_symm_mix_is_cart_transformed.

(* ---- the production model: electron_repulsion_integral of a basis with any coordinate types against the same
   basis with all shells Cartesian (oidx / gidx: Props/C01_assembled.v) ---- *)
Theorem C09_eri_mixed_is_cart_transformed :
  forall (F : Type) (K : Fops F) (bs : list (shell F)) i j k l m1 q1 m2 q2 m3 q3 m4 q4,
  sym8 (f0 K) (length bs) (Beri K bs) -> sym8 (f0 K) (length bs) (Beri K (map to_cart bs)) ->
  i < length bs -> j < length bs -> k < length bs -> l < length bs ->
  m1 < nseg (sh_at K bs i) -> q1 < osize (sh_at K bs i) -> m2 < nseg (sh_at K bs j) -> q2 < osize (sh_at K bs j) ->
  m3 < nseg (sh_at K bs k) -> q3 < osize (sh_at K bs k) -> m4 < nseg (sh_at K bs l) -> q4 < osize (sh_at K bs l) ->
  let ts := fun s => tsum K (f0 K) (fadd K) (fmul K) (s_sph s) (shell_transform K s) (ncomp s) in
  Assembly14.get4 (f0 K) (eri_integral K bs None false)
    (oidx K bs i m1 q1) (oidx K bs j m2 q2) (oidx K bs k m3 q3) (oidx K bs l m4 q4)
  = ts (sh_at K bs i) q1 (fun c1 => ts (sh_at K bs j) q2 (fun c2 =>
    ts (sh_at K bs k) q3 (fun c3 => ts (sh_at K bs l) q4 (fun c4 =>
      Assembly14.get4 (f0 K) (eri_integral K (map to_cart bs) None false)
        (gidx K bs i m1 c1) (gidx K bs j m2 c2) (gidx K bs k m3 c3) (gidx K bs l m4 c4))))).
Proof. exact (fun F K bs => eri_mixed_is_cart_transformed K bs). Qed.
Print Assumptions C09_eri_mixed_is_cart_transformed.

(* ---- the hypotheses are satisfiable ---- *)
(* the production data have the shapes the theorems ask for *)
Example C09_block4_shapes_of_the_model :
  forall (F : Type) (K : Fops F) (a b c d : shell F),
  nsh (nseg a) (ncomp a) (norm_cont K a)
  /\ Forall (fun r => length r = ncomp a) (shell_transform K a)
  /\ sh8 (nseg a) (ncomp a) (nseg b) (ncomp b) (nseg c) (ncomp c) (nseg d) (ncomp d) (eri_block K a b c d).
Proof. exact (fun F K a b c d => conj (norm_cont_nsh K a) (conj (shell_transform_rows K a) (eri_block_sh8 K a b c d))). Qed.
Print Assumptions C09_block4_shapes_of_the_model.

(* labelled integers (Proofs/PermEx.v): shells with 1, 2 (two segments) and 2 (spherical from 3 components)
   functions: shapes and BOTH eight-fold symmetries hold, by evaluation *)
Example C09_block4_hypotheses_satisfiable :
  (forall k, k < 3 -> nsh (nM k) (nL4 k) (sh_n (nth k ss4 (mkSh false [] [])))) /\
  (forall k, k < 3 -> sh_sph (nth k ss4 (mkSh false [] [])) = true ->
     Forall (fun r => length r = nL4 k) (sh_T (nth k ss4 (mkSh false [] [])))) /\
  (forall i j k l, i < 3 -> j < 3 -> k < 3 -> l < 3 ->
     sh8 (nM i) (nL4 i) (nM j) (nL4 j) (nM k) (nL4 k) (nM l) (nL4 l) (raw4 i j k l)) /\
  sym8 0%Z 3 (B4f 0%Z Z.add Z.mul 2 ss4 raw4) /\ sym8 0%Z 3 (B4f 0%Z Z.add Z.mul 0 ss4 raw4).
Proof. exact ex_block4_hyps. Qed.
Print Assumptions C09_block4_hypotheses_satisfiable.

(* one entry of that instance, both sides evaluated *)
Example C09_block4_instance :
  let mix := four_symm 0%Z Z.add Z.mul 2 ss4 raw4 in
  let cart := four_symm 0%Z Z.add Z.mul 0 ss4 raw4 in
  let T := sh_T sh_c in
  Assembly14.get4 0%Z mix 4 2 3 0
  = fold_right Z.add 0%Z (mk 3 (fun c1 => (nth c1 (nth 1 T []) 0 * fold_right Z.add 0 (mk 3 (fun c3 =>
      nth c3 (nth 0 T []) 0 * Assembly14.get4 0%Z cart (3 + c1) 2 (3 + c3) 0)))%Z)).
Proof. exact ex_block4_instance. Qed.
Print Assumptions C09_block4_instance.

(* ==================================================================================================== *)
(* the production model WITHOUT a symmetry hypothesis (Proofs/EriSym8P.v)                                *)
(* eri_basis_ok K bs: every shell has a segment; every component of every shell has degree <= l; for all shells
   a b c d of the basis the exponent sums alpha+beta, gamma+delta, alpha+beta+gamma+delta are non-zero *)
Theorem C09_eri_basis_ok_unfold :
  forall (F : Type) (K : Fops F) (bs : list (shell F)),
  eri_basis_ok K bs <->
  (forall s, In s bs -> 0 < nseg s) /\
  (forall s, In s bs -> forall i, i < ncomp s -> compsum (nth i (comps_of s) (0, 0, 0)) <= s_l s) /\
  (forall a b c d, In a bs -> In b bs -> In c bs -> In d bs ->
     (forall alpha beta, In alpha (s_exps a) -> In beta (s_exps b) -> fadd K alpha beta <> f0 K) /\
     (forall gamma delta, In gamma (s_exps c) -> In delta (s_exps d) -> fadd K gamma delta <> f0 K) /\
     (forall alpha beta gamma delta, In alpha (s_exps a) -> In beta (s_exps b) -> In gamma (s_exps c) ->
        In delta (s_exps d) -> fadd K (fadd K alpha beta) (fadd K gamma delta) <> f0 K)).
Proof. exact (fun F K bs => iff_refl _). Qed.
Print Assumptions C09_eri_basis_ok_unfold.

(* the EIGHT-FOLD SYMMETRY of the processed ERI blocks: each of the seven permuted copies written by
   base_four_symm.py is the processed block of the permuted shell quartet, evaluated independently *)
Theorem C09_eri_sym8 :
  forall (F : Type) (K : Fops F), is_field K ->
  (forall x : F, fapx K x = x) -> (forall n, ofnat K (S n) <> f0 K) ->
  forall bs : list (shell F), eri_basis_ok K bs -> sym8 (f0 K) (length bs) (Beri K bs).
Proof. exact (fun F K Kf => eri_sym8 K Kf). Qed.
Print Assumptions C09_eri_sym8.

Theorem C09_eri_mixed_is_cart_transformed_full :
  forall (F : Type) (K : Fops F), is_field K ->
  (forall x : F, fapx K x = x) -> (forall n, ofnat K (S n) <> f0 K) ->
  forall bs : list (shell F), eri_basis_ok K bs ->
  forall i j k l m1 q1 m2 q2 m3 q3 m4 q4,
  i < length bs -> j < length bs -> k < length bs -> l < length bs ->
  m1 < nseg (sh_at K bs i) -> q1 < osize (sh_at K bs i) -> m2 < nseg (sh_at K bs j) -> q2 < osize (sh_at K bs j) ->
  m3 < nseg (sh_at K bs k) -> q3 < osize (sh_at K bs k) -> m4 < nseg (sh_at K bs l) -> q4 < osize (sh_at K bs l) ->
  let ts := fun s => tsum K (f0 K) (fadd K) (fmul K) (s_sph s) (shell_transform K s) (ncomp s) in
  Assembly14.get4 (f0 K) (eri_integral K bs None false)
    (oidx K bs i m1 q1) (oidx K bs j m2 q2) (oidx K bs k m3 q3) (oidx K bs l m4 q4)
  = ts (sh_at K bs i) q1 (fun c1 => ts (sh_at K bs j) q2 (fun c2 =>
    ts (sh_at K bs k) q3 (fun c3 => ts (sh_at K bs l) q4 (fun c4 =>
      Assembly14.get4 (f0 K) (eri_integral K (map to_cart bs) None false)
        (gidx K bs i m1 c1) (gidx K bs j m2 c2) (gidx K bs k m3 c3) (gidx K bs l m4 c4))))).
Proof. exact (fun F K Kf => eri_mixed_is_cart_transformed_full K Kf). Qed.
Print Assumptions C09_eri_mixed_is_cart_transformed_full.

(* EVERY entry of the assembled array (all n^4 cells, evaluated or copied) is the quadruple sum over the raw block
   of its OWN shell quartet: U (x) U (x) U (x) U, the four norms, the raw entry *)
Theorem C09_eri_integral_entry :
  forall (F : Type) (K : Fops F), is_field K ->
  (forall x : F, fapx K x = x) -> (forall n, ofnat K (S n) <> f0 K) ->
  forall bs : list (shell F), eri_basis_ok K bs ->
  forall i j k l m1 q1 m2 q2 m3 q3 m4 q4,
  i < length bs -> j < length bs -> k < length bs -> l < length bs ->
  m1 < nseg (sh_at K bs i) -> q1 < osize (sh_at K bs i) -> m2 < nseg (sh_at K bs j) -> q2 < osize (sh_at K bs j) ->
  m3 < nseg (sh_at K bs k) -> q3 < osize (sh_at K bs k) -> m4 < nseg (sh_at K bs l) -> q4 < osize (sh_at K bs l) ->
  let a := sh_at K bs i in let b := sh_at K bs j in let c := sh_at K bs k in let d := sh_at K bs l in
  let U := fun s q x => ucoef K (s_sph s) (shell_transform K s) q x in
  Assembly14.get4 (f0 K) (eri_integral K bs None false)
    (oidx K bs i m1 q1) (oidx K bs j m2 q2) (oidx K bs k m3 q3) (oidx K bs l m4 q4)
  = qsum4 K (ncomp a) (ncomp b) (ncomp c) (ncomp d) (fun c1 c2 c3 c4 =>
      fmul K (fmul K (fmul K (fmul K (U a q1 c1) (U b q2 c2)) (U c q3 c3)) (U d q4 c4))
        (fmul K (ncont K d m4 c4) (fmul K (ncont K c m3 c3) (fmul K (ncont K b m2 c2) (fmul K (ncont K a m1 c1)
           (TwoElec.get8 K (eri_block K a b c d) m1 c1 m2 c2 m3 c3 m4 c4)))))).
Proof. exact (fun F K Kf => eri_integral_entry K Kf). Qed.
Print Assumptions C09_eri_integral_entry.

(* the hypotheses are satisfiable: spherical d shell, Cartesian p shell, s shell (two primitives each) over Qc *)
Example C09_eri_hypotheses_satisfiable :
  is_field KQ4 /\ (forall x, fapx KQ4 x = x) /\ (forall n, ofnat KQ4 (S n) <> f0 KQ4) /\
  eri_basis_ok KQ4 ex_eri_basis /\ ototal KQ4 ex_eri_basis = 9 /\
  sym8 (f0 KQ4) 3 (Beri KQ4 ex_eri_basis).
Proof. exact ex_eri_full. Qed.
Print Assumptions C09_eri_hypotheses_satisfiable.
