(* Props/BRIDGE_3d.v — the analytic bridge (B1) carried to three dimensions (the Boys functional, (B2), is in
   Props/BRIDGE_boys.v).
   Only statements closed by [exact] of a lemma proved in Gauss/Bridge3D.v or Gauss/BoysBridge.v, each
   followed by Print Assumptions.  Notation (see Props/BRIDGE.v for gint, Gint):

   gint3 F l    :=  the ITERATED improper Riemann integral of F : R -> R -> R -> R (z innermost, then y,
                    then x) exists and equals l  (BRIDGE3_gint3_meaning).  "Integral over R^3" MEANS this
                    iterated integral here; its identification with the Lebesgue integral over R^3
                    (Fubini-Tonelli for polynomial x Gaussian) is the residual trusted step of (B1) in 3-D.
   cprim al A c :=  (x-A_x)^{c_x} (y-A_y)^{c_y} (z-A_z)^{c_z} exp(-al |r-A|^2), gprim s al c the same at the
                    centre of the shell s;  cfun s m c := sum_k coeff[k][m] * norm_prim(al_k, c) * gprim s al_k c
   pd3 ox oy oz G x y z := d^ox/dx^ox d^oy/dy^oy d^oz/dz^oz G at (x,y,z) (Coquelicot's Derive_n, nested);
   lap3 := pd3 2 0 0 + pd3 0 2 0 + pd3 0 0 2
   RK           :=  the number interface at R (real sqrt, exp, PI) of Proofs/ScreeningP.v; the right-hand
                    sides are the specs of Proofs/CoreBlockP.v / CoreDiffP.v and the MODEL functions at RK

   What remains trusted for (B1) in 3-D after this file: only "iterated improper integral = integral over R^3"
   (Fubini-Tonelli for polynomial x Gaussian). *)
From Coq Require Import List Reals.
From Coquelicot Require Import Coquelicot.
From GB Require Import Base.Field Base.FNum Gauss.Moment1D Gauss.DerivBridge Gauss.BridgeR
  Model.Shell Model.MomentInt Model.Overlap Model.DiffOp Proofs.DiffOpP
  Proofs.CoreSumP Proofs.CoreBlockP Proofs.CoreDiffP Proofs.ScreeningP Proofs.CoreNormP
  Gauss.Bridge3D.
Import ListNotations.
Open Scope R_scope.

(* ---------------- the iterated integral ---------------- *)
Theorem BRIDGE3_gint3_meaning :
  forall (F : R -> R -> R -> R) (l : R),
  gint3 F l <->
  exists (Iz : R -> R -> R) (Iyz : R -> R),
    (forall x y, gint (fun z => F x y z) (Iz x y)) /\
    (forall x, gint (fun y => Iz x y) (Iyz x)) /\
    gint Iyz l.
Proof. exact gint3_def. Qed.
Print Assumptions BRIDGE3_gint3_meaning.

Theorem BRIDGE3_gint3_unique :
  forall (F : R -> R -> R -> R) (l l' : R), gint3 F l -> gint3 F l' -> l = l'.
Proof. exact gint3_unique. Qed.
Print Assumptions BRIDGE3_gint3_unique.

Theorem BRIDGE3_gint3_as_Gint :
  forall (F : R -> R -> R -> R) (l : R), gint3 F l ->
  Gint (fun x => Gint (fun y => Gint (fun z => F x y z))) = l.
Proof. exact gint3_as_Gint. Qed.
Print Assumptions BRIDGE3_gint3_as_Gint.

Theorem BRIDGE3_gint3_prod :
  forall (f g h : R -> R) (If Ig Ih : R), gint f If -> gint g Ig -> gint h Ih ->
  gint3 (fun x y z => f x * g y * h z) (If * Ig * Ih).
Proof. exact gint3_prod. Qed.
Print Assumptions BRIDGE3_gint3_prod.

Theorem BRIDGE3_gint3_scal :
  forall (k : R) (F : R -> R -> R -> R) (l : R), gint3 F l -> gint3 (fun x y z => k * F x y z) (k * l).
Proof. exact gint3_scal. Qed.
Print Assumptions BRIDGE3_gint3_scal.

Theorem BRIDGE3_gint3_plus :
  forall (F G : R -> R -> R -> R) (lf lg : R), gint3 F lf -> gint3 G lg ->
  gint3 (fun x y z => F x y z + G x y z) (lf + lg).
Proof. exact gint3_plus. Qed.
Print Assumptions BRIDGE3_gint3_plus.

(* ---------------- primitives: overlap and multipole moments ---------------- *)
Theorem BRIDGE3_mom_prim_integral :
  forall (Cx Cy Cz : R) (o : Shell.comp) (sa sb : shell R) (ca cb : Shell.comp) (al be : R),
  0 < al -> 0 < be ->
  gint3 (fun x y z => (x - Cx) ^ cx o * (y - Cy) ^ cy o * (z - Cz) ^ cz o
                      * gprim sa al ca x y z * gprim sb be cb x y z)
        (mom_prim RK Cx Cy Cz o sa sb ca cb al be).
Proof. exact mom_prim_3d_integral. Qed.
Print Assumptions BRIDGE3_mom_prim_integral.

Theorem BRIDGE3_overlap_prim_integral :
  forall (sa sb : shell R) (ca cb : Shell.comp) (al be : R), 0 < al -> 0 < be ->
  gint3 (fun x y z => gprim sa al ca x y z * gprim sb be cb x y z) (ovl_prim RK sa sb ca cb al be).
Proof. exact overlap_prim_3d_integral. Qed.
Print Assumptions BRIDGE3_overlap_prim_integral.

(* written out without the shell record *)
Theorem BRIDGE3_sprim_is_cartesian_gaussian :
  forall (s : shell R) (al : R) (c : Shell.comp) (x y z : R),
  gprim s al c x y z
  = (x - s_x s) ^ cx c * (y - s_y s) ^ cy c * (z - s_z s) ^ cz c
    * exp (- al * ((x - s_x s) ^ 2 + (y - s_y s) ^ 2 + (z - s_z s) ^ 2)).
Proof. exact (fun s al c x y z => eq_refl). Qed.
Print Assumptions BRIDGE3_sprim_is_cartesian_gaussian.

(* ---------------- derivatives ---------------- *)
Theorem BRIDGE3_derivative_of_primitive_1d :
  forall (be B : R) (j k : nat) (x : R),
  is_derive_n (fun t => (t - B) ^ j * exp (- be * (t - B) ^ 2)) k x
              (Eval.u RKd be j k (x - B) * exp (- be * (x - B) ^ 2)).
Proof. exact cg1_is_derive_n. Qed.
Print Assumptions BRIDGE3_derivative_of_primitive_1d.

Theorem BRIDGE3_deriv_1d_integral :
  forall (al be A B : R) (k i j : nat), 0 < al -> 0 < be ->
  gint (fun x => ((x - A) ^ i * exp (- al * (x - A) ^ 2))
                 * Derive_n (fun t => (t - B) ^ j * exp (- be * (t - B) ^ 2)) k x)
       (iterop (Bop RK be) k (Sfun RK A B al be) i j).
Proof. exact deriv_1d_integral. Qed.
Print Assumptions BRIDGE3_deriv_1d_integral.

Theorem BRIDGE3_moment1_1d_integral :
  forall (al be A B : R) (i j : nat), 0 < al -> 0 < be ->
  gint (fun x => ((x - A) ^ i * exp (- al * (x - A) ^ 2))
                 * (x * ((x - B) ^ j * exp (- be * (x - B) ^ 2))))
       (M1o RK A B al be i j).
Proof. exact moment1_1d_integral. Qed.
Print Assumptions BRIDGE3_moment1_1d_integral.

Theorem BRIDGE3_dprim_integral :
  forall (o : Shell.comp) (sa sb : shell R) (ca cb : Shell.comp) (al be : R), 0 < al -> 0 < be ->
  gint3 (fun x y z => gprim sa al ca x y z * pd3 (cx o) (cy o) (cz o) (gprim sb be cb) x y z)
        (dprim RK o sa sb ca cb al be).
Proof. exact dprim_3d_integral. Qed.
Print Assumptions BRIDGE3_dprim_integral.

Theorem BRIDGE3_kinetic_prim_integral :
  forall (sa sb : shell R) (ca cb : Shell.comp) (al be : R), 0 < al -> 0 < be ->
  gint3 (fun x y z => gprim sa al ca x y z * (- (1 / 2) * lap3 (gprim sb be cb) x y z))
        (kin_prim RK sa sb ca cb al be).
Proof. exact kinetic_prim_3d_integral. Qed.
Print Assumptions BRIDGE3_kinetic_prim_integral.

Theorem BRIDGE3_momentum_prim_integral :
  forall (sa sb : shell R) (ca cb : Shell.comp) (al be : R), 0 < al -> 0 < be ->
  gint3 (fun x y z => gprim sa al ca x y z * pd3 1 0 0 (gprim sb be cb) x y z)
        (mom_x_prim RK sa sb ca cb al be) /\
  gint3 (fun x y z => gprim sa al ca x y z * pd3 0 1 0 (gprim sb be cb) x y z)
        (mom_y_prim RK sa sb ca cb al be) /\
  gint3 (fun x y z => gprim sa al ca x y z * pd3 0 0 1 (gprim sb be cb) x y z)
        (mom_z_prim RK sa sb ca cb al be).
Proof. exact momentum_prim_3d_integral. Qed.
Print Assumptions BRIDGE3_momentum_prim_integral.

Theorem BRIDGE3_angmom_prim_integral :
  forall (sa sb : shell R) (ca cb : Shell.comp) (al be : R), 0 < al -> 0 < be ->
  gint3 (fun x y z => gprim sa al ca x y z
                      * (y * pd3 0 0 1 (gprim sb be cb) x y z - z * pd3 0 1 0 (gprim sb be cb) x y z))
        (ang_x_prim RK sa sb ca cb al be) /\
  gint3 (fun x y z => gprim sa al ca x y z
                      * (z * pd3 1 0 0 (gprim sb be cb) x y z - x * pd3 0 0 1 (gprim sb be cb) x y z))
        (ang_y_prim RK sa sb ca cb al be) /\
  gint3 (fun x y z => gprim sa al ca x y z
                      * (x * pd3 0 1 0 (gprim sb be cb) x y z - y * pd3 1 0 0 (gprim sb be cb) x y z))
        (ang_z_prim RK sa sb ca cb al be).
Proof. exact angmom_prim_3d_integral. Qed.
Print Assumptions BRIDGE3_angmom_prim_integral.

(* ---------------- block entries of the models ---------------- *)
Theorem BRIDGE3_cfun_is_contraction :
  forall (s : shell R) (m : nat) (c : Shell.comp) (x y z : R),
  cfun s m c x y z
  = FNum.fsum RK (Tables.mk (length (s_exps s)) (fun k =>
      (nth m (nth k (s_coeffs s) []) 0 * norm_prim RK (s_l s) c (nth k (s_exps s) 0))
      * gprim s (nth k (s_exps s) 0) c x y z)).
Proof. exact (fun s m c x y z => eq_refl). Qed.
Print Assumptions BRIDGE3_cfun_is_contraction.

Theorem BRIDGE3_derivative_of_contraction :
  forall (s : shell R) (m : nat) (c : Shell.comp) (ox oy oz : nat) (x y z : R),
  pd3 ox oy oz (cfun s m c) x y z
  = FNum.fsum RK (Tables.mk (length (s_exps s)) (fun k =>
      cw s m c k * pd3 ox oy oz (gprim s (nth k (s_exps s) 0) c) x y z)).
Proof. exact pd3_cfun. Qed.
Print Assumptions BRIDGE3_derivative_of_contraction.

Theorem BRIDGE3_overlap_block_is_integral :
  forall (sa sb : shell R) (ma ia mb ib : nat),
  wf_shell sa -> wf_shell sb -> pos_exps3 sa -> pos_exps3 sb ->
  (ma < nseg sa)%nat -> (ia < length (comps_of sa))%nat ->
  (mb < nseg sb)%nat -> (ib < length (comps_of sb))%nat ->
  gint3 (fun x y z => cfun sa ma (nth ia (comps_of sa) (0, 0, 0)%nat) x y z
                      * cfun sb mb (nth ib (comps_of sb) (0, 0, 0)%nat) x y z)
        (Overlap.nth4 RK ma ia mb ib (overlap_block RK sa sb)).
Proof. exact overlap_block_is_integral. Qed.
Print Assumptions BRIDGE3_overlap_block_is_integral.

Theorem BRIDGE3_mm_block_is_integral :
  forall (sa sb : shell R) (ma ia mb ib : nat),
  wf_shell sa -> wf_shell sb -> pos_exps3 sa -> pos_exps3 sb ->
  (ma < nseg sa)%nat -> (ia < length (comps_of sa))%nat ->
  (mb < nseg sb)%nat -> (ib < length (comps_of sb))%nat ->
  forall (Cx Cy Cz : R) (orders : list Shell.comp) (d : nat), (d < length orders)%nat ->
  let o := nth d orders (0, 0, 0)%nat in
  gint3 (fun x y z => (x - Cx) ^ cx o * (y - Cy) ^ cy o * (z - Cz) ^ cz o
                      * cfun sa ma (nth ia (comps_of sa) (0, 0, 0)%nat) x y z
                      * cfun sb mb (nth ib (comps_of sb) (0, 0, 0)%nat) x y z)
        (Overlap.nth4 RK ma ia mb ib (nth d (mm_block RK Cx Cy Cz orders sa sb) [])).
Proof. exact mm_block_is_integral. Qed.
Print Assumptions BRIDGE3_mm_block_is_integral.

Theorem BRIDGE3_diffop_block_is_integral :
  forall (sa sb : shell R) (ma ia mb ib : nat),
  wf_shell sa -> wf_shell sb -> pos_exps3 sa -> pos_exps3 sb ->
  (ma < nseg sa)%nat -> (ia < length (comps_of sa))%nat ->
  (mb < nseg sb)%nat -> (ib < length (comps_of sb))%nat ->
  forall (orders : list Shell.comp) (d : nat), (d < length orders)%nat ->
  let o := nth d orders (0, 0, 0)%nat in
  gint3 (fun x y z => cfun sa ma (nth ia (comps_of sa) (0, 0, 0)%nat) x y z
                      * pd3 (cx o) (cy o) (cz o) (cfun sb mb (nth ib (comps_of sb) (0, 0, 0)%nat)) x y z)
        (Overlap.nth4 RK ma ia mb ib (nth d (diffop_block RK orders sa sb) [])).
Proof. exact diffop_block_is_integral. Qed.
Print Assumptions BRIDGE3_diffop_block_is_integral.

Theorem BRIDGE3_kinetic_block_is_integral :
  forall (sa sb : shell R) (ma ia mb ib : nat),
  wf_shell sa -> wf_shell sb -> pos_exps3 sa -> pos_exps3 sb ->
  (ma < nseg sa)%nat -> (ia < length (comps_of sa))%nat ->
  (mb < nseg sb)%nat -> (ib < length (comps_of sb))%nat ->
  gint3 (fun x y z => cfun sa ma (nth ia (comps_of sa) (0, 0, 0)%nat) x y z
                      * (- (1 / 2) * lap3 (cfun sb mb (nth ib (comps_of sb) (0, 0, 0)%nat)) x y z))
        (Overlap.nth4 RK ma ia mb ib (kinetic_block RK sa sb)).
Proof. exact kinetic_block_is_integral. Qed.
Print Assumptions BRIDGE3_kinetic_block_is_integral.

Theorem BRIDGE3_momentum_block_is_integral :
  forall (sa sb : shell R) (ma ia mb ib : nat),
  wf_shell sa -> wf_shell sb -> pos_exps3 sa -> pos_exps3 sb ->
  (ma < nseg sa)%nat -> (ia < length (comps_of sa))%nat ->
  (mb < nseg sb)%nat -> (ib < length (comps_of sb))%nat ->
  let ca := nth ia (comps_of sa) (0, 0, 0)%nat in let cb := nth ib (comps_of sb) (0, 0, 0)%nat in
  let e := get4 [] ma ia mb ib (momentum_block_re RK sa sb) in
  gint3 (fun x y z => cfun sa ma ca x y z * pd3 1 0 0 (cfun sb mb cb) x y z) (nth 0 e 0) /\
  gint3 (fun x y z => cfun sa ma ca x y z * pd3 0 1 0 (cfun sb mb cb) x y z) (nth 1 e 0) /\
  gint3 (fun x y z => cfun sa ma ca x y z * pd3 0 0 1 (cfun sb mb cb) x y z) (nth 2 e 0).
Proof. exact momentum_block_is_integral. Qed.
Print Assumptions BRIDGE3_momentum_block_is_integral.

Theorem BRIDGE3_angmom_block_is_integral :
  forall (sa sb : shell R) (ma ia mb ib : nat),
  wf_shell sa -> wf_shell sb -> pos_exps3 sa -> pos_exps3 sb ->
  (ma < nseg sa)%nat -> (ia < length (comps_of sa))%nat ->
  (mb < nseg sb)%nat -> (ib < length (comps_of sb))%nat ->
  let ca := nth ia (comps_of sa) (0, 0, 0)%nat in let cb := nth ib (comps_of sb) (0, 0, 0)%nat in
  let e := get4 [] ma ia mb ib (angmom_block_re RK sa sb) in
  gint3 (fun x y z => cfun sa ma ca x y z
           * (y * pd3 0 0 1 (cfun sb mb cb) x y z - z * pd3 0 1 0 (cfun sb mb cb) x y z)) (nth 0 e 0) /\
  gint3 (fun x y z => cfun sa ma ca x y z
           * (z * pd3 1 0 0 (cfun sb mb cb) x y z - x * pd3 0 0 1 (cfun sb mb cb) x y z)) (nth 1 e 0) /\
  gint3 (fun x y z => cfun sa ma ca x y z
           * (x * pd3 0 1 0 (cfun sb mb cb) x y z - y * pd3 1 0 0 (cfun sb mb cb) x y z)) (nth 2 e 0).
Proof. exact angmom_block_is_integral. Qed.
Print Assumptions BRIDGE3_angmom_block_is_integral.

(* the hypotheses are satisfiable, a concrete instance, the normalisation *)
Example BRIDGE3_block_hypotheses_satisfiable :
  wf_shell ex_shell_d /\ wf_shell ex_shell_p /\ pos_exps3 ex_shell_d /\ pos_exps3 ex_shell_p /\
  (1 < nseg ex_shell_d)%nat /\ (4 < length (comps_of ex_shell_d))%nat /\
  (0 < nseg ex_shell_p)%nat /\ (2 < length (comps_of ex_shell_p))%nat.
Proof. exact block_hypotheses_satisfiable. Qed.
Print Assumptions BRIDGE3_block_hypotheses_satisfiable.

Example BRIDGE3_kinetic_block_instance :
  gint3 (fun x y z => cfun ex_shell_d 1 (0, 1, 1)%nat x y z
                      * (- (1 / 2) * lap3 (cfun ex_shell_p 0 (0, 0, 1)%nat) x y z))
        (Overlap.nth4 RK 1 4 0 2 (kinetic_block RK ex_shell_d ex_shell_p)).
Proof. exact kinetic_block_instance. Qed.
Print Assumptions BRIDGE3_kinetic_block_instance.

Example BRIDGE3_normalised_primitive :
  forall (s : shell R) (c : Shell.comp) (al : R), 0 < al -> (cx c + cy c + cz c)%nat = s_l s ->
  gint3 (fun x y z => (norm_prim RK (s_l s) c al * gprim s al c x y z)
                      * (norm_prim RK (s_l s) c al * gprim s al c x y z)) 1.
Proof. exact normalised_primitive. Qed.
Print Assumptions BRIDGE3_normalised_primitive.

