(* Props/C08.v — theorems backing property C08 (momentum / angular momentum). *)
From Coq Require Import List Arith.
From GB Require Import Base.Field Base.Tables Gauss.Moment1D Model.MomentInt Model.DiffOp
  Proofs.MomentIntP Proofs.DiffOpP.

(* first-derivative entry = integral of phi_a d/dx phi_b (value returned is -i times it) *)
Theorem C08_first_derivative_entry :
  forall (F : Type) (K : Fops F), is_field K ->
  forall (Ax Bx alpha beta : F) (la lb : nat),
  psum K alpha beta <> f0 K -> fadd K (f1 K) (f1 K) <> f0 K ->
  forall j i, j <= lb -> i <= la ->
  nth3 K 1 j i (dtable K Ax Bx alpha beta la lb 1)
  = Bop K beta (Sfun K Ax Bx alpha beta) i j.
Proof. exact (fun F K Kf Ax Bx alpha beta la lb Hp H2 j i Hj Hi =>
         diffop_slice_is_deriv_b K Kf Ax Bx alpha beta la lb 1 Hp H2 1 j i (le_n 1) Hj Hi). Qed.
Print Assumptions C08_first_derivative_entry.

(* anti-symmetry at the 1-D level: derivative acting on the right function = minus the
   derivative acting on the left one (so -i d/dx is Hermitian) *)
Theorem C08_derivative_antisymmetric :
  forall (F : Type) (K : Fops F), is_field K ->
  forall (Ax Bx alpha beta : F),
  psum K alpha beta <> f0 K -> fadd K (f1 K) (f1 K) <> f0 K ->
  forall i j, negA K alpha (Sfun K Ax Bx alpha beta) i j = Bop K beta (Sfun K Ax Bx alpha beta) i j.
Proof. exact (fun F K Kf Ax Bx alpha beta Hp H2 => ibp K Kf Ax Bx alpha beta Hp H2). Qed.
Print Assumptions C08_derivative_antisymmetric.

(* the 1-D integrals do not depend on which function is called "left" *)
Theorem C08_moment_swap :
  forall (F : Type) (K : Fops F), is_field K ->
  forall (v a b c : F) k i j, T3 K v a b c k i j = T3 K v b a c k j i.
Proof. exact (fun F K Kf v a b c => T3_swap K Kf v a b c). Qed.
Print Assumptions C08_moment_swap.
