(* Props/C15.v — theorems backing property C15 (stress tensor, Ehrenfest force and
   Ehrenfest Hessian obey their definitions).  Only statements closed by [exact] of a
   lemma proved elsewhere, each followed by Print Assumptions.

   Reading guide.  [dmodel K] packages: a commutative ring R (of functions of r) with
   operations K, the rationals inside it (m_inj), the parameters alpha beta, three
   derivations m_D AX/AY/AZ, nb basis functions with all their derivatives
   phi o a (D k (phi o a) = phi (o+e_k) a) and a constant symmetric matrix P;
   [dmodel_ok] are exactly those hypotheses.  m_G K M o1 o2 is the double sum
   sum_ab P_ab phi^o1_a phi^o2_b, i.e. what evaluate_deriv_reduced_density_matrix(o1,o2)
   returns; [m_eval K M c] is the value of the formal combination c.
   stress_doc / force_doc / hess_doc / hess_symm are the documented formulas
   (Model/Stress.v); trace_table is what the current source computes (Gen/StressTrace.v). *)
From Coq Require Import QArith Qcanon List Bool.
From GB Require Import Base.Field Base.Tables Gauss.Jets Model.Stress Proofs.StressP
  Gen.StressTrace Proofs.StressTraceP.
Import ListNotations.
Local Close Scope Qc_scope.
Local Close Scope Q_scope.
Local Open Scope nat_scope.

(* the symbols are the derivatives of the reduced density matrix and obey the product rule *)
Theorem C15_symbols_meaning :
  forall (R : Type) (K : Fops R), is_ring K -> forall M : dmodel K, dmodel_ok K M ->
  forall k o1 o2,
    m_G K M o1 o2 = sumn (f0 K) (fadd K) (m_nb M) (fun a => sumn (f0 K) (fadd K) (m_nb M)
                      (fun b => fmul K (fmul K (m_P M a b) (m_phi M o1 a)) (m_phi M o2 b)))
    /\ m_D M k (m_G K M o1 o2) = fadd K (m_G K M (osucc k o1) o2) (m_G K M o1 (osucc k o2))
    /\ m_G K M o1 o2 = m_G K M o2 o1.
Proof.
  exact (fun R K Kr M Mok k o1 o2 =>
    conj (G_is_double_sum K M o1 o2)
      (conj (G_product_rule K Kr M Mok k o1 o2)
            (Gphi_sym K Kr (m_nb M) (m_P M) (m_phi M) (ok_Psym K M Mok) o1 o2))).
Qed.
Print Assumptions C15_symbols_meaning.

(* sigma_ij = -alpha G(e_i,e_j) + (1-alpha) G(e_i+e_j,0) - delta_ij beta/2 lap(rho), rho = G(0,0) *)
Theorem C15_stress_formula :
  forall (R : Type) (K : Fops R), is_ring K -> forall M : dmodel K, dmodel_ok K M ->
  forall i j,
  m_eval K M (stress_doc i j)
  = fsub K (fadd K (fmul K (fopp K (m_alpha M)) (m_G K M (e_ i) (e_ j)))
                   (fmul K (fsub K (f1 K) (m_alpha M)) (m_G K M (oadd (e_ i) (e_ j)) o0)))
      (if aeqb i j then
         fmul K (fmul K (m_inj M qhalf) (m_beta M))
           (fadd K (fadd K (m_D M AX (m_D M AX (m_G K M o0 o0))) (m_D M AY (m_D M AY (m_G K M o0 o0))))
                   (m_D M AZ (m_D M AZ (m_G K M o0 o0))))
       else f0 K).
Proof. exact (fun R K Kr M Mok => stress_tensor_formula K Kr M Mok). Qed.
Print Assumptions C15_stress_formula.

(* the two displayed forms of the docstring agree (symmetric G) *)
Theorem C15_stress_forms_agree :
  forall (R : Type) (K : Fops R), is_ring K -> forall inj, is_qhom K inj ->
  forall (alpha beta : R) (G : order -> order -> R), (forall a b, G a b = G b a) ->
  forall i j, eval K inj alpha beta G (stress_doc1 i j) = eval K inj alpha beta G (stress_doc i j).
Proof. exact (fun R K Kr inj Hinj alpha beta G Gs => stress_forms_agree K Kr inj Hinj alpha beta G Gs). Qed.
Print Assumptions C15_stress_forms_agree.

Theorem C15_stress_symmetric :
  forall (R : Type) (K : Fops R), is_ring K -> forall M : dmodel K, dmodel_ok K M ->
  forall i j, m_eval K M (stress_doc i j) = m_eval K M (stress_doc j i).
Proof. exact (fun R K Kr M Mok => stress_symmetric K Kr M Mok). Qed.
Print Assumptions C15_stress_symmetric.

(* F_j (documented expanded formula) = - sum_i d/dr_i sigma_ij *)
Theorem C15_force_is_minus_div_stress :
  forall (R : Type) (K : Fops R), is_ring K -> forall M : dmodel K, dmodel_ok K M ->
  forall j,
  m_eval K M (force_doc j)
  = fopp K (fadd K (fadd K (m_D M AX (m_eval K M (stress_doc AX j))) (m_D M AY (m_eval K M (stress_doc AY j))))
                   (m_D M AZ (m_eval K M (stress_doc AZ j)))).
Proof. exact (fun R K Kr M Mok => force_is_minus_div_stress K Kr M Mok). Qed.
Print Assumptions C15_force_is_minus_div_stress.

(* H_jk (documented expanded formula) = d/dr_k F_j *)
Theorem C15_hessian_is_jacobian_of_force :
  forall (R : Type) (K : Fops R), is_ring K -> forall M : dmodel K, dmodel_ok K M ->
  forall j k, m_eval K M (hess_doc j k) = m_D M k (m_eval K M (force_doc j)).
Proof. exact (fun R K Kr M Mok => hessian_is_jacobian_of_force K Kr M Mok). Qed.
Print Assumptions C15_hessian_is_jacobian_of_force.

(* symmetric=True: half the sum with the transpose (1/2 + 1/2 = 1), and the result is symmetric *)
Theorem C15_hessian_symmetrised :
  forall (R : Type) (K : Fops R), is_ring K -> forall M : dmodel K, dmodel_ok K M ->
  forall j k,
  m_eval K M (hess_symm j k)
    = fmul K (m_inj M qhalf) (fadd K (m_eval K M (hess_doc j k)) (m_eval K M (hess_doc k j)))
  /\ fadd K (m_inj M qhalf) (m_inj M qhalf) = f1 K
  /\ m_eval K M (hess_symm j k) = m_eval K M (hess_symm k j).
Proof. exact (fun R K Kr M Mok => hessian_symmetrised_avg K Kr M Mok). Qed.
Print Assumptions C15_hessian_symmetrised.

(* at a special-cased parameter value the term the code skips has coefficient zero *)
Theorem C15_special_values :
  (forall b, csubst (Some (Q2Qc 0)) b c_al = czero)
  /\ (forall b, csubst (Some (Q2Qc 1)) b c_1mal = czero)
  /\ (forall b, csubst (Some qhalf) b c_1m2al = czero)
  /\ (forall a, csubst a (Some (Q2Qc 0)) c_hbe = czero).
Proof. exact (conj skip_alpha_0 (conj skip_alpha_1 (conj skip_alpha_half skip_beta_0))). Qed.
Print Assumptions C15_special_values.

(* what the current source computes (regenerated trace) is the documented formula, in each of
   the 8 parameter cases (the n-th case of [cases] / [trace_table]) and for every component *)
Theorem C15_code_computes_spec :
  forall (R : Type) (K : Fops R), is_ring K -> forall inj, is_qhom K inj ->
  forall (alpha beta : R) (G : order -> order -> R), (forall a b, G a b = G b a) ->
  forall n ab tc, nth_error cases n = Some ab -> nth_error trace_table n = Some tc ->
  (forall v, fst ab = Some v -> alpha = inj v) -> (forall v, snd ab = Some v -> beta = inj v) ->
  (forall m c s, nth_error (t_stress tc) m = Some c -> nth_error (tab2 stress_doc) m = Some s ->
     eval K inj alpha beta G c = eval K inj alpha beta G s)
  /\ (forall m c s, nth_error (t_force tc) m = Some c -> nth_error (tab1 force_doc) m = Some s ->
     eval K inj alpha beta G c = eval K inj alpha beta G s)
  /\ (forall m c s, nth_error (t_hess tc) m = Some c -> nth_error (tab2 hess_doc) m = Some s ->
     eval K inj alpha beta G c = eval K inj alpha beta G s)
  /\ (forall m c s, nth_error (t_hess_symm tc) m = Some c -> nth_error (tab2 hess_symm) m = Some s ->
     eval K inj alpha beta G c = eval K inj alpha beta G s)
  /\ length trace_table = length cases /\ length (t_stress tc) = 9 /\ length (t_force tc) = 3
  /\ length (t_hess tc) = 9 /\ length (t_hess_symm tc) = 9.
Proof.
  exact (fun R K Kr inj Hinj alpha beta G Gs n ab tc Hab Htc Ha Hb =>
           code_computes_spec K Kr inj Hinj alpha beta G Gs n ab tc Hab Htc Ha Hb).
Qed.
Print Assumptions C15_code_computes_spec.

(* the hypotheses are satisfiable (rationals, constant basis functions), and the decision
   procedure is not vacuous: it refutes symmetry of the unsymmetrised Hessian *)
Example C15_model_exists : is_ring exK /\ dmodel_ok exK exM.
Proof. exact (conj exKr exM_ok). Qed.
Print Assumptions C15_model_exists.
(* a model whose derivations do not vanish: dual numbers over Qc, phi = first-order germs of exponentials *)
Example C15_model_nontrivial :
  is_ring dualK /\ dmodel_ok dualK dualM /\ m_D dualM AX (m_phi dualM o0 0) <> f0 dualK.
Proof. exact (conj dualKr (conj dualM_ok dualM_nontrivial)). Qed.
Print Assumptions C15_model_nontrivial.
Example C15_equivb_separates : equivb (hess_doc AX AY) (hess_doc AY AX) = false.
Proof. exact hess_not_sym_example. Qed.
Print Assumptions C15_equivb_separates.
