(* Props/C16_integral.v — property C16 CLOSED over the real numbers: the entries of the overlap / multipole
   moment / kinetic-energy MODELS are the integrals over R^3 of (products of) the very functions whose values the
   evaluation MODEL returns.  Only statements closed by [exact] of a lemma of Proofs/SameFunRealP.v, each
   followed by Print Assumptions.  Props/C16.v (generic field) left the integral step as a hypothesis on an
   abstract linear functional; here it is discharged with Gauss/Bridge3D.v (Props/BRIDGE_3d.v).

   RK            the number interface at R (real sqrt, exp, PI) of Proofs/ScreeningP.v
   gint3 F l     the ITERATED improper Riemann integral of F : R -> R -> R -> R exists and equals l
                 (Props/BRIDGE_3d.v, BRIDGE3_gint3_meaning); its identification with the Lebesgue integral
                 over R^3 (Fubini-Tonelli for polynomial x Gaussian) is the one step left outside Coq
   pd3 ox oy oz G x y z, lap3 G x y z   mixed partial derivative / Laplacian of G by Coquelicot's Derive_n
   bfun basis I x y z    := entry [I][0] of evaluate_basis_model RK basis [(x,y,z)] None
   bdfun basis o I x y z := entry [I][0] of evaluate_deriv_basis_model RK basis [(x,y,z)] o None General
   dfun d x y z          := eval_spec RK d (x,y,z), d a function descriptor of Props/C16.v
   cfun s m c            the contracted function sum_k coeff[k][m] norm_prim(alpha_k, c) prim_k of Gauss/Bridge3D.v
   oidx basis k m q      position of (shell k, segment m, component / spherical row q)  (Props/C01_assembled.v)
   All statements hold for EVERY basis of well-formed shells — Cartesian, spherical, mixed; any angular
   momentum, contraction length, number of segments — with positive exponents; there is no bound. *)
From Coq Require Import List Reals.
From Coquelicot Require Import Coquelicot.
From GB Require Import Base.Field Base.FNum Base.Tables Model.Shell Model.MomentInt Model.Spherical
  Model.Assembly Model.Overlap Model.DiffOp Model.OneBody Model.Eval
  Proofs.CoreSumP Proofs.CoreBlockP Proofs.ScreeningP Gauss.BridgeR Gauss.Bridge3D Proofs.SameFunP
  Proofs.SameFunRealP.
From GB Require Proofs.AssembledP Proofs.AssembledSphP.
Import ListNotations.
Open Scope R_scope.

(* what the symbols stand for (by definition) *)
Theorem C16R_unfold :
  forall (basis : list (shell R)) (o : Shell.comp) (I : nat) (x y z : R) (d : @fdesc R),
  bfun basis I x y z = nth 0 (nth I (evaluate_basis_model RK basis [(x, y, z)] None) []) 0
  /\ bdfun basis o I x y z
     = match evaluate_deriv_basis_model RK basis [(x, y, z)] o None General with
       | Some m => nth 0 (nth I m []) 0 | None => 0 end
  /\ dfun d x y z = eval_spec RK d (x, y, z)
  /\ nfun basis = length (descr_basis RK basis)
  /\ (pos_basis basis <-> forall s, In s basis -> forall a, In a (s_exps s) -> 0 < a).
Proof. exact closed_unfold. Qed.
Print Assumptions C16R_unfold.

(* ---- (b) the closed theorems on the models ---- *)
Theorem C16_closed_overlap :
  forall basis : list (shell R), List.Forall shell_wf basis -> pos_basis basis ->
  forall I J : nat, (I < nfun basis)%nat -> (J < nfun basis)%nat ->
  gint3 (fun x y z => bfun basis I x y z * bfun basis J x y z)
        (nth J (nth I (overlap_integral RK basis None) []) 0).
Proof. exact closed_overlap. Qed.
Print Assumptions C16_closed_overlap.

Theorem C16_closed_kinetic :
  forall basis : list (shell R), List.Forall shell_wf basis -> pos_basis basis ->
  forall I J : nat, (I < nfun basis)%nat -> (J < nfun basis)%nat ->
  gint3 (fun x y z => bfun basis I x y z * (- (1 / 2) * lap3 (bfun basis J) x y z))
        (nth J (nth I (kinetic_integral RK basis None) []) 0).
Proof. exact closed_kinetic. Qed.
Print Assumptions C16_closed_kinetic.

(* the same with the second derivatives taken from the derivative MODEL *)
Theorem C16_closed_kinetic_models :
  forall basis : list (shell R), List.Forall shell_wf basis -> pos_basis basis ->
  forall I J : nat, (I < nfun basis)%nat -> (J < nfun basis)%nat ->
  gint3 (fun x y z => bfun basis I x y z
                      * (- (1 / 2) * (bdfun basis (2, 0, 0)%nat J x y z + bdfun basis (0, 2, 0)%nat J x y z
                                      + bdfun basis (0, 0, 2)%nat J x y z)))
        (nth J (nth I (kinetic_integral RK basis None) []) 0).
Proof. exact closed_kinetic_models. Qed.
Print Assumptions C16_closed_kinetic_models.

Theorem C16_closed_moment :
  forall basis : list (shell R), List.Forall shell_wf basis -> pos_basis basis ->
  forall I J : nat, (I < nfun basis)%nat -> (J < nfun basis)%nat ->
  forall (Cx Cy Cz : R) (orders : list Shell.comp) (d : nat), (d < length orders)%nat ->
  let o := nth d orders (0, 0, 0)%nat in
  gint3 (fun x y z => (x - Cx) ^ SameFunP.cx o * (y - Cy) ^ SameFunP.cy o * (z - Cz) ^ SameFunP.cz o
                      * bfun basis I x y z * bfun basis J x y z)
        (nth d (nth J (nth I (moment_integral RK Cx Cy Cz orders basis None) []) []) 0).
Proof. exact closed_moment. Qed.
Print Assumptions C16_closed_moment.

(* the derivative model returns the partial derivatives of the function the evaluation model returns *)
Theorem C16_closed_deriv_model :
  forall (basis : list (shell R)) (ox oy oz I : nat) (x y z : R),
  List.Forall shell_wf basis -> (I < nfun basis)%nat ->
  bdfun basis (ox, oy, oz) I x y z = pd3 ox oy oz (bfun basis I) x y z.
Proof. exact closed_deriv_model. Qed.
Print Assumptions C16_closed_deriv_model.

Theorem C16_matrix_size :
  forall basis : list (shell R), List.Forall shell_wf basis -> pos_basis basis ->
  length (overlap_integral RK basis None) = nfun basis.
Proof. exact overlap_length. Qed.
Print Assumptions C16_matrix_size.

(* ---- the same at the level of two arbitrary function descriptors (spherical combinations included) ---- *)
Theorem C16_pairing_is_integral :
  forall d1 d2 : @fdesc R, pos_desc d1 -> pos_desc d2 ->
  gint3 (fun x y z => dfun d1 x y z * dfun d2 x y z) (pair_spec RK (Iov RK) d1 d2)
  /\ gint3 (fun x y z => dfun d1 x y z * (- (1 / 2) * lap3 (dfun d2) x y z)) (pair_spec RK (Ikin RK) d1 d2)
  /\ forall Cx Cy Cz (o : Shell.comp),
     gint3 (fun x y z => (x - Cx) ^ SameFunP.cx o * (y - Cy) ^ SameFunP.cy o * (z - Cz) ^ SameFunP.cz o
                         * dfun d1 x y z * dfun d2 x y z)
           (pair_spec RK (Imom RK Cx Cy Cz o) d1 d2).
Proof. exact pairing_is_integral. Qed.
Print Assumptions C16_pairing_is_integral.

Theorem C16_deriv_spec_is_derivative :
  forall (d : @fdesc R) (ox oy oz : nat) (x y z : R),
  deriv_spec RK (ox, oy, oz) d (x, y, z) = pd3 ox oy oz (dfun d) x y z.
Proof. exact deriv_spec_is_derivative. Qed.
Print Assumptions C16_deriv_spec_is_derivative.

(* (B1) for one pair of primitives — the hypothesis of Props/C16.v C16_integral_of_product, now a theorem *)
Theorem C16_primitive_pair_integrals :
  forall g1 g2 : @SameFunP.gprim R, 0 < g_a g1 -> 0 < g_a g2 ->
  gint3 (fun x y z => dval RK (0, 0, 0)%nat g1 (x, y, z) * dval RK (0, 0, 0)%nat g2 (x, y, z)) (Iov RK g1 g2)
  /\ gint3 (fun x y z => gfun g1 x y z * gfun g2 x y z) (Iov RK g1 g2)
  /\ gint3 (fun x y z => gfun g1 x y z * (- (1 / 2) * lap3 (gfun g2) x y z)) (Ikin RK g1 g2)
  /\ forall x y z, dval RK (0, 0, 0)%nat g1 (x, y, z) = gfun g1 x y z
                   /\ gfun g1 x y z = cprim (g_a g1) (g_x g1) (g_y g1) (g_z g1) (g_c g1) x y z.
Proof. exact primitive_pair_integrals. Qed.
Print Assumptions C16_primitive_pair_integrals.

(* ---- (a) the evaluated functions are the contracted functions of Gauss/Bridge3D.v ---- *)
Theorem C16_descriptor_is_contracted_function :
  forall (s : shell R) (m ic : nat) (x y z : R), wf_coeffs s ->
  eval_spec RK (cart_desc RK s m ic) (x, y, z)
  = nth ic (nth m (norm_cont RK s) []) 0 * cfun s m (nth ic (comps_of s) (0, 0, 0)%nat) x y z.
Proof. exact cart_desc_is_cfun. Qed.
Print Assumptions C16_descriptor_is_contracted_function.

Theorem C16_eval_model_cartesian_function :
  forall (basis : list (shell R)) (k m c : nat) (x y z : R),
  List.Forall shell_wf basis -> (k < length basis)%nat ->
  let s := AssembledP.sh_at RK basis k in
  wf_coeffs s -> s_sph s = false -> (m < nseg s)%nat -> (c < length (comps_of s))%nat ->
  bfun basis (AssembledSphP.oidx RK basis k m c) x y z
  = AssembledP.ncont RK s m c * cfun s m (nth c (comps_of s) (0, 0, 0)%nat) x y z.
Proof. exact bfun_cart. Qed.
Print Assumptions C16_eval_model_cartesian_function.

Theorem C16_eval_model_spherical_function :
  forall (basis : list (shell R)) (k m q : nat) (x y z : R),
  List.Forall shell_wf basis -> (k < length basis)%nat ->
  let s := AssembledP.sh_at RK basis k in
  wf_coeffs s -> s_sph s = true -> (m < nseg s)%nat -> (q < length (labels_of s))%nat ->
  bfun basis (AssembledSphP.oidx RK basis k m q) x y z
  = FNum.fsum RK (map (fun p : R * nat =>
        fst p * (AssembledP.ncont RK s m (snd p) * cfun s m (nth (snd p) (comps_of s) (0, 0, 0)%nat) x y z))
      (combine (nth q (shell_transform RK s) []) (seq 0 (length (comps_of s))))).
Proof. exact bfun_sph. Qed.
Print Assumptions C16_eval_model_spherical_function.

(* position of a function in the descriptor list = output index map of the assembled matrices *)
Theorem C16_descriptor_position :
  forall (basis : list (shell R)) (k m q : nat),
  (k < length basis)%nat -> (m < nseg (AssembledP.sh_at RK basis k))%nat ->
  (q < AssembledSphP.osize (AssembledP.sh_at RK basis k))%nat ->
  nth (AssembledSphP.oidx RK basis k m q) (descr_basis RK basis) [] = dd RK (AssembledP.sh_at RK basis k) m q
  /\ (AssembledSphP.oidx RK basis k m q < nfun basis)%nat.
Proof. exact descr_basis_nth. Qed.
Print Assumptions C16_descriptor_position.

(* (b) for two Cartesian shells, written with the contracted functions whose iterated integrals are the block
   entries in Props/BRIDGE_3d.v: assembled entry = integral of the product of the NORMALISED functions *)
Theorem C16_closed_overlap_cartesian :
  forall (basis : list (shell R)) (k m c k' m' c' : nat),
  List.Forall shell_wf basis -> pos_basis basis -> (k < length basis)%nat -> (k' < length basis)%nat ->
  let s := AssembledP.sh_at RK basis k in let s' := AssembledP.sh_at RK basis k' in
  wf_coeffs s -> wf_coeffs s' -> s_sph s = false -> s_sph s' = false ->
  (m < nseg s)%nat -> (c < length (comps_of s))%nat -> (m' < nseg s')%nat -> (c' < length (comps_of s'))%nat ->
  gint3 (fun x y z => (AssembledP.ncont RK s m c * cfun s m (nth c (comps_of s) (0, 0, 0)%nat) x y z)
                      * (AssembledP.ncont RK s' m' c' * cfun s' m' (nth c' (comps_of s') (0, 0, 0)%nat) x y z))
        (nth (AssembledSphP.oidx RK basis k' m' c')
             (nth (AssembledSphP.oidx RK basis k m c) (overlap_integral RK basis None) []) 0).
Proof. exact closed_overlap_cart. Qed.
Print Assumptions C16_closed_overlap_cartesian.

(* ---- the hypotheses are satisfiable: Cartesian generalized d shell (K = 2, M = 2) + spherical p shell ---- *)
Example C16_closed_hypotheses_satisfiable :
  List.Forall shell_wf ex_basis_c16 /\ pos_basis ex_basis_c16 /\ nfun ex_basis_c16 = 15%nat.
Proof. exact closed_hypotheses_satisfiable. Qed.
Print Assumptions C16_closed_hypotheses_satisfiable.

Example C16_closed_overlap_instance :
  gint3 (fun x y z => bfun ex_basis_c16 13 x y z * bfun ex_basis_c16 4 x y z)
        (nth 4 (nth 13 (overlap_integral RK ex_basis_c16 None) []) 0).
Proof. exact closed_overlap_instance. Qed.
Print Assumptions C16_closed_overlap_instance.
