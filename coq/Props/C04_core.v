(* Props/C04_core.v — the deep theorems behind property C04 (electron-repulsion integrals exact):
   the recursions of Model/TwoElec.v (transcribing gbasis/integrals/_two_elec_int.py) compute, for ALL
   angular momenta, exponents, centres and contraction shapes, the quantity

        N_a N_b N_c N_d  Sum_{primitive quartets} w w w w  Phi_0 ( Prod_{x,y,z} M4_axis(s) )

   where Phi_0 : s^k |-> beta_k is the linear functional given by the numbers the code puts in
   integrals[m] (beta_m = pref * F_m(rho |PQ|^2): ANY sequence, no property of the Boys function is used)
   and M4_axis(s) is the bivariate Gaussian moment
        E[(y1 + a1)^a (y1 + a1 + AB)^b (y2 + c1)^c (y2 + c1 + CD)^d]
   with covariance Sigma11 = (1 - s rho/p)/(2p), Sigma12 = s/(2(p+q)), Sigma22 = (1 - s rho/q)/(2q) and
   means a1 = PA - s (rho/p) PQ, c1 = QC + s (rho/q) PQ (DESIGN.md 2.4) defined by Wick's recursion
   (Gauss/Wick2D.v).  What ties "Phi_0 of the s-polynomial" to the six-dimensional integral is the analytic
   bridge (B1)-(B2) of DESIGN.md 2.6 (trusted, outside Coq).

   Every theorem is over an arbitrary field (Fops + field_theory hypothesis); all are closed under the
   global context.  Only `Theorem ... Proof. exact lemma. Qed.` + `Print Assumptions`, and `Example`s
   showing that the hypotheses are satisfiable (at Qc). *)
From Coq Require Import List Arith ZArith.
From GB Require Import Base.Field Base.FNum Base.Tables Gauss.Moment1D Gauss.SPoly Gauss.Wick2D
  Model.Shell Model.OneElec Model.TwoElec Proofs.TwoElecP.
Import ListNotations.

(* ------------------------------------------------------------------------------------------------ *)
(* 1. Bivariate Gaussian moments (spec)                                                              *)
(* ------------------------------------------------------------------------------------------------ *)

(* The family M is DEFINED by the rule that raises the first exponent (wick_first_rule) and the
   univariate recursion for M 0 k.  The rule for the second variable is a theorem (all i, k): *)
Theorem C04_wick_first_rule :
  forall (F : Type) (K : Fops F), is_field K ->
  forall (a1 c1 s11 s12 s22 : F) (i k : nat),
  M K a1 c1 s11 s12 s22 (S i) k
  = fadd K (fadd K (fmul K a1 (M K a1 c1 s11 s12 s22 i k))
                   (fmul K s11 (lo K i (fun i' => M K a1 c1 s11 s12 s22 i' k))))
           (fmul K s12 (lo K k (M K a1 c1 s11 s12 s22 i))).
Proof. exact (fun F K Kf => wick_first_rule K Kf). Qed.
Print Assumptions C04_wick_first_rule.

Theorem C04_wick_second_rule :
  forall (F : Type) (K : Fops F), is_field K ->
  forall (a1 c1 s11 s12 s22 : F) (i k : nat),
  M K a1 c1 s11 s12 s22 i (S k)
  = fadd K (fadd K (fmul K c1 (M K a1 c1 s11 s12 s22 i k))
                   (fmul K s22 (lo K k (M K a1 c1 s11 s12 s22 i))))
           (fmul K s12 (lo K i (fun i' => M K a1 c1 s11 s12 s22 i' k))).
Proof. exact (fun F K Kf => wick_second_rule K Kf). Qed.
Print Assumptions C04_wick_second_rule.

(* symmetry under exchanging the roles of the two electrons *)
Theorem C04_wick_swap :
  forall (F : Type) (K : Fops F), is_field K ->
  forall (a1 c1 s11 s12 s22 : F) (i k : nat),
  M K a1 c1 s11 s12 s22 i k = M K c1 a1 s22 s12 s11 k i.
Proof. exact (fun F K Kf => M_swap K Kf). Qed.
Print Assumptions C04_wick_swap.

(* the two rules and M 0 0 = 1 determine the family *)
Theorem C04_wick_unique :
  forall (F : Type) (K : Fops F), is_field K ->
  forall (a1 c1 s11 s12 s22 : F) (N : nat -> nat -> F),
  N 0 0 = f1 K ->
  (forall k, N 0 (S k) = fadd K (fmul K c1 (N 0 k)) (fmul K s22 (lo K k (N 0)))) ->
  (forall i k, N (S i) k = fadd K (fadd K (fmul K a1 (N i k)) (fmul K s11 (lo K i (fun i' => N i' k))))
                                  (fmul K s12 (lo K k (N i)))) ->
  forall i k, N i k = M K a1 c1 s11 s12 s22 i k.
Proof. exact (fun F K Kf => M_unique K Kf). Qed.
Print Assumptions C04_wick_unique.

(* the marginals are the one-dimensional Gaussian moments of Gauss/Moment1D.v (explicit moments
   (n-1)!! v^(n/2) of the centred Gaussian, shifted by the mean) *)
Theorem C04_wick_marginal_first :
  forall (F : Type) (K : Fops F), is_field K ->
  forall (a1 c1 s11 s12 s22 : F) (i : nat),
  M K a1 c1 s11 s12 s22 i 0 = S3 K s11 a1 (f0 K) (f0 K) 0 0 i 0.
Proof. exact (fun F K Kf a1 c1 s11 s12 s22 i => proj1 (M_i0 K Kf a1 c1 s11 s12 s22 i)). Qed.
Print Assumptions C04_wick_marginal_first.

Theorem C04_wick_marginal_second :
  forall (F : Type) (K : Fops F), is_field K ->
  forall (a1 c1 s11 s12 s22 : F) (k : nat),
  M K a1 c1 s11 s12 s22 0 k = S3 K s22 c1 (f0 K) (f0 K) 0 0 k 0.
Proof. exact (fun F K Kf a1 c1 s11 s12 s22 k => proj1 (M_0k K Kf a1 c1 s11 s12 s22 k)). Qed.
Print Assumptions C04_wick_marginal_second.

(* ------------------------------------------------------------------------------------------------ *)
(* 2. Electron transfer, per s  (_two_elec_int.py:413-526)                                           *)
(* ------------------------------------------------------------------------------------------------ *)

(* For every s the exact per-axis integrand Ms s a c (covariance/means above) satisfies the relation
   the code uses; the s-dependent terms cancel.  All a, c. *)
Theorem C04_etransfer_correct :
  forall (F : Type) (K : Fops F), is_field K ->
  forall p q PA QC PQ : F,
  p <> f0 K -> q <> f0 K -> fadd K p q <> f0 K -> fadd K (f1 K) (f1 K) <> f0 K ->
  forall (s : F) (a c : nat),
  Ms K p q PA QC PQ s a (S c)
  = fsub K
      (fadd K
        (fadd K (fmul K (fadd K QC (fmul K (fdiv K p q) PA)) (Ms K p q PA QC PQ s a c))
                (fmul K (fdiv K (ofnat K a) (fmul K (fadd K (f1 K) (f1 K)) q)) (Ms K p q PA QC PQ s (a - 1) c)))
        (fmul K (fdiv K (ofnat K c) (fmul K (fadd K (f1 K) (f1 K)) q)) (Ms K p q PA QC PQ s a (c - 1))))
      (fmul K (fdiv K p q) (Ms K p q PA QC PQ s (S a) c)).
Proof. exact (fun F K Kf => etransfer_correct K Kf). Qed.
Print Assumptions C04_etransfer_correct.

(* ------------------------------------------------------------------------------------------------ *)
(* 3. Vertical recursion with auxiliary index m  (_two_elec_int.py:335-399)                          *)
(* ------------------------------------------------------------------------------------------------ *)

(* the entry (a, m) of the recursion V[m][a+1] = PA V[m][a] - pcw V[m+1][a] + a v (V[m][a-1] - w V[m+1][a-1])
   is Phi_m of a polynomial in s, for ANY starting sequence beta *)
Theorem C04_vrr2_entry_is_Phi :
  forall (F : Type) (K : Fops F), is_field K ->
  forall (pa pcw v w : F) (beta : nat -> F) (a m : nat),
  Vf2 K pa pcw v w beta a m = Phi K beta m (Pw K pa pcw v w a).
Proof. exact (fun F K Kf => vrr2_entry_is_Phi K Kf). Qed.
Print Assumptions C04_vrr2_entry_is_Phi.

(* ... whose value at every s is the marginal moment Ms s a 0 = E[(y1 + PA - s (rho/p) PQ)^a],
   variance (1 - s rho/p)/(2p) *)
Theorem C04_vrr2_polynomial_is_moment :
  forall (F : Type) (K : Fops F), is_field K ->
  forall p q PA QC PQ : F, p <> f0 K -> fadd K (f1 K) (f1 K) <> f0 K ->
  forall (a : nat) (s : F),
  peval K (Pw K PA (fmul K (fdiv K (rho K p q) p) PQ) (fdiv K (f1 K) (fmul K (fadd K (f1 K) (f1 K)) p))
              (fdiv K (rho K p q) p) a) s
  = Ms K p q PA QC PQ s a 0.
Proof. exact (fun F K Kf => Pw_is_moment K Kf). Qed.
Print Assumptions C04_vrr2_polynomial_is_moment.

(* precise relation with the one-electron recursion of Gauss/SPoly.v (property C03): with w = rho/p,
   w^m V2[m][a] is the one-electron table Vf built from the rescaled sequence w^m beta_m and pc := PQ *)
Theorem C04_vrr2_is_rescaled_one_electron_vrr :
  forall (F : Type) (K : Fops F), is_field K ->
  forall (pa pq v w : F) (beta : nat -> F) (a m : nat),
  fmul K (fpow K w m) (Vf2 K pa (fmul K w pq) v w beta a m)
  = Vf K pa pq v (fun m => fmul K (fpow K w m) (beta m)) a m.
Proof. exact (fun F K Kf pa pq v w beta a m => proj1 (Vf2_via_SPoly K Kf pa pq v w beta a m)). Qed.
Print Assumptions C04_vrr2_is_rescaled_one_electron_vrr.

(* validity region: the entry (a, m) reads beta only at m .. m + a *)
Theorem C04_vrr2_locality :
  forall (F : Type) (K : Fops F) (pa pcw v w : F) (b1 b2 : nat -> F) (a m : nat),
  (forall k, k <= a -> b1 (m + k) = b2 (m + k)) ->
  Vf2 K pa pcw v w b1 a m = Vf2 K pa pcw v w b2 a m.
Proof. exact (fun F K => Vf2_local K). Qed.
Print Assumptions C04_vrr2_locality.

(* ------------------------------------------------------------------------------------------------ *)
(* 4. The tables of the model inside their validity regions                                          *)
(* ------------------------------------------------------------------------------------------------ *)

(* vpass2 (rows over m of channel vectors): entry (a, m, ch) = abstract recursion, for m + a <= L
   (row m = L is never written by the code: outside the region the table holds zeros/garbage) *)
Theorem C04_vpass2_entry :
  forall (F : Type) (K : Fops F), is_field K ->
  forall (L n : nat) (pa pcw twop w : F) (v0 : list (list F)),
  (forall m, m <= L -> length (nth m v0 []) = n) ->
  forall a m ch, m + a <= L -> ch < n ->
  nth ch (nth m (nth a (vpass2 K L pa pcw twop w v0) []) []) (f0 K)
  = Vf2 K pa pcw (fdiv K (f1 K) twop) w (chan K v0 ch) a m.
Proof. exact (fun F K Kf => vpass2_entry K Kf). Qed.
Print Assumptions C04_vpass2_entry.

(* the three passes of vrr2_cube (x, then y for every ax, then z for every ax, ay; flattened layout) *)
Theorem C04_vrr2_cube_entry :
  forall (F : Type) (K : Fops F), is_field K ->
  forall (L : nat) (pax pay paz pqx pqy pqz twop w : F) (base : nat -> F) (ax ay az : nat),
  ax + ay + az <= L ->
  cget K (vrr2_cube K L pax pay paz pqx pqy pqz twop w base) ax ay az
  = V3g K pax pay paz pqx pqy pqz twop w base ax ay az 0.
Proof. exact (fun F K Kf => vrr2_cube_entry K Kf). Qed.
Print Assumptions C04_vrr2_cube_entry.

(* tpass along any axis: the column idx = L is never written; entry = abstract transfer recursion on
   idx + c <= L *)
Theorem C04_tpass_entry :
  forall (F : Type) (K : Fops F), is_field K ->
  forall (L Lc axis : nat) (coef twoq r : F) (t : cube) (c x y z : nat),
  c <= Lc -> x <= L -> y <= L -> z <= L -> idx axis x y z + c <= L ->
  cget K (nth c (tpass K L Lc axis coef twoq r t) []) x y z
  = ETf K coef twoq r (line K axis t x y z) c (idx axis x y z).
Proof. exact (fun F K Kf => tpass_entry K Kf). Qed.
Print Assumptions C04_tpass_entry.

(* hiter (Model/OneElec.v) along any axis: entry = abstract horizontal recursion on idx + b <= L *)
Theorem C04_hiter_entry :
  forall (F : Type) (K : Fops F) (L axis : nat) (ab : F) (t0 : cube) (n b x y z : nat),
  b <= n -> x <= L -> y <= L -> z <= L -> idx axis x y z + b <= L ->
  cget K (nth b (hiter K L axis ab n t0) []) x y z
  = Hf K ab (line K axis t0 x y z) b (idx axis x y z).
Proof. exact (fun F K => hiter_entry K). Qed.
Print Assumptions C04_hiter_entry.

(* horizontal recursion = binomial expansion of (x - B)^b = ((x - A) + AB)^b *)
Theorem C04_hrr_binomial :
  forall (F : Type) (K : Fops F), is_field K ->
  forall (ab : F) (T : nat -> F) (b a : nat),
  Hf K ab T b a
  = sumn (f0 K) (fadd K) (S b) (fun k => fmul K (fmul K (binF K b k) (fpow K ab (b - k))) (T (a + k))).
Proof. exact (fun F K Kf => hrr_binomial K Kf). Qed.
Print Assumptions C04_hrr_binomial.

(* ------------------------------------------------------------------------------------------------ *)
(* 5. Primitive [a0|c0] integrals of the model: all (a, c) with |a| + |c| <= L                       *)
(* ------------------------------------------------------------------------------------------------ *)

(* abstract statement (functions of the indices): VRR along x, y, z then transfer along x, y, z *)
Theorem C04_eri_3d_correct :
  forall (F : Type) (K : Fops F), is_field K ->
  forall p q PAx PAy PAz QCx QCy QCz PQx PQy PQz : F,
  p <> f0 K -> q <> f0 K -> fadd K p q <> f0 K -> fadd K (f1 K) (f1 K) <> f0 K ->
  forall (beta : nat -> F) (cx cy cz ax ay az : nat),
  E3 K p q PAx PAy PAz QCx QCy QCz
     (fun ax0 ay0 az0 => V3 K p q PAx PAy PAz PQx PQy PQz beta ax0 ay0 az0 0) cx cy cz ax ay az
  = Phi K beta 0 (R3 K p q PAx PAy PAz QCx QCy QCz PQx PQy PQz cx cy cz ax ay az)
  /\ (forall s : F,
      peval K (R3 K p q PAx PAy PAz QCx QCy QCz PQx PQy PQz cx cy cz ax ay az) s
      = fmul K (fmul K (Ms K p q PAx QCx PQx s ax cx) (Ms K p q PAy QCy PQy s ay cy))
               (Ms K p q PAz QCz PQz s az cz)).
Proof. exact (fun F K Kf => eri_3d_correct K Kf). Qed.
Print Assumptions C04_eri_3d_correct.

(* the table eri_prim of the model (list level, with the validity region of the NumPy arrays) *)
Theorem C04_eri_prim_correct :
  forall (F : Type) (K : Fops F), is_field K ->
  forall (Ax Ay Az Bx By Bz Cx Cy Cz Dx Dy Dz alpha beta gamma delta : F) (L Lc cx cy cz ax ay az : nat),
  let p := fadd K alpha beta in let q := fadd K gamma delta in
  let Px := fdiv K (fadd K (fmul K alpha Ax) (fmul K beta Bx)) p in
  let Py := fdiv K (fadd K (fmul K alpha Ay) (fmul K beta By)) p in
  let Pz := fdiv K (fadd K (fmul K alpha Az) (fmul K beta Bz)) p in
  let Qx := fdiv K (fadd K (fmul K gamma Cx) (fmul K delta Dx)) q in
  let Qy := fdiv K (fadd K (fmul K gamma Cy) (fmul K delta Dy)) q in
  let Qz := fdiv K (fadd K (fmul K gamma Cz) (fmul K delta Dz)) q in
  p <> f0 K -> q <> f0 K -> fadd K p q <> f0 K -> fadd K (f1 K) (f1 K) <> f0 K ->
  cx <= Lc -> cy <= Lc -> cz <= Lc -> ax + ay + az + cx + cy + cz <= L ->
  let R := R3 K p q (fsub K Px Ax) (fsub K Py Ay) (fsub K Pz Az) (fsub K Qx Cx) (fsub K Qy Cy) (fsub K Qz Cz)
              (fsub K Px Qx) (fsub K Py Qy) (fsub K Pz Qz) cx cy cz ax ay az in
  eget K (eri_prim K L Lc (Ax, Ay, Az) (Bx, By, Bz) (Cx, Cy, Cz) (Dx, Dy, Dz) alpha beta gamma delta)
       cx cy cz ax ay az
  = Phi K (eri_base K Ax Ay Az Bx By Bz Cx Cy Cz Dx Dy Dz alpha beta gamma delta) 0 R
  /\ (forall s : F,
      peval K R s
      = fmul K (fmul K (Ms K p q (fsub K Px Ax) (fsub K Qx Cx) (fsub K Px Qx) s ax cx)
                       (Ms K p q (fsub K Py Ay) (fsub K Qy Cy) (fsub K Py Qy) s ay cy))
               (Ms K p q (fsub K Pz Az) (fsub K Qz Cz) (fsub K Pz Qz) s az cz)).
Proof. exact (fun F K Kf => eri_prim_correct K Kf). Qed.
Print Assumptions C04_eri_prim_correct.

(* the all-s closed form (_two_elec_int.py:8-145) is the general path at L = 0 *)
Theorem C04_all_s_closed_form :
  forall (F : Type) (K : Fops F) (A B C D : F * F * F) (alpha beta gamma delta : F),
  eri_prim K 0 0 A B C D alpha beta gamma delta
  = [[[ [[[ fapx K (fmul K (eri_pref K A B C D alpha beta gamma delta)
                           (fboys K 0 (eri_T K A B C D alpha beta gamma delta))) ]]] ]]].
Proof. exact (fun F K => all_s_closed_form K). Qed.
Print Assumptions C04_all_s_closed_form.

(* ------------------------------------------------------------------------------------------------ *)
(* 6. The whole block: contraction, two horizontal recursions, component selection, normalisation    *)
(* ------------------------------------------------------------------------------------------------ *)

(* horizontal recursions on (c,d) then (a,b) of a six-index table, as the model's eri_channel does *)
Theorem C04_eri_channel_entry :
  forall (F : Type) (K : Fops F) (La Lc lb ld : nat) (abx aby abz cdx cdy cdz : F)
         (comps3 comps4 : list comp) (getc : nat -> nat -> nat -> nat -> nat -> nat -> F)
         (i3 i4 bx by_ bz ax ay az : nat),
  i3 < length comps3 -> i4 < length comps4 ->
  let c3 := nth i3 comps3 (0, 0, 0) in let c4 := nth i4 comps4 (0, 0, 0) in
  let cx := fst (fst c3) in let cy := snd (fst c3) in let cz := snd c3 in
  let dx := fst (fst c4) in let dy := snd (fst c4) in let dz := snd c4 in
  dx <= ld -> dy <= ld -> dz <= ld -> cx + dx <= Lc -> cy + dy <= Lc -> cz + dz <= Lc ->
  bx <= lb -> by_ <= lb -> bz <= lb -> ax + bx <= La -> ay + by_ <= La -> az + bz <= La ->
  cget K (nth bz (nth by_ (nth bx (nth i4 (nth i3
     (eri_channel K La Lc lb ld abx aby abz cdx cdy cdz comps3 comps4 getc) []) []) []) []) []) ax ay az
  = chan_val K abx aby abz cdx cdy cdz getc cx cy cz dx dy dz bx by_ bz ax ay az.
Proof. exact (fun F K => eri_channel_entry K). Qed.
Print Assumptions C04_eri_channel_entry.

(* the per-axis four-index quantity hh is characterised by hh a 0 c 0 = g a c and the two rules
   (x - B) = (x - A) + AB, (x - D) = (x - C) + CD; explicitly it is the double binomial sum *)
Theorem C04_four_index_rule_b :
  forall (F : Type) (K : Fops F) (ab cd : F) (g : nat -> nat -> F) (a b c d : nat),
  hh K ab cd g a (S b) c d = fadd K (hh K ab cd g (S a) b c d) (fmul K ab (hh K ab cd g a b c d)).
Proof. exact (fun F K => hh_Sb K). Qed.
Print Assumptions C04_four_index_rule_b.

Theorem C04_four_index_rule_d :
  forall (F : Type) (K : Fops F), is_field K ->
  forall (ab cd : F) (g : nat -> nat -> F) (a b c d : nat),
  hh K ab cd g a b c (S d) = fadd K (hh K ab cd g a b (S c) d) (fmul K cd (hh K ab cd g a b c d)).
Proof. exact (fun F K Kf => hh_Sd K Kf). Qed.
Print Assumptions C04_four_index_rule_d.

Theorem C04_four_index_binomial :
  forall (F : Type) (K : Fops F), is_field K ->
  forall (ab cd : F) (g : nat -> nat -> F) (a b c d : nat),
  hh K ab cd g a b c d
  = sumn (f0 K) (fadd K) (S b) (fun k => fmul K (fmul K (binF K b k) (fpow K ab (b - k)))
      (sumn (f0 K) (fadd K) (S d) (fun l => fmul K (fmul K (binF K d l) (fpow K cd (d - l)))
                                                   (g (a + k) (c + l))))).
Proof. exact (fun F K Kf => hh_binomial K Kf). Qed.
Print Assumptions C04_four_index_binomial.

(* two_elec_correct: EVERY entry [m1][i1][m2][i2][m3][i3][m4][i4] of the block returned by the model of
   ElectronRepulsionIntegral.construct_array_contraction is
     (1/sqrt((2a-1)!!..)) x4  *  Sum_{alpha,beta,gamma,delta} (N d)(N d)(N d)(N d)  Phi_0(R4)
   where the value of the polynomial R4 at every s is the product over the axes of the four-index
   bivariate Gaussian moments M4 (= hh of Ms).  All angular momenta, any number of primitives and
   segmented contractions, arbitrary centres.  Hypotheses: exact arithmetic (fapx = id), 2 <> 0,
   non-zero exponent sums (true for positive exponents), indices in range, components of shell k have
   total degree <= l_k. *)
Theorem C04_two_elec_correct :
  forall (F : Type) (K : Fops F), is_field K ->
  forall (s1 s2 s3 s4 : shell F) (m1 i1 m2 i2 m3 i3 m4 i4 : nat),
  (forall x : F, fapx K x = x) ->
  fadd K (f1 K) (f1 K) <> f0 K ->
  (forall alpha beta, In alpha (s_exps s1) -> In beta (s_exps s2) -> fadd K alpha beta <> f0 K) ->
  (forall gamma delta, In gamma (s_exps s3) -> In delta (s_exps s4) -> fadd K gamma delta <> f0 K) ->
  (forall alpha beta gamma delta, In alpha (s_exps s1) -> In beta (s_exps s2) ->
     In gamma (s_exps s3) -> In delta (s_exps s4) ->
     fadd K (fadd K alpha beta) (fadd K gamma delta) <> f0 K) ->
  m1 < nseg s1 -> m2 < nseg s2 -> m3 < nseg s3 -> m4 < nseg s4 ->
  i1 < length (comps_of s1) -> i2 < length (comps_of s2) ->
  i3 < length (comps_of s3) -> i4 < length (comps_of s4) ->
  let c1 := nth i1 (comps_of s1) (0, 0, 0) in let c2 := nth i2 (comps_of s2) (0, 0, 0) in
  let c3 := nth i3 (comps_of s3) (0, 0, 0) in let c4 := nth i4 (comps_of s4) (0, 0, 0) in
  compsum c1 <= s_l s1 -> compsum c2 <= s_l s2 -> compsum c3 <= s_l s3 -> compsum c4 <= s_l s4 ->
  nth i4 (nth m4 (nth i3 (nth m3 (nth i2 (nth m2 (nth i1 (nth m1 (eri_block K s1 s2 s3 s4)
    []) []) []) []) []) []) []) (f0 K)
  = fmul K (fmul K (fmul K (fmul K
      (csum K (wts K s1) m1 (s_exps s1) (fun alpha =>
        csum K (wts K s2) m2 (s_exps s2) (fun beta =>
          csum K (wts K s3) m3 (s_exps s3) (fun gamma =>
            csum K (wts K s4) m4 (s_exps s4) (fun delta =>
              Phi K (eri_base K (s_x s1) (s_y s1) (s_z s1) (s_x s2) (s_y s2) (s_z s2)
                                (s_x s3) (s_y s3) (s_z s3) (s_x s4) (s_y s4) (s_z s4)
                                alpha beta gamma delta) 0
                    (R4 K s1 s2 s3 s4 i1 i2 i3 i4 alpha beta gamma delta))))))
      (inv_sqrt_df K c1)) (inv_sqrt_df K c2)) (inv_sqrt_df K c3)) (inv_sqrt_df K c4)
  /\ (forall alpha beta gamma delta s : F,
      In alpha (s_exps s1) -> In beta (s_exps s2) -> In gamma (s_exps s3) -> In delta (s_exps s4) ->
      peval K (R4 K s1 s2 s3 s4 i1 i2 i3 i4 alpha beta gamma delta) s
      = fmul K (fmul K
          (M4 K alpha beta gamma delta (s_x s1) (s_x s2) (s_x s3) (s_x s4) s
              (fst (fst c1)) (fst (fst c2)) (fst (fst c3)) (fst (fst c4)))
          (M4 K alpha beta gamma delta (s_y s1) (s_y s2) (s_y s3) (s_y s4) s
              (snd (fst c1)) (snd (fst c2)) (snd (fst c3)) (snd (fst c4))))
          (M4 K alpha beta gamma delta (s_z s1) (s_z s2) (s_z s3) (s_z s4) s
              (snd c1) (snd c2) (snd c3) (snd c4))).
Proof. exact (fun F K Kf => two_elec_correct K Kf). Qed.
Print Assumptions C04_two_elec_correct.

(* NOT proved here (stated so that nothing is hidden):
   * the analytic bridge: that Phi_0 of the s-polynomial with beta_m = pref * F_m(rho |PQ|^2) IS the
     six-dimensional Coulomb integral (Laplace transform of 1/r12, Gaussian integrals; DESIGN.md 2.6, trusted);
   * the identification of M4 with a closed-form integral is by Wick's recursion (Gauss/Wick2D.v is the
     spec; its marginals are tied to Moment1D's explicit moments by C04_wick_marginal_first and _second);
   * floating-point accuracy (the 1e-6 Schwarz-scale clause) — decided by the correspondence check;
   * physicist's notation / eight-fold fill / spherical transformation: Props/C04.v (other owner). *)

(* ------------------------------------------------------------------------------------------------ *)
(* Hypotheses are satisfiable                                                                        *)
(* ------------------------------------------------------------------------------------------------ *)
Example C04_eri_hyps_ex :
  qc_of 3 2 <> f0 KQ4 /\ qc_of 2 1 <> f0 KQ4 /\ fadd KQ4 (qc_of 3 2) (qc_of 2 1) <> f0 KQ4
  /\ fadd KQ4 (f1 KQ4) (f1 KQ4) <> f0 KQ4.
Proof. exact eri_hyps_ex. Qed.
Print Assumptions C04_eri_hyps_ex.

Example C04_field_ex : is_field KQ4.
Proof. exact KQ4_field. Qed.
Print Assumptions C04_field_ex.

(* a concrete (p d | s p) quartet, two primitives per shell, meeting every hypothesis of
   C04_two_elec_correct for the entry [0][1][0][2][0][0][0][1] *)
Example C04_two_elec_hyps_ex :
  (forall x, fapx KQ4 x = x) /\ fadd KQ4 (f1 KQ4) (f1 KQ4) <> f0 KQ4
  /\ (forall alpha beta, In alpha (s_exps ex_s1) -> In beta (s_exps ex_s2) -> fadd KQ4 alpha beta <> f0 KQ4)
  /\ (forall gamma delta, In gamma (s_exps ex_s3) -> In delta (s_exps ex_s4) -> fadd KQ4 gamma delta <> f0 KQ4)
  /\ (forall alpha beta gamma delta, In alpha (s_exps ex_s1) -> In beta (s_exps ex_s2) ->
        In gamma (s_exps ex_s3) -> In delta (s_exps ex_s4) ->
        fadd KQ4 (fadd KQ4 alpha beta) (fadd KQ4 gamma delta) <> f0 KQ4)
  /\ (0 < nseg ex_s1 /\ 0 < nseg ex_s2 /\ 0 < nseg ex_s3 /\ 0 < nseg ex_s4)
  /\ (1 < length (comps_of ex_s1) /\ 2 < length (comps_of ex_s2)
      /\ 0 < length (comps_of ex_s3) /\ 1 < length (comps_of ex_s4))
  /\ (compsum (nth 1 (comps_of ex_s1) (0, 0, 0)) <= s_l ex_s1
      /\ compsum (nth 2 (comps_of ex_s2) (0, 0, 0)) <= s_l ex_s2
      /\ compsum (nth 0 (comps_of ex_s3) (0, 0, 0)) <= s_l ex_s3
      /\ compsum (nth 1 (comps_of ex_s4) (0, 0, 0)) <= s_l ex_s4).
Proof. exact two_elec_hyps_ex. Qed.
Print Assumptions C04_two_elec_hyps_ex.

(* C04_eri_prim_correct on concrete numbers, both sides computed (vm_compute): the entry a = (1,0,1),
   c = (1,0,0) of the primitive table with L = 3, for an arbitrary "Boys" sequence 1/(2m+1) *)
Example C04_eri_prim_correct_ex :
  let A := (qc_of 1 2, qc_of 0 1, qc_of (-1) 4) in let B := (qc_of 0 1, qc_of 1 1, qc_of 1 2) in
  let C := (qc_of (-1) 1, qc_of 1 4, qc_of 0 1) in let D := (qc_of 3 4, qc_of (-1) 2, qc_of 1 1) in
  let al := qc_of 1 2 in let be := qc_of 1 1 in let ga := qc_of 3 2 in let de := qc_of 1 2 in
  let p := fadd KQ4 al be in let q := fadd KQ4 ga de in
  let ctr := fun a b x y => fdiv KQ4 (fadd KQ4 (fmul KQ4 a x) (fmul KQ4 b y)) (fadd KQ4 a b) in
  let Px := ctr al be (qc_of 1 2) (qc_of 0 1) in let Py := ctr al be (qc_of 0 1) (qc_of 1 1) in
  let Pz := ctr al be (qc_of (-1) 4) (qc_of 1 2) in
  let Qx := ctr ga de (qc_of (-1) 1) (qc_of 3 4) in let Qy := ctr ga de (qc_of 1 4) (qc_of (-1) 2) in
  let Qz := ctr ga de (qc_of 0 1) (qc_of 1 1) in
  eget KQ4 (eri_prim KQ4 3 1 A B C D al be ga de) 1 0 0 1 0 1
  = Phi KQ4 (eri_base KQ4 (qc_of 1 2) (qc_of 0 1) (qc_of (-1) 4) (qc_of 0 1) (qc_of 1 1) (qc_of 1 2)
                          (qc_of (-1) 1) (qc_of 1 4) (qc_of 0 1) (qc_of 3 4) (qc_of (-1) 2) (qc_of 1 1)
                          al be ga de) 0
        (R3 KQ4 p q (fsub KQ4 Px (qc_of 1 2)) (fsub KQ4 Py (qc_of 0 1)) (fsub KQ4 Pz (qc_of (-1) 4))
            (fsub KQ4 Qx (qc_of (-1) 1)) (fsub KQ4 Qy (qc_of 1 4)) (fsub KQ4 Qz (qc_of 0 1))
            (fsub KQ4 Px Qx) (fsub KQ4 Py Qy) (fsub KQ4 Pz Qz) 1 0 0 1 0 1).
Proof. exact eri_prim_correct_ex. Qed.
Print Assumptions C04_eri_prim_correct_ex.
