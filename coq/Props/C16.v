(* Props/C16.v — theorems backing property C16 (analytic integrals and pointwise evaluations describe the
   same functions).  Only statements closed by [exact] of a lemma of Proofs/SameFunP.v, each followed by
   Print Assumptions.  All statements hold for every list of shells, every angular momentum, contraction
   length, number of segments, coordinate type, centre, exponent, point, derivative order, moment origin and
   order: there is no bound.

   bf_k := k-th element of [descr_basis K basis] : a list of weighted primitive Gaussians
           (weight, centre, exponent, monomial); see C16_descriptor_structure.
   eval_spec bf r        = sum_i w_i (x-X)^a (y-Y)^b (z-Z)^c exp(-alpha_i |r-R|^2)        (C16_eval_spec_is_the_sum)
   pair_spec I bf bf'    = sum_i sum_j w_i w'_j I(prim_i, prim'_j)
   Iov / Imom / Ikin     = the E-functional expressions (Gauss/Moment1D.v) of a PAIR OF PRIMITIVES:
                           what the analytic bridge (B1) of DESIGN 2.6 reads as the integral of their product
                           (times the moment monomial; for Ikin: of -1/2 phi_a Laplacian phi_b).
   (B1) itself — "the Lebesgue integral of a polynomial times a Gaussian is sqrt(pi/p) m_n" — is TRUSTED; it
   enters C16_integral_* below as an explicit hypothesis on an arbitrary linear functional. *)
From Coq Require Import List Arith ZArith.
From GB Require Import Base.Field Base.FNum Base.Tables Model.Shell Model.MomentInt Model.Spherical
  Model.Assembly Model.Overlap Model.DiffOp Model.OneBody Model.Eval Proofs.SameFunP.
Import ListNotations.

(* The theorem of DESIGN 5/C16: ONE descriptor list serves the evaluation model and the overlap / moment /
   kinetic models — same functions, same order (segment-major, then component), same weights and signs. *)
Theorem same_function_objects :
  forall (F : Type) (K : Fops F), is_field K -> (forall x, fapx K x = x) ->
  forall (basis : list (shell F)) (pts : list point) (o : comp) (Cx Cy Cz : F) (orders : list comp) (d : nat),
  fadd K (f1 K) (f1 K) <> f0 K -> Forall shell_wf basis ->
  (forall sa sb, In sa basis -> In sb basis -> exps_ok K sa sb) ->
  d < length orders ->
  let ds := descr_basis K basis in
  evaluate_deriv_basis_model K basis pts o None General = Some (map (fun bf => map (deriv_spec K o bf) pts) ds)
  /\ evaluate_basis_model K basis pts None = map (fun bf => map (eval_spec K bf) pts) ds
  /\ overlap_integral K basis None = outer (pair_spec K (Iov K)) ds ds
  /\ map (map (fun v => nth d v (f0 K))) (moment_integral K Cx Cy Cz orders basis None)
     = outer (pair_spec K (Imom K Cx Cy Cz (nth d orders (0, 0, 0)))) ds ds
  /\ kinetic_integral K basis None = outer (pair_spec K (Ikin K)) ds ds.
Proof. exact @SameFunP.same_function_objects. Qed.
Print Assumptions same_function_objects.

(* what a function descriptor is: weights = norm_cont x coefficient x norm_prim, component order = comps_of,
   spherical rows = rows of generate_transformation, segment-major *)
Theorem C16_descriptor_structure :
  forall (F : Type) (K : Fops F) (s : shell F),
  descr K s = concat (mk (nseg s) (fun m =>
    let carts := mk (length (comps_of s)) (cart_desc K s m) in
    if s_sph s then map (fun trow => dcomb K trow carts) (shell_transform K s) else carts))
  /\ forall m ic,
     cart_desc K s m ic
     = map (fun ae : F * list F =>
              mkT (fmul K (nth ic (nth m (norm_cont K s) []) (f0 K))
                          (fmul K (nth m (snd ae) (f0 K))
                                  (norm_prim K (s_l s) (nth ic (comps_of s) (0, 0, 0)) (fst ae))))
                  (mkG (s_x s) (s_y s) (s_z s) (fst ae) (nth ic (comps_of s) (0, 0, 0))))
           (combine (s_exps s) (s_coeffs s)).
Proof. exact @descr_structure. Qed.
Print Assumptions C16_descriptor_structure.

Theorem C16_eval_spec_is_the_sum :
  forall (F : Type) (K : Fops F) (d : fdesc) (r : point),
  eval_spec K d r = fsum K (map (fun t =>
    let dx := fsub K (fst (fst r)) (t_x t) in let dy := fsub K (snd (fst r)) (t_y t) in
    let dz := fsub K (snd r) (t_z t) in
    fmul K (fmul K (t_w t) (fmul K (fmul K (fpow K dx (cx (t_c t))) (fpow K dy (cy (t_c t)))) (fpow K dz (cz (t_c t)))))
           (fexp K (fopp K (fmul K (t_a t) (fadd K (fadd K (fmul K dx dx) (fmul K dy dy)) (fmul K dz dz)))))) d).
Proof. exact @eval_spec_unfold. Qed.
Print Assumptions C16_eval_spec_is_the_sum.

(* number of functions of a shell: segments x (components | spherical labels) *)
Theorem C16_descriptor_count :
  forall (F : Type) (K : Fops F) (s : shell F),
  length (descr K s) = nseg s * nrows K s
  /\ nrows K s = (if s_sph s then length (labels_of s) else length (comps_of s)).
Proof. exact (fun F K s => conj (descr_length K s) (nrows_eq K s)). Qed.
Print Assumptions C16_descriptor_count.

(* evaluation side alone (needs only well-formed component lists), any derivative order *)
Theorem C16_eval_model_is_eval_of_descriptors :
  forall (F : Type) (K : Fops F), is_field K ->
  forall (o : comp) (pts : list point) (basis : list (shell F)), Forall comps_ok basis ->
  evaluate_deriv_basis_model K basis pts o None General
  = Some (map (fun bf => map (deriv_spec K o bf) pts) (descr_basis K basis)).
Proof. exact @same_function_eval. Qed.
Print Assumptions C16_eval_model_is_eval_of_descriptors.

(* with a transformation matrix: row i is the combination sum_k T[i][k] bf_k *)
Theorem C16_eval_model_transformed :
  forall (F : Type) (K : Fops F), is_field K ->
  forall (o : comp) (pts : list point) (basis : list (shell F)) (T : list (list F)),
  Forall comps_ok basis -> descr_basis K basis <> [] ->
  evaluate_deriv_basis_model K basis pts o (Some T) General
  = Some (map (fun trow => map (deriv_spec K o (dcomb K trow (descr_basis K basis))) pts) T).
Proof. exact @same_function_eval_transformed. Qed.
Print Assumptions C16_eval_model_transformed.

(* integral side per shell pair (what base_two_symm.py does to one block, every cart/sph combination) *)
Theorem C16_overlap_block_is_pairing_table :
  forall (F : Type) (K : Fops F), is_field K -> (forall x, fapx K x = x) ->
  forall sa sb : shell F, fadd K (f1 K) (f1 K) <> f0 K -> comps_ok sa -> comps_ok sb -> exps_ok K sa sb ->
  pblock K (f0 K) (fadd K) (fmul K) (overlap_block K) (prep K sa) (prep K sb)
  = outer (pair_spec K (Iov K)) (descr K sa) (descr K sb).
Proof. exact @same_function_pblock_overlap. Qed.
Print Assumptions C16_overlap_block_is_pairing_table.

Theorem C16_kinetic_block_is_pairing_table :
  forall (F : Type) (K : Fops F), is_field K -> (forall x, fapx K x = x) ->
  forall sa sb : shell F, fadd K (f1 K) (f1 K) <> f0 K -> comps_ok sa -> comps_ok sb -> exps_ok K sa sb ->
  pblock K (f0 K) (fadd K) (fmul K) (kinetic_block K) (prep K sa) (prep K sb)
  = outer (pair_spec K (Ikin K)) (descr K sa) (descr K sb).
Proof. exact @same_function_pblock_kinetic. Qed.
Print Assumptions C16_kinetic_block_is_pairing_table.

(* the pairings are symmetric (overlap / moments: exchanging the two primitives; kinetic: integration by
   parts on both sides), which is what lets the mirrored assembly be the full table *)
Theorem C16_pairings_symmetric :
  forall (F : Type) (K : Fops F), is_field K ->
  (forall Cx Cy Cz o g1 g2, Imom K Cx Cy Cz o g1 g2 = Imom K Cx Cy Cz o g2 g1)
  /\ (forall g1 g2, psum K (g_a g1) (g_a g2) <> f0 K -> fadd K (f1 K) (f1 K) <> f0 K -> Ikin K g1 g2 = Ikin K g2 g1).
Proof. exact (fun F K Kf => conj (Imom_sym K Kf) (Ikin_sym K Kf)). Qed.
Print Assumptions C16_pairings_symmetric.

(* ---- the bridge, with (B1) as an explicit hypothesis on an ARBITRARY functional Lin ---- *)
(* if Lin is extensional, additive, homogeneous and returns I(g1, g2) on the product of two unit-weight
   primitives, then Lin(phi_i phi_j) is the pairing of their descriptors = the overlap-model entry *)
Theorem C16_integral_of_product :
  forall (F : Type) (K : Fops F), is_field K ->
  forall Lin : (point -> F) -> F,
  (forall f g, (forall r, f r = g r) -> Lin f = Lin g) ->
  (forall f g, Lin (fun r => fadd K (f r) (g r)) = fadd K (Lin f) (Lin g)) ->
  (forall c f, Lin (fun r => fmul K c (f r)) = fmul K c (Lin f)) ->
  forall Ip : gprim -> gprim -> F, (forall g1 g2, Lin (q_ov K g1 g2) = Ip g1 g2) ->
  forall d1 d2, Lin (fun r => fmul K (eval_spec K d1 r) (eval_spec K d2 r)) = pair_spec K Ip d1 d2.
Proof. exact @lin_of_product. Qed.
Print Assumptions C16_integral_of_product.

(* trace identity: Lin(rho_P) = sum_ab P_ab S_ab (= tr(P S) for symmetric P), by linearity over finite sums *)
Theorem C16_integral_of_density :
  forall (F : Type) (K : Fops F), is_field K ->
  forall Lin : (point -> F) -> F,
  (forall f g, (forall r, f r = g r) -> Lin f = Lin g) ->
  (forall f g, Lin (fun r => fadd K (f r) (g r)) = fadd K (Lin f) (Lin g)) ->
  (forall c f, Lin (fun r => fmul K c (f r)) = fmul K c (Lin f)) ->
  forall Ip : gprim -> gprim -> F, (forall g1 g2, Lin (q_ov K g1 g2) = Ip g1 g2) ->
  forall (P : list (list F)) (ds : list fdesc),
  Lin (fun r => contract2 K P ds (fun da db => fmul K (eval_spec K da r) (eval_spec K db r)))
  = contract2 K P ds (pair_spec K Ip).
Proof. exact @lin_of_density. Qed.
Print Assumptions C16_integral_of_density.

(* half the products of gradients -> kinetic pairing; positive-definite kinetic-energy density -> tr(P T) *)
Theorem C16_integral_of_gradient_product :
  forall (F : Type) (K : Fops F), is_field K ->
  forall Lin : (point -> F) -> F,
  (forall f g, (forall r, f r = g r) -> Lin f = Lin g) ->
  (forall f g, Lin (fun r => fadd K (f r) (g r)) = fadd K (Lin f) (Lin g)) ->
  (forall c f, Lin (fun r => fmul K c (f r)) = fmul K c (Lin f)) ->
  forall Ip : gprim -> gprim -> F, (forall g1 g2, Lin (q_kin K g1 g2) = Ip g1 g2) ->
  forall d1 d2,
  Lin (fun r => fmul K (fdiv K (f1 K) (fadd K (f1 K) (f1 K)))
         (fadd K (fadd K (fmul K (deriv_spec K (1,0,0) d1 r) (deriv_spec K (1,0,0) d2 r))
                         (fmul K (deriv_spec K (0,1,0) d1 r) (deriv_spec K (0,1,0) d2 r)))
                 (fmul K (deriv_spec K (0,0,1) d1 r) (deriv_spec K (0,0,1) d2 r))))
  = pair_spec K Ip d1 d2.
Proof. exact @lin_of_grad_product. Qed.
Print Assumptions C16_integral_of_gradient_product.

Theorem C16_integral_of_posdef_ked :
  forall (F : Type) (K : Fops F), is_field K ->
  forall Lin : (point -> F) -> F,
  (forall f g, (forall r, f r = g r) -> Lin f = Lin g) ->
  (forall f g, Lin (fun r => fadd K (f r) (g r)) = fadd K (Lin f) (Lin g)) ->
  (forall c f, Lin (fun r => fmul K c (f r)) = fmul K c (Lin f)) ->
  forall Ip : gprim -> gprim -> F, (forall g1 g2, Lin (q_kin K g1 g2) = Ip g1 g2) ->
  forall (P : list (list F)) (ds : list fdesc),
  Lin (fun r => contract2 K P ds (fun da db =>
         fmul K (fdiv K (f1 K) (fadd K (f1 K) (f1 K)))
           (fadd K (fadd K (fmul K (deriv_spec K (1,0,0) da r) (deriv_spec K (1,0,0) db r))
                           (fmul K (deriv_spec K (0,1,0) da r) (deriv_spec K (0,1,0) db r)))
                   (fmul K (deriv_spec K (0,0,1) da r) (deriv_spec K (0,0,1) db r)))))
  = contract2 K P ds (pair_spec K Ip).
Proof. exact @lin_of_posdef_ked. Qed.
Print Assumptions C16_integral_of_posdef_ked.

(* ---- the hypotheses are satisfiable ---- *)
Example C16_default_components_ok :
  forall (F : Type) (s : shell F), s_comps s = [] -> comps_ok s.
Proof. exact @default_comps_ok. Qed.
Print Assumptions C16_default_components_ok.

(* a non-trivial functional meeting the hypotheses on Lin: evaluation at a point *)
Example C16_functional_hypotheses :
  forall (F : Type) (K : Fops F) (r0 : point (F:=F)) (q : @gprim F -> @gprim F -> point (F:=F) -> F),
  let Lin := fun f : point (F:=F) -> F => f r0 in
  (forall f g, (forall r, f r = g r) -> Lin f = Lin g) /\
  (forall f g, Lin (fun r => fadd K (f r) (g r)) = fadd K (Lin f) (Lin g)) /\
  (forall c f, Lin (fun r => fmul K c (f r)) = fmul K c (Lin f)) /\
  (forall g1 g2, Lin (q g1 g2) = q g1 g2 r0).
Proof. exact @bridge_hyps_example. Qed.
Print Assumptions C16_functional_hypotheses.

(* concrete shells over Qc (a generalized Cartesian p shell K = 2, M = 2 and a spherical d shell, off the
   origin): the hypotheses of same_function_objects hold, and its five equations checked by vm_compute *)
Example C16_example_hypotheses :
  is_field Ex.KQ /\ (forall x, fapx Ex.KQ x = x) /\ fadd Ex.KQ (f1 Ex.KQ) (f1 Ex.KQ) <> f0 Ex.KQ
  /\ Forall shell_wf Ex.basis
  /\ (forall sa sb, In sa Ex.basis -> In sb Ex.basis -> exps_ok Ex.KQ sa sb).
Proof. exact Ex.ex_hyps. Qed.
Print Assumptions C16_example_hypotheses.

Example C16_example_sizes :
  length Ex.ds = 11 /\ length (descr Ex.KQ Ex.sP) = 6 /\ length (descr Ex.KQ Ex.sD) = 5.
Proof. exact Ex.ex_sizes. Qed.
Print Assumptions C16_example_sizes.

Example C16_example_eval :
  Ex.mat_eqb (evaluate_basis_model Ex.KQ Ex.basis Ex.pts None)
             (map (fun bf => map (eval_spec Ex.KQ bf) Ex.pts) Ex.ds) = true.
Proof. exact Ex.ex_eval. Qed.
Print Assumptions C16_example_eval.

Example C16_example_deriv :
  match evaluate_deriv_basis_model Ex.KQ Ex.basis Ex.pts (1, 0, 2) None General with
  | Some m => Ex.mat_eqb m (map (fun bf => map (deriv_spec Ex.KQ (1, 0, 2) bf) Ex.pts) Ex.ds)
  | None => false
  end = true.
Proof. exact Ex.ex_deriv. Qed.
Print Assumptions C16_example_deriv.

Example C16_example_overlap :
  Ex.mat_eqb (overlap_integral Ex.KQ Ex.basis None) (outer (pair_spec Ex.KQ (Iov Ex.KQ)) Ex.ds Ex.ds) = true.
Proof. exact Ex.ex_overlap. Qed.
Print Assumptions C16_example_overlap.

Example C16_example_kinetic :
  Ex.mat_eqb (kinetic_integral Ex.KQ Ex.basis None) (outer (pair_spec Ex.KQ (Ikin Ex.KQ)) Ex.ds Ex.ds) = true.
Proof. exact Ex.ex_kinetic. Qed.
Print Assumptions C16_example_kinetic.

Example C16_example_moment :
  Ex.mat_eqb (map (map (fun v => nth 1 v (f0 Ex.KQ)))
                (moment_integral Ex.KQ (Ex.q 1 4) (Ex.q 0 1) (Ex.q (-1) 2) [(1, 0, 0); (0, 2, 1)] Ex.basis None))
             (outer (pair_spec Ex.KQ (Imom Ex.KQ (Ex.q 1 4) (Ex.q 0 1) (Ex.q (-1) 2) (0, 2, 1))) Ex.ds Ex.ds) = true.
Proof. exact Ex.ex_moment. Qed.
Print Assumptions C16_example_moment.
