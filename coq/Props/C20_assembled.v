(* Props/C20_assembled.v — property C20 (overlap screening) at the ENTRIES of the assembled matrix of the
   screened overlap model, Model/Screening.overlap_integral_screened (the model the correspondence check runs
   against gbasis.integrals.overlap.overlap_integral(basis, tol_screen=...)), through the explicit index maps of
   Props/C01_assembled.v:  gidx (a basis of Cartesian shells) and oidx (any assignment of coordinate types).

   scr tol bs i j  is the model's decision for the two blocks (i, j) and (j, i) of the matrix: the triangle loop
   evaluates the block of the ordered pair (min i j, max i j) and mirrors it (C20_asm_unfold; over the reals the
   decision is symmetric in the two shells).
     (a) a screened pair: every entry of the two blocks is exactly 0;
     (b) a kept pair: the entries are those of the unscreened overlap_integral;
     (c) two s shells (Cartesian, or spherical with label c0 / -c0 — the 1x1 transformation is +-1 by the link
         theorem of Props/C10_link.v) whose pair is screened: |S_IJ| <= tol * Sa * Sb for the entry of the
         UNSCREENED assembled matrix, strict when Sa, Sb > 0; Sa = norm_cont_a[m][0] * sum_k |d_km|;
         hence the same bound on the error S_IJ - Sscr_IJ made by screening.
   Generic field for (a), (b); the reals (RK of Proofs/ScreeningP.v) where the order is needed.
   Only statements closed by [exact] of a lemma of Proofs/ScreeningAsmP.v, each followed by Print Assumptions. *)
From Coq Require Import List Arith Reals.
From GB Require Import Base.Field Base.Tables Model.Shell Model.MomentInt Model.Overlap Model.Screening
  Proofs.CoreBlockP Proofs.AssembledP Proofs.AssembledOverlapP Proofs.AssembledSphP Proofs.AssembledSphOverlapP
  Proofs.ScreeningP Proofs.ScreeningAsmP.
Import ListNotations.

(* what the symbols stand for *)
Theorem C20_asm_unfold :
  forall (F : Type) (K : Fops F) (tol : option F) (bs : list (shell F)) (i j : nat),
  scr K tol bs i j = is_screened K tol (sh_at K bs (Nat.min i j)) (sh_at K bs (Nat.max i j))
  /\ scr K tol bs i j = scr K tol bs j i
  /\ (i <= j -> j < length bs -> scr K tol bs i j = pair_screened K tol bs i j).
Proof.
  exact (fun F K tol bs i j => conj eq_refl (conj (scr_sym K tol bs i j) (scr_is_pair_screened K tol bs i j))).
Qed.
Print Assumptions C20_asm_unfold.

(* (a) + (b), a basis of Cartesian shells: every position of the two blocks of a pair, both triangles *)
Theorem C20_asm_entry_cart :
  forall (F : Type) (K : Fops F), is_field K ->
  forall bs : list (shell F), cart_basis bs ->
  forall (tol : option F) (i j m c m' c' : nat), i < length bs -> j < length bs ->
  m < nseg (sh_at K bs i) -> c < ncomp (sh_at K bs i) -> m' < nseg (sh_at K bs j) -> c' < ncomp (sh_at K bs j) ->
  nth (gidx K bs j m' c') (nth (gidx K bs i m c) (overlap_integral_screened K bs None tol) []) (f0 K)
  = if scr K tol bs i j then f0 K
    else nth (gidx K bs j m' c') (nth (gidx K bs i m c) (overlap_integral K bs None) []) (f0 K).
Proof. exact (fun F K Kf => screened_entry_cart K Kf). Qed.
Print Assumptions C20_asm_entry_cart.

Theorem C20_asm_removed_cart :
  forall (F : Type) (K : Fops F), is_field K ->
  forall bs : list (shell F), cart_basis bs ->
  forall (tol : option F) (i j m c m' c' : nat), i < length bs -> j < length bs ->
  m < nseg (sh_at K bs i) -> c < ncomp (sh_at K bs i) -> m' < nseg (sh_at K bs j) -> c' < ncomp (sh_at K bs j) ->
  scr K tol bs i j = true ->
  nth (gidx K bs j m' c') (nth (gidx K bs i m c) (overlap_integral_screened K bs None tol) []) (f0 K) = f0 K
  /\ nth (gidx K bs i m c) (nth (gidx K bs j m' c') (overlap_integral_screened K bs None tol) []) (f0 K) = f0 K.
Proof. exact (fun F K Kf => removed_entry_cart K Kf). Qed.
Print Assumptions C20_asm_removed_cart.

Theorem C20_asm_kept_cart :
  forall (F : Type) (K : Fops F), is_field K ->
  forall bs : list (shell F), cart_basis bs ->
  forall (tol : option F) (i j m c m' c' : nat), i < length bs -> j < length bs ->
  m < nseg (sh_at K bs i) -> c < ncomp (sh_at K bs i) -> m' < nseg (sh_at K bs j) -> c' < ncomp (sh_at K bs j) ->
  scr K tol bs i j = false ->
  nth (gidx K bs j m' c') (nth (gidx K bs i m c) (overlap_integral_screened K bs None tol) []) (f0 K)
  = nth (gidx K bs j m' c') (nth (gidx K bs i m c) (overlap_integral K bs None) []) (f0 K)
  /\ nth (gidx K bs i m c) (nth (gidx K bs j m' c') (overlap_integral_screened K bs None tol) []) (f0 K)
     = nth (gidx K bs i m c) (nth (gidx K bs j m' c') (overlap_integral K bs None) []) (f0 K).
Proof. exact (fun F K Kf => kept_entry_cart K Kf). Qed.
Print Assumptions C20_asm_kept_cart.

(* (a) + (b), any assignment of coordinate types (spherical / Cartesian / mixed) *)
Theorem C20_asm_entry_mixed :
  forall (F : Type) (K : Fops F), is_field K ->
  forall bs : list (shell F), seg_basis bs ->
  forall (tol : option F) (i j m q m' q' : nat), i < length bs -> j < length bs ->
  m < nseg (sh_at K bs i) -> q < osize (sh_at K bs i) -> m' < nseg (sh_at K bs j) -> q' < osize (sh_at K bs j) ->
  nth (oidx K bs j m' q') (nth (oidx K bs i m q) (overlap_integral_screened K bs None tol) []) (f0 K)
  = if scr K tol bs i j then f0 K
    else nth (oidx K bs j m' q') (nth (oidx K bs i m q) (overlap_integral K bs None) []) (f0 K).
Proof. exact (fun F K Kf => screened_entry_mixed K Kf). Qed.
Print Assumptions C20_asm_entry_mixed.

Theorem C20_asm_removed_mixed :
  forall (F : Type) (K : Fops F), is_field K ->
  forall bs : list (shell F), seg_basis bs ->
  forall (tol : option F) (i j m q m' q' : nat), i < length bs -> j < length bs ->
  m < nseg (sh_at K bs i) -> q < osize (sh_at K bs i) -> m' < nseg (sh_at K bs j) -> q' < osize (sh_at K bs j) ->
  scr K tol bs i j = true ->
  nth (oidx K bs j m' q') (nth (oidx K bs i m q) (overlap_integral_screened K bs None tol) []) (f0 K) = f0 K
  /\ nth (oidx K bs i m q) (nth (oidx K bs j m' q') (overlap_integral_screened K bs None tol) []) (f0 K) = f0 K.
Proof. exact (fun F K Kf => removed_entry_mixed K Kf). Qed.
Print Assumptions C20_asm_removed_mixed.

Theorem C20_asm_kept_mixed :
  forall (F : Type) (K : Fops F), is_field K ->
  forall bs : list (shell F), seg_basis bs ->
  forall (tol : option F) (i j m q m' q' : nat), i < length bs -> j < length bs ->
  m < nseg (sh_at K bs i) -> q < osize (sh_at K bs i) -> m' < nseg (sh_at K bs j) -> q' < osize (sh_at K bs j) ->
  scr K tol bs i j = false ->
  nth (oidx K bs j m' q') (nth (oidx K bs i m q) (overlap_integral_screened K bs None tol) []) (f0 K)
  = nth (oidx K bs j m' q') (nth (oidx K bs i m q) (overlap_integral K bs None) []) (f0 K)
  /\ nth (oidx K bs i m q) (nth (oidx K bs j m' q') (overlap_integral_screened K bs None tol) []) (f0 K)
     = nth (oidx K bs i m q) (nth (oidx K bs j m' q') (overlap_integral K bs None) []) (f0 K).
Proof. exact (fun F K Kf => kept_entry_mixed K Kf). Qed.
Print Assumptions C20_asm_kept_mixed.

(* no pair removed: the whole matrix coincides with the unscreened one, with or without a final transformation *)
Theorem C20_asm_all_kept_equal :
  forall (F : Type) (K : Fops F), is_field K ->
  forall (bs : list (shell F)) (T : option (list (list F))) (tol : option F),
  (forall i j, i <= j -> j < length bs -> scr K tol bs i j = false) ->
  overlap_integral_screened K bs T tol = overlap_integral K bs T.
Proof. exact (fun F K Kf => all_kept_equal K Kf). Qed.
Print Assumptions C20_asm_all_kept_equal.

(* ---------------- the reals ---------------- *)
(* the decision does not depend on the order of the two shells, so scr is the decision for (row, column) *)
Theorem C20_asm_decision_symmetric :
  forall (tol : option R) (sa sb : shell R) (bs : list (shell R)) (i j : nat),
  is_screened RK tol sa sb = is_screened RK tol sb sa
  /\ scr RK tol bs i j = is_screened RK tol (sh_at RK bs i) (sh_at RK bs j).
Proof. exact (fun tol sa sb bs i j => conj (is_screened_sym_R tol sa sb) (scr_R tol bs i j)). Qed.
Print Assumptions C20_asm_decision_symmetric.

(* the 1x1 transformation of an s shell (l = 0, default component list, label c0 or -c0 if spherical) *)
Theorem C20_asm_s_shell_transform :
  forall s : shell R,
  s_l s = 0 /\ s_comps s = [] /\ (exists neg, labels_of s = [(neg, false, 0)]) ->
  (ncomp s = 1 /\ osize s = 1) /\ (tco RK s 0 0 = 1%R \/ tco RK s 0 0 = (-1)%R).
Proof. exact (fun s H => conj (s_shell_sizes s H) (s_shell_tco s H)). Qed.
Print Assumptions C20_asm_s_shell_transform.

(* (c) Cartesian basis *)
Theorem C20_asm_removed_s_bound_cart :
  forall (bs : list (shell R)) (i j m m' : nat) (tol : R),
  cart_basis bs -> basis_wf bs -> (forall s, In s bs -> pos_exps s) ->
  i < length bs -> j < length bs ->
  let sa := sh_at RK bs i in let sb := sh_at RK bs j in
  s_l sa = 0 -> s_comps sa = [] -> s_l sb = 0 -> s_comps sb = [] ->
  m < nseg sa -> m' < nseg sb -> (0 < tol <= 1)%R ->
  scr RK (Some tol) bs i j = true ->
  let Sa := (AssembledP.ncont RK sa m 0 * abs_sum (col m (s_exps sa) (s_coeffs sa)))%R in
  let Sb := (AssembledP.ncont RK sb m' 0 * abs_sum (col m' (s_exps sb) (s_coeffs sb)))%R in
  let e := nth (gidx RK bs j m' 0) (nth (gidx RK bs i m 0) (overlap_integral RK bs None) []) 0%R in
  (Rabs e <= tol * Sa * Sb)%R /\ ((0 < Sa)%R -> (0 < Sb)%R -> (Rabs e < tol * Sa * Sb)%R).
Proof. exact removed_s_bound_assembled_cart. Qed.
Print Assumptions C20_asm_removed_s_bound_cart.

(* (c) any coordinate types: the two s shells Cartesian or spherical, the other shells arbitrary *)
Theorem C20_asm_removed_s_bound_mixed :
  forall (bs : list (shell R)) (i j m m' : nat) (tol : R),
  seg_basis bs -> basis_wf bs -> (forall s, In s bs -> pos_exps s) ->
  i < length bs -> j < length bs ->
  let sa := sh_at RK bs i in let sb := sh_at RK bs j in
  (s_l sa = 0 /\ s_comps sa = [] /\ exists neg, labels_of sa = [(neg, false, 0)]) ->
  (s_l sb = 0 /\ s_comps sb = [] /\ exists neg, labels_of sb = [(neg, false, 0)]) ->
  m < nseg sa -> m' < nseg sb -> (0 < tol <= 1)%R ->
  scr RK (Some tol) bs i j = true ->
  let Sa := (AssembledP.ncont RK sa m 0 * abs_sum (col m (s_exps sa) (s_coeffs sa)))%R in
  let Sb := (AssembledP.ncont RK sb m' 0 * abs_sum (col m' (s_exps sb) (s_coeffs sb)))%R in
  let e := nth (oidx RK bs j m' 0) (nth (oidx RK bs i m 0) (overlap_integral RK bs None) []) 0%R in
  (Rabs e <= tol * Sa * Sb)%R /\ ((0 < Sa)%R -> (0 < Sb)%R -> (Rabs e < tol * Sa * Sb)%R).
Proof. exact removed_s_bound_assembled_mixed. Qed.
Print Assumptions C20_asm_removed_s_bound_mixed.

(* ... the error made by screening at those entries *)
Theorem C20_asm_screening_error_s :
  forall (bs : list (shell R)) (i j m m' : nat) (tol : R),
  seg_basis bs -> basis_wf bs -> (forall s, In s bs -> pos_exps s) ->
  i < length bs -> j < length bs ->
  let sa := sh_at RK bs i in let sb := sh_at RK bs j in
  (s_l sa = 0 /\ s_comps sa = [] /\ exists neg, labels_of sa = [(neg, false, 0)]) ->
  (s_l sb = 0 /\ s_comps sb = [] /\ exists neg, labels_of sb = [(neg, false, 0)]) ->
  m < nseg sa -> m' < nseg sb -> (0 < tol <= 1)%R ->
  scr RK (Some tol) bs i j = true ->
  let Sa := (AssembledP.ncont RK sa m 0 * abs_sum (col m (s_exps sa) (s_coeffs sa)))%R in
  let Sb := (AssembledP.ncont RK sb m' 0 * abs_sum (col m' (s_exps sb) (s_coeffs sb)))%R in
  let d := (nth (oidx RK bs j m' 0) (nth (oidx RK bs i m 0) (overlap_integral RK bs None) []) 0
            - nth (oidx RK bs j m' 0) (nth (oidx RK bs i m 0)
                  (overlap_integral_screened RK bs None (Some tol)) []) 0)%R in
  (Rabs d <= tol * Sa * Sb)%R /\ ((0 < Sa)%R -> (0 < Sb)%R -> (Rabs d < tol * Sa * Sb)%R).
Proof. exact screening_error_s_mixed. Qed.
Print Assumptions C20_asm_screening_error_s.

(* ---------------- the hypotheses are satisfiable ---------------- *)
(* spherical s shell and Cartesian p shell at the origin, Cartesian s shell 3 bohr away, tol = 1/2:
   the pair (0, 2) is screened, the pair (0, 1) is kept; 5 basis functions *)
Example C20_asm_hypotheses_R :
  seg_basis ex_asm_basis /\ basis_wf ex_asm_basis /\ (forall s, In s ex_asm_basis -> pos_exps s)
  /\ is_s_shell (sh_at RK ex_asm_basis 0) /\ is_s_shell (sh_at RK ex_asm_basis 2)
  /\ scr RK (Some (/ 2)%R) ex_asm_basis 0 2 = true /\ scr RK (Some (/ 2)%R) ex_asm_basis 0 1 = false
  /\ ototal RK ex_asm_basis = 5 /\ oidx RK ex_asm_basis 2 0 0 = 4.
Proof. exact asm_hypotheses_satisfiable. Qed.
Print Assumptions C20_asm_hypotheses_R.

Example C20_asm_removed_example_R :
  nth 4 (nth 0 (overlap_integral_screened RK ex_asm_basis None (Some (/ 2)%R)) []) 0%R = 0%R
  /\ nth 0 (nth 4 (overlap_integral_screened RK ex_asm_basis None (Some (/ 2)%R)) []) 0%R = 0%R
  /\ nth 2 (nth 0 (overlap_integral_screened RK ex_asm_basis None (Some (/ 2)%R)) []) 0%R
     = nth 2 (nth 0 (overlap_integral RK ex_asm_basis None) []) 0%R.
Proof. exact asm_removed_example. Qed.
Print Assumptions C20_asm_removed_example_R.

(* two Cartesian s shells 3 bohr apart, tol = 1/2: every hypothesis of the Cartesian theorems holds, the
   off-diagonal entry is removed and the unscreened entry obeys the bound *)
Example C20_asm_cart_example_R :
  cart_basis ex_cart_basis /\ basis_wf ex_cart_basis /\ (forall s, In s ex_cart_basis -> pos_exps s)
  /\ scr RK (Some (/ 2)%R) ex_cart_basis 0 1 = true
  /\ nth 1 (nth 0 (overlap_integral_screened RK ex_cart_basis None (Some (/ 2)%R)) []) 0%R = 0%R
  /\ (Rabs (nth 1 (nth 0 (overlap_integral RK ex_cart_basis None) []) 0)
      <= / 2 * (AssembledP.ncont RK (ex_shell 0) 0 0 * abs_sum (col 0 [1] [[1]]))
             * (AssembledP.ncont RK (ex_shell 3) 0 0 * abs_sum (col 0 [1] [[1]])))%R.
Proof. exact asm_cart_example. Qed.
Print Assumptions C20_asm_cart_example_R.
