(* Props/C03.v — theorems backing property C03 (point-charge integrals exact). *)
From Coq Require Import List Arith.
From GB Require Import Base.Field Base.FNum Base.Tables Gauss.Moment1D Gauss.SPoly
  Model.Shell Model.OneElec Model.OneBody Proofs.OneElecP.

(* The vertical recursion with auxiliary index m (one axis), for ANY sequence beta
   (beta m stands for (2 pi/p) K_AB F_m(p|PC|^2); no property of the Boys function is
   assumed): the entry (a, m) is the linear functional Phi_m : s^k |-> beta (m+k)
   applied to a polynomial Pc a in s = t^2 ... *)
Theorem C03_vrr_entry_is_Phi_of_polynomial :
  forall (F : Type) (K : Fops F), is_field K ->
  forall (pa pc v : F) (beta : nat -> F) (a m : nat),
  Vf K pa pc v beta a m = Phi K beta m (Pc K pa pc v a).
Proof. exact (fun F K Kf pa pc v beta a m => proj1 (V_is_Phi K Kf pa pc v beta a m)). Qed.
Print Assumptions C03_vrr_entry_is_Phi_of_polynomial.

(* ... whose value at every s is the exact Gaussian moment E((y + PA - s PC)^a) with
   variance v (1 - s): the integrand of the Laplace-transformed Coulomb integral. *)
Theorem C03_polynomial_is_gaussian_moment :
  forall (F : Type) (K : Fops F), is_field K ->
  forall (pa pc v : F) (a : nat) (s : F),
  peval K (Pc K pa pc v a) s
  = S3 K (fmul K v (fsub K (f1 K) s)) (fsub K pa (fmul K s pc)) (f0 K) (f0 K) 0 0 a 0.
Proof. exact (fun F K Kf pa pc v a s => proj1 (Pc_eval K Kf pa pc v a s)). Qed.
Print Assumptions C03_polynomial_is_gaussian_moment.

(* Validity region: the entry (a, m) reads beta only at m .. m + a + 1, hence array
   entries with m + a <= L never depend on the zero-filled last row. *)
Theorem C03_vrr_locality :
  forall (F : Type) (K : Fops F) (pa pc v : F) (b1 b2 : nat -> F) (a m : nat),
  (forall k, k <= S a -> b1 (m + k) = b2 (m + k)) ->
  Vf K pa pc v b1 a m = Vf K pa pc v b2 a m.
Proof. exact (fun F K pa pc v b1 b2 a m H => proj1 (Vf_local K pa pc v b1 b2 a m H)). Qed.
Print Assumptions C03_vrr_locality.

(* ================================================================== *)
(* Round 2: the list-level executable model (Model/OneElec.v, Model/OneBody.v) tied to the   *)
(* abstract theory above.  All statements hold for every L, every index, every exponent and   *)
(* centre (induction, no bound).  Definitions used in the statements (Proofs/OneElecP.v):      *)
(*   col v0 c m      = entry c of row m of the input table of a pass                           *)
(*   vpass_g .. g    = the model's pass with the never-written row m = L filled by ANY g       *)
(*   P3 .. ax ay az  = Pc_x ax * Pc_y ay * Pc_z az  (pmul)                                     *)
(*   Hf ab T b a     : H(0,a) = T a, H(b+1,a) = H(b,a+1) + ab H(b,a);  H3 = Hf on z of y of x  *)
(*   Hbin            = sum_{k<=b} pasc b k * ab^(b-k) * T(a+k),  pasc = Pascal's triangle      *)
(*   Pab .. a b      = polynomial in s obtained by the same transfer from Pc                   *)
(*   prim_poly       = Pab_x * Pab_y * Pab_z for one primitive pair and one component pair     *)
(*   one_elec_spec   = sum over primitives of b and a of  norm * coefficient *                  *)
(*                     Phi_0^{beta(alpha,beta)} (prim_poly), times 1/sqrt((2a-1)!!..) factors   *)
(* ================================================================== *)

(* 1. One vertical pass of the model (vstep / vpass, written once, used for x, y, z): the list
   entry (a, m) of channel c, inside the validity region m + a <= L, is the abstract recursion
   Vf applied to the input column of that channel. *)
Theorem C03_vpass_entry :
  forall (F : Type) (K : Fops F), is_field K ->
  forall (L : nat) (pa pc twop : F) (v0 : list (list F)) (w a m c : nat),
  (forall m0, m0 <= L -> length (nth m0 v0 nil) = w) ->
  m + a <= L -> c < w ->
  nth c (nth m (nth a (vpass K L pa pc twop v0) nil) nil) (f0 K)
  = Vf K pa pc (fdiv K (f1 K) twop) (col K v0 c) a m.
Proof. exact (@vpass_entry). Qed.
Print Assumptions C03_vpass_entry.

(* ... and valid entries never read the row m = L (NumPy slices [:-1]; the model keeps zeros
   there): replacing that row, at every step, by the value of an ARBITRARY function g of the step
   index and the current row changes no entry with m + a <= L. *)
Theorem C03_vpass_last_row_irrelevant :
  forall (F : Type) (K : Fops F), is_field K ->
  forall (L : nat) (pa pc twop : F) (v0 : list (list F)) (w : nat)
         (g : nat -> list F -> list F) (a m c : nat),
  (forall m0, m0 <= L -> length (nth m0 v0 nil) = w) ->
  m + a <= L -> c < w ->
  nth c (nth m (nth a (vpass K L pa pc twop v0) nil) nil) (f0 K)
  = nth c (nth m (nth a (vpass_g K L pa pc twop g v0) nil) nil) (f0 K).
Proof. exact (@vpass_last_row_irrelevant). Qed.
Print Assumptions C03_vpass_last_row_irrelevant.

(* Vf a m reads beta exactly at m .. m + a (tight version of C03_vrr_locality). *)
Theorem C03_vrr_locality_tight :
  forall (F : Type) (K : Fops F) (pa pc v : F) (b1 b2 : nat -> F) (a m : nat),
  (forall k, k <= a -> b1 (m + k) = b2 (m + k)) ->
  Vf K pa pc v b1 a m = Vf K pa pc v b2 a m.
Proof. exact (@Vf_ext_local). Qed.
Print Assumptions C03_vrr_locality_tight.

(* 2. Three passes (the y pass runs on the x results, the z pass on the y results, channels
   flattened as ay*(L+1)+ax exactly as in the model): for ANY sequence beta, entry (ax, ay, az)
   at m = 0 with ax + ay + az <= L is Phi_0 of the product polynomial ... *)
Theorem C03_vrr_cube_entry :
  forall (F : Type) (K : Fops F), is_field K ->
  forall (L : nat) (pax pcx pay pcy paz pcz twop : F) (beta : nat -> F) (ax ay az : nat),
  ax + ay + az <= L ->
  cget K (vrr_cube K L pax pcx pay pcy paz pcz twop beta) ax ay az
  = Phi K beta 0 (P3 K pax pcx pay pcy paz pcz (fdiv K (f1 K) twop) ax ay az).
Proof. exact (@vrr_cube_entry). Qed.
Print Assumptions C03_vrr_cube_entry.

(* ... whose value at every s is the product over the axes of the exact Gaussian moments. *)
Theorem C03_product_polynomial_is_gaussian_moment :
  forall (F : Type) (K : Fops F), is_field K ->
  forall (pax pcx pay pcy paz pcz v : F) (ax ay az : nat) (s : F),
  peval K (P3 K pax pcx pay pcy paz pcz v ax ay az) s
  = fmul K (fmul K (Gs K pax pcx v s ax) (Gs K pay pcy v s ay)) (Gs K paz pcz v s az).
Proof. exact (@P3_eval). Qed.
Print Assumptions C03_product_polynomial_is_gaussian_moment.

(* The model's vrr_prim is that cube with beta m = (2 pi/p) exp(-mu |AB|^2) F_m(p |PC|^2) taken
   from the oracle fields of K (fapx = identity: the exact instance). *)
Theorem C03_vrr_prim_entry :
  forall (F : Type) (K : Fops F), is_field K ->
  forall (L : nat) (Ax Ay Az Bx By Bz Cx Cy Cz alpha beta : F) (ax ay az : nat),
  (forall x, fapx K x = x) -> ax + ay + az <= L ->
  let p := fadd K alpha beta in
  let Px := fdiv K (fadd K (fmul K alpha Ax) (fmul K beta Bx)) p in
  let Py := fdiv K (fadd K (fmul K alpha Ay) (fmul K beta By)) p in
  let Pz := fdiv K (fadd K (fmul K alpha Az) (fmul K beta Bz)) p in
  cget K (vrr_prim K L Ax Ay Az Bx By Bz Cx Cy Cz alpha beta) ax ay az
  = Phi K (boys_seq K Ax Ay Az Bx By Bz Cx Cy Cz alpha beta) 0
      (P3 K (fsub K Px Ax) (fsub K Px Cx) (fsub K Py Ay) (fsub K Py Cy) (fsub K Pz Az) (fsub K Pz Cz)
          (fdiv K (f1 K) (fmul K (fadd K (f1 K) (f1 K)) p)) ax ay az).
Proof. exact (@vrr_prim_entry). Qed.
Print Assumptions C03_vrr_prim_entry.

(* 3. Horizontal transfer.  One chain (hstep / hiter) along any axis, inside the validity region
   idx + b <= L of that axis (the row idx = L is set to zero by the model and never read):
   entry = abstract transfer Hf = the binomial sum  sum_k C(b,k) AB^(b-k) T[idx + k]. *)
Theorem C03_hiter_entry :
  forall (F : Type) (K : Fops F) (L axis : nat) (ab : F) (b n : nat) (t : cube) (x y z : nat),
  b <= n -> x <= L -> y <= L -> z <= L -> idx_ax axis x y z + b <= L ->
  cget K (nth b (hiter K L axis ab n t) nil) x y z
  = Hf K ab (fun i => cget_ax K axis t i x y z) b (idx_ax axis x y z).
Proof. exact (@hiter_entry). Qed.
Print Assumptions C03_hiter_entry.

Theorem C03_hiter_binomial :
  forall (F : Type) (K : Fops F), is_field K ->
  forall (L axis : nat) (ab : F) (b n : nat) (t : cube) (x y z : nat),
  b <= n -> x <= L -> y <= L -> z <= L -> idx_ax axis x y z + b <= L ->
  cget K (nth b (hiter K L axis ab n t) nil) x y z
  = Hbin K ab (fun i => cget_ax K axis t i x y z) b (idx_ax axis x y z).
Proof. exact (@hiter_binomial). Qed.
Print Assumptions C03_hiter_binomial.

(* Pascal's coefficients are scipy.special.comb as modelled by FNum.fbinom (characteristic 0). *)
Theorem C03_pascal_is_binomial :
  forall (F : Type) (K : Fops F), is_field K -> (forall n, ofnat K (S n) <> f0 K) ->
  forall b k, pasc K b k = fbinom K b k.
Proof. exact (@pasc_fbinom). Qed.
Print Assumptions C03_pascal_is_binomial.

(* the three chains of hrr composed *)
Theorem C03_hrr_entry :
  forall (F : Type) (K : Fops F) (L lb : nat) (abx aby abz : F) (t : cube)
         (bx by_ bz ax ay az : nat),
  bx <= lb -> by_ <= lb -> bz <= lb -> ax + bx <= L -> ay + by_ <= L -> az + bz <= L ->
  cget K (nth bz (nth by_ (nth bx (hrr K L lb abx aby abz t) nil) nil) nil) ax ay az
  = H3 K abx aby abz (cget K t) bx by_ bz ax ay az.
Proof. exact (@hrr_entry). Qed.
Print Assumptions C03_hrr_entry.

(* the transfer applied to the polynomials: Pab a b has, at every s, the value of the Gaussian
   moment with BOTH factors, E_{v(1-s)} ((y + PA - s PC)^a (y + PB - s PC)^b), PB = PA + AB *)
Theorem C03_two_centre_polynomial_is_gaussian_moment :
  forall (F : Type) (K : Fops F), is_field K ->
  forall (pa pc v ab : F) (b a : nat) (s : F),
  peval K (Pab K pa pc v ab a b) s
  = S3 K (fmul K v (fsub K (f1 K) s)) (fsub K pa (fmul K s pc))
         (fsub K (fadd K pa ab) (fmul K s pc)) (f0 K) 0 0 a b.
Proof. exact (@Pab_eval). Qed.
Print Assumptions C03_two_centre_polynomial_is_gaussian_moment.

(* composed statement for the cube: transferring the values Phi_m(P3) gives Phi_m of the product
   of the two-centre polynomials *)
Theorem C03_hrr_of_Phi :
  forall (F : Type) (K : Fops F), is_field K ->
  forall (pax pcx pay pcy paz pcz v abx aby abz : F) (beta : nat -> F) (m bx by_ bz ax ay az : nat),
  H3 K abx aby abz (fun x y z => Phi K beta m (P3 K pax pcx pay pcy paz pcz v x y z)) bx by_ bz ax ay az
  = Phi K beta m (P3ab K pax pcx pay pcy paz pcz v abx aby abz ax ay az bx by_ bz).
Proof. exact (@H3_of_Phi). Qed.
Print Assumptions C03_hrr_of_Phi.

(* one_elec_correct: every entry [ma][ia][mb][ib] of the model of _compute_one_elec_integrals
   (three passes per primitive pair, contraction BEFORE the transfer, transfer, component norms)
   is the specified double sum over the primitives of Phi_0 of the polynomial prim_poly ... *)
Theorem C03_one_elec_entry :
  forall (F : Type) (K : Fops F), is_field K ->
  forall (Cx Cy Cz : F) (sa sb : shell F) (ma ia mb ib : nat),
  (forall x, fapx K x = x) ->
  let ca := nth ia (comps_of sa) (0, 0, 0) in
  let cb := nth ib (comps_of sb) (0, 0, 0) in
  ma < nseg sa -> ia < length (comps_of sa) -> mb < nseg sb -> ib < length (comps_of sb) ->
  fst (fst cb) <= s_l sb -> snd (fst cb) <= s_l sb -> snd cb <= s_l sb ->
  fst (fst ca) + snd (fst ca) + snd ca + (fst (fst cb) + snd (fst cb) + snd cb) <= s_l sa + s_l sb ->
  nth ib (nth mb (nth ia (nth ma (one_elec_point K Cx Cy Cz sa sb) nil) nil) nil) (f0 K)
  = one_elec_spec K Cx Cy Cz sa sb ma ca mb cb.
Proof. exact (@one_elec_entry). Qed.
Print Assumptions C03_one_elec_entry.

(* ... and prim_poly has, at every s, the value of the exact integrand: the product over the
   axes of E_{v(1-s)} ((y + PA - s PC)^a (y + PB - s PC)^b). *)
Theorem C03_prim_poly_is_integrand :
  forall (F : Type) (K : Fops F), is_field K ->
  forall (Cx Cy Cz Ax Ay Az Bx By Bz alpha beta : F) (ca cb : comp) (s : F),
  let p := fadd K alpha beta in
  let Px := fdiv K (fadd K (fmul K alpha Ax) (fmul K beta Bx)) p in
  let Py := fdiv K (fadd K (fmul K alpha Ay) (fmul K beta By)) p in
  let Pz := fdiv K (fadd K (fmul K alpha Az) (fmul K beta Bz)) p in
  let v := fdiv K (f1 K) (fmul K (fadd K (f1 K) (f1 K)) p) in
  peval K (prim_poly K Cx Cy Cz Ax Ay Az Bx By Bz alpha beta ca cb) s
  = fmul K (fmul K
      (S3 K (fmul K v (fsub K (f1 K) s)) (fsub K (fsub K Px Ax) (fmul K s (fsub K Px Cx)))
          (fsub K (fsub K Px Bx) (fmul K s (fsub K Px Cx))) (f0 K) 0 0 (fst (fst ca)) (fst (fst cb)))
      (S3 K (fmul K v (fsub K (f1 K) s)) (fsub K (fsub K Py Ay) (fmul K s (fsub K Py Cy)))
          (fsub K (fsub K Py By) (fmul K s (fsub K Py Cy))) (f0 K) 0 0 (snd (fst ca)) (snd (fst cb))))
      (S3 K (fmul K v (fsub K (f1 K) s)) (fsub K (fsub K Pz Az) (fmul K s (fsub K Pz Cz)))
          (fsub K (fsub K Pz Bz) (fmul K s (fsub K Pz Cz))) (f0 K) 0 0 (snd ca) (snd cb)).
Proof. exact (@prim_poly_eval). Qed.
Print Assumptions C03_prim_poly_is_integrand.

(* 4. The number Phi_m(P) depends only on the polynomial FUNCTION s |-> peval P s (a coefficient
   list vanishing at 0, 1, 2, ... is zero; characteristic 0), so the spec does not depend on the
   representative the recursion happens to build. *)
Theorem C03_Phi_depends_on_values_only :
  forall (F : Type) (K : Fops F), is_field K -> (forall n, ofnat K (S n) <> f0 K) ->
  forall P Q : list F, (forall s, peval K P s = peval K Q s) ->
  forall (beta : nat -> F) (m : nat), Phi K beta m P = Phi K beta m Q.
Proof. exact (@Phi_unique). Qed.
Print Assumptions C03_Phi_depends_on_values_only.

(* spec level, per s: exchanging (a, A, alpha) with (b, B, beta) leaves the integrand unchanged *)
Theorem C03_integrand_symmetric :
  forall (F : Type) (K : Fops F), is_field K ->
  forall (Cx Cy Cz Ax Ay Az Bx By Bz alpha beta : F) (ca cb : comp) (s : F),
  peval K (prim_poly K Cx Cy Cz Ax Ay Az Bx By Bz alpha beta ca cb) s
  = peval K (prim_poly K Cx Cy Cz Bx By Bz Ax Ay Az beta alpha cb ca) s.
Proof. exact (@prim_poly_swap_eval). Qed.
Print Assumptions C03_integrand_symmetric.

Theorem C03_spec_symmetric :
  forall (F : Type) (K : Fops F), is_field K -> (forall n, ofnat K (S n) <> f0 K) ->
  forall (Cx Cy Cz : F) (sa sb : shell F) (ma : nat) (ca : comp) (mb : nat) (cb : comp),
  one_elec_spec K Cx Cy Cz sa sb ma ca mb cb = one_elec_spec K Cx Cy Cz sb sa mb cb ma ca.
Proof. exact (@one_elec_spec_swap). Qed.
Print Assumptions C03_spec_symmetric.

(* swap_sound: the computation with the shells exchanged returns the transposed block *)
Theorem C03_swap_sound :
  forall (F : Type) (K : Fops F), is_field K -> (forall n, ofnat K (S n) <> f0 K) ->
  forall (Cx Cy Cz : F) (sa sb : shell F) (ma ia mb ib : nat),
  (forall x, fapx K x = x) ->
  let ca := nth ia (comps_of sa) (0, 0, 0) in
  let cb := nth ib (comps_of sb) (0, 0, 0) in
  ma < nseg sa -> ia < length (comps_of sa) -> mb < nseg sb -> ib < length (comps_of sb) ->
  csum3 ca <= s_l sa -> csum3 cb <= s_l sb ->
  nth ia (nth ma (nth ib (nth mb (one_elec_point K Cx Cy Cz sb sa) nil) nil) nil) (f0 K)
  = nth ib (nth mb (nth ia (nth ma (one_elec_point K Cx Cy Cz sa sb) nil) nil) nil) (f0 K).
Proof. exact (@swap_sound). Qed.
Print Assumptions C03_swap_sound.

(* PointChargeIntegral.construct_array_contraction, whichever branch of the L_a < L_b swap is
   taken: entry [ma][ia][mb][ib] is the vector over the charges of -q times the specified value
   for that charge position. *)
Theorem C03_point_charge_block_entry :
  forall (F : Type) (K : Fops F), is_field K -> (forall n, ofnat K (S n) <> f0 K) ->
  forall (points : list (F * F * F * F)) (sa sb : shell F) (ma ia mb ib : nat),
  (forall x, fapx K x = x) ->
  let ca := nth ia (comps_of sa) (0, 0, 0) in
  let cb := nth ib (comps_of sb) (0, 0, 0) in
  ma < nseg sa -> ia < length (comps_of sa) -> mb < nseg sb -> ib < length (comps_of sb) ->
  csum3 ca <= s_l sa -> csum3 cb <= s_l sb ->
  nth ib (nth mb (nth ia (nth ma (point_charge_block K points sa sb) nil) nil) nil) nil
  = map (fun pt : F * F * F * F =>
           fmul K (fopp K (snd pt))
             (one_elec_spec K (fst (fst (fst pt))) (snd (fst (fst pt))) (snd (fst pt)) sa sb ma ca mb cb))
        points.
Proof. exact (@point_charge_block_entry). Qed.
Print Assumptions C03_point_charge_block_entry.

(* the component hypothesis csum3 c <= l of the two theorems above holds for every shell that
   uses the default Cartesian component order (contractions.py:379-385) *)
Theorem C03_default_components_ok :
  forall (F : Type) (s : shell F) (i : nat),
  s_comps s = nil -> i < length (comps_of s) -> csum3 (nth i (comps_of s) (0, 0, 0)) <= s_l s.
Proof. exact (@default_shell_comp_ok). Qed.
Print Assumptions C03_default_components_ok.

(* 5. nuclear_electron_attraction_integral: every entry is the sum over the charges of the
   point_charge_integral entries (any i, j; no hypothesis). *)
Theorem C03_nuclear_is_sum :
  forall (F : Type) (K : Fops F) (points : list (F * F * F * F)) (basis : list (shell F))
         (T : option (list (list F))) (i j : nat),
  nth j (nth i (nuclear_attraction_integral K points basis T) nil) (f0 K)
  = fsum K (nth j (nth i (point_charge_integral K points basis T) nil) nil).
Proof. exact (@nuclear_is_sum). Qed.
Print Assumptions C03_nuclear_is_sum.

(* ---- the hypotheses are satisfiable: the executable instance QcK true (exact rationals, any
   oracle closures) is a field of characteristic 0 with fapx = identity; a concrete p shell and
   d shell at off-axis centres meet the index hypotheses of the block theorems ---- *)
Example C03_hyp_field_Qc :
  forall opi osqrt oexp oln oboys, is_field (QcK true opi osqrt oexp oln oboys).
Proof. exact (QcK_field true). Qed.
Print Assumptions C03_hyp_field_Qc.

Example C03_hyp_char0_Qc :
  forall opi osqrt oexp oln oboys (n : nat),
  ofnat (QcK true opi osqrt oexp oln oboys) (S n) <> f0 (QcK true opi osqrt oexp oln oboys).
Proof. exact QcK_char0. Qed.
Print Assumptions C03_hyp_char0_Qc.

Example C03_hyp_fapx_Qc :
  forall opi osqrt oexp oln oboys x, fapx (QcK true opi osqrt oexp oln oboys) x = x.
Proof. exact QcK_exact_apx. Qed.
Print Assumptions C03_hyp_fapx_Qc.

Example C03_hyp_shells :
  0 < nseg ex_sa /\ 1 < length (comps_of ex_sa) /\ 0 < nseg ex_sb /\ 3 < length (comps_of ex_sb)
  /\ csum3 (nth 1 (comps_of ex_sa) (0, 0, 0)) <= s_l ex_sa
  /\ csum3 (nth 3 (comps_of ex_sb) (0, 0, 0)) <= s_l ex_sb.
Proof. exact ex_hyps. Qed.
Print Assumptions C03_hyp_shells.
