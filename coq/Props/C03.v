(* Props/C03.v — theorems backing property C03 (point-charge integrals exact). *)
From Coq Require Import List Arith.
From GB Require Import Base.Field Gauss.Moment1D Gauss.SPoly.

(* The vertical recursion with auxiliary index m (one axis), for ANY sequence beta
   (beta m stands for (2 pi/p) K_AB F_m(p|PC|^2); no property of the Boys function is
   assumed): the entry (a, m) is the linear functional Phi_m : s^k |-> beta (m+k)
   applied to a polynomial Pc a in s = t^2 ... *)
Theorem C03_vrr_entry_is_Phi_of_polynomial :
  forall (F : Type) (K : Fops F), is_field K ->
  forall (pa pc v : F) (beta : nat -> F) (a m : nat),
  Vf K pa pc v beta a m = Phi K beta m (Pc K pa pc v a).
Proof. exact (fun F K Kf pa pc v beta a m => proj1 (V_is_Phi K Kf pa pc v beta a m)). Qed.
Print Assumptions C03_vrr_entry_is_Phi_of_polynomial.

(* ... whose value at every s is the exact Gaussian moment E((y + PA - s PC)^a) with
   variance v (1 - s): the integrand of the Laplace-transformed Coulomb integral. *)
Theorem C03_polynomial_is_gaussian_moment :
  forall (F : Type) (K : Fops F), is_field K ->
  forall (pa pc v : F) (a : nat) (s : F),
  peval K (Pc K pa pc v a) s
  = S3 K (fmul K v (fsub K (f1 K) s)) (fsub K pa (fmul K s pc)) (f0 K) (f0 K) 0 0 a 0.
Proof. exact (fun F K Kf pa pc v a s => proj1 (Pc_eval K Kf pa pc v a s)). Qed.
Print Assumptions C03_polynomial_is_gaussian_moment.

(* Validity region: the entry (a, m) reads beta only at m .. m + a + 1, hence array
   entries with m + a <= L never depend on the zero-filled last row. *)
Theorem C03_vrr_locality :
  forall (F : Type) (K : Fops F) (pa pc v : F) (b1 b2 : nat -> F) (a m : nat),
  (forall k, k <= S a -> b1 (m + k) = b2 (m + k)) ->
  Vf K pa pc v b1 a m = Vf K pa pc v b2 a m.
Proof. exact (fun F K pa pc v b1 b2 a m H => proj1 (Vf_local K pa pc v b1 b2 a m H)). Qed.
Print Assumptions C03_vrr_locality.
