(* Props/C01_block.v — block-level theorems backing property C01 (overlap integrals exact, primitives
   normalised).  Only statements closed by [exact] of a lemma proved in Proofs/Core*.v, each followed by
   Print Assumptions.  The spec is written with the abstract Gaussian moment functional [T3] of
   Gauss/Moment1D.v (no tables):
     T1 A B C alpha beta k i j = T3 (1/(2(alpha+beta))) (P-A) (P-B) (P-C) k i j          (one axis)
     KAB sa sb alpha beta      = product over x, y, z of sqrt(pi/p) exp(-mu (A-B)^2)
     ovl_prim sa sb ca cb      = KAB * T1_x(0, a_x, b_x) * T1_y(0, a_y, b_y) * T1_z(0, a_z, b_z)
     contracted sa sb ca cb ma mb prim
        = sum_{k < K_a} sum_{k' < K_b} d_a[k][ma] d_b[k'][mb] N(alpha_k, ca) N(beta_k', cb) prim(alpha_k, beta_k')
   Hypotheses: fapx is the identity (true for the exact runner instance), 1+1 <> 0, alpha_k+beta_k' <> 0 for
   every pair of exponents, one coefficient row per exponent, every Cartesian component <= l (true for the
   default component list), indices in range. *)
From Coq Require Import List Arith Reals.
From GB Require Import Base.Field Base.FNum Base.Tables Gauss.Moment1D Model.Shell Model.MomentInt Model.Overlap
  Proofs.CoreSumP Proofs.CoreBlockP Proofs.CoreNormP Proofs.CoreExamplesP Proofs.ScreeningP.
Import ListNotations.

(* what the spec symbols stand for (by definition) *)
Theorem C01_spec_unfold :
  forall (F : Type) (K : Fops F) (sa sb : shell F) (ca cb : Shell.comp) (ma mb : nat) (prim : F -> F -> F)
         (alpha beta : F),
  contracted K sa sb ca cb ma mb prim
  = FNum.fsum K (mk (length (s_exps sa)) (fun ka => FNum.fsum K (mk (length (s_exps sb)) (fun kb =>
      fmul K (fmul K (fmul K (fmul K
        (nth ma (nth ka (s_coeffs sa) []) (f0 K)) (nth mb (nth kb (s_coeffs sb) []) (f0 K)))
        (norm_prim K (s_l sa) ca (nth ka (s_exps sa) (f0 K))))
        (norm_prim K (s_l sb) cb (nth kb (s_exps sb) (f0 K))))
        (prim (nth ka (s_exps sa) (f0 K)) (nth kb (s_exps sb) (f0 K)))))))
  /\ ovl_prim K sa sb ca cb alpha beta
     = fmul K
         (fmul K (fmul K (base K (s_x sa) (s_x sb) alpha beta) (base K (s_y sa) (s_y sb) alpha beta))
                 (base K (s_z sa) (s_z sb) alpha beta))
         (fmul K (fmul K
            (T3 K (fdiv K (f1 K) (twop K alpha beta)) (PA K (s_x sa) (s_x sb) alpha beta)
                (PB K (s_x sa) (s_x sb) alpha beta) (PC K (s_x sa) (s_x sb) (f0 K) alpha beta) 0 (cx ca) (cx cb))
            (T3 K (fdiv K (f1 K) (twop K alpha beta)) (PA K (s_y sa) (s_y sb) alpha beta)
                (PB K (s_y sa) (s_y sb) alpha beta) (PC K (s_y sa) (s_y sb) (f0 K) alpha beta) 0 (cy ca) (cy cb)))
            (T3 K (fdiv K (f1 K) (twop K alpha beta)) (PA K (s_z sa) (s_z sb) alpha beta)
                (PB K (s_z sa) (s_z sb) alpha beta) (PC K (s_z sa) (s_z sb) (f0 K) alpha beta) 0 (cz ca) (cz cb))).
Proof. exact (fun F K sa sb ca cb ma mb prim alpha beta => conj eq_refl eq_refl). Qed.
Print Assumptions C01_spec_unfold.

(* overlap_block_correct: every entry of Overlap.construct_array_contraction's model is the contracted,
   normalised primitive overlap spec — all l_a, l_b, K, M, centres, exponents, coefficients *)
Theorem C01_overlap_block_correct :
  forall (F : Type) (K : Fops F), is_field K ->
  (forall x : F, fapx K x = x) -> fadd K (f1 K) (f1 K) <> f0 K ->
  forall (sa sb : shell F) (ma ia mb ib : nat),
  wf_shell sa -> wf_shell sb -> exps_ok K sa sb ->
  ma < nseg sa -> ia < length (comps_of sa) -> mb < nseg sb -> ib < length (comps_of sb) ->
  nth4 K ma ia mb ib (overlap_block K sa sb)
  = contracted K sa sb (nth ia (comps_of sa) (0,0,0)) (nth ib (comps_of sb) (0,0,0)) ma mb
      (ovl_prim K sa sb (nth ia (comps_of sa) (0,0,0)) (nth ib (comps_of sb) (0,0,0))).
Proof. exact (fun F K Kf Hapx H2 => overlap_block_correct K Kf Hapx H2). Qed.
Print Assumptions C01_overlap_block_correct.

(* the block of the exchanged pair is the transpose (used by C11) *)
Theorem C01_overlap_block_sym :
  forall (F : Type) (K : Fops F), is_field K ->
  (forall x : F, fapx K x = x) -> fadd K (f1 K) (f1 K) <> f0 K ->
  forall (sa sb : shell F) (ma ia mb ib : nat),
  wf_shell sa -> wf_shell sb -> exps_ok K sa sb ->
  ma < nseg sa -> ia < length (comps_of sa) -> mb < nseg sb -> ib < length (comps_of sb) ->
  nth4 K mb ib ma ia (overlap_block K sb sa) = nth4 K ma ia mb ib (overlap_block K sa sb).
Proof. exact (fun F K Kf Hapx H2 => overlap_block_sym K Kf Hapx H2). Qed.
Print Assumptions C01_overlap_block_sym.

(* the well-formedness hypothesis holds for every shell with the default component list *)
Theorem C01_default_shell_wf :
  forall (F : Type) (s : shell F), s_comps s = [] -> length (s_coeffs s) = length (s_exps s) -> wf_shell s.
Proof. exact (fun F s => wf_shell_default s). Qed.
Print Assumptions C01_default_shell_wf.

(* one centre, one exponent: the 1-D spec integral is the bare Gaussian moment (2n-1)!! / (4 alpha)^n *)
Theorem C01_T1_self_diag :
  forall (F : Type) (K : Fops F), is_field K ->
  forall (A C alpha : F) (n : nat), psum K alpha alpha <> f0 K ->
  T1 K A A C alpha alpha 0 n n = fmul K (fdf_odd K n) (FNum.fpow K (fdiv K (f1 K) (twop K alpha alpha)) n).
Proof. exact (fun F K Kf => T1_self_diag K Kf). Qed.
Print Assumptions C01_T1_self_diag.

(* ---- the reals: norm_prim_sq ---- *)
(* N(alpha,a)^2 (pi/(2 alpha))^{3/2} prod_i (2a_i-1)!!/(4 alpha)^{a_i} = 1   (pow32 x = x sqrt x) *)
Theorem C01_norm_prim_sq :
  forall (l : nat) (c : Shell.comp) (alpha : R),
  (0 < alpha)%R -> cx c + cy c + cz c = l ->
  (norm_prim RK l c alpha * norm_prim RK l c alpha
   * pow32 (PI / (2 * alpha))
   * (fdf_odd RK (cx c) / (4 * alpha) ^ cx c * (fdf_odd RK (cy c) / (4 * alpha) ^ cy c)
      * (fdf_odd RK (cz c) / (4 * alpha) ^ cz c)) = 1)%R.
Proof. exact norm_prim_sq. Qed.
Print Assumptions C01_norm_prim_sq.

(* ... i.e. the primitive normalisation constant of contractions.py normalises the self-overlap SPEC to 1 *)
Theorem C01_norm_prim_self_overlap :
  forall (s : shell R) (c : Shell.comp) (alpha : R),
  (0 < alpha)%R -> cx c + cy c + cz c = s_l s ->
  (norm_prim RK (s_l s) c alpha * norm_prim RK (s_l s) c alpha * ovl_prim RK s s c c alpha alpha = 1)%R.
Proof. exact norm_prim_self_overlap. Qed.
Print Assumptions C01_norm_prim_self_overlap.

(* the prefactor of the spec is the textbook K_AB (pi/p)^{3/2} exp(-mu |A-B|^2) *)
Theorem C01_KAB_closed_form :
  forall (sa sb : shell R) (alpha beta : R), (0 < alpha)%R -> (0 < beta)%R ->
  (KAB RK sa sb alpha beta
   = pow32 (PI / (alpha + beta))
     * exp (- (alpha * beta / (alpha + beta))
            * ((s_x sa - s_x sb) * (s_x sa - s_x sb) + (s_y sa - s_y sb) * (s_y sa - s_y sb)
               + (s_z sa - s_z sb) * (s_z sa - s_z sb))))%R.
Proof. exact KAB_closed_form. Qed.
Print Assumptions C01_KAB_closed_form.

(* ---- the hypotheses are satisfiable ---- *)
(* over Qc (the runner's field, any oracle closures): generalized d shell (K=2, M=2) x off-centre p shell *)
Example C01_block_hypotheses_Qc :
  forall opi osqrt oexp oln oboys,
  let K := KQ opi osqrt oexp oln oboys in
  is_field K /\ (forall x, fapx K x = x) /\ fadd K (f1 K) (f1 K) <> f0 K
  /\ wf_shell ex_sa /\ wf_shell ex_sb /\ exps_ok K ex_sa ex_sb /\ exps_ok K ex_sa ex_sa
  /\ 1 < nseg ex_sa /\ 5 < length (comps_of ex_sa) /\ 0 < nseg ex_sb /\ 2 < length (comps_of ex_sb).
Proof. exact block_hypotheses_satisfiable. Qed.
Print Assumptions C01_block_hypotheses_Qc.

(* over R: every pair of shells with positive exponents *)
Example C01_block_hypotheses_R :
  is_field RK /\ (forall x : R, fapx RK x = x) /\ fadd RK (f1 RK) (f1 RK) <> f0 RK
  /\ forall sa sb : shell R, (forall x, In x (s_exps sa) -> (0 < x)%R) -> (forall x, In x (s_exps sb) -> (0 < x)%R)
     -> exps_ok RK sa sb.
Proof. exact (conj RK_field (conj fapx_id_R (conj two_neq_0_R exps_ok_pos_R))). Qed.
Print Assumptions C01_block_hypotheses_R.

Example C01_norm_prim_self_overlap_ex :
  let s := mkShell R 2 0%R 0%R 0%R [(3 / 2)%R] [[1%R]] false [] [] in
  (norm_prim RK 2 (1, 1, 0)%nat (3 / 2) * norm_prim RK 2 (1, 1, 0)%nat (3 / 2)
   * ovl_prim RK s s (1, 1, 0)%nat (1, 1, 0)%nat (3 / 2) (3 / 2) = 1)%R.
Proof. exact norm_prim_self_overlap_ex. Qed.
Print Assumptions C01_norm_prim_self_overlap_ex.
