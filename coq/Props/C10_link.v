(* Props/C10_link.v — property C10, the LINK between the two models of the Cartesian->spherical transformation.

   Props/C10.v verifies the EXACT model Model/SphExact.v (entries are pairs (r, q) of canonical rationals meaning
   r * sqrt q).  Every integral / evaluation model of the other properties uses Model/Spherical.sph_transform
   (generic field K, square-root oracle [fsqrt K]; runner command 4; [shell_transform] inside the assemblies).
   The theorems below say that the two denote the same numbers, so what Props/C10.v proves (harmonic, homogeneous,
   orthonormal, phase, order) is a statement about the transformation the other properties use:

     for every l <= 10, EVERY Cartesian order [carts] made of components of degree l and EVERY label list
     [labels] of admissible labels (any order, any signs), entry (i, j) of  sph_transform K l carts labels
     equals   ofQc K r * fsqrt K (ofQc K q)   for the entry (r, q) of  left_form l carts labels.

   [ofQc K] is the canonical embedding Qc -> F (numerator / denominator), a field homomorphism in characteristic 0.
   Model/Spherical multiplies three square roots per entry where the exact model carries one radicand, so the
   oracle is assumed multiplicative on images of POSITIVE rationals ([sqrt_mul_pos], [sqrt_div_pos], spelled out
   in C10_link_unfold); nothing else is assumed of it.  The real numbers satisfy every hypothesis (RK).
   The finite domain l <= 10 is enumerated completely by vm_compute over Qc (Proofs/SphLinkP.link_check_all).
   Only statements closed by [exact] of a lemma of Proofs/SphLinkP.v, each followed by Print Assumptions. *)
From Coq Require Import List Arith ZArith QArith Qcanon Reals.
From GB Require Import Base.Field Model.Shell Model.Spherical Model.SphExact Proofs.SphExactP
  Proofs.DiagSphCheckP Proofs.ScreeningP Proofs.SphLinkP.
Import ListNotations.
Local Open Scope nat_scope.

(* what the symbols stand for (by definition) *)
Theorem C10_link_unfold :
  forall (F : Type) (K : Fops F) (q : Qc) (s : surd) (l : nat) (lb : label),
  ofQc K q = fdiv K (ofZ K (Qnum (this q))) (ofZ K (Zpos (Qden (this q))))
  /\ (forall p, ofZ K (Zpos p) = ofnat K (Pos.to_nat p) /\ ofZ K (Zneg p) = fopp K (ofnat K (Pos.to_nat p)))
  /\ ofZ K 0%Z = f0 K
  /\ sden K s = fmul K (ofQc K (fst s)) (fsqrt K (ofQc K (snd s)))
  /\ (sqrt_mul_pos K <-> forall a b : Qc, (0 < a)%Qc -> (0 < b)%Qc ->
        fsqrt K (fmul K (ofQc K a) (ofQc K b)) = fmul K (fsqrt K (ofQc K a)) (fsqrt K (ofQc K b)))
  /\ (sqrt_div_pos K <-> forall a b : Qc, (0 < a)%Qc -> (0 < b)%Qc ->
        fsqrt K (fdiv K (ofQc K a) (ofQc K b)) = fdiv K (fsqrt K (ofQc K a)) (fsqrt K (ofQc K b)))
  /\ (adm_label l lb <-> (snd lb <= l /\ (snd (fst lb) = true -> 1 <= snd lb))).
Proof.
  exact (fun F K q s l lb => conj eq_refl (conj (fun p => conj eq_refl eq_refl) (conj eq_refl (conj eq_refl
    (conj (conj (fun H => H) (fun H => H)) (conj (conj (fun H => H) (fun H => H)) (conj (fun H => H) (fun H => H)))))))).
Qed.
Print Assumptions C10_link_unfold.

(* the embedding of the canonical rationals is a field homomorphism (characteristic 0) *)
Theorem C10_link_embedding_hom :
  forall (F : Type) (K : Fops F), is_field K -> (forall n, ofnat K (S n) <> f0 K) ->
  ofQc K 0%Qc = f0 K /\ ofQc K 1%Qc = f1 K
  /\ (forall a b, ofQc K (a + b)%Qc = fadd K (ofQc K a) (ofQc K b))
  /\ (forall a b, ofQc K (a * b)%Qc = fmul K (ofQc K a) (ofQc K b))
  /\ (forall a, ofQc K (- a)%Qc = fopp K (ofQc K a))
  /\ (forall a b, ofQc K (a - b)%Qc = fsub K (ofQc K a) (ofQc K b))
  /\ (forall a b, b <> 0%Qc -> ofQc K (a / b)%Qc = fdiv K (ofQc K a) (ofQc K b))
  /\ (forall b, b <> 0%Qc -> ofQc K b <> f0 K).
Proof.
  exact (fun F K Kf c0 => conj (ofQc_0 K Kf c0) (conj (ofQc_1 K Kf c0) (conj (ofQc_plus K Kf c0)
    (conj (ofQc_mult K Kf c0) (conj (ofQc_opp K Kf c0) (conj (ofQc_minus K Kf c0)
    (conj (ofQc_div K Kf c0) (ofQc_nz K Kf c0)))))))).
Qed.
Print Assumptions C10_link_embedding_hom.

(* the rational core of Model/Spherical (Proofs/DiagSphP.v: hcoef, hrad, dfp) evaluated at Qc IS the
   (rational, radicand) data of the exact model; complete enumeration l <= 10 *)
Theorem C10_link_tables :
  forall l sine m c, l <= 10 -> valid_sm l sine m -> In c (default_comps l) ->
  DiagSphP.hcoef QK l m sine c = coef (real_solid_harmonic l m sine) c
  /\ DiagSphP.hrad QK l m = harmonic_radicand l m /\ (0 < harmonic_radicand l m)%Qc
  /\ DiagSphP.dfp QK c = zq (cart_df c) /\ (0 < zq (cart_df c))%Qc
  /\ FNum.fdf_odd QK l = zq (zdf_odd l) /\ (0 < zq (zdf_odd l))%Qc.
Proof. exact link_tables. Qed.
Print Assumptions C10_link_tables.

(* THE LINK, entry by entry: every l <= 10, every convention *)
Theorem C10_link_entry :
  forall (F : Type) (K : Fops F), is_field K -> (forall n, ofnat K (S n) <> f0 K) ->
  sqrt_mul_pos K -> sqrt_div_pos K ->
  forall (l : nat) (carts : list comp) (labels : list label) (i j : nat),
  l <= 10 ->
  (forall c, In c carts -> In c (default_comps l)) ->
  (forall lb, In lb labels -> adm_label l lb) ->
  i < length labels -> j < length carts ->
  nth j (nth i (sph_transform K l carts labels) []) (f0 K)
  = sden K (nth j (nth i (left_form l carts labels) []) szero).
Proof. exact (fun F K => sph_transform_entry_link K). Qed.
Print Assumptions C10_link_entry.

(* ... as whole matrices *)
Theorem C10_link_matrix :
  forall (F : Type) (K : Fops F), is_field K -> (forall n, ofnat K (S n) <> f0 K) ->
  sqrt_mul_pos K -> sqrt_div_pos K ->
  forall (l : nat) (carts : list comp) (labels : list label),
  l <= 10 ->
  (forall c, In c carts -> In c (default_comps l)) ->
  (forall lb, In lb labels -> adm_label l lb) ->
  sph_transform K l carts labels = map (map (sden K)) (left_form l carts labels).
Proof. exact (fun F K => sph_transform_is_exact K). Qed.
Print Assumptions C10_link_matrix.

(* ... on the default conventions: the matrix [C10_all] (Props/C10.v) is about *)
Theorem C10_link_default :
  forall (F : Type) (K : Fops F), is_field K -> (forall n, ofnat K (S n) <> f0 K) ->
  sqrt_mul_pos K -> sqrt_div_pos K ->
  forall l, l <= 10 ->
  sph_transform K l (default_comps l) (default_labels l)
  = map (map (sden K)) (left_form l (default_comps l) (default_labels l)).
Proof. exact (fun F K => sph_transform_default_is_exact K). Qed.
Print Assumptions C10_link_default.

(* ... and for the matrix the assemblies of every integral model apply to a spherical shell *)
Theorem C10_link_shell_transform :
  forall (F : Type) (K : Fops F), is_field K -> (forall n, ofnat K (S n) <> f0 K) ->
  sqrt_mul_pos K -> sqrt_div_pos K ->
  forall s : shell F,
  (forall x, fapx K x = x) -> s_l s <= 10 ->
  (forall c, In c (comps_of s) -> In c (default_comps (s_l s))) ->
  (forall lb, In lb (labels_of s) -> adm_label (s_l s) lb) ->
  shell_transform K s = map (map (sden K)) (left_form (s_l s) (comps_of s) (labels_of s)).
Proof. exact (fun F K => shell_transform_is_exact K). Qed.
Print Assumptions C10_link_shell_transform.

(* the default label list is admissible, the default component list is itself: the premises are met by a
   shell with default conventions *)
Theorem C10_link_default_labels_admissible :
  forall l lb, In lb (default_labels l) -> adm_label l lb.
Proof. exact default_labels_adm. Qed.
Print Assumptions C10_link_default_labels_admissible.

(* ---------------- the real numbers: no hypothesis on the square root left ---------------- *)
Theorem C10_link_embedding_R : forall q : Qc, ofQc RK q = Q2R (this q).
Proof. exact ofQc_R. Qed.
Print Assumptions C10_link_embedding_R.

Theorem C10_link_entry_R :
  forall (l : nat) (carts : list comp) (labels : list label) (i j : nat),
  l <= 10 ->
  (forall c, In c carts -> In c (default_comps l)) ->
  (forall lb, In lb labels -> adm_label l lb) ->
  i < length labels -> j < length carts ->
  nth j (nth i (sph_transform RK l carts labels) []) 0%R
  = (let s := nth j (nth i (left_form l carts labels) []) szero in
     Q2R (this (fst s)) * sqrt (Q2R (this (snd s))))%R.
Proof. exact sph_transform_entry_link_R. Qed.
Print Assumptions C10_link_entry_R.

Theorem C10_link_matrix_R :
  forall (l : nat) (carts : list comp) (labels : list label),
  l <= 10 ->
  (forall c, In c carts -> In c (default_comps l)) ->
  (forall lb, In lb labels -> adm_label l lb) ->
  sph_transform RK l carts labels
  = map (map (fun s : surd => (Q2R (this (fst s)) * sqrt (Q2R (this (snd s))))%R)) (left_form l carts labels).
Proof. exact sph_transform_is_exact_R. Qed.
Print Assumptions C10_link_matrix_R.

Theorem C10_link_shell_transform_R :
  forall s : shell R,
  s_l s <= 10 ->
  (forall c, In c (comps_of s) -> In c (default_comps (s_l s))) ->
  (forall lb, In lb (labels_of s) -> adm_label (s_l s) lb) ->
  shell_transform RK s
  = map (map (fun p : surd => (Q2R (this (fst p)) * sqrt (Q2R (this (snd p))))%R))
        (left_form (s_l s) (comps_of s) (labels_of s)).
Proof. exact shell_transform_is_exact_R. Qed.
Print Assumptions C10_link_shell_transform_R.

(* ---------------- the hypotheses are satisfiable ---------------- *)
Example C10_link_hypotheses_R :
  is_field RK /\ (forall n, ofnat RK (S n) <> f0 RK) /\ sqrt_mul_pos RK /\ sqrt_div_pos RK
  /\ (forall x, fapx RK x = x).
Proof. exact link_hypotheses_R. Qed.
Print Assumptions C10_link_hypotheses_R.

(* d shell, default conventions, function c0, component zz: the exact model's (1/2, 4) is the real number 1 *)
Example C10_link_d_c0_zz_R :
  nth 5 (nth 2 (sph_transform RK 2 (default_comps 2) (default_labels 2)) []) 0%R = 1%R.
Proof. exact link_d_c0_zz_R. Qed.
Print Assumptions C10_link_d_c0_zz_R.
