(* Props/C13.v — theorems backing property C13 (contractions behave as the linear combinations they
   denote).  Only statements closed by [exact] of a lemma proved in Proofs/ContractionP.v, each followed
   by Print Assumptions; the Examples are concrete instances (hypotheses satisfiable).

   Vocabulary (Proofs/ContractionP.v):
     prims s            the list of (exponent, coefficient-row) pairs of a shell
     set_prims s ps     the shell with the same frame (l, centre, type, conventions) and primitives ps
     set_coeffs s C     ... with the coefficient matrix C;   col_shell s m   ... with column m only
     scale_col s m k    ... with column m multiplied by k;   colfac m0 k m = k if m = m0, else 1
     kblock g sa sb     the two-index block built by the code's two tensordots (Model/MomentInt.block_of)
                        from a primitive kernel g alpha beta ca cb;  kentry = its defining double sum
     nblock / nentry    the block after step 1 of the assembly (x norm_cont_a x norm_cont_b)
     scale_hyps s m k kabs   kabs <> 0, sqrt(k^2 x) = kabs sqrt x and sqrt x <> 0 on the self-overlaps x of column m
   All theorems quantify over the field, the shells (any K, M, l, exponents, coefficients) and, where a
   kernel g appears, over every primitive kernel; the models of _moment_int.py, _diff_operator_int.py and
   angular_momentum.py are proved to be kernel blocks (the four .._is_kernel_block theorems), so every C13 theorem about
   kblock / kentry / nblock holds for overlap, multipole moments, kinetic energy, momentum, angular momentum.
   The evaluation block, the point-charge / nuclear-attraction kernel and the electron-repulsion block have
   their own theorems (.._eval, .._one_elec / .._point_charge, .._eri).

   Stated in full in the property, proved here only in part (names end in _partial):
     generalized_is_segmented, ASSEMBLED: "for every public function, the array of a basis and of the basis in
       which every generalized shell is replaced by its single-column shells coincide".  Proved in full for
       evaluate_basis and evaluate_deriv_basis (C13_generalized_is_segmented_basis_eval(_deriv): any basis,
       Cartesian / spherical / mixed, with transform).  For the two-index functions it is proved for ONE pair of
       shells of any coordinate types (the four C13_generalized_is_segmented_assembled .._partial theorems: the
       processed block is the segment-major matrix of the tiles; overlap_integral_asymmetric([sa], [sb]) = the
       same of the single-column shells, with transforms; any frame kernel); for SEVERAL shells per basis and
       the symmetric assembly it is proved for overlap_integral and kinetic_energy_integral in Props/C13_assembled.v
       (C13_generalized_is_segmented_assembled_overlap: any basis, any coordinate types, with transform; a generic
       reduction for the other symmetric two-index functions is there too); for the other two-index functions
       and the four-index assembly the statement is decided by the correspondence search only.  At shell-block level (the input of the flattening) the law is
       proved for every kernel (the C13_generalized_is_segmented theorems).
     column_scale, ASSEMBLED: "for every public function, multiplying a column by k > 0 changes nothing and by
       k < 0 flips the sign of that function".  Proved assembled for overlap_integral(_asymmetric) and positive
       factors (the two C13_column_scale_assembled .._partial theorems); for every kernel, both signs, on the contraction-
       normalised block / entries (the C13_column_scale theorems, before the spherical transform and the flattening, which
       act per segment); assembled for the other functions: correspondence search. *)
From Coq Require Import List Arith Permutation QArith Qcanon Reals.
From GB Require Import Base.Field Base.FNum Base.Tables Base.Blocks Model.Shell Model.MomentInt
  Model.Spherical Model.Assembly Model.Overlap Model.DiffOp Model.OneElec Model.TwoElec Model.Eval
  Proofs.BlockP Proofs.ContractionP.
Import ListNotations.

(* every entry of a two-index block built by block_of from a primitive kernel g is the double sum over the (exponent, coefficient-row) pairs of the two shells *)
Theorem C13_kernel_block_entry_is_double_sum :
  forall (F : Type) (K : Fops F) (g : F -> F -> comp -> comp -> F) (sa sb : shell F),
  kblock K g sa sb = mk4 (nseg sa) (ncomp sa) (nseg sb) (ncomp sb) (kentry K g sa sb).
Proof. exact (@kblock_form). Qed.
Print Assumptions C13_kernel_block_entry_is_double_sum.

(* _compute_multipole_moment_integrals (overlap, moments) is such a block, for every order *)
Theorem C13_mm_block_is_kernel_block :
  forall (F : Type) (K : Fops F) (Cx Cy Cz : F) (orders : list comp) (sa sb : shell F),
  mm_block K Cx Cy Cz orders sa sb =
  map (fun o : comp => kblock K (mm_kern K Cx Cy Cz (omax orders) sa sb o) sa sb) orders.
Proof. exact (@mm_block_kernel). Qed.
Print Assumptions C13_mm_block_is_kernel_block.

Theorem C13_overlap_block_is_kernel_block :
  forall (F : Type) (K : Fops F) (sa sb : shell F),
  overlap_block K sa sb = kblock K (ov_kern K sa sb) sa sb.
Proof. exact (@overlap_block_kernel). Qed.
Print Assumptions C13_overlap_block_is_kernel_block.

(* _compute_differential_operator_integrals (kinetic energy, momentum) *)
Theorem C13_diffop_block_is_kernel_block :
  forall (F : Type) (K : Fops F) (orders : list comp) (sa sb : shell F),
  diffop_block K orders sa sb =
  map (fun o : comp => kblock K (do_kern K (omax orders) sa sb o) sa sb) orders.
Proof. exact (@diffop_block_kernel). Qed.
Print Assumptions C13_diffop_block_is_kernel_block.

(* angular momentum: three kernel blocks zipped *)
Theorem C13_angmom_block_is_kernel_block :
  forall (F : Type) (K : Fops F) (sa sb : shell F),
  angmom_block_re K sa sb =
  zip4 (fun (xy : list F) (z : F) => xy ++ [z])
  (zip4 (fun x y : F => [x; y]) (kblock K (am_kern K 0 sa sb) sa sb)
  (kblock K (am_kern K 1 sa sb) sa sb)) (kblock K (am_kern K 2 sa sb) sa sb).
Proof. exact (@angmom_block_kernel). Qed.
Print Assumptions C13_angmom_block_is_kernel_block.

(* finite sums over the field are invariant under Permutation *)
Theorem C13_fsum_perm :
  forall (F : Type) (K : Fops F),
  is_field K -> forall l l' : list F, Permutation l l' -> fsum K l = fsum K l'.
Proof. exact (@fsum_perm). Qed.
Print Assumptions C13_fsum_perm.

(* 1. column (ma, mb) of the block of two generalized shells = the block of the two single-column shells (any kernel) *)
Theorem C13_generalized_is_segmented :
  forall (F : Type) (K : Fops F) (g : F -> F -> comp -> comp -> F) (sa sb : shell F) (ma mb : nat),
  (ma < nseg sa)%nat ->
  (mb < nseg sb)%nat ->
  kblock K g (col_shell K sa ma) (col_shell K sb mb) =
  mk4 1 (ncomp sa) 1 (ncomp sb) (fun _ ia _ ib : nat => nth4' K ma ia mb ib (kblock K g sa sb)).
Proof. exact (@kblock_segmented). Qed.
Print Assumptions C13_generalized_is_segmented.

Theorem C13_generalized_is_segmented_entry :
  forall (F : Type) (K : Fops F) (g : F -> F -> comp -> comp -> F) (sa sb : shell F)
  (ma ia mb ib : nat),
  (ma < nseg sa)%nat ->
  (ia < ncomp sa)%nat ->
  (mb < nseg sb)%nat ->
  (ib < ncomp sb)%nat ->
  nth4' K ma ia mb ib (kblock K g sa sb) =
  nth4' K 0 ia 0 ib (kblock K g (col_shell K sa ma) (col_shell K sb mb)).
Proof. exact (@kblock_segmented_entry). Qed.
Print Assumptions C13_generalized_is_segmented_entry.

(* ... for the multipole-moment / overlap block, all orders at once *)
Theorem C13_generalized_is_segmented_mm :
  forall (F : Type) (K : Fops F) (Cx Cy Cz : F) (orders : list comp) (sa sb : shell F)
  (ma mb : nat),
  (ma < nseg sa)%nat ->
  (mb < nseg sb)%nat ->
  mm_block K Cx Cy Cz orders (col_shell K sa ma) (col_shell K sb mb) =
  map
  (fun blk : list (list (list (list F))) =>
  mk4 1 (ncomp sa) 1 (ncomp sb) (fun _ ia _ ib : nat => nth4' K ma ia mb ib blk))
  (mm_block K Cx Cy Cz orders sa sb).
Proof. exact (@mm_generalized_is_segmented). Qed.
Print Assumptions C13_generalized_is_segmented_mm.

(* ... for the evaluation block (any back-end mode, any derivative order) *)
Theorem C13_generalized_is_segmented_eval :
  forall (F : Type) (K : Fops F),
  is_field K ->
  forall (md : rowmode) (ef : F -> F) (o : comp) (s : shell F) (pts : list point) (m : nat),
  (m < nseg s)%nat ->
  block_with K md (fun x : F => x) ef (col_shell K s m) o pts =
  [nth m (block_with K md (fun x : F => x) ef s o pts) []].
Proof. exact (@eval_generalized_is_segmented). Qed.
Print Assumptions C13_generalized_is_segmented_eval.

(* ... for the one-electron Boys kernel (contraction before the horizontal recursion) *)
Theorem C13_generalized_is_segmented_one_elec :
  forall (F : Type) (K : Fops F) (Cx Cy Cz : F) (sa sb : shell F) (ma mb : nat),
  (ma < nseg sa)%nat ->
  (mb < nseg sb)%nat ->
  one_elec_point K Cx Cy Cz (col_shell K sa ma) (col_shell K sb mb) =
  [map (fun b2 : list (list F) => [nth mb b2 []]) (nth ma (one_elec_point K Cx Cy Cz sa sb) [])].
Proof. exact (@oe_generalized_is_segmented). Qed.
Print Assumptions C13_generalized_is_segmented_one_elec.

(* ... for PointChargeIntegral.construct_array_contraction (with the la < lb swap), every point *)
Theorem C13_generalized_is_segmented_point_charge :
  forall (F : Type) (K : Fops F) (points : list (F * F * F * F)) (sa sb : shell F) (ma mb : nat),
  (ma < nseg sa)%nat ->
  (mb < nseg sb)%nat ->
  point_charge_block K points (col_shell K sa ma) (col_shell K sb mb) =
  mk 1
  (fun _ : nat =>
  mk (ncomp sa)
  (fun ia : nat =>
  mk 1
  (fun _ : nat =>
  mk (ncomp sb)
  (fun ib : nat =>
  nth ib (nth mb (nth ia (nth ma (point_charge_block K points sa sb) []) []) []) [])))).
Proof. exact (@pc_generalized_is_segmented). Qed.
Print Assumptions C13_generalized_is_segmented_point_charge.

(* ... for the electron-repulsion block, four shells *)
Theorem C13_generalized_is_segmented_eri :
  forall (F : Type) (K : Fops F),
  is_field K ->
  forall (s1 s2 s3 s4 : shell F) (m1 m2 m3 m4 : nat),
  (m1 < nseg s1)%nat ->
  (m2 < nseg s2)%nat ->
  (m3 < nseg s3)%nat ->
  (m4 < nseg s4)%nat ->
  eri_block K (col_shell K s1 m1) (col_shell K s2 m2) (col_shell K s3 m3) (col_shell K s4 m4) =
  mk 1
  (fun _ : nat =>
  mk (ncomp s1)
  (fun i1 : nat =>
  mk 1
  (fun _ : nat =>
  mk (ncomp s2)
  (fun i2 : nat =>
  mk 1
  (fun _ : nat =>
  mk (ncomp s3)
  (fun i3 : nat =>
  mk 1
  (fun _ : nat =>
  mk (ncomp s4)
  (fun i4 : nat => nth8 K m1 i1 m2 i2 m3 i3 m4 i4 (eri_block K s1 s2 s3 s4))))))))).
Proof. exact (@eri_generalized_is_segmented). Qed.
Print Assumptions C13_generalized_is_segmented_eri.

(* the contraction norms of the single-column shells are the rows of norm_cont of the generalized shell *)
Theorem C13_norm_cont_segmented :
  forall (F : Type) (K : Fops F) (s : shell F) (m : nat),
  (m < nseg s)%nat -> norm_cont K (col_shell K s m) = [nth m (norm_cont K s) []].
Proof. exact (@norm_cont_col_shell). Qed.
Print Assumptions C13_norm_cont_segmented.

(* assembled: evaluate_basis of the basis in which every generalized shell is replaced by its single-column shells, in order, is the same matrix (same functions, same order: segment-major flattening) *)
Theorem C13_generalized_is_segmented_basis_eval :
  forall (F : Type) (K : Fops F),
  is_field K ->
  forall (basis : list (shell F)) (pts : list point) (T : option (list (list F))),
  evaluate_basis_model K (segmented_basis K basis) pts T = evaluate_basis_model K basis pts T.
Proof. exact (@evaluate_basis_generalized_is_segmented). Qed.
Print Assumptions C13_generalized_is_segmented_basis_eval.

Theorem C13_generalized_is_segmented_basis_eval_deriv :
  forall (F : Type) (K : Fops F),
  is_field K ->
  forall (basis : list (shell F)) (pts : list point) (o : comp) (T : option (list (list F)))
  (bk : backend),
  evaluate_deriv_basis_model K (segmented_basis K basis) pts o T bk =
  evaluate_deriv_basis_model K basis pts o T bk.
Proof. exact (@evaluate_deriv_basis_generalized_is_segmented). Qed.
Print Assumptions C13_generalized_is_segmented_basis_eval_deriv.

(* 2. any Permutation of the (exponent, coefficient-row) pairs of either shell leaves the block unchanged (any kernel) *)
Theorem C13_prim_perm_invariant :
  forall (F : Type) (K : Fops F),
  is_field K ->
  forall (g : F -> F -> comp -> comp -> F) (sa sb : shell F) (psa psb : list prim),
  Permutation (prims sa) psa ->
  Permutation (prims sb) psb ->
  nseg (set_prims sa psa) = nseg sa ->
  nseg (set_prims sb psb) = nseg sb ->
  kblock K g (set_prims sa psa) (set_prims sb psb) = kblock K g sa sb.
Proof. exact (@kblock_perm). Qed.
Print Assumptions C13_prim_perm_invariant.

(* a permutation of the rows of a rectangular K x M matrix keeps M (discharges the nseg hypotheses) *)
Theorem C13_perm_keeps_columns :
  forall (F : Type) (s : shell F) (ps : list prim) (M : nat),
  rect_rows M (s_coeffs s) ->
  wf_shell s -> s_coeffs s <> [] -> Permutation (prims s) ps -> nseg (set_prims s ps) = nseg s.
Proof. exact (@nseg_perm). Qed.
Print Assumptions C13_perm_keeps_columns.

Theorem C13_prim_perm_invariant_mm :
  forall (F : Type) (K : Fops F),
  is_field K ->
  forall (Cx Cy Cz : F) (orders : list comp) (sa sb : shell F) (psa psb : list prim),
  Permutation (prims sa) psa ->
  Permutation (prims sb) psb ->
  nseg (set_prims sa psa) = nseg sa ->
  nseg (set_prims sb psb) = nseg sb ->
  mm_block K Cx Cy Cz orders (set_prims sa psa) (set_prims sb psb) =
  mm_block K Cx Cy Cz orders sa sb.
Proof. exact (@mm_prim_perm_invariant). Qed.
Print Assumptions C13_prim_perm_invariant_mm.

Theorem C13_prim_perm_invariant_eval :
  forall (F : Type) (K : Fops F),
  is_field K ->
  forall (md : rowmode) (ef : F -> F) (o : comp) (s : shell F) (ps : list prim) (pts : list point),
  Permutation (prims s) ps ->
  nseg (set_prims s ps) = nseg s ->
  block_with K md (fun x : F => x) ef (set_prims s ps) o pts =
  block_with K md (fun x : F => x) ef s o pts.
Proof. exact (@eval_prim_perm_invariant). Qed.
Print Assumptions C13_prim_perm_invariant_eval.

Theorem C13_prim_perm_invariant_one_elec :
  forall (F : Type) (K : Fops F),
  is_field K ->
  forall (Cx Cy Cz : F) (sa sb : shell F) (psa psb : list prim),
  Permutation (prims sa) psa ->
  Permutation (prims sb) psb ->
  nseg (set_prims sa psa) = nseg sa ->
  nseg (set_prims sb psb) = nseg sb ->
  one_elec_point K Cx Cy Cz (set_prims sa psa) (set_prims sb psb) = one_elec_point K Cx Cy Cz sa sb.
Proof. exact (@oe_prim_perm_invariant). Qed.
Print Assumptions C13_prim_perm_invariant_one_elec.

Theorem C13_prim_perm_invariant_point_charge :
  forall (F : Type) (K : Fops F),
  is_field K ->
  forall (points : list (F * F * F * F)) (sa sb : shell F) (psa psb : list prim),
  Permutation (prims sa) psa ->
  Permutation (prims sb) psb ->
  nseg (set_prims sa psa) = nseg sa ->
  nseg (set_prims sb psb) = nseg sb ->
  point_charge_block K points (set_prims sa psa) (set_prims sb psb) =
  point_charge_block K points sa sb.
Proof. exact (@pc_prim_perm_invariant). Qed.
Print Assumptions C13_prim_perm_invariant_point_charge.

Theorem C13_prim_perm_invariant_eri :
  forall (F : Type) (K : Fops F),
  is_field K ->
  forall (s1 s2 s3 s4 : shell F) (p1 p2 p3 p4 : list prim),
  Permutation (prims s1) p1 ->
  Permutation (prims s2) p2 ->
  Permutation (prims s3) p3 ->
  Permutation (prims s4) p4 ->
  nseg (set_prims s1 p1) = nseg s1 ->
  nseg (set_prims s2 p2) = nseg s2 ->
  nseg (set_prims s3 p3) = nseg s3 ->
  nseg (set_prims s4 p4) = nseg s4 ->
  eri_block K (set_prims s1 p1) (set_prims s2 p2) (set_prims s3 p3) (set_prims s4 p4) =
  eri_block K s1 s2 s3 s4.
Proof. exact (@eri_prim_perm_invariant). Qed.
Print Assumptions C13_prim_perm_invariant_eri.

(* 3. replacing (alpha, r) by (alpha, r1), (alpha, r2) with r = r1 + r2 leaves the block unchanged (any kernel, either shell) *)
Theorem C13_prim_split_a :
  forall (F : Type) (K : Fops F),
  is_field K ->
  forall (g : F -> F -> comp -> comp -> F) (sa sb : shell F) (l1 l2 : list (F * list F))
  (a : F) (r r1 r2 : list F),
  prims sa = l1 ++ (a, r) :: l2 ->
  r = map2 (fadd K) r1 r2 ->
  length r1 = length r2 ->
  kblock K g (set_prims sa (l1 ++ (a, r1) :: (a, r2) :: l2)) sb = kblock K g sa sb.
Proof. exact (@kblock_split_a). Qed.
Print Assumptions C13_prim_split_a.

Theorem C13_prim_split_b :
  forall (F : Type) (K : Fops F),
  is_field K ->
  forall (g : F -> F -> comp -> comp -> F) (sa sb : shell F) (l1 l2 : list (F * list F))
  (a : F) (r r1 r2 : list F),
  prims sb = l1 ++ (a, r) :: l2 ->
  r = map2 (fadd K) r1 r2 ->
  length r1 = length r2 ->
  kblock K g sa (set_prims sb (l1 ++ (a, r1) :: (a, r2) :: l2)) = kblock K g sa sb.
Proof. exact (@kblock_split_b). Qed.
Print Assumptions C13_prim_split_b.

Theorem C13_prim_split_mm_a :
  forall (F : Type) (K : Fops F),
  is_field K ->
  forall (Cx Cy Cz : F) (orders : list comp) (sa sb : shell F) (l1 l2 : list (F * list F))
  (a : F) (r r1 r2 : list F),
  prims sa = l1 ++ (a, r) :: l2 ->
  r = map2 (fadd K) r1 r2 ->
  length r1 = length r2 ->
  mm_block K Cx Cy Cz orders (set_prims sa (l1 ++ (a, r1) :: (a, r2) :: l2)) sb =
  mm_block K Cx Cy Cz orders sa sb.
Proof. exact (@mm_prim_split_a). Qed.
Print Assumptions C13_prim_split_mm_a.

Theorem C13_prim_split_mm_b :
  forall (F : Type) (K : Fops F),
  is_field K ->
  forall (Cx Cy Cz : F) (orders : list comp) (sa sb : shell F) (l1 l2 : list (F * list F))
  (a : F) (r r1 r2 : list F),
  prims sb = l1 ++ (a, r) :: l2 ->
  r = map2 (fadd K) r1 r2 ->
  length r1 = length r2 ->
  mm_block K Cx Cy Cz orders sa (set_prims sb (l1 ++ (a, r1) :: (a, r2) :: l2)) =
  mm_block K Cx Cy Cz orders sa sb.
Proof. exact (@mm_prim_split_b). Qed.
Print Assumptions C13_prim_split_mm_b.

Theorem C13_prim_split_eval :
  forall (F : Type) (K : Fops F),
  is_field K ->
  forall (md : rowmode) (ef : F -> F) (o : comp) (s : shell F) (l1 l2 : list (F * list F))
  (a : F) (r r1 r2 : list F) (pts : list point),
  prims s = l1 ++ (a, r) :: l2 ->
  r = map2 (fadd K) r1 r2 ->
  length r1 = length r2 ->
  block_with K md (fun x : F => x) ef (set_prims s (l1 ++ (a, r1) :: (a, r2) :: l2)) o pts =
  block_with K md (fun x : F => x) ef s o pts.
Proof. exact (@eval_prim_split). Qed.
Print Assumptions C13_prim_split_eval.

Theorem C13_prim_split_point_charge_a :
  forall (F : Type) (K : Fops F),
  is_field K ->
  forall (points : list (F * F * F * F)) (sa sb : shell F) (l1 l2 : list (F * list F))
  (a : F) (r r1 r2 : list F),
  prims sa = l1 ++ (a, r) :: l2 ->
  r = map2 (fadd K) r1 r2 ->
  length r1 = length r2 ->
  point_charge_block K points (set_prims sa (l1 ++ (a, r1) :: (a, r2) :: l2)) sb =
  point_charge_block K points sa sb.
Proof. exact (@pc_prim_split_a). Qed.
Print Assumptions C13_prim_split_point_charge_a.

Theorem C13_prim_split_point_charge_b :
  forall (F : Type) (K : Fops F),
  is_field K ->
  forall (points : list (F * F * F * F)) (sa sb : shell F) (l1 l2 : list (F * list F))
  (a : F) (r r1 r2 : list F),
  prims sb = l1 ++ (a, r) :: l2 ->
  r = map2 (fadd K) r1 r2 ->
  length r1 = length r2 ->
  point_charge_block K points sa (set_prims sb (l1 ++ (a, r1) :: (a, r2) :: l2)) =
  point_charge_block K points sa sb.
Proof. exact (@pc_prim_split_b). Qed.
Print Assumptions C13_prim_split_point_charge_b.

Theorem C13_prim_split_eri_1 :
  forall (F : Type) (K : Fops F),
  is_field K ->
  forall (s1 s2 s3 s4 : shell F) (l1 l2 : list (F * list F)) (a : F) (r r1 r2 : list F),
  prims s1 = l1 ++ (a, r) :: l2 ->
  r = map2 (fadd K) r1 r2 ->
  length r1 = length r2 ->
  eri_block K (set_prims s1 (l1 ++ (a, r1) :: (a, r2) :: l2)) s2 s3 s4 = eri_block K s1 s2 s3 s4.
Proof. exact (@eri_prim_split_1). Qed.
Print Assumptions C13_prim_split_eri_1.

Theorem C13_prim_split_eri_2 :
  forall (F : Type) (K : Fops F),
  is_field K ->
  forall (s1 s2 s3 s4 : shell F) (l1 l2 : list (F * list F)) (a : F) (r r1 r2 : list F),
  prims s2 = l1 ++ (a, r) :: l2 ->
  r = map2 (fadd K) r1 r2 ->
  length r1 = length r2 ->
  eri_block K s1 (set_prims s2 (l1 ++ (a, r1) :: (a, r2) :: l2)) s3 s4 = eri_block K s1 s2 s3 s4.
Proof. exact (@eri_prim_split_2). Qed.
Print Assumptions C13_prim_split_eri_2.

Theorem C13_prim_split_eri_3 :
  forall (F : Type) (K : Fops F),
  is_field K ->
  forall (s1 s2 s3 s4 : shell F) (l1 l2 : list (F * list F)) (a : F) (r r1 r2 : list F),
  prims s3 = l1 ++ (a, r) :: l2 ->
  r = map2 (fadd K) r1 r2 ->
  length r1 = length r2 ->
  eri_block K s1 s2 (set_prims s3 (l1 ++ (a, r1) :: (a, r2) :: l2)) s4 = eri_block K s1 s2 s3 s4.
Proof. exact (@eri_prim_split_3). Qed.
Print Assumptions C13_prim_split_eri_3.

Theorem C13_prim_split_eri_4 :
  forall (F : Type) (K : Fops F),
  is_field K ->
  forall (s1 s2 s3 s4 : shell F) (l1 l2 : list (F * list F)) (a : F) (r r1 r2 : list F),
  prims s4 = l1 ++ (a, r) :: l2 ->
  r = map2 (fadd K) r1 r2 ->
  length r1 = length r2 ->
  eri_block K s1 s2 s3 (set_prims s4 (l1 ++ (a, r1) :: (a, r2) :: l2)) = eri_block K s1 s2 s3 s4.
Proof. exact (@eri_prim_split_4). Qed.
Print Assumptions C13_prim_split_eri_4.

(* the ERI block only depends on the contraction sums of its four shells *)
Theorem C13_eri_block_congr :
  forall (F : Type) (K : Fops F),
  is_field K ->
  forall s1 s2 s3 s4 s1' s2' s3' s4' : shell F,
  same_frame s1 s1' ->
  same_frame s2 s2' ->
  same_frame s3 s3' ->
  same_frame s4 s4' ->
  nseg s1' = nseg s1 ->
  nseg s2' = nseg s2 ->
  nseg s3' = nseg s3 ->
  nseg s4' = nseg s4 ->
  (forall m : nat, sum_equiv K (prims s1) m (prims s1') m) ->
  (forall m : nat, sum_equiv K (prims s2) m (prims s2') m) ->
  (forall m : nat, sum_equiv K (prims s3) m (prims s3') m) ->
  (forall m : nat, sum_equiv K (prims s4) m (prims s4') m) ->
  eri_block K s1' s2' s3' s4' = eri_block K s1 s2 s3 s4.
Proof. exact (@eri_block_congr). Qed.
Print Assumptions C13_eri_block_congr.

(* 4. the un-normalised block is additive and homogeneous in the coefficient matrix of each shell (any kernel) *)
Theorem C13_unnormalised_linear_add_a :
  forall (F : Type) (K : Fops F),
  is_field K ->
  forall (g : F -> F -> comp -> comp -> F) (sa sb : shell F) (C1 C2 : list (list F))
  (ma ia mb ib : nat),
  same_shape C1 C2 ->
  kentry K g (set_coeffs sa (rows_add K C1 C2)) sb ma ia mb ib =
  fadd K (kentry K g (set_coeffs sa C1) sb ma ia mb ib)
  (kentry K g (set_coeffs sa C2) sb ma ia mb ib).
Proof. exact (@kentry_add_a). Qed.
Print Assumptions C13_unnormalised_linear_add_a.

Theorem C13_unnormalised_linear_scale_a :
  forall (F : Type) (K : Fops F),
  is_field K ->
  forall (g : F -> F -> comp -> comp -> F) (sa sb : shell F) (k : F) (C : list (list F))
  (ma ia mb ib : nat),
  kentry K g (set_coeffs sa (rows_scale K k C)) sb ma ia mb ib =
  fmul K k (kentry K g (set_coeffs sa C) sb ma ia mb ib).
Proof. exact (@kentry_scale_a). Qed.
Print Assumptions C13_unnormalised_linear_scale_a.

Theorem C13_unnormalised_linear_add_b :
  forall (F : Type) (K : Fops F),
  is_field K ->
  forall (g : F -> F -> comp -> comp -> F) (sa sb : shell F) (C1 C2 : list (list F))
  (ma ia mb ib : nat),
  same_shape C1 C2 ->
  kentry K g sa (set_coeffs sb (rows_add K C1 C2)) ma ia mb ib =
  fadd K (kentry K g sa (set_coeffs sb C1) ma ia mb ib)
  (kentry K g sa (set_coeffs sb C2) ma ia mb ib).
Proof. exact (@kentry_add_b). Qed.
Print Assumptions C13_unnormalised_linear_add_b.

Theorem C13_unnormalised_linear_scale_b :
  forall (F : Type) (K : Fops F),
  is_field K ->
  forall (g : F -> F -> comp -> comp -> F) (sa sb : shell F) (k : F) (C : list (list F))
  (ma ia mb ib : nat),
  kentry K g sa (set_coeffs sb (rows_scale K k C)) ma ia mb ib =
  fmul K k (kentry K g sa (set_coeffs sb C) ma ia mb ib).
Proof. exact (@kentry_scale_b). Qed.
Print Assumptions C13_unnormalised_linear_scale_b.

Theorem C13_unnormalised_linear_mm_add_a :
  forall (F : Type) (K : Fops F),
  is_field K ->
  forall (Cx Cy Cz : F) (orders : list comp) (sa sb : shell F) (C1 C2 : list (list F))
  (d ma ia mb ib : nat),
  same_shape C1 C2 ->
  (d < length orders)%nat ->
  (ma < nseg (set_coeffs sa C1))%nat ->
  (ia < ncomp sa)%nat ->
  (mb < nseg sb)%nat ->
  (ib < ncomp sb)%nat ->
  mm_entry' K Cx Cy Cz orders (set_coeffs sa (rows_add K C1 C2)) sb d ma ia mb ib =
  fadd K (mm_entry' K Cx Cy Cz orders (set_coeffs sa C1) sb d ma ia mb ib)
  (mm_entry' K Cx Cy Cz orders (set_coeffs sa C2) sb d ma ia mb ib).
Proof. exact (@mm_unnormalised_additive_a). Qed.
Print Assumptions C13_unnormalised_linear_mm_add_a.

Theorem C13_unnormalised_linear_mm_scale_a :
  forall (F : Type) (K : Fops F),
  is_field K ->
  forall (Cx Cy Cz : F) (orders : list comp) (sa sb : shell F) (k : F)
  (C : list (list F)) (d ma ia mb ib : nat),
  (d < length orders)%nat ->
  (ma < nseg (set_coeffs sa C))%nat ->
  (ia < ncomp sa)%nat ->
  (mb < nseg sb)%nat ->
  (ib < ncomp sb)%nat ->
  mm_entry' K Cx Cy Cz orders (set_coeffs sa (rows_scale K k C)) sb d ma ia mb ib =
  fmul K k (mm_entry' K Cx Cy Cz orders (set_coeffs sa C) sb d ma ia mb ib).
Proof. exact (@mm_unnormalised_homogeneous_a). Qed.
Print Assumptions C13_unnormalised_linear_mm_scale_a.

Theorem C13_unnormalised_linear_mm_add_b :
  forall (F : Type) (K : Fops F),
  is_field K ->
  forall (Cx Cy Cz : F) (orders : list comp) (sa sb : shell F) (C1 C2 : list (list F))
  (d ma ia mb ib : nat),
  same_shape C1 C2 ->
  (d < length orders)%nat ->
  (ma < nseg sa)%nat ->
  (ia < ncomp sa)%nat ->
  (mb < nseg (set_coeffs sb C1))%nat ->
  (ib < ncomp sb)%nat ->
  mm_entry' K Cx Cy Cz orders sa (set_coeffs sb (rows_add K C1 C2)) d ma ia mb ib =
  fadd K (mm_entry' K Cx Cy Cz orders sa (set_coeffs sb C1) d ma ia mb ib)
  (mm_entry' K Cx Cy Cz orders sa (set_coeffs sb C2) d ma ia mb ib).
Proof. exact (@mm_unnormalised_additive_b). Qed.
Print Assumptions C13_unnormalised_linear_mm_add_b.

Theorem C13_unnormalised_linear_mm_scale_b :
  forall (F : Type) (K : Fops F),
  is_field K ->
  forall (Cx Cy Cz : F) (orders : list comp) (sa sb : shell F) (k : F)
  (C : list (list F)) (d ma ia mb ib : nat),
  (d < length orders)%nat ->
  (ma < nseg sa)%nat ->
  (ia < ncomp sa)%nat ->
  (mb < nseg (set_coeffs sb C))%nat ->
  (ib < ncomp sb)%nat ->
  mm_entry' K Cx Cy Cz orders sa (set_coeffs sb (rows_scale K k C)) d ma ia mb ib =
  fmul K k (mm_entry' K Cx Cy Cz orders sa (set_coeffs sb C) d ma ia mb ib).
Proof. exact (@mm_unnormalised_homogeneous_b). Qed.
Print Assumptions C13_unnormalised_linear_mm_scale_b.

Theorem C13_unnormalised_linear_eval_add :
  forall (F : Type) (K : Fops F),
  is_field K ->
  forall (md : rowmode) (ef : F -> F) (o : comp) (s : shell F) (C1 C2 : list (list F))
  (p : point) (m c : nat),
  same_shape C1 C2 ->
  eval_entry K md ef o (set_coeffs s (rows_add K C1 C2)) p m c =
  fadd K (eval_entry K md ef o (set_coeffs s C1) p m c)
  (eval_entry K md ef o (set_coeffs s C2) p m c).
Proof. exact (@eval_unnormalised_additive). Qed.
Print Assumptions C13_unnormalised_linear_eval_add.

Theorem C13_unnormalised_linear_eval_scale :
  forall (F : Type) (K : Fops F),
  is_field K ->
  forall (md : rowmode) (ef : F -> F) (o : comp) (s : shell F) (k : F)
  (C : list (list F)) (p : point) (m c : nat),
  eval_entry K md ef o (set_coeffs s (rows_scale K k C)) p m c =
  fmul K k (eval_entry K md ef o (set_coeffs s C) p m c).
Proof. exact (@eval_unnormalised_homogeneous). Qed.
Print Assumptions C13_unnormalised_linear_eval_scale.

(* 5a. a column of each shell multiplied by a factor: the un-normalised entries pick up the factors *)
Theorem C13_column_scale_unnormalised :
  forall (F : Type) (K : Fops F),
  is_field K ->
  forall (g : F -> F -> comp -> comp -> F) (sa sb : shell F) (m0a : nat)
  (ka : F) (m0b : nat) (kb : F) (ma ia mb ib : nat),
  kentry K g (scale_col K sa m0a ka) (scale_col K sb m0b kb) ma ia mb ib =
  fmul K (fmul K (colfac K m0a ka ma) (colfac K m0b kb mb)) (kentry K g sa sb ma ia mb ib).
Proof. exact (@kentry_scale_col). Qed.
Print Assumptions C13_column_scale_unnormalised.

Theorem C13_column_scale_mm_unnormalised :
  forall (F : Type) (K : Fops F),
  is_field K ->
  forall (Cx Cy Cz : F) (orders : list comp) (sa sb : shell F) (m0a : nat)
  (ka : F) (m0b : nat) (kb : F) (d ma ia mb ib : nat),
  (d < length orders)%nat ->
  (ma < nseg sa)%nat ->
  (ia < ncomp sa)%nat ->
  (mb < nseg sb)%nat ->
  (ib < ncomp sb)%nat ->
  mm_entry' K Cx Cy Cz orders (scale_col K sa m0a ka) (scale_col K sb m0b kb) d ma ia mb ib =
  fmul K (fmul K (colfac K m0a ka ma) (colfac K m0b kb mb))
  (mm_entry' K Cx Cy Cz orders sa sb d ma ia mb ib).
Proof. exact (@mm_scale_col_unnormalised). Qed.
Print Assumptions C13_column_scale_mm_unnormalised.

(* 5b. with sqrt(k^2 x) = kabs sqrt x on the self-overlaps of that column, norm_cont of the scaled column is divided by kabs *)
Theorem C13_column_scale_norm_cont :
  forall (F : Type) (K : Fops F),
  is_field K ->
  forall (s : shell F) (m0 : nat) (k ka : F),
  (forall x : F, fapx K x = x) ->
  ka <> f0 K ->
  ((m0 < nseg s)%nat ->
  forall c : nat,
  (c < ncomp s)%nat ->
  fsqrt K (fmul K (fmul K k k) (selfov K s m0 c)) = fmul K ka (fsqrt K (selfov K s m0 c))) ->
  ((m0 < nseg s)%nat -> forall c : nat, (c < ncomp s)%nat -> fsqrt K (selfov K s m0 c) <> f0 K) ->
  norm_cont K (scale_col K s m0 k) =
  mk (nseg s)
  (fun m : nat =>
  mk (ncomp s)
  (fun c : nat => fmul K (colfac K m0 (fdiv K (f1 K) ka) m) (ncget K (norm_cont K s) m c))).
Proof. exact (@norm_cont_scale_col). Qed.
Print Assumptions C13_column_scale_norm_cont.

(* 5. contraction-normalised block: function m0 is multiplied by k/kabs (= +1 for k > 0, -1 for k < 0), nothing else changes *)
Theorem C13_column_scale :
  forall (F : Type) (K : Fops F),
  is_field K ->
  forall (g : F -> F -> comp -> comp -> F) (sa sb : shell F) (m0a : nat)
  (ka kaa : F) (m0b : nat) (kb kba : F),
  (forall x : F, fapx K x = x) ->
  scale_hyps K sa m0a ka kaa ->
  scale_hyps K sb m0b kb kba ->
  nblock K g (scale_col K sa m0a ka) (scale_col K sb m0b kb) =
  mk4 (nseg sa) (ncomp sa) (nseg sb) (ncomp sb)
  (fun ma ia mb ib : nat =>
  fmul K (fmul K (colfac K m0a (fdiv K ka kaa) ma) (colfac K m0b (fdiv K kb kba) mb))
  (nth4' K ma ia mb ib (nblock K g sa sb))).
Proof. exact (@nblock_scale_col). Qed.
Print Assumptions C13_column_scale.

Theorem C13_column_scale_a :
  forall (F : Type) (K : Fops F),
  is_field K ->
  forall (g : F -> F -> comp -> comp -> F) (sa sb : shell F) (m0 : nat) (k kabs : F),
  (forall x : F, fapx K x = x) ->
  scale_hyps K sa m0 k kabs ->
  nblock K g (scale_col K sa m0 k) sb =
  mk4 (nseg sa) (ncomp sa) (nseg sb) (ncomp sb)
  (fun ma ia mb ib : nat =>
  fmul K (colfac K m0 (fdiv K k kabs) ma) (nth4' K ma ia mb ib (nblock K g sa sb))).
Proof. exact (@nblock_scale_col_a). Qed.
Print Assumptions C13_column_scale_a.

Theorem C13_column_scale_b :
  forall (F : Type) (K : Fops F),
  is_field K ->
  forall (g : F -> F -> comp -> comp -> F) (sa sb : shell F) (m0 : nat) (k kabs : F),
  (forall x : F, fapx K x = x) ->
  scale_hyps K sb m0 k kabs ->
  nblock K g sa (scale_col K sb m0 k) =
  mk4 (nseg sa) (ncomp sa) (nseg sb) (ncomp sb)
  (fun ma ia mb ib : nat =>
  fmul K (colfac K m0 (fdiv K k kabs) mb) (nth4' K ma ia mb ib (nblock K g sa sb))).
Proof. exact (@nblock_scale_col_b). Qed.
Print Assumptions C13_column_scale_b.

(* k > 0 (kabs = k): unchanged *)
Theorem C13_column_scale_positive :
  forall (F : Type) (K : Fops F),
  is_field K ->
  forall (g : F -> F -> comp -> comp -> F) (sa sb : shell F) (m0a : nat)
  (ka : F) (m0b : nat) (kb : F),
  (forall x : F, fapx K x = x) ->
  scale_hyps K sa m0a ka ka ->
  scale_hyps K sb m0b kb kb ->
  nblock K g (scale_col K sa m0a ka) (scale_col K sb m0b kb) = nblock K g sa sb.
Proof. exact (@nblock_scale_col_pos). Qed.
Print Assumptions C13_column_scale_positive.

(* k < 0 (kabs = -k): the sign of that function only *)
Theorem C13_column_scale_negative :
  forall (F : Type) (K : Fops F),
  is_field K ->
  forall (g : F -> F -> comp -> comp -> F) (sa sb : shell F) (m0 : nat) (k : F),
  (forall x : F, fapx K x = x) ->
  scale_hyps K sa m0 k (fopp K k) ->
  nblock K g (scale_col K sa m0 k) sb =
  mk4 (nseg sa) (ncomp sa) (nseg sb) (ncomp sb)
  (fun ma ia mb ib : nat =>
  fmul K (colfac K m0 (fopp K (f1 K)) ma) (nth4' K ma ia mb ib (nblock K g sa sb))).
Proof. exact (@nblock_scale_col_neg_a). Qed.
Print Assumptions C13_column_scale_negative.

(* the same law for the value of a normalised function at a point *)
Theorem C13_column_scale_eval :
  forall (F : Type) (K : Fops F),
  is_field K ->
  forall (md : rowmode) (ef : F -> F) (o : comp) (s : shell F) (m0 : nat)
  (k kabs : F) (p : point) (m c : nat),
  (forall x : F, fapx K x = x) ->
  scale_hyps K s m0 k kabs ->
  (m < nseg s)%nat ->
  (c < ncomp s)%nat ->
  eval_nentry K md ef o (scale_col K s m0 k) p m c =
  fmul K (colfac K m0 (fdiv K k kabs) m) (eval_nentry K md ef o s p m c).
Proof. exact (@eval_column_scale). Qed.
Print Assumptions C13_column_scale_eval.

(* assembled (partial: overlap matrices, positive factors): overlap_integral is unchanged when any columns of any shells are multiplied by positive factors *)
Theorem C13_column_scale_assembled_partial :
  forall (F : Type) (K : Fops F),
  is_field K ->
  forall (basis basis' : list (shell F)) (T : option (list (list F))),
  (forall x : F, fapx K x = x) ->
  Forall2 (pos_rescaled K) basis basis' -> overlap_integral K basis' T = overlap_integral K basis T.
Proof. exact (@overlap_integral_scale_pos). Qed.
Print Assumptions C13_column_scale_assembled_partial.

Theorem C13_column_scale_assembled_asymm_partial :
  forall (F : Type) (K : Fops F),
  is_field K ->
  forall (b1 b1' b2 b2' : list (shell F)) (T1 T2 : option (list (list F))),
  (forall x : F, fapx K x = x) ->
  Forall2 (pos_rescaled K) b1 b1' ->
  Forall2 (pos_rescaled K) b2 b2' ->
  overlap_integral_asymm K b1' b2' T1 T2 = overlap_integral_asymm K b1 b2 T1 T2.
Proof. exact (@overlap_integral_asymm_scale_pos). Qed.
Print Assumptions C13_column_scale_assembled_asymm_partial.

(* assembled, two-index (partial: ONE pair of shells, any coordinate types): the processed block (norm_cont applied, spherical transforms applied, flattened) of two generalized shells is the matrix of the processed blocks of their single-column shells, tiles in segment-major order on both sides; any kernel G that reads only the frames of the shells *)
Theorem C13_generalized_is_segmented_assembled_pair_partial :
  forall (F : Type) (K : Fops F) (G : shell F -> shell F -> F -> F -> comp -> comp -> F)
  (sa sb : shell F),
  (forall ma mb : nat, G (col_shell K sa ma) (col_shell K sb mb) = G sa sb) ->
  pblock K (f0 K) (fadd K) (fmul K) (kblockf K G) (prep K sa) (prep K sb) =
  concat
  (mk (nseg sa)
  (fun ma : nat =>
  mk (if s_sph sa then length (shell_transform K sa) else ncomp sa)
  (fun i : nat =>
  concat
  (mk (nseg sb)
  (fun mb : nat =>
  nth i
  (pblock K (f0 K) (fadd K) (fmul K) (kblockf K G) (prep K (col_shell K sa ma))
  (prep K (col_shell K sb mb))) []))))).
Proof. exact (@pblock_segment_major). Qed.
Print Assumptions C13_generalized_is_segmented_assembled_pair_partial.

Theorem C13_generalized_is_segmented_assembled_overlap_pair_partial :
  forall (F : Type) (K : Fops F) (sa sb : shell F),
  pblock K (f0 K) (fadd K) (fmul K) (overlap_block K) (prep K sa) (prep K sb) =
  concat
  (mk (nseg sa)
  (fun ma : nat =>
  mk (if s_sph sa then length (shell_transform K sa) else ncomp sa)
  (fun i : nat =>
  concat
  (mk (nseg sb)
  (fun mb : nat =>
  nth i
  (pblock K (f0 K) (fadd K) (fmul K) (overlap_block K)
  (prep K (col_shell K sa ma)) (prep K (col_shell K sb mb))) []))))).
Proof. exact (@overlap_pblock_segment_major). Qed.
Print Assumptions C13_generalized_is_segmented_assembled_overlap_pair_partial.

(* public-function level (partial: one generalized shell on each side): the base_two_asymm array of ([sa], [sb]) equals that of (single-column shells of sa, single-column shells of sb), with or without transforms *)
Theorem C13_generalized_is_segmented_assembled_two_asymm_partial :
  forall (F : Type) (K : Fops F) (G : shell F -> shell F -> F -> F -> comp -> comp -> F)
  (sa sb : shell F) (T1 T2 : option (list (list F))),
  (0 < nseg sb)%nat ->
  (forall ma mb : nat, G (col_shell K sa ma) (col_shell K sb mb) = G sa sb) ->
  two_asymm_integral K (f0 K) (fadd K) (fmul K) (kblockf K G) (segments K sa) (segments K sb) T1 T2 =
  two_asymm_integral K (f0 K) (fadd K) (fmul K) (kblockf K G) [sa] [sb] T1 T2.
Proof. exact (@two_asymm_pair_segmented). Qed.
Print Assumptions C13_generalized_is_segmented_assembled_two_asymm_partial.

Theorem C13_generalized_is_segmented_assembled_overlap_asymm_partial :
  forall (F : Type) (K : Fops F) (sa sb : shell F) (T1 T2 : option (list (list F))),
  (0 < nseg sb)%nat ->
  overlap_integral_asymm K (segments K sa) (segments K sb) T1 T2 =
  overlap_integral_asymm K [sa] [sb] T1 T2.
Proof. exact (@overlap_asymm_pair_segmented). Qed.
Print Assumptions C13_generalized_is_segmented_assembled_overlap_asymm_partial.

(* 4. for the one-electron Boys kernel: linear through the horizontal recursion *)
Theorem C13_unnormalised_linear_one_elec_add_a :
  forall (F : Type) (K : Fops F),
  is_field K ->
  forall (Cx Cy Cz : F) (sa sb : shell F) (C1 C2 : list (list F)) (ma ia mb ib : nat),
  same_shape C1 C2 ->
  (ma < nseg (set_coeffs sa C1))%nat ->
  (ia < ncomp sa)%nat ->
  (mb < nseg sb)%nat ->
  (ib < ncomp sb)%nat ->
  nth4' K ma ia mb ib (one_elec_point K Cx Cy Cz (set_coeffs sa (rows_add K C1 C2)) sb) =
  fadd K (nth4' K ma ia mb ib (one_elec_point K Cx Cy Cz (set_coeffs sa C1) sb))
  (nth4' K ma ia mb ib (one_elec_point K Cx Cy Cz (set_coeffs sa C2) sb)).
Proof. exact (@oe_unnormalised_additive_a). Qed.
Print Assumptions C13_unnormalised_linear_one_elec_add_a.

Theorem C13_unnormalised_linear_one_elec_scale_a :
  forall (F : Type) (K : Fops F),
  is_field K ->
  forall (Cx Cy Cz : F) (sa sb : shell F) (k : F) (C : list (list F)) (ma ia mb ib : nat),
  (ma < nseg (set_coeffs sa C))%nat ->
  (ia < ncomp sa)%nat ->
  (mb < nseg sb)%nat ->
  (ib < ncomp sb)%nat ->
  nth4' K ma ia mb ib (one_elec_point K Cx Cy Cz (set_coeffs sa (rows_scale K k C)) sb) =
  fmul K k (nth4' K ma ia mb ib (one_elec_point K Cx Cy Cz (set_coeffs sa C) sb)).
Proof. exact (@oe_unnormalised_homogeneous_a). Qed.
Print Assumptions C13_unnormalised_linear_one_elec_scale_a.

Theorem C13_unnormalised_linear_one_elec_add_b :
  forall (F : Type) (K : Fops F),
  is_field K ->
  forall (Cx Cy Cz : F) (sa sb : shell F) (C1 C2 : list (list F)) (ma ia mb ib : nat),
  same_shape C1 C2 ->
  (ma < nseg sa)%nat ->
  (ia < ncomp sa)%nat ->
  (mb < nseg (set_coeffs sb C1))%nat ->
  (ib < ncomp sb)%nat ->
  nth4' K ma ia mb ib (one_elec_point K Cx Cy Cz sa (set_coeffs sb (rows_add K C1 C2))) =
  fadd K (nth4' K ma ia mb ib (one_elec_point K Cx Cy Cz sa (set_coeffs sb C1)))
  (nth4' K ma ia mb ib (one_elec_point K Cx Cy Cz sa (set_coeffs sb C2))).
Proof. exact (@oe_unnormalised_additive_b). Qed.
Print Assumptions C13_unnormalised_linear_one_elec_add_b.

Theorem C13_unnormalised_linear_one_elec_scale_b :
  forall (F : Type) (K : Fops F),
  is_field K ->
  forall (Cx Cy Cz : F) (sa sb : shell F) (k : F) (C : list (list F)) (ma ia mb ib : nat),
  (ma < nseg sa)%nat ->
  (ia < ncomp sa)%nat ->
  (mb < nseg (set_coeffs sb C))%nat ->
  (ib < ncomp sb)%nat ->
  nth4' K ma ia mb ib (one_elec_point K Cx Cy Cz sa (set_coeffs sb (rows_scale K k C))) =
  fmul K k (nth4' K ma ia mb ib (one_elec_point K Cx Cy Cz sa (set_coeffs sb C))).
Proof. exact (@oe_unnormalised_homogeneous_b). Qed.
Print Assumptions C13_unnormalised_linear_one_elec_scale_b.

(* PointChargeIntegral block entries are -q x (possibly transposed) one-electron entries *)
Theorem C13_point_charge_entry :
  forall (F : Type) (K : Fops F) (points : list (F * F * F * F)) (sa sb : shell F)
  (ma ia mb ib : nat),
  (ma < nseg sa)%nat ->
  (ia < ncomp sa)%nat ->
  (mb < nseg sb)%nat ->
  (ib < ncomp sb)%nat ->
  nth ib (nth mb (nth ia (nth ma (point_charge_block K points sa sb) []) []) []) [] =
  map
  (fun '(cx, cy, cz, q) =>
  fmul K (fopp K q)
  (if s_l sa <? s_l sb
  then nth4' K mb ib ma ia (one_elec_point K cx cy cz sb sa)
  else nth4' K ma ia mb ib (one_elec_point K cx cy cz sa sb))) points.
Proof. exact (@pc_block_entry). Qed.
Print Assumptions C13_point_charge_entry.

(* 4. for the electron-repulsion block: a coefficient matrix whose contraction sums are c1 x (those of C1) + c2 x (those of C2) gives c1 x block(C1) + c2 x block(C2); C1 + C2 and k C1 are such matrices *)
Theorem C13_sum_lin_add :
  forall (F : Type) (K : Fops F),
  is_field K ->
  forall (m : nat) (es : list F) (C1 C2 : list (list F)),
  same_shape C1 C2 ->
  sum_lin K m (f1 K) (f1 K) (combine es (rows_add K C1 C2)) (combine es C1) (combine es C2).
Proof. exact (@sum_lin_add). Qed.
Print Assumptions C13_sum_lin_add.

Theorem C13_sum_lin_scale :
  forall (F : Type) (K : Fops F),
  is_field K ->
  forall (m : nat) (es : list F) (k : F) (C : list (list F)),
  sum_lin K m k (f0 K) (combine es (rows_scale K k C)) (combine es C) (combine es C).
Proof. exact (@sum_lin_scale). Qed.
Print Assumptions C13_sum_lin_scale.

Theorem C13_sum_lin_scale_col :
  forall (F : Type) (K : Fops F),
  is_field K ->
  forall (m : nat) (es : list F) (m0 : nat) (k : F) (C : list (list F)),
  sum_lin K m (colfac K m0 k m) (f0 K) (combine es (scale_col_rows K m0 k C))
  (combine es C) (combine es C).
Proof. exact (@sum_lin_scale_col). Qed.
Print Assumptions C13_sum_lin_scale_col.

Theorem C13_unnormalised_linear_eri_1 :
  forall (F : Type) (K : Fops F),
  is_field K ->
  forall (s1 s2 s3 s4 : shell F) (C C1 C2 : list (list F)) (c1 c2 : F)
  (m1 i1 m2 i2 m3 i3 m4 i4 : nat),
  (i1 < ncomp s1)%nat ->
  (i2 < ncomp s2)%nat ->
  (i3 < ncomp s3)%nat ->
  (i4 < ncomp s4)%nat ->
  sum_lin K m1 c1 c2 (combine (s_exps s1) C) (combine (s_exps s1) C1) (combine (s_exps s1) C2) ->
  nseg (set_coeffs s1 C1) = nseg (set_coeffs s1 C) ->
  nseg (set_coeffs s1 C2) = nseg (set_coeffs s1 C) ->
  (m1 < nseg (set_coeffs s1 C))%nat ->
  (m2 < nseg s2)%nat ->
  (m3 < nseg s3)%nat ->
  (m4 < nseg s4)%nat ->
  nth8 K m1 i1 m2 i2 m3 i3 m4 i4 (eri_block K (set_coeffs s1 C) s2 s3 s4) =
  fadd K (fmul K c1 (nth8 K m1 i1 m2 i2 m3 i3 m4 i4 (eri_block K (set_coeffs s1 C1) s2 s3 s4)))
  (fmul K c2 (nth8 K m1 i1 m2 i2 m3 i3 m4 i4 (eri_block K (set_coeffs s1 C2) s2 s3 s4))).
Proof. exact (@eri_block_lin_1). Qed.
Print Assumptions C13_unnormalised_linear_eri_1.

Theorem C13_unnormalised_linear_eri_2 :
  forall (F : Type) (K : Fops F),
  is_field K ->
  forall (s1 s2 s3 s4 : shell F) (C C1 C2 : list (list F)) (c1 c2 : F)
  (m1 i1 m2 i2 m3 i3 m4 i4 : nat),
  (i1 < ncomp s1)%nat ->
  (i2 < ncomp s2)%nat ->
  (i3 < ncomp s3)%nat ->
  (i4 < ncomp s4)%nat ->
  sum_lin K m2 c1 c2 (combine (s_exps s2) C) (combine (s_exps s2) C1) (combine (s_exps s2) C2) ->
  nseg (set_coeffs s2 C1) = nseg (set_coeffs s2 C) ->
  nseg (set_coeffs s2 C2) = nseg (set_coeffs s2 C) ->
  (m1 < nseg s1)%nat ->
  (m2 < nseg (set_coeffs s2 C))%nat ->
  (m3 < nseg s3)%nat ->
  (m4 < nseg s4)%nat ->
  nth8 K m1 i1 m2 i2 m3 i3 m4 i4 (eri_block K s1 (set_coeffs s2 C) s3 s4) =
  fadd K (fmul K c1 (nth8 K m1 i1 m2 i2 m3 i3 m4 i4 (eri_block K s1 (set_coeffs s2 C1) s3 s4)))
  (fmul K c2 (nth8 K m1 i1 m2 i2 m3 i3 m4 i4 (eri_block K s1 (set_coeffs s2 C2) s3 s4))).
Proof. exact (@eri_block_lin_2). Qed.
Print Assumptions C13_unnormalised_linear_eri_2.

Theorem C13_unnormalised_linear_eri_3 :
  forall (F : Type) (K : Fops F),
  is_field K ->
  forall (s1 s2 s3 s4 : shell F) (C C1 C2 : list (list F)) (c1 c2 : F)
  (m1 i1 m2 i2 m3 i3 m4 i4 : nat),
  (i1 < ncomp s1)%nat ->
  (i2 < ncomp s2)%nat ->
  (i3 < ncomp s3)%nat ->
  (i4 < ncomp s4)%nat ->
  sum_lin K m3 c1 c2 (combine (s_exps s3) C) (combine (s_exps s3) C1) (combine (s_exps s3) C2) ->
  nseg (set_coeffs s3 C1) = nseg (set_coeffs s3 C) ->
  nseg (set_coeffs s3 C2) = nseg (set_coeffs s3 C) ->
  (m1 < nseg s1)%nat ->
  (m2 < nseg s2)%nat ->
  (m3 < nseg (set_coeffs s3 C))%nat ->
  (m4 < nseg s4)%nat ->
  nth8 K m1 i1 m2 i2 m3 i3 m4 i4 (eri_block K s1 s2 (set_coeffs s3 C) s4) =
  fadd K (fmul K c1 (nth8 K m1 i1 m2 i2 m3 i3 m4 i4 (eri_block K s1 s2 (set_coeffs s3 C1) s4)))
  (fmul K c2 (nth8 K m1 i1 m2 i2 m3 i3 m4 i4 (eri_block K s1 s2 (set_coeffs s3 C2) s4))).
Proof. exact (@eri_block_lin_3). Qed.
Print Assumptions C13_unnormalised_linear_eri_3.

Theorem C13_unnormalised_linear_eri_4 :
  forall (F : Type) (K : Fops F),
  is_field K ->
  forall (s1 s2 s3 s4 : shell F) (C C1 C2 : list (list F)) (c1 c2 : F)
  (m1 i1 m2 i2 m3 i3 m4 i4 : nat),
  (i1 < ncomp s1)%nat ->
  (i2 < ncomp s2)%nat ->
  (i3 < ncomp s3)%nat ->
  (i4 < ncomp s4)%nat ->
  sum_lin K m4 c1 c2 (combine (s_exps s4) C) (combine (s_exps s4) C1) (combine (s_exps s4) C2) ->
  nseg (set_coeffs s4 C1) = nseg (set_coeffs s4 C) ->
  nseg (set_coeffs s4 C2) = nseg (set_coeffs s4 C) ->
  (m1 < nseg s1)%nat ->
  (m2 < nseg s2)%nat ->
  (m3 < nseg s3)%nat ->
  (m4 < nseg (set_coeffs s4 C))%nat ->
  nth8 K m1 i1 m2 i2 m3 i3 m4 i4 (eri_block K s1 s2 s3 (set_coeffs s4 C)) =
  fadd K (fmul K c1 (nth8 K m1 i1 m2 i2 m3 i3 m4 i4 (eri_block K s1 s2 s3 (set_coeffs s4 C1))))
  (fmul K c2 (nth8 K m1 i1 m2 i2 m3 i3 m4 i4 (eri_block K s1 s2 s3 (set_coeffs s4 C2)))).
Proof. exact (@eri_block_lin_4). Qed.
Print Assumptions C13_unnormalised_linear_eri_4.

Theorem C13_column_scale_one_elec_unnormalised_a :
  forall (F : Type) (K : Fops F),
  is_field K ->
  forall (Cx Cy Cz : F) (sa sb : shell F) (m0 : nat) (k : F) (ma ia mb ib : nat),
  (ma < nseg sa)%nat ->
  (ia < ncomp sa)%nat ->
  (mb < nseg sb)%nat ->
  (ib < ncomp sb)%nat ->
  nth4' K ma ia mb ib (one_elec_point K Cx Cy Cz (scale_col K sa m0 k) sb) =
  fmul K (colfac K m0 k ma) (nth4' K ma ia mb ib (one_elec_point K Cx Cy Cz sa sb)).
Proof. exact (@oe_scale_col_unnormalised_a). Qed.
Print Assumptions C13_column_scale_one_elec_unnormalised_a.

Theorem C13_column_scale_one_elec_unnormalised_b :
  forall (F : Type) (K : Fops F),
  is_field K ->
  forall (Cx Cy Cz : F) (sa sb : shell F) (m0 : nat) (k : F) (ma ia mb ib : nat),
  (ma < nseg sa)%nat ->
  (ia < ncomp sa)%nat ->
  (mb < nseg sb)%nat ->
  (ib < ncomp sb)%nat ->
  nth4' K ma ia mb ib (one_elec_point K Cx Cy Cz sa (scale_col K sb m0 k)) =
  fmul K (colfac K m0 k mb) (nth4' K ma ia mb ib (one_elec_point K Cx Cy Cz sa sb)).
Proof. exact (@oe_scale_col_unnormalised_b). Qed.
Print Assumptions C13_column_scale_one_elec_unnormalised_b.

(* 5. for the one-electron kernel and the electron-repulsion block (contraction-normalised entries) *)
Theorem C13_column_scale_one_elec_a :
  forall (F : Type) (K : Fops F),
  is_field K ->
  forall (Cx Cy Cz : F) (sa sb : shell F) (m0 : nat) (k kabs : F) (ma ia mb ib : nat),
  (forall x : F, fapx K x = x) ->
  scale_hyps K sa m0 k kabs ->
  (ma < nseg sa)%nat ->
  (ia < ncomp sa)%nat ->
  (mb < nseg sb)%nat ->
  (ib < ncomp sb)%nat ->
  oe_nentry K Cx Cy Cz (scale_col K sa m0 k) sb ma ia mb ib =
  fmul K (colfac K m0 (fdiv K k kabs) ma) (oe_nentry K Cx Cy Cz sa sb ma ia mb ib).
Proof. exact (@oe_column_scale_a). Qed.
Print Assumptions C13_column_scale_one_elec_a.

Theorem C13_column_scale_one_elec_b :
  forall (F : Type) (K : Fops F),
  is_field K ->
  forall (Cx Cy Cz : F) (sa sb : shell F) (m0 : nat) (k kabs : F) (ma ia mb ib : nat),
  (forall x : F, fapx K x = x) ->
  scale_hyps K sb m0 k kabs ->
  (ma < nseg sa)%nat ->
  (ia < ncomp sa)%nat ->
  (mb < nseg sb)%nat ->
  (ib < ncomp sb)%nat ->
  oe_nentry K Cx Cy Cz sa (scale_col K sb m0 k) ma ia mb ib =
  fmul K (colfac K m0 (fdiv K k kabs) mb) (oe_nentry K Cx Cy Cz sa sb ma ia mb ib).
Proof. exact (@oe_column_scale_b). Qed.
Print Assumptions C13_column_scale_one_elec_b.

Theorem C13_column_scale_eri_1 :
  forall (F : Type) (K : Fops F),
  is_field K ->
  forall (s1 s2 s3 s4 : shell F) (m0 : nat) (k kabs : F) (m1 i1 m2 i2 m3 i3 m4 i4 : nat),
  (forall x : F, fapx K x = x) ->
  (m1 < nseg s1)%nat ->
  (i1 < ncomp s1)%nat ->
  (m2 < nseg s2)%nat ->
  (i2 < ncomp s2)%nat ->
  (m3 < nseg s3)%nat ->
  (i3 < ncomp s3)%nat ->
  (m4 < nseg s4)%nat ->
  (i4 < ncomp s4)%nat ->
  scale_hyps K s1 m0 k kabs ->
  eri_nentry K (scale_col K s1 m0 k) s2 s3 s4 m1 i1 m2 i2 m3 i3 m4 i4 =
  fmul K (colfac K m0 (fdiv K k kabs) m1) (eri_nentry K s1 s2 s3 s4 m1 i1 m2 i2 m3 i3 m4 i4).
Proof. exact (@eri_column_scale_1). Qed.
Print Assumptions C13_column_scale_eri_1.

Theorem C13_column_scale_eri_2 :
  forall (F : Type) (K : Fops F),
  is_field K ->
  forall (s1 s2 s3 s4 : shell F) (m0 : nat) (k kabs : F) (m1 i1 m2 i2 m3 i3 m4 i4 : nat),
  (forall x : F, fapx K x = x) ->
  (m1 < nseg s1)%nat ->
  (i1 < ncomp s1)%nat ->
  (m2 < nseg s2)%nat ->
  (i2 < ncomp s2)%nat ->
  (m3 < nseg s3)%nat ->
  (i3 < ncomp s3)%nat ->
  (m4 < nseg s4)%nat ->
  (i4 < ncomp s4)%nat ->
  scale_hyps K s2 m0 k kabs ->
  eri_nentry K s1 (scale_col K s2 m0 k) s3 s4 m1 i1 m2 i2 m3 i3 m4 i4 =
  fmul K (colfac K m0 (fdiv K k kabs) m2) (eri_nentry K s1 s2 s3 s4 m1 i1 m2 i2 m3 i3 m4 i4).
Proof. exact (@eri_column_scale_2). Qed.
Print Assumptions C13_column_scale_eri_2.

Theorem C13_column_scale_eri_3 :
  forall (F : Type) (K : Fops F),
  is_field K ->
  forall (s1 s2 s3 s4 : shell F) (m0 : nat) (k kabs : F) (m1 i1 m2 i2 m3 i3 m4 i4 : nat),
  (forall x : F, fapx K x = x) ->
  (m1 < nseg s1)%nat ->
  (i1 < ncomp s1)%nat ->
  (m2 < nseg s2)%nat ->
  (i2 < ncomp s2)%nat ->
  (m3 < nseg s3)%nat ->
  (i3 < ncomp s3)%nat ->
  (m4 < nseg s4)%nat ->
  (i4 < ncomp s4)%nat ->
  scale_hyps K s3 m0 k kabs ->
  eri_nentry K s1 s2 (scale_col K s3 m0 k) s4 m1 i1 m2 i2 m3 i3 m4 i4 =
  fmul K (colfac K m0 (fdiv K k kabs) m3) (eri_nentry K s1 s2 s3 s4 m1 i1 m2 i2 m3 i3 m4 i4).
Proof. exact (@eri_column_scale_3). Qed.
Print Assumptions C13_column_scale_eri_3.

Theorem C13_column_scale_eri_4 :
  forall (F : Type) (K : Fops F),
  is_field K ->
  forall (s1 s2 s3 s4 : shell F) (m0 : nat) (k kabs : F) (m1 i1 m2 i2 m3 i3 m4 i4 : nat),
  (forall x : F, fapx K x = x) ->
  (m1 < nseg s1)%nat ->
  (i1 < ncomp s1)%nat ->
  (m2 < nseg s2)%nat ->
  (i2 < ncomp s2)%nat ->
  (m3 < nseg s3)%nat ->
  (i3 < ncomp s3)%nat ->
  (m4 < nseg s4)%nat ->
  (i4 < ncomp s4)%nat ->
  scale_hyps K s4 m0 k kabs ->
  eri_nentry K s1 s2 s3 (scale_col K s4 m0 k) m1 i1 m2 i2 m3 i3 m4 i4 =
  fmul K (colfac K m0 (fdiv K k kabs) m4) (eri_nentry K s1 s2 s3 s4 m1 i1 m2 i2 m3 i3 m4 i4).
Proof. exact (@eri_column_scale_4). Qed.
Print Assumptions C13_column_scale_eri_4.

(* the hypothesis on the square root holds for the real square root: sqrt(k^2 x) = |k| sqrt x *)
Theorem C13_sqrt_scale_R :
  forall k x : R, sqrt (k * k * x) = (Rabs k * sqrt x)%R.
Proof. exact (@sqrt_scale_R). Qed.
Print Assumptions C13_sqrt_scale_R.

Theorem C13_scale_hyps_R :
  forall (s : shell R) (m0 : nat) (k : R),
  k <> 0%R ->
  ((m0 < nseg s)%nat -> forall c : nat, (c < ncomp s)%nat -> (0 < selfov RKc s m0 c)%R) ->
  scale_hyps RKc s m0 k (Rabs k).
Proof. exact (@scale_hyps_R). Qed.
Print Assumptions C13_scale_hyps_R.

(* over the reals: factor k <> 0 on a column with positive self-overlap multiplies that normalised function by sign(k) *)
Theorem C13_column_scale_R :
  forall (g : R -> R -> comp -> comp -> R) (sa sb : shell R) (m0 : nat) (k : R),
  k <> 0%R ->
  ((m0 < nseg sa)%nat -> forall c : nat, (c < ncomp sa)%nat -> (0 < selfov RKc sa m0 c)%R) ->
  nblock RKc g (scale_col RKc sa m0 k) sb =
  mk4 (nseg sa) (ncomp sa) (nseg sb) (ncomp sb)
  (fun ma ia mb ib : nat =>
  (colfac RKc m0 (sgnR k) ma * nth4' RKc ma ia mb ib (nblock RKc g sa sb))%R).
Proof. exact (@column_scale_R). Qed.
Print Assumptions C13_column_scale_R.

(* concrete instances at Qc (p shell K=3 M=2 against a d shell K=2 M=1, orders (0,0,0) and (1,0,2)) *)
Example C13_ex_generalized_is_segmented :
  mm_block KQ (Q2Qc 0) 1 (Q2Qc 0) ex_orders (col_shell KQ ex_sa 1) (col_shell KQ ex_sb 0) =
  map
  (fun blk : list (list (list (list Qc))) =>
  mk4 1 3 1 6 (fun _ ia _ ib : nat => nth4' KQ 1 ia 0 ib blk))
  (mm_block KQ (Q2Qc 0) 1 (Q2Qc 0) ex_orders ex_sa ex_sb).
Proof. exact (@ex_generalized_is_segmented). Qed.
Print Assumptions C13_ex_generalized_is_segmented.

Example C13_ex_prim_perm :
  let ps := prims ex_sa in
  mm_block KQ (Q2Qc 0) 1 (Q2Qc 0) ex_orders
  (set_prims ex_sa [nth 2 ps (Q2Qc 0, []); nth 0 ps (Q2Qc 0, []); nth 1 ps (Q2Qc 0, [])])
  (set_prims ex_sb [nth 1 (prims ex_sb) (Q2Qc 0, []); nth 0 (prims ex_sb) (Q2Qc 0, [])]) =
  mm_block KQ (Q2Qc 0) 1 (Q2Qc 0) ex_orders ex_sa ex_sb.
Proof. exact (@ex_prim_perm). Qed.
Print Assumptions C13_ex_prim_perm.

Example C13_ex_prim_split :
  mm_block KQ (Q2Qc 0) 1 (Q2Qc 0) ex_orders
  (set_prims ex_sa
  ([(Q2Qc (1 # 2), [1; Q2Qc (1 # 2)])] ++
  [(Q2Qc 2, ex_r1); (Q2Qc 2, ex_r2); (Q2Qc 5, [Q2Qc 3; Q2Qc 0])])) ex_sb =
  mm_block KQ (Q2Qc 0) 1 (Q2Qc 0) ex_orders ex_sa ex_sb.
Proof. exact (@ex_prim_split). Qed.
Print Assumptions C13_ex_prim_split.

Example C13_ex_linear :
  let C1 := [[1; Q2Qc (1 # 2)]; [Q2Qc 0; Q2Qc 2]; [Q2Qc 3; Q2Qc 0]] in
  let C2 := [[Q2Qc (-1 # 3); 1]; [Q2Qc 4; Q2Qc (1 # 7)]; [1; 1]] in
  mm_entry' KQ (Q2Qc 0) 1 (Q2Qc 0) ex_orders (set_coeffs ex_sa (rows_add KQ C1 C2)) ex_sb 1 1 2 0 4 =
  fadd KQ (mm_entry' KQ (Q2Qc 0) 1 (Q2Qc 0) ex_orders (set_coeffs ex_sa C1) ex_sb 1 1 2 0 4)
  (mm_entry' KQ (Q2Qc 0) 1 (Q2Qc 0) ex_orders (set_coeffs ex_sa C2) ex_sb 1 1 2 0 4).
Proof. exact (@ex_linear). Qed.
Print Assumptions C13_ex_linear.

Example C13_ex_scale_hyps :
  scale_hyps KQ ex_sa 1 (Q2Qc (-1)) 1.
Proof. exact (@ex_scale_hyps). Qed.
Print Assumptions C13_ex_scale_hyps.

Example C13_ex_column_scale_neg :
  nblock KQ (ov_kern KQ ex_sa ex_sb) (scale_col KQ ex_sa 1 (Q2Qc (-1))) ex_sb =
  mk4 2 3 1 6
  (fun ma ia mb ib : nat =>
  fmul KQ (colfac KQ 1 (fdiv KQ (Q2Qc (-1)) 1) ma)
  (nth4' KQ ma ia mb ib (nblock KQ (ov_kern KQ ex_sa ex_sb) ex_sa ex_sb))).
Proof. exact (@ex_column_scale_neg). Qed.
Print Assumptions C13_ex_column_scale_neg.

Example C13_ex_column_scale_R :
  forall x : R,
  (0 < x)%R ->
  sqrt (-3 * -3 * x) = (3 * sqrt x)%R /\
  sqrt x <> 0%R /\ sgnR (-3) = (-1)%R /\ sgnR (1 / 1000000) = 1%R.
Proof. exact (@column_scale_R_ex). Qed.
Print Assumptions C13_ex_column_scale_R.
