(* Props/C12_rotation4.v — C12, GENERAL ROTATIONS (proper and improper) for the WHOLE-BASIS functions
   overlap_integral, kinetic_integral and evaluate_basis_model of a basis of Cartesian shells (any number of shells,
   any l, primitives, segments), proved in Proofs/RotationAsmP.v.

   The assembled arrays transform with  W_s^m[a, a'] = n_s[m][a] / dfnorm(a) * rep_mat R [a', a] * dfnorm(a') / n_s[m][a']
   ([wrot]; n = norm_cont, the per-function contraction normalisation, which is itself rotation invariant;
   dfnorm(c) = sqrt((2cx-1)!!(2cy-1)!!(2cz-1)!!) the component part of the primitive normalisation); if n does not
   depend on the component, W = dfnorm(a') / dfnorm(a) * rep_mat R [a', a].
   [rot_basis_ok bs]: every shell Cartesian, default component order, one coefficient row per exponent, >= 1 segment,
   all exponent sums non-zero.  [rot_basis R bs] = map (rot_shell R) bs.  [ncont_nonzero bs]: the norm_cont entries
   (which W divides by) are non-zero.  [gidx bs i m c] = position of (shell i, segment m, component c). *)
From Coq Require Import List Arith.
From GB Require Import Base.Field Base.FNum Base.Tables Model.Shell Model.MomentInt Model.Overlap Model.OneBody
  Model.Eval Proofs.RigidP Proofs.RotationBlockP Proofs.AssembledP Proofs.RotationAsmP.
Import ListNotations.

Theorem C12_rotation4_norm_cont_invariant {F : Type} (K : Fops F) (Kf : is_field K) (R : @mat3 F) (s : shell F) :
  (forall a b, In a (s_exps s) -> In b (s_exps s) -> fadd K a b <> f0 K) ->
  norm_cont K (rot_shell K R s) = norm_cont K s.
Proof. exact (norm_cont_rotation_invariant K Kf R s). Qed.
Print Assumptions C12_rotation4_norm_cont_invariant.

Theorem C12_rotation4_wrot_simpl {F : Type} (K : Fops F) (Kf : is_field K) :
  (forall c, dfnorm K c <> f0 K) ->
  forall (R : @mat3 F) (s : shell F) m a a',
  ncont K s m a' = ncont K s m a -> ncont K s m a' <> f0 K ->
  wrot K R s m a a'
  = fmul K (fdiv K (dfnorm K (cmpl (s_l s) a')) (dfnorm K (cmpl (s_l s) a)))
           (rep_mat K R (cmpl (s_l s) a') (cmpl (s_l s) a)).
Proof. exact (wrot_simpl K Kf). Qed.
Print Assumptions C12_rotation4_wrot_simpl.

Theorem C12_rotation4_overlap_integral {F : Type} (K : Fops F) (Kf : is_field K) :
  (forall x, fapx K x = x) -> fadd K (f1 K) (f1 K) <> f0 K -> (forall c, dfnorm K c <> f0 K) ->
  forall R, orthogonal K R -> forall bs, rot_basis_ok K bs ->
  (forall x y, fexp K (fadd K x y) = fmul K (fexp K x) (fexp K y)) ->
  ncont_nonzero K bs ->
  forall i j m a m' b, i < length bs -> j < length bs ->
  m < nseg (sh_at K bs i) -> a < ncd (s_l (sh_at K bs i)) -> m' < nseg (sh_at K bs j) -> b < ncd (s_l (sh_at K bs j)) ->
  FNum.fsum K (mk (ncd (s_l (sh_at K bs i))) (fun a' => FNum.fsum K (mk (ncd (s_l (sh_at K bs j))) (fun b' =>
    fmul K (fmul K (wrot K R (sh_at K bs i) m a a') (wrot K R (sh_at K bs j) m' b b'))
      (nth (gidx K bs j m' b') (nth (gidx K bs i m a') (overlap_integral K (rot_basis K R bs) None) []) (f0 K))))))
  = nth (gidx K bs j m' b) (nth (gidx K bs i m a) (overlap_integral K bs None) []) (f0 K).
Proof. exact (overlap_integral_rotation_law K Kf). Qed.
Print Assumptions C12_rotation4_overlap_integral.

Theorem C12_rotation4_kinetic_integral {F : Type} (K : Fops F) (Kf : is_field K) :
  (forall x, fapx K x = x) -> fadd K (f1 K) (f1 K) <> f0 K -> (forall c, dfnorm K c <> f0 K) ->
  forall R, orthogonal K R -> forall bs, rot_basis_ok K bs ->
  (forall x y, fexp K (fadd K x y) = fmul K (fexp K x) (fexp K y)) ->
  ncont_nonzero K bs ->
  forall i j m a m' b, i < length bs -> j < length bs ->
  m < nseg (sh_at K bs i) -> a < ncd (s_l (sh_at K bs i)) -> m' < nseg (sh_at K bs j) -> b < ncd (s_l (sh_at K bs j)) ->
  FNum.fsum K (mk (ncd (s_l (sh_at K bs i))) (fun a' => FNum.fsum K (mk (ncd (s_l (sh_at K bs j))) (fun b' =>
    fmul K (fmul K (wrot K R (sh_at K bs i) m a a') (wrot K R (sh_at K bs j) m' b b'))
      (nth (gidx K bs j m' b') (nth (gidx K bs i m a') (kinetic_integral K (rot_basis K R bs) None) []) (f0 K))))))
  = nth (gidx K bs j m' b) (nth (gidx K bs i m a) (kinetic_integral K bs None) []) (f0 K).
Proof. exact (kinetic_integral_rotation_law K Kf). Qed.
Print Assumptions C12_rotation4_kinetic_integral.

Theorem C12_rotation4_evaluate_basis {F : Type} (K : Fops F) (Kf : is_field K) :
  (forall x, fapx K x = x) -> (forall c, dfnorm K c <> f0 K) ->
  forall R, orthogonal K R -> forall bs, rot_basis_ok K bs ->
  forall pts : list (point (F:=F)), ncont_nonzero K bs ->
  forall i m a p, i < length bs -> m < nseg (sh_at K bs i) -> a < ncd (s_l (sh_at K bs i)) -> p < length pts ->
  FNum.fsum K (mk (ncd (s_l (sh_at K bs i))) (fun a' =>
    fmul K (wrot K R (sh_at K bs i) m a a')
      (nth p (nth (gidx K bs i m a')
                (evaluate_basis_model K (rot_basis K R bs) (map (mapply K R) pts) None) []) (f0 K))))
  = nth p (nth (gidx K bs i m a) (evaluate_basis_model K bs pts None) []) (f0 K).
Proof. exact (evaluate_basis_rotation_law K Kf). Qed.
Print Assumptions C12_rotation4_evaluate_basis.

(* the density bilinear form: [bsum bs f] = sum of f i m a over all functions (shell i, segment m, component a) of the
   basis; [rot_density R bs P] = W^T P W block-wise,
     P'(i,m,a'; j,m',b') = sum_{a,b} W_i^m[a,a'] P[gidx(i,m,a), gidx(j,m',b)] W_j^m'[b,b'] *)
Theorem C12_rotation4_density {F : Type} (K : Fops F) (Kf : is_field K) :
  (forall x, fapx K x = x) -> (forall c, dfnorm K c <> f0 K) ->
  forall R, orthogonal K R -> forall bs, rot_basis_ok K bs -> ncont_nonzero K bs ->
  forall (pts : list (point (F:=F))) (P : nat -> nat -> F) p, p < length pts ->
  let E := evaluate_basis_model K bs pts None in
  let E' := evaluate_basis_model K (rot_basis K R bs) (map (mapply K R) pts) None in
  bsum K bs (fun i m a' => bsum K bs (fun j m' b' =>
    fmul K (fmul K (rot_density K R bs P i m a' j m' b') (nth p (nth (gidx K bs i m a') E' []) (f0 K)))
           (nth p (nth (gidx K bs j m' b') E' []) (f0 K))))
  = bsum K bs (fun i m a => bsum K bs (fun j m' b =>
    fmul K (fmul K (P (gidx K bs i m a) (gidx K bs j m' b)) (nth p (nth (gidx K bs i m a) E []) (f0 K)))
           (nth p (nth (gidx K bs j m' b) E []) (f0 K)))).
Proof. exact (density_rotation_invariant K Kf). Qed.
Print Assumptions C12_rotation4_density.

Theorem C12_rotation4_hypotheses_satisfiable :
  exists (F : Type) (K : Fops F) (R1 R2 : @mat3 F) (bs : list (shell F)),
    is_field K /\ (forall x y, fexp K (fadd K x y) = fmul K (fexp K x) (fexp K y)) /\ (forall x, fapx K x = x)
    /\ fadd K (f1 K) (f1 K) <> f0 K /\ (forall c, dfnorm K c <> f0 K)
    /\ orthogonal K R1 /\ orthogonal K R2 /\ rot_basis_ok K bs /\ ncont_nonzero K bs /\ length bs = 3.
Proof. exact asm_rotation_hypotheses_satisfiable. Qed.
Print Assumptions C12_rotation4_hypotheses_satisfiable.
