(* Props/C01_assembled.v — theorems about the ASSEMBLED overlap matrix, i.e. about the model
   Model/Overlap.overlap_integral / overlap_integral_asymm that the correspondence check runs against
   gbasis.integrals.overlap.overlap_integral / overlap_asymm.overlap_integral_asymmetric (property C01).
   Bases of Cartesian shells, no final transformation; ANY number of shells, any l, K, M.
   Only statements closed by [exact] of a lemma of Proofs/Assembled*.v, each followed by Print Assumptions.

   Index map (documented order: shell, then segmented contraction, then angular component):
     bdim s = nseg s * ncomp s,  boff bs k = sum_{t<k} bdim s_t,  gidx bs k m c = boff bs k + (m * ncomp s_k + c),
     btotal bs = boff bs (length bs);   ncont s m c = norm_cont[m][c] = 1/sqrt(overlap_block(s,s)[m][c][m][c]).
   Hypotheses on a basis: cart_basis (every shell Cartesian with >= 1 segment), basis_wf (wf_shell for every
   shell), basis_exps (alpha + beta <> 0 for every pair of exponents of every pair of shells), and the
   hypotheses of the block theorems (fapx = identity, 1 + 1 <> 0). *)
From Coq Require Import List Arith Reals.
From GB Require Import Base.Field Base.FNum Base.Tables Model.Shell Model.MomentInt Model.Overlap
  Proofs.CoreSumP Proofs.CoreBlockP Proofs.CoreDiffP Proofs.CoreNormP Proofs.CoreExamplesP Proofs.ScreeningP
  Model.Spherical Proofs.BlockMatP Proofs.AssembledP Proofs.AssembledOverlapP Proofs.AssembledRealP
  Proofs.AssembledSphP Proofs.AssembledSphOverlapP Proofs.AssembledLincombP Proofs.AssembledExamplesP.
Import ListNotations.

(* what the index symbols stand for (by definition) *)
Theorem C01_index_unfold :
  forall (F : Type) (K : Fops F) (bs : list (shell F)) (k m c : nat),
  gidx K bs k m c = boff K bs k + (m * length (comps_of (sh_at K bs k)) + c)
  /\ boff K bs (S k) = boff K bs k + nseg (sh_at K bs k) * length (comps_of (sh_at K bs k))
  /\ boff K bs 0 = 0 /\ btotal K bs = boff K bs (length bs)
  /\ (k < length bs -> sh_at K bs k = nth k bs (sh_at K bs k))
  /\ ncont K (sh_at K bs k) m c = nth c (nth m (norm_cont K (sh_at K bs k)) []) (f0 K).
Proof. exact (fun F K bs k m c => conj eq_refl (conj eq_refl (conj eq_refl (conj eq_refl
         (conj (fun H => nth_indep bs _ _ H) eq_refl))))). Qed.
Print Assumptions C01_index_unfold.

(* the index map is a bijection between positions < btotal and triples (shell, segment, component) *)
Theorem C01_index_surjective :
  forall (F : Type) (K : Fops F) (bs : list (shell F)) (I : nat), I < btotal K bs ->
  exists k m c, k < length bs /\ m < nseg (sh_at K bs k) /\ c < ncomp (sh_at K bs k) /\ I = gidx K bs k m c.
Proof. exact (fun F K => gidx_surj K). Qed.
Print Assumptions C01_index_surjective.

Theorem C01_index_injective :
  forall (F : Type) (K : Fops F) (bs : list (shell F)) (k m c k' m' c' : nat),
  m < nseg (sh_at K bs k) -> c < ncomp (sh_at K bs k) -> m' < nseg (sh_at K bs k') -> c' < ncomp (sh_at K bs k') ->
  gidx K bs k m c = gidx K bs k' m' c' -> k = k' /\ m = m' /\ c = c'.
Proof. exact (fun F K => gidx_inj K). Qed.
Print Assumptions C01_index_injective.

(* overlap_integral_entry: EVERY entry (I, J) of the assembled matrix — upper triangle (evaluated blocks),
   lower triangle (transposed copies) and diagonal blocks alike — is
   norm_cont_i[m][c] * norm_cont_j[m'][c'] * (contracted primitive-overlap spec of Props/C01_block.v) *)
Theorem C01_overlap_integral_entry :
  forall (F : Type) (K : Fops F), is_field K ->
  (forall x : F, fapx K x = x) -> fadd K (f1 K) (f1 K) <> f0 K ->
  forall bs : list (shell F), cart_basis bs -> basis_wf bs -> basis_exps K bs bs ->
  forall i j m c m' c' : nat, i < length bs -> j < length bs ->
  m < nseg (sh_at K bs i) -> c < ncomp (sh_at K bs i) -> m' < nseg (sh_at K bs j) -> c' < ncomp (sh_at K bs j) ->
  let sa := sh_at K bs i in let sb := sh_at K bs j in
  let ca := nth c (comps_of sa) (0, 0, 0) in let cb := nth c' (comps_of sb) (0, 0, 0) in
  nth (gidx K bs j m' c') (nth (gidx K bs i m c) (overlap_integral K bs None) []) (f0 K)
  = fmul K (fmul K (ncont K sa m c) (ncont K sb m' c'))
      (contracted K sa sb ca cb m m' (ovl_prim K sa sb ca cb)).
Proof. exact (fun F K Kf Hapx H2 => overlap_integral_entry K Kf Hapx H2). Qed.
Print Assumptions C01_overlap_integral_entry.

(* the same entry in terms of the block of the ordered pair (row shell, column shell) *)
Theorem C01_overlap_integral_entry_block :
  forall (F : Type) (K : Fops F), is_field K ->
  (forall x : F, fapx K x = x) -> fadd K (f1 K) (f1 K) <> f0 K ->
  forall bs : list (shell F), cart_basis bs -> basis_wf bs -> basis_exps K bs bs ->
  forall i j m c m' c' : nat, i < length bs -> j < length bs ->
  m < nseg (sh_at K bs i) -> c < ncomp (sh_at K bs i) -> m' < nseg (sh_at K bs j) -> c' < ncomp (sh_at K bs j) ->
  nth (gidx K bs j m' c') (nth (gidx K bs i m c) (overlap_integral K bs None) []) (f0 K)
  = fmul K (fmul K (ncont K (sh_at K bs i) m c) (ncont K (sh_at K bs j) m' c'))
      (nth4 K m c m' c' (overlap_block K (sh_at K bs i) (sh_at K bs j))).
Proof. exact (fun F K Kf Hapx H2 => overlap_integral_entry_block K Kf Hapx H2). Qed.
Print Assumptions C01_overlap_integral_entry_block.

(* the matrix is btotal x btotal *)
Theorem C01_overlap_integral_shape :
  forall (F : Type) (K : Fops F) (bs : list (shell F)), cart_basis bs -> 0 < length bs ->
  length (overlap_integral K bs None) = btotal K bs
  /\ forall I, I < btotal K bs -> length (nth I (overlap_integral K bs None) []) = btotal K bs.
Proof. exact (fun F K bs C => overlap_integral_shape K bs C). Qed.
Print Assumptions C01_overlap_integral_shape.

(* ... and symmetric *)
Theorem C01_overlap_integral_sym :
  forall (F : Type) (K : Fops F), is_field K ->
  (forall x : F, fapx K x = x) -> fadd K (f1 K) (f1 K) <> f0 K ->
  forall bs : list (shell F), cart_basis bs -> basis_wf bs -> basis_exps K bs bs ->
  forall I J, I < btotal K bs -> J < btotal K bs ->
  nth I (nth J (overlap_integral K bs None) []) (f0 K) = nth J (nth I (overlap_integral K bs None) []) (f0 K).
Proof. exact (fun F K Kf Hapx H2 => overlap_integral_sym K Kf Hapx H2). Qed.
Print Assumptions C01_overlap_integral_sym.

(* diag_one_cart: with a square-root oracle that is exact and non-zero on the self-overlaps
   x = overlap_block(s,s)[m][c][m][c], the diagonal element is norm_cont^2 * x = 1 *)
Theorem C01_diag_one_cart :
  forall (F : Type) (K : Fops F), is_field K ->
  (forall x : F, fapx K x = x) -> fadd K (f1 K) (f1 K) <> f0 K ->
  forall bs : list (shell F), cart_basis bs -> basis_wf bs -> basis_exps K bs bs ->
  forall i m c : nat, i < length bs -> m < nseg (sh_at K bs i) -> c < ncomp (sh_at K bs i) ->
  let x := nth4 K m c m c (overlap_block K (sh_at K bs i) (sh_at K bs i)) in
  fmul K (fsqrt K x) (fsqrt K x) = x -> x <> f0 K ->
  nth (gidx K bs i m c) (nth (gidx K bs i m c) (overlap_integral K bs None) []) (f0 K) = f1 K.
Proof. exact (fun F K Kf Hapx H2 => diag_one_cart K Kf Hapx H2). Qed.
Print Assumptions C01_diag_one_cart.

Theorem C01_diag_one_cart_all :
  forall (F : Type) (K : Fops F), is_field K ->
  (forall x : F, fapx K x = x) -> fadd K (f1 K) (f1 K) <> f0 K ->
  forall bs : list (shell F), cart_basis bs -> basis_wf bs -> basis_exps K bs bs ->
  (forall i m c, i < length bs -> m < nseg (sh_at K bs i) -> c < ncomp (sh_at K bs i) ->
     let x := nth4 K m c m c (overlap_block K (sh_at K bs i) (sh_at K bs i)) in
     fmul K (fsqrt K x) (fsqrt K x) = x /\ x <> f0 K) ->
  forall I, I < btotal K bs -> nth I (nth I (overlap_integral K bs None) []) (f0 K) = f1 K.
Proof. exact (fun F K Kf Hapx H2 => diag_one_cart_all K Kf Hapx H2). Qed.
Print Assumptions C01_diag_one_cart_all.

(* the premises discharged over the reals (real sqrt): only positivity of the self-overlap remains *)
Theorem C01_diag_one_cart_R :
  forall bs : list (shell R), cart_basis bs -> basis_wf bs ->
  (forall s, In s bs -> forall x, In x (s_exps s) -> (0 < x)%R) ->
  (forall i m c, i < length bs -> m < nseg (sh_at RK bs i) -> c < ncomp (sh_at RK bs i) ->
     (0 < nth4 RK m c m c (overlap_block RK (sh_at RK bs i) (sh_at RK bs i)))%R) ->
  forall I, I < btotal RK bs -> nth I (nth I (overlap_integral RK bs None) []) 0%R = 1%R.
Proof. exact diag_one_cart_R. Qed.
Print Assumptions C01_diag_one_cart_R.

(* one primitive per shell: the self-overlap block entry is d_m^2 (by C01_norm_prim_self_overlap) ... *)
Theorem C01_self_overlap_uncontracted_R :
  forall (s : shell R) (alpha : R) (row : list R) (m c : nat),
  s_exps s = [alpha] /\ s_coeffs s = [row] /\ (0 < alpha)%R
  /\ (forall cc, In cc (comps_of s) -> cx cc + cy cc + cz cc = s_l s) ->
  m < nseg s -> c < ncomp s ->
  nth4 RK m c m c (overlap_block RK s s) = (nth m row 0 * nth m row 0)%R.
Proof. exact self_overlap_uncontracted_R. Qed.
Print Assumptions C01_self_overlap_uncontracted_R.

(* ... so for every basis of uncontracted Cartesian shells with non-zero coefficients the assembled
   diagonal is 1, no premise left *)
Theorem C01_diag_one_uncontracted_R :
  forall bs : list (shell R), cart_basis bs ->
  (forall s, In s bs -> exists alpha row,
     (s_exps s = [alpha] /\ s_coeffs s = [row] /\ (0 < alpha)%R
      /\ (forall cc, In cc (comps_of s) -> cx cc + cy cc + cz cc = s_l s))
     /\ forall d, In d row -> d <> 0%R) ->
  forall I, I < btotal RK bs -> nth I (nth I (overlap_integral RK bs None) []) 0%R = 1%R.
Proof. exact diag_one_uncontracted_R. Qed.
Print Assumptions C01_diag_one_uncontracted_R.

Theorem C01_default_comps_homogeneous :
  forall (F : Type) (s : shell F), s_comps s = [] ->
  forall cc, In cc (comps_of s) -> cx cc + cy cc + cz cc = s_l s.
Proof. exact (fun F s => comps_homog_default s). Qed.
Print Assumptions C01_default_comps_homogeneous.

(* asymm_is_offdiag_block: the overlap between two basis sets is rows [0, |b1|) x columns [|b1|, |b1|+|b2|)
   of the overlap of their union *)
Theorem C01_asymm_is_offdiag_block :
  forall (F : Type) (K : Fops F) (b1 b2 : list (shell F)),
  cart_basis b1 -> cart_basis b2 -> 0 < length b2 ->
  overlap_integral_asymm K b1 b2 None None
  = map (skipn (btotal K b1)) (firstn (btotal K b1) (overlap_integral K (b1 ++ b2) None)).
Proof. exact (fun F K => overlap_asymm_is_offdiag_block K). Qed.
Print Assumptions C01_asymm_is_offdiag_block.

(* every entry of the rectangular overlap is the normalised contracted spec *)
Theorem C01_overlap_asymm_entry :
  forall (F : Type) (K : Fops F), is_field K ->
  (forall x : F, fapx K x = x) -> fadd K (f1 K) (f1 K) <> f0 K ->
  forall (b1 b2 : list (shell F)) (i j m c m' c' : nat),
  cart_basis b1 -> cart_basis b2 -> basis_wf b1 -> basis_wf b2 -> basis_exps K b1 b2 ->
  i < length b1 -> j < length b2 ->
  m < nseg (sh_at K b1 i) -> c < ncomp (sh_at K b1 i) -> m' < nseg (sh_at K b2 j) -> c' < ncomp (sh_at K b2 j) ->
  let sa := sh_at K b1 i in let sb := sh_at K b2 j in
  let ca := nth c (comps_of sa) (0, 0, 0) in let cb := nth c' (comps_of sb) (0, 0, 0) in
  nth (gidx K b2 j m' c') (nth (gidx K b1 i m c) (overlap_integral_asymm K b1 b2 None None) []) (f0 K)
  = fmul K (fmul K (ncont K sa m c) (ncont K sb m' c')) (contracted K sa sb ca cb m m' (ovl_prim K sa sb ca cb)).
Proof. exact (fun F K Kf Hapx H2 => overlap_asymm_entry K Kf Hapx H2). Qed.
Print Assumptions C01_overlap_asymm_entry.

(* ---- the hypotheses are satisfiable ---- *)
(* over Qc (the runner's field, any oracle closures): generalized d shell (K=2, M=2), off-centre p shell,
   contracted s shell: 16 basis functions *)
Example C01_assembled_hypotheses_Qc :
  forall opi osqrt oexp oln oboys,
  let K := KQ opi osqrt oexp oln oboys in
  is_field K /\ (forall x, fapx K x = x) /\ fadd K (f1 K) (f1 K) <> f0 K
  /\ cart_basis ex_basis /\ basis_wf ex_basis /\ basis_exps K ex_basis ex_basis
  /\ btotal K ex_basis = 16 /\ gidx K ex_basis 0 1 4 = 10 /\ gidx K ex_basis 1 0 2 = 14.
Proof. exact assembled_hypotheses_satisfiable. Qed.
Print Assumptions C01_assembled_hypotheses_Qc.

(* the entry theorem at a LOWER-triangle position of that basis (row: p_z of shell 1, column: segment 1,
   d_yz of shell 0) *)
Example C01_overlap_entry_lower_Qc :
  forall opi osqrt oexp oln oboys,
  let K := KQ opi osqrt oexp oln oboys in
  nth 10 (nth 14 (overlap_integral K ex_basis None) []) (f0 K)
  = fmul K (fmul K (ncont K ex_sb 0 2) (ncont K ex_sa 1 4))
      (contracted K ex_sb ex_sa (0, 0, 1) (0, 1, 1) 0 1 (ovl_prim K ex_sb ex_sa (0, 0, 1) (0, 1, 1))).
Proof. exact overlap_entry_lower_ex. Qed.
Print Assumptions C01_overlap_entry_lower_Qc.

(* over R: a concrete basis (s shell at the origin, generalized p shell with M = 2 off centre) meets every
   hypothesis of C01_diag_one_uncontracted_R; its 7 diagonal elements are 1 *)
Example C01_diag_one_example_R :
  forall I, I < 7 -> nth I (nth I (overlap_integral RK ex_basis_R None) []) 0%R = 1%R.
Proof. exact diag_one_example_R. Qed.
Print Assumptions C01_diag_one_example_R.

(* ================= spherical / mixed bases (any assignment of coordinate types) =================
   Output index map: osize s = number of spherical labels (spherical shell) or of Cartesian components
   (Cartesian shell); oidx bs k m q = ooff bs k + (m * osize s_k + q), ooff bs k = sum_{t<k} nseg s_t * osize s_t.
   tco s q c = T_s[q][c] (Model/Spherical.shell_transform = generate_transformation) for a spherical shell,
   delta_{q c} for a Cartesian one;  dsum a b q q' X = sum_{c<ncomp a} sum_{c'<ncomp b} tco a q c * tco b q' c' * X c c';
   to_cart s = s with coord_type Cartesian. *)
Theorem C01_mixed_unfold :
  forall (F : Type) (K : Fops F) (bs : list (shell F)) (a b : shell F) (k m q q' : nat) (X : nat -> nat -> F),
  oidx K bs k m q = ooff K bs k + (m * osize (sh_at K bs k) + q)
  /\ ooff K bs (S k) = ooff K bs k + nseg (sh_at K bs k) * osize (sh_at K bs k) /\ ooff K bs 0 = 0
  /\ ototal K bs = ooff K bs (length bs)
  /\ osize a = (if s_sph a then length (labels_of a) else length (comps_of a))
  /\ tco K a q m = (if s_sph a then nth m (nth q (shell_transform K a) []) (f0 K)
                    else if Nat.eqb q m then f1 K else f0 K)
  /\ dsum K a b q q' X
     = FNum.fsum K (mk (ncomp a) (fun c => FNum.fsum K (mk (ncomp b) (fun c' =>
         fmul K (fmul K (tco K a q c) (tco K b q' c')) (X c c')))))
  /\ to_cart a = mkShell F (s_l a) (s_x a) (s_y a) (s_z a) (s_exps a) (s_coeffs a) false (s_comps a) (s_labels a).
Proof. exact (fun F K bs a b k m q q' X => conj eq_refl (conj eq_refl (conj eq_refl (conj eq_refl
         (conj eq_refl (conj eq_refl (conj eq_refl eq_refl))))))). Qed.
Print Assumptions C01_mixed_unfold.

Theorem C01_mixed_index_surjective :
  forall (F : Type) (K : Fops F) (bs : list (shell F)) (I : nat), I < ototal K bs ->
  exists k m q, k < length bs /\ m < nseg (sh_at K bs k) /\ q < osize (sh_at K bs k) /\ I = oidx K bs k m q.
Proof. exact (fun F K => oidx_surj K). Qed.
Print Assumptions C01_mixed_index_surjective.

(* the assembled overlap matrix of ANY basis (each shell Cartesian or spherical) is (+)_s T_s applied on both
   indices to the assembled matrix of the same basis with every shell Cartesian — at EVERY position, evaluated
   blocks and transposed copies alike *)
Theorem C01_overlap_mixed_is_cart_transformed :
  forall (F : Type) (K : Fops F), is_field K ->
  (forall x : F, fapx K x = x) -> fadd K (f1 K) (f1 K) <> f0 K ->
  forall bs : list (shell F), (forall s, In s bs -> 0 < nseg s) -> basis_wf bs -> basis_exps K bs bs ->
  forall i j m q m' q', i < length bs -> j < length bs ->
  m < nseg (sh_at K bs i) -> q < osize (sh_at K bs i) -> m' < nseg (sh_at K bs j) -> q' < osize (sh_at K bs j) ->
  nth (oidx K bs j m' q') (nth (oidx K bs i m q) (overlap_integral K bs None) []) (f0 K)
  = dsum K (sh_at K bs i) (sh_at K bs j) q q' (fun c c' =>
      nth (gidx K (map to_cart bs) j m' c') (nth (gidx K (map to_cart bs) i m c)
          (overlap_integral K (map to_cart bs) None) []) (f0 K)).
Proof. exact (fun F K Kf Hapx H2 => overlap_mixed_is_cart_transformed K Kf Hapx H2). Qed.
Print Assumptions C01_overlap_mixed_is_cart_transformed.

(* ... i.e. the transformed normalised contracted spec *)
Theorem C01_overlap_integral_mixed_entry :
  forall (F : Type) (K : Fops F), is_field K ->
  (forall x : F, fapx K x = x) -> fadd K (f1 K) (f1 K) <> f0 K ->
  forall bs : list (shell F), (forall s, In s bs -> 0 < nseg s) -> basis_wf bs -> basis_exps K bs bs ->
  forall i j m q m' q', i < length bs -> j < length bs ->
  m < nseg (sh_at K bs i) -> q < osize (sh_at K bs i) -> m' < nseg (sh_at K bs j) -> q' < osize (sh_at K bs j) ->
  let sa := sh_at K bs i in let sb := sh_at K bs j in
  nth (oidx K bs j m' q') (nth (oidx K bs i m q) (overlap_integral K bs None) []) (f0 K)
  = dsum K sa sb q q' (fun c c' =>
      fmul K (fmul K (ncont K sa m c) (ncont K sb m' c'))
        (contracted K sa sb (nth c (comps_of sa) (0,0,0)) (nth c' (comps_of sb) (0,0,0)) m m'
           (ovl_prim K sa sb (nth c (comps_of sa) (0,0,0)) (nth c' (comps_of sb) (0,0,0))))).
Proof. exact (fun F K Kf Hapx H2 => overlap_integral_mixed_entry K Kf Hapx H2). Qed.
Print Assumptions C01_overlap_integral_mixed_entry.

Theorem C01_overlap_integral_mixed_shape :
  forall (F : Type) (K : Fops F) (bs : list (shell F)), (forall s, In s bs -> 0 < nseg s) -> 0 < length bs ->
  length (overlap_integral K bs None) = ototal K bs
  /\ forall I, I < ototal K bs -> length (nth I (overlap_integral K bs None) []) = ototal K bs.
Proof. exact (fun F K bs C => overlap_integral_mixed_shape K bs C). Qed.
Print Assumptions C01_overlap_integral_mixed_shape.

(* asymm_is_offdiag_block for every assignment of coordinate types in the two basis sets *)
Theorem C01_asymm_is_offdiag_block_mixed :
  forall (F : Type) (K : Fops F) (b1 b2 : list (shell F)),
  (forall s, In s b1 -> 0 < nseg s) -> (forall s, In s b2 -> 0 < nseg s) -> 0 < length b2 ->
  overlap_integral_asymm K b1 b2 None None
  = map (skipn (ototal K b1)) (firstn (ototal K b1) (overlap_integral K (b1 ++ b2) None)).
Proof. exact (fun F K => overlap_asymm_is_offdiag_block_mixed K). Qed.
Print Assumptions C01_asymm_is_offdiag_block_mixed.

(* the processed block of one shell pair, any coordinate types, any element module (no algebraic law):
   T_2 on the second index after T_1 on the first index of the normalised Cartesian block *)
Theorem C01_shell_block_spec :
  forall (F : Type) (K : Fops F) (A : Type) (azero : A) (aadd : A -> A -> A) (ascale : F -> A -> A)
         (sph1 sph2 : bool) (T1 T2 n1 n2 : list (list F)) (blk : list (list (list (list A))))
         (M1 L1 M2 L2 : nat),
  shape2 M1 L1 n1 -> shape2 M2 L2 n2 -> shape4 M1 L1 M2 L2 blk -> 0 < L1 ->
  (sph1 = true -> Forall (fun r => length r = L1) T1) -> (sph2 = true -> Forall (fun r => length r = L2) T2) ->
  let O1 := if sph1 then length T1 else L1 in let O2 := if sph2 then length T2 else L2 in
  let B := Model.Assembly.shell_block K azero aadd ascale sph1 sph2 T1 T2 n1 n2 blk in
  (length B = M1 * O1 /\ Forall (fun row => length row = M2 * O2) B) /\
  forall m1 q1 m2 q2, m1 < M1 -> q1 < O1 -> m2 < M2 -> q2 < O2 ->
    nth (m2 * O2 + q2) (nth (m1 * O1 + q1) B []) azero
    = tsum K azero aadd ascale sph2 T2 L2 q2 (fun c2 => tsum K azero aadd ascale sph1 T1 L1 q1 (fun c1 =>
        ascale (fmul K (nth c1 (nth m1 n1 []) (f0 K)) (nth c2 (nth m2 n2 []) (f0 K)))
               (get4 azero m1 c1 m2 c2 blk))).
Proof. exact (fun F K A z a s => shell_block_spec K z a s). Qed.
Print Assumptions C01_shell_block_spec.

(* a mixed basis over Qc meeting every hypothesis: spherical generalized d shell, Cartesian p shell, spherical
   contracted s shell (14 functions), and the transformation theorem at a lower-triangle position *)
Example C01_mixed_hypotheses_Qc :
  forall opi osqrt oexp oln oboys,
  let K := KQ opi osqrt oexp oln oboys in
  (forall s, In s ex_mixed -> 0 < nseg s) /\ basis_wf ex_mixed /\ basis_exps K ex_mixed ex_mixed
  /\ ototal K ex_mixed = 14 /\ osize (sh_at K ex_mixed 0) = 5 /\ ncomp (sh_at K ex_mixed 0) = 6
  /\ oidx K ex_mixed 0 1 3 = 8 /\ oidx K ex_mixed 1 0 2 = 12.
Proof. exact mixed_hypotheses_satisfiable. Qed.
Print Assumptions C01_mixed_hypotheses_Qc.

Example C01_overlap_mixed_lower_Qc :
  forall opi osqrt oexp oln oboys,
  let K := KQ opi osqrt oexp oln oboys in
  nth 8 (nth 12 (overlap_integral K ex_mixed None) []) (f0 K)
  = dsum K ex_sb ex_sa_sph 2 3 (fun c c' =>
      nth (gidx K ex_basis 0 1 c') (nth (gidx K ex_basis 1 0 c) (overlap_integral K ex_basis None) []) (f0 K)).
Proof. exact overlap_mixed_lower_ex. Qed.
Print Assumptions C01_overlap_mixed_lower_Qc.

(* ================= the final transformation (transform = T, lincomb) =================
   mat_shape R C m: m has R rows of C entries. *)
(* entry (a, b) of lincomb2 T1 T2 m = sum_l T2[b][l] . (sum_k T1[a][k] . m[k][l]); any element module, no law *)
Theorem C01_lincomb2_entry :
  forall (F : Type) (K : Fops F) (A : Type) (azero : A) (aadd : A -> A -> A) (ascale : F -> A -> A)
         (T1 T2 : list (list F)) (m : list (list A)) (R C S1 S2 a b : nat),
  (length m = R /\ Forall (fun row => length row = C) m) -> 0 < R -> 0 < C ->
  (length T1 = S1 /\ Forall (fun row => length row = R) T1) ->
  (length T2 = S2 /\ Forall (fun row => length row = C) T2) -> a < S1 -> b < S2 ->
  nth b (nth a (Model.Assembly.lincomb2 azero aadd ascale T1 T2 m) []) azero
  = Model.Assembly.asum azero aadd (mk C (fun l => ascale (nth l (nth b T2 []) (f0 K))
      (Model.Assembly.asum azero aadd (mk R (fun k => ascale (nth k (nth a T1 []) (f0 K)) (nth l (nth k m []) azero)))))).
Proof. exact (fun F K A z a s => lincomb2_entry K z a s). Qed.
Print Assumptions C01_lincomb2_entry.

(* the transformed overlap matrix of any basis (any coordinate types, rectangular T allowed) is symmetric *)
Theorem C01_overlap_integral_sym_T :
  forall (F : Type) (K : Fops F), is_field K ->
  (forall x : F, fapx K x = x) -> fadd K (f1 K) (f1 K) <> f0 K ->
  forall bs : list (shell F), (forall s, In s bs -> 0 < nseg s) -> basis_wf bs -> basis_exps K bs bs ->
  0 < length bs ->
  forall (t : list (list F)) (S : nat),
  (length t = S /\ Forall (fun row => length row = ototal K bs) t) ->
  forall a b, a < S -> b < S ->
  nth a (nth b (overlap_integral K bs (Some t)) []) (f0 K) = nth b (nth a (overlap_integral K bs (Some t)) []) (f0 K).
Proof. exact (fun F K Kf Hapx H2 => overlap_integral_sym_T K Kf Hapx H2). Qed.
Print Assumptions C01_overlap_integral_sym_T.
