(* Props/C08_block.v — block-level theorems backing property C08 (momentum and angular momentum exact and
   Hermitian).  The model returns the REAL array R of the value -i R, last axis (x, y, z).  Spec per primitive
   pair (Proofs/CoreDiffP.v), with per axis  S1 = 1-D overlap integral,  D1(1) = Bop beta S1 = integral of
   phi_a d/dx phi_b,  M1o = prefactor x T3(1/(2p); P-A, P-B, P-0; 1, i, j) = integral of phi_a x phi_b
   (first moment about the coordinate origin):
     mom_x_prim = D1_x(1) S1_y S1_z                              (y, z alike)
     ang_x_prim = S1_x (M1o_y D1_z(1) - M1o_z D1_y(1))           (cyclic)     i.e.  phi_a (y d/dz - z d/dy) phi_b
   contracted over the primitives as in Props/C01_block.v.  Hypotheses as there. *)
From Coq Require Import List Arith.
From GB Require Import Base.Field Base.FNum Base.Tables Gauss.Moment1D Model.Shell Model.MomentInt Model.Overlap
  Model.DiffOp Proofs.DiffOpP Proofs.CoreSumP Proofs.CoreBlockP Proofs.CoreDiffP Proofs.CoreExamplesP.
Import ListNotations.

Theorem C08_spec_unfold :
  forall (F : Type) (K : Fops F) (sa sb : shell F) (ca cb : comp) (alpha beta : F),
  let S A B i j := Sfun K A B alpha beta i j in
  let D A B i j := Bop K beta (Sfun K A B alpha beta) i j in
  let M A B i j := fmul K (base K A B alpha beta) (T1 K A B (f0 K) alpha beta 1 i j) in
  mom_x_prim K sa sb ca cb alpha beta
  = fmul K (fmul K (D (s_x sa) (s_x sb) (cx ca) (cx cb)) (S (s_y sa) (s_y sb) (cy ca) (cy cb)))
           (S (s_z sa) (s_z sb) (cz ca) (cz cb))
  /\ ang_x_prim K sa sb ca cb alpha beta
  = fmul K (S (s_x sa) (s_x sb) (cx ca) (cx cb))
      (fsub K (fmul K (M (s_y sa) (s_y sb) (cy ca) (cy cb)) (D (s_z sa) (s_z sb) (cz ca) (cz cb)))
              (fmul K (M (s_z sa) (s_z sb) (cz ca) (cz cb)) (D (s_y sa) (s_y sb) (cy ca) (cy cb))))
  /\ ang_y_prim K sa sb ca cb alpha beta
  = fmul K (S (s_y sa) (s_y sb) (cy ca) (cy cb))
      (fsub K (fmul K (M (s_z sa) (s_z sb) (cz ca) (cz cb)) (D (s_x sa) (s_x sb) (cx ca) (cx cb)))
              (fmul K (M (s_x sa) (s_x sb) (cx ca) (cx cb)) (D (s_z sa) (s_z sb) (cz ca) (cz cb))))
  /\ ang_z_prim K sa sb ca cb alpha beta
  = fmul K (S (s_z sa) (s_z sb) (cz ca) (cz cb))
      (fsub K (fmul K (M (s_x sa) (s_x sb) (cx ca) (cx cb)) (D (s_y sa) (s_y sb) (cy ca) (cy cb)))
              (fmul K (M (s_y sa) (s_y sb) (cy ca) (cy cb)) (D (s_x sa) (s_x sb) (cx ca) (cx cb)))).
Proof. exact (fun F K sa sb ca cb alpha beta => conj eq_refl (conj eq_refl (conj eq_refl eq_refl))). Qed.
Print Assumptions C08_spec_unfold.

(* momentum_block_correct: entry [ma][ia][mb][ib] is the triple (x, y, z) of contracted integrals of
   phi_a d/dx_c phi_b (the value returned by the code is -i times it) *)
Theorem C08_momentum_block_correct :
  forall (F : Type) (K : Fops F), is_field K ->
  (forall x : F, fapx K x = x) -> fadd K (f1 K) (f1 K) <> f0 K ->
  forall (sa sb : shell F) (ma ia mb ib : nat),
  wf_shell sa -> wf_shell sb -> exps_ok K sa sb ->
  ma < nseg sa -> ia < length (comps_of sa) -> mb < nseg sb -> ib < length (comps_of sb) ->
  let ca := nth ia (comps_of sa) (0,0,0) in let cb := nth ib (comps_of sb) (0,0,0) in
  get4 [] ma ia mb ib (momentum_block_re K sa sb)
  = [ contracted K sa sb ca cb ma mb (mom_x_prim K sa sb ca cb);
      contracted K sa sb ca cb ma mb (mom_y_prim K sa sb ca cb);
      contracted K sa sb ca cb ma mb (mom_z_prim K sa sb ca cb) ].
Proof. exact (fun F K Kf Hapx H2 => momentum_block_correct K Kf Hapx H2). Qed.
Print Assumptions C08_momentum_block_correct.

(* angmom_block_correct: products moment x derivative x overlap about the coordinate origin, as the code
   forms them (angular_momentum.py:114-147), contracted *)
Theorem C08_angmom_block_correct :
  forall (F : Type) (K : Fops F), is_field K ->
  (forall x : F, fapx K x = x) -> fadd K (f1 K) (f1 K) <> f0 K ->
  forall (sa sb : shell F) (ma ia mb ib : nat),
  wf_shell sa -> wf_shell sb -> exps_ok K sa sb ->
  ma < nseg sa -> ia < length (comps_of sa) -> mb < nseg sb -> ib < length (comps_of sb) ->
  let ca := nth ia (comps_of sa) (0,0,0) in let cb := nth ib (comps_of sb) (0,0,0) in
  get4 [] ma ia mb ib (angmom_block_re K sa sb)
  = [ contracted K sa sb ca cb ma mb (ang_x_prim K sa sb ca cb);
      contracted K sa sb ca cb ma mb (ang_y_prim K sa sb ca cb);
      contracted K sa sb ca cb ma mb (ang_z_prim K sa sb ca cb) ].
Proof. exact (fun F K Kf Hapx H2 => angmom_block_correct K Kf Hapx H2). Qed.
Print Assumptions C08_angmom_block_correct.

(* momentum_block_antisym: block(b,a)[mb][ib][ma][ia][c] = - block(a,b)[ma][ia][mb][ib][c]; with the
   factor -i the shell-pair blocks are each other's conjugate transposes (Hermitian operator) *)
Theorem C08_momentum_block_antisym :
  forall (F : Type) (K : Fops F), is_field K ->
  (forall x : F, fapx K x = x) -> fadd K (f1 K) (f1 K) <> f0 K ->
  forall (sa sb : shell F) (ma ia mb ib : nat),
  wf_shell sa -> wf_shell sb -> exps_ok K sa sb ->
  ma < nseg sa -> ia < length (comps_of sa) -> mb < nseg sb -> ib < length (comps_of sb) ->
  get4 [] mb ib ma ia (momentum_block_re K sb sa)
  = map (fopp K) (get4 [] ma ia mb ib (momentum_block_re K sa sb)).
Proof. exact (fun F K Kf Hapx H2 => momentum_block_antisym K Kf Hapx H2). Qed.
Print Assumptions C08_momentum_block_antisym.

Theorem C08_angmom_block_antisym :
  forall (F : Type) (K : Fops F), is_field K ->
  (forall x : F, fapx K x = x) -> fadd K (f1 K) (f1 K) <> f0 K ->
  forall (sa sb : shell F) (ma ia mb ib : nat),
  wf_shell sa -> wf_shell sb -> exps_ok K sa sb ->
  ma < nseg sa -> ia < length (comps_of sa) -> mb < nseg sb -> ib < length (comps_of sb) ->
  get4 [] mb ib ma ia (angmom_block_re K sb sa)
  = map (fopp K) (get4 [] ma ia mb ib (angmom_block_re K sa sb)).
Proof. exact (fun F K Kf Hapx H2 => angmom_block_antisym K Kf Hapx H2). Qed.
Print Assumptions C08_angmom_block_antisym.

Example C08_block_hypotheses_Qc :
  forall opi osqrt oexp oln oboys,
  let K := KQ opi osqrt oexp oln oboys in
  is_field K /\ (forall x, fapx K x = x) /\ fadd K (f1 K) (f1 K) <> f0 K
  /\ wf_shell ex_sa /\ wf_shell ex_sb /\ exps_ok K ex_sa ex_sb /\ exps_ok K ex_sa ex_sa
  /\ 1 < nseg ex_sa /\ 5 < length (comps_of ex_sa) /\ 0 < nseg ex_sb /\ 2 < length (comps_of ex_sb).
Proof. exact block_hypotheses_satisfiable. Qed.
Print Assumptions C08_block_hypotheses_Qc.
