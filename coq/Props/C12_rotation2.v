(* Props/C12_rotation2.v — property C12, GENERAL ROTATIONS (proper and improper), continued from Props/C12_rotation.v:
   the POINT-CHARGE (Boys-type) integral, the MOMENTUM (vector), the ANGULAR MOMENTUM (pseudo-vector) and the MULTIPOLE
   MOMENT block, at the level of the algebraic specification and of every entry of the list-level model's blocks.
   Any field, no analysis, no axioms; no property of the Boys function, of sqrt or pi is used.

   Chain:
     Proofs/RotationMoreP.v       point charge: for every s the s-polynomial of OneElecP ([prim_poly], value = product over
                                  the axes of three 1-D Gaussian moments with the SAME variance v(1-s)) is E3 (v(1-s)) of the
                                  product polynomial (y + PA - s PC)^a (y + PB - s PC)^b; the displacements rotate with R;
                                  Poly3.E3_subst_orth gives covariance of the VALUES for every s; the D-combination of
                                  s-polynomials is a coefficient list, Phi is linear, and OneElecP.Phi_unique (characteristic
                                  0) transfers the law to Phi for ANY sequence beta; the Boys sequence depends on |A-B|^2,
                                  |P-C|^2 only.  Momentum: grad_k = d_k - 2 beta u_k on the right index of the overlap,
                                  chain rule grad_k (f o Q) = sum_i Q i k (grad_i f) o Q.
     Proofs/RotationAngP.v        angular momentum about the coordinate origin: L_k = sum eps_kmn (u_m + B_m) grad_n,
                                  (row_i Q) x (row_j Q) = det Q eps_ijl row_l Q for orthonormal columns, hence
                                  L'_k (f o Q) = det Q sum_l Q l k (L_l f) o Q.
     Proofs/RotationMoreBlockP.v  lifting through contraction and normalisation for a FIXED R and two kernels
                                  ([block_rotation_law_generic2]); [one_elec_spec] of OneElecP as a contracted sum.
     Proofs/RotationLawsP.v       the block laws with the hypotheses curried and the sums explicit ([law_expanded]).

   CONVENTIONS (as in C12_rotation.v).  R : mat3 (rows), R[k][i] = [matf R k i]; [rot_shell R s] has centre R * centre(s);
   D(R)[a,a'] = coefficient of u^a' in (R^T u)^a, so that Jsum J (rot_expand R a) = sum_a' D(R)[a,a'] J a' and
   [rep_mat R a' a] = D(R)[a,a'] collected over [default_comps l]; [orthogonal R] is R R^T = R^T R = 1, nothing assumed
   about det R; [det3 (matf R)] is the determinant (its square is 1: C12_rotation2_det_squared).
   Block law ([law_expanded K R la lb ent ent']), for Cartesian shells of angular momenta la, lb in the default component
   order, one coefficient row per exponent, non-zero exponent sums, every segment pair (ma, mb) and component pair (ja, jb):
        dfnorm(ja) dfnorm(jb) ent(sa, sb)[ma, ja, mb, jb]
          = sum_ia sum_ib rep_mat[ia, ja] rep_mat[ib, jb] dfnorm(ia) dfnorm(ib) ent'(R sa, R sb)[ma, ia, mb, ib].

   STILL ONLY TESTED for general rotations (harness/c12.py): electron-repulsion integrals, spherical / mixed shells,
   evaluations, densities, whole-basis assembly.  For spherical shells the law would follow by linearity from the Cartesian
   one GIVEN matrices D_sph with  T D_cart = D_sph T  (T the Cartesian-to-spherical transformation incl. norms); their
   existence (the span of the rows of T is rotation invariant) is not proved for general l and no theorem is stated. *)
From Coq Require Import List Arith ZArith QArith Qcanon Field_theory.
From GB Require Import Base.Field Base.FNum Base.Tables Gauss.Moment1D Gauss.SPoly Gauss.Poly3 Model.Shell
  Model.MomentInt Model.Overlap Model.DiffOp Model.OneElec Proofs.CoreSumP Proofs.CoreBlockP Proofs.CoreDiffP
  Proofs.OneElecP Proofs.RigidP Proofs.RotationP Proofs.RotationBlockP Proofs.RotationMoreP Proofs.RotationMoreBlockP
  Proofs.RotationAngP Proofs.RotationLawsP.
Import ListNotations.

(* ==================================================================================================== *)
(* 1. point charge, primitive level *)

(* for every s the s-polynomial is the isotropic 3-D functional, variance v (1 - s), of (y+PA-sPC)^a (y+PB-sPC)^b *)
Theorem C12_rotation2_point_charge_integrand_is_E3 :
  forall (F : Type) (K : Fops F), is_field K ->
  forall (C A B : axis -> F) (alpha beta : F) (ca cb : comp) (s : F),
  SPoly.peval K (prim_poly K (C AX) (C AY) (C AZ) (A AX) (A AY) (A AZ) (B AX) (B AY) (B AZ) alpha beta ca cb) s
  = E3 K (fmul K (fdiv K (f1 K) (fmul K (fadd K (f1 K) (f1 K)) (fadd K alpha beta))) (fsub K (f1 K) s))
      (smono K (dAs K C A B alpha beta s) ca (smono K (dBs K C A B alpha beta s) cb (one3 K))).
Proof. exact (@prim_poly_is_E3). Qed.
Print Assumptions C12_rotation2_point_charge_integrand_is_E3.

(* per s: the values of the s-polynomials of the rotated system, D-contracted, are those of the original system *)
Theorem C12_rotation2_point_charge_integrand_covariant :
  forall (F : Type) (K : Fops F), is_field K ->
  forall (R : axis -> axis -> F) (C A B : axis -> F) (alpha beta : F) (ca cb : mon) (s : F),
  orth_rows K (transpose R) -> fadd K alpha beta <> f0 K ->
  Jsum K (fun a' : mon => Jsum K (fun b' : mon =>
      SPoly.peval K (prim_poly_v K (rotv K R C) (rotv K R A) (rotv K R B) alpha beta a' b') s)
    (subst_mon K (transpose R) cb)) (subst_mon K (transpose R) ca)
  = SPoly.peval K (prim_poly_v K C A B alpha beta ca cb) s.
Proof. exact (@prim_poly_rotation_covariant_eval). Qed.
Print Assumptions C12_rotation2_point_charge_integrand_covariant.

(* through the linear functional Phi_m of ANY sequence bet (no property of the Boys function) *)
Theorem C12_rotation2_point_charge_Phi_covariant :
  forall (F : Type) (K : Fops F), is_field K -> (forall n : nat, ofnat K (S n) <> f0 K) ->
  forall (R : axis -> axis -> F) (C A B : axis -> F) (alpha beta : F) (ca cb : mon) (bet : nat -> F) (m : nat),
  orth_rows K (transpose R) -> fadd K alpha beta <> f0 K ->
  Jsum K (fun a' : mon => Jsum K (fun b' : mon =>
      Phi K bet m (prim_poly_v K (rotv K R C) (rotv K R A) (rotv K R B) alpha beta a' b'))
    (subst_mon K (transpose R) cb)) (subst_mon K (transpose R) ca)
  = Phi K bet m (prim_poly_v K C A B alpha beta ca cb).
Proof. exact (@Phi_prim_poly_rotation_covariant). Qed.
Print Assumptions C12_rotation2_point_charge_Phi_covariant.

(* the sequence (2 pi / p) K_AB F_m(p |PC|^2) is unchanged when A, B, C are rotated together *)
Theorem C12_rotation2_boys_sequence_invariant :
  forall (F : Type) (K : Fops F), is_field K ->
  forall (R : axis -> axis -> F) (C A B : axis -> F) (alpha beta : F) (m : nat),
  orth_rows K (transpose R) -> fadd K alpha beta <> f0 K ->
  boys_seq_v K (rotv K R C) (rotv K R A) (rotv K R B) alpha beta m = boys_seq_v K C A B alpha beta m.
Proof. exact (@boys_seq_rot). Qed.
Print Assumptions C12_rotation2_boys_sequence_invariant.

(* GENERAL ROTATIONS, point-charge integral of two primitives, the charge at C: [prim_val] is the primitive value of the
   block theorem OneElecP.one_elec_entry *)
Theorem C12_rotation2_point_charge_primitive :
  forall (F : Type) (K : Fops F), is_field K -> (forall n : nat, ofnat K (S n) <> f0 K) ->
  forall (R : mat3) (C : vec3) (sa sb : shell F) (ca cb : comp) (alpha beta : F),
  orthogonal K R -> psum K alpha beta <> f0 K ->
  let C' := mapply K R C in let sa' := rot_shell K R sa in let sb' := rot_shell K R sb in
  Jsum K (fun a' : mon => Jsum K (fun b' : mon =>
       prim_val K (vget C' 0) (vget C' 1) (vget C' 2) (s_x sa') (s_y sa') (s_z sa') (s_x sb') (s_y sb') (s_z sb')
                alpha beta a' b')
     (rot_expand K R cb)) (rot_expand K R ca)
  = prim_val K (vget C 0) (vget C 1) (vget C 2) (s_x sa) (s_y sa) (s_z sa) (s_x sb) (s_y sb) (s_z sb)
             alpha beta ca cb.
Proof. exact (@point_charge_prim_rotation_covariant). Qed.
Print Assumptions C12_rotation2_point_charge_primitive.

(* ==================================================================================================== *)
(* 2. lifting to the blocks *)

(* the specification of OneElecP in the vocabulary of the two-index block theorems *)
Theorem C12_rotation2_one_elec_spec_is_contracted :
  forall (F : Type) (K : Fops F), is_field K -> (forall x : F, fapx K x = x) ->
  forall (Cx Cy Cz : F) (sa sb : shell F) (ma : nat) (ca : comp) (mb : nat) (cb : comp),
  wf_coeffs sa -> wf_coeffs sb ->
  one_elec_spec K Cx Cy Cz sa sb ma ca mb cb
  = contracted K sa sb ca cb ma mb (fun alpha beta : F =>
      prim_val K Cx Cy Cz (s_x sa) (s_y sa) (s_z sa) (s_x sb) (s_y sb) (s_z sb) alpha beta ca cb).
Proof. exact (@one_elec_spec_contracted). Qed.
Print Assumptions C12_rotation2_one_elec_spec_is_contracted.

(* any two kernels whose entries are contracted primitive values obeying the primitive matrix law obey the block law *)
Theorem C12_rotation2_generic_lifting :
  forall (F : Type) (K : Fops F), is_field K -> (forall x : F, fapx K x = x) -> (forall c : comp, dfnorm K c <> f0 K) ->
  forall (R : mat3) (la lb : nat) (ent ent' : entry_fun) (prim prim' : prim_fun),
  entries_are K la lb ent prim -> entries_are K la lb ent' prim' -> prim_law K R la lb prim prim' ->
  block_law2 K R la lb ent ent'.
Proof. exact (@block_rotation_law_generic2). Qed.
Print Assumptions C12_rotation2_generic_lifting.

(* [block_law2] written out *)
Theorem C12_rotation2_block_law_meaning :
  forall (F : Type) (K : Fops F) (R : mat3) (la lb : nat) (ent ent' : shell F -> shell F -> nat -> nat -> nat -> nat -> F),
  block_law2 K R la lb ent ent' <->
  (forall sa sb : shell F,
     s_l sa = la -> s_l sb = lb -> s_comps sa = [] -> s_comps sb = [] -> wf_coeffs sa -> wf_coeffs sb ->
     (forall a b : F, In a (s_exps sa) -> In b (s_exps sb) -> fadd K a b <> f0 K) ->
     forall ma mb ja jb : nat, (ma < nseg sa)%nat -> (mb < nseg sb)%nat ->
       (ja < length (default_comps la))%nat -> (jb < length (default_comps lb))%nat ->
       fmul K (fmul K (dfnorm K (cmpd la ja)) (dfnorm K (cmpd lb jb))) (ent sa sb ma ja mb jb)
       = fsum K (map (fun ia : nat => fsum K (map (fun ib : nat =>
           fmul K (fmul K (fmul K (fmul K (rep_mat K R (cmpd la ia) (cmpd la ja))
                                          (rep_mat K R (cmpd lb ib) (cmpd lb jb)))
                                  (dfnorm K (cmpd la ia))) (dfnorm K (cmpd lb ib)))
             (ent' (rot_shell K R sa) (rot_shell K R sb) ma ia mb ib))
           (seq 0 (length (default_comps lb))))) (seq 0 (length (default_comps la))))).
Proof. exact (@block_law2_unfold). Qed.
Print Assumptions C12_rotation2_block_law_meaning.

(* GENERAL ROTATIONS, PointChargeIntegral.construct_array_contraction (list-level model [point_charge_block], either
   branch of the l_a < l_b swap): every entry, every point; the points [((x, y, z), q); ...] rotate with the shells *)
Theorem C12_rotation2_point_charge_block :
  forall (F : Type) (K : Fops F), is_field K ->
  (forall x : F, fapx K x = x) -> (forall c : comp, dfnorm K c <> f0 K) -> (forall n : nat, ofnat K (S n) <> f0 K) ->
  forall (R : mat3) (points : list (F * F * F * F)) (k la lb : nat),
  orthogonal K R -> (k < length points)%nat ->
  let points' := map (fun pt : F * F * F * F => (mapply K R (fst pt), snd pt)) points in
  forall sa sb : shell F,
    s_l sa = la -> s_l sb = lb -> s_comps sa = [] -> s_comps sb = [] -> wf_coeffs sa -> wf_coeffs sb ->
    (forall a b : F, In a (s_exps sa) -> In b (s_exps sb) -> fadd K a b <> f0 K) ->
    forall ma mb ja jb : nat, (ma < nseg sa)%nat -> (mb < nseg sb)%nat ->
      (ja < length (default_comps la))%nat -> (jb < length (default_comps lb))%nat ->
      fmul K (fmul K (dfnorm K (cmpd la ja)) (dfnorm K (cmpd lb jb)))
        (nth k (nth jb (nth mb (nth ja (nth ma (point_charge_block K points sa sb) []) []) []) []) (f0 K))
      = fsum K (map (fun ia : nat => fsum K (map (fun ib : nat =>
          fmul K (fmul K (fmul K (fmul K (rep_mat K R (cmpd la ia) (cmpd la ja))
                                         (rep_mat K R (cmpd lb ib) (cmpd lb jb)))
                                 (dfnorm K (cmpd la ia))) (dfnorm K (cmpd lb ib)))
            (nth k (nth ib (nth mb (nth ia (nth ma
               (point_charge_block K points' (rot_shell K R sa) (rot_shell K R sb)) []) []) []) []) (f0 K)))
          (seq 0 (length (default_comps lb))))) (seq 0 (length (default_comps la)))).
Proof. exact (@point_charge_block_rotation_expanded). Qed.
Print Assumptions C12_rotation2_point_charge_block.

(* the one-point routine [one_elec_point] (= _compute_one_elec_integrals before the charge factor), charge at C *)
Theorem C12_rotation2_one_elec_point_block :
  forall (F : Type) (K : Fops F), is_field K ->
  (forall x : F, fapx K x = x) -> (forall c : comp, dfnorm K c <> f0 K) -> (forall n : nat, ofnat K (S n) <> f0 K) ->
  forall (R : mat3) (C : vec3) (la lb : nat), orthogonal K R ->
  law_expanded K R la lb
    (fun sa sb ma ia mb ib =>
       nth ib (nth mb (nth ia (nth ma (one_elec_point K (vget C 0) (vget C 1) (vget C 2) sa sb) []) []) []) (f0 K))
    (fun sa sb ma ia mb ib =>
       nth ib (nth mb (nth ia (nth ma (one_elec_point K (vget (mapply K R C) 0) (vget (mapply K R C) 1)
                                         (vget (mapply K R C) 2) sa sb) []) []) []) (f0 K)).
Proof. exact (@one_elec_point_rotation_expanded). Qed.
Print Assumptions C12_rotation2_one_elec_point_block.

(* ==================================================================================================== *)
(* 3. momentum: a vector *)

(* chain rule for the Gaussian-weighted derivative grad_k = d_k - 2 beta u_k, columns of Q orthonormal *)
Theorem C12_rotation2_gradient_chain_rule :
  forall (F : Type) (K : Fops F), is_field K ->
  forall (Q : axis -> axis -> F) (k : axis) (beta : F) (f : poly3) (J : mon -> F),
  orth_rows K (transpose Q) ->
  Jsum K J (gradop K k beta (subst K Q f))
  = sum3 K (fun i : axis => fmul K (Q i k) (Jsum K J (subst K Q (gradop K i beta f)))).
Proof. exact (@gradop_subst). Qed.
Print Assumptions C12_rotation2_gradient_chain_rule.

(* mom_x_prim, mom_y_prim, mom_z_prim of CoreDiffP are that operator on the right index of the overlap *)
Theorem C12_rotation2_mom_prim_is_gradient :
  forall (F : Type) (K : Fops F), is_field K ->
  forall (k : axis) (sa sb : shell F) (ca cb : comp) (alpha beta : F),
  match k with AX => mom_x_prim K | AY => mom_y_prim K | AZ => mom_z_prim K end sa sb ca cb alpha beta
  = gradT K k beta (fun b : mon => ovl_prim K sa sb ca b alpha beta) cb.
Proof. exact (@mom_prim_is_gradT). Qed.
Print Assumptions C12_rotation2_mom_prim_is_gradient.

(* GENERAL ROTATIONS, momentum of two primitives: the D-contracted integrals of the rotated system are the rotated
   vector R (mom_x, mom_y, mom_z) of the original system *)
Theorem C12_rotation2_momentum_primitive :
  forall (F : Type) (K : Fops F), is_field K ->
  (forall x y : F, fexp K (fadd K x y) = fmul K (fexp K x) (fexp K y)) ->
  forall (R : mat3) (k : axis) (sa sb : shell F) (ca cb : comp) (alpha beta : F),
  orthogonal K R -> psum K alpha beta <> f0 K ->
  Jsum K (fun a' : mon => Jsum K (fun b' : mon =>
       momk K k (rot_shell K R sa) (rot_shell K R sb) a' b' alpha beta)
     (rot_expand K R cb)) (rot_expand K R ca)
  = sum3 K (fun i : axis => fmul K (matf R k i) (momk K i sa sb ca cb alpha beta)).
Proof. exact (@momentum_prim_rotation_covariant). Qed.
Print Assumptions C12_rotation2_momentum_primitive.

(* inverse form: rotating the D-contracted vector back with R^T gives the original component *)
Theorem C12_rotation2_momentum_primitive_inverse :
  forall (F : Type) (K : Fops F), is_field K ->
  (forall x y : F, fexp K (fadd K x y) = fmul K (fexp K x) (fexp K y)) ->
  forall (R : mat3) (j : axis) (sa sb : shell F) (ca cb : comp) (alpha beta : F),
  orthogonal K R -> psum K alpha beta <> f0 K ->
  sum3 K (fun k : axis => fmul K (matf R k j)
    (Jsum K (fun a' : mon => Jsum K (fun b' : mon =>
         momk K k (rot_shell K R sa) (rot_shell K R sb) a' b' alpha beta)
       (rot_expand K R cb)) (rot_expand K R ca)))
  = momk K j sa sb ca cb alpha beta.
Proof. exact (@momentum_prim_rotation_covariant_inv). Qed.
Print Assumptions C12_rotation2_momentum_primitive_inverse.

(* MomentumIntegral.construct_array_contraction ([momentum_block_re]: the real matrix M of the value -i M, last axis
   x, y, z): every entry *)
Theorem C12_rotation2_momentum_block :
  forall (F : Type) (K : Fops F), is_field K ->
  (forall x : F, fapx K x = x) -> (forall c : comp, dfnorm K c <> f0 K) -> fadd K (f1 K) (f1 K) <> f0 K ->
  (forall x y : F, fexp K (fadd K x y) = fmul K (fexp K x) (fexp K y)) ->
  forall (R : mat3) (k : axis) (la lb : nat), orthogonal K R ->
  let comp_of := fun (i : axis) (sa sb : shell F) (ma ia mb ib : nat) =>
    nth (ax2nat i) (nth ib (nth mb (nth ia (nth ma (momentum_block_re K sa sb) []) []) []) []) (f0 K) in
  law_expanded K R la lb
    (fun sa sb ma ia mb ib => sum3 K (fun i : axis => fmul K (matf R k i) (comp_of i sa sb ma ia mb ib)))
    (comp_of k).
Proof. exact (@momentum_block_rotation_expanded). Qed.
Print Assumptions C12_rotation2_momentum_block.

(* ==================================================================================================== *)
(* 4. angular momentum about the coordinate origin: a pseudo-vector *)

Theorem C12_rotation2_det_squared :
  forall (F : Type) (K : Fops F), is_field K ->
  forall R : mat3, orthogonal K R -> fmul K (det3 K (matf R)) (det3 K (matf R)) = f1 K.
Proof. exact (@orthogonal_det_sq). Qed.
Print Assumptions C12_rotation2_det_squared.

(* (row x) x (row y) = det * (row z) for a matrix with orthonormal columns (and cyclic: cross_yz, cross_zx) *)
Theorem C12_rotation2_cross_product_of_rows :
  forall (F : Type) (K : Fops F), is_field K ->
  forall (M : mat) (k : axis), orth_rows K (transpose M) -> cross K M AX AY k = fmul K (det3 K M) (M AZ k).
Proof. exact (@cross_xy). Qed.
Print Assumptions C12_rotation2_cross_product_of_rows.

(* L_k = sum eps_kmn (u_m + B_m) grad_n under an orthogonal substitution, B' = Q^T B *)
Theorem C12_rotation2_angular_operator_pseudovector :
  forall (F : Type) (K : Fops F), is_field K ->
  forall (Q : axis -> axis -> F) (Bv Bv' : axis -> F) (beta : F) (k : axis) (f : poly3) (J : mon -> F),
  orth_rows K (transpose Q) ->
  (forall n : axis, Bv' n = sum3 K (fun i : axis => fmul K (Q i n) (Bv i))) ->
  Jsum K J (Lop K Bv' beta k (subst K Q f))
  = fmul K (det3 K Q) (sum3 K (fun l : axis => fmul K (Q l k) (Jsum K J (subst K Q (Lop K Bv beta l f))))).
Proof. exact (@Lop_subst). Qed.
Print Assumptions C12_rotation2_angular_operator_pseudovector.

(* ang_x_prim, ang_y_prim, ang_z_prim of CoreDiffP are that operator on the right index of the overlap *)
Theorem C12_rotation2_ang_prim_is_operator :
  forall (F : Type) (K : Fops F), is_field K ->
  forall (k : axis) (sa sb : shell F) (ca cb : comp) (alpha beta : F),
  match k with AX => ang_x_prim K | AY => ang_y_prim K | AZ => ang_z_prim K end sa sb ca cb alpha beta
  = LT K (centre sb) beta k (fun b : mon => ovl_prim K sa sb ca b alpha beta) cb.
Proof. exact (@ang_prim_is_LT). Qed.
Print Assumptions C12_rotation2_ang_prim_is_operator.

(* GENERAL ROTATIONS, angular momentum of two primitives: D x D on the indices, det R * R on the component *)
Theorem C12_rotation2_angular_momentum_primitive :
  forall (F : Type) (K : Fops F), is_field K ->
  (forall x y : F, fexp K (fadd K x y) = fmul K (fexp K x) (fexp K y)) ->
  forall (R : mat3) (k : axis) (sa sb : shell F) (ca cb : comp) (alpha beta : F),
  orthogonal K R -> psum K alpha beta <> f0 K ->
  Jsum K (fun a' : mon => Jsum K (fun b' : mon =>
       angk K k (rot_shell K R sa) (rot_shell K R sb) a' b' alpha beta)
     (rot_expand K R cb)) (rot_expand K R ca)
  = fmul K (det3 K (matf R)) (sum3 K (fun l : axis => fmul K (matf R k l) (angk K l sa sb ca cb alpha beta))).
Proof. exact (@angular_momentum_prim_rotation_covariant). Qed.
Print Assumptions C12_rotation2_angular_momentum_primitive.

(* AngularMomentumIntegral.construct_array_contraction ([angmom_block_re]): every entry *)
Theorem C12_rotation2_angular_momentum_block :
  forall (F : Type) (K : Fops F), is_field K ->
  (forall x : F, fapx K x = x) -> (forall c : comp, dfnorm K c <> f0 K) -> fadd K (f1 K) (f1 K) <> f0 K ->
  (forall x y : F, fexp K (fadd K x y) = fmul K (fexp K x) (fexp K y)) ->
  forall (R : mat3) (k : axis) (la lb : nat), orthogonal K R ->
  let comp_of := fun (i : axis) (sa sb : shell F) (ma ia mb ib : nat) =>
    nth (ax2nat i) (nth ib (nth mb (nth ia (nth ma (angmom_block_re K sa sb) []) []) []) []) (f0 K) in
  law_expanded K R la lb
    (fun sa sb ma ia mb ib =>
       fmul K (det3 K (matf R)) (sum3 K (fun l : axis => fmul K (matf R k l) (comp_of l sa sb ma ia mb ib))))
    (comp_of k).
Proof. exact (@angmom_block_rotation_expanded). Qed.
Print Assumptions C12_rotation2_angular_momentum_block.

(* ==================================================================================================== *)
(* 5. multipole-moment block: the order index rotates with D(R) as well.  Original system: the order o = orders[d] of any
      requested list, origin C; rotated system: all orders of degree |o| requested ([default_comps |o|]), origin R C *)
Theorem C12_rotation2_moment_block :
  forall (F : Type) (K : Fops F), is_field K ->
  (forall x : F, fapx K x = x) -> (forall c : comp, dfnorm K c <> f0 K) -> fadd K (f1 K) (f1 K) <> f0 K ->
  (forall x y : F, fexp K (fadd K x y) = fmul K (fexp K x) (fexp K y)) ->
  forall (R : mat3) (C : vec3) (orders : list comp) (d la lb : nat), orthogonal K R -> (d < length orders)%nat ->
  let o := nth d orders (0, 0, 0)%nat in
  let lo := mdeg o in
  let C' := mapply K R C in
  law_expanded K R la lb
    (fun sa sb ma ia mb ib =>
       nth d (nth ib (nth mb (nth ia (nth ma
         (moment_block K (vget C 0) (vget C 1) (vget C 2) orders sa sb) []) []) []) []) (f0 K))
    (fun sa sb ma ia mb ib =>
       fsum K (mk (length (default_comps lo)) (fun d' : nat =>
         fmul K (rep_mat K R (cmpd lo d') o)
           (nth d' (nth ib (nth mb (nth ia (nth ma
              (moment_block K (vget C' 0) (vget C' 1) (vget C' 2) (default_comps lo) sa sb) []) []) []) []) (f0 K))))).
Proof. exact (@moment_block_rotation_expanded). Qed.
Print Assumptions C12_rotation2_moment_block.

(* ==================================================================================================== *)
(* 6. the hypotheses are satisfiable; the statements re-evaluated by computation on rational data (3-4-5 rotation and
      the improper (1/3)[[1,2,2],[2,1,-2],[2,-2,1]]; p and d primitives; contracted two-segment p shell against p / d
      shells through the list-level model, point-charge block on its swapped branch) *)
Theorem C12_rotation2_hypotheses_satisfiable :
  exists (F : Type) (K : Fops F) (R1 R2 : mat3) (alpha beta : F),
    is_field K /\ (forall n, ofnat K (S n) <> f0 K)
    /\ (forall x y, fexp K (fadd K x y) = fmul K (fexp K x) (fexp K y))
    /\ orthogonal K R1 /\ orthogonal K R2 /\ psum K alpha beta <> f0 K.
Proof. exact rotation_more_hypotheses_satisfiable. Qed.
Print Assumptions C12_rotation2_hypotheses_satisfiable.

Theorem C12_rotation2_block_hypotheses_satisfiable :
  exists (F : Type) (K : Fops F) (R : mat3) (sa sb : shell F),
    is_field K /\ (forall x, fapx K x = x) /\ (forall c, dfnorm K c <> f0 K) /\ (forall n, ofnat K (S n) <> f0 K)
    /\ fadd K (f1 K) (f1 K) <> f0 K /\ (forall x y, fexp K (fadd K x y) = fmul K (fexp K x) (fexp K y))
    /\ orthogonal K R /\ good_pair K 1 2 sa sb.
Proof. exact block2_hypotheses_satisfiable. Qed.
Print Assumptions C12_rotation2_block_hypotheses_satisfiable.

Theorem C12_rotation2_examples_computed :
  forallb (fun R => forallb (fun t => pc_cov_check R (fst t) (snd t)) ex_pairs) [R345; Rimp] = true
  /\ forallb (fun R => forallb (fun k => forallb (fun t => mom_vec_check R k (fst t) (snd t)) ex_pairs)
       [AX; AY; AZ]) [R345; Rimp] = true
  /\ forallb (fun R => forallb (fun k => forallb (fun t => ang_vec_check R k (fst t) (snd t)) ex_pairs)
       [AX; AY; AZ]) [R345; Rimp] = true.
Proof. exact rotation2_examples_computed. Qed.
Print Assumptions C12_rotation2_examples_computed.

(* block laws re-evaluated on the list-level model: one_elec_point (p x p, improper), point_charge_block (two points,
   contracted p x d, swapped branch, 3-4-5), momentum_block_re, moment_block (order (1,1,0) against the six second-order
   moments about R C), angmom_block_re (both rotations) *)
Theorem C12_rotation2_block_examples_computed :
  exb_one_elec_point = true /\ exb_point_charge_block = true /\ exb_momentum_block = true
  /\ exb_moment_block = true /\ exb_angmom_block = true.
Proof. exact rotation2_block_examples_computed. Qed.
Print Assumptions C12_rotation2_block_examples_computed.
