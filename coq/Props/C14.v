(* Props/C14.v — theorems backing property C14 (electrostatic potential = nuclear minus electronic
   Coulomb potential; distance threshold; transform = density matrix transformed back).
   Statements about the executable model Model/Esp.v of gbasis/evals/electrostatic_potential.py;
   each is closed by [exact] of a lemma of Proofs/EspP.v and followed by Print Assumptions.
   All statements are unbounded in the basis, the numbers of points and nuclei, the charges, the
   threshold and the shape of the transform. *)
From Coq Require Import List Arith Bool Reals QArith Qcanon.
From GB Require Import Base.Field Base.Tables Model.Shell Model.Assembly Model.OneElec Model.OneBody
  Model.Esp Proofs.EspP.
Import ListNotations.
Local Open Scope nat_scope.

(* ---- (1) the formula ---- *)
(* Whenever the call is accepted, it returns one value per point, and the value at point p is
     sum_A [ d(R_p, R_A) < thr ? 0 : Z_A / d(R_p, R_A) ]  -  sum_ab P_ab V_ab(p)
   with V = the model of point_charge_integral(basis, points, -ones, transform) (property C03). *)
Theorem C14_esp_formula :
  forall (F : Type) (K : Fops F), is_field K ->
  forall basis P points ncoords ncharges T thr v,
  esp K basis P points ncoords ncharges T thr = Some v ->
  length v = length points /\
  forall p, p < length points ->
    nth p v (f0 K)
    = fsub K (nuclear_sum K thr ncoords ncharges (nth p points (f0 K, f0 K, f0 K)))
             (electronic_sum K (point_charge_integral K (unit_neg_points K points) basis T) P p).
Proof. exact (fun F K Kf => esp_formula K Kf). Qed.
Print Assumptions C14_esp_formula.

(* the two sums, spelled out (definitional unfoldings, stated so that the reader need not open
   Proofs/EspP.v): the nuclear sum runs over the nuclei, each contributing 0 or Z/d ... *)
Theorem C14_nuclear_sum_unfold :
  forall (F : Type) (K : Fops F) thr ncoords ncharges R,
  nuclear_sum K thr ncoords ncharges R
  = Tables.sumn (f0 K) (fadd K) (Nat.min (length ncoords) (length ncharges))
      (fun A => if masked K thr R (nth A ncoords (f0 K, f0 K, f0 K)) then f0 K
                else fdiv K (nth A ncharges (f0 K)) (Esp.dist K R (nth A ncoords (f0 K, f0 K, f0 K)))).
Proof. exact (fun F K thr nc nz R => eq_refl). Qed.
Print Assumptions C14_nuclear_sum_unfold.

(* ... and the electronic sum is the density-matrix-weighted double sum of the integrals *)
Theorem C14_electronic_sum_unfold :
  forall (F : Type) (K : Fops F) H P p,
  electronic_sum K H P p
  = Tables.sumn (f0 K) (fadd K) (length P) (fun a => Tables.sumn (f0 K) (fadd K) (length P) (fun b =>
      fmul K (nth b (nth a P []) (f0 K)) (nth p (nth b (nth a H []) []) (f0 K)))).
Proof. exact (fun F K H P p => eq_refl). Qed.
Print Assumptions C14_electronic_sum_unfold.

(* the integrals: with the unit NEGATIVE charges the code passes, every shell-pair block entry is
   PLUS the one-electron Coulomb integral at that point (point_charge.py multiplies by -q) *)
Theorem C14_unit_negative_charges_give_plus_coulomb :
  forall (F : Type) (K : Fops F), is_field K ->
  forall points sa sb ma ia mb ib p,
  ma < nseg sa -> ia < length (comps_of sa) -> mb < nseg sb -> ib < length (comps_of sb) ->
  p < length points ->
  nth p (nth ib (nth mb (nth ia (nth ma
      (point_charge_block K (unit_neg_points K points) sa sb) []) []) []) []) (f0 K)
  = let R := nth p points (f0 K, f0 K, f0 K) in
    if Nat.ltb (s_l sa) (s_l sb)
    then (nth ia (nth ma (nth ib (nth mb
           (one_elec_point K (fst (fst R)) (snd (fst R)) (snd R) sb sa) []) []) []) (f0 K))
    else (nth ib (nth mb (nth ia (nth ma
           (one_elec_point K (fst (fst R)) (snd (fst R)) (snd R) sa sb) []) []) []) (f0 K)).
Proof. exact (fun F K Kf => unit_neg_block_entry K Kf). Qed.
Print Assumptions C14_unit_negative_charges_give_plus_coulomb.

(* ---- (2) what is accepted ---- *)
Theorem C14_accepted_iff :
  forall (F : Type) (K : Fops F) basis P points ncoords ncharges T thr,
  (exists v, esp K basis P points ncoords ncharges T thr = Some v) <->
  square_symmetric K P = true /\ length ncoords = length ncharges /\ fltb K thr (f0 K) = false
  /\ size_ok (nfun_basis basis) P T = true.
Proof. exact (fun F K => esp_accepts K). Qed.
Print Assumptions C14_accepted_iff.

(* with a transform the density matrix is compared with the number of ROWS of the transform
   (rectangular transforms pass), and the transform needs one column per contraction *)
Theorem C14_size_rule_with_transform :
  forall (F : Type) nf (P t : list (list F)),
  size_ok nf P (Some t) = true <-> length t = length P /\ Forall (fun row => length row = nf) t.
Proof. exact (fun F => @size_ok_transform F). Qed.
Print Assumptions C14_size_rule_with_transform.

Theorem C14_size_rule_without_transform :
  forall (F : Type) nf (P : list (list F)), size_ok nf P None = true <-> nf = length P.
Proof. exact (fun F => @size_ok_plain F). Qed.
Print Assumptions C14_size_rule_without_transform.

Theorem C14_negative_threshold_refused :
  forall basis P points ncoords ncharges T (thr : R), (thr < 0)%R ->
  esp RKe basis P points ncoords ncharges T thr = None.
Proof. exact negative_threshold_refused. Qed.
Print Assumptions C14_negative_threshold_refused.

(* ---- (3) the threshold ---- *)
(* any field: the decision is a function of (threshold, point, nucleus position) only, and the
   contribution is 0 when dropped and Z/d when kept, for every charge Z *)
Theorem C14_mask_ignores_charge :
  forall (F : Type) (K : Fops F) thr R n,
  (masked K thr R n = true -> forall Z, nuc_term K thr R (n, Z) = f0 K) /\
  (masked K thr R n = false -> forall Z, nuc_term K thr R (n, Z) = fdiv K Z (Esp.dist K R n)).
Proof. exact (fun F K thr R n => conj (nuc_term_masked K thr R n) (nuc_term_kept K thr R n)). Qed.
Print Assumptions C14_mask_ignores_charge.

(* the reals, real square root: dropped iff the Euclidean distance is below the threshold *)
Theorem C14_mask_iff_distance :
  forall (thr : R) (p n : Rpt),
  masked RKe thr p n = true <->
  (sqrt ((fst (fst p) - fst (fst n))² + (snd (fst p) - snd (fst n))² + (snd p - snd n)²) < thr)%R.
Proof. exact mask_iff_distance_R. Qed.
Print Assumptions C14_mask_iff_distance.

Theorem C14_mask_iff_squared_distance :
  forall (thr : R) (p n : Rpt), (0 <= thr)%R ->
  (masked RKe thr p n = true <->
   ((fst (fst p) - fst (fst n))² + (snd (fst p) - snd (fst n))² + (snd p - snd n)² < thr * thr)%R).
Proof. exact mask_iff_sqdistance_R. Qed.
Print Assumptions C14_mask_iff_squared_distance.

Theorem C14_nuclear_term_by_distance :
  forall (thr : R) (p n : Rpt) (Z : R),
  ((sqrt (edist2 p n) < thr)%R -> nuc_term RKe thr p (n, Z) = 0%R) /\
  (~ (sqrt (edist2 p n) < thr)%R -> nuc_term RKe thr p (n, Z) = (Z / sqrt (edist2 p n))%R).
Proof. exact nuc_term_R. Qed.
Print Assumptions C14_nuclear_term_by_distance.

(* whatever the sign or magnitude of the charge *)
Theorem C14_mask_independent_of_charge :
  forall (thr : R) (p n : Rpt) (Z Z' : R), Z <> 0%R -> Z' <> 0%R -> (0 < edist2 p n)%R ->
  (nuc_term RKe thr p (n, Z) = 0%R <-> nuc_term RKe thr p (n, Z') = 0%R).
Proof. exact mask_charge_independent_R. Qed.
Print Assumptions C14_mask_independent_of_charge.

Example C14_charge_hypotheses_satisfiable :
  (4 <> 0)%R /\ (-1 <> 0)%R /\ (0 < edist2 (1, 0, 0) (0, 0, 0))%R.
Proof. exact charge_hyps_example. Qed.
Print Assumptions C14_charge_hypotheses_satisfiable.

Theorem C14_threshold_zero_drops_nothing :
  forall (p n : Rpt), masked RKe 0%R p n = false.
Proof. exact mask_threshold_zero_R. Qed.
Print Assumptions C14_threshold_zero_drops_nothing.

Theorem C14_threshold_beyond_all_distances_drops_all :
  forall (thr : R) (p : Rpt) ncoords ncharges,
  (forall n, In n ncoords -> (sqrt (edist2 p n) < thr)%R) ->
  nuclear_sum RKe thr ncoords ncharges p = 0%R.
Proof. exact all_masked_no_nuclear_term. Qed.
Print Assumptions C14_threshold_beyond_all_distances_drops_all.

(* the rule of the pinned tree (Z/d against 1/threshold) is a different function *)
Example C14_pinned_rule_differs :
  let p : Rpt := (1, 0, 0)%R in let n : Rpt := (0, 0, 0)%R in
  nuc_term_pinned RKe (1/2)%R p (n, 4%R) = 0%R /\ nuc_term RKe (1/2)%R p (n, 4%R) = 4%R /\
  nuc_term_pinned RKe 2%R p (n, (-1)%R) = (-1)%R /\ nuc_term RKe 2%R p (n, (-1)%R) = 0%R.
Proof. exact pinned_rule_differs. Qed.
Print Assumptions C14_pinned_rule_differs.

(* the executable instance: with an exact oracle root the mask is the squared-distance comparison *)
Theorem C14_mask_executable_instance :
  forall ex opi osqrt oexp oln oboys (thr : Qc) (p n : Qc * Qc * Qc),
  let K := QcK ex opi osqrt oexp oln oboys in
  (0 <= thr)%Qc -> (0 <= osqrt (Esp.dist2 K p n))%Qc ->
  (osqrt (Esp.dist2 K p n) * osqrt (Esp.dist2 K p n) = Esp.dist2 K p n)%Qc ->
  (masked K thr p n = true <-> (Esp.dist2 K p n < thr * thr)%Qc).
Proof. exact mask_iff_sqdistance_Qc. Qed.
Print Assumptions C14_mask_executable_instance.

Example C14_exact_root_satisfiable :
  let sq := fun x : Qc => if Qc_eq_dec x (Q2Qc 25) then Q2Qc 5 else Q2Qc 0 in
  let K := QcK true (Q2Qc 3) sq (fun x => x) (fun x => x) (fun _ x => x) in
  let p : Qc * Qc * Qc := (Q2Qc 3, Q2Qc 4, Q2Qc 0) in
  let n : Qc * Qc * Qc := (Q2Qc 0, Q2Qc 0, Q2Qc 0) in
  (0 <= sq (Esp.dist2 K p n))%Qc /\
  (sq (Esp.dist2 K p n) * sq (Esp.dist2 K p n) = Esp.dist2 K p n)%Qc /\
  masked K (Q2Qc 5) p n = false /\ masked K (Q2Qc (5 + (1 # 1024))) p n = true.
Proof. exact mask_Qc_example. Qed.
Print Assumptions C14_exact_root_satisfiable.

(* ---- (4) transforms ---- *)
(* array level: for ANY array V of vectors over the points (rows no longer than the first), any
   rectangular T with n columns and any P with as many rows as T,
     sum_ij P_ij (T V T^T)_ij(p) = sum_ab (T^T P T)_ab V_ab(p) *)
Theorem C14_transform_is_backtransformed_P :
  forall (F : Type) (K : Fops F), is_field K ->
  forall np V T P n p,
  arr_ok np V -> Forall (fun row => length row = n) T -> length T = length P ->
  electronic_sum K (transformed_ints K V (Some T)) P p
  = electronic_sum K V (backtransform K T P n) p.
Proof. exact (fun F K Kf => transform_is_backtransformed_P K Kf). Qed.
Print Assumptions C14_transform_is_backtransformed_P.

Theorem C14_backtransform_unfold :
  forall (F : Type) (K : Fops F) T P n a b, a < n -> b < n ->
  nth b (nth a (backtransform K T P n) []) (f0 K)
  = Tables.sumn (f0 K) (fadd K) (length P) (fun i => Tables.sumn (f0 K) (fadd K) (length P) (fun j =>
      fmul K (fmul K (nth a (nth i T []) (f0 K)) (nth j (nth i P []) (f0 K))) (nth b (nth j T []) (f0 K)))).
Proof. exact (fun F K => backtransform_entry K). Qed.
Print Assumptions C14_backtransform_unfold.

(* the transformed array is Assembly.lincomb2 (tensordot on index 0, then on index 1) *)
Theorem C14_transformed_ints_is_the_codes_call :
  forall (F : Type) (K : Fops F) basis points T,
  transformed_ints K (point_charge_integral K (unit_neg_points K points) basis None) T
  = point_charge_integral K (unit_neg_points K points) basis T.
Proof. exact (fun F K => hartree_ints_is_point_charge_integral K). Qed.
Print Assumptions C14_transformed_ints_is_the_codes_call.

(* model level: an accepted call with a transform (any number of rows) returns what the
   untransformed path returns for T^T P T; and that call is accepted too.
   PARTIAL here: the hypothesis [squareb ...] says that the model's integral array is K x K x N.
   It is PROVED for every basis of well-formed shells in Props/C14_full.v
   (C14_shape_bit_is_a_theorem; the statement without the hypothesis is
   C14_esp_transform_is_backtransformed there); this version is kept because it also covers
   shells with component lists of non-standard size, for which the bit is decided by computation
   (Example below; the runner evaluates it for the array of EVERY case of the correspondence run,
   the harness stops if it is ever false). *)
Theorem C14_esp_transform_is_backtransformed_partial :
  forall (F : Type) (K : Fops F), is_field K ->
  forall basis P points ncoords ncharges T thr v,
  squareb (nfun_basis basis) (length points)
          (point_charge_integral K (unit_neg_points K points) basis None) = true ->
  esp K basis P points ncoords ncharges (Some T) thr = Some v ->
  v = esp_values K (point_charge_integral K (unit_neg_points K points) basis None)
        (backtransform K T P (nfun_basis basis)) points (combine ncoords ncharges) thr
  /\ ((forall x y, feqb K x y = true <-> x = y) ->
      esp K basis (backtransform K T P (nfun_basis basis)) points ncoords ncharges None thr = Some v).
Proof. exact (fun F K Kf => esp_transform_is_backtransformed K Kf). Qed.
Print Assumptions C14_esp_transform_is_backtransformed_partial.

Example C14_shape_hypothesis_satisfiable :
  forall (F : Type) (K : Fops F) (x y : F),
  let basis := [mkShell F 0 x x x [y] [[y]] false [] [];
                mkShell F 1 y x y [x; y] [[x; y]; [y; x]] true [] []] in
  nfun_basis basis = 7 /\
  squareb 7 2 (point_charge_integral K (unit_neg_points K [(x, y, x); (y, y, x)]) basis None) = true.
Proof. exact (fun F K => squareb_example K). Qed.
Print Assumptions C14_shape_hypothesis_satisfiable.

Example C14_field_and_equality_hypotheses_satisfiable :
  is_field RKe /\ (forall x y : R, feqb RKe x y = true <-> x = y) /\
  (forall ex opi osqrt oexp oln oboys, is_field (QcK ex opi osqrt oexp oln oboys)).
Proof. exact (conj RKe_field (conj RKe_eqb QcK_field)). Qed.
Print Assumptions C14_field_and_equality_hypotheses_satisfiable.

Example C14_arr_ok_satisfiable :
  forall (F : Type) (K : Fops F) (x : F),
  arr_ok 1 [[[x]; [x]]; [[x]; []]] /\ Forall (fun row => length row = 2) [[x; x]; [x; x]; [x; x]].
Proof. exact (fun F K => arr_ok_example). Qed.
Print Assumptions C14_arr_ok_satisfiable.

(* T^T P T of a symmetric P is symmetric *)
Theorem C14_backtransform_symmetric :
  forall (F : Type) (K : Fops F), is_field K ->
  forall T P n a b,
  (forall i j, i < length P -> j < length P ->
     nth j (nth i P []) (f0 K) = nth i (nth j P []) (f0 K)) ->
  a < n -> b < n ->
  nth b (nth a (backtransform K T P n) []) (f0 K) = nth a (nth b (backtransform K T P n) []) (f0 K).
Proof. exact (fun F K Kf => backtransform_symmetric K Kf). Qed.
Print Assumptions C14_backtransform_symmetric.

(* ---- (5) linearity ---- *)
Theorem C14_linear_in_density_matrix_and_charges :
  forall (F : Type) (K : Fops F), is_field K ->
  forall H points ncoords thr c1 P1 Z1 c2 P2 Z2 p,
  length P1 = length P2 -> length Z1 = length Z2 -> p < length points ->
  nth p (esp_values K H (mcomb K (length P1) c1 P1 c2 P2) points
           (combine ncoords (zcomb K (length Z1) c1 Z1 c2 Z2)) thr) (f0 K)
  = fadd K (fmul K c1 (nth p (esp_values K H P1 points (combine ncoords Z1) thr) (f0 K)))
           (fmul K c2 (nth p (esp_values K H P2 points (combine ncoords Z2) thr) (f0 K))).
Proof. exact (fun F K Kf => esp_values_linear K Kf). Qed.
Print Assumptions C14_linear_in_density_matrix_and_charges.

Theorem C14_electronic_term_linear_in_P :
  forall (F : Type) (K : Fops F), is_field K ->
  forall H c1 P1 c2 P2 p, length P1 = length P2 ->
  electronic_sum K H (mcomb K (length P1) c1 P1 c2 P2) p
  = fadd K (fmul K c1 (electronic_sum K H P1 p)) (fmul K c2 (electronic_sum K H P2 p)).
Proof. exact (fun F K Kf => electronic_sum_linear K Kf). Qed.
Print Assumptions C14_electronic_term_linear_in_P.

Theorem C14_nuclear_term_linear_in_charges :
  forall (F : Type) (K : Fops F), is_field K ->
  forall thr ncoords c1 Z1 c2 Z2 R, length Z1 = length Z2 ->
  nuclear_sum K thr ncoords (zcomb K (length Z1) c1 Z1 c2 Z2) R
  = fadd K (fmul K c1 (nuclear_sum K thr ncoords Z1 R)) (fmul K c2 (nuclear_sum K thr ncoords Z2 R)).
Proof. exact (fun F K Kf => nuclear_sum_linear K Kf). Qed.
Print Assumptions C14_nuclear_term_linear_in_charges.

Example C14_linearity_hypotheses_satisfiable :
  forall (F : Type) (x : F), length [[x; x]; [x; x]] = length [[x; x]; [x; x]] /\ length [x] = length [x] /\ 0 < length [(x, x, x)].
Proof. exact (fun F x => conj eq_refl (conj eq_refl (le_n 1))). Qed.
Print Assumptions C14_linearity_hypotheses_satisfiable.
