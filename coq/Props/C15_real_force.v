(* Props/C15_real_force.v — continued from Props/C15_real.v (separate file so that the two are audited in parallel).
   Property C15 over the REAL numbers: stress tensor, Ehrenfest force and Ehrenfest Hessian as
   real functions of the point, the relations between them as statements about real (Coquelicot) derivatives.
   Only statements closed by [exact] of a lemma of Proofs/DensityRealP.v, each followed by Print Assumptions
   (the classical real numbers of the standard library).

   Reading guide (see also Props/C06_real.v).  [basis] any list of well-formed shells, P a symmetric matrix.
     Gb basis P o1 o2 x y z    = sum_ab P_ab pd3 o1 bfun_a  pd3 o2 bfun_b at (x,y,z)   (bfun: evaluation MODEL values,
                                 pd3 o bfun_a: what the derivative MODEL returns, C06_real_jet_instance)
     evR H alpha beta c x y z  the value at the point of the formal combination c of Gauss/Jets.v, the symbols
                               taking the values H o1 o2 x y z, the rationals embedded by injR = Q2R
     sigmaR / forceR / ehessR / ehess_symR  := evR of stress_doc / force_doc / hess_doc / hess_symm (Model/Stress.v:
                               the documented formulas, which the current stress_tensor.py is re-proved to compute
                               on every run, Props/C15.v C15_code_computes_spec)
     is_pderiv k F x y z d     F has partial derivative d along axis k at (x,y,z)   (is_derive)
     pdk 0/1/2 F x y z         Derive of F along x / y / z *)
From Coq Require Import Reals List Arith QArith Qcanon.
From Coquelicot Require Import Coquelicot.
From GB Require Import Base.Field Model.Shell Gauss.Bridge3D Gauss.Jets Model.Stress Proofs.ScreeningP
  Proofs.SameFunP Proofs.SameFunRealP Proofs.DensityRealP.
Import ListNotations.
Local Close Scope Qc_scope.
Local Close Scope Q_scope.
Local Open Scope R_scope.

(* F_j(r) = - (d/dx sigma_xj + d/dy sigma_yj + d/dz sigma_zj)(r): real derivatives of the real component
   functions of the stress tensor, all of which exist *)
Theorem C15_real_force_is_minus_div_stress :
  forall (basis : list (shell R)), List.Forall shell_wf basis ->
  forall (P : nat -> nat -> R), (forall a b, P a b = P b a) -> forall (alpha beta : R) j x y z,
  ex_derive (fun t => sigmaR (Gb basis P) alpha beta AX j t y z) x
  /\ ex_derive (fun t => sigmaR (Gb basis P) alpha beta AY j x t z) y
  /\ ex_derive (fun t => sigmaR (Gb basis P) alpha beta AZ j x y t) z
  /\ forceR (Gb basis P) alpha beta j x y z
     = - (Derive (fun t => sigmaR (Gb basis P) alpha beta AX j t y z) x
          + Derive (fun t => sigmaR (Gb basis P) alpha beta AY j x t z) y
          + Derive (fun t => sigmaR (Gb basis P) alpha beta AZ j x y t) z).
Proof.
  exact (fun basis W P Ps alpha beta =>
    force_is_minus_div_stress_real (Gb basis P) (Gb_closed basis W P) alpha beta
      (GR_sym (nfun basis) P (bfun basis) Ps)).
Qed.
Print Assumptions C15_real_force_is_minus_div_stress.

(* H_jk(r) = d/dr_k F_j(r): the Ehrenfest Hessian is the Jacobian of the real force field *)
Theorem C15_real_hessian_is_jacobian_of_force :
  forall (basis : list (shell R)), List.Forall shell_wf basis ->
  forall (P : nat -> nat -> R), (forall a b, P a b = P b a) -> forall (alpha beta : R) j k x y z,
  is_pderiv k (forceR (Gb basis P) alpha beta j) x y z (ehessR (Gb basis P) alpha beta j k x y z).
Proof.
  exact (fun basis W P Ps alpha beta =>
    hessian_is_jacobian_of_force_real (Gb basis P) (Gb_closed basis W P) alpha beta
      (GR_sym (nfun basis) P (bfun basis) Ps)).
Qed.
Print Assumptions C15_real_hessian_is_jacobian_of_force.

(* symmetric=True: 1/2 (d_k F_j + d_j F_k), symmetric *)
Theorem C15_real_hessian_symmetrised :
  forall (basis : list (shell R)), List.Forall shell_wf basis ->
  forall (P : nat -> nat -> R), (forall a b, P a b = P b a) -> forall (alpha beta : R) j k x y z,
  ehess_symR (Gb basis P) alpha beta j k x y z
  = / 2 * (pdk (axn k) (forceR (Gb basis P) alpha beta j) x y z
           + pdk (axn j) (forceR (Gb basis P) alpha beta k) x y z)
  /\ ehess_symR (Gb basis P) alpha beta j k x y z = ehess_symR (Gb basis P) alpha beta k j x y z.
Proof.
  exact (fun basis W P Ps alpha beta =>
    hessian_symmetrised_real (Gb basis P) (Gb_closed basis W P) alpha beta
      (GR_sym (nfun basis) P (bfun basis) Ps)).
Qed.
Print Assumptions C15_real_hessian_symmetrised.

