(* Props/C18_merge.v — property C18, the Gaussian94 MERGE RULE of parse_gbs (parsers.py:150-164) as a
   theorem: the round trip for files in which the rule fires.  Only statements closed by [exact] of a lemma
   proved in Proofs/ParsersMergeP.v, each followed by Print Assumptions.  Model: Model/Parsers.v.

   Specification ([fuse], ParsersMergeP.v, independent of the parser's loop): the expected shells of one
   element are read left to right with one open shell; a shell with the same angular momentum and the same
   exponent list as the open shell adds its coefficient columns to it, any other shell becomes the open
   shell.  [fuse_lit] is the same with Leibniz equality of (l, exponent literals). *)
From Coq Require Import List String.
From GB Require Import Model.Parsers Proofs.ParsersP Proofs.ParsersMergeP.
Import ListNotations.
Open Scope string_scope.
Open Scope list_scope.

(* (2) full generality: EVERY well-formed AST (no [no_fuse]: combined blocks, repeated exponent lists,
   anything), every admissible layout, any reflexive comparison of exponent literals: the parser returns the
   elements in file order and per element the fused expected shells *)
Theorem parse_gbs_print_roundtrip_fused :
  forall (close : string -> string -> bool), (forall s, close s s = true) ->
  forall (L : layout), layout_ok_gbs L ->
  forall (a : ast), wf_ast a = true ->
  parse_gbs_model close (print_gbs a L) = Some (expected_fused close a).
Proof. exact roundtrip_gbs_fused. Qed.
Print Assumptions parse_gbs_print_roundtrip_fused.

(* the instance the model is run with (literal equality of exponent literals), against the literal spec *)
Theorem parse_gbs_print_roundtrip_fused_lit :
  forall (L : layout), layout_ok_gbs L ->
  forall (a : ast), wf_ast a = true ->
  parse_gbs_model close_lit (print_gbs a L) = Some (expected_fused_lit a).
Proof. exact roundtrip_gbs_fused_lit. Qed.
Print Assumptions parse_gbs_print_roundtrip_fused_lit.
Theorem fuse_lit_is_fuse : forall S, fuse close_lit S = fuse_lit S.
Proof. exact fuse_lit_spec. Qed.
Print Assumptions fuse_lit_is_fuse.

(* the theorem of Props/C18.v is the corollary  fuse = id  under no_fuse *)
Theorem fuse_is_id_without_fusing :
  forall (close : string -> string -> bool) (S : list shell), no_fuse close S = true -> fuse close S = S.
Proof. exact fuse_id. Qed.
Print Assumptions fuse_is_id_without_fusing.
Theorem parse_print_roundtrip_gbs_from_fused :
  forall (close : string -> string -> bool), (forall s, close s s = true) ->
  forall (L : layout), layout_ok_gbs L ->
  forall (a : ast), wf_ast_gbs close a = true ->
  parse_gbs_model close (print_gbs a L) = Some (expected a).
Proof. exact roundtrip_gbs_nofuse. Qed.
Print Assumptions parse_print_roundtrip_gbs_from_fused.

(* the specification is the parser's loop, whatever the input (pure list statement): the left fold of [push]
   (looks at the LAST element of the list built so far) = [fuse] *)
Theorem fuse_is_the_loop :
  forall (close : string -> string -> bool) (S : list shell), fold_left (push close) S [] = fuse close S.
Proof. exact push_fold_fuse. Qed.
Print Assumptions fuse_is_the_loop.

(* what the literal specification keeps: every written (l, exponents, column) triple in file order, nothing
   lost, nothing duplicated; and it fuses as far as possible *)
Theorem fuse_keeps_every_column : forall S, flat (fuse_lit S) = flat S.
Proof. exact fuse_lit_flat. Qed.
Print Assumptions fuse_keeps_every_column.
Theorem fuse_is_maximal : forall S, keys_differ (fuse_lit S).
Proof. exact fuse_lit_maximal. Qed.
Print Assumptions fuse_is_maximal.
Theorem parse_gbs_keeps_every_column :
  forall (L : layout), layout_ok_gbs L ->
  forall (a : ast), wf_ast a = true ->
  exists d, parse_gbs_model close_lit (print_gbs a L) = Some d /\
            keys d = map fst a /\
            map (fun kv => flat (snd kv)) d = map (fun e => flat (expected_shells (snd e))) a /\
            Forall (fun kv => keys_differ (snd kv)) d.
Proof. exact roundtrip_gbs_flat. Qed.
Print Assumptions parse_gbs_keeps_every_column.

(* (3) combined blocks.  The comparison partner of every shell — of every letter of a combined block too —
   is the last shell of the result for everything BEFORE it: "the last appended shell" is updated between
   the letters of one block *)
Theorem last_shell_is_updated :
  forall (close : string -> string -> bool) (S : list shell) (u : shell),
  fuse close (S ++ [u])
  = match rev (fuse close S) with
    | last :: init =>
        if same_key close last u
        then rev init ++ [(sh_l u, sh_exps u, sh_cols last ++ sh_cols u)]
        else fuse close S ++ [u]
    | [] => [u]
    end.
Proof. exact fuse_snoc. Qed.
Print Assumptions last_shell_is_updated.
(* hence in a combined block whose adjacent letters differ only the FIRST letter can continue the shell in
   front of the block; the later letters are always appended (loop and specification) *)
Theorem only_first_letter_fuses :
  forall (close : string -> string -> bool) (acc : list shell) (u : shell) (rest : list shell),
  chain_distinct (sh_l u) rest = true ->
  fold_left (push close) (u :: rest) acc = push close acc u ++ rest.
Proof. exact only_first_fuses. Qed.
Print Assumptions only_first_letter_fuses.
Theorem only_first_letter_fuses_spec :
  forall (close : string -> string -> bool) (S : list shell) (u : shell) (rest : list shell),
  chain_distinct (sh_l u) rest = true ->
  fuse close (S ++ u :: rest) = fuse close (S ++ [u]) ++ rest.
Proof. exact fuse_only_first. Qed.
Print Assumptions only_first_letter_fuses_spec.

(* two consecutive blocks at file level, any literals / primitives / layout: "P then SP" with the same
   exponents is P, S, P (three shells); "S then SP" is S with one more column, P *)
Theorem gbs_P_then_SP_is_P_S_P :
  forall (close : string -> string -> bool), (forall s, close s s = true) ->
  forall (L : layout), layout_ok_gbs L ->
  forall sym l0 l e cs c0 c1,
  let a := [(sym, [ {| b_ls := [l]; b_exps := e; b_cols := cs |};
                    {| b_ls := [l0; l]; b_exps := e; b_cols := [c0; c1] |} ])] in
  wf_ast a = true -> l0 <> l ->
  parse_gbs_model close (print_gbs a L) = Some [(sym, [(l, e, cs); (l0, e, [c0]); (l, e, [c1])])].
Proof. exact gbs_P_then_SP. Qed.
Print Assumptions gbs_P_then_SP_is_P_S_P.
Theorem gbs_S_then_SP_is_S2_P :
  forall (close : string -> string -> bool), (forall s, close s s = true) ->
  forall (L : layout), layout_ok_gbs L ->
  forall sym l l1 e cs c0 c1,
  let a := [(sym, [ {| b_ls := [l]; b_exps := e; b_cols := cs |};
                    {| b_ls := [l; l1]; b_exps := e; b_cols := [c0; c1] |} ])] in
  wf_ast a = true -> l <> l1 ->
  parse_gbs_model close (print_gbs a L) = Some [(sym, [(l, e, cs ++ [c0]); (l1, e, [c1])])].
Proof. exact gbs_S_then_SP. Qed.
Print Assumptions gbs_S_then_SP_is_S2_P.

(* the stale-[prev] rule of seeded/C18-muta agrees with the loop on one-letter blocks ... *)
Theorem stale_rule_same_on_single_letter :
  forall (close : string -> string -> bool) (acc : list shell) (u : shell),
  push_block_stale close acc [u] = push close acc u.
Proof. exact stale_single. Qed.
Print Assumptions stale_rule_same_on_single_letter.
(* ... and violates [only_first_letter_fuses] and the specification on "P then SP" *)
Example stale_rule_violates :
  let acc := [(1, e3, [cP])] in
  let us := [(0, e3, [sp1]); (1, e3, [sp2])] in
  chain_distinct 0 [(1, e3, [sp2])] = true /\
  push_block_stale close_lit acc us = [(1, e3, [cP]); (1, e3, [cP; sp2])] /\
  fold_left (push close_lit) us acc = [(1, e3, [cP]); (0, e3, [sp1]); (1, e3, [sp2])] /\
  push_block_stale close_lit acc us <> push close_lit acc (0, e3, [sp1]) ++ [(1, e3, [sp2])] /\
  push_block_stale close_lit acc us <> fuse close_lit (acc ++ us).
Proof. exact stale_rule_differs. Qed.
Print Assumptions stale_rule_violates.

(* concrete files, evaluated: the hypotheses are satisfiable by ASTs that the no_fuse theorem excludes *)
Example merge_hypotheses_satisfiable :
  wf_ast ast_P_SP = true /\ wf_ast ast_SP_SP = true /\ wf_ast ast_S_SP_P = true /\ wf_ast ast_mixed = true /\
  wf_ast_gbs close_lit ast_S_SP_P = false /\ wf_ast_gbs close_lit ast_mixed = false.
Proof. exact ex_merge_wf. Qed.
Print Assumptions merge_hypotheses_satisfiable.
Example P_then_SP :
  parse_gbs_model close_lit (print_gbs ast_P_SP ex_layout_gbs)
  = Some [("Na", [(1, e3, [cP]); (0, e3, [sp1]); (1, e3, [sp2])])].
Proof. exact ex_P_SP. Qed.
Print Assumptions P_then_SP.
Example SP_then_SP :
  parse_gbs_model close_lit (print_gbs ast_SP_SP ex_layout_bare)
  = Some [("Na", [(0, e3, [sp1]); (1, e3, [sp2]); (0, e3, [sp3]); (1, e3, [sp4])])].
Proof. exact ex_SP_SP. Qed.
Print Assumptions SP_then_SP.
Example S_then_SP_then_P :
  parse_gbs_model close_lit (print_gbs ast_S_SP_P ex_layout_gbs)
  = Some [("Na", [(0, e3, [cS; sp1]); (1, e3, [sp2; cP])])].
Proof. exact ex_S_SP_P. Qed.
Print Assumptions S_then_SP_then_P.
Example mixed_file :
  parse_gbs_model close_lit (print_gbs ast_mixed ex_layout_gbs)
  = Some [("Na", [(0, e3, [cS; cS'; sp3; sp1]); (1, e3, [sp2; cP; cP'])]);
          ("H", [(2, e3, [cP]); (2, ["1.5"; "2.5"; "0.3"], [cP']); (2, e3, [cS])])]
  /\ expected_fused_lit ast_mixed
     = [("Na", [(0, e3, [cS; cS'; sp3; sp1]); (1, e3, [sp2; cP; cP'])]);
        ("H", [(2, e3, [cP]); (2, ["1.5"; "2.5"; "0.3"], [cP']); (2, e3, [cS])])].
Proof. exact ex_mixed. Qed.
Print Assumptions mixed_file.
