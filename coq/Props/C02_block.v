(* Props/C02_block.v — block-level theorems backing property C02 (kinetic-energy integrals exact).
   Spec per axis of a primitive pair (Proofs/DiffOpP.v, CoreDiffP.v):
     S1 A B alpha beta i j   = Sfun = sqrt(pi/p) exp(-mu (A-B)^2) x T3(1/(2p); P-A, P-B; 0, i, j)   1-D overlap
     D1 A B alpha beta k i j = (Bop beta)^k S1 i j,  (Bop beta T) i j = j T i (j-1) - 2 beta T i (j+1)
                             = 1-D integral of phi_a d^k/dx^k phi_b
     kin_prim = -1/2 (D1_x(2) S1_y S1_z + S1_x D1_y(2) S1_z + S1_x S1_y D1_z(2))
   contracted over the primitives with coefficients and primitive norms as in Props/C01_block.v.
   Hypotheses as there. *)
From Coq Require Import List Arith.
From GB Require Import Base.Field Base.FNum Base.Tables Gauss.Moment1D Model.Shell Model.MomentInt Model.Overlap
  Model.DiffOp Proofs.DiffOpP Proofs.CoreSumP Proofs.CoreBlockP Proofs.CoreDiffP Proofs.CoreExamplesP.
Import ListNotations.

Theorem C02_spec_unfold :
  forall (F : Type) (K : Fops F) (sa sb : shell F) (ca cb : comp) (alpha beta : F),
  let S A B i j := Sfun K A B alpha beta i j in
  let D2 A B i j := Bop K beta (Bop K beta (Sfun K A B alpha beta)) i j in
  kin_prim K sa sb ca cb alpha beta
  = fmul K (fopp K (fdiv K (f1 K) (fadd K (f1 K) (f1 K))))
      (fadd K (fadd K
         (fmul K (fmul K (D2 (s_x sa) (s_x sb) (cx ca) (cx cb)) (S (s_y sa) (s_y sb) (cy ca) (cy cb)))
                 (S (s_z sa) (s_z sb) (cz ca) (cz cb)))
         (fmul K (fmul K (S (s_x sa) (s_x sb) (cx ca) (cx cb)) (D2 (s_y sa) (s_y sb) (cy ca) (cy cb)))
                 (S (s_z sa) (s_z sb) (cz ca) (cz cb))))
         (fmul K (fmul K (S (s_x sa) (s_x sb) (cx ca) (cx cb)) (S (s_y sa) (s_y sb) (cy ca) (cy cb)))
                 (D2 (s_z sa) (s_z sb) (cz ca) (cz cb)))).
Proof. exact (fun F K sa sb ca cb alpha beta => eq_refl). Qed.
Print Assumptions C02_spec_unfold.

(* kinetic_block_correct: every entry of the kinetic block is -1/2 sum_axis [second derivative of phi_b on
   that axis x overlaps on the other two], contracted — all l_a, l_b, K, M, centres, exponents, coefficients
   (includes the padding argument of the derivative recursion and integration by parts) *)
Theorem C02_kinetic_block_correct :
  forall (F : Type) (K : Fops F), is_field K ->
  (forall x : F, fapx K x = x) -> fadd K (f1 K) (f1 K) <> f0 K ->
  forall (sa sb : shell F) (ma ia mb ib : nat),
  wf_shell sa -> wf_shell sb -> exps_ok K sa sb ->
  ma < nseg sa -> ia < length (comps_of sa) -> mb < nseg sb -> ib < length (comps_of sb) ->
  nth4 K ma ia mb ib (kinetic_block K sa sb)
  = contracted K sa sb (nth ia (comps_of sa) (0,0,0)) (nth ib (comps_of sb) (0,0,0)) ma mb
      (kin_prim K sa sb (nth ia (comps_of sa) (0,0,0)) (nth ib (comps_of sb) (0,0,0))).
Proof. exact (fun F K Kf Hapx H2 => kinetic_block_correct K Kf Hapx H2). Qed.
Print Assumptions C02_kinetic_block_correct.

(* the general routine _compute_differential_operator_integrals: any list of derivative orders,
   slice d <-> d-th requested triple, entry = contracted product of the three 1-D derivative integrals *)
Theorem C02_diffop_block_correct :
  forall (F : Type) (K : Fops F), is_field K ->
  (forall x : F, fapx K x = x) -> fadd K (f1 K) (f1 K) <> f0 K ->
  forall (orders : list comp) (sa sb : shell F),
  wf_shell sa -> wf_shell sb -> exps_ok K sa sb ->
  forall d ma ia mb ib, d < length orders ->
  ma < nseg sa -> ia < length (comps_of sa) -> mb < nseg sb -> ib < length (comps_of sb) ->
  nth4 K ma ia mb ib (nth d (diffop_block K orders sa sb) [])
  = contracted K sa sb (nth ia (comps_of sa) (0,0,0)) (nth ib (comps_of sb) (0,0,0)) ma mb
      (dprim K (nth d orders (0,0,0)) sa sb (nth ia (comps_of sa) (0,0,0)) (nth ib (comps_of sb) (0,0,0))).
Proof. exact (fun F K Kf Hapx H2 => diffop_block_correct K Kf Hapx H2). Qed.
Print Assumptions C02_diffop_block_correct.

(* kinetic_sym: T_ba = T_ab — the block of the exchanged pair is the transpose (A^2 S = B^2 S) *)
Theorem C02_kinetic_block_sym :
  forall (F : Type) (K : Fops F), is_field K ->
  (forall x : F, fapx K x = x) -> fadd K (f1 K) (f1 K) <> f0 K ->
  forall (sa sb : shell F) (ma ia mb ib : nat),
  wf_shell sa -> wf_shell sb -> exps_ok K sa sb ->
  ma < nseg sa -> ia < length (comps_of sa) -> mb < nseg sb -> ib < length (comps_of sb) ->
  nth4 K mb ib ma ia (kinetic_block K sb sa) = nth4 K ma ia mb ib (kinetic_block K sa sb).
Proof. exact (fun F K Kf Hapx H2 => kinetic_block_sym K Kf Hapx H2). Qed.
Print Assumptions C02_kinetic_block_sym.

(* exchanging the shells transposes any derivative block up to the sign (-1)^(o_x+o_y+o_z) *)
Theorem C02_diffop_block_swap :
  forall (F : Type) (K : Fops F), is_field K ->
  (forall x : F, fapx K x = x) -> fadd K (f1 K) (f1 K) <> f0 K ->
  forall (orders : list comp) (sa sb : shell F) (d ma ia mb ib : nat),
  wf_shell sa -> wf_shell sb -> exps_ok K sa sb -> d < length orders ->
  ma < nseg sa -> ia < length (comps_of sa) -> mb < nseg sb -> ib < length (comps_of sb) ->
  let o := nth d orders (0,0,0) in
  nth4 K mb ib ma ia (nth d (diffop_block K orders sb sa) [])
  = fmul K (fmul K (fmul K (fneg1pow K (cx o)) (fneg1pow K (cy o))) (fneg1pow K (cz o)))
           (nth4 K ma ia mb ib (nth d (diffop_block K orders sa sb) [])).
Proof. exact (fun F K Kf Hapx H2 => diffop_block_swap K Kf Hapx H2). Qed.
Print Assumptions C02_diffop_block_swap.

Example C02_block_hypotheses_Qc :
  forall opi osqrt oexp oln oboys,
  let K := KQ opi osqrt oexp oln oboys in
  is_field K /\ (forall x, fapx K x = x) /\ fadd K (f1 K) (f1 K) <> f0 K
  /\ wf_shell ex_sa /\ wf_shell ex_sb /\ exps_ok K ex_sa ex_sb /\ exps_ok K ex_sa ex_sa
  /\ 1 < nseg ex_sa /\ 5 < length (comps_of ex_sa) /\ 0 < nseg ex_sb /\ 2 < length (comps_of ex_sb).
Proof. exact block_hypotheses_satisfiable. Qed.
Print Assumptions C02_block_hypotheses_Qc.
