(* Props/C05.v — theorems backing property C05 (basis-function values and arbitrary-order
   derivatives are exact).  Only statements closed by [exact] of a lemma proved in
   Proofs/EvalP.v or Gauss/DerivBridge.v, each followed by Print Assumptions.

   u K alpha l n x is the polynomial P with d^n/dx^n [x^l e^{-alpha x^2}] = P(x) e^{-alpha x^2}
   (C05_nth_derivative, over the reals); the generic-field theorems say that both back-ends of
   the code compute P, for all n, l, alpha, x (x = 0 included: 0^0 = 1 is fpow x 0 = 1). *)
From Coq Require Import List Arith Reals.
From Coquelicot Require Import Coquelicot.
From GB Require Import Base.Field Base.FNum Model.Shell Model.Overlap Model.Eval Proofs.EvalP
  Gauss.DerivBridge.
Local Open Scope nat_scope.

(* general back-end: the Leibniz sum over Hermite polynomials with the code's zeroing rules,
   summed up to any nmax >= n (the code sums up to the largest order of the request) *)
Theorem C05_general_correct :
  forall (F : Type) (K : Fops F), is_field K ->
  forall (alpha x : F) (nmax n l : nat), n <= nmax ->
  deriv_general_upto K nmax n l alpha x = u K alpha l n x.
Proof. exact @general_correct_upto. Qed.
Print Assumptions C05_general_correct.

Theorem C05_general_correct_exact :
  forall (F : Type) (K : Fops F), is_field K ->
  forall (alpha x : F) (n l : nat), deriv_general K n l alpha x = u K alpha l n x.
Proof. exact @general_correct. Qed.
Print Assumptions C05_general_correct_exact.

(* direct back-end: each of the branches (l = 0, l = 1, l >= 2; first and second derivative),
   provided the two `any` tests of the code (has1, has2) hold whenever the branch needs them *)
Theorem C05_direct_correct :
  forall (F : Type) (K : Fops F), is_field K ->
  forall (alpha x : F) (h1 h2 : bool) (n l : nat), n <= 2 -> flags_ok h1 h2 l ->
  deriv_direct K h1 h2 n l alpha x = u K alpha l n x.
Proof. exact @direct_correct. Qed.
Print Assumptions C05_direct_correct.

Theorem C05_backends_agree :
  forall (F : Type) (K : Fops F), is_field K ->
  forall (alpha x : F) (h1 h2 : bool) (nmax n l : nat), n <= 2 -> n <= nmax -> flags_ok h1 h2 l ->
  deriv_direct K h1 h2 n l alpha x = deriv_general_upto K nmax n l alpha x.
Proof. exact @backends_agree. Qed.
Print Assumptions C05_backends_agree.

(* the tests hold for the complete component list of any angular momentum L, whichever axis is
   the first one differentiated twice and whichever axis / component is evaluated *)
Theorem C05_default_flags_ok :
  forall (L : nat) (o c : comp) (ax : nat),
  first2 o <> None -> In c (default_comps L) ->
  let '(h1, h2) := flags (default_comps L) o in flags_ok h1 h2 (comp_ax ax c).
Proof. exact default_flags_ok. Qed.
Print Assumptions C05_default_flags_ok.

(* what the block actually reads: rows of axis values.  General back-end, any orders *)
Theorem C05_rows_general :
  forall (F : Type) (K : Fops F), is_field K ->
  forall (L : nat) (o : comp) (ax : nat) (alpha x : F) (l : nat), ax < 3 -> l <= L ->
  nth l (axis_row K (gen_mode K false L o) ax (comp_ax ax o) L alpha x) (f0 K)
  = u K alpha l (comp_ax ax o) x.
Proof. exact @axis_row_general. Qed.
Print Assumptions C05_rows_general.

(* direct back-end on a complete Cartesian shell, every accepted request (all orders <= 2,
   including several axes differentiated twice) *)
Theorem C05_rows_direct_complete_shell :
  forall (F : Type) (K : Fops F), is_field K ->
  forall (L : nat) (o c : comp) (ax : nat) (alpha x : F),
  order_max o <= 2 -> In c (default_comps L) -> ax < 3 ->
  nth (comp_ax ax c)
      (axis_row K (mode_of K Direct L (default_comps L) o) ax (comp_ax ax o) L alpha x) (f0 K)
  = u K alpha (comp_ax ax c) (comp_ax ax o) x.
Proof. exact @axis_row_direct_complete. Qed.
Print Assumptions C05_rows_direct_complete_shell.

(* the error-scale rows are the specification at (-|alpha|, |x|): the sum of |monomials| *)
Theorem C05_rows_scale :
  forall (F : Type) (K : Fops F), is_field K ->
  forall (L : nat) (o : comp) (ax : nat) (alpha x : F) (l : nat), ax < 3 -> l <= L ->
  nth l (axis_row K (gen_mode K true L o) ax (comp_ax ax o) L alpha x) (f0 K)
  = u K (fopp K (fabs K alpha)) l (comp_ax ax o) (fabs K x).
Proof. exact @axis_row_scale. Qed.
Print Assumptions C05_rows_scale.

(* refusals: the model answers `rejected` for the direct back-end exactly when some order
   exceeds two, and for a back-end name the code does not know *)
Theorem C05_direct_rejects_gt2 :
  forall (F : Type) (K : Fops F) (s : shell F) (basis : list (shell F)) (pts : list point)
         (o : comp) (T : option (list (list F))),
  2 < order_max o ->
  eval_block K s pts o Direct = None /\ evaluate_deriv_basis_model K basis pts o T Direct = None.
Proof. exact @direct_rejects_gt2. Qed.
Print Assumptions C05_direct_rejects_gt2.

Theorem C05_direct_accepts_le2 :
  forall (F : Type) (K : Fops F) (basis : list (shell F)) (pts : list point)
         (o : comp) (T : option (list (list F))),
  order_max o <= 2 -> evaluate_deriv_basis_model K basis pts o T Direct <> None.
Proof. exact @direct_accepts_le2. Qed.
Print Assumptions C05_direct_accepts_le2.

Theorem C05_unknown_backend_rejected :
  forall (F : Type) (K : Fops F) (basis : list (shell F)) (pts : list point)
         (o : comp) (T : option (list (list F))),
  evaluate_deriv_basis_model K basis pts o T OtherBackend = None.
Proof. exact @unknown_backend_rejected. Qed.
Print Assumptions C05_unknown_backend_rejected.

(* the diagonal-only contraction normalisation used by the model is Overlap.norm_cont *)
Theorem C05_norm_shortcut :
  forall (F : Type) (K : Fops F) (s : shell F), norm_cont_diag K s = norm_cont K s.
Proof. exact @norm_cont_diag_eq. Qed.
Print Assumptions C05_norm_shortcut.

(* analytic bridge over the reals (classical-reals axioms of the standard library) *)
Theorem C05_first_rule :
  forall (a : R) (l : nat) (x : R),
  is_derive (fun t => t ^ l * exp (- a * t ^ 2))%R x
    ((match l with O => 0 | S l' => INR l * x ^ l' end - 2 * a * x ^ (S l)) * exp (- a * x ^ 2))%R.
Proof. exact first_rule. Qed.
Print Assumptions C05_first_rule.

Theorem C05_nth_derivative :
  forall (a : R) (l n : nat) (x : R),
  is_derive_n (fun t => t ^ l * exp (- a * t ^ 2))%R n x (u RKd a l n x * exp (- a * x ^ 2))%R.
Proof. exact nth_derivative. Qed.
Print Assumptions C05_nth_derivative.

Theorem C05_Derive_n :
  forall (a : R) (l n : nat) (x : R),
  Derive_n (fun t => t ^ l * exp (- a * t ^ 2))%R n x = (u RKd a l n x * exp (- a * x ^ 2))%R.
Proof. exact (fun a l n x => Derive_n_gauss a l n x). Qed.
Print Assumptions C05_Derive_n.

(* the hypotheses are satisfiable *)
Example C05_field_hypothesis_R : is_field RKd.
Proof. exact RKd_field. Qed.
Print Assumptions C05_field_hypothesis_R.

Example C05_field_hypothesis_Qc :
  forall ex opi osqrt oexp oln oboys, is_field (QcK ex opi osqrt oexp oln oboys).
Proof. exact QcK_field. Qed.
Print Assumptions C05_field_hypothesis_Qc.

Example C05_flags_hypothesis : forall l, flags_ok true true l.
Proof. exact (fun l => conj (fun _ => eq_refl) (fun _ => eq_refl)). Qed.
Print Assumptions C05_flags_hypothesis.

Example C05_flags_hypothesis_shell :
  first2 (0, 2, 0) <> None /\ In (1, 1, 1) (default_comps 3) /\ order_max (2, 2, 1) <= 2
  /\ 2 < order_max (0, 3, 0).
Proof. exact flags_hyp_example. Qed.
Print Assumptions C05_flags_hypothesis_shell.
