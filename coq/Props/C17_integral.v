(* Props/C17_integral.v — property C17, the part of bridge B3 that is now PROVED: the overlap and the
   kinetic-energy matrices of the executable model over the reals ARE Gram matrices.
   Only statements closed by [exact] of a lemma proved in Proofs/GramIntP.v, each followed by Print Assumptions.

   Notation (Gauss/Bridge3D.v, Props/BRIDGE_3d.v, Proofs/GramIntP.v):
   RK          the number interface at the real numbers (real sqrt, exp, PI), Proofs/ScreeningP.v
   gint3 F l   the ITERATED improper Riemann integral of F : R -> R -> R -> R over R^3 exists and equals l
   cfun s m c  the contracted, primitive-normalised Cartesian function of segment m, component c of shell s
   bidx        a basis function named by (shell, segment, index of the component in comps_of);  chi a the function
   bvalid a    the shell is well formed, its exponents are positive, both indices are in range
               (ANY centre, angular momentum, number of primitives and segments)
   Sov a b     entry [seg a][comp a][seg b][comp b] of  overlap_block RK (shell a) (shell b)   -- the model's numbers
   Tkin a b    the same entry of                        kinetic_block RK (shell a) (shell b)
               (before the constant contraction norms n_a n_b; C17I_scaled_psd covers any such factors)
   qf G l      sum_{(c,a) in l} sum_{(d,b) in l} c d G a b   (Proofs/GramP.v);  lcf l = sum_{(c,a) in l} c chi a
   gdot F G    grad F . grad G (three products of first partial derivatives, Coquelicot's Derive)

   WHAT IS PROVED: for every finite coefficient list over valid functions the quadratic form of Sov is the
   iterated integral of (sum c_a chi_a)^2 and that of Tkin is the iterated integral of 1/2 |grad sum c_a chi_a|^2
   (integration by parts proved, not assumed); both are >= 0; symmetry; Schwarz; |S_ab| <= 1 for unit diagonal;
   both matrices are Gram matrices of an [ipspace]; GramP.all_bounds_from_B3 with these two hypotheses discharged.
   WHAT REMAINS TRUSTED for S and T: only that the iterated improper Riemann integral is THE integral over R^3
   (Fubini-Tonelli for these continuous absolutely integrable functions) — no positivity statement.
   STILL RESTING ON B3 (with B2): point-charge matrix NSD and repulsion array PSD over pairs (the [exists]
   hypotheses left in C17I_all_bounds_S_T_proved_partial).
   The theorems use the classical-real axioms of the standard library (printed). *)
From Coq Require Import List Reals.
From Coquelicot Require Import Coquelicot.
From GB Require Import Base.Field Base.FNum Gauss.Moment1D Gauss.DerivBridge Gauss.BridgeR
  Model.Shell Model.MomentInt Model.Overlap Model.DiffOp Proofs.DiffOpP
  Proofs.CoreSumP Proofs.CoreBlockP Proofs.CoreDiffP Proofs.ScreeningP Proofs.CoreNormP
  Gauss.Bridge3D Proofs.GramP Proofs.GramIntP.
Import ListNotations.
Open Scope R_scope.

(* 0. the definitions, spelled out *)
Theorem C17I_definitions :
  forall (s t : shell R) (m i n j : nat),
  Sov (s, m, i) (t, n, j) = Overlap.nth4 RK m i n j (overlap_block RK s t) /\
  Tkin (s, m, i) (t, n, j) = Overlap.nth4 RK m i n j (kinetic_block RK s t) /\
  chi (s, m, i) = cfun s m (nth i (comps_of s) (0, 0, 0)%nat) /\
  (bvalid (s, m, i) <-> wf_shell s /\ (forall a, In a (s_exps s) -> 0 < a) /\ (m < nseg s)%nat /\ (i < length (comps_of s))%nat) /\
  (forall (F G : R -> R -> R -> R) (x y z : R),
     gdot F G x y z = Derive (fun t => F t y z) x * Derive (fun t => G t y z) x
                      + Derive (fun t => F x t z) y * Derive (fun t => G x t z) y
                      + Derive (fun t => F x y t) z * Derive (fun t => G x y t) z).
Proof.
  exact (fun s t m i n j =>
    match model_matrices_def s t m i n j with
    | conj A (conj B (conj C D)) => conj A (conj B (conj C (conj D gdot_def)))
    end).
Qed.
Print Assumptions C17I_definitions.

(* 1. the iterated improper integral of a pointwise non-negative function is non-negative *)
Theorem C17I_gint3_nonneg :
  forall (F : R -> R -> R -> R) (l : R), (forall x y z, 0 <= F x y z) -> gint3 F l -> 0 <= l.
Proof. exact gint3_nonneg. Qed.
Print Assumptions C17I_gint3_nonneg.

(* 2. OVERLAP: sum_a sum_b c_a c_b S_ab is the iterated integral of (sum_a c_a chi_a)^2 ... *)
Theorem C17I_overlap_quadratic_form_is_integral :
  forall l : list (R * bidx), (forall p, In p l -> bvalid (snd p)) ->
  gint3 (fun x y z => rsum (map (fun p => fst p * chi (snd p) x y z) l)
                      * rsum (map (fun p => fst p * chi (snd p) x y z) l))
        (qf Sov l).
Proof. exact overlap_quadratic_form_is_integral. Qed.
Print Assumptions C17I_overlap_quadratic_form_is_integral.

(* ... hence >= 0 for ALL coefficient lists: the overlap matrix of the model is positive semi-definite;
   it is symmetric, satisfies Schwarz, and |S_ab| <= 1 when the two diagonal entries are 1 *)
Theorem C17I_overlap_model_psd :
  (forall l : list (R * bidx), (forall p, In p l -> bvalid (snd p)) -> 0 <= qf Sov l) /\
  (forall a b : bidx, bvalid a -> bvalid b ->
     Sov a b = Sov b a /\ Sov a b * Sov a b <= Sov a a * Sov b b /\
     (Sov a a = 1 -> Sov b b = 1 -> Rabs (Sov a b) <= 1)).
Proof.
  exact (conj overlap_model_psd
           (fun a b Ha Hb => conj (overlap_model_symm a b Ha Hb)
              (conj (overlap_model_schwarz a b Ha Hb) (overlap_model_unit_bound a b Ha Hb)))).
Qed.
Print Assumptions C17I_overlap_model_psd.

(* constant factors n_a n_b (the contraction norms applied at the assembled level) keep positivity *)
Theorem C17I_scaled_psd :
  forall (n : bidx -> R) (l : list (R * bidx)), (forall p, In p l -> bvalid (snd p)) ->
  0 <= qf (fun a b => n a * n b * Sov a b) l /\ 0 <= qf (fun a b => n a * n b * Tkin a b) l.
Proof.
  exact (fun n l Hl => conj (overlap_model_scaled_psd n l Hl) (psd_on_scale bvalid n Tkin kinetic_model_psd l Hl)).
Qed.
Print Assumptions C17I_scaled_psd.

(* 3. KINETIC ENERGY.  One axis: int f' g' dx = - int f g'' dx for two Gaussian primitives
      (the right-hand side is minus the spec D1 .. 2 of the second-derivative table, Bridge3D.deriv_1d_integral) *)
Theorem C17I_kinetic_1d_integration_by_parts :
  forall (al be A B : R) (i j : nat), 0 < al -> 0 < be ->
  gint (fun x => Derive (cg1 al A i) x * Derive (cg1 be B j) x) (- D1 RK A B al be 2 i j) /\
  gint (fun x => cg1 al A i x * Derive_n (cg1 be B j) 2 x) (D1 RK A B al be 2 i j).
Proof.
  exact (fun al be A B i j Ha Hb => conj (grad_1d_integral al be A B i j Ha Hb)
                                         (deriv_1d_integral al be A B 2 i j Ha Hb)).
Qed.
Print Assumptions C17I_kinetic_1d_integration_by_parts.

(* the entry of the model's kinetic block is BOTH the integral of chi_a (-1/2 Laplacian) chi_b and the integral of
   1/2 grad chi_a . grad chi_b *)
Theorem C17I_kinetic_entry_two_readings :
  forall a b : bidx, bvalid a -> bvalid b ->
  gint3 (fun x y z => chi a x y z * (- (1 / 2) * lap3 (chi b) x y z)) (Tkin a b) /\
  gint3 (fun x y z => 1 / 2 * gdot (chi a) (chi b) x y z) (Tkin a b).
Proof. exact kinetic_two_readings. Qed.
Print Assumptions C17I_kinetic_entry_two_readings.

(* sum_a sum_b c_a c_b T_ab is the iterated integral of 1/2 |grad (sum_a c_a chi_a)|^2 ... *)
Theorem C17I_kinetic_quadratic_form_is_integral :
  forall l : list (R * bidx), (forall p, In p l -> bvalid (snd p)) ->
  gint3 (fun x y z => 1 / 2 * gdot (lcf l) (lcf l) x y z) (qf Tkin l) /\
  (forall x y z, lcf l x y z = rsum (map (fun p => fst p * chi (snd p) x y z) l)).
Proof. exact (fun l Hl => conj (kinetic_quadratic_form_is_grad_integral l Hl) (lcf_def l)). Qed.
Print Assumptions C17I_kinetic_quadratic_form_is_integral.

(* ... hence >= 0: the kinetic matrix of the model is positive semi-definite, symmetric, satisfies Schwarz *)
Theorem C17I_kinetic_model_psd :
  (forall l : list (R * bidx), (forall p, In p l -> bvalid (snd p)) -> 0 <= qf Tkin l) /\
  (forall a b : bidx, bvalid a -> bvalid b ->
     Tkin a b = Tkin b a /\ Tkin a b * Tkin a b <= Tkin a a * Tkin b b).
Proof.
  exact (conj kinetic_model_psd
           (fun a b Ha Hb => conj (kinetic_model_symm a b Ha Hb) (kinetic_model_schwarz a b Ha Hb))).
Qed.
Print Assumptions C17I_kinetic_model_psd.

(* 4. every symmetric positive semi-definite matrix is the Gram matrix of a semi-inner-product space, so the two
      [exists] hypotheses of C17_all_bounds_from_B3_partial about S and T are THEOREMS for the model
      (vidx = the subtype of valid basis functions) *)
Theorem C17I_psd_symm_is_gram :
  forall (J : Type) (G : J -> J -> R), symm G -> psd G ->
  exists (S : ipspace) (phi : J -> vec S), forall a b, G a b = ip S (phi a) (phi b).
Proof. exact (fun J G => psd_symm_is_gram G). Qed.
Print Assumptions C17I_psd_symm_is_gram.

Theorem C17I_overlap_kinetic_are_gram :
  (exists (L2 : ipspace) (phi : vidx -> vec L2), forall a b : vidx,
     Sov (proj1_sig a) (proj1_sig b) = ip L2 (phi a) (phi b)) /\
  (exists (H1 : ipspace) (dphi : vidx -> vec H1), forall a b : vidx,
     Tkin (proj1_sig a) (proj1_sig b) = ip H1 (dphi a) (dphi b)).
Proof. exact (conj overlap_model_is_gram kinetic_model_is_gram). Qed.
Print Assumptions C17I_overlap_kinetic_are_gram.

(* 5. THE PROPERTY with the overlap and kinetic parts free of any Gram hypothesis: for any family v of valid
      basis functions of the model, S and T (the model's numbers) satisfy every bound C17 states.
      PARTIAL: the point-charge matrix Vm and the repulsion array G are still ASSUMED to be Gram matrices
      (weight 1/|r-C|, Coulomb form): bridge B3, which for these two needs the Laplace representation B2. *)
Theorem C17I_all_bounds_S_T_proved_partial :
  forall (I : Type) (v : I -> vidx) (Vm : I -> I -> R) (G : I -> I -> I -> I -> R) (q : R),
  0 <= q ->
  (exists (W : ipspace) (phi : I -> vec W), forall a b, Vm a b = - q * ip W (phi a) (phi b)) ->
  (exists (C : ipspace) (rho : I -> I -> vec C), forall a b c d, G a b c d = ip C (rho a b) (rho c d)) ->
  let Sm := fun a b => Sov (proj1_sig (v a)) (proj1_sig (v b)) in
  let Tm := fun a b => Tkin (proj1_sig (v a)) (proj1_sig (v b)) in
  symm Sm /\ psd Sm /\ (forall a b, Sm a b * Sm a b <= Sm a a * Sm b b) /\
  ((forall a, Sm a a = 1) -> forall a b, Rabs (Sm a b) <= 1) /\
  symm Tm /\ psd Tm /\ (forall a b, Tm a b * Tm a b <= Tm a a * Tm b b) /\
  symm Vm /\ nsd Vm /\
  psd (fun p r : I * I => G (fst p) (snd p) (fst r) (snd r)) /\
  (forall a b c d, G a b c d = G c d a b) /\
  (forall a b, 0 <= G a b a b) /\
  (forall a b c d, G a b c d * G a b c d <= G a b a b * G c d c d).
Proof. exact all_bounds_S_T_proved. Qed.
Print Assumptions C17I_all_bounds_S_T_proved_partial.

(* 6. the hypotheses are satisfiable: an s shell (two primitives) at the origin and a p shell at (1, -1, 1/2) *)
Example C17I_ex_two_shell_family_valid :
  ex_sh_s = mkShell R 0 0 0 0 [1; 1 / 2] [[1]; [2]] false [] [] /\
  ex_sh_p = mkShell R 1 1 (-1) (1 / 2) [2] [[1]] false [] [] /\
  bvalid (ex_sh_s, 0%nat, 0%nat) /\ bvalid (ex_sh_p, 0%nat, 0%nat) /\
  bvalid (ex_sh_p, 0%nat, 1%nat) /\ bvalid (ex_sh_p, 0%nat, 2%nat).
Proof. exact (conj eq_refl (conj eq_refl ex_family_valid)). Qed.
Print Assumptions C17I_ex_two_shell_family_valid.

Example C17I_ex_two_shell_psd :
  forall c0 c1 c2 c3 : R,
  let l := [(c0, (ex_sh_s, 0%nat, 0%nat)); (c1, (ex_sh_p, 0%nat, 0%nat));
            (c2, (ex_sh_p, 0%nat, 1%nat)); (c3, (ex_sh_p, 0%nat, 2%nat))] in
  0 <= qf Sov l /\ 0 <= qf Tkin l.
Proof. exact ex_two_shell_psd. Qed.
Print Assumptions C17I_ex_two_shell_psd.

Example C17I_ex_all_bounds_hypotheses :
  exists (v : nat -> vidx) (Vm : nat -> nat -> R) (G : nat -> nat -> nat -> nat -> R),
  (exists (W : ipspace) (phi : nat -> vec W), forall a b, Vm a b = - 1 * ip W (phi a) (phi b)) /\
  (exists (C : ipspace) (rho : nat -> nat -> vec C), forall a b c d, G a b c d = ip C (rho a b) (rho c d)).
Proof. exact ex_all_bounds_hypotheses. Qed.
Print Assumptions C17I_ex_all_bounds_hypotheses.
