(* Props/C11_eri.v — property C11 (index symmetries) for the electron-repulsion blocks, at the level of the
   recursions: the eight-fold symmetry (ab|cd) = (ba|cd) = (ab|dc) = (cd|ab) = ... holds for blocks evaluated
   INDEPENDENTLY in each orientation by the model of _two_elec_int.py (not only through the copies the
   assembly makes): the block computed for a permuted quartet is the correspondingly transposed block of
   (s1 s2|s3 s4), entry by entry, for all angular momenta, exponents, centres and contraction shapes.
   The asymmetric recursion (vertical on a, transfer to c, horizontal c->d and a->b) treats the four shells
   differently; both sides equal the symmetric specification (Props/C04_orient.v, Proofs/EriOrientP.v).

   Only `Theorem ... Proof. exact lemma. Qed.` + `Print Assumptions`, plus `Example`s. *)
From Coq Require Import List Arith ZArith.
From GB Require Import Base.Field Base.FNum Base.Tables Gauss.SPoly
  Model.Shell Model.OneElec Model.TwoElec Proofs.TwoElecP Proofs.EriOrientP.
Import ListNotations.

(* the three generators of the eight-fold symmetry, written out *)
Theorem C11_eri_block_swap_ab :
  forall (F : Type) (K : Fops F), is_field K ->
  forall (s1 s2 s3 s4 : shell F) (m1 i1 m2 i2 m3 i3 m4 i4 : nat),
  (forall x : F, fapx K x = x) ->
  (forall n : nat, ofnat K (S n) <> f0 K) ->
  (forall alpha beta, In alpha (s_exps s1) -> In beta (s_exps s2) -> fadd K alpha beta <> f0 K) ->
  (forall gamma delta, In gamma (s_exps s3) -> In delta (s_exps s4) -> fadd K gamma delta <> f0 K) ->
  (forall alpha beta gamma delta, In alpha (s_exps s1) -> In beta (s_exps s2) ->
     In gamma (s_exps s3) -> In delta (s_exps s4) ->
     fadd K (fadd K alpha beta) (fadd K gamma delta) <> f0 K) ->
  m1 < nseg s1 -> m2 < nseg s2 -> m3 < nseg s3 -> m4 < nseg s4 ->
  i1 < length (comps_of s1) -> i2 < length (comps_of s2) ->
  i3 < length (comps_of s3) -> i4 < length (comps_of s4) ->
  compsum (nth i1 (comps_of s1) (0, 0, 0)) <= s_l s1 -> compsum (nth i2 (comps_of s2) (0, 0, 0)) <= s_l s2 ->
  compsum (nth i3 (comps_of s3) (0, 0, 0)) <= s_l s3 -> compsum (nth i4 (comps_of s4) (0, 0, 0)) <= s_l s4 ->
  nth i4 (nth m4 (nth i3 (nth m3 (nth i1 (nth m1 (nth i2 (nth m2 (eri_block K s2 s1 s3 s4) []) []) []) []) []) []) []) (f0 K)
  = nth i4 (nth m4 (nth i3 (nth m3 (nth i2 (nth m2 (nth i1 (nth m1 (eri_block K s1 s2 s3 s4) []) []) []) []) []) []) []) (f0 K).
Proof. exact (fun F K Kf => eri_block_swap_ab K Kf). Qed.
Print Assumptions C11_eri_block_swap_ab.

Theorem C11_eri_block_swap_cd :
  forall (F : Type) (K : Fops F), is_field K ->
  forall (s1 s2 s3 s4 : shell F) (m1 i1 m2 i2 m3 i3 m4 i4 : nat),
  (forall x : F, fapx K x = x) ->
  (forall n : nat, ofnat K (S n) <> f0 K) ->
  (forall alpha beta, In alpha (s_exps s1) -> In beta (s_exps s2) -> fadd K alpha beta <> f0 K) ->
  (forall gamma delta, In gamma (s_exps s3) -> In delta (s_exps s4) -> fadd K gamma delta <> f0 K) ->
  (forall alpha beta gamma delta, In alpha (s_exps s1) -> In beta (s_exps s2) ->
     In gamma (s_exps s3) -> In delta (s_exps s4) ->
     fadd K (fadd K alpha beta) (fadd K gamma delta) <> f0 K) ->
  m1 < nseg s1 -> m2 < nseg s2 -> m3 < nseg s3 -> m4 < nseg s4 ->
  i1 < length (comps_of s1) -> i2 < length (comps_of s2) ->
  i3 < length (comps_of s3) -> i4 < length (comps_of s4) ->
  compsum (nth i1 (comps_of s1) (0, 0, 0)) <= s_l s1 -> compsum (nth i2 (comps_of s2) (0, 0, 0)) <= s_l s2 ->
  compsum (nth i3 (comps_of s3) (0, 0, 0)) <= s_l s3 -> compsum (nth i4 (comps_of s4) (0, 0, 0)) <= s_l s4 ->
  nth i3 (nth m3 (nth i4 (nth m4 (nth i2 (nth m2 (nth i1 (nth m1 (eri_block K s1 s2 s4 s3) []) []) []) []) []) []) []) (f0 K)
  = nth i4 (nth m4 (nth i3 (nth m3 (nth i2 (nth m2 (nth i1 (nth m1 (eri_block K s1 s2 s3 s4) []) []) []) []) []) []) []) (f0 K).
Proof. exact (fun F K Kf => eri_block_swap_cd K Kf). Qed.
Print Assumptions C11_eri_block_swap_cd.

Theorem C11_eri_block_swap_electrons :
  forall (F : Type) (K : Fops F), is_field K ->
  forall (s1 s2 s3 s4 : shell F) (m1 i1 m2 i2 m3 i3 m4 i4 : nat),
  (forall x : F, fapx K x = x) ->
  (forall n : nat, ofnat K (S n) <> f0 K) ->
  (forall alpha beta, In alpha (s_exps s1) -> In beta (s_exps s2) -> fadd K alpha beta <> f0 K) ->
  (forall gamma delta, In gamma (s_exps s3) -> In delta (s_exps s4) -> fadd K gamma delta <> f0 K) ->
  (forall alpha beta gamma delta, In alpha (s_exps s1) -> In beta (s_exps s2) ->
     In gamma (s_exps s3) -> In delta (s_exps s4) ->
     fadd K (fadd K alpha beta) (fadd K gamma delta) <> f0 K) ->
  m1 < nseg s1 -> m2 < nseg s2 -> m3 < nseg s3 -> m4 < nseg s4 ->
  i1 < length (comps_of s1) -> i2 < length (comps_of s2) ->
  i3 < length (comps_of s3) -> i4 < length (comps_of s4) ->
  compsum (nth i1 (comps_of s1) (0, 0, 0)) <= s_l s1 -> compsum (nth i2 (comps_of s2) (0, 0, 0)) <= s_l s2 ->
  compsum (nth i3 (comps_of s3) (0, 0, 0)) <= s_l s3 -> compsum (nth i4 (comps_of s4) (0, 0, 0)) <= s_l s4 ->
  nth i2 (nth m2 (nth i1 (nth m1 (nth i4 (nth m4 (nth i3 (nth m3 (eri_block K s3 s4 s1 s2) []) []) []) []) []) []) []) (f0 K)
  = nth i4 (nth m4 (nth i3 (nth m3 (nth i2 (nth m2 (nth i1 (nth m1 (eri_block K s1 s2 s3 s4) []) []) []) []) []) []) []) (f0 K).
Proof. exact (fun F K Kf => eri_block_swap_el K Kf). Qed.
Print Assumptions C11_eri_block_swap_electrons.

(* all eight: opick_k o x1 x2 x3 x4 = x_{order[k]}, order = (0,1,2,3) (1,0,2,3) (0,1,3,2) (1,0,3,2) (2,3,0,1)
   (3,2,0,1) (2,3,1,0) (3,2,1,0) for o = O_abcd .. O_dcba *)
Theorem C11_both_orientations_agree_eri :
  forall (F : Type) (K : Fops F), is_field K ->
  forall (o : orient) (s1 s2 s3 s4 : shell F) (m1 i1 m2 i2 m3 i3 m4 i4 : nat),
  (forall x : F, fapx K x = x) ->
  (forall n : nat, ofnat K (S n) <> f0 K) ->
  (forall alpha beta, In alpha (s_exps s1) -> In beta (s_exps s2) -> fadd K alpha beta <> f0 K) ->
  (forall gamma delta, In gamma (s_exps s3) -> In delta (s_exps s4) -> fadd K gamma delta <> f0 K) ->
  (forall alpha beta gamma delta, In alpha (s_exps s1) -> In beta (s_exps s2) ->
     In gamma (s_exps s3) -> In delta (s_exps s4) ->
     fadd K (fadd K alpha beta) (fadd K gamma delta) <> f0 K) ->
  m1 < nseg s1 -> m2 < nseg s2 -> m3 < nseg s3 -> m4 < nseg s4 ->
  i1 < length (comps_of s1) -> i2 < length (comps_of s2) ->
  i3 < length (comps_of s3) -> i4 < length (comps_of s4) ->
  compsum (nth i1 (comps_of s1) (0, 0, 0)) <= s_l s1 -> compsum (nth i2 (comps_of s2) (0, 0, 0)) <= s_l s2 ->
  compsum (nth i3 (comps_of s3) (0, 0, 0)) <= s_l s3 -> compsum (nth i4 (comps_of s4) (0, 0, 0)) <= s_l s4 ->
  nth (opick4 o i1 i2 i3 i4) (nth (opick4 o m1 m2 m3 m4) (nth (opick3 o i1 i2 i3 i4) (nth (opick3 o m1 m2 m3 m4) (nth (opick2 o i1 i2 i3 i4) (nth (opick2 o m1 m2 m3 m4) (nth (opick1 o i1 i2 i3 i4) (nth (opick1 o m1 m2 m3 m4) (eri_block K (opick1 o s1 s2 s3 s4) (opick2 o s1 s2 s3 s4) (opick3 o s1 s2 s3 s4) (opick4 o s1 s2 s3 s4)) []) []) []) []) []) []) []) (f0 K)
  = nth i4 (nth m4 (nth i3 (nth m3 (nth i2 (nth m2 (nth i1 (nth m1 (eri_block K s1 s2 s3 s4) []) []) []) []) []) []) []) (f0 K).
Proof. exact (fun F K Kf => both_orientations_agree_eri K Kf). Qed.
Print Assumptions C11_both_orientations_agree_eri.

(* the same statement for the implementation's transposed result (key statement of Props/C04_orient.v) *)
Theorem C11_eri_block_orientation_independent :
  forall (F : Type) (K : Fops F), is_field K ->
  forall (o : orient) (s1 s2 s3 s4 : shell F) (m1 i1 m2 i2 m3 i3 m4 i4 : nat),
  (forall x : F, fapx K x = x) ->
  (forall n : nat, ofnat K (S n) <> f0 K) ->
  (forall alpha beta, In alpha (s_exps s1) -> In beta (s_exps s2) -> fadd K alpha beta <> f0 K) ->
  (forall gamma delta, In gamma (s_exps s3) -> In delta (s_exps s4) -> fadd K gamma delta <> f0 K) ->
  (forall alpha beta gamma delta, In alpha (s_exps s1) -> In beta (s_exps s2) ->
     In gamma (s_exps s3) -> In delta (s_exps s4) ->
     fadd K (fadd K alpha beta) (fadd K gamma delta) <> f0 K) ->
  m1 < nseg s1 -> m2 < nseg s2 -> m3 < nseg s3 -> m4 < nseg s4 ->
  i1 < length (comps_of s1) -> i2 < length (comps_of s2) ->
  i3 < length (comps_of s3) -> i4 < length (comps_of s4) ->
  compsum (nth i1 (comps_of s1) (0, 0, 0)) <= s_l s1 -> compsum (nth i2 (comps_of s2) (0, 0, 0)) <= s_l s2 ->
  compsum (nth i3 (comps_of s3) (0, 0, 0)) <= s_l s3 -> compsum (nth i4 (comps_of s4) (0, 0, 0)) <= s_l s4 ->
  nth i4 (nth m4 (nth i3 (nth m3 (nth i2 (nth m2 (nth i1 (nth m1 (eri_block_oriented K o s1 s2 s3 s4) []) []) []) []) []) []) []) (f0 K)
  = nth i4 (nth m4 (nth i3 (nth m3 (nth i2 (nth m2 (nth i1 (nth m1 (eri_block K s1 s2 s3 s4) []) []) []) []) []) []) []) (f0 K).
Proof. exact (fun F K Kf => eri_block_orientation_independent K Kf). Qed.
Print Assumptions C11_eri_block_orientation_independent.

(* opick on a concrete tuple: the eight orders of electron_repulsion.py::_ORIENTATIONS *)
Example C11_orient_orders_ex :
  map (fun o => [opick1 o 0 1 2 3; opick2 o 0 1 2 3; opick3 o 0 1 2 3; opick4 o 0 1 2 3]) all_orients
  = [[0; 1; 2; 3]; [1; 0; 2; 3]; [0; 1; 3; 2]; [1; 0; 3; 2]; [2; 3; 0; 1]; [3; 2; 0; 1]; [2; 3; 1; 0]; [3; 2; 1; 0]].
Proof. exact orient_orders_ex. Qed.
Print Assumptions C11_orient_orders_ex.

(* a concrete (p s | s p) quartet at Qc: the eight oriented blocks coincide (vm_compute, 36 entries each) *)
Example C11_eight_orientations_ex :
  (let r := eri_block KQ4 o_s1 o_s2 o_s3 o_s4 in
   forallb (fun o => block_eqb (eri_block_oriented KQ4 o o_s1 o_s2 o_s3 o_s4) r) all_orients) = true.
Proof. exact eight_orientations_ex. Qed.
Print Assumptions C11_eight_orientations_ex.
