(* Proofs/OverlapP.v — the block table of [two_symm_integral] (every upper block evaluated
   once and looked up) is the same as calling the block function directly. *)
From Coq Require Import List Arith Lia Bool.
From GB Require Import Base.Field Base.Tables Model.Shell Model.Assembly Model.Overlap.
Import ListNotations.

Section P.
Context {F : Type} (K : Fops F).
Context {A : Type} (azero : A) (aadd : A -> A -> A) (ascale : F -> A -> A).

Lemma two_symm_blocks_ext_le n (bf bf' : nat -> nat -> list (list A)) :
  (forall i j, i < n -> j < n -> i <= j -> bf i j = bf' i j) ->
  two_symm_blocks azero n bf = two_symm_blocks azero n bf'.
Proof.
  intros H. unfold two_symm_blocks. f_equal. apply mk_ext; intros i Hi. f_equal.
  apply mk_ext; intros j Hj. destruct (Nat.leb_spec i j) as [Hle|Hlt].
  - now apply H.
  - f_equal. apply H; lia.
Qed.

Variable blockf : shell F -> shell F -> list (list (list (list A))).

Lemma two_symm_integral_unfold (basis : list (shell F)) (T : option (list (list F))) :
  two_symm_integral K azero aadd ascale blockf basis T =
  let ps := map (prep K) basis in
  let m := two_symm_blocks azero (length ps)
             (fun i j => pblock K azero aadd ascale blockf (nth i ps (dummy_p K)) (nth j ps (dummy_p K))) in
  match T with None => m | Some t => lincomb2 azero aadd ascale t t m end.
Proof.
  unfold two_symm_integral. cbv zeta.
  set (ps := map (prep K) basis). set (n := length ps).
  assert (E : two_symm_blocks azero n
                (fun i j => nth j (nth i (mk n (fun i0 => mk n (fun j0 =>
                   if Nat.leb i0 j0
                   then pblock K azero aadd ascale blockf (nth i0 ps (dummy_p K)) (nth j0 ps (dummy_p K))
                   else []))) []) [])
              = two_symm_blocks azero n
                (fun i j => pblock K azero aadd ascale blockf (nth i ps (dummy_p K)) (nth j ps (dummy_p K)))).
  { apply two_symm_blocks_ext_le. intros i j Hi Hj Hle.
    rewrite nth_mk by exact Hi. rewrite nth_mk by exact Hj.
    destruct (Nat.leb_spec i j); [reflexivity|lia]. }
  now rewrite E.
Qed.
End P.
