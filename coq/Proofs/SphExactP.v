(* Proofs/SphExactP.v — lemmas about Model/SphExact.v (property C10).

   1. [check_all]: the boolean checkers hold for every l <= 10 (complete
      enumeration of the finite domain by vm_compute).
   2. Structure, for ALL l and all conventions: entry (i,j) of either form is
      [entry_of l label_i component_j]; left = transpose of right; a sign
      marker multiplies the row by -1; hence a caller's order / sign
      convention only selects and negates entries of the default matrix.
   3. Label syntax: [parse_label] accepts exactly the four documented forms;
      whatever [generate_transformation] accepts is well-formed. *)
From Coq Require Import List Arith Lia Bool ZArith NArith QArith Qcanon.
From Coq Require Import String Ascii DecimalString DecimalN.
From GB Require Import Base.Tables Model.Shell Model.SphExact.
Import ListNotations.
Local Open Scope nat_scope.
Local Open Scope list_scope.

(* ------------------------------------------------------------------ *)
(* 1. the finite domain                                                *)
(* ------------------------------------------------------------------ *)
Lemma check_all : forallb check_l (seq 0 11) = true.
Proof. vm_compute. reflexivity. Qed.

Lemma check_le10 : forall l, l <= 10 -> check_l l = true.
Proof.
  intros l Hl. pose proof check_all as H. rewrite forallb_forall in H.
  apply H. apply in_seq. lia.
Qed.

(* ------------------------------------------------------------------ *)
(* 2. structure                                                        *)
(* ------------------------------------------------------------------ *)
Definition dl : label := (false, false, 0%nat).
Definition dc : comp := (0%nat, 0%nat, 0%nat).

Lemma nth_map_in {A B} (f : A -> B) (l : list A) i dA dB :
  i < List.length l -> nth i (map f l) dB = f (nth i l dA).
Proof.
  intros Hi. rewrite (nth_indep _ dB (f dA)) by (now rewrite map_length).
  apply map_nth.
Qed.

Lemma right_form_eq l carts lbs :
  right_form l carts lbs = map (fun c => map (fun lb => entry_of l lb c) lbs) carts.
Proof.
  unfold right_form. apply map_ext. intros c. rewrite map_map. apply map_ext.
  intros [[neg sine] m]. reflexivity.
Qed.

Lemma right_form_length l carts lbs : List.length (right_form l carts lbs) = List.length carts.
Proof. rewrite right_form_eq. apply map_length. Qed.

Lemma right_form_nth l carts lbs i j :
  i < List.length lbs -> j < List.length carts ->
  nth i (nth j (right_form l carts lbs) []) szero = entry_of l (nth i lbs dl) (nth j carts dc).
Proof.
  intros Hi Hj. rewrite right_form_eq.
  rewrite (nth_map_in _ carts j dc []) by assumption.
  now rewrite (nth_map_in _ lbs i dl szero).
Qed.

Lemma transpose_nth {A} (d : A) n rows i j :
  i < n -> j < List.length rows ->
  nth j (nth i (transpose d n rows) []) d = nth i (nth j rows []) d.
Proof.
  intros Hi Hj. unfold transpose. change (map ?f (seq 0 n)) with (mk n f).
  rewrite nth_mk by assumption.
  now rewrite (nth_map_in _ rows j [] d).
Qed.

Lemma transpose_length {A} (d : A) n rows : List.length (transpose d n rows) = n.
Proof. unfold transpose. now rewrite map_length, seq_length. Qed.

(* left = transpose of right, entry by entry, every l, every convention *)
Lemma left_is_transpose l carts lbs i j :
  i < List.length lbs -> j < List.length carts ->
  nth j (nth i (left_form l carts lbs) []) szero = nth i (nth j (right_form l carts lbs) []) szero.
Proof.
  intros Hi Hj. unfold left_form. apply transpose_nth; [assumption|].
  now rewrite right_form_length.
Qed.

Lemma left_form_length l carts lbs : List.length (left_form l carts lbs) = List.length lbs.
Proof. unfold left_form. apply transpose_length. Qed.

Lemma left_form_nth l carts lbs i j :
  i < List.length lbs -> j < List.length carts ->
  nth j (nth i (left_form l carts lbs) []) szero = entry_of l (nth i lbs dl) (nth j carts dc).
Proof. intros Hi Hj. rewrite left_is_transpose by assumption. now apply right_form_nth. Qed.

(* a sign marker negates the function, nothing else *)
Lemma entry_sign l lb c : entry_of l lb c = sneg (is_neg lb) (entry_of l (unsigned lb) c).
Proof.
  destruct lb as [[neg sine] m]. unfold entry_of, unsigned, is_neg, entry_with, sneg, sdiv_sqrt, smul, s_sqrt.
  cbn [fst snd]. f_equal. destruct neg; ring.
Qed.

Definition get (sd : side) (M : list (list surd)) (i j : nat) : surd :=
  match sd with
  | SLeft => nth j (nth i M []) szero
  | SRight => nth i (nth j M []) szero
  end.

Lemma form_get sd l carts lbs i j :
  i < List.length lbs -> j < List.length carts ->
  get sd (form sd l carts lbs) i j = entry_of l (nth i lbs dl) (nth j carts dc).
Proof. intros Hi Hj. destruct sd; cbn [get form]; [now apply left_form_nth | now apply right_form_nth]. Qed.

(* the default-convention matrix (left form) *)
Definition default_left (l : nat) : list (list surd) :=
  left_form l (default_comps l) (default_labels l).

(* the convention lemma: function i / component j of ANY requested convention is
   +-1 times the entry of the default matrix found at the positions of that
   function and that component in the default orders *)
Lemma convention_entry sd l carts lbs i j p q :
  i < List.length lbs -> j < List.length carts ->
  p < List.length (default_labels l) -> q < List.length (default_comps l) ->
  nth p (default_labels l) dl = unsigned (nth i lbs dl) ->
  nth q (default_comps l) dc = nth j carts dc ->
  get sd (form sd l carts lbs) i j
  = sneg (is_neg (nth i lbs dl)) (get SLeft (default_left l) p q).
Proof.
  intros Hi Hj Hp Hq Ep Eq. rewrite form_get by assumption.
  unfold default_left. change (left_form l ?c ?b) with (form SLeft l c b).
  rewrite form_get by assumption. rewrite Ep, Eq. apply entry_sign.
Qed.

(* --- the default orders are complete: positions p, q always exist --- *)
Lemma default_comps_complete l x y z :
  x + y + z = l -> In (x, y, z) (default_comps l).
Proof.
  intros H. unfold default_comps. apply in_flat_map. exists (l - x). split.
  - apply in_seq. lia.
  - cbn zeta. apply in_map_iff. exists (l - x - y). split.
    + f_equal; [f_equal|]; lia.
    + apply in_seq. lia.
Qed.

Lemma default_labels_complete l sine m :
  m <= l -> (sine = true -> 1 <= m) -> In (false, sine, m) (default_labels l).
Proof.
  intros Hm Hs. unfold default_labels. destruct (Nat.eqb_spec l 1) as [->|Hl].
  - destruct sine.
    + specialize (Hs eq_refl). assert (m = 1) by lia. subst. cbn. tauto.
    + assert (m = 0 \/ m = 1) as [->| ->] by lia; cbn; tauto.
  - apply in_or_app. destruct sine.
    + left. specialize (Hs eq_refl). apply in_map_iff. exists (l - m). split.
      * f_equal. lia.
      * apply in_seq. lia.
    + right. apply in_map_iff. exists m. split; [reflexivity|]. apply in_seq. lia.
Qed.

Lemma default_comps_sum l c : In c (default_comps l) -> let '(x, y, z) := c in x + y + z = l.
Proof.
  unfold default_comps. intros H. apply in_flat_map in H as (xx & Hxx & H).
  cbn zeta in H. apply in_map_iff in H as (yy & <- & Hyy).
  apply in_seq in Hxx. apply in_seq in Hyy. lia.
Qed.

(* lengths of the default orders *)
Lemma flat_map_tri (f : nat -> list comp) n :
  (forall k, k < n -> List.length (f k) = S k) ->
  2 * List.length (flat_map f (seq 0 n)) = n * (n + 1).
Proof.
  induction n as [|n IH]; intros H; [reflexivity|].
  rewrite seq_S, flat_map_app, app_length. cbn [flat_map plus]. rewrite app_nil_r.
  rewrite H by lia. specialize (IH (fun k Hk => H k (Nat.lt_lt_succ_r _ _ Hk))). lia.
Qed.

Lemma default_comps_length l : List.length (default_comps l) = ncart l.
Proof.
  unfold default_comps, ncart.
  match goal with |- List.length (flat_map ?f _) = _ =>
    assert (E : 2 * List.length (flat_map f (seq 0 (S l))) = (l + 1) * (l + 2)) end.
  { rewrite flat_map_tri; [lia|]. intros k Hk. cbn zeta. rewrite map_length, seq_length. lia. }
  rewrite <- E. rewrite Nat.mul_comm. now rewrite Nat.div_mul.
Qed.

Lemma default_labels_length l : List.length (default_labels l) = 2 * l + 1.
Proof.
  unfold default_labels. destruct (Nat.eqb_spec l 1) as [->|Hl]; [reflexivity|].
  rewrite app_length, !map_length, !seq_length. lia.
Qed.

(* ------------------------------------------------------------------ *)
(* 3. label syntax                                                     *)
(* ------------------------------------------------------------------ *)
Definition wf_label (l : nat) (lb : label) : Prop :=
  let '(_, sine, m) := lb in m <= l /\ (sine = true -> 1 <= m).

Lemma parse_index_fmt l m : m <= l -> parse_index l (fmt_N (N.of_nat m)) = Some m.
Proof.
  intros Hm. unfold parse_index, fmt_N. rewrite NilEmpty.usu, DecimalN.Unsigned.of_to.
  assert (N.leb (N.of_nat m) (N.of_nat l) = true) as -> by (apply N.leb_le; lia).
  rewrite String.eqb_refl. cbn [andb]. now rewrite Nnat.Nat2N.id.
Qed.

Lemma parse_index_sound l s m : parse_index l s = Some m -> s = fmt_N (N.of_nat m) /\ m <= l.
Proof.
  unfold parse_index. destruct (NilEmpty.uint_of_string s) as [d|]; [|discriminate].
  destruct (N.leb (N.of_uint d) (N.of_nat l)) eqn:E1; [|discriminate].
  destruct (String.eqb (fmt_N (N.of_uint d)) s) eqn:E2; [|discriminate].
  cbn [andb]. intros H. injection H as <-. rewrite Nnat.N2Nat.id.
  apply String.eqb_eq in E2. apply N.leb_le in E1. split; [now symmetry|lia].
Qed.

(* every documented form is accepted ... *)
Lemma parse_fmt l lb : wf_label l lb -> parse_label l (fmt_label lb) = Some lb.
Proof.
  destruct lb as [[neg sine] m]. intros [Hm Hs].
  destruct neg, sine; cbn -[parse_index fmt_N]; rewrite parse_index_fmt by assumption;
    try reflexivity; specialize (Hs eq_refl); destruct m; [lia|reflexivity|lia|reflexivity].
Qed.

Lemma parse_unsigned_sound l neg s lb :
  parse_unsigned l neg s = Some lb ->
  exists sine m, lb = (neg, sine, m) /\ s = ((if sine then "s" else "c") ++ fmt_N (N.of_nat m))%string
                 /\ wf_label l lb.
Proof.
  destruct s as [|ch rest]; [discriminate|]. cbn [parse_unsigned].
  destruct (Ascii.eqb_spec ch "c"%char) as [->|Hc].
  - destruct (parse_index l rest) as [m|] eqn:E; [|discriminate]. intros H; injection H as <-.
    apply parse_index_sound in E as [-> Hm]. exists false, m.
    split; [reflexivity|]. split; [reflexivity|]. split; [assumption|discriminate].
  - destruct (Ascii.eqb_spec ch "s"%char) as [->|Hs]; [|discriminate].
    destruct (parse_index l rest) as [m|] eqn:E; [|discriminate].
    destruct (Nat.leb_spec 1 m) as [H1|H1]; [|discriminate]. intros H; injection H as <-.
    apply parse_index_sound in E as [-> Hm]. exists true, m.
    split; [reflexivity|]. split; [reflexivity|]. split; [assumption|intros _; assumption].
Qed.

(* ... and nothing else *)
Lemma parse_label_sound l s lb :
  parse_label l s = Some lb -> s = fmt_label lb /\ wf_label l lb.
Proof.
  destruct s as [|ch rest]; [discriminate|]. cbn [parse_label].
  destruct (Ascii.eqb_spec ch "-"%char) as [->|Hd]; intros H;
    apply parse_unsigned_sound in H as (sine & m & -> & E & W); (split; [|exact W]).
  - rewrite E. reflexivity.
  - rewrite E. reflexivity.
Qed.

Lemma parse_labels_sound l ss lbs :
  parse_labels l ss = Some lbs ->
  List.length lbs = List.length ss
  /\ forall i, i < List.length ss ->
       nth i ss ""%string = fmt_label (nth i lbs dl) /\ wf_label l (nth i lbs dl).
Proof.
  revert lbs. induction ss as [|s ss IH]; intros lbs H; cbn [parse_labels] in H.
  - injection H as <-. split; [reflexivity|]. intros i Hi. cbn in Hi. lia.
  - destruct (parse_label l s) as [lb|] eqn:E; [|discriminate].
    destruct (parse_labels l ss) as [lbs'|]; [|discriminate]. injection H as <-.
    destruct (IH lbs' eq_refl) as [Hl Hn]. split; [cbn; now rewrite Hl|].
    intros [|i] Hi; cbn [nth].
    + now apply parse_label_sound.
    + apply Hn. cbn in Hi. lia.
Qed.

Lemma parse_labels_fmt l lbs :
  (forall lb, In lb lbs -> wf_label l lb) -> parse_labels l (map fmt_label lbs) = Some lbs.
Proof.
  induction lbs as [|lb lbs IH]; intros H; [reflexivity|]. cbn [map parse_labels].
  rewrite parse_fmt by (apply H; now left). rewrite IH; [reflexivity|].
  intros x Hx. apply H. now right.
Qed.

Lemma default_labels_wf l lb : In lb (default_labels l) -> wf_label l lb /\ unsigned lb = lb.
Proof.
  unfold default_labels. destruct (Nat.eqb_spec l 1) as [->|Hl].
  - cbn. intros [<-|[<-|[<-|[]]]]; cbn; repeat split; try lia; discriminate.
  - intros H. apply in_app_or in H as [H|H]; apply in_map_iff in H as (k & <- & Hk);
      apply in_seq in Hk; cbn; repeat split; try lia; discriminate.
Qed.

Lemma comp_eqb_refl c : comp_eqb c c = true.
Proof. destruct c as [[x y] z]. cbn. now rewrite !Nat.eqb_refl. Qed.
Lemma comp_eqb_eq c d : comp_eqb c d = true -> c = d.
Proof.
  destruct c as [[x y] z], d as [[x' y'] z']. cbn. intros H.
  apply andb_prop in H as [H Hz]. apply andb_prop in H as [Hx Hy].
  apply Nat.eqb_eq in Hx, Hy, Hz. now subst.
Qed.
Lemma label_eqb_refl a : label_eqb a a = true.
Proof. destruct a as [[n s] m]. cbn. now rewrite !Bool.eqb_reflx, Nat.eqb_refl. Qed.
Lemma label_eqb_eq a b : label_eqb a b = true -> a = b.
Proof.
  destruct a as [[n s] m], b as [[n' s'] m']. cbn. intros H.
  apply andb_prop in H as [H Hm]. apply andb_prop in H as [Hn Hs].
  apply Bool.eqb_prop in Hn, Hs. apply Nat.eqb_eq in Hm. now subst.
Qed.

Lemma carts_ok_default l : carts_ok l (default_comps l) = true.
Proof.
  unfold carts_ok. rewrite default_comps_length, Nat.eqb_refl. cbn [andb].
  apply andb_true_intro. split.
  - apply forallb_forall. intros [[x y] z] H. apply default_comps_sum in H. now apply Nat.eqb_eq.
  - apply forallb_forall. intros c H. apply existsb_exists. exists c. split; [assumption|apply comp_eqb_refl].
Qed.

Lemma labels_ok_default l : labels_ok l (default_labels l) = true.
Proof.
  unfold labels_ok. rewrite default_labels_length, Nat.eqb_refl. cbn [andb].
  apply forallb_forall. intros d H. apply existsb_exists. exists d. split; [assumption|].
  destruct (default_labels_wf l d H) as [_ ->]. apply label_eqb_refl.
Qed.

(* the public entry point on the default conventions, every l *)
Lemma default_generated sd l :
  generate_transformation l (default_comps l) (default_label_strings l) sd
  = Some (form sd l (default_comps l) (default_labels l)).
Proof.
  unfold generate_transformation, default_label_strings.
  rewrite carts_ok_default, parse_labels_fmt by (intros lb H; now apply default_labels_wf).
  now rewrite labels_ok_default.
Qed.

(* whatever is accepted is well-formed *)
Lemma accepted_inv l carts strs sd M :
  generate_transformation l carts strs sd = Some M ->
  exists lbs, parse_labels l strs = Some lbs /\ carts_ok l carts = true /\ labels_ok l lbs = true
              /\ M = form sd l carts lbs.
Proof.
  unfold generate_transformation. destruct (carts_ok l carts); [|discriminate].
  destruct (parse_labels l strs) as [lbs|]; [|discriminate].
  destruct (labels_ok l lbs) eqn:E; [|discriminate]. intros H; injection H as <-.
  exists lbs. repeat split; assumption.
Qed.

Lemma In_nth_lt {A} (x : A) l d : In x l -> exists n, n < List.length l /\ nth n l d = x.
Proof. apply In_nth. Qed.

(* the convention theorem at the level of the public entry point *)
Lemma convention_honoured l carts strs sd M :
  generate_transformation l carts strs sd = Some M ->
  exists lbs,
    parse_labels l strs = Some lbs /\ List.length lbs = List.length strs
    /\ (forall i, i < List.length strs -> nth i strs ""%string = fmt_label (nth i lbs dl))
    /\ forall i j, i < List.length strs -> j < List.length carts ->
       exists p q, p < 2 * l + 1 /\ q < ncart l
         /\ nth p (default_labels l) dl = unsigned (nth i lbs dl)
         /\ nth q (default_comps l) dc = nth j carts dc
         /\ get sd M i j = sneg (is_neg (nth i lbs dl)) (get SLeft (default_left l) p q).
Proof.
  intros H. apply accepted_inv in H as (lbs & Hp & Hc & Hl & ->).
  destruct (parse_labels_sound l strs lbs Hp) as [Hlen Hn].
  exists lbs. split; [assumption|]. split; [assumption|]. split; [intros i Hi; now apply Hn|].
  intros i j Hi Hj.
  (* position of the function *)
  destruct (Hn i Hi) as [_ W]. destruct (nth i lbs dl) as [[neg sine] m] eqn:Elb.
  destruct W as [Wm Ws].
  destruct (In_nth_lt _ _ dl (default_labels_complete l sine m Wm Ws)) as (p & Hp1 & Hp2).
  (* position of the component *)
  unfold carts_ok in Hc. apply andb_prop in Hc as [Hc _]. apply andb_prop in Hc as [_ Hsum].
  rewrite forallb_forall in Hsum. specialize (Hsum (nth j carts dc) (nth_In _ _ Hj)).
  destruct (nth j carts dc) as [[x y] z] eqn:Ec. apply Nat.eqb_eq in Hsum.
  destruct (In_nth_lt _ _ dc (default_comps_complete l x y z Hsum)) as (q & Hq1 & Hq2).
  exists p, q. rewrite default_labels_length in Hp1. rewrite default_comps_length in Hq1.
  split; [assumption|]. split; [assumption|]. split; [exact Hp2|]. split; [exact Hq2|].
  rewrite <- Elb.
  apply convention_entry; try (rewrite ?default_labels_length, ?default_comps_length; assumption).
  - now rewrite Hlen.
  - now rewrite Elb.
  - now rewrite Ec.
Qed.

(* rejection: an accepted request has 2l+1 labels, each one of the four documented
   forms with an admissible index, naming every function of the shell; and a
   Cartesian order of the right size whose members sum to l and contain every component *)
Lemma accepted_wellformed l carts strs sd M :
  generate_transformation l carts strs sd = Some M ->
  List.length strs = 2 * l + 1
  /\ (forall s, In s strs -> exists neg sine m,
        s = fmt_label (neg, sine, m) /\ m <= l /\ (sine = true -> 1 <= m))
  /\ (forall sine m, m <= l -> (sine = true -> 1 <= m) ->
        In (fmt_label (false, sine, m)) strs \/ In (fmt_label (true, sine, m)) strs)
  /\ List.length carts = ncart l
  /\ (forall x y z, In (x, y, z) carts -> x + y + z = l)
  /\ (forall x y z, x + y + z = l -> In (x, y, z) carts).
Proof.
  intros H. apply accepted_inv in H as (lbs & Hp & Hc & Hl & _).
  destruct (parse_labels_sound l strs lbs Hp) as [Hlen Hn].
  unfold labels_ok in Hl. apply andb_prop in Hl as [Hl1 Hl2]. apply Nat.eqb_eq in Hl1.
  unfold carts_ok in Hc. apply andb_prop in Hc as [Hc Hc3]. apply andb_prop in Hc as [Hc1 Hc2].
  apply Nat.eqb_eq in Hc1. rewrite forallb_forall in Hl2, Hc2, Hc3.
  split; [now rewrite <- Hlen|]. split.
  { intros s Hs. destruct (In_nth_lt _ _ ""%string Hs) as (i & Hi & <-).
    destruct (Hn i Hi) as [E W]. destruct (nth i lbs dl) as [[neg sine] m].
    exists neg, sine, m. split; [assumption|exact W]. }
  split.
  { intros sine m Hm Hs. specialize (Hl2 _ (default_labels_complete l sine m Hm Hs)).
    apply existsb_exists in Hl2 as (lb & Hin & E). apply label_eqb_eq in E.
    destruct (In_nth_lt _ _ dl Hin) as (i & Hi & Ei). rewrite Hlen in Hi.
    destruct (Hn i Hi) as [Es _]. rewrite Ei in Es.
    destruct lb as [[neg s'] m']. cbn in E. injection E as -> ->.
    destruct neg; [right|left]; rewrite <- Es; now apply nth_In. }
  split; [assumption|]. split.
  { intros x y z Hin. specialize (Hc2 _ Hin). now apply Nat.eqb_eq in Hc2. }
  { intros x y z Hs. specialize (Hc3 _ (default_comps_complete l x y z Hs)).
    apply existsb_exists in Hc3 as (c & Hin & E). apply comp_eqb_eq in E. now subst. }
Qed.

(* concrete malformed requests (the first three are accepted by the unfixed code) *)
Example reject_c_minus_1 :
  generate_transformation 1 (default_comps 1) ["c-1"; "s1"; "c0"]%string SLeft = None.
Proof. vm_compute. reflexivity. Qed.
Example reject_s_minus_2 :
  generate_transformation 2 (default_comps 2) ["s-2"; "s1"; "c0"; "c1"; "c2"]%string SRight = None.
Proof. vm_compute. reflexivity. Qed.
Example reject_minus_c_minus_0 :
  generate_transformation 0 (default_comps 0) ["-c-0"]%string SLeft = None.
Proof. vm_compute. reflexivity. Qed.
Example reject_double_minus :
  generate_transformation 1 (default_comps 1) ["--c1"; "s1"; "c0"]%string SLeft = None.
Proof. vm_compute. reflexivity. Qed.
Example reject_duplicate :
  generate_transformation 1 (default_comps 1) ["c1"; "-c1"; "c0"]%string SLeft = None.
Proof. vm_compute. reflexivity. Qed.
Example reject_wrong_count :
  generate_transformation 1 (default_comps 1) ["c1"; "s1"; "c0"; "c0"]%string SLeft = None.
Proof. vm_compute. reflexivity. Qed.
Example reject_wrong_m :
  generate_transformation 1 (default_comps 1) ["c1"; "s1"; "c2"]%string SLeft = None.
Proof. vm_compute. reflexivity. Qed.
Example reject_s0 :
  generate_transformation 1 (default_comps 1) ["c1"; "s1"; "s0"]%string SLeft = None.
Proof. vm_compute. reflexivity. Qed.
Example reject_leading_zero :
  generate_transformation 1 (default_comps 1) ["c1"; "s1"; "c00"]%string SLeft = None.
Proof. vm_compute. reflexivity. Qed.
Example reject_bad_carts :
  generate_transformation 1 [(1, 0, 0); (1, 0, 0); (0, 0, 1)]%nat ["c1"; "s1"; "c0"]%string SLeft = None.
Proof. vm_compute. reflexivity. Qed.
(* and a well-formed non-default request is accepted (the hypotheses above are satisfiable) *)
Example accept_orca_f :
  exists M, generate_transformation 3 (rev (default_comps 3))
              ["c0"; "c1"; "s1"; "c2"; "s2"; "-c3"; "-s3"]%string SLeft = Some M.
Proof. eexists. vm_compute. reflexivity. Qed.

(* ------------------------------------------------------------------ *)
(* 4. the angular Gram matrix is made of Gaussian moments               *)
(*                                                                     *)
(* [g1 n] (Model/SphExact.v) is the moment m_n of Gauss/Moment1D.v at   *)
(* v = 1:  m_0 = 1, m_1 = 0, m_(n+2) = (n+1) v m_n.  With v = 1/(4a)    *)
(* (two Gaussians of exponent a on one centre: p = 2a) m_n = g1 n v^(n/2), *)
(* and v^(l) is common to all pairs of components of one shell; this is *)
(* the overlap used by [orthonormal].                                   *)
(* ------------------------------------------------------------------ *)
From GB Require Import Base.Field Gauss.Moment1D.

Lemma g1_SS n : g1 (S (S n)) = (Z.of_nat (S n) * g1 n)%Z.
Proof.
  unfold g1. change (Nat.even (S (S n))) with (Nat.even n).
  destruct (Nat.even n) eqn:E; [|now rewrite Z.mul_0_r].
  apply Nat.even_spec in E as [k ->].
  replace (S (S (2 * k))) with (2 * S k) by lia.
  rewrite !(Nat.mul_comm 2), !Nat.div_mul by lia.
  cbn [zdf_odd]. f_equal. lia.
Qed.

Lemma zdf_odd_pos n : (0 < zdf_odd n)%Z.
Proof. induction n as [|n IH]; cbn [zdf_odd]; lia. Qed.

Lemma g1_nonneg n : (0 <= g1 n)%Z.
Proof. unfold g1. destruct (Nat.even n); [pose proof (zdf_odd_pos (n / 2))|]; lia. Qed.

Section GramMoment.
Context {F : Type} (K : Fops F) (Kf : is_field K).
Add Field KFg : Kf.

Lemma ofnat_add a b : ofnat K (a + b) = fadd K (ofnat K a) (ofnat K b).
Proof. induction a as [|a IH]; cbn [ofnat plus]; [ring|rewrite IH; ring]. Qed.

Lemma ofnat_mul a b : ofnat K (a * b) = fmul K (ofnat K a) (ofnat K b).
Proof.
  induction a as [|a IH]; cbn [ofnat mult]; [ring|].
  rewrite ofnat_add, IH. ring.
Qed.

Lemma gram1_is_moment n : mom K (f1 K) n = ofnat K (Z.to_nat (g1 n)).
Proof.
  assert (H : mom K (f1 K) n = ofnat K (Z.to_nat (g1 n))
              /\ mom K (f1 K) (S n) = ofnat K (Z.to_nat (g1 (S n)))).
  { induction n as [|n [IH1 IH2]].
    - split.
      + rewrite mom_0. change (Z.to_nat (g1 0)) with 1%nat. cbn [ofnat]. ring.
      + rewrite mom_1. change (Z.to_nat (g1 1)) with 0%nat. reflexivity.
    - split; [exact IH2|]. rewrite mom_SS, IH1, g1_SS.
      rewrite Z2Nat.inj_mul by (try apply g1_nonneg; lia).
      rewrite Nat2Z.id, ofnat_mul. ring. }
  exact (proj1 H).
Qed.
End GramMoment.

(* the hypothesis [is_field K] is satisfiable: the executable instance *)
Definition K0 : Fops Qc := QcK true (Q2Qc 0) (fun x => x) (fun x => x) (fun x => x) (fun _ x => x).
Example gram1_is_moment_Qc n : mom K0 (f1 K0) n = ofnat K0 (Z.to_nat (g1 n)).
Proof. apply gram1_is_moment. apply QcK_field. Qed.
