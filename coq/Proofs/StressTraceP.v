(* Proofs/StressTraceP.v — the formulas found in the CURRENT source of
   stress_tensor.py (+ density.py), regenerated into Gen/StressTrace.v on every
   run, equal the documented formulas of Model/Stress.v: for each of the 8
   parameter cases (alpha symbolic/0/1/2/1, beta symbolic/0) and each of the
   9+3+9+9 output components, [equivb] by computation.  Editing a coefficient,
   an index or a special-case branch in /repo makes this file fail to compile. *)
From Coq Require Import QArith Qcanon List Bool.
From GB Require Import Base.Field Gauss.Jets Model.Stress Proofs.StressP Gen.StressTrace.
Import ListNotations.
Local Close Scope Qc_scope.
Local Close Scope Q_scope.
Local Open Scope nat_scope.

Lemma trace_matches_spec : check_table trace_table = true.
Proof. vm_compute. reflexivity. Qed.

Section T.
Context {R : Type} (K : Fops R) (Kr : is_ring K).
Variable inj : Qc -> R.
Hypothesis Hinj : is_qhom K inj.
Variables (alpha beta : R) (G : order -> order -> R).
Hypothesis Gsym : forall a b, G a b = G b a.
Variables (n : nat) (ab : par * par) (tc : trace_case).
Hypothesis Hab : nth_error cases n = Some ab.
Hypothesis Htc : nth_error trace_table n = Some tc.
Hypothesis Ha : forall v, fst ab = Some v -> alpha = inj v.
Hypothesis Hb : forall v, snd ab = Some v -> beta = inj v.
Notation ev := (eval K inj alpha beta G).

Theorem code_computes_spec :
  (forall m c s, nth_error (t_stress tc) m = Some c -> nth_error (tab2 stress_doc) m = Some s -> ev c = ev s)
  /\ (forall m c s, nth_error (t_force tc) m = Some c -> nth_error (tab1 force_doc) m = Some s -> ev c = ev s)
  /\ (forall m c s, nth_error (t_hess tc) m = Some c -> nth_error (tab2 hess_doc) m = Some s -> ev c = ev s)
  /\ (forall m c s, nth_error (t_hess_symm tc) m = Some c -> nth_error (tab2 hess_symm) m = Some s -> ev c = ev s)
  /\ length trace_table = length cases /\ length (t_stress tc) = 9 /\ length (t_force tc) = 3
  /\ length (t_hess tc) = 9 /\ length (t_hess_symm tc) = 9.
Proof.
  split; [exact (traced_stress K Kr inj Hinj alpha beta G Gsym trace_table trace_matches_spec n ab tc Hab Htc Ha Hb)|].
  split; [exact (traced_force K Kr inj Hinj alpha beta G Gsym trace_table trace_matches_spec n ab tc Hab Htc Ha Hb)|].
  split; [exact (traced_hess K Kr inj Hinj alpha beta G Gsym trace_table trace_matches_spec n ab tc Hab Htc Ha Hb)|].
  split; [exact (traced_hess_symm K Kr inj Hinj alpha beta G Gsym trace_table trace_matches_spec n ab tc Hab Htc Ha Hb)|].
  exact (traced_shapes trace_table trace_matches_spec n ab tc Hab Htc).
Qed.
End T.
