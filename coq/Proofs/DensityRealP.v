(* Proofs/DensityRealP.v — the formal jets of C06 / C15 are REAL derivatives.

   Gauss/DensityJets.v, Gauss/Jets.v, Proofs/DensityP.v, Proofs/StressP.v reason about formal symbols
   G(o1,o2) = sum_ab P_ab phi^{o1}_a phi^{o2}_b where phi^o_a is an ARBITRARY family of numbers and the total
   derivative is DEFINED by the product rule.  Here the family is instantiated with honest derivatives over R
   (Coquelicot):   phi^o_a (x,y,z) := pd3 o (f a) x y z   (iterated partial derivatives, Gauss/Bridge3D.v)
   of functions f a : R^3 -> R all of whose mixed partials are differentiable ([smooth3]); the functions
   [bfun basis a] that the evaluation MODEL returns are such functions, and pd3 o (bfun basis a) is what the
   derivative MODEL returns (Proofs/SameFunRealP.closed_deriv_model).

     0. smooth3, smooth3_dfun, smooth3_bfun    every mixed partial of the model's basis functions is differentiable
     1. closed, closed_DF, pd3_closed          families H o1 o2 : R^3 -> R whose partial derivatives are given by the
        pd3_is_drho                            product rule; pd3 L (H 0 0) = DensityJets.eval (drho L), every order triple
     2. GR, rhoR, gammaR, GR_closed            G(o1,o2)(r) = sum_ab P_ab pd3 o1 f_a(r) pd3 o2 f_b(r):
                                               d/dr_k [r |-> G(o1,o2)(r)] = G(o1+e_k,o2)(r) + G(o1,o2+e_k)(r)   (is_derive)
        pd3_tower, pd3_rsum, GR_is_deriv_gamma G(o1,o2)(r) = d^o1_r d^o2_r' gamma(r,r') at r' = r
     3. density_real, leibniz_real, deriv_density_real (the l_x <= L_x/2 shortcut = pd3 L rho, symmetric P, EVERY L),
        grad_real / lap_real / hess_real       gradient / Laplacian / Hessian models = real gradient / Laplacian /
                                               Hessian of rho; schwarz_rho (symmetry of second partials) from hess_sym;
        hess_trace_real, ked_real, gked_real
     4. evR_dk                                 is_derive of the value of ANY combination of Gauss/Jets.v
        stress_formula_real, stress_sym_real, force_is_minus_div_stress_real, hessian_is_jacobian_of_force_real,
        hessian_symmetrised_real
     5. gram_psd, rho_nonneg_real, ked_nonneg_real   P = C C^T
     6. Gb, rhob, tplusb, gammab, jet_instance the instance f_a := bfun basis a (evaluation MODEL), phi = bdfun (derivative MODEL)
     7. ex_basis_sp, ex_P                      an s + p basis, rank-2 P: the hypotheses hold
   Nothing is partial: items 1-4 of the task are proved at full strength (all orders, all well-formed bases).
   Assumptions: the classical real numbers of the standard library (as in every Coquelicot development). *)
From Coq Require Import Reals Lra Lia List Arith QArith Qcanon Qreals.
From Coquelicot Require Import Coquelicot.
From GB Require Import Base.Field Base.FNum Base.Tables Model.Eval Model.Shell
  Gauss.Bridge3D Proofs.ScreeningP Proofs.SameFunP Proofs.SameFunRealP Proofs.CoreBlockP.
From GB Require Gauss.DensityJets Gauss.Jets Model.Stress Proofs.DensityP Proofs.StressP.
Import ListNotations.
Local Close Scope Qc_scope.
Local Close Scope Q_scope.
Open Scope R_scope.

Module DJ := Gauss.DensityJets.
Module DP := Proofs.DensityP.
Module SJ := Gauss.Jets.
Module ST := Model.Stress.
Module SP := Proofs.StressP.

Notation ord := DJ.ord.
Notation ord0 := DJ.ord0.
Notation bump := DJ.bump.
Notation eax := DJ.eax.
Notation rsum := DP.rsum.

(* ------------------------------------------------------------------ *)
(* 0. functions of three variables with differentiable mixed partials  *)
(* ------------------------------------------------------------------ *)
(* every mixed partial derivative pd3 o F is differentiable along each axis, with derivative pd3 (o+e_k) F *)
Definition smooth3 (F : R -> R -> R -> R) : Prop :=
  forall ox oy oz x y z,
    is_derive (fun t => pd3 ox oy oz F t y z) x (pd3 (S ox) oy oz F x y z)
    /\ is_derive (fun t => pd3 ox oy oz F x t z) y (pd3 ox (S oy) oz F x y z)
    /\ is_derive (fun t => pd3 ox oy oz F x y t) z (pd3 ox oy (S oz) F x y z).

Lemma smooth3_ext F H : (forall x y z, F x y z = H x y z) -> smooth3 F -> smooth3 H.
Proof.
  intros E Sm ox oy oz x y z. destruct (Sm ox oy oz x y z) as [Sx [Sy Sz]].
  rewrite <- !(pd3_ext _ _ _ F H _ _ _ E). split; [|split].
  - apply (is_derive_ext (fun t => pd3 ox oy oz F t y z)); [intro t; now apply pd3_ext|exact Sx].
  - apply (is_derive_ext (fun t => pd3 ox oy oz F x t z)); [intro t; now apply pd3_ext|exact Sy].
  - apply (is_derive_ext (fun t => pd3 ox oy oz F x y t)); [intro t; now apply pd3_ext|exact Sz].
Qed.

(* the honest function of a descriptor: finite weighted sum of Cartesian Gaussian primitives *)
Lemma pd3_dfun_prod (d : fdescR) ox oy oz x y z :
  pd3 ox oy oz (dfun d) x y z
  = fsumR (Tables.mk (length d) (fun k =>
      t_w (nth k d t0R)
      * (Derive_n (cg1 (t_a (nth k d t0R)) (t_x (nth k d t0R)) (CoreBlockP.cx (t_c (nth k d t0R)))) ox x
         * Derive_n (cg1 (t_a (nth k d t0R)) (t_y (nth k d t0R)) (CoreBlockP.cy (t_c (nth k d t0R)))) oy y
         * Derive_n (cg1 (t_a (nth k d t0R)) (t_z (nth k d t0R)) (CoreBlockP.cz (t_c (nth k d t0R)))) oz z))).
Proof.
  rewrite pd3_dfun, (fsumR_map_mk _ d t0R). apply fsumR_ext. intro k.
  unfold gfun. now rewrite pd3_cprim.
Qed.

Theorem smooth3_dfun (d : fdescR) : smooth3 (dfun d).
Proof.
  intros ox oy oz x y z.
  set (w := fun k => t_w (nth k d t0R)).
  set (gx := fun k => cg1 (t_a (nth k d t0R)) (t_x (nth k d t0R)) (CoreBlockP.cx (t_c (nth k d t0R)))).
  set (gy := fun k => cg1 (t_a (nth k d t0R)) (t_y (nth k d t0R)) (CoreBlockP.cy (t_c (nth k d t0R)))).
  set (gz := fun k => cg1 (t_a (nth k d t0R)) (t_z (nth k d t0R)) (CoreBlockP.cz (t_c (nth k d t0R)))).
  assert (E : forall ox oy oz x y z, pd3 ox oy oz (dfun d) x y z
            = fsumR (Tables.mk (length d) (fun k => w k *
                (Derive_n (gx k) ox x * Derive_n (gy k) oy y * Derive_n (gz k) oz z))))
    by (intros; apply pd3_dfun_prod).
  split; [|split].
  - apply (is_derive_ext (fun t => fsumR (Tables.mk (length d) (fun k =>
             (w k * (Derive_n (gy k) oy y * Derive_n (gz k) oz z)) * Derive_n (gx k) ox t)))).
    { intro t. rewrite E. apply fsumR_ext. intro k. ring. }
    rewrite E.
    replace (fsumR (Tables.mk (length d) (fun k => w k *
               (Derive_n (gx k) (S ox) x * Derive_n (gy k) oy y * Derive_n (gz k) oz z))))
      with (fsumR (Tables.mk (length d) (fun k =>
               (w k * (Derive_n (gy k) oy y * Derive_n (gz k) oz z)) * Derive_n (gx k) (S ox) x)))
      by (apply fsumR_ext; intro k; ring).
    apply (is_derive_fsum (length d) (fun k => w k * (Derive_n (gy k) oy y * Derive_n (gz k) oz z))
             (fun k t => Derive_n (gx k) ox t)).
    intro k. apply smooth_cg1.
  - apply (is_derive_ext (fun t => fsumR (Tables.mk (length d) (fun k =>
             (w k * (Derive_n (gx k) ox x * Derive_n (gz k) oz z)) * Derive_n (gy k) oy t)))).
    { intro t. rewrite E. apply fsumR_ext. intro k. ring. }
    rewrite E.
    replace (fsumR (Tables.mk (length d) (fun k => w k *
               (Derive_n (gx k) ox x * Derive_n (gy k) (S oy) y * Derive_n (gz k) oz z))))
      with (fsumR (Tables.mk (length d) (fun k =>
               (w k * (Derive_n (gx k) ox x * Derive_n (gz k) oz z)) * Derive_n (gy k) (S oy) y)))
      by (apply fsumR_ext; intro k; ring).
    apply (is_derive_fsum (length d) (fun k => w k * (Derive_n (gx k) ox x * Derive_n (gz k) oz z))
             (fun k t => Derive_n (gy k) oy t)).
    intro k. apply smooth_cg1.
  - apply (is_derive_ext (fun t => fsumR (Tables.mk (length d) (fun k =>
             (w k * (Derive_n (gx k) ox x * Derive_n (gy k) oy y)) * Derive_n (gz k) oz t)))).
    { intro t. rewrite E. apply fsumR_ext. intro k. ring. }
    rewrite E.
    replace (fsumR (Tables.mk (length d) (fun k => w k *
               (Derive_n (gx k) ox x * Derive_n (gy k) oy y * Derive_n (gz k) (S oz) z))))
      with (fsumR (Tables.mk (length d) (fun k =>
               (w k * (Derive_n (gx k) ox x * Derive_n (gy k) oy y)) * Derive_n (gz k) (S oz) z)))
      by (apply fsumR_ext; intro k; ring).
    apply (is_derive_fsum (length d) (fun k => w k * (Derive_n (gx k) ox x * Derive_n (gy k) oy y))
             (fun k t => Derive_n (gz k) oz t)).
    intro k. apply smooth_cg1.
Qed.

(* the functions the evaluation MODEL returns *)
Theorem smooth3_bfun (basis : list (shell R)) (I : nat) :
  List.Forall shell_wf basis -> (I < nfun basis)%nat -> smooth3 (bfun basis I).
Proof.
  intros W HI. apply (smooth3_ext (dfun (nth I (descr_basis RK basis) []))); [|apply smooth3_dfun].
  intros x y z. symmetry. now apply bfun_is_dfun.
Qed.

(* ------------------------------------------------------------------ *)
(* 1. families of functions closed under the product rule              *)
(* ------------------------------------------------------------------ *)
(* H a b : R^3 -> R, one function per symbol (a, b) *)
Definition fam := ord -> ord -> R -> R -> R -> R.
(* the values of the symbols at one point: an assignment in the sense of DensityJets.eval *)
Definition at_pt (H : fam) (x y z : R) : ord -> ord -> R := fun a b => H a b x y z.
(* the product rule on symbols, as an operation on families *)
Definition DF (k : nat) (H : fam) : fam :=
  fun a b x y z => H (bump k a) b x y z + H a (bump k b) x y z.
Fixpoint DFn (k n : nat) (H : fam) : fam :=
  match n with O => H | S n' => DFn k n' (DF k H) end.
(* the derivative of every member along every axis IS what the product rule says *)
Definition closed (H : fam) : Prop :=
  forall a b x y z,
    is_derive (fun t => H a b t y z) x (DF 0 H a b x y z)
    /\ is_derive (fun t => H a b x t z) y (DF 1 H a b x y z)
    /\ is_derive (fun t => H a b x y t) z (DF 2 H a b x y z).

Lemma DF_is_Dg k H x y z : at_pt (DF k H) x y z = DP.Dg RK k (at_pt H x y z).
Proof. reflexivity. Qed.
Lemma DFn_is_Dgn k n : forall H x y z, at_pt (DFn k n H) x y z = DP.Dgn RK k n (at_pt H x y z).
Proof. induction n as [|n IH]; intros H x y z; cbn [DFn DP.Dgn]; [reflexivity|]. now rewrite IH. Qed.

Lemma bump_comm k k' (o : ord) : bump k (bump k' o) = bump k' (bump k o).
Proof.
  destruct o as [[a b] c].
  destruct k as [|[|k]]; destruct k' as [|[|k']]; reflexivity.
Qed.

Lemma is_derive_eq (f : R -> R) (x l l' : R) : is_derive f x l -> l = l' -> is_derive f x l'.
Proof. intros D <-. exact D. Qed.

Lemma closed_DF k H : closed H -> closed (DF k H).
Proof.
  intros C a b x y z.
  destruct (C (bump k a) b x y z) as [X1 [Y1 Z1]]. destruct (C a (bump k b) x y z) as [X2 [Y2 Z2]].
  unfold DF in *. split; [|split].
  - rewrite (bump_comm k 0 a), (bump_comm k 0 b).
    refine (is_derive_eq _ _ _ _
      (is_derive_plus (fun t => H (bump k a) b t y z) (fun t => H a (bump k b) t y z) x _ _ X1 X2) _).
    unfold plus; cbn. ring.
  - rewrite (bump_comm k 1 a), (bump_comm k 1 b).
    refine (is_derive_eq _ _ _ _
      (is_derive_plus (fun t => H (bump k a) b x t z) (fun t => H a (bump k b) x t z) y _ _ Y1 Y2) _).
    unfold plus; cbn. ring.
  - rewrite (bump_comm k 2 a), (bump_comm k 2 b).
    refine (is_derive_eq _ _ _ _
      (is_derive_plus (fun t => H (bump k a) b x y t) (fun t => H a (bump k b) x y t) z _ _ Z1 Z2) _).
    unfold plus; cbn. ring.
Qed.
Lemma closed_DFn k n : forall H, closed H -> closed (DFn k n H).
Proof. induction n as [|n IH]; intros H C; cbn [DFn]; [exact C|]. apply IH. now apply closed_DF. Qed.

Lemma Derive_n_S_inner (f : R -> R) n x : Derive_n f (S n) x = Derive_n (Derive f) n x.
Proof. rewrite <- (Nat.add_1_r n), <- (Derive_n_comp f n 1 x). reflexivity. Qed.

(* n-fold derivative along one axis = n-fold product rule *)
Lemma Derive_n_z n : forall H, closed H -> forall a b x y z,
  Derive_n (fun t => H a b x y t) n z = DFn 2 n H a b x y z.
Proof.
  induction n as [|n IH]; intros H C a b x y z; [reflexivity|].
  rewrite Derive_n_S_inner. cbn [DFn]. rewrite <- (IH (DF 2 H) (closed_DF 2 H C)).
  apply Derive_n_ext. intro t. apply is_derive_unique. apply C.
Qed.
Lemma Derive_n_y n : forall H, closed H -> forall a b x y z,
  Derive_n (fun t => H a b x t z) n y = DFn 1 n H a b x y z.
Proof.
  induction n as [|n IH]; intros H C a b x y z; [reflexivity|].
  rewrite Derive_n_S_inner. cbn [DFn]. rewrite <- (IH (DF 1 H) (closed_DF 1 H C)).
  apply Derive_n_ext. intro t. apply is_derive_unique. apply C.
Qed.
Lemma Derive_n_x n : forall H, closed H -> forall a b x y z,
  Derive_n (fun t => H a b t y z) n x = DFn 0 n H a b x y z.
Proof.
  induction n as [|n IH]; intros H C a b x y z; [reflexivity|].
  rewrite Derive_n_S_inner. cbn [DFn]. rewrite <- (IH (DF 0 H) (closed_DF 0 H C)).
  apply Derive_n_ext. intro t. apply is_derive_unique. apply C.
Qed.

(* every mixed partial derivative of a member of a closed family is the iterated product rule *)
Theorem pd3_closed (H : fam) : closed H -> forall lx ly lz a b x y z,
  pd3 lx ly lz (H a b) x y z = DFn 0 lx (DFn 1 ly (DFn 2 lz H)) a b x y z.
Proof.
  intros C lx ly lz a b x y z. unfold pd3.
  rewrite <- (Derive_n_x lx _ (closed_DFn 1 ly _ (closed_DFn 2 lz H C))).
  apply Derive_n_ext. intro x'.
  rewrite <- (Derive_n_y ly _ (closed_DFn 2 lz H C)).
  apply Derive_n_ext. intro y'. now apply Derive_n_z.
Qed.

(* ... which is the value of the jet [drho L] of Gauss/DensityJets.v *)
Theorem pd3_is_drho (H : fam) : closed H -> forall lx ly lz x y z,
  pd3 lx ly lz (H ord0 ord0) x y z = DJ.eval RK (at_pt H x y z) (DJ.drho RK (lx, ly, lz)).
Proof.
  intros C lx ly lz x y z. rewrite pd3_closed by exact C.
  unfold DJ.drho, DJ.Dord. rewrite !(DP.eval_Dn RK RK_field).
  unfold DJ.G00. cbn [DJ.eval fst snd].
  change (DFn 0 lx (DFn 1 ly (DFn 2 lz H)) ord0 ord0 x y z)
    with (at_pt (DFn 0 lx (DFn 1 ly (DFn 2 lz H))) x y z ord0 ord0).
  rewrite !DFn_is_Dgn. change (fmul RK) with Rmult. change (fadd RK) with Rplus.
  change (f1 RK) with 1. change (f0 RK) with 0. ring.
Qed.

(* ------------------------------------------------------------------ *)
(* 2. the symbols of a density matrix, with REAL derivatives           *)
(* ------------------------------------------------------------------ *)
Lemma is_derive_rsum m (h : nat -> R -> R) (d : nat -> R) x :
  (forall i, (i < m)%nat -> is_derive (h i) x (d i)) ->
  is_derive (fun t => rsum m (fun i => h i t)) x (rsum m d).
Proof.
  induction m as [|m IH]; intro Hd; cbn [DP.rsum].
  - apply (is_derive_const (0 : R)).
  - apply (is_derive_plus (fun t => rsum m (fun i => h i t)) (fun t => h m t)).
    + apply IH. intros i Hi. apply Hd. lia.
    + apply Hd. lia.
Qed.

Lemma is_derive_bilin (c : R) (u v : R -> R) (x du dv : R) :
  is_derive u x du -> is_derive v x dv ->
  is_derive (fun t => c * u t * v t) x (c * du * v x + c * u x * dv).
Proof.
  intros Hu Hv.
  apply (is_derive_ext (fun t => scal c (mult (u t) (v t)))).
  { intro t. unfold scal, mult; cbn. unfold mult; cbn. ring. }
  refine (is_derive_eq _ _ _ _
            (is_derive_scal (fun t => mult (u t) (v t)) x c _ (is_derive_mult u v x du dv Hu Hv Rmult_comm)) _).
  unfold scal, mult, plus; cbn. unfold mult; cbn. ring.
Qed.

Section RealDensity.
Variable n : nat.                          (* number of basis functions *)
Variable P : nat -> nat -> R.              (* density matrix *)
Variable f : nat -> R -> R -> R -> R.      (* the basis functions, as functions on R^3 *)

(* phi^o_a at the point (x,y,z): the honest mixed partial derivative *)
Definition phiR (x y z : R) : ord -> nat -> R :=
  fun o a => pd3 (fst (fst o)) (snd (fst o)) (snd o) (f a) x y z.
(* G(o1,o2) as a function of the point *)
Definition GR : fam := fun o1 o2 x y z => DP.Gval n P (phiR x y z) o1 o2.
(* the electron density, as a function of the point *)
Definition rhoR (x y z : R) : R := rsum n (fun a => rsum n (fun b => P a b * f a x y z * f b x y z)).
(* the one-electron reduced density matrix gamma(r, r') *)
Definition gammaR (x y z x' y' z' : R) : R :=
  rsum n (fun a => rsum n (fun b => P a b * f a x y z * f b x' y' z')).

Lemma GR_00 x y z : GR ord0 ord0 x y z = rhoR x y z.
Proof. reflexivity. Qed.
Lemma GR_unfold o1 o2 x y z :
  GR o1 o2 x y z = rsum n (fun a => rsum n (fun b =>
     P a b * pd3 (fst (fst o1)) (snd (fst o1)) (snd o1) (f a) x y z
           * pd3 (fst (fst o2)) (snd (fst o2)) (snd o2) (f b) x y z)).
Proof. reflexivity. Qed.

Lemma GR_sym : (forall a b, P a b = P b a) -> forall o1 o2 x y z, GR o1 o2 x y z = GR o2 o1 x y z.
Proof. intros HP o1 o2 x y z. apply DP.Gval_sym. exact HP. Qed.

Hypothesis Hf : forall a, (a < n)%nat -> smooth3 (f a).

Lemma phiR_deriv o a x y z : (a < n)%nat ->
  is_derive (fun t => phiR t y z o a) x (phiR x y z (bump 0 o) a)
  /\ is_derive (fun t => phiR x t z o a) y (phiR x y z (bump 1 o) a)
  /\ is_derive (fun t => phiR x y t o a) z (phiR x y z (bump 2 o) a).
Proof. intro Ha. destruct o as [[ox oy] oz]. unfold phiR. cbn [bump fst snd]. apply (Hf a Ha). Qed.

(* item 1: the product rule that DEFINES the total derivative of the jets is the derivative *)
Theorem GR_closed : closed GR.
Proof.
  intros o1 o2 x y z. unfold DF, GR, DP.Gval. split; [|split].
  - refine (is_derive_eq _ _ _ _ (is_derive_rsum n
       (fun i t => rsum n (fun j => P i j * phiR t y z o1 i * phiR t y z o2 j))
       (fun i => rsum n (fun j => P i j * phiR x y z (bump 0 o1) i * phiR x y z o2 j
                                  + P i j * phiR x y z o1 i * phiR x y z (bump 0 o2) j)) x _) _).
    + intros i Hi. apply (is_derive_rsum n (fun j t => P i j * phiR t y z o1 i * phiR t y z o2 j)
         (fun j => P i j * phiR x y z (bump 0 o1) i * phiR x y z o2 j
                   + P i j * phiR x y z o1 i * phiR x y z (bump 0 o2) j)).
      intros j Hj. apply is_derive_bilin; [apply (phiR_deriv o1 i x y z Hi)|apply (phiR_deriv o2 j x y z Hj)].
    + rewrite <- DP.rsum_add. apply DP.rsum_ext. intros i _. apply DP.rsum_add.
  - refine (is_derive_eq _ _ _ _ (is_derive_rsum n
       (fun i t => rsum n (fun j => P i j * phiR x t z o1 i * phiR x t z o2 j))
       (fun i => rsum n (fun j => P i j * phiR x y z (bump 1 o1) i * phiR x y z o2 j
                                  + P i j * phiR x y z o1 i * phiR x y z (bump 1 o2) j)) y _) _).
    + intros i Hi. apply (is_derive_rsum n (fun j t => P i j * phiR x t z o1 i * phiR x t z o2 j)
         (fun j => P i j * phiR x y z (bump 1 o1) i * phiR x y z o2 j
                   + P i j * phiR x y z o1 i * phiR x y z (bump 1 o2) j)).
      intros j Hj. apply is_derive_bilin; [apply (phiR_deriv o1 i x y z Hi)|apply (phiR_deriv o2 j x y z Hj)].
    + rewrite <- DP.rsum_add. apply DP.rsum_ext. intros i _. apply DP.rsum_add.
  - refine (is_derive_eq _ _ _ _ (is_derive_rsum n
       (fun i t => rsum n (fun j => P i j * phiR x y t o1 i * phiR x y t o2 j))
       (fun i => rsum n (fun j => P i j * phiR x y z (bump 2 o1) i * phiR x y z o2 j
                                  + P i j * phiR x y z o1 i * phiR x y z (bump 2 o2) j)) z _) _).
    + intros i Hi. apply (is_derive_rsum n (fun j t => P i j * phiR x y t o1 i * phiR x y t o2 j)
         (fun j => P i j * phiR x y z (bump 2 o1) i * phiR x y z o2 j
                   + P i j * phiR x y z o1 i * phiR x y z (bump 2 o2) j)).
      intros j Hj. apply is_derive_bilin; [apply (phiR_deriv o1 i x y z Hi)|apply (phiR_deriv o2 j x y z Hj)].
    + rewrite <- DP.rsum_add. apply DP.rsum_ext. intros i _. apply DP.rsum_add.
Qed.
End RealDensity.

Lemma rsum_scal_l m c (h : nat -> R) : rsum m (fun i => c * h i) = c * rsum m h.
Proof. induction m as [|m IH]; cbn [DP.rsum]; [ring|]. rewrite IH. ring. Qed.
Lemma rsum_scal_r m c (h : nat -> R) : rsum m (fun i => h i * c) = rsum m h * c.
Proof. induction m as [|m IH]; cbn [DP.rsum]; [ring|]. rewrite IH. ring. Qed.

(* ------------------------------------------------------------------ *)
(* 2b. the symbols are the mixed derivatives of the reduced density matrix gamma(r, r') *)
(* ------------------------------------------------------------------ *)
(* a tower K(o) of functions, each differentiable along each axis to the next one: then K(o) = pd3 o K(0) *)
Lemma pd3_tower (K : nat -> nat -> nat -> R -> R -> R -> R) :
  (forall a b c x y z,
      is_derive (fun t => K a b c t y z) x (K (S a) b c x y z)
      /\ is_derive (fun t => K a b c x t z) y (K a (S b) c x y z)
      /\ is_derive (fun t => K a b c x y t) z (K a b (S c) x y z)) ->
  forall ox oy oz x y z, pd3 ox oy oz (K 0 0 0)%nat x y z = K ox oy oz x y z.
Proof.
  intro T.
  assert (Z : forall n a b c x y z, Derive_n (fun t => K a b c x y t) n z = K a b (n + c)%nat x y z).
  { induction n as [|n IH]; intros a b c x y z; [reflexivity|].
    rewrite Derive_n_S_inner. rewrite (Derive_n_ext _ (fun t => K a b (S c) x y t)).
    - rewrite IH. f_equal. lia.
    - intro t. apply is_derive_unique. apply T. }
  assert (Y : forall n a b c x y z, Derive_n (fun t => K a b c x t z) n y = K a (n + b)%nat c x y z).
  { induction n as [|n IH]; intros a b c x y z; [reflexivity|].
    rewrite Derive_n_S_inner. rewrite (Derive_n_ext _ (fun t => K a (S b) c x t z)).
    - rewrite IH. f_equal. lia.
    - intro t. apply is_derive_unique. apply T. }
  assert (X : forall n a b c x y z, Derive_n (fun t => K a b c t y z) n x = K (n + a)%nat b c x y z).
  { induction n as [|n IH]; intros a b c x y z; [reflexivity|].
    rewrite Derive_n_S_inner. rewrite (Derive_n_ext _ (fun t => K (S a) b c t y z)).
    - rewrite IH. f_equal. lia.
    - intro t. apply is_derive_unique. apply T. }
  intros ox oy oz x y z. unfold pd3.
  rewrite (Derive_n_ext _ (fun x' => K 0%nat oy oz x' y z)).
  - rewrite X. f_equal. lia.
  - intro x'. rewrite (Derive_n_ext _ (fun y' => K 0%nat 0%nat oz x' y' z)).
    + rewrite Y. f_equal. lia.
    + intro y'. rewrite Z. f_equal. lia.
Qed.

(* pd3 is linear over finite sums of functions with differentiable mixed partials *)
Lemma pd3_rsum m (c : nat -> R) (h : nat -> R -> R -> R -> R) :
  (forall i, (i < m)%nat -> smooth3 (h i)) ->
  forall ox oy oz x y z,
  pd3 ox oy oz (fun x y z => rsum m (fun i => c i * h i x y z)) x y z
  = rsum m (fun i => c i * pd3 ox oy oz (h i) x y z).
Proof.
  intros Hh ox oy oz x y z.
  apply (pd3_tower (fun a b c' x y z => rsum m (fun i => c i * pd3 a b c' (h i) x y z))).
  intros a b c' x' y' z'. split; [|split].
  - apply (is_derive_rsum m (fun i t => c i * pd3 a b c' (h i) t y' z')). intros i Hi.
    apply (is_derive_scal (fun t => pd3 a b c' (h i) t y' z') x' (c i)). apply (Hh i Hi).
  - apply (is_derive_rsum m (fun i t => c i * pd3 a b c' (h i) x' t z')). intros i Hi.
    apply (is_derive_scal (fun t => pd3 a b c' (h i) x' t z') y' (c i)). apply (Hh i Hi).
  - apply (is_derive_rsum m (fun i t => c i * pd3 a b c' (h i) x' y' t)). intros i Hi.
    apply (is_derive_scal (fun t => pd3 a b c' (h i) x' y' t) z' (c i)). apply (Hh i Hi).
Qed.

Section Gamma.
Variable n : nat.
Variable P : nat -> nat -> R.
Variable f : nat -> R -> R -> R -> R.
Hypothesis Hf : forall a, (a < n)%nat -> smooth3 (f a).

(* G(o1,o2)(r) = d^o1_r d^o2_r' gamma(r, r') at r' = r: what evaluate_deriv_reduced_density_matrix stands for *)
Theorem GR_is_deriv_gamma ox oy oz ox' oy' oz' x y z :
  GR n P f (ox, oy, oz) (ox', oy', oz') x y z
  = pd3 ox oy oz (fun x1 y1 z1 =>
      pd3 ox' oy' oz' (fun x2 y2 z2 => gammaR n P f x1 y1 z1 x2 y2 z2) x y z) x y z.
Proof.
  rewrite GR_unfold. cbn [fst snd].
  rewrite (pd3_ext ox oy oz _
     (fun x1 y1 z1 => rsum n (fun a =>
        rsum n (fun b => P a b * pd3 ox' oy' oz' (f b) x y z) * f a x1 y1 z1))).
  - rewrite (pd3_rsum n (fun a => rsum n (fun b => P a b * pd3 ox' oy' oz' (f b) x y z)) f Hf).
    apply DP.rsum_ext. intros a _. rewrite <- rsum_scal_r. apply DP.rsum_ext. intros b _. ring.
  - intros x1 y1 z1.
    rewrite (pd3_ext ox' oy' oz' _
       (fun x2 y2 z2 => rsum n (fun b => rsum n (fun a => P a b * f a x1 y1 z1) * f b x2 y2 z2))).
    + rewrite (pd3_rsum n (fun b => rsum n (fun a => P a b * f a x1 y1 z1)) f Hf).
      rewrite (DP.rsum_ext n _ (fun b => rsum n (fun a => P a b * pd3 ox' oy' oz' (f b) x y z * f a x1 y1 z1))).
      * rewrite DP.rsum_swap. apply DP.rsum_ext. intros a _.
        exact (rsum_scal_r n (f a x1 y1 z1) (fun b => P a b * pd3 ox' oy' oz' (f b) x y z)).
      * intros b _. rewrite <- rsum_scal_r. apply DP.rsum_ext. intros a _. ring.
    + intros x2 y2 z2. unfold gammaR. rewrite DP.rsum_swap. apply DP.rsum_ext. intros b _.
      rewrite <- rsum_scal_r. reflexivity.
Qed.
End Gamma.

(* ------------------------------------------------------------------ *)
(* 3. C06 over R: the jets of density.py are the real derivatives of rho *)
(* ------------------------------------------------------------------ *)
(* first partial derivative along axis k (any k >= 2 is z, as in [bump]) *)
Definition pdk (k : nat) (F : R -> R -> R -> R) (x y z : R) : R :=
  match k with
  | 0%nat => Derive (fun t => F t y z) x
  | 1%nat => Derive (fun t => F x t z) y
  | _ => Derive (fun t => F x y t) z
  end.

Lemma pdk_ext k F F' x y z : (forall x y z, F x y z = F' x y z) -> pdk k F x y z = pdk k F' x y z.
Proof. intro E. destruct k as [|[|k]]; cbn [pdk]; apply Derive_ext; intro t; apply E. Qed.

Lemma pdk_closed (H : fam) : closed H -> forall k a b x y z, pdk k (H a b) x y z = DF k H a b x y z.
Proof.
  intros C k a b x y z. destruct (C a b x y z) as [X [Y Z]].
  destruct k as [|[|k]]; cbn [pdk]; apply is_derive_unique; assumption.
Qed.

Lemma pdk_pd3 F x y z :
  pdk 0 F x y z = pd3 1 0 0 F x y z /\ pdk 1 F x y z = pd3 0 1 0 F x y z /\ pdk 2 F x y z = pd3 0 0 1 F x y z.
Proof. repeat split. Qed.

Lemma DJeval_ext (g g' : ord -> ord -> R) (j : DJ.jet R) :
  (forall a b, g a b = g' a b) -> DJ.eval RK g j = DJ.eval RK g' j.
Proof. intro E. induction j as [|t j IH]; cbn [DJ.eval]; [reflexivity|]. now rewrite IH, E. Qed.

(* second derivatives of the formal density, seen through eval *)
Lemma eval_drho2 (g : ord -> ord -> R) p q : (p < 3)%nat -> (q < 3)%nat ->
  DJ.eval RK g (DJ.drho RK (DJ.oplus (eax p) (eax q))) = DP.Dg RK p (DP.Dg RK q g) ord0 ord0.
Proof.
  intros Hp Hq.
  destruct p as [|[|[|p]]]; try lia; destruct q as [|[|[|q]]]; try lia;
    unfold DP.Dg; cbn; ring.
Qed.
Lemma eval_drho1 (g : ord -> ord -> R) k : (k < 3)%nat ->
  DJ.eval RK g (DJ.drho RK (eax k)) = DP.Dg RK k g ord0 ord0.
Proof. intros Hk. destruct k as [|[|[|k]]]; try lia; unfold DP.Dg; cbn; ring. Qed.

Section C06Real.
Variable n : nat.
Variable P : nat -> nat -> R.
Variable f : nat -> R -> R -> R -> R.
Hypothesis Hf : forall a, (a < n)%nat -> smooth3 (f a).
Notation G := (GR n P f).
Notation rho := (rhoR n P f).
Let Gc : closed G := GR_closed n P f Hf.

(* evaluate_density: the model IS rho(r) = sum_ab P_ab f_a(r) f_b(r) *)
Theorem density_real x y z : DJ.eval RK (at_pt G x y z) (DJ.density_model RK) = rho x y z.
Proof. unfold DJ.density_model, DJ.G00. cbn [DJ.eval fst snd]. unfold at_pt. rewrite GR_00.
  change (fmul RK) with Rmult. change (fadd RK) with Rplus. change (f1 RK) with 1. change (f0 RK) with 0. ring. Qed.

(* the L-th total derivative of the jets is the mixed partial derivative of the real density *)
Theorem pd3_rho_is_drho lx ly lz x y z :
  pd3 lx ly lz rho x y z = DJ.eval RK (at_pt G x y z) (DJ.drho RK (lx, ly, lz)).
Proof. exact (pd3_is_drho G Gc lx ly lz x y z). Qed.

(* the Leibniz sum of the docstring (any P) *)
Theorem leibniz_real lx ly lz x y z :
  DJ.eval RK (at_pt G x y z) (DJ.leibniz RK (lx, ly, lz)) = pd3 lx ly lz rho x y z.
Proof. rewrite pd3_rho_is_drho. apply (DP.leibniz_drho RK RK_field). Qed.

Hypothesis Psym : forall a b, P a b = P b a.
Let Gs x y z : forall a b, at_pt G x y z a b = at_pt G x y z b a :=
  fun a b => GR_sym n P f Psym a b x y z.

(* evaluate_deriv_density as written (l_x <= L_x/2 loop, factor 2/1): EVERY order triple *)
Theorem deriv_density_real lx ly lz x y z :
  DJ.eval RK (at_pt G x y z) (DJ.shortcut RK (lx, ly, lz)) = pd3 lx ly lz rho x y z.
Proof. rewrite pd3_rho_is_drho. apply (DP.shortcut_correct RK RK_field _ (Gs x y z)). Qed.

(* evaluate_density_gradient: component k is the derivative of rho along axis k *)
Theorem grad_real x y z :
  is_derive (fun t => rho t y z) x (DJ.eval RK (at_pt G x y z) (DJ.grad_model RK 0))
  /\ is_derive (fun t => rho x t z) y (DJ.eval RK (at_pt G x y z) (DJ.grad_model RK 1))
  /\ is_derive (fun t => rho x y t) z (DJ.eval RK (at_pt G x y z) (DJ.grad_model RK 2)).
Proof.
  destruct (Gc ord0 ord0 x y z) as [X [Y Z]].
  rewrite !(DP.grad_correct RK RK_field _ (Gs x y z)) by lia.
  rewrite !eval_drho1 by lia. split; [|split]; assumption.
Qed.
Corollary grad_real_pdk k x y z : (k < 3)%nat ->
  DJ.eval RK (at_pt G x y z) (DJ.grad_model RK k) = pdk k rho x y z.
Proof.
  intro Hk. destruct (grad_real x y z) as [X [Y Z]].
  destruct k as [|[|[|k]]]; try lia; cbn [pdk]; symmetry; apply is_derive_unique; assumption.
Qed.

(* evaluate_density_laplacian *)
Theorem lap_real x y z : DJ.eval RK (at_pt G x y z) (DJ.lap_model RK) = lap3 rho x y z.
Proof.
  rewrite (DP.lap_correct RK RK_field _ (Gs x y z)). unfold DJ.lap_def.
  rewrite !(DP.eval_app RK RK_field). unfold lap3. rewrite !pd3_rho_is_drho.
  change (fadd RK) with Rplus. cbn [bump eax ord0 DJ.bump DJ.eax DJ.ord0]. ring.
Qed.

(* evaluate_density_hessian: entry (p, q) is d/dr_p d/dr_q rho *)
Theorem hess_real p q x y z : (p < 3)%nat -> (q < 3)%nat ->
  DJ.eval RK (at_pt G x y z) (DJ.hess_model RK p q) = pdk p (pdk q rho) x y z.
Proof.
  intros Hp Hq. rewrite (DP.hess_correct RK RK_field _ (Gs x y z)) by assumption.
  rewrite eval_drho2 by assumption.
  rewrite (pdk_ext p (pdk q rho) (DF q G ord0 ord0)) by (intros x' y' z'; exact (pdk_closed G Gc q ord0 ord0 x' y' z')).
  rewrite (pdk_closed (DF q G) (closed_DF q G Gc)). reflexivity.
Qed.

(* symmetry of the second partial derivatives of rho (Schwarz), from hess_sym *)
Theorem schwarz_rho p q x y z : (p < 3)%nat -> (q < 3)%nat ->
  pdk p (pdk q rho) x y z = pdk q (pdk p rho) x y z.
Proof. intros Hp Hq. rewrite <- !hess_real by assumption. apply DP.hess_sym. Qed.

(* trace of the real Hessian = real Laplacian, through the models *)
Theorem hess_trace_real x y z :
  pdk 0 (pdk 0 rho) x y z + pdk 1 (pdk 1 rho) x y z + pdk 2 (pdk 2 rho) x y z = lap3 rho x y z.
Proof.
  rewrite <- lap_real, <- (DP.hess_trace_lap RK RK_field _ (Gs x y z)), !(DP.eval_app RK RK_field).
  rewrite !hess_real by lia. change (fadd RK) with Rplus. ring.
Qed.

(* positive-definite kinetic energy density t_+ = 1/2 sum_ab P_ab grad f_a . grad f_b *)
Definition tplusR (x y z : R) : R :=
  / 2 * (rsum n (fun a => rsum n (fun b => P a b * pdk 0 (f a) x y z * pdk 0 (f b) x y z))
         + rsum n (fun a => rsum n (fun b => P a b * pdk 1 (f a) x y z * pdk 1 (f b) x y z))
         + rsum n (fun a => rsum n (fun b => P a b * pdk 2 (f a) x y z * pdk 2 (f b) x y z))).

Theorem ked_real x y z : DJ.eval RK (at_pt G x y z) (DJ.ked_model RK) = tplusR x y z.
Proof.
  unfold DJ.ked_model. cbn [DJ.eval fst snd]. unfold at_pt, tplusR.
  change (G (eax 0) (eax 0) x y z) with (rsum n (fun a => rsum n (fun b => P a b * pdk 0 (f a) x y z * pdk 0 (f b) x y z))).
  change (G (eax 1) (eax 1) x y z) with (rsum n (fun a => rsum n (fun b => P a b * pdk 1 (f a) x y z * pdk 1 (f b) x y z))).
  change (G (eax 2) (eax 2) x y z) with (rsum n (fun a => rsum n (fun b => P a b * pdk 2 (f a) x y z * pdk 2 (f b) x y z))).
  unfold DJ.half, DJ.two. change (fmul RK) with Rmult. change (fadd RK) with Rplus. change (fdiv RK) with Rdiv.
  change (f1 RK) with 1. change (f0 RK) with 0. field.
Qed.

(* general kinetic energy density = t_+ + alpha * Laplacian(rho) *)
Theorem gked_real alpha x y z :
  DJ.eval RK (at_pt G x y z) (DJ.gked_model RK alpha) = tplusR x y z + alpha * lap3 rho x y z.
Proof.
  unfold DJ.gked_model. rewrite (DP.eval_app RK RK_field), (DP.eval_scale RK RK_field), ked_real, lap_real.
  reflexivity.
Qed.
End C06Real.

(* ------------------------------------------------------------------ *)
(* 4. C15 over R: combinations of Gauss/Jets.v, stress tensor, force, Hessian *)
(* ------------------------------------------------------------------ *)
Definition axn (k : SJ.axis) : nat := match k with SJ.AX => 0 | SJ.AY => 1 | SJ.AZ => 2 end%nat.
Lemma osucc_bump k (o : ord) : SJ.osucc k o = bump (axn k) o.
Proof. destruct k, o as [[a b] c]; reflexivity. Qed.

(* the rationals inside R *)
Definition injR (q : Qc) : R := Q2R (this q).
Lemma injR_qhom : SJ.is_qhom RK injR.
Proof.
  unfold SJ.is_qhom, injR. split; [|split].
  - cbn. unfold Q2R. cbn. field.
  - intros a b. cbn [fadd RK]. rewrite <- Q2R_plus. apply Qeq_eqR. exact (Qred_correct (this a + this b)).
  - intros a b. cbn [fmul RK]. rewrite <- Q2R_mult. apply Qeq_eqR. exact (Qred_correct (this a * this b)).
Qed.
Lemma injR_half : injR ST.qhalf = / 2.
Proof. unfold injR, ST.qhalf, Q2R. cbn. field. Qed.
Definition RKr : is_ring RK := F_R RK_field.

(* derivative of a function on R^3 along one axis *)
Definition is_pderiv (k : SJ.axis) (F : R -> R -> R -> R) (x y z d : R) : Prop :=
  match k with
  | SJ.AX => is_derive (fun t => F t y z) x d
  | SJ.AY => is_derive (fun t => F x t z) y d
  | SJ.AZ => is_derive (fun t => F x y t) z d
  end.
Lemma is_pderiv_eq k F x y z d d' : is_pderiv k F x y z d -> d = d' -> is_pderiv k F x y z d'.
Proof. intros D <-. exact D. Qed.
Lemma is_pderiv_pdk k F x y z d : is_pderiv k F x y z d -> pdk (axn k) F x y z = d.
Proof. destruct k; cbn [is_pderiv axn pdk]; apply is_derive_unique. Qed.

Section C15Real.
Variable H : fam.
Hypothesis Hc : closed H.
Variables alpha beta : R.

(* the value of a combination, as a function of the point *)
Definition evR (l : SJ.comb) (x y z : R) : R := SJ.eval RK injR alpha beta (at_pt H x y z) l.
Definition evqR (l : SJ.qcomb) (x y z : R) : R := SJ.evalq RK injR (at_pt H x y z) l.

(* the formal total derivative dk of ANY combination is its real partial derivative *)
Theorem evR_dk (l : SJ.comb) k x y z : is_pderiv k (evR l) x y z (evR (SJ.dk k l) x y z).
Proof.
  induction l as [|[c [a b]] r IH].
  - destruct k; cbn [is_pderiv]; apply (is_derive_const (0 : R)).
  - destruct (Hc a b x y z) as [X [Y Z]].
    assert (E : evR (SJ.dk k ((c, (a, b)) :: r)) x y z
                = SJ.cev RK injR alpha beta c * DF (axn k) H a b x y z + evR (SJ.dk k r) x y z).
    { unfold evR. cbn [SJ.dk flat_map SJ.dkey map app SJ.eval fst snd]. unfold SJ.kev. cbn [fst snd].
      rewrite !osucc_bump. unfold at_pt, DF.
      change (fmul RK) with Rmult. change (fadd RK) with Rplus. fold (SJ.dk k r). ring. }
    refine (is_pderiv_eq _ _ _ _ _ _ _ _ (eq_sym E)). clear E.
    destruct k; cbn [is_pderiv axn] in *.
    + apply (is_derive_plus (fun t => SJ.cev RK injR alpha beta c * H a b t y z) (fun t => evR r t y z));
        [|exact IH].
      apply (is_derive_scal (fun t => H a b t y z) x (SJ.cev RK injR alpha beta c)). exact X.
    + apply (is_derive_plus (fun t => SJ.cev RK injR alpha beta c * H a b x t z) (fun t => evR r x t z));
        [|exact IH].
      apply (is_derive_scal (fun t => H a b x t z) y (SJ.cev RK injR alpha beta c)). exact Y.
    + apply (is_derive_plus (fun t => SJ.cev RK injR alpha beta c * H a b x y t) (fun t => evR r x y t));
        [|exact IH].
      apply (is_derive_scal (fun t => H a b x y t) z (SJ.cev RK injR alpha beta c)). exact Z.
Qed.

Hypothesis Hs : forall a b x y z, H a b x y z = H b a x y z.
Let Gs x y z : forall a b : SJ.order, at_pt H x y z a b = at_pt H x y z b a := fun a b => Hs a b x y z.

(* the three quantities as functions of the point *)
Definition sigmaR (i j : SJ.axis) : R -> R -> R -> R := evR (ST.stress_doc i j).
Definition forceR (j : SJ.axis) : R -> R -> R -> R := evR (ST.force_doc j).
Definition ehessR (j k : SJ.axis) : R -> R -> R -> R := evR (ST.hess_doc j k).
Definition ehess_symR (j k : SJ.axis) : R -> R -> R -> R := evR (ST.hess_symm j k).

Theorem stress_sym_real i j x y z : sigmaR i j x y z = sigmaR j i x y z.
Proof. apply (SP.stress_sym RK RKr injR injR_qhom alpha beta _ (Gs x y z)). Qed.

(* F_j = - sum_i d/dr_i sigma_ij, the derivatives being real derivatives of the component functions *)
Theorem force_is_minus_div_stress_real j x y z :
  ex_derive (fun t => sigmaR SJ.AX j t y z) x
  /\ ex_derive (fun t => sigmaR SJ.AY j x t z) y
  /\ ex_derive (fun t => sigmaR SJ.AZ j x y t) z
  /\ forceR j x y z
     = - (Derive (fun t => sigmaR SJ.AX j t y z) x + Derive (fun t => sigmaR SJ.AY j x t z) y
          + Derive (fun t => sigmaR SJ.AZ j x y t) z).
Proof.
  pose proof (evR_dk (ST.stress_doc SJ.AX j) SJ.AX x y z) as DX.
  pose proof (evR_dk (ST.stress_doc SJ.AY j) SJ.AY x y z) as DY.
  pose proof (evR_dk (ST.stress_doc SJ.AZ j) SJ.AZ x y z) as DZ.
  cbn [is_pderiv] in DX, DY, DZ.
  split; [eexists; exact DX|]. split; [eexists; exact DY|]. split; [eexists; exact DZ|].
  transitivity (- (evR (SJ.dk SJ.AX (ST.stress_doc SJ.AX j)) x y z + evR (SJ.dk SJ.AY (ST.stress_doc SJ.AY j)) x y z
                   + evR (SJ.dk SJ.AZ (ST.stress_doc SJ.AZ j)) x y z)).
  - unfold forceR, evR. rewrite (SP.force_eq_def RK RKr injR injR_qhom alpha beta _ (Gs x y z)).
    unfold ST.force_def. rewrite (SJ.eval_lopp RK RKr injR injR_qhom), (SJ.eval_lsum RK RKr).
    cbn [SJ.axes fold_right]. change (fadd RK) with Rplus. change (fopp RK) with Ropp. change (f0 RK) with 0. ring.
  - f_equal. f_equal; [f_equal|]; symmetry; apply is_derive_unique; assumption.
Qed.

(* H_jk = d/dr_k F_j *)
Theorem hessian_is_jacobian_of_force_real j k x y z :
  is_pderiv k (forceR j) x y z (ehessR j k x y z).
Proof.
  unfold ehessR, evR. rewrite (SP.hess_eq_def RK RKr injR injR_qhom alpha beta _ (Gs x y z)).
  unfold ST.hess_def. apply (evR_dk (ST.force_doc j) k x y z).
Qed.

(* symmetric=True: half the sum of the Jacobian of the force and its transpose *)
Theorem hessian_symmetrised_real j k x y z :
  ehess_symR j k x y z = / 2 * (pdk (axn k) (forceR j) x y z + pdk (axn j) (forceR k) x y z)
  /\ ehess_symR j k x y z = ehess_symR k j x y z.
Proof.
  split.
  - unfold ehess_symR, evR. rewrite (SP.hessian_symmetrised RK RKr injR injR_qhom), injR_half.
    rewrite (is_pderiv_pdk _ _ _ _ _ _ (hessian_is_jacobian_of_force_real j k x y z)).
    rewrite (is_pderiv_pdk _ _ _ _ _ _ (hessian_is_jacobian_of_force_real k j x y z)). reflexivity.
  - apply (SP.hess_symm_sym RK RKr injR injR_qhom alpha beta _ (Gs x y z)).
Qed.
End C15Real.

(* the stress tensor in terms of the real density: sigma_ij(r) = -alpha G(e_i,e_j)(r) + (1-alpha) G(e_i+e_j,0)(r)
   - delta_ij beta/2 Laplacian(rho)(r), the Laplacian being that of the real function rho *)
Arguments injR : simpl never.
Section C15Density.
Variable n : nat.
Variable P : nat -> nat -> R.
Variable f : nat -> R -> R -> R -> R.
Hypothesis Hf : forall a, (a < n)%nat -> smooth3 (f a).
Hypothesis Psym : forall a b, P a b = P b a.
Variables alpha beta : R.
Notation G := (GR n P f).
Notation rho := (rhoR n P f).

Lemma evq_lap_rho x y z : evqR G ST.lap_rho x y z = lap3 rho x y z.
Proof.
  unfold lap3. rewrite !(pd3_rho_is_drho n P f Hf).
  unfold evqR, ST.lap_rho, SJ.lsum, SJ.axes, ST.rho, ST.sym.
  cbn [flat_map SJ.dkq SJ.dkey map app SJ.evalq fst snd SJ.osucc SJ.o0]. unfold SJ.kev. cbn [fst snd].
  rewrite (SJ.inj_1 RK injR injR_qhom).
  unfold DJ.drho, DJ.Dord, DJ.G00. cbn [DJ.Dn DJ.D flat_map app DJ.eval fst snd DJ.bump DJ.ord0].
  change (fmul RK) with Rmult. change (fadd RK) with Rplus. change (f1 RK) with 1. change (f0 RK) with 0. unfold SJ.o0, DJ.ord0. ring.
Qed.

Theorem stress_formula_real i j x y z :
  sigmaR G alpha beta i j x y z
  = - alpha * G (SJ.e_ i) (SJ.e_ j) x y z + (1 - alpha) * G (SJ.oadd (SJ.e_ i) (SJ.e_ j)) SJ.o0 x y z
    - (if ST.aeqb i j then / 2 * beta * lap3 rho x y z else 0).
Proof.
  unfold sigmaR, evR.
  rewrite (SP.stress_formula RK RKr injR injR_qhom alpha beta (at_pt G x y z)).
  fold (evqR G ST.lap_rho x y z). rewrite evq_lap_rho, injR_half. reflexivity.
Qed.
End C15Density.

(* ------------------------------------------------------------------ *)
(* 5. positivity over R for P = C C^T                                   *)
(* ------------------------------------------------------------------ *)

(* P = C C^T with r columns *)
Definition gram (r : nat) (C : nat -> nat -> R) : nat -> nat -> R :=
  fun a b => rsum r (fun m => C a m * C b m).

Lemma gram_sym r C a b : gram r C a b = gram r C b a.
Proof. unfold gram. apply DP.rsum_ext. intros m _. ring. Qed.

Lemma gram_psd n r C v : 0 <= DP.quad n (gram r C) v.
Proof.
  induction r as [|r IH].
  - unfold DP.quad, gram. cbn [DP.rsum].
    rewrite (DP.rsum_ext n _ (fun _ => 0)); [rewrite DP.rsum_0; lra|].
    intros a _. rewrite (DP.rsum_ext n _ (fun _ => 0)); [apply DP.rsum_0|]. intros b _. ring.
  - set (S := rsum n (fun a => C a r * v a)).
    assert (E : DP.quad n (gram (Datatypes.S r) C) v = DP.quad n (gram r C) v + S * S).
    { unfold DP.quad, gram. cbn [DP.rsum].
      unfold S at 1. rewrite <- rsum_scal_r, <- DP.rsum_add. apply DP.rsum_ext. intros a _.
      unfold S. rewrite <- rsum_scal_l, <- DP.rsum_add. apply DP.rsum_ext. intros b _. ring. }
    rewrite E. pose proof (Rle_0_sqr S) as H2. unfold Rsqr in H2. lra.
Qed.

Section Positivity.
Variable n r : nat.
Variable C : nat -> nat -> R.
Variable f : nat -> R -> R -> R -> R.

(* rho(r) >= 0 and t_+(r) >= 0 for a density matrix of the form C C^T *)
Theorem rho_nonneg_real x y z : 0 <= rhoR n (gram r C) f x y z.
Proof. exact (DP.density_nonneg n (gram r C) (phiR f x y z) (gram_psd n r C)). Qed.
Theorem ked_nonneg_real x y z : 0 <= tplusR n (gram r C) f x y z.
Proof. exact (DP.ked_nonneg n (gram r C) (phiR f x y z) (gram_psd n r C)). Qed.
End Positivity.

(* ------------------------------------------------------------------ *)
(* 6. the instance: the functions and derivatives the MODELS return     *)
(* ------------------------------------------------------------------ *)
(* symbols, density, kinetic energy density of a basis: f_a := bfun basis a, the number evaluate_basis_model
   returns for function a at the point; phi^o_a := pd3 o (bfun basis a), the number evaluate_deriv_basis_model
   returns (bdfun, jet_instance below) *)
Definition Gb (basis : list (shell R)) (P : nat -> nat -> R) : fam := GR (nfun basis) P (bfun basis).
Definition rhob (basis : list (shell R)) (P : nat -> nat -> R) : R -> R -> R -> R :=
  rhoR (nfun basis) P (bfun basis).
Definition tplusb (basis : list (shell R)) (P : nat -> nat -> R) : R -> R -> R -> R :=
  tplusR (nfun basis) P (bfun basis).
(* the one-electron reduced density matrix gamma(r, r') = sum_ab P_ab bfun_a(r) bfun_b(r') *)
Definition gammab (basis : list (shell R)) (P : nat -> nat -> R) : R -> R -> R -> R -> R -> R -> R :=
  gammaR (nfun basis) P (bfun basis).

Section Instance.
Variable basis : list (shell R).
Hypothesis W : List.Forall shell_wf basis.
Variable P : nat -> nat -> R.

Lemma Hfb : forall a, (a < nfun basis)%nat -> smooth3 (bfun basis a).
Proof. intros a Ha. now apply smooth3_bfun. Qed.

(* item 1: the jets instantiated with real derivatives.  (a) the numbers phi^o_a are what the derivative MODEL
   returns; (b) G(o1,o2)(r) is the double sum over the density matrix of these numbers; (c) the product rule
   that DEFINES the total derivative of a symbol is its real partial derivative along each axis *)
Theorem jet_instance :
  (forall ox oy oz a x y z, (a < nfun basis)%nat ->
     phiR (bfun basis) x y z (ox, oy, oz) a = bdfun basis (ox, oy, oz) a x y z)
  /\ (forall ox oy oz ox' oy' oz' x y z,
        Gb basis P (ox, oy, oz) (ox', oy', oz') x y z
        = rsum (nfun basis) (fun a => rsum (nfun basis) (fun b =>
            P a b * bdfun basis (ox, oy, oz) a x y z * bdfun basis (ox', oy', oz') b x y z)))
  /\ (forall o1 o2 x y z,
        is_derive (fun t => Gb basis P o1 o2 t y z) x
                  (Gb basis P (bump 0 o1) o2 x y z + Gb basis P o1 (bump 0 o2) x y z)
        /\ is_derive (fun t => Gb basis P o1 o2 x t z) y
                  (Gb basis P (bump 1 o1) o2 x y z + Gb basis P o1 (bump 1 o2) x y z)
        /\ is_derive (fun t => Gb basis P o1 o2 x y t) z
                  (Gb basis P (bump 2 o1) o2 x y z + Gb basis P o1 (bump 2 o2) x y z)).
Proof.
  split; [|split].
  - intros ox oy oz a x y z Ha. unfold phiR. cbn [fst snd]. symmetry. now apply closed_deriv_model.
  - intros ox oy oz ox' oy' oz' x y z. unfold Gb. rewrite GR_unfold. cbn [fst snd].
    apply DP.rsum_ext. intros a Ha. apply DP.rsum_ext. intros b Hb.
    now rewrite !closed_deriv_model.
  - exact (GR_closed (nfun basis) P (bfun basis) Hfb).
Qed.

Lemma Gb_is_deriv_gamma ox oy oz ox' oy' oz' x y z :
  Gb basis P (ox, oy, oz) (ox', oy', oz') x y z
  = pd3 ox oy oz (fun x1 y1 z1 =>
      pd3 ox' oy' oz' (fun x2 y2 z2 => gammab basis P x1 y1 z1 x2 y2 z2) x y z) x y z.
Proof. exact (GR_is_deriv_gamma (nfun basis) P (bfun basis) Hfb ox oy oz ox' oy' oz' x y z). Qed.

Lemma Gb_closed : closed (Gb basis P).
Proof. exact (GR_closed (nfun basis) P (bfun basis) Hfb). Qed.
End Instance.

(* ------------------------------------------------------------------ *)
(* 7. the hypotheses are satisfiable: an s shell and a p shell          *)
(* ------------------------------------------------------------------ *)
Definition ex_shell_s : shell R := mkShell R 0 0 0 0 [1] [[1]] false [] [].
Definition ex_basis_sp : list (shell R) := [ex_shell_s; ex_shell_p].
(* a rank-2 density matrix C C^T on the four functions *)
Definition ex_C (a m : nat) : R := match m with O => 1 | _ => INR a end.
Definition ex_P : nat -> nat -> R := gram 2 ex_C.

Example ex_sp_hypotheses :
  List.Forall shell_wf ex_basis_sp /\ nfun ex_basis_sp = 4%nat
  /\ (forall a b, ex_P a b = ex_P b a) /\ (forall v, 0 <= DP.quad 4 ex_P v).
Proof.
  split; [|split; [|split]].
  - constructor; [apply default_shell_wf; [reflexivity|cbn; lia|reflexivity]|].
    constructor; [apply default_shell_wf; [reflexivity|cbn; lia|reflexivity]|constructor].
  - unfold nfun, ex_basis_sp, descr_basis. cbn [map concat]. rewrite !app_length, !descr_length, !nrows_eq.
    reflexivity.
  - intros a b. apply gram_sym.
  - intro v. apply gram_psd.
Qed.

(* the theorems apply to it: e.g. the second derivative d^2/dxdz of the model's formula is that of the real density *)
Example ex_sp_deriv_density x y z :
  DJ.eval RK (at_pt (Gb ex_basis_sp ex_P) x y z) (DJ.shortcut RK (1, 0, 1)%nat)
  = pd3 1 0 1 (rhob ex_basis_sp ex_P) x y z
  /\ 0 <= rhob ex_basis_sp ex_P x y z.
Proof.
  destruct ex_sp_hypotheses as [W [N [Ps _]]]. split.
  - apply (deriv_density_real (nfun ex_basis_sp) ex_P (bfun ex_basis_sp) (Hfb ex_basis_sp W) Ps).
  - apply rho_nonneg_real.
Qed.
