(* Proofs/EspP.v — lemmas about Model/Esp.v (electrostatic_potential).

   Part 1 (any field): finite-sum toolkit; the value returned at a point is the masked nuclear sum
     minus the density-weighted sum of the point-charge-integral model's entries ([esp_formula]);
     the integrals used are exactly point_charge_integral with unit negative charges and the
     caller's transform; linearity in the density matrix and in the charges; the mask does not look
     at the charge; the transformed path equals the untransformed one with the density matrix
     transformed back, T^T P T, for any rectangular T ([transform_is_backtransformed_P]).
   Part 2 (the reals, real sqrt): a nucleus is dropped iff its Euclidean distance is below the
     threshold, whatever its charge ([mask_iff_distance_R]); threshold 0 drops nothing; a threshold
     beyond every distance drops everything; the pinned tree's rule (Z/d against 1/threshold) is
     shown to differ on a concrete instance.
   Part 3 (the executable instance Qc with an oracle square root): the same mask statement under
     the hypothesis that the oracle value is the exact non-negative root (true for the Pythagorean
     geometries the correspondence harness uses for its on-the-boundary thresholds). *)
From Coq Require Import List Arith Lia Bool Field.
From GB Require Import Base.Field Base.FNum Base.Tables Model.Shell Model.MomentInt Model.Spherical
  Model.Assembly Model.Overlap Model.OneElec Model.OneBody Model.Esp.
Import ListNotations.

Section P.
Context {F : Type} (K : Fops F) (Kf : is_field K).
Add Field KF_esp : Kf.
Local Open Scope F_scope.
Notation "0" := (f0 K) : F_scope.
Notation "1" := (f1 K) : F_scope.
Infix "+" := (fadd K) : F_scope.
Infix "*" := (fmul K) : F_scope.
Infix "-" := (fsub K) : F_scope.
Infix "/" := (fdiv K) : F_scope.
Notation "- x" := (fopp K x) : F_scope.
Notation fsum := (FNum.fsum K).
Notation sumn := (Tables.sumn 0 (fadd K)).

(* ------------------------------------------------------------------ *)
(* finite sums                                                          *)
(* ------------------------------------------------------------------ *)
Lemma sumn_add n f g : sumn n (fun k => f k + g k) = sumn n f + sumn n g.
Proof. induction n as [|n IH]; cbn [Tables.sumn]; [ring|]. rewrite IH. ring. Qed.

Lemma sumn_scale n c f : sumn n (fun k => c * f k) = c * sumn n f.
Proof. induction n as [|n IH]; cbn [Tables.sumn]; [ring|]. rewrite IH. ring. Qed.

Lemma sumn_scale_r n c f : sumn n (fun k => f k * c) = sumn n f * c.
Proof. induction n as [|n IH]; cbn [Tables.sumn]; [ring|]. rewrite IH. ring. Qed.

Lemma sumn_zero n f : (forall k, (k < n)%nat -> f k = 0) -> sumn n f = 0.
Proof.
  induction n as [|n IH]; intros H; cbn [Tables.sumn]; [reflexivity|].
  rewrite IH by (intros; apply H; lia). rewrite H by lia. ring.
Qed.

Lemma sumn_ext' n f g : (forall i, (i < n)%nat -> f i = g i) -> sumn n f = sumn n g.
Proof. apply Tables.sumn_ext. Qed.

Lemma sumn_swap n m (f : nat -> nat -> F) :
  sumn n (fun i => sumn m (fun j => f i j)) = sumn m (fun j => sumn n (fun i => f i j)).
Proof.
  induction n as [|n IH]; cbn [Tables.sumn].
  - symmetry. now apply sumn_zero.
  - rewrite IH. now rewrite <- sumn_add.
Qed.

Lemma sumn_shift n g : sumn (S n) g = g 0%nat + sumn n (fun k => g (S k)).
Proof.
  induction n as [|n IH].
  - cbn [Tables.sumn]. ring.
  - change (sumn (S (S n)) g) with (sumn (S n) g + g (S n)). rewrite IH.
    cbn [Tables.sumn]. ring.
Qed.

Lemma fsum_as_sumn (l : list F) : fsum l = sumn (length l) (fun k => nth k l 0).
Proof.
  induction l as [|x l IH]; [reflexivity|].
  cbn [length]. rewrite sumn_shift. cbn [nth FNum.fsum fold_right]. unfold FNum.fsum in IH.
  now rewrite IH.
Qed.

Lemma combine_nth_lt {A B} (xs : list A) (ys : list B) k da db :
  (k < Nat.min (length xs) (length ys))%nat ->
  nth k (combine xs ys) (da, db) = (nth k xs da, nth k ys db).
Proof.
  revert ys k. induction xs as [|x xs IH]; intros [|y ys] k Hk; cbn [length] in Hk; try lia.
  destruct k as [|k]; cbn [combine nth]; [reflexivity|]. apply IH. cbn [Nat.min] in Hk. lia.
Qed.

Lemma nth_map_lt {A B} (f : A -> B) (l : list A) da db k :
  (k < length l)%nat -> nth k (map f l) db = f (nth k l da).
Proof.
  intros Hk. rewrite (nth_indep _ db (f da)) by (now rewrite map_length). apply map_nth.
Qed.

(* sum over a zipped pair of lists = indexed sum up to the shorter length *)
Lemma fsum_combine {A B} (f : A * B -> F) (xs : list A) (ys : list B) da db :
  fsum (map f (combine xs ys))
  = sumn (Nat.min (length xs) (length ys)) (fun k => f (nth k xs da, nth k ys db)).
Proof.
  rewrite fsum_as_sumn, map_length, combine_length. apply sumn_ext'. intros k Hk.
  rewrite (nth_indep _ 0 (f (da, db))) by (now rewrite map_length, combine_length).
  rewrite map_nth. now rewrite combine_nth_lt.
Qed.

(* ------------------------------------------------------------------ *)
(* the integrals used                                                   *)
(* ------------------------------------------------------------------ *)
(* :150-152  the array multiplied with the density matrix IS the model of
   point_charge_integral(basis, points, -ones, transform=transform) *)
Lemma hartree_ints_is_point_charge_integral basis points T :
  transformed_ints K (point_charge_integral K (unit_neg_points K points) basis None) T
  = point_charge_integral K (unit_neg_points K points) basis T.
Proof. destruct T; reflexivity. Qed.

(* with the unit NEGATIVE charges of :151 every block entry is PLUS the one-electron Coulomb
   integral of the shell pair at that point (point_charge.py multiplies by -q) *)
Lemma unit_neg_block_entry points sa sb ma ia mb ib p :
  (ma < nseg sa)%nat -> (ia < length (comps_of sa))%nat ->
  (mb < nseg sb)%nat -> (ib < length (comps_of sb))%nat -> (p < length points)%nat ->
  nth p (nth ib (nth mb (nth ia (nth ma
      (point_charge_block K (unit_neg_points K points) sa sb) []) []) []) []) 0
  = let R := nth p points (0, 0, 0) in
    if Nat.ltb (s_l sa) (s_l sb)
    then (nth ia (nth ma (nth ib (nth mb
           (one_elec_point K (fst (fst R)) (snd (fst R)) (snd R) sb sa) []) []) []) 0)
    else (nth ib (nth mb (nth ia (nth ma
           (one_elec_point K (fst (fst R)) (snd (fst R)) (snd R) sa sb) []) []) []) 0).
Proof.
  intros Hma Hia Hmb Hib Hp. unfold point_charge_block.
  rewrite nth_mk by assumption. rewrite nth_mk by assumption.
  rewrite nth_mk by assumption. rewrite nth_mk by assumption.
  unfold unit_neg_points. rewrite !map_map.
  rewrite (nth_map_lt _ points (0, 0, 0) 0 p Hp).
  destruct (Nat.ltb (s_l sa) (s_l sb)); ring.
Qed.

(* ------------------------------------------------------------------ *)
(* the nuclear term                                                     *)
(* ------------------------------------------------------------------ *)
(* the contribution of nucleus A at a point R: the mask looks at the distance only *)
Definition nuc_contrib (thr : F) (R : pt3) (n : pt3) (Z : F) : F :=
  if masked K thr R n then 0 else Z / dist K R n.

Lemma nuc_term_charge_free thr R n Z :
  nuc_term K thr R (n, Z) = if masked K thr R n then 0 else Z / dist K R n.
Proof. reflexivity. Qed.

Lemma nuc_term_masked thr R n : masked K thr R n = true -> forall Z, nuc_term K thr R (n, Z) = 0.
Proof. intros H Z. unfold nuc_term. cbn [fst snd]. now rewrite H. Qed.

Lemma nuc_term_kept thr R n :
  masked K thr R n = false -> forall Z, nuc_term K thr R (n, Z) = Z / dist K R n.
Proof. intros H Z. unfold nuc_term. cbn [fst snd]. now rewrite H. Qed.

Definition nuclear_sum (thr : F) (ncoords : list pt3) (ncharges : list F) (R : pt3) : F :=
  sumn (Nat.min (length ncoords) (length ncharges))
       (fun A => nuc_contrib thr R (nth A ncoords (0, 0, 0)) (nth A ncharges 0)).

Lemma external_is_minus_nuclear_sum thr ncoords ncharges R :
  external K thr (combine ncoords ncharges) R = - nuclear_sum thr ncoords ncharges R.
Proof.
  unfold external, nuclear_sum. f_equal.
  now rewrite (fsum_combine (nuc_term K thr R) ncoords ncharges (0, 0, 0) 0).
Qed.

(* ------------------------------------------------------------------ *)
(* esp_formula                                                          *)
(* ------------------------------------------------------------------ *)
Definition electronic_sum (H : list (list (list F))) (P : list (list F)) (p : nat) : F :=
  sumn (length P) (fun a => sumn (length P) (fun b => nth b (nth a P []) 0 * getH K H a b p)).

Lemma hartree_is_electronic_sum H P p : hartree K H P p = electronic_sum H P p.
Proof.
  unfold hartree, electronic_sum. apply sumn_ext'. intros a _. apply sumn_ext'. intros b _. ring.
Qed.

Lemma esp_values_entry H P points nuclei_c nuclei_z thr p :
  (p < length points)%nat ->
  nth p (esp_values K H P points (combine nuclei_c nuclei_z) thr) 0
  = nuclear_sum thr nuclei_c nuclei_z (nth p points (0, 0, 0)) - electronic_sum H P p.
Proof.
  intros Hp. unfold esp_values. rewrite nth_mk by assumption.
  rewrite external_is_minus_nuclear_sum, hartree_is_electronic_sum. ring.
Qed.

Lemma esp_with_formula V nf P points ncoords ncharges T thr v :
  esp_with K V nf P points ncoords ncharges T thr = Some v ->
  length v = length points /\
  forall p, (p < length points)%nat ->
    nth p v 0
    = nuclear_sum thr ncoords ncharges (nth p points (0, 0, 0))
      - electronic_sum (transformed_ints K V T) P p.
Proof.
  unfold esp_with. intros E.
  destruct (_ && _) in E; [|discriminate]. injection E as <-. split.
  - unfold esp_values. apply mk_length.
  - intros p Hp. now apply esp_values_entry.
Qed.

(* whenever the call is accepted, the value at every point is the masked nuclear sum minus the
   density-weighted sum of the entries of point_charge_integral(basis, points, -1, transform) *)
Lemma esp_formula basis P points ncoords ncharges T thr v :
  esp K basis P points ncoords ncharges T thr = Some v ->
  length v = length points /\
  forall p, (p < length points)%nat ->
    nth p v 0
    = nuclear_sum thr ncoords ncharges (nth p points (0, 0, 0))
      - electronic_sum (point_charge_integral K (unit_neg_points K points) basis T) P p.
Proof.
  unfold esp. intros E. apply esp_with_formula in E.
  now rewrite hartree_ints_is_point_charge_integral in E.
Qed.

(* what is accepted: exactly the documented conditions *)
Lemma esp_accepts basis P points ncoords ncharges T thr :
  (exists v, esp K basis P points ncoords ncharges T thr = Some v) <->
  square_symmetric K P = true /\ length ncoords = length ncharges /\ fltb K thr 0 = false
  /\ size_ok (nfun_basis basis) P T = true.
Proof.
  unfold esp, esp_with. split.
  - intros [v E]. destruct (square_symmetric K P); [|discriminate].
    destruct (Nat.eqb_spec (length ncoords) (length ncharges)); [|discriminate].
    destruct (fltb K thr 0); [discriminate|].
    destruct (size_ok _ P T); [|discriminate]. auto.
  - intros (H1 & H2 & H3 & H4). rewrite H1, H2, Nat.eqb_refl, H3, H4. cbn. eauto.
Qed.

(* the size rule: with a transform the density matrix is compared with the number of ROWS of the
   transform (any number: rectangular transforms pass), never with the untransformed basis *)
Lemma size_ok_transform nf (P : list (list F)) (t : list (list F)) :
  size_ok nf P (Some t) = true <->
  length t = length P /\ Forall (fun row => length row = nf) t.
Proof.
  unfold size_ok. rewrite andb_true_iff, Nat.eqb_eq, forallb_forall, Forall_forall.
  split; intros [A B]; split; auto; intros r Hr; specialize (B r Hr); now apply Nat.eqb_eq.
Qed.
Lemma size_ok_plain nf (P : list (list F)) : size_ok nf P None = true <-> nf = length P.
Proof. unfold size_ok. apply Nat.eqb_eq. Qed.

(* ------------------------------------------------------------------ *)
(* linearity in the density matrix and in the charges                   *)
(* ------------------------------------------------------------------ *)
Definition mcomb (n : nat) (c1 : F) (P1 : list (list F)) (c2 : F) (P2 : list (list F)) :=
  mk n (fun a => mk n (fun b => c1 * nth b (nth a P1 []) 0 + c2 * nth b (nth a P2 []) 0)).
Definition zcomb (n : nat) (c1 : F) (Z1 : list F) (c2 : F) (Z2 : list F) :=
  mk n (fun A => c1 * nth A Z1 0 + c2 * nth A Z2 0).

Lemma electronic_sum_linear H c1 P1 c2 P2 p :
  length P1 = length P2 ->
  electronic_sum H (mcomb (length P1) c1 P1 c2 P2) p
  = c1 * electronic_sum H P1 p + c2 * electronic_sum H P2 p.
Proof.
  intros E. unfold electronic_sum. rewrite <- E. unfold mcomb at 1 2. rewrite mk_length.
  rewrite <- !sumn_scale, <- sumn_add. apply sumn_ext'. intros a Ha.
  rewrite <- !sumn_scale, <- sumn_add. apply sumn_ext'. intros b Hb.
  unfold mcomb. rewrite nth_mk by assumption. rewrite nth_mk by assumption. ring.
Qed.

Lemma div_def x y : x / y = x * finv K y.
Proof. apply (Fdiv_def Kf). Qed.

Lemma nuc_contrib_linear thr R n c1 z1 c2 z2 :
  nuc_contrib thr R n (c1 * z1 + c2 * z2)
  = c1 * nuc_contrib thr R n z1 + c2 * nuc_contrib thr R n z2.
Proof. unfold nuc_contrib. destruct (masked K thr R n); [ring|]. rewrite !div_def. ring. Qed.

Lemma nuclear_sum_linear thr ncoords c1 Z1 c2 Z2 R :
  length Z1 = length Z2 ->
  nuclear_sum thr ncoords (zcomb (length Z1) c1 Z1 c2 Z2) R
  = c1 * nuclear_sum thr ncoords Z1 R + c2 * nuclear_sum thr ncoords Z2 R.
Proof.
  intros E. unfold nuclear_sum. rewrite <- E. unfold zcomb at 1. rewrite mk_length.
  rewrite <- !sumn_scale, <- sumn_add. apply sumn_ext'. intros A HA.
  unfold zcomb. rewrite nth_mk by lia. apply nuc_contrib_linear.
Qed.

(* the returned values are linear in (density matrix, charges) jointly, hence in each *)
Lemma esp_values_linear H points ncoords thr c1 P1 Z1 c2 P2 Z2 p :
  length P1 = length P2 -> length Z1 = length Z2 -> (p < length points)%nat ->
  nth p (esp_values K H (mcomb (length P1) c1 P1 c2 P2) points
           (combine ncoords (zcomb (length Z1) c1 Z1 c2 Z2)) thr) 0
  = c1 * nth p (esp_values K H P1 points (combine ncoords Z1) thr) 0
    + c2 * nth p (esp_values K H P2 points (combine ncoords Z2) thr) 0.
Proof.
  intros EP EZ Hp. rewrite !esp_values_entry by assumption.
  rewrite electronic_sum_linear, nuclear_sum_linear by assumption. ring.
Qed.

(* ------------------------------------------------------------------ *)
(* vectors over the points axis: projections                            *)
(* ------------------------------------------------------------------ *)
Definition Pv (np : nat) (v : list F) : Prop := v = [] \/ length v = np.
Definition proj (p : nat) (v : list F) : F := nth p v 0.

Lemma Pv_zero np : Pv np (vzero (F:=F)).
Proof. now left. Qed.

Lemma Pv_vscale np t x : Pv np x -> Pv np (vscale K t x).
Proof. intros [->|H]; [now left|right]. unfold vscale. now rewrite map_length. Qed.

Lemma proj_vscale p t x : proj p (vscale K t x) = t * proj p x.
Proof.
  unfold proj, vscale. destruct (Nat.lt_ge_cases p (length x)) as [H|H].
  - now rewrite (nth_map_lt _ x 0 0 p H).
  - rewrite !nth_overflow by (rewrite ?map_length; lia). ring.
Qed.

Lemma vadd_spec np p x y : Pv np x -> Pv np y ->
  Pv np (vadd K x y) /\ proj p (vadd K x y) = proj p x + proj p y.
Proof.
  intros Hx Hy. unfold vadd, proj.
  destruct x as [|x0 x]; [split; [exact Hy|cbn [nth]; destruct p; ring]|].
  destruct y as [|y0 y]; [split; [exact Hx|cbn [nth]; destruct p; ring]|].
  destruct Hx as [Hx|Hx]; [discriminate|]. destruct Hy as [Hy|Hy]; [discriminate|].
  split.
  - right. rewrite map_length, combine_length. lia.
  - set (X := x0 :: x) in *. set (Y := y0 :: y) in *.
    destruct (Nat.lt_ge_cases p np) as [H|H].
    + rewrite (nth_map_lt _ (combine X Y) (0, 0) 0 p) by (rewrite combine_length; lia).
      rewrite combine_nth_lt by lia. reflexivity.
    + rewrite !nth_overflow by (rewrite ?map_length, ?combine_length; lia). ring.
Qed.

Section ASum.
Variables (np p : nat).
Notation asumv := (asum (vzero (F:=F)) (vadd K)).
Lemma asum_spec (l : list (list F)) : Forall (Pv np) l ->
  Pv np (asumv l) /\ proj p (asumv l) = fsum (map (proj p) l).
Proof.
  induction 1 as [|x l Hx Hl [IH1 IH2]]; cbn [asum fold_right map FNum.fsum].
  - split; [apply Pv_zero|]. unfold proj, vzero. now destruct p.
  - destruct (vadd_spec np p x (asumv l) Hx IH1) as [A B]. split; [exact A|].
    unfold asum in B, IH2. rewrite B, IH2. reflexivity.
Qed.

(* a scaled combination  sum_k t_k * x_k  of vectors, seen at one point *)
Definition scomb (t : list F) (xs : list (list F)) : list F :=
  asumv (map (fun '(t0, x) => vscale K t0 x) (combine t xs)).

Lemma scomb_spec t xs : Forall (Pv np) xs ->
  Pv np (scomb t xs) /\
  proj p (scomb t xs)
  = sumn (Nat.min (length t) (length xs)) (fun k => nth k t 0 * proj p (nth k xs [])).
Proof.
  intros Hxs. unfold scomb.
  assert (HF : Forall (Pv np) (map (fun '(t0, x) => vscale K t0 x) (combine t xs))).
  { apply Forall_forall. intros v Hv. apply in_map_iff in Hv. destruct Hv as [[t0 x0] [<- Hin]].
    apply Pv_vscale. apply in_combine_r in Hin. rewrite Forall_forall in Hxs. now apply Hxs. }
  destruct (asum_spec _ HF) as [A B]. split; [exact A|]. rewrite B, map_map.
  rewrite (fsum_combine (fun tx : F * list F => proj p (let '(t0, x) := tx in vscale K t0 x)) t xs 0 []).
  apply sumn_ext'. intros k _. apply proj_vscale.
Qed.
End ASum.

(* ------------------------------------------------------------------ *)
(* entries of the transformed array (Assembly.lincomb2 on vectors)      *)
(* ------------------------------------------------------------------ *)
Notation transposev := (transpose (vzero (F:=F))).
Notation apply_rowsv := (apply_rows (vzero (F:=F)) (vadd K) (vscale K)).
Notation lincomb2v := (lincomb2 (vzero (F:=F)) (vadd K) (vscale K)).

Lemma apply_rows_is_scomb T v : apply_rowsv T v = map (fun trow => scomb trow v) T.
Proof. reflexivity. Qed.

Lemma apply_rows_entry T v i : nth i (apply_rowsv T v) vzero = scomb (nth i T []) v.
Proof. rewrite apply_rows_is_scomb. exact (map_nth (fun trow => scomb trow v) T [] i). Qed.

Lemma transpose_length {B} (d : B) m : length (transpose d m) = length (hd [] m).
Proof. unfold transpose. apply mk_length. Qed.

Lemma nth_transpose {B} (d : B) m c : (c < length (hd [] m))%nat ->
  nth c (transpose d m) [] = map (fun row => nth c row d) m.
Proof. intros H. unfold transpose. now rewrite nth_mk. Qed.

Definition vec_ok (np : nat) (V : list (list (list F))) : Prop := Forall (Forall (Pv np)) V.

Lemma vec_ok_entry np V k l : vec_ok np V -> Pv np (nth l (nth k V []) []).
Proof.
  intros H. destruct (nth_in_or_default k V []) as [Hin| ->]; [|destruct l; now left].
  unfold vec_ok in H. rewrite Forall_forall in H. specialize (H _ Hin).
  destruct (nth_in_or_default l (nth k V []) []) as [Hin2| ->]; [|now left].
  rewrite Forall_forall in H. now apply H.
Qed.

(* entry (i, j) of  T1 V T2^T  at point p, as a double sum *)
Lemma lincomb2_entry np V T1 T2 i j p : vec_ok np V -> (i < length T1)%nat ->
  getH K (lincomb2v T1 T2 V) i j p
  = sumn (Nat.min (length (nth j T2 [])) (length (hd [] V))) (fun l => nth l (nth j T2 []) 0 *
      sumn (Nat.min (length (nth i T1 [])) (length V)) (fun k => nth k (nth i T1 []) 0 * getH K V k l p)).
Proof.
  intros HV Hi. unfold getH, lincomb2.
  set (cols := transposev V).
  set (X := map (apply_rowsv T1) cols).
  destruct (Nat.eq_dec (length (hd [] V)) 0) as [E0|E0].
  { (* no columns: the transformed array is empty, and so is the sum *)
    assert (Ec : cols = []) by (apply length_zero_iff_nil; unfold cols; now rewrite transpose_length).
    subst X. rewrite Ec, E0, Nat.min_0_r. cbn [map transpose hd length mk seq nth Tables.sumn].
    now destruct i, j, p. }
  assert (Hcols : length cols = length (hd [] V)) by (unfold cols; apply transpose_length).
  assert (HX : length (hd [] X) = length T1).
  { unfold X. destruct cols as [|c0 cr]; [cbn [length] in Hcols; lia|].
    cbn [map hd]. rewrite apply_rows_is_scomb. apply map_length. }
  rewrite (nth_map_lt (apply_rowsv T2) _ [] [] i) by (rewrite transpose_length, HX; exact Hi).
  change (nth p (nth j (apply_rowsv T2 (nth i (transposev X) [])) []) 0)
    with (proj p (nth j (apply_rowsv T2 (nth i (transposev X) [])) vzero)).
  rewrite apply_rows_entry.
  rewrite nth_transpose by (rewrite HX; exact Hi).
  unfold X. rewrite map_map.
  (* every entry of the intermediate row is a scaled combination of a column of V *)
  set (W := map (fun col => nth i (apply_rowsv T1 col) vzero) cols).
  assert (LW : length W = length (hd [] V)) by (unfold W; now rewrite map_length).
  assert (HW : forall l, (l < length (hd [] V))%nat -> nth l W [] = scomb (nth i T1 []) (nth l cols [])).
  { intros l Hl. unfold W. rewrite (nth_map_lt _ cols [] [] l) by lia. apply apply_rows_entry. }
  assert (Hcol : forall l, (l < length (hd [] V))%nat -> Forall (Pv np) (nth l cols [])).
  { intros l Hl. unfold cols. rewrite nth_transpose by exact Hl. apply Forall_forall. intros v Hv.
    apply in_map_iff in Hv. destruct Hv as [row [<- Hrow]].
    change (nth l row vzero) with (nth l row []).
    destruct (nth_in_or_default l row []) as [Hin|E]; [|rewrite E; now left].
    unfold vec_ok in HV. rewrite Forall_forall in HV. specialize (HV _ Hrow).
    rewrite Forall_forall in HV. now apply HV. }
  assert (HWok : Forall (Pv np) W).
  { apply Forall_forall. intros w Hw. apply (In_nth _ _ []) in Hw. destruct Hw as [l [Hl <-]].
    rewrite HW by lia. apply (scomb_spec np p). apply Hcol. lia. }
  destruct (scomb_spec np p (nth j T2 []) W HWok) as [_ E]. rewrite E. clear E.
  rewrite LW. apply sumn_ext'. intros l Hl. f_equal.
  assert (Hl' : (l < length (hd [] V))%nat) by lia.
  rewrite HW by exact Hl'.
  destruct (scomb_spec np p (nth i T1 []) (nth l cols []) (Hcol l Hl')) as [_ E]. rewrite E. clear E.
  unfold cols. rewrite nth_transpose by exact Hl'. rewrite map_length.
  apply sumn_ext'. intros k Hk. f_equal. unfold proj.
  rewrite (nth_map_lt (fun row => nth l row vzero) V [] [] k) by lia. reflexivity.
Qed.

(* ------------------------------------------------------------------ *)
(* transform = untransformed basis with the density matrix transformed back *)
(* ------------------------------------------------------------------ *)
Definition tent (T : list (list F)) (i k : nat) : F := nth k (nth i T []) 0.
Definition pent (P : list (list F)) (i j : nat) : F := nth j (nth i P []) 0.

(* (T^T P T)[a][b] = sum_ij T[i][a] P[i][j] T[j][b],  a, b < n = number of columns of T *)
Definition backtransform (T P : list (list F)) (n : nat) : list (list F) :=
  mk n (fun a => mk n (fun b =>
    sumn (length P) (fun i => sumn (length P) (fun j => tent T i a * pent P i j * tent T j b)))).

(* an array of vectors over the points axis whose rows are not longer than its first row
   (in particular any rectangular array) *)
Definition arr_ok (np : nat) (V : list (list (list F))) : Prop :=
  vec_ok np V /\ Forall (fun row => (length row <= length (hd [] V))%nat) V.

Lemma square_arr_ok n np V :
  length V = n -> Forall (fun row => length row = n /\ Forall (Pv np) row) V -> arr_ok np V.
Proof.
  intros L H. split.
  - unfold vec_ok. eapply Forall_impl; [|exact H]. now intros row [_ Hr].
  - destruct V as [|r0 V]; [constructor|]. cbn [hd].
    pose proof (Forall_inv H) as [L0 _]. eapply Forall_impl; [|exact H]. intros row [Lr _]. lia.
Qed.

Lemma getH_out_col np V k l p : arr_ok np V -> (length (hd [] V) <= l)%nat -> getH K V k l p = 0.
Proof.
  intros [_ H] Hl. unfold getH.
  destruct (nth_in_or_default k V []) as [Hin|E].
  - rewrite Forall_forall in H. specialize (H _ Hin).
    rewrite (nth_overflow (nth k V [])) by lia. now destruct p.
  - rewrite E. now destruct l, p.
Qed.

Lemma getH_out_row V k l p : (length V <= k)%nat -> getH K V k l p = 0.
Proof. intros Hk. unfold getH. rewrite (nth_overflow V) by lia. now destruct l, p. Qed.

Lemma sumn_trunc a b f : (a <= b)%nat -> (forall k, (a <= k < b)%nat -> f k = 0) ->
  sumn b f = sumn a f.
Proof.
  intros Hab. induction Hab as [|b Hb IH]; intros H; [reflexivity|].
  cbn [Tables.sumn]. rewrite IH by (intros; apply H; lia). rewrite H by lia. ring.
Qed.

Lemma sumn_min_ext n c f : (forall l, (c <= l)%nat -> (l < n)%nat -> f l = 0) ->
  sumn (Nat.min n c) f = sumn n f.
Proof.
  intros H. symmetry. apply sumn_trunc; [lia|]. intros k Hk. apply H; lia.
Qed.

Lemma sum4_perm n m (t : nat -> nat -> nat -> nat -> F) :
  sumn n (fun a => sumn n (fun b => sumn m (fun i => sumn m (fun j => t a b i j))))
  = sumn m (fun i => sumn m (fun j => sumn n (fun b => sumn n (fun a => t a b i j)))).
Proof.
  rewrite (sumn_ext' n _ (fun a => sumn m (fun i => sumn n (fun b => sumn m (fun j => t a b i j)))))
    by (intros; apply sumn_swap).
  rewrite sumn_swap. apply sumn_ext'. intros i _.
  rewrite (sumn_ext' n _ (fun a => sumn m (fun j => sumn n (fun b => t a b i j))))
    by (intros; apply sumn_swap).
  rewrite sumn_swap. apply sumn_ext'. intros j _. apply sumn_swap.
Qed.

(* entry (i, j) of the transformed array, rectangular T with n columns *)
Lemma transformed_entry np V T n i j p :
  arr_ok np V -> Forall (fun row => length row = n) T -> (i < length T)%nat -> (j < length T)%nat ->
  getH K (transformed_ints K V (Some T)) i j p
  = sumn n (fun l => tent T j l * sumn n (fun k => tent T i k * getH K V k l p)).
Proof.
  intros HV HT Hi Hj. unfold transformed_ints.
  rewrite (lincomb2_entry np V T T i j p (proj1 HV) Hi).
  assert (Li : length (nth i T []) = n).
  { rewrite Forall_forall in HT. apply HT. now apply nth_In. }
  assert (Lj : length (nth j T []) = n).
  { rewrite Forall_forall in HT. apply HT. now apply nth_In. }
  rewrite Li, Lj. rewrite sumn_min_ext.
  - apply sumn_ext'. intros l _. unfold tent. f_equal.
    apply sumn_min_ext. intros k Hk _. rewrite getH_out_row by exact Hk. ring.
  - intros l Hl _. rewrite (sumn_zero (Nat.min n (length V))); [ring|].
    intros k _. rewrite (getH_out_col np) by assumption. ring.
Qed.

(* sum_ij P_ij (T V T^T)_ij = sum_ab (T^T P T)_ab V_ab, for any rectangular T *)
Lemma transform_is_backtransformed_P np V T P n p :
  arr_ok np V -> Forall (fun row => length row = n) T -> length T = length P ->
  electronic_sum (transformed_ints K V (Some T)) P p
  = electronic_sum V (backtransform T P n) p.
Proof.
  intros HV HT HL. unfold electronic_sum.
  replace (length (backtransform T P n)) with n by (unfold backtransform; now rewrite mk_length).
  set (m := length P).
  transitivity (sumn m (fun i => sumn m (fun j => sumn n (fun b => sumn n (fun a =>
                  tent T i a * pent P i j * tent T j b * getH K V a b p))))).
  - apply sumn_ext'. intros i Hi. apply sumn_ext'. intros j Hj.
    rewrite (transformed_entry np V T n i j p HV HT) by (rewrite HL; assumption).
    fold (pent P i j). rewrite <- sumn_scale. apply sumn_ext'. intros b _.
    rewrite <- sumn_scale. rewrite <- sumn_scale. apply sumn_ext'. intros a _. ring.
  - rewrite <- (sum4_perm n m (fun a b i j => tent T i a * pent P i j * tent T j b * getH K V a b p)).
    apply sumn_ext'. intros a Ha. apply sumn_ext'. intros b Hb.
    unfold backtransform. rewrite nth_mk by assumption. rewrite nth_mk by assumption.
    fold m. rewrite <- sumn_scale_r. apply sumn_ext'. intros i _.
    rewrite <- sumn_scale_r. reflexivity.
Qed.

(* the returned values: transformed path = untransformed path with T^T P T *)
Lemma esp_values_transform np V T P n points nuclei thr :
  arr_ok np V -> Forall (fun row => length row = n) T -> length T = length P ->
  esp_values K (transformed_ints K V (Some T)) P points nuclei thr
  = esp_values K (transformed_ints K V None) (backtransform T P n) points nuclei thr.
Proof.
  intros HV HT HL. unfold esp_values. apply mk_ext. intros p _.
  rewrite !hartree_is_electronic_sum.
  now rewrite (transform_is_backtransformed_P np V T P n p HV HT HL).
Qed.

(* Esp.squareb (V is an n x n array of vectors of length np) is a decidable sufficient condition for
   [arr_ok].  The runner reports this bit for the array of every generated case (Extract/RunEsp.v). *)
Lemma squareb_arr_ok n np V : squareb n np V = true -> arr_ok np V.
Proof.
  unfold squareb. rewrite andb_true_iff, Nat.eqb_eq, forallb_forall. intros [L H].
  apply (square_arr_ok n np V L). apply Forall_forall. intros row Hrow.
  specialize (H row Hrow). rewrite andb_true_iff, Nat.eqb_eq, forallb_forall in H.
  destruct H as [Lr Hv]. split; [exact Lr|]. apply Forall_forall. intros v Hin. right.
  now apply Nat.eqb_eq, Hv.
Qed.

Lemma square_symmetric_spec P :
  (forall x y, feqb K x y = true <-> x = y) ->
  square_symmetric K P = true <->
  Forall (fun row => length row = length P) P /\
  forall i j, (i < length P)%nat -> (j < length P)%nat -> pent P i j = pent P j i.
Proof.
  intros Heq. unfold square_symmetric. rewrite andb_true_iff, !forallb_forall, Forall_forall.
  split; intros [A B]; split.
  - intros r Hr. now apply Nat.eqb_eq, A.
  - intros i j Hi Hj. apply Heq.
    assert (Ii : In i (seq 0 (length P))) by (apply in_seq; lia).
    assert (Ij : In j (seq 0 (length P))) by (apply in_seq; lia).
    specialize (B i Ii). rewrite forallb_forall in B. exact (B j Ij).
  - intros r Hr. now apply Nat.eqb_eq, A.
  - intros i Hi. apply forallb_forall. intros j Hj. apply in_seq in Hi. apply in_seq in Hj.
    apply Heq. apply B; lia.
Qed.

Lemma backtransform_symmetric T P n a b :
  (forall i j, (i < length P)%nat -> (j < length P)%nat -> pent P i j = pent P j i) ->
  (a < n)%nat -> (b < n)%nat ->
  pent (backtransform T P n) a b = pent (backtransform T P n) b a.
Proof.
  intros HP Ha Hb. unfold pent at 1 2, backtransform.
  rewrite nth_mk by assumption. rewrite nth_mk by assumption.
  rewrite nth_mk by assumption. rewrite nth_mk by assumption.
  rewrite sumn_swap. apply sumn_ext'. intros i Hi. apply sumn_ext'. intros j Hj.
  rewrite (HP j i Hj Hi). ring.
Qed.

(* electrostatic_potential with a transform = electrostatic_potential of the untransformed basis
   with the density matrix transformed back; T may have any number of rows *)
Lemma esp_transform_is_backtransformed basis P points ncoords ncharges T thr v :
  squareb (nfun_basis basis) (length points)
          (point_charge_integral K (unit_neg_points K points) basis None) = true ->
  esp K basis P points ncoords ncharges (Some T) thr = Some v ->
  v = esp_values K (point_charge_integral K (unit_neg_points K points) basis None)
        (backtransform T P (nfun_basis basis)) points (combine ncoords ncharges) thr
  /\ ((forall x y, feqb K x y = true <-> x = y) ->
      esp K basis (backtransform T P (nfun_basis basis)) points ncoords ncharges None thr = Some v).
Proof.
  intros Hsq E. apply squareb_arr_ok in Hsq.
  pose proof (proj1 (esp_accepts basis P points ncoords ncharges (Some T) thr) (ex_intro _ v E))
    as (C1 & C2 & C3 & C4).
  apply size_ok_transform in C4. destruct C4 as [LT HT].
  unfold esp, esp_with in E. rewrite C1, C2, Nat.eqb_refl, C3 in E.
  destruct (size_ok (nfun_basis basis) P (Some T)); [|discriminate].
  cbn [andb negb] in E. injection E as E.
  rewrite (esp_values_transform _ _ T P (nfun_basis basis) points _ thr Hsq HT LT) in E.
  cbn [transformed_ints] in E. split; [now symmetry|].
  intros Heq. unfold esp, esp_with.
  assert (S : square_symmetric K (backtransform T P (nfun_basis basis)) = true).
  { apply (square_symmetric_spec _ Heq).
    assert (LB : length (backtransform T P (nfun_basis basis)) = nfun_basis basis)
      by (unfold backtransform; apply mk_length).
    rewrite LB. split.
    - unfold backtransform. apply Forall_forall. intros r Hr. apply in_map_iff in Hr.
      destruct Hr as [a [<- _]]. apply mk_length.
    - intros a b Ha Hb. apply backtransform_symmetric; try assumption.
      apply (proj1 (square_symmetric_spec P Heq) C1). }
  rewrite S, C2, Nat.eqb_refl, C3. cbn [andb negb size_ok].
  replace (length (backtransform T P (nfun_basis basis))) with (nfun_basis basis)
    by (unfold backtransform; now rewrite mk_length).
  rewrite Nat.eqb_refl. cbn [transformed_ints]. now rewrite E.
Qed.

End P.

(* ------------------------------------------------------------------ *)
(* Part 2: the reals (real square root)                                 *)
(* ------------------------------------------------------------------ *)
From Coq Require Import Reals Lra Psatz RealField.
Local Open Scope R_scope.

Definition Rleb_e (x y : R) : bool := if Rle_dec x y then true else false.
Definition Reqb_e (x y : R) : bool := if Req_EM_T x y then true else false.

(* the model's number interface at the real numbers, with the real sqrt *)
Definition RKe : Fops R :=
  mkFops R 0 1 Rplus Rmult Rminus Ropp Rdiv Rinv Rleb_e Reqb_e PI sqrt exp ln (fun _ _ => 0) (fun x => x).

Lemma RKe_field : is_field RKe.
Proof. exact Rfield. Qed.

Lemma RKe_eqb x y : feqb RKe x y = true <-> x = y.
Proof. cbn [feqb RKe]. unfold Reqb_e. destruct (Req_EM_T x y); split; intros; auto; discriminate. Qed.

Lemma fltb_R x y : fltb RKe x y = true <-> x < y.
Proof.
  unfold fltb. cbn [fleb RKe]. unfold Rleb_e.
  destruct (Rle_dec y x); cbn [negb]; split; intros; try discriminate; try lra; auto.
Qed.

Definition Rpt : Type := (R * R * R)%type.
Definition edist2 (p n : Rpt) : R :=
  (fst (fst p) - fst (fst n))² + (snd (fst p) - snd (fst n))² + (snd p - snd n)².

Lemma dist2_R p n : Esp.dist2 RKe p n = edist2 p n.
Proof. reflexivity. Qed.

Lemma edist2_nonneg p n : 0 <= edist2 p n.
Proof.
  unfold edist2. pose proof (Rle_0_sqr (fst (fst p) - fst (fst n))).
  pose proof (Rle_0_sqr (snd (fst p) - snd (fst n))). pose proof (Rle_0_sqr (snd p - snd n)). lra.
Qed.

(* the model's distance is the Euclidean distance *)
Lemma dist_R p n : Esp.dist RKe p n = sqrt (edist2 p n).
Proof. reflexivity. Qed.

(* a nucleus is dropped for a point exactly when its distance to the point is below the threshold *)
Lemma mask_iff_distance_R thr p n : masked RKe thr p n = true <-> sqrt (edist2 p n) < thr.
Proof. unfold masked. rewrite dist_R. apply fltb_R. Qed.

(* ... equivalently, in squared distances (no square root), for the admissible thresholds *)
Lemma mask_iff_sqdistance_R thr p n : 0 <= thr ->
  (masked RKe thr p n = true <-> edist2 p n < thr * thr).
Proof.
  intros Ht. rewrite mask_iff_distance_R.
  pose proof (edist2_nonneg p n) as Hd. pose proof (sqrt_pos (edist2 p n)) as Hs.
  pose proof (sqrt_sqrt _ Hd) as Hss. generalize dependent (sqrt (edist2 p n)). intros s Hs Hss.
  rewrite <- Hss. split; intros H; nra.
Qed.

(* ... whatever the charge: the contribution is 0 when dropped and Z/d otherwise, for every Z *)
Lemma nuc_term_R thr p n Z :
  (sqrt (edist2 p n) < thr -> nuc_term RKe thr p (n, Z) = 0) /\
  (~ sqrt (edist2 p n) < thr -> nuc_term RKe thr p (n, Z) = Z / sqrt (edist2 p n)).
Proof.
  split; intros H.
  - apply nuc_term_masked. now apply mask_iff_distance_R.
  - change (Z / sqrt (edist2 p n)) with (fdiv RKe Z (Esp.dist RKe p n)).
    apply nuc_term_kept. destruct (masked RKe thr p n) eqn:E; [|reflexivity].
    exfalso. apply H. now apply mask_iff_distance_R.
Qed.

(* the decision does not change when the charge changes sign or magnitude *)
Lemma mask_charge_independent_R thr p n Z Z' : Z <> 0 -> Z' <> 0 -> 0 < edist2 p n ->
  (nuc_term RKe thr p (n, Z) = 0 <-> nuc_term RKe thr p (n, Z') = 0).
Proof.
  intros HZ HZ' Hd.
  assert (Hs : 0 < sqrt (edist2 p n)) by now apply sqrt_lt_R0.
  assert (Q : forall z, z <> 0 -> (nuc_term RKe thr p (n, z) = 0 <-> masked RKe thr p n = true)).
  { intros z Hz. unfold nuc_term. cbn [fst snd]. destruct (masked RKe thr p n); [tauto|].
    split; [|discriminate]. intros H. exfalso. rewrite dist_R in H. cbn [fdiv RKe f0] in H.
    apply Hz. apply (Rmult_eq_reg_r (/ sqrt (edist2 p n))).
    - unfold Rdiv in H. rewrite H. ring.
    - apply Rinv_neq_0_compat. lra. }
  rewrite (Q Z HZ), (Q Z' HZ'). tauto.
Qed.

(* threshold 0 (the default) drops nothing; a threshold beyond the distance drops the nucleus *)
Lemma mask_threshold_zero_R p n : masked RKe 0 p n = false.
Proof.
  destruct (masked RKe 0 p n) eqn:E; [|reflexivity].
  apply mask_iff_distance_R in E. pose proof (sqrt_pos (edist2 p n)). lra.
Qed.

Lemma all_masked_no_nuclear_term thr p ncoords ncharges :
  (forall n, In n ncoords -> sqrt (edist2 p n) < thr) ->
  nuclear_sum RKe thr ncoords ncharges p = 0.
Proof.
  intros H. unfold nuclear_sum. apply (sumn_zero RKe RKe_field). intros A HA.
  unfold nuc_contrib. rewrite (proj2 (mask_iff_distance_R thr p _)); [reflexivity|].
  apply H. apply nth_In. lia.
Qed.

(* negative thresholds are refused, non-negative ones accepted (given the other conditions) *)
Lemma negative_threshold_refused basis P points ncoords ncharges T thr :
  thr < 0 -> esp RKe basis P points ncoords ncharges T thr = None.
Proof.
  intros H. unfold esp, esp_with.
  assert (E : fltb RKe thr (f0 RKe) = true) by (apply fltb_R; exact H).
  rewrite E. cbn [negb]. now rewrite !andb_false_r.
Qed.

(* the pinned tree's rule (Z/d against 1/threshold) is NOT the documented one: a nucleus of
   charge 4 at distance 1 was dropped for threshold 1/2, and a negative charge at distance 1 was
   kept for threshold 2 *)
Lemma pinned_rule_differs :
  let p : Rpt := (1, 0, 0) in let n : Rpt := (0, 0, 0) in
  nuc_term_pinned RKe (1/2) p (n, 4) = 0 /\ nuc_term RKe (1/2) p (n, 4) = 4 /\
  nuc_term_pinned RKe 2 p (n, -1) = -1 /\ nuc_term RKe 2 p (n, -1) = 0.
Proof.
  cbv zeta.
  assert (D : Esp.dist RKe (1, 0, 0) (0, 0, 0) = 1).
  { rewrite dist_R. unfold edist2. cbn [fst snd]. replace ((1 - 0)² + (0 - 0)² + (0 - 0)²) with 1
      by (unfold Rsqr; ring). apply sqrt_1. }
  unfold nuc_term_pinned, nuc_term, masked. cbn [fst snd]. rewrite D. cbn [fdiv RKe f0 f1].
  repeat split.
  - rewrite (proj2 (fltb_R (1 / (1 / 2)) (4 / 1))) by lra. reflexivity.
  - destruct (fltb RKe 1 (1 / 2)) eqn:E; [apply fltb_R in E; lra|]. field.
  - destruct (fltb RKe (1 / 2) (-1 / 1)) eqn:E; [apply fltb_R in E; lra|]. field.
  - rewrite (proj2 (fltb_R 1 2)) by lra. reflexivity.
Qed.

(* ------------------------------------------------------------------ *)
(* Part 3: the executable instance (canonical rationals, oracle sqrt)   *)
(* ------------------------------------------------------------------ *)
From Coq Require Import QArith Qcanon.
Local Close Scope R_scope.

Lemma negb_Qle_bool (x y : Q) : negb (Qle_bool x y) = true <-> (y < x)%Q.
Proof.
  rewrite negb_true_iff. split; intros H.
  - apply Qnot_le_lt. intros C. apply Qle_bool_iff in C. congruence.
  - destruct (Qle_bool x y) eqn:E; [|reflexivity]. apply Qle_bool_iff in E.
    exfalso. exact (Qlt_not_le _ _ H E).
Qed.

(* when the oracle value for the squared distance is its exact non-negative root, the mask of the
   executable model is the squared-distance comparison: no rounding of the root is involved *)
Lemma mask_iff_sqdistance_Qc ex opi osqrt oexp oln oboys (thr : Qc) (p n : Qc * Qc * Qc) :
  let K := QcK ex opi osqrt oexp oln oboys in
  (0 <= thr)%Qc ->
  (0 <= osqrt (Esp.dist2 K p n))%Qc ->
  (osqrt (Esp.dist2 K p n) * osqrt (Esp.dist2 K p n) = Esp.dist2 K p n)%Qc ->
  (masked K thr p n = true <-> (Esp.dist2 K p n < thr * thr)%Qc).
Proof.
  intros K Ht Hs Hss. unfold masked, Esp.dist, fltb.
  change (fsqrt K (Esp.dist2 K p n)) with (osqrt (Esp.dist2 K p n)).
  change (fleb K) with qc_leb. unfold qc_leb.
  set (d2 := Esp.dist2 K p n) in *. set (s := osqrt d2) in *. clearbody s. clearbody d2.
  rewrite <- Hss. clear Hss d2.
  rewrite negb_Qle_bool. unfold Qclt, Qcle, Qcmult in *.
  change (this (Q2Qc (s * s))) with (Qred (s * s)).
  change (this (Q2Qc (thr * thr))) with (Qred (thr * thr)).
  rewrite !Qred_correct.
  change (this (Q2Qc 0)) with 0%Q in *.
  split; intros H; nra.
Qed.

(* satisfiable: a 3-4-5 geometry with a table oracle *)
Lemma mask_Qc_example :
  let sq := fun x : Qc => if Qc_eq_dec x (Q2Qc 25) then Q2Qc 5 else Q2Qc 0 in
  let K := QcK true (Q2Qc 3) sq (fun x => x) (fun x => x) (fun _ x => x) in
  let p : Qc * Qc * Qc := (Q2Qc 3, Q2Qc 4, Q2Qc 0) in
  let n : Qc * Qc * Qc := (Q2Qc 0, Q2Qc 0, Q2Qc 0) in
  (0 <= sq (Esp.dist2 K p n))%Qc /\
  (sq (Esp.dist2 K p n) * sq (Esp.dist2 K p n) = Esp.dist2 K p n)%Qc /\
  masked K (Q2Qc 5) p n = false /\ masked K (Q2Qc (5 + (1 # 1024))) p n = true.
Proof.
  cbv zeta. split; [vm_compute; congruence|]. split; [apply Qc_is_canon; vm_compute; reflexivity|].
  split; vm_compute; reflexivity.
Qed.

(* the shape hypothesis of [esp_transform_is_backtransformed] is satisfiable (and is what the model
   produces): an s shell and a spherical p shell, two points, any field and any numbers *)
Lemma squareb_example {F} (K : Fops F) (x y : F) :
  let basis := [mkShell F 0 x x x [y] [[y]] false [] [];
                mkShell F 1 y x y [x; y] [[x; y]; [y; x]] true [] []] in
  nfun_basis basis = 7%nat /\
  squareb 7 2 (point_charge_integral K (unit_neg_points K [(x, y, x); (y, y, x)]) basis None) = true.
Proof. cbv zeta. split; vm_compute; reflexivity. Qed.

(* small facts used by Props/C14.v *)
Local Open Scope nat_scope.
Lemma charge_hyps_example :
  (4 <> 0)%R /\ (-1 <> 0)%R /\ (0 < edist2 (1, 0, 0) (0, 0, 0))%R.
Proof.
  repeat split; try lra. unfold edist2, Rsqr. cbn [fst snd]. lra.
Qed.

Lemma backtransform_entry {F} (K : Fops F) (T P : list (list F)) n a b :
  a < n -> b < n ->
  nth b (nth a (backtransform K T P n) []) (f0 K)
  = Tables.sumn (f0 K) (fadd K) (length P) (fun i => Tables.sumn (f0 K) (fadd K) (length P) (fun j =>
      fmul K (fmul K (nth a (nth i T []) (f0 K)) (nth j (nth i P []) (f0 K))) (nth b (nth j T []) (f0 K)))).
Proof.
  intros Ha Hb. unfold backtransform. rewrite nth_mk by assumption. now rewrite nth_mk by assumption.
Qed.

Lemma arr_ok_example {F} (x : F) :
  arr_ok 1 [[[x]; [x]]; [[x]; []]] /\ Forall (fun row => length row = 2) [[x; x]; [x; x]; [x; x]].
Proof.
  unfold arr_ok, vec_ok, Pv. cbn [hd length].
  split; [split|]; repeat (apply Forall_cons || apply Forall_nil); auto.
Qed.
