(* Proofs/Block4FullP.v — property C09, four-index class (base_four_symm.py): EVERY entry of the processed
   shell-quartet block [Model/Assembly14.block4 t1 t2 t3 t4 s1 s2 s3 s4 blk] (normalise by the four norms,
   tensordot with the transformation of every spherical shell, merge (M, L) on every index), for every
   assignment of coordinate types.

   Props/C09.v has the statement for the first index only (C09_block4_index1_partial, as an equation between
   whole blocks: pulling T_s2 out through the outer stage as a BLOCK operation needs additivity laws).  Stated
   entry by entry no law is needed at all:

     block4_entry    (any element module A, no algebraic law)
        block4[m1 O1 + q1][m2 O2 + q2][m3 O3 + q3][m4 O4 + q4]
          = tsum_1 (c1 -> tsum_2 (c2 -> tsum_3 (c3 -> tsum_4 (c4 ->
              n4[m4][c4] . (n3[m3][c3] . (n2[m2][c2] . (n1[m1][c1] . blk[m1][c1][m2][c2][m3][c3][m4][c4]))))))),
        tsum_k = sum_{c<L_k} T_k[q_k][c] . (..) for a spherical index, evaluation at c = q_k for a Cartesian one;
     block4_shape    the block is [M1 O1][M2 O2][M3 O3][M4 O4];
     block4_is_cart_transformed
        the same with the all-Cartesian processed block  block4 false false false false  inside the sums;
     block4_quadruple_sum (A = F a field)
        = sum_{c1,c2,c3,c4} U1[q1][c1] U2[q2][c2] U3[q3][c3] U4[q4][c4] x (all-Cartesian entry), U_k = T_k for a
        spherical index and the identity matrix for a Cartesian one; hence independent of the order in which
        the four contractions are performed (block4_sum_order).

   Method: an evaluation functional [ev] (read the entry at fixed later indices) is linear on well-shaped
   elements of the row modules R1, R2, R3 ([row_evlin]); one generic stage lemma ([axis_stage]) describes
   [axis_tr] for any module with such a functional; it is applied four times. *)
From Coq Require Import List Arith Lia Bool.
From GB Require Import Base.Field Base.FNum Base.Tables Base.Blocks Model.Shell Model.Assembly Model.Assembly14
  Proofs.CoreSumP Proofs.CoreBlockP Proofs.AssemblyP Proofs.BlockMatP Proofs.AssembledP Proofs.AssembledSphP.
Import ListNotations.

(* ------------------------------------------------------------------ *)
(* shapes of nested lists                                               *)
(* ------------------------------------------------------------------ *)
Definition lshape {X} (Q : X -> Prop) (n : nat) (l : list X) : Prop := length l = n /\ Forall Q l.

Lemma lshape_nth {X} (Q : X -> Prop) n l d i : lshape Q n l -> i < n -> Q (nth i l d).
Proof. intros [HL HF] Hi. apply Forall_nth_in; [exact HF|lia]. Qed.

Lemma lshape_of_nth {X} (Q : X -> Prop) n l d :
  length l = n -> (forall i, i < n -> Q (nth i l d)) -> lshape Q n l.
Proof. intros HL H. split; [exact HL|]. apply (Forall_of_nth _ _ d). now rewrite HL. Qed.

Lemma lshape_impl {X} (Q Q' : X -> Prop) n l : (forall x, Q x -> Q' x) -> lshape Q n l -> lshape Q' n l.
Proof. intros H [HL HF]. split; [exact HL|]. eapply Forall_impl; eauto. Qed.

Lemma map2_lshape {X Y Z} (f : X -> Y -> Z) (PX : X -> Prop) (PY : Y -> Prop) (Q : Z -> Prop) n a b :
  lshape PX n a -> lshape PY n b -> (forall x y, PX x -> PY y -> Q (f x y)) -> lshape Q n (map2 f a b).
Proof.
  intros [La Fa] [Lb Fb] H. split; [rewrite map2_length; congruence|].
  clear La Lb. revert b Fb. induction Fa as [|x a Hx Fa IH]; intros [|y b] Fb; cbn [map2]; try constructor.
  - inversion Fb as [|? ? Hy Fb']. now apply H.
  - inversion Fb as [|? ? Hy Fb']. now apply IH.
Qed.

Lemma map_lshape {X Y} (f : X -> Y) (P : X -> Prop) (Q : Y -> Prop) n l :
  lshape P n l -> (forall x, P x -> Q (f x)) -> lshape Q n (map f l).
Proof.
  intros [HL HF] H. split; [now rewrite map_length|]. apply Forall_forall. intros y Hy.
  apply in_map_iff in Hy. destruct Hy as [x [<- Hx]]. rewrite Forall_forall in HF. auto.
Qed.

Lemma nth_repeat_lt {X} (x d : X) w i : i < w -> nth i (repeat x w) d = x.
Proof. revert i. induction w as [|w IH]; intros [|i] H; cbn; try lia; [reflexivity|apply IH; lia]. Qed.

Lemma mk_cons' {B} n (f : nat -> B) : mk (S n) f = f 0 :: mk n (fun j => f (S j)).
Proof. unfold mk. cbn [seq map]. f_equal. now rewrite <- seq_shift, map_map. Qed.

Lemma divmod_idx I M O : I < M * O -> exists m q, m < M /\ q < O /\ I = m * O + q.
Proof.
  intros H. assert (HO : 0 < O) by nia. exists (I / O), (I mod O). repeat split.
  - apply Nat.div_lt_upper_bound; lia.
  - apply Nat.mod_upper_bound. lia.
  - rewrite (Nat.div_mod I O) at 1 by lia. lia.
Qed.

(* ------------------------------------------------------------------ *)
(* modules with an evaluation functional                                *)
(* ------------------------------------------------------------------ *)
Section Ev.
Context {F : Type} (K : Fops F).
Context {A : Type} (azero : A) (aadd : A -> A -> A) (ascale : F -> A -> A).

Definition closed {X} (xzero : X) (xadd : X -> X -> X) (xscale : F -> X -> X) (P : X -> Prop) : Prop :=
  P xzero /\ (forall x y, P x -> P y -> P (xadd x y)) /\ (forall t x, P x -> P (xscale t x)).
Definition evlin {X} (xzero : X) (xadd : X -> X -> X) (xscale : F -> X -> X) (P : X -> Prop) (ev : X -> A) : Prop :=
  ev xzero = azero /\ (forall x y, P x -> P y -> ev (xadd x y) = aadd (ev x) (ev y)) /\
  (forall t x, P x -> ev (xscale t x) = ascale t (ev x)).

Lemma base_closed : closed azero aadd ascale (fun _ => True).
Proof. repeat split. Qed.
Lemma base_evlin : evlin azero aadd ascale (fun _ => True) (fun x => x).
Proof. repeat split. Qed.

Lemma dot_asum (t : list F) (v : list A) L : length t = L -> length v = L ->
  dot azero aadd ascale t v = asum azero aadd (mk L (fun c => ascale (nth c t (f0 K)) (nth c v azero))).
Proof.
  revert v L. induction t as [|a t IH]; intros [|x v] [|L] Ht Hv; cbn in Ht, Hv; try lia; [reflexivity|].
  rewrite mk_cons'. cbn [dot asum fold_right nth]. f_equal. apply IH; lia.
Qed.

Section Mod.
Context {X : Type} (xzero : X) (xadd : X -> X -> X) (xscale : F -> X -> X).
Variable P : X -> Prop.
Variable ev : X -> A.
Hypothesis HC : closed xzero xadd xscale P.
Hypothesis HE : evlin xzero xadd xscale P ev.

Lemma dot_closed t v : Forall P v -> P (dot xzero xadd xscale t v).
Proof.
  destruct HC as (Pz & Pa & Ps).
  revert v. induction t as [|a t IH]; intros [|x v] H; cbn [dot]; auto. inversion H; subst. auto.
Qed.

Lemma ev_dot t v : Forall P v -> ev (dot xzero xadd xscale t v) = dot azero aadd ascale t (map ev v).
Proof.
  destruct HC as (Pz & Pa & Ps). destruct HE as (Ez & Ea & Es).
  revert v. induction t as [|a t IH]; intros [|x v] H; cbn [dot map]; auto. inversion H; subst.
  rewrite Ea; [|now apply Ps|now apply dot_closed]. rewrite Es by assumption. now rewrite IH.
Qed.

(* rows of width w *)
Lemma row_closed w : closed (rzero xzero w) (radd xadd) (rscale xscale) (lshape P w).
Proof.
  destruct HC as (Pz & Pa & Ps). split; [|split].
  - split; [apply repeat_length|]. apply Forall_forall. intros x Hx. apply repeat_spec in Hx. now subst.
  - intros x y Hx Hy. unfold radd. apply (map2_lshape _ P P); auto.
  - intros t x Hx. unfold rscale. apply (map_lshape _ P); auto.
Qed.

Lemma row_evlin w i (d : X) : i < w ->
  evlin (rzero xzero w) (radd xadd) (rscale xscale) (lshape P w) (fun r => ev (nth i r d)).
Proof.
  intros Hi. destruct HE as (Ez & Ea & Es). split; [|split].
  - unfold rzero. now rewrite nth_repeat_lt.
  - intros x y [Lx Fx] [Ly Fy]. unfold radd. rewrite (nth_map2 xadd x y d d d) by lia.
    apply Ea; apply Forall_nth_in; auto; lia.
  - intros t x [Lx Fx]. unfold rscale. rewrite (nth_map_d _ x i d) by lia.
    apply Es. apply Forall_nth_in; auto; lia.
Qed.

(* one axis: tensordot with T if the shell is spherical, merge (M, L') *)
Section Axis.
Variables (sph : bool) (T : list (list F)) (blk : list (list X)) (M L S : nat) (d : X).
Hypothesis HM : length blk = M.
Hypothesis HL : forall m, m < M -> length (nth m blk []) = L.
Hypothesis HP : forall m c, m < M -> c < L -> P (nth c (nth m blk []) d).
Hypothesis HS : length T = S.
Hypothesis HT : sph = true -> Forall (fun r => length r = L) T.

Lemma axis_rows m : m < M -> Forall P (nth m blk []).
Proof. intros Hm. apply (Forall_of_nth _ _ d). rewrite HL by exact Hm. intros c Hc. now apply HP. Qed.

Lemma axis_sph_rows : Forall (fun r => length r = S) (map (lin xzero xadd xscale T) blk).
Proof.
  apply Forall_forall. intros r Hr. apply in_map_iff in Hr. destruct Hr as [row [<- _]].
  unfold lin. now rewrite map_length.
Qed.

Lemma axis_sph_entry m q : m < M -> q < S ->
  nth (m * S + q) (concat (map (lin xzero xadd xscale T) blk)) d
  = dot xzero xadd xscale (nth q T []) (nth m blk []).
Proof.
  intros Hm Hq. rewrite (nth_concat_const _ S d m q axis_sph_rows) by (rewrite ?map_length; lia).
  rewrite (nth_map_d _ blk m []) by lia. unfold lin. now rewrite (nth_map_d _ T q []) by lia.
Qed.

Lemma axis_cart_rows : Forall (fun r => length r = L) blk.
Proof. apply (Forall_of_nth _ _ []). rewrite HM. exact HL. Qed.

Lemma axis_shape : lshape P (M * (if sph then S else L)) (axis_tr xzero xadd xscale sph T blk).
Proof.
  unfold axis_tr. destruct sph.
  - split; [rewrite (length_concat_const _ S axis_sph_rows), map_length; lia|].
    apply (Forall_of_nth _ _ d). rewrite (length_concat_const _ S axis_sph_rows), map_length, HM.
    intros I HI. destruct (divmod_idx I M S HI) as (m & q & Hm & Hq & ->).
    rewrite axis_sph_entry by assumption. apply dot_closed. now apply axis_rows.
  - split; [rewrite (length_concat_const _ L axis_cart_rows); lia|].
    apply Forall_concat. apply (Forall_of_nth _ _ []). rewrite HM. exact axis_rows.
Qed.

Lemma axis_stage m q : m < M -> q < (if sph then S else L) ->
  ev (nth (m * (if sph then S else L) + q) (axis_tr xzero xadd xscale sph T blk) d)
  = tsum K azero aadd ascale sph T L q (fun c => ev (nth c (nth m blk []) d)).
Proof.
  unfold axis_tr, tsum. destruct sph; intros Hm Hq.
  - rewrite axis_sph_entry by assumption. rewrite ev_dot by (now apply axis_rows).
    rewrite (dot_asum _ _ L).
    + f_equal. apply mk_ext. intros c Hc. f_equal. rewrite (nth_map_d _ _ c d) by (rewrite HL; lia). reflexivity.
    + apply (Forall_nth_in _ T [] q (HT eq_refl)). lia.
    + rewrite map_length. now apply HL.
  - now rewrite (nth_concat_const _ L d m q axis_cart_rows) by lia.
Qed.
End Axis.
End Mod.
End Ev.

(* ------------------------------------------------------------------ *)
(* pairs of axes (M, L)                                                 *)
(* ------------------------------------------------------------------ *)
Definition L2s {X} (Q : X -> Prop) (M L : nat) (b : list (list X)) : Prop := lshape (lshape Q L) M b.

Lemma L2s_len {X} (Q : X -> Prop) M L b : L2s Q M L b -> length b = M.
Proof. now intros [H _]. Qed.
Lemma L2s_row {X} (Q : X -> Prop) M L b m : L2s Q M L b -> m < M -> length (nth m b []) = L.
Proof. intros H Hm. exact (proj1 (lshape_nth _ M b [] m H Hm)). Qed.
Lemma L2s_ent {X} (Q : X -> Prop) M L b m c d : L2s Q M L b -> m < M -> c < L -> Q (nth c (nth m b []) d).
Proof. intros H Hm Hc. exact (lshape_nth _ L _ d c (lshape_nth _ M b [] m H Hm) Hc). Qed.

Lemma map2l_nth {X Y} (f : X -> Y) (Q : X -> Prop) M L b m c dX dY : L2s Q M L b -> m < M -> c < L ->
  nth c (nth m (map (map f) b) []) dY = f (nth c (nth m b []) dX).
Proof.
  intros H Hm Hc. rewrite (nth_map_d _ b m []) by (rewrite (L2s_len _ _ _ _ H); lia).
  now rewrite (nth_map_d _ _ c dX) by (rewrite (L2s_row _ _ _ _ m H Hm); lia).
Qed.

Lemma map2l_shape {X Y} (f : X -> Y) (P : X -> Prop) (Q : Y -> Prop) M L b :
  L2s P M L b -> (forall x, P x -> Q (f x)) -> L2s Q M L (map (map f) b).
Proof. intros H Hf. apply (map_lshape _ (lshape P L)); [exact H|]. intros r Hr. now apply (map_lshape _ P). Qed.

(* ------------------------------------------------------------------ *)
(* the quartet block                                                    *)
(* ------------------------------------------------------------------ *)
Section Block4.
Context {F : Type} (K : Fops F).
Context {A : Type} (azero : A) (aadd : A -> A -> A) (ascale : F -> A -> A).
Notation R1 := (list A).
Notation R2 := (list (list A)).
Notation R3 := (list (list (list A))).
Notation R4 := (list (list (list (list A)))).
Notation TA := (fun _ : A => True).

Definition sh8 (M1 L1 M2 L2 M3 L3 M4 L4 : nat) (b : list (list (list (list R4)))) : Prop :=
  L2s (L2s (L2s (L2s TA M4 L4) M3 L3) M2 L2) M1 L1 b.
Definition get8 (d : A) (m1 c1 m2 c2 m3 c3 m4 c4 : nat) (b : list (list (list (list R4)))) : A :=
  nth c4 (nth m4 (nth c3 (nth m3 (nth c2 (nth m2 (nth c1 (nth m1 b []) []) []) []) []) []) []) d.
Definition nsh (M L : nat) (n : list (list F)) : Prop := lshape (fun r : list F => length r = L) M n.

Lemma len_lshapeT {X} (r : list X) L : length r = L -> lshape (fun _ : X => True) L r.
Proof. intros H. split; [exact H|]. apply Forall_forall. auto. Qed.

Section Norm.
Variables (n1 n2 n3 n4 : list (list F)) (blk : list (list (list (list R4)))).
Variables M1 L1 M2 L2 M3 L3 M4 L4 : nat.
Hypothesis N1 : nsh M1 L1 n1.
Hypothesis N2 : nsh M2 L2 n2.
Hypothesis N3 : nsh M3 L3 n3.
Hypothesis N4 : nsh M4 L4 n4.
Hypothesis HB : sh8 M1 L1 M2 L2 M3 L3 M4 L4 blk.

Lemma normalise4_shape : sh8 M1 L1 M2 L2 M3 L3 M4 L4 (normalise4 ascale n1 n2 n3 n4 blk).
Proof.
  unfold normalise4, sh8, L2s in *.
  eapply (map2_lshape _ (fun r : list F => length r = L1)); [exact N1|exact HB|]. intros r1 b1 Hr1 Hb1.
  eapply (map2_lshape _ (fun _ : F => True)); [exact (len_lshapeT _ _ Hr1)|exact Hb1|]. intros x1 b2 _ Hb2.
  eapply (map2_lshape _ (fun r : list F => length r = L2)); [exact N2|exact Hb2|]. intros r2 b3 Hr2 Hb3.
  eapply (map2_lshape _ (fun _ : F => True)); [exact (len_lshapeT _ _ Hr2)|exact Hb3|]. intros x2 b4 _ Hb4.
  eapply (map2_lshape _ (fun r : list F => length r = L3)); [exact N3|exact Hb4|]. intros r3 b5 Hr3 Hb5.
  eapply (map2_lshape _ (fun _ : F => True)); [exact (len_lshapeT _ _ Hr3)|exact Hb5|]. intros x3 b6 _ Hb6.
  eapply (map2_lshape _ (fun r : list F => length r = L4)); [exact N4|exact Hb6|]. intros r4 b7 Hr4 Hb7.
  eapply (map2_lshape _ (fun _ : F => True)); [exact (len_lshapeT _ _ Hr4)|exact Hb7|]. auto.
Qed.

Lemma normalise4_entry d m1 c1 m2 c2 m3 c3 m4 c4 :
  m1 < M1 -> c1 < L1 -> m2 < M2 -> c2 < L2 -> m3 < M3 -> c3 < L3 -> m4 < M4 -> c4 < L4 ->
  get8 d m1 c1 m2 c2 m3 c3 m4 c4 (normalise4 ascale n1 n2 n3 n4 blk)
  = ascale (nth c4 (nth m4 n4 []) (f0 K)) (ascale (nth c3 (nth m3 n3 []) (f0 K))
      (ascale (nth c2 (nth m2 n2 []) (f0 K)) (ascale (nth c1 (nth m1 n1 []) (f0 K))
         (get8 d m1 c1 m2 c2 m3 c3 m4 c4 blk)))).
Proof.
  intros Hm1 Hc1 Hm2 Hc2 Hm3 Hc3 Hm4 Hc4. unfold get8, normalise4.
  pose proof (proj1 N1) as A1. pose proof (lshape_nth _ _ _ [] m1 N1 Hm1) as A1'. cbv beta in A1'.
  pose proof (proj1 N2) as A2. pose proof (lshape_nth _ _ _ [] m2 N2 Hm2) as A2'. cbv beta in A2'.
  pose proof (proj1 N3) as A3. pose proof (lshape_nth _ _ _ [] m3 N3 Hm3) as A3'. cbv beta in A3'.
  pose proof (proj1 N4) as A4. pose proof (lshape_nth _ _ _ [] m4 N4 Hm4) as A4'. cbv beta in A4'.
  unfold sh8 in HB.
  pose proof (L2s_len _ _ _ _ HB) as B1. pose proof (L2s_row _ _ _ _ m1 HB Hm1) as B1'.
  pose proof (L2s_ent _ _ _ _ m1 c1 [] HB Hm1 Hc1) as HB2.
  pose proof (L2s_len _ _ _ _ HB2) as B2. pose proof (L2s_row _ _ _ _ m2 HB2 Hm2) as B2'.
  pose proof (L2s_ent _ _ _ _ m2 c2 [] HB2 Hm2 Hc2) as HB3.
  pose proof (L2s_len _ _ _ _ HB3) as B3. pose proof (L2s_row _ _ _ _ m3 HB3 Hm3) as B3'.
  pose proof (L2s_ent _ _ _ _ m3 c3 [] HB3 Hm3 Hc3) as HB4.
  pose proof (L2s_len _ _ _ _ HB4) as B4. pose proof (L2s_row _ _ _ _ m4 HB4 Hm4) as B4'.
  rewrite (nth_map2 _ n1 blk [] [] [] m1) by lia.
  rewrite (nth_map2 _ _ _ (f0 K) [] [] c1) by lia.
  rewrite (nth_map2 _ n2 _ [] [] [] m2) by lia.
  rewrite (nth_map2 _ _ _ (f0 K) [] [] c2) by lia.
  rewrite (nth_map2 _ n3 _ [] [] [] m3) by lia.
  rewrite (nth_map2 _ _ _ (f0 K) [] [] c3) by lia.
  rewrite (nth_map2 _ n4 _ [] [] [] m4) by lia.
  rewrite (nth_map2 _ _ _ (f0 K) d d c4) by lia.
  reflexivity.
Qed.
End Norm.

Lemma axis_width_eq t (s : @sh F) M L : nsh M L (sh_n s) -> axis_width t s = M * osz t (sh_T s) L.
Proof.
  intros [HL HF]. unfold axis_width, osz. destruct t; [now rewrite HL|].
  rewrite (length_concat_const _ L HF). now rewrite HL.
Qed.

(* [axis_shape] / [axis_stage] for a pair of axes given by L2s *)
Lemma axis_shape2 {X} (xzero : X) (xadd : X -> X -> X) (xscale : F -> X -> X) (P : X -> Prop) (HC : closed xzero xadd xscale P)
      sph T (blk : list (list X)) M L :
  L2s P M L blk -> (sph = true -> Forall (fun r => length r = L) T) ->
  lshape P (M * osz sph T L) (axis_tr xzero xadd xscale sph T blk).
Proof.
  intros HB HT. unfold osz.
  apply (axis_shape xzero xadd xscale P HC sph T blk M L (length T) xzero).
  - exact (L2s_len _ _ _ _ HB).
  - intros m Hm. exact (L2s_row _ _ _ _ m HB Hm).
  - intros m c Hm Hc. exact (L2s_ent _ _ _ _ m c xzero HB Hm Hc).
  - reflexivity.
  - exact HT.
Qed.

Lemma axis_stage2 {X} (xzero : X) (xadd : X -> X -> X) (xscale : F -> X -> X) (P : X -> Prop) (ev : X -> A)
      (HC : closed xzero xadd xscale P) (HE : evlin azero aadd ascale xzero xadd xscale P ev)
      sph T (blk : list (list X)) M L (d : X) m q :
  L2s P M L blk -> (sph = true -> Forall (fun r => length r = L) T) ->
  m < M -> q < osz sph T L ->
  ev (nth (m * osz sph T L + q) (axis_tr xzero xadd xscale sph T blk) d)
  = tsum K azero aadd ascale sph T L q (fun c => ev (nth c (nth m blk []) d)).
Proof.
  intros HB HT. unfold osz.
  apply (axis_stage K azero aadd ascale xzero xadd xscale P ev HC HE sph T blk M L (length T) d).
  - exact (L2s_len _ _ _ _ HB).
  - intros m' Hm. exact (L2s_row _ _ _ _ m' HB Hm).
  - intros m' c Hm Hc. exact (L2s_ent _ _ _ _ m' c d HB Hm Hc).
  - reflexivity.
  - exact HT.
Qed.

Section Main.
Variables t1 t2 t3 t4 : bool.
Variables s1 s2 s3 s4 : @sh F.
Variable blk : list (list (list (list R4))).
Variables M1 L1 M2 L2 M3 L3 M4 L4 : nat.
Hypothesis N1 : nsh M1 L1 (sh_n s1).
Hypothesis N2 : nsh M2 L2 (sh_n s2).
Hypothesis N3 : nsh M3 L3 (sh_n s3).
Hypothesis N4 : nsh M4 L4 (sh_n s4).
Hypothesis HB : sh8 M1 L1 M2 L2 M3 L3 M4 L4 blk.
Hypothesis HT1 : t1 = true -> Forall (fun r => length r = L1) (sh_T s1).
Hypothesis HT2 : t2 = true -> Forall (fun r => length r = L2) (sh_T s2).
Hypothesis HT3 : t3 = true -> Forall (fun r => length r = L3) (sh_T s3).
Hypothesis HT4 : t4 = true -> Forall (fun r => length r = L4) (sh_T s4).

Let O1 := osz t1 (sh_T s1) L1.
Let O2 := osz t2 (sh_T s2) L2.
Let O3 := osz t3 (sh_T s3) L3.
Let O4 := osz t4 (sh_T s4) L4.
Let w2 := M2 * O2.
Let w3 := M3 * O3.
Let w4 := M4 * O4.
Let P1 : R1 -> Prop := lshape TA w4.
Let P2 : R2 -> Prop := lshape P1 w3.
Let P3 : R3 -> Prop := lshape P2 w2.
Let z1 : R1 := rzero azero w4.
Let z2 : R2 := rzero z1 w3.
Let z3 : R3 := rzero z2 w2.

(* the normalised entry *)
Definition nrm8 (m1 c1 m2 c2 m3 c3 m4 c4 : nat) : A :=
  ascale (nth c4 (nth m4 (sh_n s4) []) (f0 K)) (ascale (nth c3 (nth m3 (sh_n s3) []) (f0 K))
    (ascale (nth c2 (nth m2 (sh_n s2) []) (f0 K)) (ascale (nth c1 (nth m1 (sh_n s1) []) (f0 K))
       (get8 azero m1 c1 m2 c2 m3 c3 m4 c4 blk)))).

Lemma osz_bound sph (T : list (list F)) L q : q < osz sph T L -> sph = false -> q < L.
Proof. intros H E. now rewrite E in H. Qed.

Theorem block4_spec :
  let B := block4 azero aadd ascale t1 t2 t3 t4 s1 s2 s3 s4 blk in
  lshape (lshape (lshape (lshape TA (M4 * O4)) (M3 * O3)) (M2 * O2)) (M1 * O1) B /\
  forall m1 q1 m2 q2 m3 q3 m4 q4,
    m1 < M1 -> q1 < O1 -> m2 < M2 -> q2 < O2 -> m3 < M3 -> q3 < O3 -> m4 < M4 -> q4 < O4 ->
    Assembly14.get4 azero B (m1 * O1 + q1) (m2 * O2 + q2) (m3 * O3 + q3) (m4 * O4 + q4)
    = tsum K azero aadd ascale t1 (sh_T s1) L1 q1 (fun c1 =>
      tsum K azero aadd ascale t2 (sh_T s2) L2 q2 (fun c2 =>
      tsum K azero aadd ascale t3 (sh_T s3) L3 q3 (fun c3 =>
      tsum K azero aadd ascale t4 (sh_T s4) L4 q4 (fun c4 => nrm8 m1 c1 m2 c2 m3 c3 m4 c4)))).
Proof.
  intros B.
  pose proof (normalise4_shape _ _ _ _ _ _ _ _ _ _ _ _ _ N1 N2 N3 N4 HB) as Hb.
  pose proof (normalise4_entry _ _ _ _ _ _ _ _ _ _ _ _ _ N1 N2 N3 N4 HB azero) as Eb.
  set (b := normalise4 ascale (sh_n s1) (sh_n s2) (sh_n s3) (sh_n s4) blk) in *.
  set (f4 := axis_tr azero aadd ascale t4 (sh_T s4)).
  set (f3 := axis_tr z1 (r1add aadd) (r1scale ascale) t3 (sh_T s3)).
  set (f2 := axis_tr z2 (r2add aadd) (r2scale ascale) t2 (sh_T s2)).
  set (b4 := map (map (map (map (map (map f4))))) b).
  set (b3 := map (map (map (map f3))) b4).
  set (b2 := map (map f2) b3).
  assert (EB : B = axis_tr z3 (r3add aadd) (r3scale ascale) t1 (sh_T s1) b2).
  { unfold B, block4. cbv zeta.
    rewrite (axis_width_eq t4 s4 M4 L4 N4), (axis_width_eq t3 s3 M3 L3 N3), (axis_width_eq t2 s2 M2 L2 N2).
    reflexivity. }
  (* closure at the four levels *)
  pose proof (base_closed azero aadd ascale) as C0.
  pose proof (base_evlin azero aadd ascale) as E0.
  pose proof (row_closed azero aadd ascale TA C0 w4 : closed z1 (r1add aadd) (r1scale ascale) P1) as C1.
  pose proof (row_closed z1 (r1add aadd) (r1scale ascale) P1 C1 w3 : closed z2 (r2add aadd) (r2scale ascale) P2) as C2.
  pose proof (row_closed z2 (r2add aadd) (r2scale ascale) P2 C2 w2 : closed z3 (r3add aadd) (r3scale ascale) P3) as C3.
  (* shapes, bottom up *)
  assert (Hb4 : L2s (L2s (L2s P1 M3 L3) M2 L2) M1 L1 b4).
  { unfold b4. unfold sh8 in Hb.
    apply (map2l_shape _ (L2s (L2s (L2s TA M4 L4) M3 L3) M2 L2)); [exact Hb|]. intros x2 Hx2.
    apply (map2l_shape _ (L2s (L2s TA M4 L4) M3 L3)); [exact Hx2|]. intros x3 Hx3.
    apply (map2l_shape _ (L2s TA M4 L4)); [exact Hx3|]. intros row Hrow.
    exact (axis_shape2 azero aadd ascale TA C0 t4 (sh_T s4) row M4 L4 Hrow HT4). }
  assert (Hb3 : L2s (L2s P2 M2 L2) M1 L1 b3).
  { unfold b3.
    apply (map2l_shape _ (L2s (L2s P1 M3 L3) M2 L2)); [exact Hb4|]. intros x2 Hx2.
    apply (map2l_shape _ (L2s P1 M3 L3)); [exact Hx2|]. intros blk3 Hblk3.
    exact (axis_shape2 z1 (r1add aadd) (r1scale ascale) P1 C1 t3 (sh_T s3) blk3 M3 L3 Hblk3 HT3). }
  assert (Hb2 : L2s P3 M1 L1 b2).
  { unfold b2.
    apply (map2l_shape _ (L2s P2 M2 L2)); [exact Hb3|]. intros blk2 Hblk2.
    exact (axis_shape2 z2 (r2add aadd) (r2scale ascale) P2 C2 t2 (sh_T s2) blk2 M2 L2 Hblk2 HT2). }
  pose proof (axis_shape2 z3 (r3add aadd) (r3scale ascale) P3 C3 t1 (sh_T s1) b2 M1 L1 Hb2 HT1) as HBs.
  rewrite <- EB in HBs.
  split; [exact HBs|].
  intros m1 q1 m2 q2 m3 q3 m4 q4 Hm1 Hq1 Hm2 Hq2 Hm3 Hq3 Hm4 Hq4.
  set (I2 := m2 * O2 + q2). set (I3 := m3 * O3 + q3). set (I4 := m4 * O4 + q4).
  assert (HI2 : I2 < w2) by (unfold I2, w2; now apply idx_lt).
  assert (HI3 : I3 < w3) by (unfold I3, w3; now apply idx_lt).
  assert (HI4 : I4 < w4) by (unfold I4, w4; now apply idx_lt).
  (* linear evaluations *)
  pose proof (row_evlin azero aadd ascale azero aadd ascale TA (fun x => x) E0 w4 I4 azero HI4) as E1.
  pose proof (row_evlin azero aadd ascale z1 (r1add aadd) (r1scale ascale) P1 _ E1 w3 I3 [] HI3) as E2.
  pose proof (row_evlin azero aadd ascale z2 (r2add aadd) (r2scale ascale) P2 _ E2 w2 I2 [] HI2) as E3.
  cbv beta in E1, E2, E3.
  unfold Assembly14.get4. rewrite EB.
  etransitivity; [exact (axis_stage2 z3 (r3add aadd) (r3scale ascale) P3
             (fun r : R3 => nth I4 (nth I3 (nth I2 r []) []) azero) C3 E3 t1 (sh_T s1) b2 M1 L1 [] m1 q1 Hb2 HT1 Hm1 Hq1)|].
  apply tsum_ext; [|exact (osz_bound _ _ _ _ Hq1)]. intros c1 Hc1.
  unfold b2. rewrite (map2l_nth f2 _ M1 L1 b3 m1 c1 [] [] Hb3 Hm1 Hc1).
  pose proof (L2s_ent _ _ _ _ m1 c1 [] Hb3 Hm1 Hc1) as Hblk2.
  unfold f2 at 1.
  etransitivity; [exact (axis_stage2 z2 (r2add aadd) (r2scale ascale) P2
             (fun r : R2 => nth I4 (nth I3 r []) azero) C2 E2 t2 (sh_T s2) _ M2 L2 [] m2 q2 Hblk2 HT2 Hm2 Hq2)|].
  apply tsum_ext; [|exact (osz_bound _ _ _ _ Hq2)]. intros c2 Hc2.
  unfold b3. rewrite (map2l_nth _ _ M1 L1 b4 m1 c1 [] [] Hb4 Hm1 Hc1).
  pose proof (L2s_ent _ _ _ _ m1 c1 [] Hb4 Hm1 Hc1) as Hx2.
  rewrite (map2l_nth f3 _ M2 L2 _ m2 c2 [] [] Hx2 Hm2 Hc2).
  pose proof (L2s_ent _ _ _ _ m2 c2 [] Hx2 Hm2 Hc2) as Hblk3.
  unfold f3 at 1.
  etransitivity; [exact (axis_stage2 z1 (r1add aadd) (r1scale ascale) P1
             (fun r : R1 => nth I4 r azero) C1 E1 t3 (sh_T s3) _ M3 L3 [] m3 q3 Hblk3 HT3 Hm3 Hq3)|].
  apply tsum_ext; [|exact (osz_bound _ _ _ _ Hq3)]. intros c3 Hc3.
  unfold b4. unfold sh8 in Hb. rewrite (map2l_nth _ _ M1 L1 b m1 c1 [] [] Hb Hm1 Hc1).
  pose proof (L2s_ent _ _ _ _ m1 c1 [] Hb Hm1 Hc1) as Hy2.
  rewrite (map2l_nth _ _ M2 L2 _ m2 c2 [] [] Hy2 Hm2 Hc2).
  pose proof (L2s_ent _ _ _ _ m2 c2 [] Hy2 Hm2 Hc2) as Hy3.
  rewrite (map2l_nth f4 _ M3 L3 _ m3 c3 [] [] Hy3 Hm3 Hc3).
  pose proof (L2s_ent _ _ _ _ m3 c3 [] Hy3 Hm3 Hc3) as Hrow.
  unfold f4 at 1.
  etransitivity; [exact (axis_stage2 azero aadd ascale TA (fun x : A => x) C0 E0 t4 (sh_T s4) _ M4 L4 azero m4 q4 Hrow HT4 Hm4 Hq4)|].
  apply tsum_ext; [|exact (osz_bound _ _ _ _ Hq4)]. intros c4 Hc4.
  exact (Eb m1 c1 m2 c2 m3 c3 m4 c4 Hm1 Hc1 Hm2 Hc2 Hm3 Hc3 Hm4 Hc4).
Qed.
End Main.
End Block4.

(* ------------------------------------------------------------------ *)
(* corollaries: shape, all-Cartesian block, "Cartesian block transformed" *)
(* ------------------------------------------------------------------ *)
Section Block4Cor.
Context {F : Type} (K : Fops F).
Context {A : Type} (azero : A) (aadd : A -> A -> A) (ascale : F -> A -> A).
Notation R4 := (list (list (list (list A)))).
Variables t1 t2 t3 t4 : bool.
Variables s1 s2 s3 s4 : @sh F.
Variable blk : list (list (list (list R4))).
Variables M1 L1 M2 L2 M3 L3 M4 L4 : nat.
Hypothesis N1 : nsh M1 L1 (sh_n s1).
Hypothesis N2 : nsh M2 L2 (sh_n s2).
Hypothesis N3 : nsh M3 L3 (sh_n s3).
Hypothesis N4 : nsh M4 L4 (sh_n s4).
Hypothesis HB : sh8 M1 L1 M2 L2 M3 L3 M4 L4 blk.
Hypothesis HT1 : t1 = true -> Forall (fun r => length r = L1) (sh_T s1).
Hypothesis HT2 : t2 = true -> Forall (fun r => length r = L2) (sh_T s2).
Hypothesis HT3 : t3 = true -> Forall (fun r => length r = L3) (sh_T s3).
Hypothesis HT4 : t4 = true -> Forall (fun r => length r = L4) (sh_T s4).

Notation O1 := (osz t1 (sh_T s1) L1).
Notation O2 := (osz t2 (sh_T s2) L2).
Notation O3 := (osz t3 (sh_T s3) L3).
Notation O4 := (osz t4 (sh_T s4) L4).
Notation Bmix := (block4 azero aadd ascale t1 t2 t3 t4 s1 s2 s3 s4 blk).
Notation Bcart := (block4 azero aadd ascale false false false false s1 s2 s3 s4 blk).

Theorem block4_shape :
  lshape (lshape (lshape (lshape (fun _ : A => True) (M4 * O4)) (M3 * O3)) (M2 * O2)) (M1 * O1) Bmix.
Proof. exact (proj1 (block4_spec K azero aadd ascale t1 t2 t3 t4 s1 s2 s3 s4 blk _ _ _ _ _ _ _ _ N1 N2 N3 N4 HB HT1 HT2 HT3 HT4)). Qed.

Theorem block4_entry m1 q1 m2 q2 m3 q3 m4 q4 :
  m1 < M1 -> q1 < O1 -> m2 < M2 -> q2 < O2 -> m3 < M3 -> q3 < O3 -> m4 < M4 -> q4 < O4 ->
  Assembly14.get4 azero Bmix (m1 * O1 + q1) (m2 * O2 + q2) (m3 * O3 + q3) (m4 * O4 + q4)
  = tsum K azero aadd ascale t1 (sh_T s1) L1 q1 (fun c1 =>
    tsum K azero aadd ascale t2 (sh_T s2) L2 q2 (fun c2 =>
    tsum K azero aadd ascale t3 (sh_T s3) L3 q3 (fun c3 =>
    tsum K azero aadd ascale t4 (sh_T s4) L4 q4 (fun c4 =>
      nrm8 K azero ascale s1 s2 s3 s4 blk m1 c1 m2 c2 m3 c3 m4 c4)))).
Proof. exact (proj2 (block4_spec K azero aadd ascale t1 t2 t3 t4 s1 s2 s3 s4 blk _ _ _ _ _ _ _ _ N1 N2 N3 N4 HB HT1 HT2 HT3 HT4) m1 q1 m2 q2 m3 q3 m4 q4). Qed.

(* the all-Cartesian processed block: only the norms *)
Theorem block4_cart_entry m1 c1 m2 c2 m3 c3 m4 c4 :
  m1 < M1 -> c1 < L1 -> m2 < M2 -> c2 < L2 -> m3 < M3 -> c3 < L3 -> m4 < M4 -> c4 < L4 ->
  Assembly14.get4 azero Bcart (m1 * L1 + c1) (m2 * L2 + c2) (m3 * L3 + c3) (m4 * L4 + c4)
  = nrm8 K azero ascale s1 s2 s3 s4 blk m1 c1 m2 c2 m3 c3 m4 c4.
Proof.
  exact (proj2 (block4_spec K azero aadd ascale false false false false s1 s2 s3 s4 blk _ _ _ _ _ _ _ _ N1 N2 N3 N4 HB
                  (fun E => False_ind _ (Bool.diff_false_true E)) (fun E => False_ind _ (Bool.diff_false_true E))
                  (fun E => False_ind _ (Bool.diff_false_true E)) (fun E => False_ind _ (Bool.diff_false_true E)))
               m1 c1 m2 c2 m3 c3 m4 c4).
Qed.

Theorem block4_cart_shape :
  lshape (lshape (lshape (lshape (fun _ : A => True) (M4 * L4)) (M3 * L3)) (M2 * L2)) (M1 * L1) Bcart.
Proof.
  exact (proj1 (block4_spec K azero aadd ascale false false false false s1 s2 s3 s4 blk _ _ _ _ _ _ _ _ N1 N2 N3 N4 HB
                  (fun E => False_ind _ (Bool.diff_false_true E)) (fun E => False_ind _ (Bool.diff_false_true E))
                  (fun E => False_ind _ (Bool.diff_false_true E)) (fun E => False_ind _ (Bool.diff_false_true E)))).
Qed.

(* EVERY entry of the mixed block is T_s1 (x) T_s2 (x) T_s3 (x) T_s4 applied to the all-Cartesian block *)
Theorem block4_is_cart_transformed m1 q1 m2 q2 m3 q3 m4 q4 :
  m1 < M1 -> q1 < O1 -> m2 < M2 -> q2 < O2 -> m3 < M3 -> q3 < O3 -> m4 < M4 -> q4 < O4 ->
  Assembly14.get4 azero Bmix (m1 * O1 + q1) (m2 * O2 + q2) (m3 * O3 + q3) (m4 * O4 + q4)
  = tsum K azero aadd ascale t1 (sh_T s1) L1 q1 (fun c1 =>
    tsum K azero aadd ascale t2 (sh_T s2) L2 q2 (fun c2 =>
    tsum K azero aadd ascale t3 (sh_T s3) L3 q3 (fun c3 =>
    tsum K azero aadd ascale t4 (sh_T s4) L4 q4 (fun c4 =>
      Assembly14.get4 azero Bcart (m1 * L1 + c1) (m2 * L2 + c2) (m3 * L3 + c3) (m4 * L4 + c4))))).
Proof.
  intros Hm1 Hq1 Hm2 Hq2 Hm3 Hq3 Hm4 Hq4. rewrite block4_entry by assumption.
  apply tsum_ext; [|exact (osz_bound _ _ _ _ Hq1)]. intros c1 Hc1.
  apply tsum_ext; [|exact (osz_bound _ _ _ _ Hq2)]. intros c2 Hc2.
  apply tsum_ext; [|exact (osz_bound _ _ _ _ Hq3)]. intros c3 Hc3.
  apply tsum_ext; [|exact (osz_bound _ _ _ _ Hq4)]. intros c4 Hc4.
  symmetry. now apply block4_cart_entry.
Qed.
End Block4Cor.

(* the all-Cartesian block does not look at the transformations *)
Lemma block4_cart_ext {F A} (azero : A) aadd (ascale : F -> A -> A) (s1 s2 s3 s4 s1' s2' s3' s4' : @sh F) blk :
  sh_n s1 = sh_n s1' -> sh_n s2 = sh_n s2' -> sh_n s3 = sh_n s3' -> sh_n s4 = sh_n s4' ->
  block4 azero aadd ascale false false false false s1 s2 s3 s4 blk
  = block4 azero aadd ascale false false false false s1' s2' s3' s4' blk.
Proof. intros E1 E2 E3 E4. unfold block4, axis_width, axis_tr. cbv zeta. now rewrite E1, E2, E3, E4. Qed.

(* ------------------------------------------------------------------ *)
(* over a field: one quadruple sum, independent of the order of the contractions *)
(* ------------------------------------------------------------------ *)
From Coq Require Import Field.
From GB Require Import Proofs.AssembledSphOverlapP.

Section Block4Field.
Context {F : Type} (K : Fops F) (Kf : is_field K).
Add Field KFb4 : Kf.
Local Open Scope F_scope.
Notation "0" := (f0 K) : F_scope.
Notation "1" := (f1 K) : F_scope.
Infix "+" := (fadd K) : F_scope.
Infix "*" := (fmul K) : F_scope.
Notation fsum := (FNum.fsum K).
Notation tsumF := (tsum K 0 (fadd K) (fmul K)).

(* the matrix acting on one index: T for a spherical shell, the identity for a Cartesian one *)
Definition ucoef (sph : bool) (T : list (list F)) (q c : nat) : F :=
  if sph then nth c (nth q T []) 0 else if Nat.eqb q c then 1 else 0.

Lemma tsum_ucoef sph T L q (f : nat -> F) : (sph = false -> (q < L)%nat) ->
  tsumF sph T L q f = fsum (mk L (fun c => ucoef sph T q c * f c)).
Proof.
  intros Hq. unfold tsum, ucoef. destruct sph; [reflexivity|].
  symmetry. apply (fsum_delta K Kf). now apply Hq.
Qed.

Definition qsum4 (L1 L2 L3 L4 : nat) (g : nat -> nat -> nat -> nat -> F) : F :=
  fsum (mk L1 (fun c1 => fsum (mk L2 (fun c2 => fsum (mk L3 (fun c3 => fsum (mk L4 (fun c4 => g c1 c2 c3 c4)))))))).

Lemma qsum4_ext L1 L2 L3 L4 g h :
  (forall c1 c2 c3 c4, (c1 < L1)%nat -> (c2 < L2)%nat -> (c3 < L3)%nat -> (c4 < L4)%nat -> g c1 c2 c3 c4 = h c1 c2 c3 c4) ->
  qsum4 L1 L2 L3 L4 g = qsum4 L1 L2 L3 L4 h.
Proof.
  intros H. unfold qsum4. apply fsum_mk_ext; intros c1 H1. apply fsum_mk_ext; intros c2 H2.
  apply fsum_mk_ext; intros c3 H3. apply fsum_mk_ext; intros c4 H4. now apply H.
Qed.

(* exchange of adjacent summations: every order of the four contractions gives the same number *)
Lemma qsum4_swap12 L1 L2 L3 L4 g :
  qsum4 L1 L2 L3 L4 g = qsum4 L2 L1 L3 L4 (fun c2 c1 c3 c4 => g c1 c2 c3 c4).
Proof. unfold qsum4. apply (fsum_mk_swap K Kf). Qed.
Lemma qsum4_swap23 L1 L2 L3 L4 g :
  qsum4 L1 L2 L3 L4 g = qsum4 L1 L3 L2 L4 (fun c1 c3 c2 c4 => g c1 c2 c3 c4).
Proof. unfold qsum4. apply fsum_mk_ext; intros c1 _. apply (fsum_mk_swap K Kf). Qed.
Lemma qsum4_swap34 L1 L2 L3 L4 g :
  qsum4 L1 L2 L3 L4 g = qsum4 L1 L2 L4 L3 (fun c1 c2 c4 c3 => g c1 c2 c3 c4).
Proof. unfold qsum4. apply fsum_mk_ext; intros c1 _. apply fsum_mk_ext; intros c2 _. apply (fsum_mk_swap K Kf). Qed.

Lemma tsum4_qsum t1 t2 t3 t4 T1 T2 T3 T4 L1 L2 L3 L4 q1 q2 q3 q4 (X : nat -> nat -> nat -> nat -> F) :
  (t1 = false -> (q1 < L1)%nat) -> (t2 = false -> (q2 < L2)%nat) ->
  (t3 = false -> (q3 < L3)%nat) -> (t4 = false -> (q4 < L4)%nat) ->
  tsumF t1 T1 L1 q1 (fun c1 => tsumF t2 T2 L2 q2 (fun c2 => tsumF t3 T3 L3 q3 (fun c3 =>
    tsumF t4 T4 L4 q4 (fun c4 => X c1 c2 c3 c4))))
  = qsum4 L1 L2 L3 L4 (fun c1 c2 c3 c4 =>
      ucoef t1 T1 q1 c1 * ucoef t2 T2 q2 c2 * ucoef t3 T3 q3 c3 * ucoef t4 T4 q4 c4 * X c1 c2 c3 c4).
Proof.
  intros H1 H2 H3 H4. unfold qsum4.
  rewrite tsum_ucoef by exact H1. apply fsum_mk_ext; intros c1 _.
  rewrite tsum_ucoef by exact H2. rewrite (fsum_mk_scale_l K Kf). apply fsum_mk_ext; intros c2 _.
  rewrite tsum_ucoef by exact H3.
  transitivity ((ucoef t1 T1 q1 c1 * ucoef t2 T2 q2 c2) * fsum (mk L3 (fun c3 =>
                  ucoef t3 T3 q3 c3 * tsumF t4 T4 L4 q4 (fun c4 => X c1 c2 c3 c4)))); [ring|].
  rewrite (fsum_mk_scale_l K Kf). apply fsum_mk_ext; intros c3 _.
  rewrite tsum_ucoef by exact H4.
  transitivity ((ucoef t1 T1 q1 c1 * ucoef t2 T2 q2 c2 * ucoef t3 T3 q3 c3) * fsum (mk L4 (fun c4 =>
                  ucoef t4 T4 q4 c4 * X c1 c2 c3 c4))); [ring|].
  rewrite (fsum_mk_scale_l K Kf). apply fsum_mk_ext; intros c4 _. ring.
Qed.

Section Q.
Variables t1 t2 t3 t4 : bool.
Variables s1 s2 s3 s4 : @sh F.
Variable blk : list (list (list (list (list (list (list (list F))))))).
Variables M1 L1 M2 L2 M3 L3 M4 L4 : nat.
Hypothesis N1 : nsh M1 L1 (sh_n s1).
Hypothesis N2 : nsh M2 L2 (sh_n s2).
Hypothesis N3 : nsh M3 L3 (sh_n s3).
Hypothesis N4 : nsh M4 L4 (sh_n s4).
Hypothesis HB : sh8 M1 L1 M2 L2 M3 L3 M4 L4 blk.
Hypothesis HT1 : t1 = true -> Forall (fun r => length r = L1) (sh_T s1).
Hypothesis HT2 : t2 = true -> Forall (fun r => length r = L2) (sh_T s2).
Hypothesis HT3 : t3 = true -> Forall (fun r => length r = L3) (sh_T s3).
Hypothesis HT4 : t4 = true -> Forall (fun r => length r = L4) (sh_T s4).
Notation O1 := (osz t1 (sh_T s1) L1).
Notation O2 := (osz t2 (sh_T s2) L2).
Notation O3 := (osz t3 (sh_T s3) L3).
Notation O4 := (osz t4 (sh_T s4) L4).

Theorem block4_quadruple_sum m1 q1 m2 q2 m3 q3 m4 q4 :
  (m1 < M1)%nat -> (q1 < O1)%nat -> (m2 < M2)%nat -> (q2 < O2)%nat ->
  (m3 < M3)%nat -> (q3 < O3)%nat -> (m4 < M4)%nat -> (q4 < O4)%nat ->
  Assembly14.get4 0 (block4 0 (fadd K) (fmul K) t1 t2 t3 t4 s1 s2 s3 s4 blk)
    (m1 * O1 + q1) (m2 * O2 + q2) (m3 * O3 + q3) (m4 * O4 + q4)
  = qsum4 L1 L2 L3 L4 (fun c1 c2 c3 c4 =>
      ucoef t1 (sh_T s1) q1 c1 * ucoef t2 (sh_T s2) q2 c2 * ucoef t3 (sh_T s3) q3 c3 * ucoef t4 (sh_T s4) q4 c4
      * Assembly14.get4 0 (block4 0 (fadd K) (fmul K) false false false false s1 s2 s3 s4 blk)
          (m1 * L1 + c1) (m2 * L2 + c2) (m3 * L3 + c3) (m4 * L4 + c4)).
Proof.
  intros Hm1 Hq1 Hm2 Hq2 Hm3 Hq3 Hm4 Hq4.
  rewrite (block4_is_cart_transformed K 0 (fadd K) (fmul K) t1 t2 t3 t4 s1 s2 s3 s4 blk
             M1 L1 M2 L2 M3 L3 M4 L4 N1 N2 N3 N4 HB HT1 HT2 HT3 HT4) by assumption.
  apply tsum4_qsum; [exact (osz_bound _ _ _ _ Hq1)|exact (osz_bound _ _ _ _ Hq2)|exact (osz_bound _ _ _ _ Hq3)|exact (osz_bound _ _ _ _ Hq4)].
Qed.
End Q.
End Block4Field.

(* ------------------------------------------------------------------ *)
(* the assembled four-index array (Assembly14.four_symm, OneBody.eri_integral) *)
(* ------------------------------------------------------------------ *)
From GB Require Import Model.Spherical Model.Overlap Model.TwoElec Model.OneBody Proofs.PermP Proofs.EriStructP.

Lemma off_offs w i : off w i = offs w i.
Proof. induction i as [|i IH]; cbn [off offs]; congruence. Qed.

Lemma lshape4_shp4 {A} w1 w2 w3 w4 (m : list (list (list (list A)))) :
  lshape (lshape (lshape (lshape (fun _ : A => True) w4) w3) w2) w1 m -> shp4 w1 w2 w3 w4 m.
Proof.
  unfold shp4, shp3, shp2, shp1. intros H.
  refine (lshape_impl _ _ _ _ _ H). intros x3. refine (lshape_impl _ _ _ _ _). intros x2.
  refine (lshape_impl _ _ _ _ _). intros x1 [H1 _]. exact H1.
Qed.

Section FourAsm.
Context {F : Type} (K : Fops F).
Context {A : Type} (azero : A) (aadd : A -> A -> A) (ascale : F -> A -> A).
Notation R4 := (list (list (list (list A)))).
Variable ss : list (@sh F).
Variable bf : nat -> nat -> nat -> nat -> list (list (list (list R4))).
Variables Mf Lf : nat -> nat.          (* segments / Cartesian components of shell k *)
Let n := length ss.
Let dsh : @sh F := mkSh false [] [].
Let s_ k := nth k ss dsh.
Hypothesis HN : forall k, k < n -> nsh (Mf k) (Lf k) (sh_n (s_ k)).
Hypothesis HT : forall k, k < n -> sh_sph (s_ k) = true -> Forall (fun r => length r = Lf k) (sh_T (s_ k)).
Hypothesis HB : forall i j k l, i < n -> j < n -> k < n -> l < n ->
  sh8 (Mf i) (Lf i) (Mf j) (Lf j) (Mf k) (Lf k) (Mf l) (Lf l) (bf i j k l).

Definition Of (k : nat) : nat := osz (sh_sph (s_ k)) (sh_T (s_ k)) (Lf k).
Definition rmix (k : nat) : nat := Mf k * Of k.
Definition rcart (k : nat) : nat := Mf k * Lf k.

Lemma B4f_mix_shape : shape4 n rmix (B4f azero aadd ascale 2 ss bf).
Proof.
  intros i j k l Hi Hj Hk Hl. unfold B4f. cbv zeta. apply lshape4_shp4.
  exact (block4_shape K azero aadd ascale _ _ _ _ _ _ _ _ _ _ _ _ _ _ _ _ _
           (HN i Hi) (HN j Hj) (HN k Hk) (HN l Hl) (HB i j k l Hi Hj Hk Hl) (HT i Hi) (HT j Hj) (HT k Hk) (HT l Hl)).
Qed.

Lemma B4f_cart_shape : shape4 n rcart (B4f azero aadd ascale 0 ss bf).
Proof.
  intros i j k l Hi Hj Hk Hl. unfold B4f. cbv zeta. apply lshape4_shp4.
  exact (block4_cart_shape K azero aadd ascale _ _ _ _ _ _ _ _ _ _ _ _ _
           (HN i Hi) (HN j Hj) (HN k Hk) (HN l Hl) (HB i j k l Hi Hj Hk Hl)).
Qed.

(* entry of the assembled array of a basis with ANY assignment of coordinate types (mode 2 = the mix path)
   = T on each of the four indices of the assembled all-Cartesian array (mode 0 = the cartesian path).
   The eight-fold block symmetry [sym8] of the processed blocks is the hypothesis under which the store of
   base_four_symm.py holds the block of every quartet (Proofs/PermP.lookup_all_writes, property C11). *)
Theorem four_symm_mix_is_cart_transformed i j k l m1 q1 m2 q2 m3 q3 m4 q4 :
  sym8 azero n (B4f azero aadd ascale 2 ss bf) -> sym8 azero n (B4f azero aadd ascale 0 ss bf) ->
  i < n -> j < n -> k < n -> l < n ->
  m1 < Mf i -> q1 < Of i -> m2 < Mf j -> q2 < Of j -> m3 < Mf k -> q3 < Of k -> m4 < Mf l -> q4 < Of l ->
  Assembly14.get4 azero (four_symm azero aadd ascale 2 ss bf)
    (offs rmix i + (m1 * Of i + q1)) (offs rmix j + (m2 * Of j + q2))
    (offs rmix k + (m3 * Of k + q3)) (offs rmix l + (m4 * Of l + q4))
  = tsum K azero aadd ascale (sh_sph (s_ i)) (sh_T (s_ i)) (Lf i) q1 (fun c1 =>
    tsum K azero aadd ascale (sh_sph (s_ j)) (sh_T (s_ j)) (Lf j) q2 (fun c2 =>
    tsum K azero aadd ascale (sh_sph (s_ k)) (sh_T (s_ k)) (Lf k) q3 (fun c3 =>
    tsum K azero aadd ascale (sh_sph (s_ l)) (sh_T (s_ l)) (Lf l) q4 (fun c4 =>
      Assembly14.get4 azero (four_symm azero aadd ascale 0 ss bf)
        (offs rcart i + (m1 * Lf i + c1)) (offs rcart j + (m2 * Lf j + c2))
        (offs rcart k + (m3 * Lf k + c3)) (offs rcart l + (m4 * Lf l + c4)))))).
Proof.
  intros S2 S0 Hi Hj Hk Hl Hm1 Hq1 Hm2 Hq2 Hm3 Hq3 Hm4 Hq4.
  rewrite (four_symm_is_concat azero aadd ascale 2 ss bf S2).
  rewrite <- !off_offs.
  rewrite (four_concat_entry azero n rmix _ B4f_mix_shape i j k l) by (try assumption; unfold rmix; now apply idx_lt).
  unfold B4f at 1. cbv zeta.
  rewrite (block4_is_cart_transformed K azero aadd ascale _ _ _ _ _ _ _ _ _ _ _ _ _ _ _ _ _
             (HN i Hi) (HN j Hj) (HN k Hk) (HN l Hl) (HB i j k l Hi Hj Hk Hl) (HT i Hi) (HT j Hj) (HT k Hk) (HT l Hl))
    by assumption.
  apply tsum_ext; [|exact (osz_bound _ _ _ _ Hq1)]. intros c1 Hc1.
  apply tsum_ext; [|exact (osz_bound _ _ _ _ Hq2)]. intros c2 Hc2.
  apply tsum_ext; [|exact (osz_bound _ _ _ _ Hq3)]. intros c3 Hc3.
  apply tsum_ext; [|exact (osz_bound _ _ _ _ Hq4)]. intros c4 Hc4.
  rewrite (four_symm_is_concat azero aadd ascale 0 ss bf S0).
  rewrite (four_concat_entry azero n rcart _ B4f_cart_shape i j k l) by (try assumption; unfold rcart; now apply idx_lt).
  reflexivity.
Qed.
End FourAsm.

(* ---- electron_repulsion_integral (OneBody.eri_integral), chemists' notation, no final transformation ---- *)
Section EriAsm.
Context {F : Type} (K : Fops F).
Notation R4 := (list (list (list (list F)))).
Notation "0" := (f0 K).
Variable bs : list (shell F).
Let n := length bs.
Let bsc := map to_cart bs.
Notation s_ k := (sh_at K bs k).
Notation dsh := (mkSh (F:=F) false [] []).

Lemma ess_length : length (ess K bs) = n.
Proof. unfold ess. now rewrite !map_length. Qed.

Lemma ess_nth k : k < n ->
  nth k (ess K bs) dsh = mkSh (s_sph (s_ k)) (shell_transform K (s_ k)) (norm_cont K (s_ k)).
Proof.
  intros Hk. unfold ess. rewrite (PermP.nth_map_lt _ _ k (dummy_p K)) by (now rewrite map_length).
  rewrite nth_prep by exact Hk. reflexivity.
Qed.

Lemma ebf_eq i j k l : i < n -> j < n -> k < n -> l < n ->
  ebf K bs i j k l = eri_block K (s_ i) (s_ j) (s_ k) (s_ l).
Proof. intros Hi Hj Hk Hl. unfold ebf. cbv zeta. now rewrite !nth_prep by assumption. Qed.

Lemma norm_cont_nsh (s : shell F) : nsh (nseg s) (ncomp s) (norm_cont K s).
Proof.
  destruct (norm_cont_shape K s) as [HL HR]. apply (lshape_of_nth _ _ _ []); [exact HL|exact HR].
Qed.

Lemma eri_block_sh8 (a b c d : shell F) :
  sh8 (nseg a) (ncomp a) (nseg b) (ncomp b) (nseg c) (ncomp c) (nseg d) (ncomp d) (eri_block K a b c d).
Proof.
  unfold sh8, L2s, lshape, eri_block, ncomp. cbv zeta.
  split; [apply mk_length|]. apply Forall_mk'; intros m1 _.
  split; [apply mk_length|]. apply Forall_mk'; intros i1 _.
  split; [apply mk_length|]. apply Forall_mk'; intros m2 _.
  split; [apply mk_length|]. apply Forall_mk'; intros i2 _.
  split; [apply mk_length|]. apply Forall_mk'; intros m3 _.
  split; [apply mk_length|]. apply Forall_mk'; intros i3 _.
  split; [apply mk_length|]. apply Forall_mk'; intros m4 _.
  split; [apply mk_length|]. apply Forall_mk'; intros i4 _. exact I.
Qed.

Let Mf k := nseg (s_ k).
Let Lf k := ncomp (s_ k).

Lemma eHN k : k < length (ess K bs) -> nsh (Mf k) (Lf k) (sh_n (nth k (ess K bs) dsh)).
Proof. rewrite ess_length. intros Hk. rewrite ess_nth by exact Hk. apply norm_cont_nsh. Qed.
Lemma eHT k : k < length (ess K bs) -> sh_sph (nth k (ess K bs) dsh) = true ->
  Forall (fun r => length r = Lf k) (sh_T (nth k (ess K bs) dsh)).
Proof. rewrite ess_length. intros Hk _. rewrite ess_nth by exact Hk. apply shell_transform_rows. Qed.
Lemma eHB i j k l : i < length (ess K bs) -> j < length (ess K bs) -> k < length (ess K bs) -> l < length (ess K bs) ->
  sh8 (Mf i) (Lf i) (Mf j) (Lf j) (Mf k) (Lf k) (Mf l) (Lf l) (ebf K bs i j k l).
Proof. rewrite ess_length. intros Hi Hj Hk Hl. rewrite ebf_eq by assumption. apply eri_block_sh8. Qed.

Lemma eOf k : k < n -> Of (ess K bs) Lf k = osize (s_ k).
Proof. intros Hk. unfold Of. rewrite ess_nth by exact Hk. apply osz_shell. Qed.

Lemma ermix_off k : k <= n -> offs (rmix (ess K bs) Mf Lf) k = ooff K bs k.
Proof.
  intros Hk. unfold ooff. apply offs_ext. intros t Ht. unfold rmix, odim. rewrite eOf by lia. reflexivity.
Qed.
Lemma ercart_off k : offs (rcart Mf Lf) k = boff K bs k.
Proof. reflexivity. Qed.

(* the processed block of the all-Cartesian basis is the mode-0 block of the mixed one *)
Lemma Beri_to_cart i j k l : i < n -> j < n -> k < n -> l < n ->
  Beri K bsc i j k l = B4f 0 (fadd K) (fmul K) 0 (ess K bs) (ebf K bs) i j k l.
Proof.
  intros Hi Hj Hk Hl. unfold Beri, B4f. cbv zeta.
  assert (Ln : length bsc = n) by (unfold bsc; now rewrite map_length).
  assert (E : forall t, t < n ->
     nth t (ess K bsc) dsh = mkSh false (shell_transform K (to_cart (s_ t))) (norm_cont K (s_ t))).
  { intros t Ht. unfold ess. rewrite (PermP.nth_map_lt _ _ t (dummy_p K)) by (now rewrite map_length, Ln).
    rewrite nth_prep by (now rewrite Ln). unfold bsc. rewrite sh_at_to_cart. reflexivity. }
  assert (EB : ebf K bsc i j k l = ebf K bs i j k l).
  { unfold ebf. cbv zeta. rewrite !nth_prep by (rewrite ?Ln; assumption).
    unfold bsc. rewrite !sh_at_to_cart. reflexivity. }
  rewrite !E by assumption. cbn [sh_sph]. rewrite EB.
  apply block4_cart_ext; rewrite ess_nth by assumption; reflexivity.
Qed.

Lemma sym8_to_cart : sym8 0 n (Beri K bsc) -> sym8 0 n (B4f 0 (fadd K) (fmul K) 0 (ess K bs) (ebf K bs)).
Proof.
  intros H i j k l Hi Hj Hk Hl. rewrite <- !Beri_to_cart by assumption. now apply H.
Qed.

Lemma eri_cart_is_mode0 : sym8 0 n (Beri K bsc) ->
  eri_integral K bsc None false = four_symm 0 (fadd K) (fmul K) 0 (ess K bs) (ebf K bs).
Proof.
  intros H. rewrite eri_integral_chem.
  assert (Ln : length (ess K bsc) = n) by (unfold ess, bsc; now rewrite !map_length).
  rewrite four_symm_is_concat by (rewrite Ln; exact H).
  rewrite (four_symm_is_concat 0 (fadd K) (fmul K) 0 (ess K bs) (ebf K bs)) by (rewrite ess_length; now apply sym8_to_cart).
  rewrite Ln, ess_length. apply four_concat_ext. intros i j k l Hi Hj Hk Hl. now apply Beri_to_cart.
Qed.

(* EVERY entry of the ERI array of a basis with any assignment of coordinate types is T (x) T (x) T (x) T applied
   to the ERI array of the same basis with all shells Cartesian; oidx / gidx: the output / Cartesian index maps of
   Proofs/AssembledSphP.v / AssembledP.v *)
Theorem eri_mixed_is_cart_transformed i j k l m1 q1 m2 q2 m3 q3 m4 q4 :
  sym8 0 n (Beri K bs) -> sym8 0 n (Beri K bsc) ->
  i < n -> j < n -> k < n -> l < n ->
  m1 < nseg (s_ i) -> q1 < osize (s_ i) -> m2 < nseg (s_ j) -> q2 < osize (s_ j) ->
  m3 < nseg (s_ k) -> q3 < osize (s_ k) -> m4 < nseg (s_ l) -> q4 < osize (s_ l) ->
  Assembly14.get4 0 (eri_integral K bs None false)
    (oidx K bs i m1 q1) (oidx K bs j m2 q2) (oidx K bs k m3 q3) (oidx K bs l m4 q4)
  = tsum K 0 (fadd K) (fmul K) (s_sph (s_ i)) (shell_transform K (s_ i)) (ncomp (s_ i)) q1 (fun c1 =>
    tsum K 0 (fadd K) (fmul K) (s_sph (s_ j)) (shell_transform K (s_ j)) (ncomp (s_ j)) q2 (fun c2 =>
    tsum K 0 (fadd K) (fmul K) (s_sph (s_ k)) (shell_transform K (s_ k)) (ncomp (s_ k)) q3 (fun c3 =>
    tsum K 0 (fadd K) (fmul K) (s_sph (s_ l)) (shell_transform K (s_ l)) (ncomp (s_ l)) q4 (fun c4 =>
      Assembly14.get4 0 (eri_integral K bsc None false)
        (gidx K bs i m1 c1) (gidx K bs j m2 c2) (gidx K bs k m3 c3) (gidx K bs l m4 c4))))).
Proof.
  intros S2 S0 Hi Hj Hk Hl Hm1 Hq1 Hm2 Hq2 Hm3 Hq3 Hm4 Hq4.
  rewrite (eri_cart_is_mode0 S0). rewrite eri_integral_chem.
  pose proof (four_symm_mix_is_cart_transformed K 0 (fadd K) (fmul K) (ess K bs) (ebf K bs) Mf Lf eHN eHT eHB
                i j k l m1 q1 m2 q2 m3 q3 m4 q4) as H.
  rewrite ess_length in H. unfold Beri in S2.
  specialize (H S2 (sym8_to_cart S0) Hi Hj Hk Hl).
  rewrite !eOf in H by assumption. rewrite !ermix_off in H by (unfold n in *; lia).
  rewrite !ess_nth in H by assumption. cbn [sh_sph sh_T] in H.
  unfold oidx, gidx. exact (H Hm1 Hq1 Hm2 Hq2 Hm3 Hq3 Hm4 Hq4).
Qed.
End EriAsm.

(* ------------------------------------------------------------------ *)
(* the hypotheses are satisfiable (labelled integers, Proofs/PermEx.v: shells with 1, 2 (two segments) and
   2 (spherical, from 3 Cartesian components) functions); one instance evaluated *)
(* ------------------------------------------------------------------ *)
From Coq Require Import ZArith.
From GB Require Import Proofs.PermEx.

Lemma ex_block4_hyps :
  (forall k, k < 3 -> nsh (nM k) (nL4 k) (sh_n (nth k ss4 (mkSh false [] [])))) /\
  (forall k, k < 3 -> sh_sph (nth k ss4 (mkSh false [] [])) = true ->
     Forall (fun r => length r = nL4 k) (sh_T (nth k ss4 (mkSh false [] [])))) /\
  (forall i j k l, i < 3 -> j < 3 -> k < 3 -> l < 3 ->
     sh8 (nM i) (nL4 i) (nM j) (nL4 j) (nM k) (nL4 k) (nM l) (nL4 l) (raw4 i j k l)) /\
  sym8 0%Z 3 (B4f 0%Z Z.add Z.mul 2 ss4 raw4) /\ sym8 0%Z 3 (B4f 0%Z Z.add Z.mul 0 ss4 raw4).
Proof.
  split; [|split; [|split; [|split]]].
  - intros k Hk. cases3 k Hk; (split; [reflexivity|repeat constructor]).
  - intros k Hk. cases3 k Hk; cbn; intros E; try discriminate. repeat constructor.
  - intros i j k l Hi Hj Hk Hl. unfold sh8, L2s, lshape, raw4.
    split; [apply mk_length|]. apply Forall_mk'; intros m1 _.
    split; [apply mk_length|]. apply Forall_mk'; intros i1 _.
    split; [apply mk_length|]. apply Forall_mk'; intros m2 _.
    split; [apply mk_length|]. apply Forall_mk'; intros i2 _.
    split; [apply mk_length|]. apply Forall_mk'; intros m3 _.
    split; [apply mk_length|]. apply Forall_mk'; intros i3 _.
    split; [apply mk_length|]. apply Forall_mk'; intros m4 _.
    split; [apply mk_length|]. apply Forall_mk'; intros i4 _. exact I.
  - exact ex_sym8.
  - intros i j k l Hi Hj Hk Hl. cases3 i Hi; cases3 j Hj; cases3 k Hk; cases3 l Hl;
      vm_compute; repeat split; reflexivity.
Qed.

(* entry (shell 2 function 1, shell 1 segment 1, shell 2 function 0, shell 0) of the mixed array, and the same
   number from the all-Cartesian array through T of the spherical shell 2 on indices 1 and 3 *)
Lemma ex_block4_instance :
  let mix := four_symm 0%Z Z.add Z.mul 2 ss4 raw4 in
  let cart := four_symm 0%Z Z.add Z.mul 0 ss4 raw4 in
  let T := sh_T sh_c in
  Assembly14.get4 0%Z mix 4 2 3 0
  = fold_right Z.add 0%Z (mk 3 (fun c1 => (nth c1 (nth 1 T []) 0 * fold_right Z.add 0 (mk 3 (fun c3 =>
      nth c3 (nth 0 T []) 0 * Assembly14.get4 0%Z cart (3 + c1) 2 (3 + c3) 0)))%Z)).
Proof. vm_compute. reflexivity. Qed.
