(* Proofs/GramIntP.v — bridge B3 of DESIGN.md 2.6 turned into THEOREMS for the overlap and the
   kinetic-energy matrices of the executable model over the reals (property C17).

   Setting.  [RK] is the instance of the number interface at the real numbers (Proofs/ScreeningP.v);
   [gint3 F l] (Gauss/Bridge3D.v) says that the ITERATED improper Riemann integral of F over R^3 exists and
   is l; [cfun s m c] is the contracted, primitive-normalised Cartesian basis function of segment m,
   component c of the shell s.  A basis function is named by a triple [bidx] = (shell, segment, index of the
   component in [comps_of]); it is [bvalid] when the shell is well formed ([wf_shell]), its exponents are
   positive and the two indices are in range.  Shells may sit at ANY centres, have any angular momentum,
   any number of primitives and segments.
       Sov a b  = entry [seg a][comp a][seg b][comp b] of  overlap_block RK (shell a) (shell b)
       Tkin a b = the same entry of                        kinetic_block RK (shell a) (shell b)
   (the numbers the model computes, before the constant contraction norms are applied; a diagonal
   rescaling n_a n_b G_ab keeps every statement below, [psd_on_scale]).

   Proved here (no hypothesis left about positivity of a bilinear form):
     gint_nonneg, gint3_nonneg     the (iterated) improper integral of a pointwise non-negative function is >= 0
     gint3_qf                      linearity: integrals of a family B a b  ->  integral of its quadratic form
     overlap_quadratic_form_is_integral
                                   sum_a sum_b c_a c_b Sov a b  is the iterated integral of (sum_a c_a chi_a)^2
     overlap_model_psd             hence >= 0 for EVERY finite coefficient list over valid functions
     overlap_model_symm/schwarz/unit_bound     Sov a b = Sov b a;  Sov a b^2 <= Sov a a Sov b b;  |Sov a b| <= 1
                                   when the two diagonal entries are 1
     grad_1d_integral              int f' g' dx = - int f g'' dx for two Gaussian primitives (one axis; integration
                                   by parts, from DiffOpP.ibp_iter and Bridge3D.deriv_1d_integral)
     kinetic_pair_is_grad_integral Tkin a b = iterated integral of 1/2 grad chi_a . grad chi_b
     kinetic_quadratic_form_is_integral
                                   sum_a sum_b c_a c_b Tkin a b = iterated integral of 1/2 |grad (sum_a c_a chi_a)|^2
     kinetic_model_psd/symm/schwarz
     psd_symm_is_gram              every symmetric PSD matrix IS the Gram matrix of an [ipspace] (finitely supported
                                   coefficient vectors with the form c^T G d)
     overlap_model_is_gram, kinetic_model_is_gram      the two [exists] hypotheses of GramP.all_bounds_from_B3
     all_bounds_S_T_proved         that theorem with the overlap and kinetic hypotheses DISCHARGED

   What remains trusted for these two matrices: that the iterated improper Riemann integral [gint3] is THE
   integral over R^3 (Fubini-Tonelli for continuous absolutely integrable functions) — nothing about
   positivity.  Still resting on B3 (with B2): the point-charge form and the Coulomb form.
   Assumptions: the classical real numbers of the standard library only. *)
From Coq Require Import Reals Lra Lia List Psatz.
From Coquelicot Require Import Coquelicot.
From GB Require Import Base.Field Base.FNum Base.Tables Gauss.Moment1D Gauss.Bridge Gauss.DerivBridge
  Gauss.BridgeR Gauss.GaussInt Model.Eval Model.Shell Model.MomentInt Model.Overlap Model.DiffOp Proofs.DiffOpP
  Proofs.CoreSumP Proofs.CoreBlockP Proofs.CoreDiffP Proofs.ScreeningP Proofs.CoreNormP Gauss.Bridge3D
  Proofs.GramP.
Import ListNotations.
Open Scope R_scope.

(* ------------------------------------------------------------------ *)
(* 1. positivity of the improper integrals                             *)
(* ------------------------------------------------------------------ *)
Lemma gint_nonneg (g : R -> R) (l : R) : (forall x, 0 <= g x) -> gint g l -> 0 <= l.
Proof.
  intros Hg H. destruct (Rle_lt_dec 0 l) as [Hl|Hl]; [exact Hl|exfalso].
  assert (He : 0 < - l / 2) by lra.
  destruct (proj1 (gint_spelled_out g l) H (mkposreal _ He)) as [M HM]. cbn [pos] in HM.
  pose proof (Rle_abs M) as HaM. pose proof (Rabs_pos M) as HaM0.
  destruct (HM (- (Rabs M + 1)) (Rabs M + 1)) as [y [Hy Hd]]; [lra | lra |].
  assert (H0 : 0 <= y).
  { apply (is_RInt_ge_0 g (- (Rabs M + 1)) (Rabs M + 1) y); [lra | exact Hy | intros x _; apply Hg]. }
  apply Rabs_def2 in Hd. lra.
Qed.

Lemma gint_le (f g : R -> R) (lf lg : R) : (forall x, f x <= g x) -> gint f lf -> gint g lg -> lf <= lg.
Proof.
  intros H Hf Hg.
  pose proof (gint_nonneg (fun x => g x - f x) (lg - lf)
                (fun x => ltac:(pose proof (H x); lra)) (gint_minus _ _ _ _ Hg Hf)). lra.
Qed.

Theorem gint3_nonneg (F : R -> R -> R -> R) (l : R) :
  (forall x y z, 0 <= F x y z) -> gint3 F l -> 0 <= l.
Proof.
  intros HF [Iz [Iyz [H1 [H2 H3]]]].
  assert (P1 : forall x y, 0 <= Iz x y)
    by (intros x y; exact (gint_nonneg _ _ (fun z => HF x y z) (H1 x y))).
  assert (P2 : forall x, 0 <= Iyz x)
    by (intro x; exact (gint_nonneg _ _ (fun y => P1 x y) (H2 x))).
  exact (gint_nonneg _ _ P2 H3).
Qed.

(* ------------------------------------------------------------------ *)
(* 2. linearity over finite lists; quadratic forms                     *)
(* ------------------------------------------------------------------ *)
Lemma gint3_rsum {A} (l : list A) (G : A -> R -> R -> R -> R) (v : A -> R) :
  (forall a, In a l -> gint3 (G a) (v a)) ->
  gint3 (fun x y z => rsum (map (fun a => G a x y z) l)) (rsum (map v l)).
Proof.
  induction l as [|a l IH]; intro H; cbn [map rsum].
  - exact gint3_zero.
  - apply (gint3_plus (G a) (fun x y z => rsum (map (fun a0 => G a0 x y z) l))).
    + apply H. now left.
    + apply IH. intros b Hb. apply H. now right.
Qed.

(* sum_p c_p f(a_p) *)
Definition lc {I} (f : I -> R) (l : list (R * I)) : R := rsum (map (fun p => fst p * f (snd p)) l).

Lemma rsum_map_scal_r {A} (c : R) (f : A -> R) l :
  rsum (map (fun x => f x * c) l) = rsum (map f l) * c.
Proof.
  rewrite (rsum_map_ext (fun x => f x * c) (fun x => c * f x)) by (intro; ring).
  rewrite rsum_map_scal. ring.
Qed.

Lemma qf_rank1 {I} (f : I -> R) (l : list (R * I)) : qf (fun a b => f a * f b) l = lc f l * lc f l.
Proof.
  unfold qf, lc. rewrite <- rsum_map_scal_r. apply rsum_map_ext. intro p.
  rewrite <- rsum_map_scal. apply rsum_map_ext. intro q. ring.
Qed.

Lemma qf_map {I J} (h : I -> J) (G : J -> J -> R) (l : list (R * I)) :
  qf (fun a b => G (h a) (h b)) l = qf G (map (fun p => (fst p, h (snd p))) l).
Proof.
  unfold qf. rewrite map_map. apply rsum_map_ext. intro p. rewrite map_map. reflexivity.
Qed.

(* positivity / symmetry restricted to a set of indices *)
Definition psd_on {I} (ok : I -> Prop) (G : I -> I -> R) : Prop :=
  forall l : list (R * I), (forall p, In p l -> ok (snd p)) -> 0 <= qf G l.
Definition symm_on {I} (ok : I -> Prop) (G : I -> I -> R) : Prop :=
  forall a b, ok a -> ok b -> G a b = G b a.

(* diagonal rescaling (contraction norms, any other constant factors) keeps positivity *)
Lemma qf_scale {I} (n : I -> R) (G : I -> I -> R) (l : list (R * I)) :
  qf (fun a b => n a * n b * G a b) l = qf G (map (fun p => (fst p * n (snd p), snd p)) l).
Proof.
  unfold qf. rewrite map_map. apply rsum_map_ext. intro p. rewrite map_map.
  apply rsum_map_ext. intro q. cbn [fst snd]. ring.
Qed.

Lemma psd_on_scale {I} (ok : I -> Prop) (n : I -> R) (G : I -> I -> R) :
  psd_on ok G -> psd_on ok (fun a b => n a * n b * G a b).
Proof.
  intros H l Hl. rewrite qf_scale. apply H. intros p Hp.
  apply in_map_iff in Hp. destruct Hp as [q [<- Hq]]. cbn [snd]. now apply Hl.
Qed.

(* the subtype of valid indices carries a genuine [psd] / [symm] matrix *)
Lemma psd_on_sig {I} (ok : I -> Prop) (G : I -> I -> R) :
  psd_on ok G -> psd (fun a b : {a : I | ok a} => G (proj1_sig a) (proj1_sig b)).
Proof.
  intros H l. rewrite (qf_map (fun a : {a : I | ok a} => proj1_sig a) G). apply H.
  intros p Hp. apply in_map_iff in Hp. destruct Hp as [q [<- Hq]]. cbn [snd]. exact (proj2_sig (snd q)).
Qed.

Lemma psd_on_schwarz {I} (ok : I -> Prop) (G : I -> I -> R) a b :
  symm_on ok G -> psd_on ok G -> ok a -> ok b -> G a b * G a b <= G a a * G b b.
Proof.
  intros Hs Hp Ha Hb.
  exact (psd_schwarz (fun a b : {a : I | ok a} => G (proj1_sig a) (proj1_sig b))
           (exist _ a Ha) (exist _ b Hb)
           (fun u v => Hs _ _ (proj2_sig u) (proj2_sig v)) (psd_on_sig ok G Hp)).
Qed.

Lemma psd_on_unit_bound {I} (ok : I -> Prop) (G : I -> I -> R) a b :
  symm_on ok G -> psd_on ok G -> ok a -> ok b -> G a a = 1 -> G b b = 1 -> Rabs (G a b) <= 1.
Proof.
  intros Hs Hp Ha Hb Da Db.
  exact (psd_unit_diag_bound (fun a b : {a : I | ok a} => G (proj1_sig a) (proj1_sig b))
           (exist _ a Ha) (exist _ b Hb)
           (fun u v => Hs _ _ (proj2_sig u) (proj2_sig v)) (psd_on_sig ok G Hp) Da Db).
Qed.

(* a family of integrals B a b -> G a b gives the integral of every quadratic form *)
Section QFInt.
Context {I : Type}.
Variables (B : I -> I -> R -> R -> R -> R) (G : I -> I -> R) (ok : I -> Prop).
Hypothesis HB : forall a b, ok a -> ok b -> gint3 (B a b) (G a b).

Lemma gint3_qf (l : list (R * I)) : (forall p, In p l -> ok (snd p)) ->
  gint3 (fun x y z => qf (fun a b => B a b x y z) l) (qf G l).
Proof.
  intro Hl. unfold qf.
  apply (gint3_rsum l (fun p x y z => rsum (map (fun q => fst p * fst q * B (snd p) (snd q) x y z) l))
                      (fun p => rsum (map (fun q => fst p * fst q * G (snd p) (snd q)) l))).
  intros p Hp.
  apply (gint3_rsum l (fun q x y z => fst p * fst q * B (snd p) (snd q) x y z)
                      (fun q => fst p * fst q * G (snd p) (snd q))).
  intros q Hq. apply (gint3_scal (fst p * fst q) (B (snd p) (snd q))). apply HB; now apply Hl.
Qed.

Lemma gint3_symm_on :
  (forall a b x y z, B a b x y z = B b a x y z) -> symm_on ok G.
Proof.
  intros Hsym a b Ha Hb. apply (gint3_unique (B a b)); [now apply HB|].
  apply (gint3_ext (B b a) _ (G b a) _); [intros; symmetry; apply Hsym | reflexivity | now apply HB].
Qed.

Lemma gint3_psd_on :
  (forall l x y z, 0 <= qf (fun a b => B a b x y z) l) -> psd_on ok G.
Proof.
  intros Hpos l Hl. exact (gint3_nonneg _ _ (fun x y z => Hpos l x y z) (gint3_qf l Hl)).
Qed.
End QFInt.

(* ------------------------------------------------------------------ *)
(* 3. every symmetric PSD matrix is a Gram matrix                      *)
(* ------------------------------------------------------------------ *)
Section GramSpace.
Context {J : Type}.
Variable G : J -> J -> R.
Hypothesis Gs : symm G.
Hypothesis Gp : psd G.

(* c^T G d for finitely supported coefficient vectors *)
Definition bil (u v : list (R * J)) : R :=
  rsum (map (fun p => rsum (map (fun q => fst p * fst q * G (snd p) (snd q)) v)) u).

Lemma rsum_swap {A B} (h : A -> B -> R) (u : list A) (v : list B) :
  rsum (map (fun p => rsum (map (fun q => h p q) v)) u)
  = rsum (map (fun q => rsum (map (fun p => h p q) u)) v).
Proof.
  induction u as [|a u IH]; cbn [map rsum].
  - induction v as [|b v IHv]; cbn [map rsum]; [reflexivity|]. rewrite <- IHv. ring.
  - rewrite IH, <- rsum_map_add. reflexivity.
Qed.

Lemma bil_sym u v : bil u v = bil v u.
Proof.
  unfold bil. rewrite rsum_swap. apply rsum_map_ext. intro q. apply rsum_map_ext. intro p.
  rewrite (Gs (snd p) (snd q)). ring.
Qed.

Lemma rsum_app (l1 l2 : list R) : rsum (l1 ++ l2) = rsum l1 + rsum l2.
Proof. induction l1 as [|a l1 IH]; cbn [app rsum]; [ring|]. rewrite IH. ring. Qed.

Lemma bil_add_l u v w : bil (u ++ v) w = bil u w + bil v w.
Proof. unfold bil. now rewrite map_app, rsum_app. Qed.

Lemma bil_scal_l c u w : bil (map (fun p => (c * fst p, snd p)) u) w = c * bil u w.
Proof.
  unfold bil. rewrite map_map, <- rsum_map_scal. apply rsum_map_ext. intro p. cbn [fst snd].
  rewrite <- rsum_map_scal. apply rsum_map_ext. intro q. ring.
Qed.

Definition gram_space : ipspace :=
  mkIP (list (R * J)) (@app _) (fun c u => map (fun p => (c * fst p, snd p)) u) [] bil
       bil_sym bil_add_l bil_scal_l (fun _ => eq_refl) (fun v => Gp v).

Lemma gram_space_entry a b : G a b = ip gram_space [(1, a)] [(1, b)].
Proof. cbn [ip gram_space]. unfold bil. cbn [map rsum fst snd]. ring. Qed.
End GramSpace.

Theorem psd_symm_is_gram {J} (G : J -> J -> R) : symm G -> psd G ->
  exists (S : ipspace) (phi : J -> vec S), forall a b, G a b = ip S (phi a) (phi b).
Proof.
  intros Gs Gp. exists (gram_space G Gs Gp), (fun a => [(1, a)]). apply gram_space_entry.
Qed.

(* ------------------------------------------------------------------ *)
(* 4. the overlap matrix of the model is a Gram matrix                 *)
(* ------------------------------------------------------------------ *)
(* a basis function: (shell, segment, index of the Cartesian component in [comps_of]) *)
Definition bidx : Type := (shell R * nat * nat)%type.
Definition bsh (a : bidx) : shell R := fst (fst a).
Definition bseg (a : bidx) : nat := snd (fst a).
Definition bci (a : bidx) : nat := snd a.
Definition bcomp (a : bidx) : Shell.comp := nth (bci a) (comps_of (bsh a)) (0, 0, 0)%nat.

Definition bvalid (a : bidx) : Prop :=
  wf_shell (bsh a) /\ pos_exps3 (bsh a) /\ (bseg a < nseg (bsh a))%nat /\ (bci a < length (comps_of (bsh a)))%nat.

(* the function itself *)
Definition chi (a : bidx) : R -> R -> R -> R := cfun (bsh a) (bseg a) (bcomp a).

(* the numbers the model computes *)
Definition Sov (a b : bidx) : R :=
  Overlap.nth4 RK (bseg a) (bci a) (bseg b) (bci b) (overlap_block RK (bsh a) (bsh b)).
Definition Tkin (a b : bidx) : R :=
  Overlap.nth4 RK (bseg a) (bci a) (bseg b) (bci b) (kinetic_block RK (bsh a) (bsh b)).

(* the linear combination sum_p c_p chi_{a_p} as a function *)
Definition lcf (l : list (R * bidx)) (x y z : R) : R := lc (fun a => chi a x y z) l.

Lemma overlap_pair_is_integral (a b : bidx) : bvalid a -> bvalid b ->
  gint3 (fun x y z => chi a x y z * chi b x y z) (Sov a b).
Proof.
  intros [Wa [Pa [Hma Hia]]] [Wb [Pb [Hmb Hib]]].
  exact (overlap_block_is_integral (bsh a) (bsh b) (bseg a) (bci a) (bseg b) (bci b) Wa Wb Pa Pb Hma Hia Hmb Hib).
Qed.

Theorem overlap_quadratic_form_is_integral (l : list (R * bidx)) :
  (forall p, In p l -> bvalid (snd p)) ->
  gint3 (fun x y z => lcf l x y z * lcf l x y z) (qf Sov l).
Proof.
  intro Hl.
  refine (gint3_ext _ _ _ _ _ eq_refl
            (gint3_qf (fun a b x y z => chi a x y z * chi b x y z) Sov bvalid overlap_pair_is_integral l Hl)).
  intros x y z. apply (qf_rank1 (fun a => chi a x y z)).
Qed.

Theorem overlap_model_psd : psd_on bvalid Sov.
Proof.
  intros l Hl. apply (gint3_nonneg _ _ (fun x y z => Rle_0_sqr (lcf l x y z))
                        (overlap_quadratic_form_is_integral l Hl)).
Qed.

Theorem overlap_model_symm : symm_on bvalid Sov.
Proof.
  apply (gint3_symm_on (fun a b x y z => chi a x y z * chi b x y z) Sov bvalid overlap_pair_is_integral).
  intros. ring.
Qed.

Theorem overlap_model_schwarz (a b : bidx) : bvalid a -> bvalid b ->
  Sov a b * Sov a b <= Sov a a * Sov b b.
Proof. apply psd_on_schwarz; [exact overlap_model_symm | exact overlap_model_psd]. Qed.

Theorem overlap_model_unit_bound (a b : bidx) : bvalid a -> bvalid b ->
  Sov a a = 1 -> Sov b b = 1 -> Rabs (Sov a b) <= 1.
Proof. apply psd_on_unit_bound; [exact overlap_model_symm | exact overlap_model_psd]. Qed.

(* with the constant factors the assembled level applies (n = contraction norms): still PSD, and
   the Schwarz bound in its scale-free form *)
Corollary overlap_model_scaled_psd (n : bidx -> R) : psd_on bvalid (fun a b => n a * n b * Sov a b).
Proof. apply psd_on_scale. exact overlap_model_psd. Qed.

(* the subtype of valid basis functions; the overlap matrix on it IS a Gram matrix *)
Definition vidx : Type := {a : bidx | bvalid a}.
Definition SovV (a b : vidx) : R := Sov (proj1_sig a) (proj1_sig b).
Definition TkinV (a b : vidx) : R := Tkin (proj1_sig a) (proj1_sig b).

Lemma SovV_symm : symm SovV.
Proof. intros a b. exact (overlap_model_symm _ _ (proj2_sig a) (proj2_sig b)). Qed.
Lemma SovV_psd : psd SovV.
Proof. exact (psd_on_sig bvalid Sov overlap_model_psd). Qed.

Theorem overlap_model_is_gram :
  exists (L2 : ipspace) (phi : vidx -> vec L2), forall a b, SovV a b = ip L2 (phi a) (phi b).
Proof. exact (psd_symm_is_gram SovV SovV_symm SovV_psd). Qed.

(* ------------------------------------------------------------------ *)
(* 5. kinetic energy: integration by parts, one axis                   *)
(* ------------------------------------------------------------------ *)
Lemma Derive_n_1 (f : R -> R) x : Derive_n f 1 x = Derive f x.
Proof. reflexivity. Qed.
Lemma Derive_n_0 (f : R -> R) x : Derive_n f 0 x = f x.
Proof. reflexivity. Qed.

(* d/dx [(x-A)^i e^{-al (x-A)^2}] = i (x-A)^(i-1) e^.. - 2 al (x-A)^(i+1) e^.. *)
Lemma cg1_Derive1 al A i x :
  Derive (cg1 al A i) x = INR i * cg1 al A (i - 1) x - 2 * al * cg1 al A (S i) x.
Proof.
  change (Derive (cg1 al A i) x) with (Derive_n (cg1 al A i) 1 x).
  rewrite cg1_Derive_n, uR_S. destruct i as [|i']; rewrite !uR_0; unfold cg1.
  - cbn [INR]. ring.
  - rewrite DerivBridge.ofnat_INR. replace (S i' - 1)%nat with i' by lia. ring.
Qed.

(* int f' g' dx = - int f g'' dx  for f = (x-A)^i e^{-al (x-A)^2}, g = (x-B)^j e^{-be (x-B)^2}:
   the left side by linearity from  int (x-A)^k e^.. g' dx  (Bridge3D.deriv_1d_integral, k = 1), the equality
   of the two VALUES by the algebraic integration-by-parts identity of the moment functional
   (DiffOpP.ibp, ibp_iter: negA^2 S = Bop^2 S) *)
Theorem grad_1d_integral (al be A B : R) (i j : nat) : 0 < al -> 0 < be ->
  gint (fun x => Derive (cg1 al A i) x * Derive (cg1 be B j) x) (- D1 RK A B al be 2 i j).
Proof.
  intros Ha Hb.
  pose proof (deriv_1d_integral al be A B 1 (i - 1) j Ha Hb) as H1.
  pose proof (deriv_1d_integral al be A B 1 (S i) j Ha Hb) as H2.
  refine (gint_ext _ _ _ _ _ _ (gint_minus _ _ _ _ (gint_scal (INR i) _ _ H1) (gint_scal (2 * al) _ _ H2))).
  - intro x. cbv beta. rewrite cg1_Derive1.
    change (Derive_n (cg1 be B j) 1 x) with (Derive (cg1 be B j) x). ring.
  - assert (Hp : psum RK al be <> f0 RK) by (change (al + be <> 0); lra).
    pose proof (ibp_iter RK RK_field A B al be Hp two_neq_0_R 2 i j) as E2. cbn [iterop] in E2.
    unfold D1. cbn [iterop]. rewrite <- E2. unfold negA at 1.
    rewrite !(ibp RK RK_field A B al be Hp two_neq_0_R). rewrite ofnat_R.
    change (fmul RK) with Rmult. change (fadd RK) with Rplus. change (fsub RK) with Rminus.
    change (f1 RK) with 1. ring.
Qed.

(* ------------------------------------------------------------------ *)
(* 6. kinetic energy in three dimensions: T_ab = 1/2 int grad chi_a . grad chi_b *)
(* ------------------------------------------------------------------ *)
(* grad F . grad G *)
Definition gdot (F G : R -> R -> R -> R) (x y z : R) : R :=
  pd3 1 0 0 F x y z * pd3 1 0 0 G x y z + pd3 0 1 0 F x y z * pd3 0 1 0 G x y z
  + pd3 0 0 1 F x y z * pd3 0 0 1 G x y z.

Theorem kinetic_prim_grad_integral (sa sb : shell R) (ca cb : Shell.comp) (al be : R) :
  0 < al -> 0 < be ->
  gint3 (fun x y z => 1 / 2 * gdot (gprim sa al ca) (gprim sb be cb) x y z) (kin_prim RK sa sb ca cb al be).
Proof.
  intros Ha Hb.
  pose proof (fun A B i j => grad_1d_integral al be A B i j Ha Hb) as HG.
  pose proof (fun A B i j => Sfun_integral al be A B i j Ha Hb) as HS.
  pose proof (gint3_prod _ _ _ _ _ _ (HG (s_x sa) (s_x sb) (cx ca) (cx cb)) (HS (s_y sa) (s_y sb) (cy ca) (cy cb))
                (HS (s_z sa) (s_z sb) (cz ca) (cz cb))) as X.
  pose proof (gint3_prod _ _ _ _ _ _ (HS (s_x sa) (s_x sb) (cx ca) (cx cb)) (HG (s_y sa) (s_y sb) (cy ca) (cy cb))
                (HS (s_z sa) (s_z sb) (cz ca) (cz cb))) as Y.
  pose proof (gint3_prod _ _ _ _ _ _ (HS (s_x sa) (s_x sb) (cx ca) (cx cb)) (HS (s_y sa) (s_y sb) (cy ca) (cy cb))
                (HG (s_z sa) (s_z sb) (cz ca) (cz cb))) as Z.
  refine (gint3_ext _ _ _ _ _ _ (gint3_scal (1 / 2) _ _ (gint3_plus _ _ _ _ (gint3_plus _ _ _ _ X Y) Z))).
  - intros x y z. cbv beta. unfold gdot, gprim. rewrite !pd3_cprim, !Derive_n_1, !Derive_n_0. ring.
  - unfold kin_prim, S1.
    change (fmul RK) with Rmult. change (fadd RK) with Rplus. change (fdiv RK) with Rdiv.
    change (fopp RK) with Ropp. change (f1 RK) with 1. field.
Qed.

(* finite sums of Tables.mk form: additivity and scaling *)
Lemma fsumR_plus n (f g : nat -> R) :
  fsumR (Tables.mk n f) + fsumR (Tables.mk n g) = fsumR (Tables.mk n (fun i => f i + g i)).
Proof. induction n as [|n IH]; [cbn; ring|]. rewrite !fsumR_S, <- IH. ring. Qed.

Lemma fsumR_scal c n (f : nat -> R) :
  c * fsumR (Tables.mk n f) = fsumR (Tables.mk n (fun i => c * f i)).
Proof. induction n as [|n IH]; [cbn; ring|]. rewrite !fsumR_S, <- IH. ring. Qed.

Lemma pd3_pair_cfun (sa sb : shell R) (ca cb : Shell.comp) (ma mb ox oy oz : nat) (x y z : R) :
  pd3 ox oy oz (cfun sa ma ca) x y z * pd3 ox oy oz (cfun sb mb cb) x y z
  = fsumR (Tables.mk (length (s_exps sa)) (fun ka =>
      fsumR (Tables.mk (length (s_exps sb)) (fun kb =>
        cw sa ma ca ka * cw sb mb cb kb
        * (pd3 ox oy oz (gprim sa (nth ka (s_exps sa) 0) ca) x y z
           * pd3 ox oy oz (gprim sb (nth kb (s_exps sb) 0) cb) x y z))))).
Proof.
  rewrite !pd3_cfun, fsumR_prod. apply fsumR_ext. intro ka. apply fsumR_ext. intro kb. ring.
Qed.

Lemma gdot_cfun (sa sb : shell R) (ca cb : Shell.comp) (ma mb : nat) (w : R) (x y z : R) :
  w * gdot (cfun sa ma ca) (cfun sb mb cb) x y z
  = fsumR (Tables.mk (length (s_exps sa)) (fun ka =>
      fsumR (Tables.mk (length (s_exps sb)) (fun kb =>
        cw sa ma ca ka * cw sb mb cb kb
        * (w * gdot (gprim sa (nth ka (s_exps sa) 0) ca) (gprim sb (nth kb (s_exps sb) 0) cb) x y z))))).
Proof.
  unfold gdot. rewrite !pd3_pair_cfun, !fsumR_plus, fsumR_scal.
  apply fsumR_ext. intro ka. rewrite !fsumR_plus, fsumR_scal. apply fsumR_ext. intro kb. ring.
Qed.

Theorem kinetic_pair_is_grad_integral (a b : bidx) : bvalid a -> bvalid b ->
  gint3 (fun x y z => 1 / 2 * gdot (chi a) (chi b) x y z) (Tkin a b).
Proof.
  intros [Wa [Pa [Hma Hia]]] [Wb [Pb [Hmb Hib]]]. unfold Tkin.
  rewrite (kinetic_block_correct RK RK_field fapx_id_R two_neq_0_R (bsh a) (bsh b) (bseg a) (bci a) (bseg b) (bci b)
             Wa Wb (exps_ok_pos_R _ _ Pa Pb) Hma Hia Hmb Hib).
  fold (bcomp a) (bcomp b).
  refine (gint3_ext _ _ _ _ _ eq_refl
            (contracted_integral (bsh a) (bsh b) (bcomp a) (bcomp b) (bseg a) (bseg b)
               (fun al be x y z => 1 / 2 * gdot (gprim (bsh a) al (bcomp a)) (gprim (bsh b) be (bcomp b)) x y z) _ _)).
  - intros x y z. cbv beta. unfold chi. now rewrite gdot_cfun.
  - intros al be Ha Hb. exact (kinetic_prim_grad_integral _ _ _ _ al be (Pa _ Ha) (Pb _ Hb)).
Qed.

(* ------------------------------------------------------------------ *)
(* 7. the kinetic-energy matrix of the model is a Gram matrix          *)
(* ------------------------------------------------------------------ *)
(* sum_p c_p (d/dx_i chi_{a_p}): the partial derivatives of the linear combination (see pd3_lcf) *)
Definition lcd (ox oy oz : nat) (l : list (R * bidx)) (x y z : R) : R :=
  lc (fun a => pd3 ox oy oz (chi a) x y z) l.

Lemma qf_gdot (l : list (R * bidx)) (x y z : R) :
  qf (fun a b => 1 / 2 * gdot (chi a) (chi b) x y z) l
  = 1 / 2 * (lcd 1 0 0 l x y z * lcd 1 0 0 l x y z + lcd 0 1 0 l x y z * lcd 0 1 0 l x y z
             + lcd 0 0 1 l x y z * lcd 0 0 1 l x y z).
Proof.
  unfold gdot, lcd.
  rewrite (qf_scal (1 / 2)
             (fun a b => pd3 1 0 0 (chi a) x y z * pd3 1 0 0 (chi b) x y z
                         + pd3 0 1 0 (chi a) x y z * pd3 0 1 0 (chi b) x y z
                         + pd3 0 0 1 (chi a) x y z * pd3 0 0 1 (chi b) x y z) l).
  rewrite (qf_add (fun a b => pd3 1 0 0 (chi a) x y z * pd3 1 0 0 (chi b) x y z
                              + pd3 0 1 0 (chi a) x y z * pd3 0 1 0 (chi b) x y z)
                  (fun a b => pd3 0 0 1 (chi a) x y z * pd3 0 0 1 (chi b) x y z) l).
  rewrite (qf_add (fun a b => pd3 1 0 0 (chi a) x y z * pd3 1 0 0 (chi b) x y z)
                  (fun a b => pd3 0 1 0 (chi a) x y z * pd3 0 1 0 (chi b) x y z) l).
  rewrite (qf_rank1 (fun a => pd3 1 0 0 (chi a) x y z)), (qf_rank1 (fun a => pd3 0 1 0 (chi a) x y z)),
          (qf_rank1 (fun a => pd3 0 0 1 (chi a) x y z)).
  reflexivity.
Qed.

Theorem kinetic_quadratic_form_is_integral (l : list (R * bidx)) :
  (forall p, In p l -> bvalid (snd p)) ->
  gint3 (fun x y z => 1 / 2 * (lcd 1 0 0 l x y z * lcd 1 0 0 l x y z + lcd 0 1 0 l x y z * lcd 0 1 0 l x y z
                               + lcd 0 0 1 l x y z * lcd 0 0 1 l x y z))
        (qf Tkin l).
Proof.
  intro Hl.
  refine (gint3_ext _ _ _ _ _ eq_refl
            (gint3_qf (fun a b x y z => 1 / 2 * gdot (chi a) (chi b) x y z) Tkin bvalid
                      kinetic_pair_is_grad_integral l Hl)).
  intros x y z. apply qf_gdot.
Qed.

Theorem kinetic_model_psd : psd_on bvalid Tkin.
Proof.
  intros l Hl. refine (gint3_nonneg _ _ _ (kinetic_quadratic_form_is_integral l Hl)).
  intros x y z. cbv beta.
  pose proof (Rle_0_sqr (lcd 1 0 0 l x y z)) as Hx. pose proof (Rle_0_sqr (lcd 0 1 0 l x y z)) as Hy.
  pose proof (Rle_0_sqr (lcd 0 0 1 l x y z)) as Hz. unfold Rsqr in *. lra.
Qed.

Theorem kinetic_model_symm : symm_on bvalid Tkin.
Proof.
  apply (gint3_symm_on (fun a b x y z => 1 / 2 * gdot (chi a) (chi b) x y z) Tkin bvalid
                       kinetic_pair_is_grad_integral).
  intros. unfold gdot. ring.
Qed.

Theorem kinetic_model_schwarz (a b : bidx) : bvalid a -> bvalid b ->
  Tkin a b * Tkin a b <= Tkin a a * Tkin b b.
Proof. apply psd_on_schwarz; [exact kinetic_model_symm | exact kinetic_model_psd]. Qed.

Lemma TkinV_symm : symm TkinV.
Proof. intros a b. exact (kinetic_model_symm _ _ (proj2_sig a) (proj2_sig b)). Qed.
Lemma TkinV_psd : psd TkinV.
Proof. exact (psd_on_sig bvalid Tkin kinetic_model_psd). Qed.

Theorem kinetic_model_is_gram :
  exists (H1 : ipspace) (dphi : vidx -> vec H1), forall a b, TkinV a b = ip H1 (dphi a) (dphi b).
Proof. exact (psd_symm_is_gram TkinV TkinV_symm TkinV_psd). Qed.

(* integration by parts at the level of the model's numbers: the two integral readings of the kinetic
   entry (Bridge3D.kinetic_block_is_integral: chi_a (-1/2 Laplacian) chi_b; here: 1/2 grad . grad) have the
   same value *)
Corollary kinetic_two_readings (a b : bidx) : bvalid a -> bvalid b ->
  gint3 (fun x y z => chi a x y z * (- (1 / 2) * lap3 (chi b) x y z)) (Tkin a b) /\
  gint3 (fun x y z => 1 / 2 * gdot (chi a) (chi b) x y z) (Tkin a b).
Proof.
  intros Ha Hb. split; [|now apply kinetic_pair_is_grad_integral].
  destruct Ha as [Wa [Pa [Hma Hia]]]. destruct Hb as [Wb [Pb [Hmb Hib]]].
  exact (kinetic_block_is_integral (bsh a) (bsh b) (bseg a) (bci a) (bseg b) (bci b) Wa Wb Pa Pb Hma Hia Hmb Hib).
Qed.

(* ------------------------------------------------------------------ *)
(* 8. GramP.all_bounds_from_B3 with the overlap and kinetic hypotheses discharged *)
(* ------------------------------------------------------------------ *)
(* any family v of valid basis functions of the model (any index type I; repetitions allowed):
   Sm a b = Sov (v a) (v b), Tm a b = Tkin (v a) (v b) are PROVED Gram matrices; what is left as a hypothesis is
   the Gram representation of the point-charge and repulsion arrays (bridge B3 with B2) *)
Theorem all_bounds_S_T_proved (I : Type) (v : I -> vidx) (Vm : I -> I -> R) (G : I -> I -> I -> I -> R) (q : R) :
  0 <= q ->
  (exists (W : ipspace) (phi : I -> vec W), forall a b, Vm a b = - q * ip W (phi a) (phi b)) ->
  (exists (C : ipspace) (rho : I -> I -> vec C), forall a b c d, G a b c d = ip C (rho a b) (rho c d)) ->
  let Sm := fun a b => SovV (v a) (v b) in
  let Tm := fun a b => TkinV (v a) (v b) in
  symm Sm /\ psd Sm /\ (forall a b, Sm a b * Sm a b <= Sm a a * Sm b b) /\
  ((forall a, Sm a a = 1) -> forall a b, Rabs (Sm a b) <= 1) /\
  symm Tm /\ psd Tm /\ (forall a b, Tm a b * Tm a b <= Tm a a * Tm b b) /\
  symm Vm /\ nsd Vm /\
  psd (fun p r : I * I => G (fst p) (snd p) (fst r) (snd r)) /\
  (forall a b c d, G a b c d = G c d a b) /\
  (forall a b, 0 <= G a b a b) /\
  (forall a b c d, G a b c d * G a b c d <= G a b a b * G c d c d).
Proof.
  intros Hq HV HG Sm Tm.
  assert (Ss : symm Sm) by (intros a b; apply SovV_symm).
  assert (Sp : psd Sm) by (intro l; unfold Sm; rewrite (qf_map v SovV); apply SovV_psd).
  assert (Ts : symm Tm) by (intros a b; apply TkinV_symm).
  assert (Tp : psd Tm) by (intro l; unfold Tm; rewrite (qf_map v TkinV); apply TkinV_psd).
  destruct (psd_symm_is_gram Sm Ss Sp) as [L2 [phi HS]].
  destruct (psd_symm_is_gram Tm Ts Tp) as [H1 [dphi HT]].
  split; [exact Ss|]. split; [exact Sp|].
  split; [intros a b; now apply psd_schwarz|].
  split; [intros Hd a b; apply psd_unit_diag_bound; auto|].
  split; [exact Ts|]. split; [exact Tp|].
  split; [intros a b; now apply psd_schwarz|].
  (* the remaining conjuncts: GramP.all_bounds_from_B3 on a one-point overlap to reuse its proof *)
  destruct HV as [W [wphi HV]]. destruct HG as [C [rho HG]].
  split; [intros a b; rewrite !HV; f_equal; apply ip_sym|].
  split; [intros l; rewrite (qf_ext Vm (fun a b => - q * gram W wphi a b) l HV); now apply neg_charge_nsd|].
  split; [apply (psd_ext _ (eri_mat C rho)); [intros p r; apply HG | apply eri_pair_psd]|].
  split; [intros a b c d; rewrite !HG; apply ip_sym|].
  split; [intros a b; rewrite HG; apply ip_pos|].
  intros a b c d. rewrite !HG. apply (eri_schwarz C rho).
Qed.

(* ------------------------------------------------------------------ *)
(* 9. the partial derivatives of the linear combination: |grad (sum_a c_a chi_a)|^2 *)
(* ------------------------------------------------------------------ *)
Lemma ex_derive_cprim_x al Ax Ay Az c y z x : ex_derive (fun t => cprim al Ax Ay Az c t y z) x.
Proof. unfold cprim. auto_derive. exact I. Qed.
Lemma ex_derive_cprim_y al Ax Ay Az c x z y : ex_derive (fun t => cprim al Ax Ay Az c x t z) y.
Proof. unfold cprim. auto_derive. exact I. Qed.
Lemma ex_derive_cprim_z al Ax Ay Az c x y z : ex_derive (fun t => cprim al Ax Ay Az c x y t) z.
Proof. unfold cprim. auto_derive. exact I. Qed.

Lemma ex_derive_fsum n (c : nat -> R) (h : nat -> R -> R) x :
  (forall i, ex_derive (h i) x) -> ex_derive (fun t => fsumR (Tables.mk n (fun i => c i * h i t))) x.
Proof.
  intro H. exists (fsumR (Tables.mk n (fun i => c i * Derive (h i) x))).
  apply (is_derive_fsum n c h (fun i => Derive (h i) x) x). intro i. apply Derive_correct, H.
Qed.

Lemma ex_derive_chi (a : bidx) (x y z : R) :
  ex_derive (fun t => chi a t y z) x /\ ex_derive (fun t => chi a x t z) y /\ ex_derive (fun t => chi a x y t) z.
Proof.
  unfold chi, cfun, gprim. split; [|split].
  - apply (ex_derive_fsum _ (cw (bsh a) (bseg a) (bcomp a))
             (fun k t => cprim (nth k (s_exps (bsh a)) 0) (s_x (bsh a)) (s_y (bsh a)) (s_z (bsh a)) (bcomp a) t y z)).
    intro k. apply ex_derive_cprim_x.
  - apply (ex_derive_fsum _ (cw (bsh a) (bseg a) (bcomp a))
             (fun k t => cprim (nth k (s_exps (bsh a)) 0) (s_x (bsh a)) (s_y (bsh a)) (s_z (bsh a)) (bcomp a) x t z)).
    intro k. apply ex_derive_cprim_y.
  - apply (ex_derive_fsum _ (cw (bsh a) (bseg a) (bcomp a))
             (fun k t => cprim (nth k (s_exps (bsh a)) 0) (s_x (bsh a)) (s_y (bsh a)) (s_z (bsh a)) (bcomp a) x y t)).
    intro k. apply ex_derive_cprim_z.
Qed.

Lemma Derive_lc {I} (f : I -> R -> R) (l : list (R * I)) (x : R) :
  (forall a, ex_derive (f a) x) ->
  Derive (fun t => lc (fun a => f a t) l) x = lc (fun a => Derive (f a) x) l.
Proof.
  intro H. apply is_derive_unique. unfold lc. induction l as [|p l IH]; cbn [map rsum].
  - apply (is_derive_const (0 : R)).
  - apply (is_derive_plus (fun t => fst p * f (snd p) t) (fun t => rsum (map (fun p0 => fst p0 * f (snd p0) t) l))).
    + apply (is_derive_scal (f (snd p)) x (fst p)). apply Derive_correct, H.
    + exact IH.
Qed.

(* the three first partial derivatives of sum_p c_p chi_{a_p} are the combinations of the partial derivatives
   (no validity hypothesis: every contracted function is differentiable) *)
Theorem pd3_lcf (l : list (R * bidx)) (x y z : R) :
  pd3 1 0 0 (lcf l) x y z = lcd 1 0 0 l x y z /\
  pd3 0 1 0 (lcf l) x y z = lcd 0 1 0 l x y z /\
  pd3 0 0 1 (lcf l) x y z = lcd 0 0 1 l x y z.
Proof.
  split; [|split].
  - exact (Derive_lc (fun a t => chi a t y z) l x (fun a => proj1 (ex_derive_chi a x y z))).
  - exact (Derive_lc (fun a t => chi a x t z) l y (fun a => proj1 (proj2 (ex_derive_chi a x y z)))).
  - exact (Derive_lc (fun a t => chi a x y t) l z (fun a => proj2 (proj2 (ex_derive_chi a x y z)))).
Qed.

(* sum_a sum_b c_a c_b T_ab = iterated integral of 1/2 |grad (sum_a c_a chi_a)|^2 *)
Theorem kinetic_quadratic_form_is_grad_integral (l : list (R * bidx)) :
  (forall p, In p l -> bvalid (snd p)) ->
  gint3 (fun x y z => 1 / 2 * gdot (lcf l) (lcf l) x y z) (qf Tkin l).
Proof.
  intro Hl. refine (gint3_ext _ _ _ _ _ eq_refl (kinetic_quadratic_form_is_integral l Hl)).
  intros x y z. cbv beta. unfold gdot. destruct (pd3_lcf l x y z) as [-> [-> ->]]. reflexivity.
Qed.

(* ------------------------------------------------------------------ *)
(* 10. the hypotheses are satisfiable: an s shell (two primitives) at the origin and a p shell at
       (1, -1, 1/2); the four functions s, p_x, p_y, p_z                                          *)
(* ------------------------------------------------------------------ *)
Definition ex_sh_s : shell R := mkShell R 0 0 0 0 [1; 1 / 2] [[1]; [2]] false [] [].
Definition ex_sh_p : shell R := mkShell R 1 1 (-1) (1 / 2) [2] [[1]] false [] [].
Definition ex_f_s : bidx := (ex_sh_s, 0%nat, 0%nat).
Definition ex_f_p (i : nat) : bidx := (ex_sh_p, 0%nat, i).

Example ex_family_valid : bvalid ex_f_s /\ bvalid (ex_f_p 0) /\ bvalid (ex_f_p 1) /\ bvalid (ex_f_p 2).
Proof.
  assert (Ws : wf_shell ex_sh_s) by (apply wf_shell_default; reflexivity).
  assert (Wp : wf_shell ex_sh_p) by (apply wf_shell_default; reflexivity).
  assert (Ps : pos_exps3 ex_sh_s) by (intros a [<-|[<-|[]]]; lra).
  assert (Pp : pos_exps3 ex_sh_p) by (intros a [<-|[]]; lra).
  assert (L : forall i, (i < 3)%nat -> bvalid (ex_f_p i)).
  { intros i Hi. split; [exact Wp|]. split; [exact Pp|]. split; cbn; lia. }
  split; [|split; [|split]]; try (apply L; lia).
  split; [exact Ws|]. split; [exact Ps|]. split; cbn; lia.
Qed.

Definition ex_coeffs (c0 c1 c2 c3 : R) : list (R * bidx) :=
  [(c0, ex_f_s); (c1, ex_f_p 0); (c2, ex_f_p 1); (c3, ex_f_p 2)].

Lemma ex_coeffs_valid c0 c1 c2 c3 : forall p, In p (ex_coeffs c0 c1 c2 c3) -> bvalid (snd p).
Proof.
  destruct ex_family_valid as [V0 [V1 [V2 V3]]].
  intros p [<-|[<-|[<-|[<-|[]]]]]; assumption.
Qed.

(* the overlap and kinetic matrices of the (s, p) pair of shells on different centres are PSD *)
Example ex_two_shell_psd (c0 c1 c2 c3 : R) :
  0 <= qf Sov (ex_coeffs c0 c1 c2 c3) /\ 0 <= qf Tkin (ex_coeffs c0 c1 c2 c3).
Proof.
  split; [apply overlap_model_psd | apply kinetic_model_psd]; apply ex_coeffs_valid.
Qed.

Example ex_two_shell_schwarz :
  Sov ex_f_s (ex_f_p 2) * Sov ex_f_s (ex_f_p 2) <= Sov ex_f_s ex_f_s * Sov (ex_f_p 2) (ex_f_p 2).
Proof.
  destruct ex_family_valid as [V0 [_ [_ V3]]]. now apply overlap_model_schwarz.
Qed.

(* the hypotheses of all_bounds_S_T_proved are satisfiable: the four functions above, zero charge form
   and zero repulsion array (both trivially Gram matrices: the zero vector) *)
Example ex_all_bounds_hypotheses :
  exists (v : nat -> vidx) (Vm : nat -> nat -> R) (G : nat -> nat -> nat -> nat -> R),
  (exists (W : ipspace) (phi : nat -> vec W), forall a b, Vm a b = - 1 * ip W (phi a) (phi b)) /\
  (exists (C : ipspace) (rho : nat -> nat -> vec C), forall a b c d, G a b c d = ip C (rho a b) (rho c d)).
Proof.
  destruct ex_family_valid as [V0 [V1 [V2 V3]]].
  exists (fun i => match i with 0%nat => exist _ ex_f_s V0 | 1%nat => exist _ (ex_f_p 0) V1
                           | 2%nat => exist _ (ex_f_p 1) V2 | _ => exist _ (ex_f_p 2) V3 end),
         (fun _ _ => 0), (fun _ _ _ _ => 0).
  split.
  - exists R2, (fun _ => (0, 0)). intros. cbn. ring.
  - exists R2, (fun _ _ => (0, 0)). intros. cbn. ring.
Qed.

(* the definitions, spelled out (for Props/C17_integral.v) *)
Lemma model_matrices_def (s t : shell R) (m i n j : nat) :
  Sov (s, m, i) (t, n, j) = Overlap.nth4 RK m i n j (overlap_block RK s t) /\
  Tkin (s, m, i) (t, n, j) = Overlap.nth4 RK m i n j (kinetic_block RK s t) /\
  chi (s, m, i) = cfun s m (nth i (comps_of s) (0, 0, 0)%nat) /\
  (bvalid (s, m, i) <-> wf_shell s /\ (forall a, In a (s_exps s) -> 0 < a) /\ (m < nseg s)%nat /\ (i < length (comps_of s))%nat).
Proof. split; [reflexivity|]. split; [reflexivity|]. split; [reflexivity|]. split; intro H; exact H. Qed.

Lemma lcf_def (l : list (R * bidx)) (x y z : R) :
  lcf l x y z = rsum (map (fun p => fst p * chi (snd p) x y z) l).
Proof. reflexivity. Qed.

Lemma gdot_def (F G : R -> R -> R -> R) (x y z : R) :
  gdot F G x y z = Derive (fun t => F t y z) x * Derive (fun t => G t y z) x
                   + Derive (fun t => F x t z) y * Derive (fun t => G x t z) y
                   + Derive (fun t => F x y t) z * Derive (fun t => G x y t) z.
Proof. reflexivity. Qed.
