(* Proofs/CoreNormP.v — the primitive normalisation constant of contractions.py:455-461
   ([norm_prim] of Model/MomentInt.v) normalises the self-overlap spec to 1.

   Part 1 (any field): on one centre (A = B, alpha = beta) the 1-D spec integral is a pure Gaussian
   moment,  T1 A A C alpha alpha 0 i j = m_{i+j},  with  m_{2n} = (2n-1)!! v^n,  m_{2n+1} = 0,
   v = 1/(4 alpha).
   Part 2 (the reals, [RK] of Proofs/ScreeningP.v: real sqrt, exp, PI):
     norm_prim_sq          N(alpha,a)^2 (pi/(2 alpha))^{3/2} prod_i (2a_i-1)!!/(4 alpha)^{a_i} = 1
     norm_prim_self_overlap N(alpha,a)^2 x ovl_prim s s a a alpha alpha = 1     (the spec of Proofs/CoreBlockP.v)
   for every alpha > 0 and every component a with a_x+a_y+a_z = l.  x^{3/2} is written x * sqrt x. *)
From Coq Require Import List Arith Lia Field.
From GB Require Import Base.Field Base.FNum Base.Tables Gauss.Moment1D Model.Shell Model.MomentInt
  Proofs.CoreSumP Proofs.CoreBlockP.
Import ListNotations.

Section Generic.
Context {F : Type} (K : Fops F) (Kf : is_field K).
Add Field KFn1 : Kf.
Local Open Scope F_scope.
Notation "0" := (f0 K) : F_scope.
Notation "1" := (f1 K) : F_scope.
Infix "+" := (fadd K) : F_scope.
Infix "*" := (fmul K) : F_scope.
Infix "-" := (fsub K) : F_scope.
Infix "/" := (fdiv K) : F_scope.
Notation "# n" := (ofnat K n) (at level 5) : F_scope.

Variable v : F.

Lemma mom_even_odd n :
  mom K v (2 * n) = fdf_odd K n * fpow K v n /\ mom K v (S (2 * n)) = 0.
Proof.
  induction n as [|n [IHe IHo]].
  - split; [cbn [Nat.mul fdf_odd fpow]; rewrite mom_0; ring | apply mom_1].
  - replace (2 * S n)%nat with (S (S (2 * n))) by lia. split.
    + rewrite mom_SS, IHe. cbn [fdf_odd fpow].
      replace (2 * n + 1)%nat with (S (2 * n)) by lia. ring.
    + rewrite mom_SS, IHo. ring.
Qed.

(* both functions on the Gaussian centre: no linear factor shifts, the integral is the bare moment *)
Lemma S3_centre c n i j : S3 K v 0 0 c n 0 i j = mom K v (n + i + j).
Proof.
  revert n j. induction i as [|i IHi]; intros n j.
  - revert n. induction j as [|j IHj]; intros n.
    + unfold S3, g3. cbn [plin_pow Eaux]. rewrite !Nat.add_0_r. ring.
    + rewrite (S3_Sj K Kf), (IHj n), (IHj (S n)).
      replace (S n + 0 + j)%nat with (n + 0 + S j)%nat by lia. ring.
  - rewrite (S3_Si K Kf), (IHi n j), (IHi (S n) j).
    replace (S n + i + j)%nat with (n + S i + j)%nat by lia. ring.
Qed.

End Generic.

Section Generic2.
Context {F : Type} (K : Fops F) (Kf : is_field K).
Add Field KFn2 : Kf.
Local Open Scope F_scope.
Notation "0" := (f0 K) : F_scope.
Notation "1" := (f1 K) : F_scope.
Infix "+" := (fadd K) : F_scope.
Infix "*" := (fmul K) : F_scope.
Infix "-" := (fsub K) : F_scope.
Infix "/" := (fdiv K) : F_scope.

(* one centre, one exponent: the 1-D self-overlap integral of x^i and x^j *)
Theorem T1_self (A C alpha : F) i j : psum K alpha alpha <> 0 ->
  T1 K A A C alpha alpha 0 i j = mom K (1 / twop K alpha alpha) (i + j).
Proof.
  intros Hp. unfold T1, T3.
  assert (E : PA K A A alpha alpha = 0).
  { unfold PA, Pw. unfold psum in *. field. exact Hp. }
  assert (E' : PB K A A alpha alpha = 0) by exact E.
  rewrite E, E'. now rewrite (S3_centre K Kf).
Qed.

Corollary T1_self_diag (A C alpha : F) n : psum K alpha alpha <> 0 ->
  T1 K A A C alpha alpha 0 n n = fdf_odd K n * fpow K (1 / twop K alpha alpha) n.
Proof.
  intros Hp. rewrite T1_self by exact Hp. replace (n + n)%nat with (2 * n)%nat by lia.
  apply (mom_even_odd K Kf).
Qed.
End Generic2.

(* ------------------------------------------------------------------ *)
(* The reals                                                           *)
(* ------------------------------------------------------------------ *)
From Coq Require Import Reals Lra Psatz RealField.
From GB Require Import Proofs.ScreeningP.
Local Open Scope R_scope.

Lemma fpow_R x n : FNum.fpow RK x n = x ^ n.
Proof. induction n as [|n IH]; cbn [FNum.fpow pow]; [reflexivity|]. rewrite IH. reflexivity. Qed.

Lemma ofnat_R n : ofnat RK n = INR n.
Proof.
  induction n as [|n IH]; [reflexivity|]. cbn [ofnat]. rewrite IH, S_INR.
  change (1 + INR n = INR n + 1). ring.
Qed.

Lemma fdf_odd_pos n : 0 < fdf_odd RK n.
Proof.
  induction n as [|n IH]; cbn [fdf_odd].
  - change (0 < 1). lra.
  - change (0 < ofnat RK (2 * n + 1) * fdf_odd RK n). rewrite ofnat_R.
    apply Rmult_lt_0_compat; [|exact IH]. apply lt_0_INR. lia.
Qed.

(* x^{3/2} *)
Definition pow32 (x : R) : R := x * sqrt x.

Lemma pow34_sq x : 0 <= x -> pow34 RK x * pow34 RK x = pow32 x.
Proof.
  intros Hx. unfold pow34, pow32. cbv zeta. change (fmul RK) with Rmult. change (fsqrt RK) with sqrt.
  set (r := sqrt (sqrt x)).
  assert (Er : r * r = sqrt x) by (apply sqrt_sqrt, sqrt_pos).
  assert (Es : sqrt x * sqrt x = x) by (apply sqrt_sqrt, Hx).
  replace (r * r * r * (r * r * r)) with ((r * r) * (r * r) * (r * r)) by ring.
  rewrite Er, Es. reflexivity.
Qed.

Lemma pow32_inv x : 0 < x -> pow32 x * pow32 (/ x) = 1.
Proof.
  intros Hx. unfold pow32. rewrite sqrt_inv.
  assert (0 < sqrt x) by (now apply sqrt_lt_R0). field. split; lra.
Qed.

Definition dfprod (c : Shell.comp) : R := fdf_odd RK (cx c) * fdf_odd RK (cy c) * fdf_odd RK (cz c).

Lemma norm_prim_sq_raw l c alpha : 0 < alpha ->
  norm_prim RK l c alpha * norm_prim RK l c alpha
  = pow32 (2 * alpha / PI) * (4 * alpha) ^ l / dfprod c.
Proof.
  intros Ha. destruct c as [[ax ay] az]. unfold norm_prim, dfprod, cx, cy, cz. cbn [fst snd].
  change (fapx RK) with (fun x : R => x). cbv beta.
  change (fmul RK) with Rmult. change (fdiv RK) with Rdiv. change (fsqrt RK) with sqrt.
  change (fadd RK) with Rplus. change (f1 RK) with 1. change (fpi RK) with PI.
  rewrite fpow_R.
  replace ((1 + 1) * alpha / PI) with (2 * alpha / PI) by (field; apply PI_neq0).
  replace ((1 + 1 + 1 + 1) * alpha) with (4 * alpha) by ring.
  set (x := 2 * alpha / PI).
  assert (Hx : 0 <= x).
  { unfold x. apply Rlt_le. apply Rdiv_lt_0_compat; [lra|apply PI_RGT_0]. }
  set (P := (4 * alpha) ^ l).
  assert (HP : 0 <= P) by (unfold P; apply pow_le; lra).
  set (Dd := fdf_odd RK ax * fdf_odd RK ay * fdf_odd RK az).
  assert (HD : 0 < Dd).
  { unfold Dd. repeat apply Rmult_lt_0_compat; apply fdf_odd_pos. }
  assert (HsD : 0 < sqrt Dd) by (now apply sqrt_lt_R0).
  replace (pow34 RK x * sqrt P / sqrt Dd * (pow34 RK x * sqrt P / sqrt Dd))
    with ((pow34 RK x * pow34 RK x) * (sqrt P * sqrt P) / (sqrt Dd * sqrt Dd)) by (field; lra).
  rewrite (pow34_sq x Hx), (sqrt_sqrt P HP), (sqrt_sqrt Dd (Rlt_le _ _ HD)). reflexivity.
Qed.

(* norm_prim_sq: the documented closed form of the primitive self-overlap, times N^2, is 1 *)
Theorem norm_prim_sq (l : nat) (c : Shell.comp) (alpha : R) :
  0 < alpha -> (cx c + cy c + cz c)%nat = l ->
  norm_prim RK l c alpha * norm_prim RK l c alpha
  * pow32 (PI / (2 * alpha))
  * (fdf_odd RK (cx c) / (4 * alpha) ^ cx c * (fdf_odd RK (cy c) / (4 * alpha) ^ cy c)
     * (fdf_odd RK (cz c) / (4 * alpha) ^ cz c)) = 1.
Proof.
  intros Ha Hl. rewrite (norm_prim_sq_raw l c alpha Ha). subst l. rewrite !pow_add.
  unfold dfprod.
  pose proof (fdf_odd_pos (cx c)). pose proof (fdf_odd_pos (cy c)). pose proof (fdf_odd_pos (cz c)).
  assert (H4 : forall n, (4 * alpha) ^ n <> 0) by (intros n; apply pow_nonzero; lra).
  pose proof PI_RGT_0 as Hpi.
  assert (Hx : 0 < 2 * alpha / PI) by (apply Rdiv_lt_0_compat; lra).
  replace (PI / (2 * alpha)) with (/ (2 * alpha / PI)) by (field; split; lra).
  pose proof (pow32_inv _ Hx) as E.
  set (p := pow32 (2 * alpha / PI)) in *. set (q := pow32 (/ (2 * alpha / PI))) in *.
  transitivity (p * q); [|exact E].
  field. repeat split; try apply H4; lra.
Qed.

(* ... and that closed form is the overlap spec of the primitive with itself *)
Lemma base_self A alpha : 0 < alpha -> base RK A A alpha alpha = sqrt (PI / (2 * alpha)).
Proof.
  intros Ha. unfold base, hmean, psum.
  change (fmul RK) with Rmult. change (fdiv RK) with Rdiv. change (fsqrt RK) with sqrt.
  change (fadd RK) with Rplus. change (fsub RK) with Rminus. change (fopp RK) with Ropp.
  change (fexp RK) with exp. change (fpi RK) with PI.
  replace (- (alpha * alpha / (alpha + alpha) * ((A - A) * (A - A)))) with 0 by (field; lra).
  rewrite exp_0. replace (alpha + alpha) with (2 * alpha) by ring. ring.
Qed.

Theorem ovl_prim_self (s : shell R) (c : Shell.comp) (alpha : R) : 0 < alpha ->
  ovl_prim RK s s c c alpha alpha
  = pow32 (PI / (2 * alpha))
    * (fdf_odd RK (cx c) / (4 * alpha) ^ cx c * (fdf_odd RK (cy c) / (4 * alpha) ^ cy c)
       * (fdf_odd RK (cz c) / (4 * alpha) ^ cz c)).
Proof.
  intros Ha. unfold ovl_prim, mom_prim, KAB. rewrite !base_self by exact Ha.
  assert (Hp : psum RK alpha alpha <> f0 RK).
  { unfold psum. change (alpha + alpha <> 0). lra. }
  rewrite !(T1_self_diag RK RK_field) by exact Hp.
  change (cx (0, 0, 0)%nat) with 0%nat. change (cy (0, 0, 0)%nat) with 0%nat.
  change (cz (0, 0, 0)%nat) with 0%nat.
  rewrite !fpow_R. unfold twop, psum.
  change (fmul RK) with Rmult. change (fdiv RK) with Rdiv. change (fadd RK) with Rplus.
  change (f1 RK) with 1.
  replace (1 / ((1 + 1) * (alpha + alpha))) with (/ (4 * alpha)) by (field; lra).
  rewrite !pow_inv.
  unfold pow32.
  assert (Hq : 0 <= PI / (2 * alpha)).
  { apply Rlt_le, Rdiv_lt_0_compat; [apply PI_RGT_0|lra]. }
  pose proof (sqrt_sqrt _ Hq) as Es. set (r := sqrt (PI / (2 * alpha))) in *.
  rewrite <- Es. unfold Rdiv. ring.
Qed.

Theorem norm_prim_self_overlap (s : shell R) (c : Shell.comp) (alpha : R) :
  0 < alpha -> (cx c + cy c + cz c)%nat = s_l s ->
  norm_prim RK (s_l s) c alpha * norm_prim RK (s_l s) c alpha * ovl_prim RK s s c c alpha alpha = 1.
Proof.
  intros Ha Hl. rewrite (ovl_prim_self s c alpha Ha).
  rewrite <- (norm_prim_sq (s_l s) c alpha Ha Hl). ring.
Qed.

(* the hypotheses are satisfiable: a d-type component at exponent 3/2 *)
Example norm_prim_self_overlap_ex :
  let s := mkShell R 2 0 0 0 [3 / 2] [[1]] false [] [] in
  norm_prim RK 2 (1, 1, 0)%nat (3 / 2) * norm_prim RK 2 (1, 1, 0)%nat (3 / 2)
  * ovl_prim RK s s (1, 1, 0)%nat (1, 1, 0)%nat (3 / 2) (3 / 2) = 1.
Proof.
  intros s. apply (norm_prim_self_overlap s (1, 1, 0)%nat (3 / 2)); [lra|reflexivity].
Qed.

(* ---- the hypotheses of the block theorems hold for every pair of real shells with positive exponents,
        and the prefactor KAB is the textbook (pi/p)^{3/2} exp(-mu |A-B|^2) ---- *)
Lemma two_neq_0_R : fadd RK (f1 RK) (f1 RK) <> f0 RK.
Proof. change (1 + 1 <> 0). lra. Qed.

Lemma fapx_id_R : forall x : R, fapx RK x = x.
Proof. reflexivity. Qed.

Lemma exps_ok_pos_R (sa sb : shell R) :
  (forall x, In x (s_exps sa) -> 0 < x) -> (forall x, In x (s_exps sb) -> 0 < x) -> exps_ok RK sa sb.
Proof.
  intros Ha Hb alpha beta Hia Hib. specialize (Ha _ Hia). specialize (Hb _ Hib).
  unfold psum. change (alpha + beta <> 0). lra.
Qed.

Theorem KAB_closed_form (sa sb : shell R) (alpha beta : R) : 0 < alpha -> 0 < beta ->
  KAB RK sa sb alpha beta
  = pow32 (PI / (alpha + beta))
    * exp (- (alpha * beta / (alpha + beta))
           * ((s_x sa - s_x sb) * (s_x sa - s_x sb) + (s_y sa - s_y sb) * (s_y sa - s_y sb)
              + (s_z sa - s_z sb) * (s_z sa - s_z sb))).
Proof.
  intros Ha Hb. unfold KAB, base, hmean, psum.
  change (fmul RK) with Rmult. change (fdiv RK) with Rdiv. change (fsqrt RK) with sqrt.
  change (fadd RK) with Rplus. change (fsub RK) with Rminus. change (fopp RK) with Ropp.
  change (fexp RK) with exp. change (fpi RK) with PI.
  assert (Hq : 0 <= PI / (alpha + beta)).
  { apply Rlt_le, Rdiv_lt_0_compat; [apply PI_RGT_0|lra]. }
  unfold pow32. pose proof (sqrt_sqrt _ Hq) as Es. set (r := sqrt (PI / (alpha + beta))) in *.
  rewrite <- Es.
  set (m := alpha * beta / (alpha + beta)).
  replace (- m * ((s_x sa - s_x sb) * (s_x sa - s_x sb) + (s_y sa - s_y sb) * (s_y sa - s_y sb)
                  + (s_z sa - s_z sb) * (s_z sa - s_z sb)))
    with (- (m * ((s_x sa - s_x sb) * (s_x sa - s_x sb))) + - (m * ((s_y sa - s_y sb) * (s_y sa - s_y sb)))
          + - (m * ((s_z sa - s_z sb) * (s_z sa - s_z sb)))) by ring.
  rewrite !exp_plus. ring.
Qed.
