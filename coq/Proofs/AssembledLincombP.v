(* Proofs/AssembledLincombP.v — the final transformation (transform=T, Model/Assembly.lincomb2: T on index 0, then
   on index 1; base_two_symm.py:406-408) applied to an assembled matrix.

     lincomb2_entry        (any element module, no algebraic law) entry (a, b) of lincomb2 T1 T2 m
                             = sum_l T2[b][l] . (sum_k T1[a][k] . m[k][l])
     antisym_lincomb       if the N x N matrix R of vectors of length d satisfies R[J][I] = -R[I][J] everywhere, so
                           does lincomb2 t t R, for every S x N matrix t (rectangular allowed)
     sym_lincomb           the scalar analogue: a symmetric matrix stays symmetric
     momentum_/angmom_integral_herm_T, overlap_integral_sym_T: the assembled models with transform = Some t, bases
                           with any assignment of coordinate types. *)
From Coq Require Import List Arith Lia Bool Field.
From GB Require Import Base.Field Base.FNum Base.Tables Base.Blocks Model.Shell Model.MomentInt
  Model.Spherical Model.Assembly Model.Overlap Model.DiffOp Model.OneBody
  Proofs.BlockP Proofs.CoreSumP Proofs.CoreBlockP Proofs.CoreDiffP Proofs.AssemblyP Proofs.OverlapP
  Proofs.BlockMatP Proofs.AssembledP Proofs.AssembledOverlapP Proofs.AssembledHermP
  Proofs.AssembledSphP Proofs.AssembledSphOverlapP Proofs.AssembledSphHermP.
Import ListNotations.

Definition mat_shape {B} (R C : nat) (m : list (list B)) : Prop :=
  length m = R /\ Forall (fun row => length row = C) m.

Section LincombEntry.
Context {F : Type} (K : Fops F).
Context {A : Type} (azero : A) (aadd : A -> A -> A) (ascale : F -> A -> A).
Notation asum' := (asum azero aadd).

Lemma apply_rows_spec (T : list (list F)) (v : list A) S L :
  mat_shape S L T -> length v = L ->
  length (apply_rows azero aadd ascale T v) = S /\
  forall a, a < S ->
    nth a (apply_rows azero aadd ascale T v) azero
    = asum' (mk L (fun k => ascale (nth k (nth a T []) (f0 K)) (nth k v azero))).
Proof.
  intros [HT HTr] Hv. unfold apply_rows. split; [now rewrite map_length|]. intros a Ha.
  rewrite (nth_map_d _ T a []) by lia.
  apply (adot_mk K azero aadd ascale); [|exact Hv]. apply (Forall_nth_in _ T [] a HTr). lia.
Qed.

Theorem lincomb2_entry (T1 T2 : list (list F)) (m : list (list A)) R C S1 S2 a b :
  mat_shape R C m -> 0 < R -> 0 < C -> mat_shape S1 R T1 -> mat_shape S2 C T2 -> a < S1 -> b < S2 ->
  nth b (nth a (lincomb2 azero aadd ascale T1 T2 m) []) azero
  = asum' (mk C (fun l => ascale (nth l (nth b T2 []) (f0 K))
       (asum' (mk R (fun k => ascale (nth k (nth a T1 []) (f0 K)) (nth l (nth k m []) azero)))))).
Proof.
  intros [Hm Hmr] HR HC HT1 HT2 Ha Hb. unfold lincomb2. cbv zeta.
  set (cols := transpose azero m).
  destruct (transpose_shape azero m R C HR Hm Hmr) as [Hc Hcr]. fold cols in Hc, Hcr.
  set (X := map (apply_rows azero aadd ascale T1) cols).
  assert (HX : mat_shape C S1 X).
  { split; [unfold X; now rewrite map_length|]. unfold X. apply Forall_forall. intros r Hr.
    apply in_map_iff in Hr. destruct Hr as [col [<- Hcol]]. rewrite Forall_forall in Hcr.
    exact (proj1 (apply_rows_spec T1 col S1 R HT1 (Hcr _ Hcol))). }
  destruct HX as [HXl HXr].
  destruct (transpose_shape azero X C S1 HC HXl HXr) as [Ht Htr].
  assert (Hhd : length (hd [] X) = S1) by (apply hd_length; [lia|exact HXr]).
  assert (Hhm : length (hd [] m) = C) by (apply hd_length; [lia|exact Hmr]).
  rewrite (nth_map_d _ _ a []) by lia.
  assert (Hrow : length (nth a (transpose azero X) []) = C).
  { apply (Forall_nth_in _ _ [] a Htr). lia. }
  rewrite (proj2 (apply_rows_spec T2 _ S2 C HT2 Hrow) b Hb).
  unfold asum. f_equal. apply mk_ext. intros l Hl. f_equal.
  rewrite (transpose_entry azero X l a) by lia.
  unfold X. rewrite (nth_map_d _ cols l []) by lia.
  assert (Hcl : length (nth l cols []) = R) by (apply (Forall_nth_in _ _ [] l Hcr); lia).
  rewrite (proj2 (apply_rows_spec T1 _ S1 R HT1 Hcl) a Ha).
  unfold asum. f_equal. apply mk_ext. intros k Hk. f_equal.
  unfold cols. apply transpose_entry; lia.
Qed.

Lemma lincomb2_shape (T1 T2 : list (list F)) (m : list (list A)) R C S1 S2 :
  mat_shape R C m -> 0 < R -> 0 < C -> mat_shape S1 R T1 -> mat_shape S2 C T2 ->
  mat_shape S1 S2 (lincomb2 azero aadd ascale T1 T2 m).
Proof.
  intros [Hm Hmr] HR HC HT1 HT2. unfold lincomb2. cbv zeta.
  set (cols := transpose azero m).
  destruct (transpose_shape azero m R C HR Hm Hmr) as [Hc Hcr]. fold cols in Hc, Hcr.
  set (X := map (apply_rows azero aadd ascale T1) cols).
  assert (HXl : length X = C) by (unfold X; now rewrite map_length).
  assert (HXr : Forall (fun row => length row = S1) X).
  { unfold X. apply Forall_forall. intros r Hr.
    apply in_map_iff in Hr. destruct Hr as [col [<- Hcol]]. rewrite Forall_forall in Hcr.
    exact (proj1 (apply_rows_spec T1 col S1 R HT1 (Hcr _ Hcol))). }
  destruct (transpose_shape azero X C S1 HC HXl HXr) as [Ht Htr].
  split; [now rewrite map_length|]. apply Forall_forall. intros r Hr.
  apply in_map_iff in Hr. destruct Hr as [row [<- Hrow]]. rewrite Forall_forall in Htr.
  exact (proj1 (apply_rows_spec T2 row S2 C HT2 (Htr _ Hrow))).
Qed.
End LincombEntry.

Section LincombSym.
Context {F : Type} (K : Fops F) (Kf : is_field K).
Add Field KFlc : Kf.
Local Open Scope F_scope.
Notation "0" := (f0 K) : F_scope.
Notation "1" := (f1 K) : F_scope.
Infix "+" := (fadd K) : F_scope.
Infix "*" := (fmul K) : F_scope.
Notation "- x" := (fopp K x) : F_scope.
Notation fsum := (FNum.fsum K).

(* scalars: a symmetric matrix stays symmetric *)
Theorem sym_lincomb (t : list (list F)) (M : list (list F)) N S :
  0 < N -> mat_shape N N M -> mat_shape S N t ->
  (forall I J, I < N -> J < N -> nth I (nth J M []) 0 = nth J (nth I M []) 0) ->
  forall a b, a < S -> b < S ->
  nth a (nth b (lincomb2 0 (fadd K) (fmul K) t t M) []) 0
  = nth b (nth a (lincomb2 0 (fadd K) (fmul K) t t M) []) 0.
Proof.
  intros HN HM Ht Hs a b Ha Hb.
  rewrite (lincomb2_entry K 0 (fadd K) (fmul K) t t M N N S S b a HM HN HN Ht Ht Hb Ha).
  rewrite (lincomb2_entry K 0 (fadd K) (fmul K) t t M N N S S a b HM HN HN Ht Ht Ha Hb).
  change (asum 0 (fadd K)) with fsum.
  rewrite (fsum_mk_ext K N _ (fun l => fsum (mk N (fun k =>
             nth l (nth a t []) 0 * nth k (nth b t []) 0 * nth l (nth k M []) 0)))).
  2:{ intros l Hl. rewrite (fsum_mk_scale_l K Kf). apply fsum_mk_ext. intros k Hk. ring. }
  rewrite (fsum_mk_swap K Kf). apply fsum_mk_ext. intros k Hk.
  rewrite (fsum_mk_scale_l K Kf). apply fsum_mk_ext. intros l Hl.
  rewrite (Hs l k Hl Hk). ring.
Qed.

(* vectors of length d: an antisymmetric matrix stays antisymmetric *)
Theorem antisym_lincomb (t : list (list F)) (M : list (list (list F))) N S d :
  0 < N -> mat_shape N N M -> mat_shape S N t ->
  (forall I J, I < N -> J < N -> length (nth J (nth I M []) []) = d) ->
  (forall I J, I < N -> J < N -> nth I (nth J M []) [] = vneg K (nth J (nth I M []) [])) ->
  forall a b, a < S -> b < S ->
  nth a (nth b (lincomb2 vzero (vadd K) (vscale K) t t M) []) []
  = vneg K (nth b (nth a (lincomb2 vzero (vadd K) (vscale K) t t M) []) []).
Proof.
  intros HN HM Ht Hlen Hanti a b Ha Hb. unfold vzero.
  (* components of an entry *)
  assert (Comp : forall a b, a < S -> b < S ->
            length (nth b (nth a (lincomb2 [] (vadd K) (vscale K) t t M) []) []) = d /\
            forall k, k < d ->
              nth k (nth b (nth a (lincomb2 [] (vadd K) (vscale K) t t M) []) []) 0
              = fsum (mk N (fun l => nth l (nth b t []) 0
                    * fsum (mk N (fun k' => nth k' (nth a t []) 0 * nth k (nth l (nth k' M []) []) 0))))).
  { clear a b Ha Hb. intros a b Ha Hb.
    pose proof (lincomb2_entry K vzero (vadd K) (vscale K) t t M N N S S a b HM HN HN Ht Ht Ha Hb) as E.
    unfold vzero in E. rewrite E. clear E.
    assert (Hin : forall l, l < N ->
              length (asum [] (vadd K) (mk N (fun k' => vscale K (nth k' (nth a t []) 0) (nth l (nth k' M []) [])))) = d /\
              forall k, k < d ->
                nth k (asum [] (vadd K) (mk N (fun k' => vscale K (nth k' (nth a t []) 0) (nth l (nth k' M []) [])))) 0
                = fsum (mk N (fun k' => nth k' (nth a t []) 0 * nth k (nth l (nth k' M []) []) 0))).
    { intros l Hl.
      assert (HF : Forall (fun v => length v = d)
                     (mk N (fun k' => vscale K (nth k' (nth a t []) 0) (nth l (nth k' M []) [])))).
      { apply Forall_mk. intros k' Hk'. unfold vscale. rewrite map_length. now apply Hlen. }
      destruct (vsum_comp K Kf _ d HF (mk_nonempty N _ HN)) as [SL SE]. unfold vzero in SL, SE. split; [exact SL|].
      intros k Hk. rewrite (SE k Hk). rewrite CoreSumP.map_mk.
      apply (fsum_mk_ext K). intros k' Hk'. apply (vscale_comp K). rewrite Hlen by assumption. exact Hk. }
    assert (HF2 : Forall (fun v => length v = d)
                    (mk N (fun l => vscale K (nth l (nth b t []) 0)
                       (asum [] (vadd K) (mk N (fun k' => vscale K (nth k' (nth a t []) 0) (nth l (nth k' M []) []))))))).
    { apply Forall_mk. intros l Hl. unfold vscale at 1. rewrite map_length. exact (proj1 (Hin l Hl)). }
    destruct (vsum_comp K Kf _ d HF2 (mk_nonempty N _ HN)) as [SL SE]. unfold vzero in SL, SE. split; [exact SL|].
    intros k Hk. rewrite (SE k Hk). rewrite CoreSumP.map_mk.
    apply (fsum_mk_ext K). intros l Hl. rewrite (vscale_comp K) by (rewrite (proj1 (Hin l Hl)); exact Hk).
    f_equal. exact (proj2 (Hin l Hl) k Hk). }
  destruct (Comp b a Hb Ha) as [L1 E1]. destruct (Comp a b Ha Hb) as [L2 E2].
  apply (vec_ext K _ _ d); [exact L1 | unfold vneg; now rewrite map_length |].
  intros k Hk. rewrite (vneg_comp K) by (rewrite L2; exact Hk). rewrite (E1 k Hk), (E2 k Hk).
  rewrite (fsum_mk_opp K Kf).
  rewrite (fsum_mk_ext K N _ (fun l => fsum (mk N (fun k' =>
             nth l (nth a t []) 0 * nth k' (nth b t []) 0 * nth k (nth l (nth k' M []) []) 0)))).
  2:{ intros l Hl. rewrite (fsum_mk_scale_l K Kf). apply fsum_mk_ext. intros k' Hk'. ring. }
  rewrite (fsum_mk_swap K Kf). apply fsum_mk_ext. intros k' Hk'.
  rewrite (fsum_mk_scale_l K Kf), (fsum_mk_opp K Kf). apply fsum_mk_ext. intros l Hl.
  rewrite (Hanti l k' Hl Hk').
  rewrite (vneg_comp K) by (rewrite Hlen by assumption; exact Hk). ring.
Qed.

(* ---- the assembled models with transform = Some t ---- *)
Hypothesis Hapx : forall x : F, fapx K x = x.
Hypothesis H2 : 1 + 1 <> 0.

Section Inst.
Variable bs : list (shell F).
Hypothesis C : seg_basis bs.
Hypothesis W : basis_wf bs.
Hypothesis E : basis_exps K bs bs.
Hypothesis Hn : 0 < length bs.
Variables (t : list (list F)) (S : nat).
Hypothesis Ht : mat_shape S (ototal K bs) t.

Lemma ototal_pos : 0 < ototal K bs.
Proof.
  unfold ototal, ooff. pose proof (offs_mono (fun k => odim (sh_at K bs k)) 0 (length bs) Hn) as H.
  cbv beta in H. cbn [offs] in H.
  assert (0 < odim (sh_at K bs 0)).
  { unfold odim. pose proof (osize_pos (sh_at K bs 0)). pose proof (C (sh_at K bs 0) ltac:(now apply nth_In)). nia. }
  lia.
Qed.

Lemma rows_Forall {B} (m : list (list B)) N :
  length m = N -> (forall I, I < N -> length (nth I m []) = N) -> mat_shape N N m.
Proof. intros HL HR. split; [exact HL|]. apply (Forall_of_nth _ _ []). rewrite HL. exact HR. Qed.

Theorem overlap_integral_sym_T a b : a < S -> b < S ->
  nth a (nth b (overlap_integral K bs (Some t)) []) 0 = nth b (nth a (overlap_integral K bs (Some t)) []) 0.
Proof.
  intros Ha Hb.
  change (overlap_integral K bs (Some t)) with (lincomb2 0 (fadd K) (fmul K) t t (overlap_integral K bs None)).
  destruct (overlap_integral_mixed_shape K bs C Hn) as [SL SR].
  apply (sym_lincomb t _ (ototal K bs) S ototal_pos (rows_Forall _ _ SL SR) Ht); [|exact Ha|exact Hb].
  intros I J HI HJ.
  destruct (oidx_surj K bs I HI) as (i & m & q & Hi & Hm & Hq & ->).
  destruct (oidx_surj K bs J HJ) as (j & m' & q' & Hj & Hm' & Hq' & ->).
  rewrite !(overlap_mixed_is_cart_transformed K Kf Hapx H2 bs C W E) by assumption.
  unfold dsum. rewrite (fsum_mk_swap K Kf). apply fsum_mk_ext; intros c Hc. apply fsum_mk_ext; intros c' Hc'.
  rewrite (overlap_integral_sym K Kf Hapx H2 (map to_cart bs) (cart_basis_to_cart bs C) (basis_wf_to_cart bs W)
             (basis_exps_to_cart K bs E) (gidx K (map to_cart bs) i m c) (gidx K (map to_cart bs) j m' c'))
    by (apply gidx_lt; rewrite ?map_length, ?sh_at_to_cart; assumption).
  ring.
Qed.

Theorem momentum_integral_herm_T a b : a < S -> b < S ->
  nth a (nth b (momentum_integral_re K bs (Some t)) []) []
  = vneg K (nth b (nth a (momentum_integral_re K bs (Some t)) []) []).
Proof.
  intros Ha Hb.
  change (momentum_integral_re K bs (Some t))
    with (lincomb2 vzero (vadd K) (vscale K) t t (momentum_integral_re K bs None)).
  destruct (two_symm_h_mixed_shape K vzero (vadd K) (vscale K) (momentum_block_re K) bs C (momentum_shaped K bs)
              (vneg K) Hn) as [SL SR].
  apply (antisym_lincomb t _ (ototal K bs) S 3 ototal_pos (rows_Forall _ _ SL SR) Ht); [| |exact Ha|exact Hb].
  - intros I J HI HJ.
    destruct (oidx_surj K bs I HI) as (i & m & q & Hi & Hm & Hq & ->).
    destruct (oidx_surj K bs J HJ) as (j & m' & q' & Hj & Hm' & Hq' & ->).
    exact (proj1 (momentum_mixed_is_cart_transformed K Kf Hapx H2 bs C W E i j m q m' q' Hi Hj Hm Hq Hm' Hq')).
  - intros I J HI HJ. now apply (momentum_integral_herm_mixed K Kf Hapx H2 bs C W E).
Qed.

Theorem angmom_integral_herm_T a b : a < S -> b < S ->
  nth a (nth b (angmom_integral_re K bs (Some t)) []) []
  = vneg K (nth b (nth a (angmom_integral_re K bs (Some t)) []) []).
Proof.
  intros Ha Hb.
  change (angmom_integral_re K bs (Some t))
    with (lincomb2 vzero (vadd K) (vscale K) t t (angmom_integral_re K bs None)).
  destruct (two_symm_h_mixed_shape K vzero (vadd K) (vscale K) (angmom_block_re K) bs C (angmom_shaped K bs)
              (vneg K) Hn) as [SL SR].
  apply (antisym_lincomb t _ (ototal K bs) S 3 ototal_pos (rows_Forall _ _ SL SR) Ht); [| |exact Ha|exact Hb].
  - intros I J HI HJ.
    destruct (oidx_surj K bs I HI) as (i & m & q & Hi & Hm & Hq & ->).
    destruct (oidx_surj K bs J HJ) as (j & m' & q' & Hj & Hm' & Hq' & ->).
    exact (proj1 (angmom_mixed_is_cart_transformed K Kf Hapx H2 bs C W E i j m q m' q' Hi Hj Hm Hq Hm' Hq')).
  - intros I J HI HJ. now apply (angmom_integral_herm_mixed K Kf Hapx H2 bs C W E).
Qed.
End Inst.
End LincombSym.
