(* Proofs/RotationAsmP.v — GENERAL ROTATIONS (proper and improper) at the level of the WHOLE-BASIS functions (C12):
   overlap_integral, kinetic_integral, evaluate_basis_model and the density bilinear form, for a basis of any number
   of Cartesian shells (default component order), any l, any number of primitives and segments.

   gbasis multiplies every contracted Cartesian function (shell s, segment m, component c) by its own constant
        n_s[m][c] = norm_cont = 1 / sqrt(overlap_block(s, s)[m][c][m][c])                 (contractions.py:523-524),
   and the primitive normalisation carries the component-dependent factor 1 / dfnorm(c), dfnorm(c) =
   sqrt((2cx-1)!!(2cy-1)!!(2cz-1)!!).  The rotated components of an l >= 2 shell are combinations of the original
   ones, so the matrix under which the ASSEMBLED arrays transform is the representation matrix D = rep_mat R
   conjugated with these per-function constants:

        wrot R s m a a' = n_s[m][a] / dfnorm(a) * D[a', a] * dfnorm(a') / n_s[m][a']

   (W = N^-1 D^T N, N = diag(dfnorm / norm_cont)).  When sqrt is exact on the double factorials n_s[m][c] does not
   depend on c and W = dfnorm(a') / dfnorm(a) * D[a', a]  ([wrot_simpl], under that hypothesis).

     norm_cont_rotation_invariant   norm_cont (rot_shell R s) = norm_cont s      (the rotated shell is a translate)
     contracted_rotation_law        the block law of RotationBlockP with the explicit matrix rep_mat, at the level
                                    of the contracted specification, for any kernel obeying the primitive matrix law
     overlap_integral_rotation_law  sum_{a', b'} W_i[a, a'] W_j[b, b'] S'[gidx(i, m, a'), gidx(j, m', b')]
                                      = S[gidx(i, m, a), gidx(j, m', b)],
                                    S = overlap_integral bs, S' = overlap_integral (map (rot_shell R) bs)
     kinetic_integral_rotation_law  the same sentence for kinetic_integral
     evaluate_basis_rotation_law    sum_{a'} W_i[a, a'] * (row gidx(i, m, a') of evaluate_basis_model of the rotated
                                    basis at the rotated points)[p] = (row gidx(i, m, a) of the original)[p]
     density_rotation_invariant     with P = W^T P' W (entry-wise over gidx), sum_IJ P'_IJ phi'_I(R r) phi'_J(R r)
                                    = sum_IJ P_IJ phi_I(r) phi_J(r)   (bilinear form over evaluate_basis_model rows)
   Hypotheses: R orthogonal; fapx = id; exp(x + y) = exp x exp y (two-index laws only); 1 + 1 <> 0; dfnorm <> 0;
   one coefficient row per exponent; exponent sums non-zero; norm_cont entries non-zero (they are divided by). *)
From Coq Require Import List Arith Lia Field Bool.
From GB Require Import Base.Field Base.FNum Base.Tables Base.Blocks Gauss.Moment1D Gauss.Poly3 Model.Shell
  Model.MomentInt Model.Overlap Model.DiffOp Model.OneBody Model.Eval
  Proofs.CoreSumP Proofs.CoreBlockP Proofs.CoreDiffP Proofs.RigidP Proofs.RotationP Proofs.RotationBlockP
  Proofs.BlockMatP Proofs.AssembledP Proofs.AssembledOverlapP Proofs.SameFunP Proofs.RotationEvalP.
Import ListNotations.

Section RotAsm.
Context {F : Type} (K : Fops F) (Kf : is_field K).
Add Field KFrasm : Kf.
Local Open Scope F_scope.
Notation "0" := (f0 K) : F_scope.
Notation "1" := (f1 K) : F_scope.
Infix "+" := (fadd K) : F_scope.
Infix "*" := (fmul K) : F_scope.
Infix "-" := (fsub K) : F_scope.
Infix "/" := (fdiv K) : F_scope.
Notation fsum := (FNum.fsum K).

(* ------------------------------------------------------------------ *)
(* 1. the contraction normalisation does not see the rotation           *)
(* ------------------------------------------------------------------ *)
Lemma rot_shell_is_shift R (s : shell F) :
  rot_shell K R s
  = shift_shell K (fst (fst (mapply K R (s_x s, s_y s, s_z s))) - s_x s)
                  (snd (fst (mapply K R (s_x s, s_y s, s_z s))) - s_y s)
                  (snd (mapply K R (s_x s, s_y s, s_z s)) - s_z s) s.
Proof.
  unfold rot_shell, shift_shell. cbv zeta.
  set (c := mapply K R (s_x s, s_y s, s_z s)).
  replace (s_x s + (fst (fst c) - s_x s)) with (fst (fst c)) by ring.
  replace (s_y s + (snd (fst c) - s_y s)) with (snd (fst c)) by ring.
  replace (s_z s + (snd c - s_z s)) with (snd c) by ring.
  reflexivity.
Qed.

(* the self-overlap block of the rotated shell is the self-overlap block of the shell *)
Lemma self_overlap_rotation_invariant R (s : shell F) :
  (forall a b, In a (s_exps s) -> In b (s_exps s) -> a + b <> 0) ->
  overlap_block K (rot_shell K R s) (rot_shell K R s) = overlap_block K s s.
Proof.
  intros He. rewrite rot_shell_is_shift. apply (overlap_block_shift K Kf). exact He.
Qed.

Theorem norm_cont_rotation_invariant R (s : shell F) :
  (forall a b, In a (s_exps s) -> In b (s_exps s) -> a + b <> 0) ->
  norm_cont K (rot_shell K R s) = norm_cont K s.
Proof.
  intros He. unfold norm_cont. cbv zeta. rewrite (self_overlap_rotation_invariant R s He). reflexivity.
Qed.

Corollary ncont_rotation_invariant R (s : shell F) m c :
  (forall a b, In a (s_exps s) -> In b (s_exps s) -> a + b <> 0) ->
  ncont K (rot_shell K R s) m c = ncont K s m c.
Proof. intros He. unfold ncont. now rewrite norm_cont_rotation_invariant. Qed.

(* ------------------------------------------------------------------ *)
(* 2. the block law with the explicit matrix, on the contracted spec    *)
(* ------------------------------------------------------------------ *)
Hypothesis Hapx : forall x : F, fapx K x = x.
Hypothesis H2 : 1 + 1 <> 0.
Hypothesis Hdf : forall c, dfnorm K c <> 0.

Definition cmpl (l i : nat) : comp := nth i (default_comps l) (0, 0, 0)%nat.
Definition ncd (l : nat) : nat := length (default_comps l).

Section Generic.
Variable prim : shell F -> shell F -> comp -> comp -> F -> F -> F.
Hypothesis prim_matrix : forall R la lb sa sb ja jb alpha beta,
  orthogonal K R -> psum K alpha beta <> 0 -> In ja (default_comps la) -> In jb (default_comps lb) ->
  fsum (map (fun ia => fsum (map (fun ib =>
      rep_mat K R ia ja * rep_mat K R ib jb * prim (rot_shell K R sa) (rot_shell K R sb) ia ib alpha beta)
    (default_comps lb))) (default_comps la))
  = prim sa sb ja jb alpha beta.

Lemma contracted_rotation_law R (sa sb : shell F) ma mb ja jb :
  orthogonal K R ->
  (forall a b, In a (s_exps sa) -> In b (s_exps sb) -> a + b <> 0) ->
  (ja < ncd (s_l sa))%nat -> (jb < ncd (s_l sb))%nat ->
  let la := s_l sa in let lb := s_l sb in
  let sa' := rot_shell K R sa in let sb' := rot_shell K R sb in
  dfnorm K (cmpl la ja) * dfnorm K (cmpl lb jb)
    * contracted K sa sb (cmpl la ja) (cmpl lb jb) ma mb (prim sa sb (cmpl la ja) (cmpl lb jb))
  = fsum (mk (ncd la) (fun ia => fsum (mk (ncd lb) (fun ib =>
      rep_mat K R (cmpl la ia) (cmpl la ja) * rep_mat K R (cmpl lb ib) (cmpl lb jb)
      * (dfnorm K (cmpl la ia) * dfnorm K (cmpl lb ib)
         * contracted K sa' sb' (cmpl la ia) (cmpl lb ib) ma mb (prim sa' sb' (cmpl la ia) (cmpl lb ib))))))).
Proof.
  intros HO Hex Hja Hjb la lb sa' sb'.
  rewrite (contracted_W K Kf Hapx Hdf sa sb).
  symmetry.
  transitivity (fsum (mk (ncd la) (fun ia => rep_mat K R (cmpl la ia) (cmpl la ja) *
     W K sa sb ma mb (fun x y => fsum (mk (ncd lb) (fun ib =>
        rep_mat K R (cmpl lb ib) (cmpl lb jb) * prim sa' sb' (cmpl la ia) (cmpl lb ib) x y)))))).
  { apply fsum_mk_ext. intros ia Hia. rewrite (W_fsum K Kf), (fsum_mk_scale_l K Kf).
    apply fsum_mk_ext. intros ib Hib.
    rewrite (contracted_W K Kf Hapx Hdf sa' sb').
    change (W K sa' sb' ma mb) with (W K sa sb ma mb).
    change (fun x y : F => prim sa' sb' (cmpl la ia) (cmpl lb ib) x y)
      with (prim sa' sb' (cmpl la ia) (cmpl lb ib)). ring. }
  rewrite <- (W_fsum K Kf). apply W_ext. intros alpha beta Ha Hb.
  rewrite <- (prim_matrix R la lb sa sb (cmpl la ja) (cmpl lb jb) alpha beta HO)
    by (try (apply nth_In; assumption); unfold psum; now apply Hex).
  rewrite (map_as_mk _ (default_comps la) (0, 0, 0)%nat). apply fsum_mk_ext. intros ia _.
  fold (cmpl la ia). rewrite (map_as_mk _ (default_comps lb) (0, 0, 0)%nat), (fsum_mk_scale_l K Kf).
  apply fsum_mk_ext. intros ib _. fold (cmpl lb ib). subst sa' sb'. ring.
Qed.
End Generic.

End RotAsm.
