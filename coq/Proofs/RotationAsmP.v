(* Proofs/RotationAsmP.v — GENERAL ROTATIONS (proper and improper) at the level of the WHOLE-BASIS functions (C12):
   overlap_integral, kinetic_integral, evaluate_basis_model and the density bilinear form, for a basis of any number
   of Cartesian shells (default component order), any l, any number of primitives and segments.

   gbasis multiplies every contracted Cartesian function (shell s, segment m, component c) by its own constant
        n_s[m][c] = norm_cont = 1 / sqrt(overlap_block(s, s)[m][c][m][c])                 (contractions.py:523-524),
   and the primitive normalisation carries the component-dependent factor 1 / dfnorm(c), dfnorm(c) =
   sqrt((2cx-1)!!(2cy-1)!!(2cz-1)!!).  The rotated components of an l >= 2 shell are combinations of the original
   ones, so the matrix under which the ASSEMBLED arrays transform is the representation matrix D = rep_mat R
   conjugated with these per-function constants:

        wrot R s m a a' = n_s[m][a] / dfnorm(a) * D[a', a] * dfnorm(a') / n_s[m][a']

   (W = N^-1 D^T N, N = diag(dfnorm / norm_cont)).  When sqrt is exact on the double factorials n_s[m][c] does not
   depend on c and W = dfnorm(a') / dfnorm(a) * D[a', a]  ([wrot_simpl], under that hypothesis).

     norm_cont_rotation_invariant   norm_cont (rot_shell R s) = norm_cont s      (the rotated shell is a translate)
     contracted_rotation_law        the block law of RotationBlockP with the explicit matrix rep_mat, at the level
                                    of the contracted specification, for any kernel obeying the primitive matrix law
     overlap_integral_rotation_law  sum_{a', b'} W_i[a, a'] W_j[b, b'] S'[gidx(i, m, a'), gidx(j, m', b')]
                                      = S[gidx(i, m, a), gidx(j, m', b)],
                                    S = overlap_integral bs, S' = overlap_integral (map (rot_shell R) bs)
     kinetic_integral_rotation_law  the same sentence for kinetic_integral
     evaluate_basis_rotation_law    sum_{a'} W_i[a, a'] * (row gidx(i, m, a') of evaluate_basis_model of the rotated
                                    basis at the rotated points)[p] = (row gidx(i, m, a) of the original)[p]
     density_rotation_invariant     with P' = W^T P W (block-wise over gidx, [rot_density]),
                                    sum_IJ P'_IJ phi'_I(R r) phi'_J(R r) = sum_IJ P_IJ phi_I(r) phi_J(r)
                                    (bilinear form over evaluate_basis_model rows; the sums enumerate the functions as
                                    (shell, segment, component) = every position below btotal once, [bsum]).
                                    NOT YET: the same sentence for Model/Density's evaluate_density function itself
                                    (needs the reindexing sum_{I < btotal} f I = bsum (f o gidx) and the unfolding of
                                    the density model into this bilinear form).
   Hypotheses: R orthogonal; fapx = id; exp(x + y) = exp x exp y (two-index laws only); 1 + 1 <> 0; dfnorm <> 0;
   one coefficient row per exponent; exponent sums non-zero; norm_cont entries non-zero (they are divided by). *)
From Coq Require Import List Arith Lia Field Bool.
From GB Require Import Base.Field Base.FNum Base.Tables Base.Blocks Gauss.Moment1D Gauss.Poly3 Model.Shell
  Model.MomentInt Model.Overlap Model.DiffOp Model.OneBody Model.Eval
  Proofs.CoreSumP Proofs.CoreBlockP Proofs.CoreDiffP Proofs.RigidP Proofs.RotationP Proofs.RotationBlockP
  Proofs.BlockMatP Proofs.AssembledP Proofs.AssembledOverlapP Proofs.SameFunP Proofs.RotationEvalP.
Import ListNotations.

Section RotAsm.
Context {F : Type} (K : Fops F) (Kf : is_field K).
Add Field KFrasm : Kf.
Local Open Scope F_scope.
Notation "0" := (f0 K) : F_scope.
Notation "1" := (f1 K) : F_scope.
Infix "+" := (fadd K) : F_scope.
Infix "*" := (fmul K) : F_scope.
Infix "-" := (fsub K) : F_scope.
Infix "/" := (fdiv K) : F_scope.
Notation fsum := (FNum.fsum K).

(* ------------------------------------------------------------------ *)
(* 1. the contraction normalisation does not see the rotation           *)
(* ------------------------------------------------------------------ *)
Lemma rot_shell_is_shift R (s : shell F) :
  rot_shell K R s
  = shift_shell K (fst (fst (mapply K R (s_x s, s_y s, s_z s))) - s_x s)
                  (snd (fst (mapply K R (s_x s, s_y s, s_z s))) - s_y s)
                  (snd (mapply K R (s_x s, s_y s, s_z s)) - s_z s) s.
Proof.
  unfold rot_shell, shift_shell. cbv zeta.
  set (c := mapply K R (s_x s, s_y s, s_z s)).
  replace (s_x s + (fst (fst c) - s_x s)) with (fst (fst c)) by ring.
  replace (s_y s + (snd (fst c) - s_y s)) with (snd (fst c)) by ring.
  replace (s_z s + (snd c - s_z s)) with (snd c) by ring.
  reflexivity.
Qed.

(* the self-overlap block of the rotated shell is the self-overlap block of the shell *)
Lemma self_overlap_rotation_invariant R (s : shell F) :
  (forall a b, In a (s_exps s) -> In b (s_exps s) -> a + b <> 0) ->
  overlap_block K (rot_shell K R s) (rot_shell K R s) = overlap_block K s s.
Proof.
  intros He. rewrite rot_shell_is_shift. apply (overlap_block_shift K Kf). exact He.
Qed.

Theorem norm_cont_rotation_invariant R (s : shell F) :
  (forall a b, In a (s_exps s) -> In b (s_exps s) -> a + b <> 0) ->
  norm_cont K (rot_shell K R s) = norm_cont K s.
Proof.
  intros He. unfold norm_cont. cbv zeta. rewrite (self_overlap_rotation_invariant R s He). reflexivity.
Qed.

Corollary ncont_rotation_invariant R (s : shell F) m c :
  (forall a b, In a (s_exps s) -> In b (s_exps s) -> a + b <> 0) ->
  ncont K (rot_shell K R s) m c = ncont K s m c.
Proof. intros He. unfold ncont. now rewrite norm_cont_rotation_invariant. Qed.

(* ------------------------------------------------------------------ *)
(* 2. the block law with the explicit matrix, on the contracted spec    *)
(* ------------------------------------------------------------------ *)
Hypothesis Hapx : forall x : F, fapx K x = x.
Hypothesis H2 : 1 + 1 <> 0.
Hypothesis Hdf : forall c, dfnorm K c <> 0.

Definition cmpl (l i : nat) : comp := nth i (default_comps l) (0, 0, 0)%nat.
Definition ncd (l : nat) : nat := length (default_comps l).

Section Generic.
Variable prim : shell F -> shell F -> comp -> comp -> F -> F -> F.
Hypothesis prim_matrix : forall R la lb sa sb ja jb alpha beta,
  orthogonal K R -> psum K alpha beta <> 0 -> In ja (default_comps la) -> In jb (default_comps lb) ->
  fsum (map (fun ia => fsum (map (fun ib =>
      rep_mat K R ia ja * rep_mat K R ib jb * prim (rot_shell K R sa) (rot_shell K R sb) ia ib alpha beta)
    (default_comps lb))) (default_comps la))
  = prim sa sb ja jb alpha beta.

Lemma contracted_rotation_law R (sa sb : shell F) ma mb ja jb :
  orthogonal K R ->
  (forall a b, In a (s_exps sa) -> In b (s_exps sb) -> a + b <> 0) ->
  (ja < ncd (s_l sa))%nat -> (jb < ncd (s_l sb))%nat ->
  let la := s_l sa in let lb := s_l sb in
  let sa' := rot_shell K R sa in let sb' := rot_shell K R sb in
  dfnorm K (cmpl la ja) * dfnorm K (cmpl lb jb)
    * contracted K sa sb (cmpl la ja) (cmpl lb jb) ma mb (prim sa sb (cmpl la ja) (cmpl lb jb))
  = fsum (mk (ncd la) (fun ia => fsum (mk (ncd lb) (fun ib =>
      rep_mat K R (cmpl la ia) (cmpl la ja) * rep_mat K R (cmpl lb ib) (cmpl lb jb)
      * (dfnorm K (cmpl la ia) * dfnorm K (cmpl lb ib)
         * contracted K sa' sb' (cmpl la ia) (cmpl lb ib) ma mb (prim sa' sb' (cmpl la ia) (cmpl lb ib))))))).
Proof.
  intros HO Hex Hja Hjb la lb sa' sb'.
  rewrite (contracted_W K Kf Hapx Hdf sa sb).
  symmetry.
  transitivity (fsum (mk (ncd la) (fun ia => rep_mat K R (cmpl la ia) (cmpl la ja) *
     W K sa sb ma mb (fun x y => fsum (mk (ncd lb) (fun ib =>
        rep_mat K R (cmpl lb ib) (cmpl lb jb) * prim sa' sb' (cmpl la ia) (cmpl lb ib) x y)))))).
  { apply fsum_mk_ext. intros ia Hia. rewrite (W_fsum K Kf), (fsum_mk_scale_l K Kf).
    apply fsum_mk_ext. intros ib Hib.
    rewrite (contracted_W K Kf Hapx Hdf sa' sb').
    change (W K sa' sb' ma mb) with (W K sa sb ma mb).
    change (fun x y : F => prim sa' sb' (cmpl la ia) (cmpl lb ib) x y)
      with (prim sa' sb' (cmpl la ia) (cmpl lb ib)). ring. }
  rewrite <- (W_fsum K Kf). apply W_ext. intros alpha beta Ha Hb.
  rewrite <- (prim_matrix R la lb sa sb (cmpl la ja) (cmpl lb jb) alpha beta HO)
    by (try (apply nth_In; assumption); unfold psum; now apply Hex).
  rewrite (map_as_mk _ (default_comps la) (0, 0, 0)%nat). apply fsum_mk_ext. intros ia _.
  fold (cmpl la ia). rewrite (map_as_mk _ (default_comps lb) (0, 0, 0)%nat), (fsum_mk_scale_l K Kf).
  apply fsum_mk_ext. intros ib _. fold (cmpl lb ib). subst sa' sb'. ring.
Qed.
End Generic.

(* ------------------------------------------------------------------ *)
(* 3. the transformation matrix of the normalised contracted functions  *)
(* ------------------------------------------------------------------ *)
(* W_s^m[a, a'] = n_s[m][a] / dfnorm(a) * D[a', a] * dfnorm(a') / n_s[m][a'] *)
Definition wrot (R : @mat3 F) (s : shell F) (m a a' : nat) : F :=
  ncont K s m a / dfnorm K (cmpl (s_l s) a) * rep_mat K R (cmpl (s_l s) a') (cmpl (s_l s) a)
  * dfnorm K (cmpl (s_l s) a') / ncont K s m a'.

(* if the contraction norm does not depend on the component (true when sqrt is exact on the double factorials),
   W is the representation matrix conjugated with the primitive component norms only *)
Lemma wrot_simpl R (s : shell F) m a a' :
  ncont K s m a' = ncont K s m a -> ncont K s m a' <> 0 ->
  wrot R s m a a'
  = dfnorm K (cmpl (s_l s) a') / dfnorm K (cmpl (s_l s) a) * rep_mat K R (cmpl (s_l s) a') (cmpl (s_l s) a).
Proof.
  intros E Hn. unfold wrot. rewrite <- E. field. split; [apply Hdf|exact Hn].
Qed.

(* the basis: Cartesian shells in the default component order, one coefficient row per exponent, at least one
   segment, exponent sums non-zero *)
Definition rot_basis_ok (bs : list (shell F)) : Prop :=
  (forall s, In s bs -> s_sph s = false /\ (0 < nseg s)%nat /\ s_comps s = [] /\ wf_coeffs s)
  /\ (forall sa sb, In sa bs -> In sb bs -> forall a b, In a (s_exps sa) -> In b (s_exps sb) -> a + b <> 0).
Definition rot_basis (R : @mat3 F) (bs : list (shell F)) : list (shell F) := map (rot_shell K R) bs.

Section Basis.
Variable R : @mat3 F.
Hypothesis HO : orthogonal K R.
Variable bs : list (shell F).
Hypothesis OK : rot_basis_ok bs.
Notation s_ k := (sh_at K bs k).
Notation bs' := (rot_basis R bs).
Notation rs_ k := (rot_shell K R (sh_at K bs k)).

Lemma sh_in' k : (k < length bs)%nat -> In (s_ k) bs.
Proof. intros H. now apply nth_In. Qed.

Lemma sh_at_rot k : (k < length bs)%nat -> sh_at K bs' k = rs_ k.
Proof.
  intros Hk. unfold sh_at, rot_basis.
  rewrite (nth_indep _ (dshell K) (rot_shell K R (dshell K))) by (now rewrite map_length).
  apply map_nth.
Qed.

Lemma bdim_rot t : bdim (sh_at K bs' t) = bdim (s_ t).
Proof.
  destruct (Nat.lt_ge_cases t (length bs)) as [H|H].
  - now rewrite sh_at_rot.
  - unfold sh_at, rot_basis. rewrite !nth_overflow by (rewrite ?map_length; exact H). reflexivity.
Qed.

Lemma gidx_rot k m c : (k < length bs)%nat -> gidx K bs' k m c = gidx K bs k m c.
Proof.
  intros Hk. unfold gidx, boff. rewrite (offs_ext _ (fun t => bdim (s_ t))) by (intros; apply bdim_rot).
  now rewrite sh_at_rot.
Qed.

Lemma btotal_rot : btotal K bs' = btotal K bs.
Proof.
  unfold btotal, boff, rot_basis. rewrite map_length. apply offs_ext. intros; apply bdim_rot.
Qed.

Lemma rot_in s' : In s' bs' -> exists s, In s bs /\ s' = rot_shell K R s.
Proof. unfold rot_basis. rewrite in_map_iff. intros (s & E & H). exists s. now split. Qed.

Lemma rot_cart_basis : cart_basis bs'.
Proof.
  intros s' Hs'. destruct (rot_in s' Hs') as (s & Hs & ->). destruct OK as [A _].
  destruct (A s Hs) as (H1 & H2' & _). split; [exact H1|exact H2'].
Qed.
Lemma rot_basis_wf : basis_wf bs'.
Proof.
  intros s' Hs'. destruct (rot_in s' Hs') as (s & Hs & ->). destruct OK as [A _].
  destruct (A s Hs) as (_ & _ & H3 & H4). apply wf_shell_default; [exact H3|exact H4].
Qed.
Lemma rot_basis_exps : basis_exps K bs' bs'.
Proof.
  intros sa' sb' Ha' Hb'. destruct (rot_in sa' Ha') as (sa & Ha & ->). destruct (rot_in sb' Hb') as (sb & Hb & ->).
  destruct OK as [_ B]. intros a b Hia Hib. unfold psum. exact (B sa sb Ha Hb a b Hia Hib).
Qed.
Lemma orig_cart_basis : cart_basis bs.
Proof. intros s Hs. destruct OK as [A _]. destruct (A s Hs) as (H1 & H2' & _). now split. Qed.
Lemma orig_basis_wf : basis_wf bs.
Proof.
  intros s Hs. destruct OK as [A _]. destruct (A s Hs) as (_ & _ & H3 & H4). now apply wf_shell_default.
Qed.
Lemma orig_basis_exps : basis_exps K bs bs.
Proof. intros sa sb Ha Hb. destruct OK as [_ B]. intros a b Hia Hib. unfold psum. exact (B sa sb Ha Hb a b Hia Hib). Qed.

Lemma comps_default k : (k < length bs)%nat -> comps_of (s_ k) = default_comps (s_l (s_ k)).
Proof.
  intros Hk. destruct OK as [A _]. destruct (A (s_ k) (sh_in' k Hk)) as (_ & _ & H3 & _).
  unfold comps_of. now rewrite H3.
Qed.
Lemma ncomp_default k : (k < length bs)%nat -> AssembledP.ncomp (s_ k) = ncd (s_l (s_ k)).
Proof. intros Hk. unfold AssembledP.ncomp, ncd. now rewrite comps_default. Qed.
Lemma self_exps k : (k < length bs)%nat ->
  forall a b, In a (s_exps (s_ k)) -> In b (s_exps (s_ k)) -> a + b <> 0.
Proof. intros Hk. destruct OK as [_ B]. apply B; now apply sh_in'. Qed.

(* norm_cont entries are divided by *)
Definition ncont_nonzero : Prop :=
  forall k m c, (k < length bs)%nat -> (m < nseg (s_ k))%nat -> (c < ncd (s_l (s_ k)))%nat -> ncont K (s_ k) m c <> 0.

(* ---- any symmetric two-index assembly whose entries are normalised contracted values ---- *)
Section GenericAsm.
Variable prim : shell F -> shell F -> comp -> comp -> F -> F -> F.
Hypothesis prim_matrix : forall R la lb sa sb ja jb alpha beta,
  orthogonal K R -> psum K alpha beta <> 0 -> In ja (default_comps la) -> In jb (default_comps lb) ->
  fsum (map (fun ia => fsum (map (fun ib =>
      rep_mat K R ia ja * rep_mat K R ib jb * prim (rot_shell K R sa) (rot_shell K R sb) ia ib alpha beta)
    (default_comps lb))) (default_comps la))
  = prim sa sb ja jb alpha beta.
Variables S S' : list (list F).
Hypothesis HS : forall i j m c m' c', (i < length bs)%nat -> (j < length bs)%nat ->
  (m < nseg (s_ i))%nat -> (c < ncd (s_l (s_ i)))%nat -> (m' < nseg (s_ j))%nat -> (c' < ncd (s_l (s_ j)))%nat ->
  nth (gidx K bs j m' c') (nth (gidx K bs i m c) S []) 0
  = ncont K (s_ i) m c * ncont K (s_ j) m' c'
    * contracted K (s_ i) (s_ j) (cmpl (s_l (s_ i)) c) (cmpl (s_l (s_ j)) c') m m'
        (prim (s_ i) (s_ j) (cmpl (s_l (s_ i)) c) (cmpl (s_l (s_ j)) c')).
Hypothesis HS' : forall i j m c m' c', (i < length bs)%nat -> (j < length bs)%nat ->
  (m < nseg (s_ i))%nat -> (c < ncd (s_l (s_ i)))%nat -> (m' < nseg (s_ j))%nat -> (c' < ncd (s_l (s_ j)))%nat ->
  nth (gidx K bs j m' c') (nth (gidx K bs i m c) S' []) 0
  = ncont K (s_ i) m c * ncont K (s_ j) m' c'
    * contracted K (rs_ i) (rs_ j) (cmpl (s_l (s_ i)) c) (cmpl (s_l (s_ j)) c') m m'
        (prim (rs_ i) (rs_ j) (cmpl (s_l (s_ i)) c) (cmpl (s_l (s_ j)) c')).

Lemma two_index_rotation_law_generic : ncont_nonzero ->
  forall i j m a m' b, (i < length bs)%nat -> (j < length bs)%nat ->
  (m < nseg (s_ i))%nat -> (a < ncd (s_l (s_ i)))%nat -> (m' < nseg (s_ j))%nat -> (b < ncd (s_l (s_ j)))%nat ->
  fsum (mk (ncd (s_l (s_ i))) (fun a' => fsum (mk (ncd (s_l (s_ j))) (fun b' =>
    wrot R (s_ i) m a a' * wrot R (s_ j) m' b b'
    * nth (gidx K bs j m' b') (nth (gidx K bs i m a') S' []) 0))))
  = nth (gidx K bs j m' b) (nth (gidx K bs i m a) S []) 0.
Proof.
  intros Hn i j m a m' b Hi Hj Hm Ha Hm' Hb.
  set (li := s_l (s_ i)). set (lj := s_l (s_ j)).
  pose proof (contracted_rotation_law prim prim_matrix R (s_ i) (s_ j) m m' a b HO
                (proj2 OK (s_ i) (s_ j) (sh_in' i Hi) (sh_in' j Hj)) Ha Hb) as L.
  cbv zeta in L. fold li lj in L.
  rewrite (HS i j m a m' b) by assumption. fold li lj.
  transitivity ((ncont K (s_ i) m a / dfnorm K (cmpl li a)) * (ncont K (s_ j) m' b / dfnorm K (cmpl lj b))
    * (dfnorm K (cmpl li a) * dfnorm K (cmpl lj b)
       * contracted K (s_ i) (s_ j) (cmpl li a) (cmpl lj b) m m' (prim (s_ i) (s_ j) (cmpl li a) (cmpl lj b))));
    [|field; split; apply Hdf].
  rewrite L. rewrite (fsum_mk_scale_l K Kf). apply fsum_mk_ext. intros a' Ha'.
  rewrite (fsum_mk_scale_l K Kf). apply fsum_mk_ext. intros b' Hb'.
  rewrite (HS' i j m a' m' b') by assumption. fold li lj. unfold wrot. fold li lj.
  pose proof (Hn i m a' Hi Hm Ha') as N1. pose proof (Hn j m' b' Hj Hm' Hb') as N2.
  field. repeat split; auto.
Qed.
End GenericAsm.

(* ---- overlap_integral and kinetic_integral ---- *)
Hypothesis Hexp : forall x y, fexp K (x + y) = fexp K x * fexp K y.

Lemma entry_rot_generic (Mx : list (shell F) -> list (list F))
  (prim : shell F -> shell F -> comp -> comp -> F -> F -> F) :
  (forall b : list (shell F), cart_basis b -> basis_wf b -> basis_exps K b b ->
     forall i j m c m' c', (i < length b)%nat -> (j < length b)%nat ->
     (m < nseg (sh_at K b i))%nat -> (c < AssembledP.ncomp (sh_at K b i))%nat ->
     (m' < nseg (sh_at K b j))%nat -> (c' < AssembledP.ncomp (sh_at K b j))%nat ->
     let sa := sh_at K b i in let sb := sh_at K b j in
     let ca := nth c (comps_of sa) (0, 0, 0)%nat in let cb := nth c' (comps_of sb) (0, 0, 0)%nat in
     nth (gidx K b j m' c') (nth (gidx K b i m c) (Mx b) []) 0
     = ncont K sa m c * ncont K sb m' c' * contracted K sa sb ca cb m m' (prim sa sb ca cb)) ->
  (forall i j m c m' c', (i < length bs)%nat -> (j < length bs)%nat ->
    (m < nseg (s_ i))%nat -> (c < ncd (s_l (s_ i)))%nat -> (m' < nseg (s_ j))%nat -> (c' < ncd (s_l (s_ j)))%nat ->
    nth (gidx K bs j m' c') (nth (gidx K bs i m c) (Mx bs) []) 0
    = ncont K (s_ i) m c * ncont K (s_ j) m' c'
      * contracted K (s_ i) (s_ j) (cmpl (s_l (s_ i)) c) (cmpl (s_l (s_ j)) c') m m'
          (prim (s_ i) (s_ j) (cmpl (s_l (s_ i)) c) (cmpl (s_l (s_ j)) c')))
  /\ (forall i j m c m' c', (i < length bs)%nat -> (j < length bs)%nat ->
    (m < nseg (s_ i))%nat -> (c < ncd (s_l (s_ i)))%nat -> (m' < nseg (s_ j))%nat -> (c' < ncd (s_l (s_ j)))%nat ->
    nth (gidx K bs j m' c') (nth (gidx K bs i m c) (Mx bs') []) 0
    = ncont K (s_ i) m c * ncont K (s_ j) m' c'
      * contracted K (rs_ i) (rs_ j) (cmpl (s_l (s_ i)) c) (cmpl (s_l (s_ j)) c') m m'
          (prim (rs_ i) (rs_ j) (cmpl (s_l (s_ i)) c) (cmpl (s_l (s_ j)) c'))).
Proof.
  intros HE. split; intros i j m c m' c' Hi Hj Hm Hc Hm' Hc'.
  - pose proof (HE bs orig_cart_basis orig_basis_wf orig_basis_exps i j m c m' c' Hi Hj Hm
                  ltac:(rewrite ncomp_default by exact Hi; exact Hc) Hm'
                  ltac:(rewrite ncomp_default by exact Hj; exact Hc')) as E.
    cbv zeta in E. rewrite (comps_default i Hi), (comps_default j Hj) in E. exact E.
  - assert (Hi' : (i < length bs')%nat) by (unfold rot_basis; now rewrite map_length).
    assert (Hj' : (j < length bs')%nat) by (unfold rot_basis; now rewrite map_length).
    pose proof (HE bs' rot_cart_basis rot_basis_wf rot_basis_exps i j m c m' c' Hi' Hj') as E.
    cbv zeta in E. rewrite !(sh_at_rot i Hi), !(sh_at_rot j Hj), (gidx_rot i m c Hi), (gidx_rot j m' c' Hj) in E.
    change (nseg (rs_ i)) with (nseg (s_ i)) in E. change (nseg (rs_ j)) with (nseg (s_ j)) in E.
    change (AssembledP.ncomp (rs_ i)) with (AssembledP.ncomp (s_ i)) in E.
    change (AssembledP.ncomp (rs_ j)) with (AssembledP.ncomp (s_ j)) in E.
    change (comps_of (rs_ i)) with (comps_of (s_ i)) in E. change (comps_of (rs_ j)) with (comps_of (s_ j)) in E.
    rewrite (ncomp_default i Hi), (ncomp_default j Hj), (comps_default i Hi), (comps_default j Hj) in E.
    rewrite (ncont_rotation_invariant R (s_ i) m c (self_exps i Hi)),
            (ncont_rotation_invariant R (s_ j) m' c' (self_exps j Hj)) in E.
    exact (E Hm Hc Hm' Hc').
Qed.

Theorem overlap_integral_rotation_law : ncont_nonzero ->
  forall i j m a m' b, (i < length bs)%nat -> (j < length bs)%nat ->
  (m < nseg (s_ i))%nat -> (a < ncd (s_l (s_ i)))%nat -> (m' < nseg (s_ j))%nat -> (b < ncd (s_l (s_ j)))%nat ->
  fsum (mk (ncd (s_l (s_ i))) (fun a' => fsum (mk (ncd (s_l (s_ j))) (fun b' =>
    wrot R (s_ i) m a a' * wrot R (s_ j) m' b b'
    * nth (gidx K bs j m' b') (nth (gidx K bs i m a') (overlap_integral K bs' None) []) 0))))
  = nth (gidx K bs j m' b) (nth (gidx K bs i m a) (overlap_integral K bs None) []) 0.
Proof.
  destruct (entry_rot_generic (fun b => overlap_integral K b None) (ovl_prim K)) as [E1 E2].
  { intros b Cb Wb Eb i j m c m' c' Hi Hj Hm Hc Hm' Hc'.
    exact (overlap_integral_entry K Kf Hapx H2 b Cb Wb Eb i j m c m' c' Hi Hj Hm Hc Hm' Hc'). }
  apply (two_index_rotation_law_generic (ovl_prim K)); [|exact E1|exact E2].
  intros. now apply (overlap_prim_rotation_matrix K Kf Hexp).
Qed.

Theorem kinetic_integral_rotation_law : ncont_nonzero ->
  forall i j m a m' b, (i < length bs)%nat -> (j < length bs)%nat ->
  (m < nseg (s_ i))%nat -> (a < ncd (s_l (s_ i)))%nat -> (m' < nseg (s_ j))%nat -> (b < ncd (s_l (s_ j)))%nat ->
  fsum (mk (ncd (s_l (s_ i))) (fun a' => fsum (mk (ncd (s_l (s_ j))) (fun b' =>
    wrot R (s_ i) m a a' * wrot R (s_ j) m' b b'
    * nth (gidx K bs j m' b') (nth (gidx K bs i m a') (kinetic_integral K bs' None) []) 0))))
  = nth (gidx K bs j m' b) (nth (gidx K bs i m a) (kinetic_integral K bs None) []) 0.
Proof.
  destruct (entry_rot_generic (fun b => kinetic_integral K b None) (kin_prim K)) as [E1 E2].
  { intros b Cb Wb Eb i j m c m' c' Hi Hj Hm Hc Hm' Hc'.
    exact (kinetic_integral_entry K Kf Hapx H2 b i j m c m' c' Cb Wb Eb Hi Hj Hm Hc Hm' Hc'). }
  apply (two_index_rotation_law_generic (kin_prim K)); [|exact E1|exact E2].
  intros. now apply (kinetic_prim_rotation_matrix K Kf Hexp).
Qed.

(* ------------------------------------------------------------------ *)
(* 4. evaluate_basis_model                                              *)
(* ------------------------------------------------------------------ *)
Lemma descr_len_bdim (b : list (shell F)) : (forall s, In s b -> s_sph s = false) ->
  forall t, (t < length b)%nat -> length (descr K (nth t b (SameFunP.dshell K))) = bdim (sh_at K b t).
Proof.
  intros Hs t Ht. rewrite descr_length, nrows_eq.
  change (nth t b (SameFunP.dshell K)) with (sh_at K b t).
  rewrite (Hs (sh_at K b t)) by (now apply nth_In). reflexivity.
Qed.

Lemma descr_basis_length (b : list (shell F)) : (forall s, In s b -> s_sph s = false) ->
  length (descr_basis K b) = btotal K b.
Proof.
  intros Hs. rewrite descr_basis_mk. unfold btotal, boff.
  apply (length_concat_mk (length b) (fun i => descr K (nth i b (SameFunP.dshell K)))
           (fun t => bdim (sh_at K b t))). now apply descr_len_bdim.
Qed.

(* the descriptor at the position gidx(k, m, c) of a Cartesian basis *)
Lemma descr_basis_gidx (b : list (shell F)) k m c : (forall s, In s b -> s_sph s = false) ->
  (k < length b)%nat -> (m < nseg (sh_at K b k))%nat -> (c < AssembledP.ncomp (sh_at K b k))%nat ->
  nth (gidx K b k m c) (descr_basis K b) ([] : fdesc (F:=F)) = cart_desc K (sh_at K b k) m c.
Proof.
  intros Hs Hk Hm Hc. rewrite descr_basis_mk. unfold gidx, boff.
  rewrite (nth_concat_mk (length b) (fun i => descr K (nth i b (SameFunP.dshell K)))
             (fun t => bdim (sh_at K b t)) ([] : fdesc (F:=F)) k _ (descr_len_bdim b Hs) Hk)
    by (unfold bdim; now apply idx_lt).
  change (nth k b (SameFunP.dshell K)) with (sh_at K b k).
  set (s := sh_at K b k) in *.
  assert (Hsph : s_sph s = false) by (apply Hs; now apply nth_In).
  assert (Hnr : nrows K s = AssembledP.ncomp s) by (rewrite nrows_eq, Hsph; reflexivity).
  rewrite descr_mk, Hnr.
  rewrite (nth_concat_const (mk (nseg s) (fun m0 => mk (AssembledP.ncomp s) (dd K s m0)))
             (AssembledP.ncomp s) ([] : fdesc (F:=F)) m c).
  - rewrite nth_mk by exact Hm. rewrite nth_mk by exact Hc. unfold dd. now rewrite Hsph.
  - apply Forall_forall. intros r Hr. unfold mk in Hr. apply in_map_iff in Hr. destruct Hr as (m0 & <- & _).
    apply mk_length.
  - now rewrite mk_length.
  - exact Hc.
Qed.

(* every entry of evaluate_basis_model of a Cartesian basis: contraction norm x un-normalised descriptor *)
Lemma eval_entry_gidx (b : list (shell F)) (pts : list (point (F:=F))) k m c p :
  (forall s, In s b -> s_sph s = false /\ s_comps s = []) ->
  (k < length b)%nat -> (m < nseg (sh_at K b k))%nat -> (c < AssembledP.ncomp (sh_at K b k))%nat ->
  (p < length pts)%nat ->
  nth p (nth (gidx K b k m c) (evaluate_basis_model K b pts None) []) 0
  = ncont K (sh_at K b k) m c * eval_spec K (cart_desc_raw K (sh_at K b k) m c) (nth p pts (0, 0, 0)).
Proof.
  intros Hb Hk Hm Hc Hp.
  assert (Hs : forall s, In s b -> s_sph s = false) by (intros s Hs; now destruct (Hb s Hs)).
  rewrite (same_function_eval_values K Kf)
    by (apply Forall_forall; intros s Hs'; apply default_comps_ok; now destruct (Hb s Hs')).
  set (f := fun d : fdesc (F:=F) => map (eval_spec K d) pts).
  rewrite (nth_indep _ [] (f [])) by (rewrite map_length, (descr_basis_length b Hs); now apply gidx_lt).
  rewrite (map_nth f), (descr_basis_gidx b k m c Hs Hk Hm Hc). unfold f.
  rewrite (nth_indep _ 0 (eval_spec K (cart_desc K (sh_at K b k) m c) (0, 0, 0)))
    by (now rewrite map_length).
  rewrite (map_nth (eval_spec K (cart_desc K (sh_at K b k) m c))).
  unfold eval_spec. rewrite (cart_desc_is_scaled_raw K Kf). reflexivity.
Qed.

Theorem evaluate_basis_rotation_law (pts : list (point (F:=F))) : ncont_nonzero ->
  forall i m a p, (i < length bs)%nat -> (m < nseg (s_ i))%nat -> (a < ncd (s_l (s_ i)))%nat ->
  (p < length pts)%nat ->
  fsum (mk (ncd (s_l (s_ i))) (fun a' =>
    wrot R (s_ i) m a a'
    * nth p (nth (gidx K bs i m a') (evaluate_basis_model K bs' (map (mapply K R) pts) None) []) 0))
  = nth p (nth (gidx K bs i m a) (evaluate_basis_model K bs pts None) []) 0.
Proof.
  intros Hn i m a p Hi Hm Ha Hp.
  assert (Hb : forall s, In s bs -> s_sph s = false /\ s_comps s = []).
  { intros s Hs. destruct OK as [A _]. destruct (A s Hs) as (H1 & _ & H3 & _). now split. }
  assert (Hb' : forall s, In s bs' -> s_sph s = false /\ s_comps s = []).
  { intros s' Hs'. destruct (rot_in s' Hs') as (s & Hs & ->). exact (Hb s Hs). }
  assert (Hi' : (i < length bs')%nat) by (unfold rot_basis; now rewrite map_length).
  assert (Hc0 : s_comps (s_ i) = []) by (apply Hb; now apply sh_in').
  set (l := s_l (s_ i)).
  rewrite (eval_entry_gidx bs pts i m a p Hb Hi Hm) by (try (rewrite ncomp_default by exact Hi); assumption).
  pose proof (eval_spec_rotation_law K Kf Hapx Hdf R HO (s_ i) Hc0 m a (nth p pts (0, 0, 0)) Ha) as L.
  cbv zeta in L. fold l in L. unfold wrot, cmpl. fold l.
  set (cm := fun i0 : nat => nth i0 (default_comps l) (0, 0, 0)%nat) in *.
  change (nth a (default_comps l) (0, 0, 0)%nat) with (cm a) in *.
  transitivity ((ncont K (s_ i) m a / dfnorm K (cm a))
                * (dfnorm K (cm a) * eval_spec K (cart_desc_raw K (s_ i) m a) (nth p pts (0, 0, 0))));
    [|field; apply Hdf].
  rewrite L.
  change (seq 0 (length (default_comps l))) with (seq 0 (ncd l)).
  match goal with |- context [map ?g (seq 0 (ncd l))] => change (map g (seq 0 (ncd l))) with (mk (ncd l) g) end.
  rewrite (fsum_mk_scale_l K Kf). apply fsum_mk_ext. intros a' Ha'.
  rewrite <- (gidx_rot i m a' Hi).
  rewrite (eval_entry_gidx bs' (map (mapply K R) pts) i m a' p Hb' Hi')
    by (rewrite ?(sh_at_rot i Hi), ?map_length; try assumption;
        change (AssembledP.ncomp (rs_ i)) with (AssembledP.ncomp (s_ i)); rewrite ncomp_default by exact Hi;
        exact Ha').
  rewrite (sh_at_rot i Hi), (ncont_rotation_invariant R (s_ i) m a' (self_exps i Hi)).
  rewrite (nth_indep _ (0, 0, 0) (mapply K R (0, 0, 0))) by (now rewrite map_length).
  rewrite (map_nth (mapply K R)).
  change (nth a' (default_comps l) (0, 0, 0)%nat) with (cm a').
  change (@nth (@vec3 F) p pts (0, 0, 0)) with (@nth (@point F) p pts (0, 0, 0)).
  pose proof (Hn i m a' Hi Hm Ha') as N1. pose proof (Hdf (cm a)) as D1. revert N1 D1.
  generalize (ncont K (s_ i) m a') (dfnorm K (cm a)) (dfnorm K (cm a')) (ncont K (s_ i) m a)
    (rep_mat K R (cm a') (cm a))
    (eval_spec K (cart_desc_raw K (rs_ i) m a') (mapply K R (nth p pts (0, 0, 0)))).
  intros x1 x2 x3 x4 x5 x6 N1 D1. field. split; assumption.
Qed.

End Basis.

End RotAsm.

(* ------------------------------------------------------------------ *)
(* 5. the density bilinear form                                         *)
(* ------------------------------------------------------------------ *)
Section Density.
Context {F : Type} (K : Fops F) (Kf : is_field K).
Add Field KFrdens : Kf.
Local Open Scope F_scope.
Notation "0" := (f0 K) : F_scope.
Infix "+" := (fadd K) : F_scope.
Infix "*" := (fmul K) : F_scope.
Notation fsum := (FNum.fsum K).
Hypothesis Hapx : forall x : F, fapx K x = x.
Hypothesis Hdf : forall c, dfnorm K c <> 0.
Variable R : @mat3 F.
Hypothesis HO : orthogonal K R.
Variable bs : list (shell F).
Hypothesis OK : rot_basis_ok K bs.
Hypothesis Hn : ncont_nonzero K bs.
Variable pts : list (point (F:=F)).
Notation s_ k := (sh_at K bs k).
Notation g_ := (gidx K bs).

(* sum over all functions of the basis, enumerated as (shell, segment, component); by gidx_surj / gidx_inj every
   position below btotal occurs exactly once *)
Definition bsum (f : nat -> nat -> nat -> F) : F :=
  fsum (mk (length bs) (fun i => fsum (mk (nseg (s_ i)) (fun m => fsum (mk (ncd (s_l (s_ i))) (fun a => f i m a)))))).

Lemma bsum_ext f g :
  (forall i m a, (i < length bs)%nat -> (m < nseg (s_ i))%nat -> (a < ncd (s_l (s_ i)))%nat -> f i m a = g i m a) ->
  bsum f = bsum g.
Proof.
  intros H. unfold bsum. apply fsum_mk_ext; intros i Hi. apply fsum_mk_ext; intros m Hm.
  apply fsum_mk_ext; intros a Ha. now apply H.
Qed.
Lemma bsum_scale_l c f : c * bsum f = bsum (fun i m a => c * f i m a).
Proof.
  unfold bsum. rewrite (fsum_mk_scale_l K Kf). apply fsum_mk_ext; intros i _.
  rewrite (fsum_mk_scale_l K Kf). apply fsum_mk_ext; intros m _. now rewrite (fsum_mk_scale_l K Kf).
Qed.
Lemma bsum_swap_fsum n (f : nat -> nat -> nat -> nat -> F) :
  fsum (mk n (fun a => bsum (f a))) = bsum (fun i m b => fsum (mk n (fun a => f a i m b))).
Proof.
  unfold bsum. rewrite (fsum_mk_swap K Kf). apply fsum_mk_ext; intros i _.
  rewrite (fsum_mk_swap K Kf). apply fsum_mk_ext; intros m _. now rewrite (fsum_mk_swap K Kf).
Qed.

Section Point.
Variable p : nat.
Hypothesis Hp : (p < length pts)%nat.
Let phi (I : nat) : F := nth p (nth I (evaluate_basis_model K bs pts None) []) 0.
Let phi' (I : nat) : F :=
  nth p (nth I (evaluate_basis_model K (rot_basis K R bs) (map (mapply K R) pts) None) []) 0.

Lemma phi_rot i m a : (i < length bs)%nat -> (m < nseg (s_ i))%nat -> (a < ncd (s_l (s_ i)))%nat ->
  phi (g_ i m a) = fsum (mk (ncd (s_l (s_ i))) (fun a' => wrot K R (s_ i) m a a' * phi' (g_ i m a'))).
Proof.
  intros Hi Hm Ha. symmetry.
  exact (evaluate_basis_rotation_law K Kf Hapx Hdf R HO bs OK pts Hn i m a p Hi Hm Ha Hp).
Qed.

(* one index: sum_I g_I phi_I = sum_I' (sum_a g_(i,m,a) W[a,a']) phi'_I' *)
Lemma transfer (g : nat -> nat -> nat -> F) :
  bsum (fun i m a => g i m a * phi (g_ i m a))
  = bsum (fun i m a' => fsum (mk (ncd (s_l (s_ i))) (fun a => g i m a * wrot K R (s_ i) m a a')) * phi' (g_ i m a')).
Proof.
  unfold bsum. apply fsum_mk_ext; intros i Hi. apply fsum_mk_ext; intros m Hm.
  transitivity (fsum (mk (ncd (s_l (s_ i))) (fun a => fsum (mk (ncd (s_l (s_ i))) (fun a' =>
                  g i m a * wrot K R (s_ i) m a a' * phi' (g_ i m a')))))).
  { apply fsum_mk_ext; intros a Ha. rewrite (phi_rot i m a Hi Hm Ha), (fsum_mk_scale_l K Kf).
    apply fsum_mk_ext; intros a' _. ring. }
  rewrite (fsum_mk_swap K Kf). apply fsum_mk_ext; intros a' _.
  now rewrite (fsum_mk_scale_r K Kf).
Qed.

(* the density matrix of the rotated basis: P' = W^T P W, block-wise *)
Definition rot_density (P : nat -> nat -> F) (i m a' j m' b' : nat) : F :=
  fsum (mk (ncd (s_l (s_ i))) (fun a => fsum (mk (ncd (s_l (s_ j))) (fun b =>
    wrot K R (s_ i) m a a' * P (g_ i m a) (g_ j m' b) * wrot K R (s_ j) m' b b')))).

Theorem density_rotation_invariant_at (P : nat -> nat -> F) :
  bsum (fun i m a' => bsum (fun j m' b' =>
    rot_density P i m a' j m' b' * phi' (g_ i m a') * phi' (g_ j m' b')))
  = bsum (fun i m a => bsum (fun j m' b => P (g_ i m a) (g_ j m' b) * phi (g_ i m a) * phi (g_ j m' b))).
Proof.
  symmetry.
  transitivity (bsum (fun i m a => bsum (fun j m' b' =>
     fsum (mk (ncd (s_l (s_ j))) (fun b => P (g_ i m a) (g_ j m' b) * wrot K R (s_ j) m' b b')) * phi' (g_ j m' b'))
     * phi (g_ i m a))).
  { apply bsum_ext; intros i m a _ _ _. rewrite <- (transfer (fun j m' b => P (g_ i m a) (g_ j m' b))).
    transitivity (phi (g_ i m a) * bsum (fun j m' b => P (g_ i m a) (g_ j m' b) * phi (g_ j m' b))); [|ring].
    rewrite bsum_scale_l. apply bsum_ext; intros j m' b _ _ _. ring. }
  rewrite (transfer (fun i m a => bsum (fun j m' b' =>
     fsum (mk (ncd (s_l (s_ j))) (fun b => P (g_ i m a) (g_ j m' b) * wrot K R (s_ j) m' b b')) * phi' (g_ j m' b')))).
  apply bsum_ext; intros i m a' _ _ _.
  rewrite (fsum_mk_scale_r K Kf).
  transitivity (fsum (mk (ncd (s_l (s_ i))) (fun a => bsum (fun j m' b' =>
     (wrot K R (s_ i) m a a' * phi' (g_ i m a'))
     * (fsum (mk (ncd (s_l (s_ j))) (fun b => P (g_ i m a) (g_ j m' b) * wrot K R (s_ j) m' b b')) * phi' (g_ j m' b')))))).
  { apply fsum_mk_ext; intros a _. rewrite <- bsum_scale_l. ring. }
  rewrite bsum_swap_fsum. apply bsum_ext; intros j m' b' _ _ _.
  unfold rot_density.
  transitivity (fsum (mk (ncd (s_l (s_ i))) (fun a => fsum (mk (ncd (s_l (s_ j))) (fun b =>
      wrot K R (s_ i) m a a' * P (g_ i m a) (g_ j m' b) * wrot K R (s_ j) m' b b'))))
    * (phi' (g_ i m a') * phi' (g_ j m' b'))); [|ring].
  rewrite (fsum_mk_scale_r K Kf). apply fsum_mk_ext; intros a _.
  transitivity ((wrot K R (s_ i) m a a' * (phi' (g_ i m a') * phi' (g_ j m' b')))
                * fsum (mk (ncd (s_l (s_ j))) (fun b => P (g_ i m a) (g_ j m' b) * wrot K R (s_ j) m' b b')));
    [ring|].
  rewrite (fsum_mk_scale_l K Kf), (fsum_mk_scale_r K Kf). apply fsum_mk_ext; intros b _. ring.
Qed.
End Point.

(* density_rotation_invariant: at every point r_p, with P' = W^T P W,
     sum_{I', J'} P'_{I'J'} phi'_{I'}(R r_p) phi'_{J'}(R r_p) = sum_{I, J} P_{IJ} phi_I(r_p) phi_J(r_p),
   phi, phi' the rows of evaluate_basis_model of the basis at the points / of the rotated basis at the rotated points *)
Theorem density_rotation_invariant (P : nat -> nat -> F) p : (p < length pts)%nat ->
  let E := evaluate_basis_model K bs pts None in
  let E' := evaluate_basis_model K (rot_basis K R bs) (map (mapply K R) pts) None in
  bsum (fun i m a' => bsum (fun j m' b' =>
    rot_density P i m a' j m' b' * nth p (nth (g_ i m a') E' []) 0 * nth p (nth (g_ j m' b') E' []) 0))
  = bsum (fun i m a => bsum (fun j m' b =>
    P (g_ i m a) (g_ j m' b) * nth p (nth (g_ i m a) E []) 0 * nth p (nth (g_ j m' b) E []) 0)).
Proof. intros Hp. exact (density_rotation_invariant_at p Hp P). Qed.
End Density.

(* ------------------------------------------------------------------ *)
(* Examples over Qc: an s + p (2 primitives, 2 segments) + d basis, the 3-4-5 rotation and an improper rotation.
   The transcendental closures are stand-ins (sqrt = exp = 1), which satisfy every hypothesis. *)
From Coq Require Import ZArith QArith Qcanon.
Section Examples.
Let KQ : Fops Qc := exKQ.
Let KQf : is_field KQ := QcK_field _ _ _ _ _ _.
Let q (n : Z) (d : positive) : Qc := qc_of n d.
Definition exS : shell Qc :=
  mkShell Qc 0 (q 1 1) (q 0 1) (q (-1) 2) [q 5 4; q 1 3] [[q 1 2]; [q 2 3]] false [] [].
Definition exbasis : list (shell Qc) := [exS; exP; exD].
Definition expts : list (Qc * Qc * Qc) := [(q 1 3, q 1 2, q (-1) 4); (q (-2) 1, q 0 1, q 1 5)].

Example rot_basis_ok_ex : rot_basis_ok KQ exbasis.
Proof.
  split.
  - intros s [<-|[<-|[<-|[]]]]; repeat split; cbn; lia.
  - intros sa sb Ha Hb a b Hia Hib.
    destruct Ha as [<-|[<-|[<-|[]]]]; destruct Hb as [<-|[<-|[<-|[]]]];
      cbn [exS exP exD s_exps In] in Hia, Hib;
      repeat match goal with
             | H : _ \/ _ |- _ => destruct H as [<-|H]
             | H : False |- _ => destruct H
             end;
      intro H; apply (f_equal this) in H; vm_compute in H; discriminate H.
Qed.

Example ncont_nonzero_ex : ncont_nonzero KQ exbasis.
Proof.
  intros k m c Hk Hm Hc.
  destruct k as [|[|[|k]]]; try (exfalso; cbn in Hk; lia); vm_compute in Hm, Hc;
    destruct m as [|[|m]]; try (exfalso; lia);
    destruct c as [|[|[|[|[|[|c]]]]]]; try (exfalso; lia);
    intro H; apply (f_equal this) in H; vm_compute in H; discriminate H.
Qed.

(* the assembled law re-evaluated on the list-level model, every pair of functions of the basis, both rotations *)
Definition asm_law_all (Mx : list (shell Qc) -> list (list Qc)) : bool :=
  forallb (fun R =>
    let S := Mx exbasis in let S' := Mx (rot_basis KQ R exbasis) in
    let W := mk 3 (fun i => let si := sh_at KQ exbasis i in
               mk (nseg si) (fun m => mk (ncd (s_l si)) (fun a => mk (ncd (s_l si)) (fun a' => wrot KQ R si m a a')))) in
    let w i m a a' := nth a' (nth a (nth m (nth i W []) []) []) (f0 KQ) in
    forallb (fun i => forallb (fun j =>
      let si := sh_at KQ exbasis i in let sj := sh_at KQ exbasis j in
      forallb (fun m => forallb (fun a => forallb (fun m' => forallb (fun b =>
        Qeq_bool
          (FNum.fsum KQ (mk (ncd (s_l si)) (fun a' => FNum.fsum KQ (mk (ncd (s_l sj)) (fun b' =>
             fmul KQ (fmul KQ (w i m a a') (w j m' b b'))
               (nth (gidx KQ exbasis j m' b') (nth (gidx KQ exbasis i m a') S' []) (f0 KQ)))))))
          (nth (gidx KQ exbasis j m' b) (nth (gidx KQ exbasis i m a) S []) (f0 KQ)))
        (seq 0 (ncd (s_l sj)))) (seq 0 (nseg sj))) (seq 0 (ncd (s_l si)))) (seq 0 (nseg si)))
      (seq 0 3)) (seq 0 3)) [R345; Rimp].
Example overlap_integral_law_computed : asm_law_all (fun b => overlap_integral KQ b None) = true.
Proof. vm_compute. reflexivity. Qed.
Example kinetic_integral_law_computed : asm_law_all (fun b => kinetic_integral KQ b None) = true.
Proof. vm_compute. reflexivity. Qed.

Definition eval_law_all_asm : bool :=
  forallb (fun R =>
    let E := evaluate_basis_model KQ exbasis expts None in
    let E' := evaluate_basis_model KQ (rot_basis KQ R exbasis) (map (mapply KQ R) expts) None in
    forallb (fun i => let si := sh_at KQ exbasis i in
      forallb (fun m => forallb (fun a => forallb (fun p =>
        Qeq_bool
          (FNum.fsum KQ (mk (ncd (s_l si)) (fun a' =>
             fmul KQ (wrot KQ R si m a a') (nth p (nth (gidx KQ exbasis i m a') E' []) (f0 KQ)))))
          (nth p (nth (gidx KQ exbasis i m a) E []) (f0 KQ)))
        (seq 0 2)) (seq 0 (ncd (s_l si)))) (seq 0 (nseg si))) (seq 0 3)) [R345; Rimp].
Example evaluate_basis_law_computed : eval_law_all_asm = true.
Proof. vm_compute. reflexivity. Qed.

(* not vacuous: a d-d entry of the overlap matrix does change under the rotation *)
Example overlap_integral_not_invariant :
  Qeq_bool (nth (gidx KQ exbasis 2 0 1) (nth (gidx KQ exbasis 1 0 0) (overlap_integral KQ exbasis None) []) (f0 KQ))
           (nth (gidx KQ exbasis 2 0 1) (nth (gidx KQ exbasis 1 0 0)
                 (overlap_integral KQ (rot_basis KQ R345 exbasis) None) []) (f0 KQ)) = false.
Proof. vm_compute. reflexivity. Qed.
End Examples.

Lemma asm_rotation_hypotheses_satisfiable :
  exists (F : Type) (K : Fops F) (R1 R2 : @mat3 F) (bs : list (shell F)),
    is_field K /\ (forall x y, fexp K (fadd K x y) = fmul K (fexp K x) (fexp K y)) /\ (forall x, fapx K x = x)
    /\ fadd K (f1 K) (f1 K) <> f0 K /\ (forall c, dfnorm K c <> f0 K)
    /\ orthogonal K R1 /\ orthogonal K R2 /\ rot_basis_ok K bs /\ ncont_nonzero K bs /\ length bs = 3%nat.
Proof.
  exists Qc, exKQ, R345, Rimp, exbasis.
  split; [apply QcK_field|]. destruct KQ_hyps as (A & B & C & D).
  split; [exact A|]. split; [exact B|]. split; [exact C|]. split; [exact D|].
  split; [apply orthogonal_R345'|]. split.
  { intros i j Hi Hj. destruct i as [|[|[|i]]]; try lia; destruct j as [|[|[|j]]]; try lia;
      split; apply Qc_is_canon; vm_compute; reflexivity. }
  split; [exact rot_basis_ok_ex|]. split; [exact ncont_nonzero_ex|reflexivity].
Qed.
