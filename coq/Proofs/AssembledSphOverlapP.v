(* Proofs/AssembledSphOverlapP.v — spherical / mixed bases, scalar operators (overlap, kinetic):
   the assembled matrix of a basis with ANY assignment of coordinate types is (+)_s T_s applied on both indices
   to the assembled matrix of the same basis with every shell taken Cartesian.

   tco s q c = T_s[q][c] (entry of Model/Spherical.shell_transform) for a spherical shell, delta_{q c} for a
   Cartesian one; to_cart s = s with coord_type Cartesian; with the output index map oidx (AssembledSphP.v) and
   the Cartesian one gidx (AssembledP.v):

     overlap_integral_mixed_entry   S[oidx i m q][oidx j m' q']
                                      = sum_c sum_c' tco s_i q c * tco s_j q' c' * n_i[m][c] n_j[m'][c'] * contracted(ovl_prim)
     overlap_mixed_is_cart_transformed
                                    S[oidx i m q][oidx j m' q']
                                      = sum_c sum_c' tco s_i q c * tco s_j q' c' * S_cart[gidx i m c][gidx j m' c'],
                                    S_cart = overlap_integral (map to_cart bs)
   for ALL positions (both triangles; the transposed copies need the exchange of the two finite sums and the
   block symmetry overlap_block_sym).  kinetic_mixed_is_cart_transformed: the same for kinetic_integral. *)
From Coq Require Import List Arith Lia Bool Field.
From GB Require Import Base.Field Base.FNum Base.Tables Base.Blocks Model.Shell Model.MomentInt
  Model.Spherical Model.Assembly Model.Overlap Model.DiffOp Model.OneBody
  Proofs.BlockP Proofs.CoreSumP Proofs.CoreBlockP Proofs.CoreDiffP Proofs.AssemblyP Proofs.OverlapP
  Proofs.BlockMatP Proofs.AssembledP Proofs.AssembledOverlapP Proofs.AssembledSphP.
Import ListNotations.

Definition to_cart {F} (s : shell F) : shell F :=
  mkShell F (s_l s) (s_x s) (s_y s) (s_z s) (s_exps s) (s_coeffs s) false (s_comps s) (s_labels s).

Section SphOverlap.
Context {F : Type} (K : Fops F) (Kf : is_field K).
Add Field KFsph : Kf.
Local Open Scope F_scope.
Notation "0" := (f0 K) : F_scope.
Notation "1" := (f1 K) : F_scope.
Infix "+" := (fadd K) : F_scope.
Infix "*" := (fmul K) : F_scope.
Notation fsum := (FNum.fsum K).

Definition tco (s : shell F) (q c : nat) : F :=
  if s_sph s then nth c (nth q (shell_transform K s) []) 0 else if Nat.eqb q c then 1 else 0.

Lemma fsum_delta L q (f : nat -> F) : q < L ->
  fsum (mk L (fun c => (if Nat.eqb q c then 1 else 0) * f c)) = f q.
Proof.
  induction L as [|L IH]; intros Hq; [lia|]. rewrite (fsum_mk_S K Kf).
  destruct (Nat.eq_dec q L) as [->|Hne].
  - rewrite Nat.eqb_refl.
    rewrite (fsum_mk_ext K L _ (fun _ => 0)).
    + rewrite (fsum_mk_zero K Kf). ring.
    + intros c Hc. destruct (Nat.eqb_spec L c); [lia|ring].
  - rewrite IH by lia. destruct (Nat.eqb_spec q L); [lia|ring].
Qed.

(* the action of T_s on one index, as a finite sum with coefficients tco *)
Lemma tsum_fsum (s : shell F) q (f : nat -> F) : q < osize s ->
  tsum K 0 (fadd K) (fmul K) (s_sph s) (shell_transform K s) (ncomp s) q f
  = fsum (mk (ncomp s) (fun c => tco s q c * f c)).
Proof.
  intros Hq. unfold tsum, tco, osize in *. destruct (s_sph s).
  - reflexivity.
  - symmetry. now apply fsum_delta.
Qed.

(* canonical double sum *)
Definition dsum (a b : shell F) (q q' : nat) (X : nat -> nat -> F) : F :=
  fsum (mk (ncomp a) (fun c => fsum (mk (ncomp b) (fun c' => tco a q c * tco b q' c' * X c c')))).

Lemma dsum_ext a b q q' X Y :
  (forall c c', c < ncomp a -> c' < ncomp b -> X c c' = Y c c') -> dsum a b q q' X = dsum a b q q' Y.
Proof.
  intros H. unfold dsum. apply fsum_mk_ext; intros c Hc. apply fsum_mk_ext; intros c' Hc'. now rewrite H.
Qed.

(* T_b on the second index after T_a on the first = the double sum *)
Lemma Emix_dsum (blockf : shell F -> shell F -> list (list (list (list F)))) a b m1 q1 m2 q2 :
  q1 < osize a -> q2 < osize b ->
  Emix K 0 (fadd K) (fmul K) blockf a b m1 q1 m2 q2
  = dsum a b q1 q2 (fun c1 c2 => ncont K a m1 c1 * ncont K b m2 c2 * get4 0 m1 c1 m2 c2 (blockf a b)).
Proof.
  intros H1 H2. unfold Emix. rewrite tsum_fsum by exact H2.
  rewrite (fsum_mk_ext K _ _ (fun c2 => fsum (mk (ncomp a) (fun c1 =>
             tco a q1 c1 * tco b q2 c2 * (ncont K a m1 c1 * ncont K b m2 c2 * get4 0 m1 c1 m2 c2 (blockf a b)))))).
  - unfold dsum. apply (fsum_mk_swap K Kf).
  - intros c2 Hc2. rewrite tsum_fsum by exact H1. rewrite (fsum_mk_scale_l K Kf).
    apply fsum_mk_ext. intros c1 Hc1. ring.
Qed.

(* the same with the roles of the two shells exchanged (transposed copy) *)
Lemma Emix_dsum_swap (blockf : shell F -> shell F -> list (list (list (list F)))) a b m1 q1 m2 q2 :
  q1 < osize a -> q2 < osize b ->
  Emix K 0 (fadd K) (fmul K) blockf b a m2 q2 m1 q1
  = dsum a b q1 q2 (fun c1 c2 => ncont K a m1 c1 * ncont K b m2 c2 * get4 0 m2 c2 m1 c1 (blockf b a)).
Proof.
  intros H1 H2. rewrite Emix_dsum by assumption. unfold dsum. rewrite (fsum_mk_swap K Kf).
  apply fsum_mk_ext; intros c1 Hc1. apply fsum_mk_ext; intros c2 Hc2. ring.
Qed.

Hypothesis Hapx : forall x : F, fapx K x = x.
Hypothesis H2 : 1 + 1 <> 0.

(* ---- to_cart ---- *)
Lemma to_cart_norm (s : shell F) : norm_cont K (to_cart s) = norm_cont K s.
Proof. reflexivity. Qed.
Lemma to_cart_ncont (s : shell F) m c : ncont K (to_cart s) m c = ncont K s m c.
Proof. reflexivity. Qed.
Lemma to_cart_wf (s : shell F) : wf_shell s -> wf_shell (to_cart s).
Proof. intros H. exact H. Qed.
Lemma to_cart_exps (a b : shell F) : exps_ok K a b -> exps_ok K (to_cart a) (to_cart b).
Proof. intros H. exact H. Qed.

Lemma sh_at_to_cart (bs : list (shell F)) k : sh_at K (map to_cart bs) k = to_cart (sh_at K bs k).
Proof.
  unfold sh_at. destruct (Nat.lt_ge_cases k (length bs)) as [Hk|Hk].
  - rewrite (nth_indep _ (dshell K) (to_cart (dshell K))) by (now rewrite map_length). apply map_nth.
  - rewrite !nth_overflow by (rewrite ?map_length; lia). reflexivity.
Qed.

Lemma cart_basis_to_cart (bs : list (shell F)) : seg_basis bs -> cart_basis (map to_cart bs).
Proof.
  intros C s Hs. apply in_map_iff in Hs. destruct Hs as [s0 [<- Hs0]]. split; [reflexivity|exact (C s0 Hs0)].
Qed.
Lemma basis_wf_to_cart (bs : list (shell F)) : basis_wf bs -> basis_wf (map to_cart bs).
Proof. intros W s Hs. apply in_map_iff in Hs. destruct Hs as [s0 [<- Hs0]]. apply to_cart_wf, W, Hs0. Qed.
Lemma basis_exps_to_cart (bs : list (shell F)) : basis_exps K bs bs -> basis_exps K (map to_cart bs) (map to_cart bs).
Proof.
  intros E a b Ha Hb. apply in_map_iff in Ha. destruct Ha as [a0 [<- Ha0]].
  apply in_map_iff in Hb. destruct Hb as [b0 [<- Hb0]]. apply to_cart_exps, E; assumption.
Qed.

(* asymm_is_offdiag_block for ANY coordinate types *)
Theorem overlap_asymm_is_offdiag_block_mixed (b1 b2 : list (shell F)) :
  seg_basis b1 -> seg_basis b2 -> 0 < length b2 ->
  overlap_integral_asymm K b1 b2 None None
  = map (skipn (ototal K b1)) (firstn (ototal K b1) (overlap_integral K (b1 ++ b2) None)).
Proof.
  intros C1 C2 Hn. unfold overlap_integral_asymm, overlap_integral.
  apply asymm_is_offdiag_block_mixed; auto. apply overlap_blocks_shaped.
Qed.

Section OneBasis.
Variable bs : list (shell F).
Hypothesis C : seg_basis bs.
Hypothesis W : basis_wf bs.
Hypothesis E : basis_exps K bs bs.
Notation s_ k := (sh_at K bs k).
Notation bsc := (map to_cart bs).

Theorem overlap_integral_mixed_entry i j m q m' q' :
  i < length bs -> j < length bs ->
  m < nseg (s_ i) -> q < osize (s_ i) -> m' < nseg (s_ j) -> q' < osize (s_ j) ->
  nth (oidx K bs j m' q') (nth (oidx K bs i m q) (overlap_integral K bs None) []) 0
  = dsum (s_ i) (s_ j) q q' (fun c c' =>
      ncont K (s_ i) m c * ncont K (s_ j) m' c'
      * contracted K (s_ i) (s_ j) (nth c (comps_of (s_ i)) (0,0,0)%nat) (nth c' (comps_of (s_ j)) (0,0,0)%nat) m m'
          (ovl_prim K (s_ i) (s_ j) (nth c (comps_of (s_ i)) (0,0,0)%nat) (nth c' (comps_of (s_ j)) (0,0,0)%nat))).
Proof.
  intros Hi Hj Hm Hq Hm' Hq'. unfold overlap_integral.
  rewrite (two_symm_mixed_entry K 0 (fadd K) (fmul K) (overlap_block K) bs C (overlap_blocks_shaped K bs bs))
    by assumption.
  assert (Ii : In (s_ i) bs) by (now apply nth_In). assert (Ij : In (s_ j) bs) by (now apply nth_In).
  destruct (Nat.leb i j).
  - rewrite Emix_dsum by assumption. apply dsum_ext. intros c c' Hc Hc'.
    rewrite <- nth4_get4. now rewrite (overlap_block_correct K Kf Hapx H2) by auto.
  - rewrite Emix_dsum_swap by assumption. apply dsum_ext. intros c c' Hc Hc'.
    rewrite <- nth4_get4.
    rewrite (overlap_block_sym K Kf Hapx H2 (s_ i) (s_ j) m c m' c') by auto.
    now rewrite (overlap_block_correct K Kf Hapx H2) by auto.
Qed.

(* (+)T on both indices of the all-Cartesian matrix *)
Theorem overlap_mixed_is_cart_transformed i j m q m' q' :
  i < length bs -> j < length bs ->
  m < nseg (s_ i) -> q < osize (s_ i) -> m' < nseg (s_ j) -> q' < osize (s_ j) ->
  nth (oidx K bs j m' q') (nth (oidx K bs i m q) (overlap_integral K bs None) []) 0
  = dsum (s_ i) (s_ j) q q' (fun c c' =>
      nth (gidx K bsc j m' c') (nth (gidx K bsc i m c) (overlap_integral K bsc None) []) 0).
Proof.
  intros Hi Hj Hm Hq Hm' Hq'. rewrite overlap_integral_mixed_entry by assumption.
  apply dsum_ext. intros c c' Hc Hc'.
  rewrite (overlap_integral_entry K Kf Hapx H2 bsc (cart_basis_to_cart bs C) (basis_wf_to_cart bs W)
             (basis_exps_to_cart bs E) i j m c m' c');
    rewrite ?map_length, ?sh_at_to_cart; try assumption.
  reflexivity.
Qed.

Theorem kinetic_mixed_is_cart_transformed i j m q m' q' :
  i < length bs -> j < length bs ->
  m < nseg (s_ i) -> q < osize (s_ i) -> m' < nseg (s_ j) -> q' < osize (s_ j) ->
  nth (oidx K bs j m' q') (nth (oidx K bs i m q) (kinetic_integral K bs None) []) 0
  = dsum (s_ i) (s_ j) q q' (fun c c' =>
      nth (gidx K bsc j m' c') (nth (gidx K bsc i m c) (kinetic_integral K bsc None) []) 0).
Proof.
  intros Hi Hj Hm Hq Hm' Hq'. unfold kinetic_integral at 1.
  assert (HBk : blocks_shaped (kinetic_block K) bs bs) by (intros sa sb _ _; apply kinetic_block_shape).
  rewrite (two_symm_mixed_entry K 0 (fadd K) (fmul K) (kinetic_block K) bs C HBk) by assumption.
  assert (Ii : In (s_ i) bs) by (now apply nth_In). assert (Ij : In (s_ j) bs) by (now apply nth_In).
  assert (Ec : forall c c', c < ncomp (s_ i) -> c' < ncomp (s_ j) ->
            nth (gidx K bsc j m' c') (nth (gidx K bsc i m c) (kinetic_integral K bsc None) []) 0
            = ncont K (s_ i) m c * ncont K (s_ j) m' c' * nth4 K m c m' c' (kinetic_block K (s_ i) (s_ j))).
  { intros c c' Hc Hc'.
    rewrite (kinetic_integral_entry K Kf Hapx H2 bsc i j m c m' c' (cart_basis_to_cart bs C) (basis_wf_to_cart bs W)
               (basis_exps_to_cart bs E));
      rewrite ?map_length, ?sh_at_to_cart; try assumption.
    rewrite (kinetic_block_correct K Kf Hapx H2 (s_ i) (s_ j) m c m' c') by auto. reflexivity. }
  destruct (Nat.leb i j).
  - rewrite Emix_dsum by assumption. apply dsum_ext. intros c c' Hc Hc'. now rewrite Ec.
  - rewrite Emix_dsum_swap by assumption. apply dsum_ext. intros c c' Hc Hc'. rewrite Ec by assumption.
    rewrite <- nth4_get4. now rewrite (kinetic_block_sym K Kf Hapx H2 (s_ i) (s_ j) m c m' c') by auto.
Qed.

Theorem overlap_integral_mixed_shape : 0 < length bs ->
  length (overlap_integral K bs None) = ototal K bs /\
  forall I, I < ototal K bs -> length (nth I (overlap_integral K bs None) []) = ototal K bs.
Proof.
  exact (two_symm_mixed_shape K 0 (fadd K) (fmul K) (overlap_block K) bs C (overlap_blocks_shaped K bs bs)).
Qed.
End OneBasis.
End SphOverlap.
