(* Proofs/SphLinkP.v — the two models of the Cartesian->spherical transformation denote the same numbers.

   Model/SphExact.v (property C10: harmonic, homogeneous, orthonormal, phase, order, conventions) returns every
   entry as a pair (r, q) of canonical rationals meaning r * sqrt q.  Model/Spherical.v ([sph_transform K], the
   transformation used by every integral / evaluation model; generic field with the square-root oracle
   [fsqrt K]) mirrors gbasis/spherical.py operation by operation.  Until now they were tied only empirically.

   Part 1 (any field K of characteristic 0): the canonical embedding  ofQc : Qc -> F  (numerator / denominator
           through [ofZ]) is a field homomorphism.
   Part 2 (same): the generic helper functions (ofnat, fpow, ffact, fdf_odd, fbinom, fneg1pow, fsum) and the
           rational core of Model/Spherical ([expansion_coeff], and [hnr], [hrad], [hcoef], [dfp] of
           Proofs/DiagSphP.v) commute with ofQc:  f K = ofQc (f QK).
   Part 3 (complete enumeration, l <= 10, vm_compute over Qc): the rational core of Model/Spherical at Qc equals
           the (rational, radicand) data of Model/SphExact: hcoef = dictionary coefficient of
           [real_solid_harmonic], hrad = [harmonic_radicand], dfp = [cart_df], (2l-1)!! = [zdf_odd]; all
           radicand factors are positive.
   Part 4: entry (i, j) of [sph_transform K l carts labels] = ofQc r * fsqrt K (ofQc q) for the entry (r, q)
           of [left_form l carts labels] — every l <= 10, EVERY Cartesian order and label order / sign list made
           of components of degree l and admissible labels (both models are entry-wise, so no permutation
           lemma is needed).  Model/Spherical multiplies THREE square roots per entry
             sqrt(hrad) * sqrt(prod (2a-1)!!) / sqrt((2l-1)!!)
           where the exact model has the single radicand hrad * prod (2a-1)!! / (2l-1)!!; therefore the
           oracle must satisfy, on images of POSITIVE rationals,
             sqrt (a * b) = sqrt a * sqrt b      and      sqrt (a / b) = sqrt a / sqrt b
           ([sqrt_mul_pos], [sqrt_div_pos]).  Nothing else is assumed of [fsqrt].
   Part 5: the real numbers satisfy every hypothesis (RK of Proofs/ScreeningP.v): instance theorems. *)
From Coq Require Import List Arith Lia Bool ZArith QArith Qcanon Field Qreals Reals Lra.
From GB Require Import Base.Field Base.FNum Base.Tables Model.Shell Model.Spherical Model.SphExact
  Proofs.SphExactP Proofs.DiagSphP Proofs.DiagSphCheckP Proofs.CoreNormP Proofs.ScreeningP.
Import ListNotations.
Local Open Scope nat_scope.
Local Open Scope list_scope.

(* ------------------------------------------------------------------ *)
(* Part 1: the embedding of the canonical rationals                    *)
(* ------------------------------------------------------------------ *)
Section Embed.
Context {F : Type} (K : Fops F) (Kf : is_field K).
Add Field KFlk : Kf.
Local Open Scope F_scope.
Notation "0" := (f0 K) : F_scope.
Notation "1" := (f1 K) : F_scope.
Infix "+" := (fadd K) : F_scope.
Infix "*" := (fmul K) : F_scope.
Infix "-" := (fsub K) : F_scope.
Infix "/" := (fdiv K) : F_scope.
Notation "- x" := (fopp K x) : F_scope.

Hypothesis char0 : forall n, ofnat K (S n) <> 0.

(* proof-only: never evaluated, so the unary detour is harmless *)
Definition ofZ (z : Z) : F :=
  match z with
  | Z0 => 0
  | Zpos p => ofnat K (Pos.to_nat p)
  | Zneg p => - ofnat K (Pos.to_nat p)
  end.

Lemma ofZ_of_nat n : ofZ (Z.of_nat n) = ofnat K n.
Proof. destruct n; [reflexivity|]. cbn [Z.of_nat ofZ]. now rewrite SuccNat2Pos.id_succ. Qed.

Lemma ofZ_opp z : ofZ (- z) = - ofZ z.
Proof. destruct z; cbn [Z.opp ofZ]; ring. Qed.

Lemma ofZ_diff a b : ofZ (Z.of_nat a - Z.of_nat b) = ofnat K a - ofnat K b.
Proof.
  destruct (Nat.le_ge_cases b a) as [H|H].
  - replace (Z.of_nat a - Z.of_nat b)%Z with (Z.of_nat (a - b)) by lia.
    rewrite ofZ_of_nat.
    assert (E : ofnat K a = ofnat K (a - b) + ofnat K b)
      by (rewrite <- (ofnat_add K Kf); f_equal; lia).
    rewrite E. ring.
  - replace (Z.of_nat a - Z.of_nat b)%Z with (- Z.of_nat (b - a))%Z by lia.
    rewrite ofZ_opp, ofZ_of_nat.
    assert (E : ofnat K b = ofnat K (b - a) + ofnat K a)
      by (rewrite <- (ofnat_add K Kf); f_equal; lia).
    rewrite E. ring.
Qed.

Lemma Z_diff_ex z : exists a b, z = (Z.of_nat a - Z.of_nat b)%Z.
Proof. exists (Z.to_nat z), (Z.to_nat (- z)). lia. Qed.

Lemma ofZ_add x y : ofZ (x + y) = ofZ x + ofZ y.
Proof.
  destruct (Z_diff_ex x) as (a & b & ->). destruct (Z_diff_ex y) as (c & d & ->).
  replace (Z.of_nat a - Z.of_nat b + (Z.of_nat c - Z.of_nat d))%Z
    with (Z.of_nat (a + c) - Z.of_nat (b + d))%Z by lia.
  rewrite !ofZ_diff, !(ofnat_add K Kf). ring.
Qed.

Lemma ofZ_mul x y : ofZ (x * y) = ofZ x * ofZ y.
Proof.
  destruct (Z_diff_ex x) as (a & b & ->). destruct (Z_diff_ex y) as (c & d & ->).
  replace ((Z.of_nat a - Z.of_nat b) * (Z.of_nat c - Z.of_nat d))%Z
    with (Z.of_nat (a * c + b * d) - Z.of_nat (a * d + b * c))%Z
    by (rewrite !Nat2Z.inj_add, !Nat2Z.inj_mul; ring).
  rewrite !ofZ_diff, !(ofnat_add K Kf), !(ofnat_mul K Kf). ring.
Qed.

Lemma fopp_zero x : - x = 0 -> x = 0.
Proof. intro E. transitivity (- - x); [ring|]. rewrite E. ring. Qed.

Lemma ofZ_pos_nz p : ofZ (Zpos p) <> 0.
Proof. cbn [ofZ]. destruct (Pos2Nat.is_succ p) as [n ->]. apply char0. Qed.

Lemma ofZ_nz z : z <> 0%Z -> ofZ z <> 0.
Proof.
  destruct z as [|p|p]; intro H; [now elim H|apply ofZ_pos_nz|].
  intro E. apply (ofZ_pos_nz p). cbn [ofZ] in *. now apply fopp_zero.
Qed.

Lemma fmul_nz a b : a <> 0 -> b <> 0 -> a * b <> 0.
Proof.
  intros Ha Hb E. apply Hb. transitivity ((a * b) / a); [field; exact Ha|]. rewrite E. field. exact Ha.
Qed.

(* the value of a (not necessarily reduced) fraction, and of a canonical rational *)
Definition ofQ (q : Q) : F := ofZ (Qnum q) / ofZ (Zpos (Qden q)).
Definition ofQc (q : Qc) : F := ofQ (this q).

Lemma ofQ_compat p q : (p == q)%Q -> ofQ p = ofQ q.
Proof.
  unfold Qeq, ofQ. intro H. apply (f_equal ofZ) in H. rewrite !ofZ_mul in H.
  pose proof (ofZ_pos_nz (Qden p)) as Hp. pose proof (ofZ_pos_nz (Qden q)) as Hq.
  set (np := ofZ (Qnum p)) in *. set (nq := ofZ (Qnum q)) in *.
  set (dp := ofZ (Zpos (Qden p))) in *. set (dq := ofZ (Zpos (Qden q))) in *.
  transitivity ((np * dq) / (dp * dq)); [field; split; assumption|].
  rewrite H. field. split; assumption.
Qed.

Lemma ofQc_Q2Qc q : ofQc (Q2Qc q) = ofQ q.
Proof. unfold ofQc, Q2Qc. cbn [this]. apply ofQ_compat, Qred_correct. Qed.

Lemma ofQ_plus x y : ofQ (x + y)%Q = ofQ x + ofQ y.
Proof.
  unfold ofQ, Qplus. cbn [Qnum Qden]. rewrite Pos2Z.inj_mul, ofZ_add, !ofZ_mul.
  pose proof (ofZ_pos_nz (Qden x)). pose proof (ofZ_pos_nz (Qden y)). field. split; assumption.
Qed.
Lemma ofQ_mult x y : ofQ (x * y)%Q = ofQ x * ofQ y.
Proof.
  unfold ofQ, Qmult. cbn [Qnum Qden]. rewrite Pos2Z.inj_mul, !ofZ_mul.
  pose proof (ofZ_pos_nz (Qden x)). pose proof (ofZ_pos_nz (Qden y)). field. split; assumption.
Qed.
Lemma ofQ_opp x : ofQ (- x)%Q = - ofQ x.
Proof.
  unfold ofQ, Qopp. cbn [Qnum Qden]. rewrite ofZ_opp.
  pose proof (ofZ_pos_nz (Qden x)). field. assumption.
Qed.
Lemma ofQ_inv x : Qnum x <> 0%Z -> ofQ (/ x)%Q = 1 / ofQ x.
Proof.
  destruct x as [[|p|p] d]; cbn [Qnum]; intro H; [now elim H| |]; unfold ofQ, Qinv; cbn [Qnum Qden].
  - pose proof (ofZ_pos_nz p). pose proof (ofZ_pos_nz d). field. split; assumption.
  - change (ofZ (Zneg d)) with (- ofZ (Zpos d)). change (ofZ (Zneg p)) with (- ofZ (Zpos p)).
    pose proof (ofZ_pos_nz p). pose proof (ofZ_pos_nz d). field.
    repeat split; try assumption. intro E. apply fopp_zero in E. contradiction.
Qed.

Lemma ofQc_0 : ofQc 0%Qc = 0.
Proof.
  unfold ofQc. change (this 0%Qc) with (0 # 1)%Q. unfold ofQ. cbn [Qnum Qden ofZ].
  change (Pos.to_nat 1) with 1%nat. cbn [ofnat].
  field. intro E. apply (char0 0%nat). cbn [ofnat]. transitivity (f1 K); [ring|exact E].
Qed.
Lemma ofQc_1 : ofQc 1%Qc = 1.
Proof.
  unfold ofQc. change (this 1%Qc) with (1 # 1)%Q. unfold ofQ. cbn [Qnum Qden ofZ].
  change (Pos.to_nat 1) with 1%nat. cbn [ofnat].
  field. intro E. apply (char0 0%nat). cbn [ofnat]. transitivity (f1 K); [ring|exact E].
Qed.
Lemma ofQc_plus a b : ofQc (a + b)%Qc = ofQc a + ofQc b.
Proof. unfold Qcplus. rewrite ofQc_Q2Qc. apply ofQ_plus. Qed.
Lemma ofQc_mult a b : ofQc (a * b)%Qc = ofQc a * ofQc b.
Proof. unfold Qcmult. rewrite ofQc_Q2Qc. apply ofQ_mult. Qed.
Lemma ofQc_opp a : ofQc (- a)%Qc = - ofQc a.
Proof. unfold Qcopp. rewrite ofQc_Q2Qc. apply ofQ_opp. Qed.
Lemma ofQc_minus a b : ofQc (a - b)%Qc = ofQc a - ofQc b.
Proof. unfold Qcminus. rewrite ofQc_plus, ofQc_opp. ring. Qed.

Lemma Qc_num_nz (b : Qc) : b <> 0%Qc -> Qnum (this b) <> 0%Z.
Proof.
  intros Hb E. apply Hb. apply Qc_is_canon. unfold Qeq. rewrite E. reflexivity.
Qed.

Lemma ofQc_nz_inv (b : Qc) : ofQc b <> 0 -> b <> 0%Qc.
Proof. intros H E. apply H. rewrite E. apply ofQc_0. Qed.

Lemma ofQc_nz (b : Qc) : b <> 0%Qc -> ofQc b <> 0.
Proof.
  intro Hb. unfold ofQc, ofQ. pose proof (ofZ_nz _ (Qc_num_nz b Hb)) as Hn.
  pose proof (ofZ_pos_nz (Qden (this b))) as Hd. intro E. apply Hn.
  transitivity (ofZ (Qnum (this b)) / ofZ (Zpos (Qden (this b))) * ofZ (Zpos (Qden (this b)))); [field; exact Hd|].
  rewrite E. ring.
Qed.

Lemma ofQc_inv b : b <> 0%Qc -> ofQc (/ b)%Qc = 1 / ofQc b.
Proof. intro Hb. unfold Qcinv. rewrite ofQc_Q2Qc. apply ofQ_inv. now apply Qc_num_nz. Qed.

Lemma ofQc_div a b : b <> 0%Qc -> ofQc (a / b)%Qc = ofQc a / ofQc b.
Proof.
  intro Hb. unfold Qcdiv. rewrite ofQc_mult, (ofQc_inv b Hb).
  pose proof (ofQc_nz b Hb). field. assumption.
Qed.

(* ------------------------------------------------------------------ *)
(* Part 2: the generic functions commute with the embedding            *)
(* QK is the executable instance (its operations are qc_add, ... :     *)
(* equal to the standard ones by Base/Field.v)                         *)
(* ------------------------------------------------------------------ *)
Notation phi := ofQc.

Lemma phi_0 : phi (f0 QK) = 0.
Proof. exact ofQc_0. Qed.
Lemma phi_1 : phi (f1 QK) = 1.
Proof. exact ofQc_1. Qed.
Lemma phi_add a b : phi (fadd QK a b) = phi a + phi b.
Proof. cbn [fadd QK QcK]. rewrite qc_add_eq. apply ofQc_plus. Qed.
Lemma phi_mul a b : phi (fmul QK a b) = phi a * phi b.
Proof. cbn [fmul QK QcK]. rewrite qc_mul_eq. apply ofQc_mult. Qed.
Lemma phi_opp a : phi (fopp QK a) = - phi a.
Proof. cbn [fopp QK QcK]. rewrite qc_opp_eq. apply ofQc_opp. Qed.
Lemma phi_div a b : phi b <> 0 -> phi (fdiv QK a b) = phi a / phi b.
Proof. intro Hb. cbn [fdiv QK QcK]. rewrite qc_div_eq. apply ofQc_div. now apply ofQc_nz_inv. Qed.

Lemma phi_ofnat n : phi (ofnat QK n) = ofnat K n.
Proof. induction n as [|n IH]; cbn [ofnat]; [exact phi_0|]. now rewrite phi_add, phi_1, IH. Qed.
Lemma phi_fpow x n : phi (fpow QK x n) = fpow K (phi x) n.
Proof. induction n as [|n IH]; cbn [fpow]; [exact phi_1|]. now rewrite phi_mul, IH. Qed.
Lemma phi_ffact n : phi (ffact QK n) = ffact K n.
Proof. induction n as [|n IH]; cbn [ffact]; [exact phi_1|]. now rewrite phi_mul, phi_ofnat, IH. Qed.
Lemma phi_fdf_odd n : phi (fdf_odd QK n) = fdf_odd K n.
Proof. induction n as [|n IH]; cbn [fdf_odd]; [exact phi_1|]. now rewrite phi_mul, phi_ofnat, IH. Qed.

Lemma one_nz : 1 <> 0.
Proof. intro E. apply (char0 0%nat). cbn [ofnat]. transitivity 1; [ring|exact E]. Qed.
Lemma two_nz : 1 + 1 <> 0.
Proof. intro E. apply (char0 1%nat). cbn [ofnat]. transitivity (1 + 1); [ring|exact E]. Qed.
Lemma four_nz : 1 + 1 + 1 + 1 <> 0.
Proof. intro E. apply (char0 3%nat). cbn [ofnat]. transitivity (1 + 1 + 1 + 1); [ring|exact E]. Qed.
Lemma ffact_nz n : ffact K n <> 0.
Proof. induction n as [|n IH]; cbn [ffact]; [exact one_nz|]. apply fmul_nz; [apply char0|exact IH]. Qed.
Lemma fpow_nz x n : x <> 0 -> fpow K x n <> 0.
Proof. intro Hx. induction n as [|n IH]; cbn [fpow]; [exact one_nz|]. now apply fmul_nz. Qed.

Lemma phi_fbinom n k : phi (fbinom QK n k) = fbinom K n k.
Proof.
  unfold fbinom. destruct (Nat.leb k n); [|exact phi_0].
  assert (Hd : phi (fmul QK (ffact QK k) (ffact QK (n - k))) <> 0).
  { rewrite phi_mul, !phi_ffact. apply fmul_nz; apply ffact_nz. }
  rewrite (phi_div _ _ Hd), phi_mul, !phi_ffact. reflexivity.
Qed.
Lemma phi_fneg1pow n : phi (fneg1pow QK n) = fneg1pow K n.
Proof. unfold fneg1pow. destruct (Nat.even n); [exact phi_1|]. now rewrite phi_opp, phi_1. Qed.

Lemma phi_fsum_map {A} (f : A -> Qc) (g : A -> F) l :
  (forall x, In x l -> phi (f x) = g x) -> phi (fsum QK (map f l)) = fsum K (map g l).
Proof.
  induction l as [|a l IH]; intro H; cbn [map fsum fold_right]; [exact phi_0|].
  fold (fsum QK (map f l)). fold (fsum K (map g l)).
  rewrite phi_add, (H a (or_introl eq_refl)), IH by (intros x Hx; apply H; now right). reflexivity.
Qed.

Lemma phi_expansion_coeff l m sine i j z :
  phi (Spherical.expansion_coeff QK l m sine i j z) = Spherical.expansion_coeff K l m sine i j z.
Proof.
  unfold Spherical.expansion_coeff. cbv zeta. rewrite !phi_mul, !phi_fbinom, phi_fneg1pow, phi_fpow.
  assert (Hd : phi (fadd QK (fadd QK (fadd QK (f1 QK) (f1 QK)) (f1 QK)) (f1 QK)) <> 0).
  { rewrite !phi_add, phi_1. exact four_nz. }
  rewrite (phi_div _ _ Hd), !phi_add, phi_1. reflexivity.
Qed.

Lemma phi_hnr l m : phi (hnr QK l m) = hnr K l m.
Proof.
  unfold hnr.
  assert (Hd : phi (fmul QK (fpow QK (fadd QK (f1 QK) (f1 QK)) m) (ffact QK l)) <> 0).
  { rewrite phi_mul, phi_fpow, phi_ffact, phi_add, phi_1. apply fmul_nz; [apply fpow_nz, two_nz|apply ffact_nz]. }
  rewrite (phi_div _ _ Hd), phi_mul, phi_fpow, phi_ffact, phi_add, !phi_1. reflexivity.
Qed.

Lemma phi_hrad l m : phi (hrad QK l m) = hrad K l m.
Proof.
  unfold hrad.
  assert (Hd : phi (if Nat.eqb m 0 then fadd QK (f1 QK) (f1 QK) else f1 QK) <> 0).
  { destruct (Nat.eqb m 0); rewrite ?phi_add, ?phi_1; [exact two_nz|exact one_nz]. }
  rewrite (phi_div _ _ Hd), !phi_mul, !phi_ffact, phi_add, phi_1.
  destruct (Nat.eqb m 0); rewrite ?phi_add, ?phi_1; reflexivity.
Qed.

Lemma phi_hterm l m sine c t : phi (hterm QK l m sine c t) = hterm K l m sine c t.
Proof.
  unfold hterm. cbv zeta. destruct (Nat.leb _ _); [|exact phi_0].
  destruct (Spherical.comp_eqb _ _); [|exact phi_0]. now rewrite phi_mul, phi_expansion_coeff, phi_hnr.
Qed.

Lemma phi_hcoef l m sine c : phi (hcoef QK l m sine c) = hcoef K l m sine c.
Proof. unfold hcoef. apply phi_fsum_map. intros t _. apply phi_hterm. Qed.

Lemma phi_dfp c : phi (dfp QK c) = dfp K c.
Proof. unfold dfp. now rewrite !phi_mul, !phi_fdf_odd. Qed.

End Embed.

(* ------------------------------------------------------------------ *)
(* Part 3: complete enumeration over the exact rationals, l <= 10      *)
(* ------------------------------------------------------------------ *)
Definition link_row_ok (l : nat) (sm : bool * nat) : bool :=
  let sine := fst sm in let m := snd sm in
  let h := real_solid_harmonic l m sine in
  qc_eqb (hrad QK l m) (harmonic_radicand l m) && qpos (harmonic_radicand l m)
  && forallb (fun c => qc_eqb (hcoef QK l m sine c) (coef h c)) (default_comps l).

Definition link_l_ok (l : nat) : bool :=
  qc_eqb (fdf_odd QK l) (zq (zdf_odd l)) && qpos (zq (zdf_odd l))
  && forallb (fun c => qc_eqb (dfp QK c) (zq (cart_df c)) && qpos (zq (cart_df c))) (default_comps l)
  && forallb (link_row_ok l) (all_sm l).

Lemma link_check_all : forallb link_l_ok (seq 0 11) = true.
Proof. vm_compute. reflexivity. Qed.

Lemma qc_eqb_eq x y : qc_eqb x y = true -> x = y.
Proof. intro H. apply Qc_is_canon. apply Qeq_bool_eq. exact H. Qed.

Lemma qpos_lt q : qpos q = true -> (0 < q)%Qc.
Proof.
  unfold qpos. intro H. apply negb_true_iff in H. unfold Qclt. change (this 0%Qc) with 0%Q.
  apply Qnot_le_lt. intro Hle. apply Qle_bool_iff in Hle. congruence.
Qed.

Lemma in_all_sm' l sine m : valid_sm l sine m -> In (sine, m) (all_sm l).
Proof.
  intros [Hm Hs]. unfold all_sm. apply in_or_app. destruct sine.
  - right. apply in_map_iff. exists m. split; [reflexivity|]. apply in_seq. specialize (Hs eq_refl). lia.
  - left. apply in_map_iff. exists m. split; [reflexivity|]. apply in_seq. lia.
Qed.

Lemma link_l_le10 l : l <= 10 -> link_l_ok l = true.
Proof. intro Hl. pose proof link_check_all as H. rewrite forallb_forall in H. apply H. apply in_seq. lia. Qed.

Lemma link_tables l sine m c : l <= 10 -> valid_sm l sine m -> In c (default_comps l) ->
  hcoef QK l m sine c = coef (real_solid_harmonic l m sine) c
  /\ hrad QK l m = harmonic_radicand l m /\ (0 < harmonic_radicand l m)%Qc
  /\ dfp QK c = zq (cart_df c) /\ (0 < zq (cart_df c))%Qc
  /\ fdf_odd QK l = zq (zdf_odd l) /\ (0 < zq (zdf_odd l))%Qc.
Proof.
  intros Hl Hv Hc. pose proof (link_l_le10 l Hl) as H. unfold link_l_ok in H.
  apply andb_prop in H as [H Hrows]. apply andb_prop in H as [H Hcs]. apply andb_prop in H as [Hdf Hdfp].
  rewrite forallb_forall in Hcs, Hrows.
  specialize (Hcs c Hc). apply andb_prop in Hcs as [Hc1 Hc2].
  specialize (Hrows (sine, m) (in_all_sm' l sine m Hv)). unfold link_row_ok in Hrows. cbn [fst snd] in Hrows.
  apply andb_prop in Hrows as [Hr Hh]. apply andb_prop in Hr as [Hr1 Hr2].
  rewrite forallb_forall in Hh. specialize (Hh c Hc).
  repeat split; try (now apply qc_eqb_eq); now apply qpos_lt.
Qed.

(* ------------------------------------------------------------------ *)
(* Part 4: the link                                                    *)
(* ------------------------------------------------------------------ *)
(* admissible label of angular momentum l: c_0..c_l, s_1..s_l, any sign *)
Definition adm_label (l : nat) (lb : label) : Prop := valid_sm l (snd (fst lb)) (snd lb).

Lemma default_labels_adm l lb : In lb (default_labels l) -> adm_label l lb.
Proof.
  intro H. destruct (default_labels_wf l lb H) as [W _]. destruct lb as [[neg sine] m].
  unfold adm_label, valid_sm. cbn [fst snd]. exact W.
Qed.

Lemma Qc_pos_nz (q : Qc) : (0 < q)%Qc -> q <> 0%Qc.
Proof. intros H E. rewrite E in H. exact (Qclt_not_eq _ _ H eq_refl). Qed.

Lemma Qc_mul_pos (a b : Qc) : (0 < a)%Qc -> (0 < b)%Qc -> (0 < a * b)%Qc.
Proof.
  unfold Qclt. change (this 0%Qc) with 0%Q. intros Ha Hb. unfold Qcmult, Q2Qc. cbn [this].
  rewrite Qred_correct. now apply Qmult_lt_0_compat.
Qed.

Section Link.
Context {F : Type} (K : Fops F) (Kf : is_field K).
Add Field KFlk2 : Kf.
Local Open Scope F_scope.
Notation "0" := (f0 K) : F_scope.
Notation "1" := (f1 K) : F_scope.
Infix "+" := (fadd K) : F_scope.
Infix "*" := (fmul K) : F_scope.
Infix "-" := (fsub K) : F_scope.
Infix "/" := (fdiv K) : F_scope.
Notation "- x" := (fopp K x) : F_scope.
Notation phi := (ofQc K).

Hypothesis char0 : forall n, ofnat K (S n) <> 0.

(* what is needed of the square-root oracle: multiplicative on (images of) positive rationals *)
Definition sqrt_mul_pos : Prop :=
  forall a b : Qc, (0 < a)%Qc -> (0 < b)%Qc -> fsqrt K (phi a * phi b) = fsqrt K (phi a) * fsqrt K (phi b).
Definition sqrt_div_pos : Prop :=
  forall a b : Qc, (0 < a)%Qc -> (0 < b)%Qc -> fsqrt K (phi a / phi b) = fsqrt K (phi a) / fsqrt K (phi b).

Hypothesis Hmul : sqrt_mul_pos.
Hypothesis Hdiv : sqrt_div_pos.

(* the number a pair (r, q) of the exact model denotes in K *)
Definition sden (s : surd) : F := phi (fst s) * fsqrt K (phi (snd s)).

Lemma phi_sign (neg : bool) : phi (if neg then (- (1))%Qc else 1%Qc) = sgnF K neg.
Proof.
  unfold sgnF. destruct neg; [|apply (ofQc_1 K Kf char0)].
  rewrite (ofQc_opp K Kf char0), (ofQc_1 K Kf char0). reflexivity.
Qed.

(* one entry: label (neg, sine, m), component c *)
Theorem entry_link l neg sine m c : l <= 10 -> valid_sm l sine m -> In c (default_comps l) ->
  sgnF K neg * harmonic_coeff K l m sine c * comp_scale K l c = sden (entry_of l (neg, sine, m) c).
Proof.
  intros Hl Hv Hc.
  destruct (link_tables l sine m c Hl Hv Hc) as (Eh & Er & Pr & Ed & Pd & El & Pl).
  rewrite (harmonic_coeff_split K Kf), comp_scale_eq.
  rewrite <- (phi_hcoef K Kf char0), <- (phi_hrad K Kf char0), <- (phi_dfp K Kf char0), <- (phi_fdf_odd K Kf char0).
  rewrite Eh, Er, Ed, El.
  unfold sden, entry_of, entry_with, sdiv_sqrt, smul, s_sqrt. cbn [fst snd].
  fold (coef (real_solid_harmonic l m sine) c).
  rewrite (ofQc_div K Kf char0) by (now apply Qc_pos_nz).
  rewrite (Hdiv _ _ (Qc_mul_pos _ _ Pr Pd) Pl).
  rewrite !(ofQc_mult K Kf char0), (Hmul _ _ Pr Pd), phi_sign, (ofQc_1 K Kf char0).
  rewrite !(Fdiv_def Kf). ring.
Qed.

Lemma sph_transform_nth l carts labels i j : i < length labels -> j < length carts ->
  nth j (nth i (sph_transform K l carts labels) []) 0
  = (let lb := nth i labels dl in let c := nth j carts dc in
     sgnF K (fst (fst lb)) * harmonic_coeff K l (snd lb) (snd (fst lb)) c * comp_scale K l c).
Proof.
  intros Hi Hj. unfold sph_transform.
  rewrite (nth_map_in _ labels i dl []) by exact Hi.
  destruct (nth i labels dl) as [[neg sine] m]. cbn [fst snd].
  rewrite (nth_map_in _ carts j dc 0) by exact Hj. reflexivity.
Qed.

(* every entry, every convention: carts any list of components of degree l, labels any list of admissible labels *)
Theorem sph_transform_entry_link l carts labels i j :
  l <= 10 ->
  (forall c, In c carts -> In c (default_comps l)) ->
  (forall lb, In lb labels -> adm_label l lb) ->
  i < length labels -> j < length carts ->
  nth j (nth i (sph_transform K l carts labels) []) 0
  = sden (nth j (nth i (left_form l carts labels) []) szero).
Proof.
  intros Hl Hcs Hls Hi Hj.
  rewrite sph_transform_nth, left_form_nth by assumption. cbv zeta.
  pose proof (Hls _ (nth_In labels dl Hi)) as Hv. pose proof (Hcs _ (nth_In carts dc Hj)) as Hc.
  destruct (nth i labels dl) as [[neg sine] m]. cbn [fst snd]. unfold adm_label in Hv. cbn [fst snd] in Hv.
  now apply entry_link.
Qed.

(* the whole matrix *)
Lemma sph_transform_shape l carts labels :
  length (sph_transform K l carts labels) = length labels
  /\ forall i, i < length labels -> length (nth i (sph_transform K l carts labels) []) = length carts.
Proof.
  unfold sph_transform. split; [apply map_length|]. intros i Hi.
  rewrite (nth_map_in _ labels i dl []) by exact Hi. destruct (nth i labels dl) as [[neg sine] m].
  apply map_length.
Qed.

Lemma left_form_row_length l carts labels i : i < length labels ->
  length (nth i (left_form l carts labels) []) = length carts.
Proof.
  intro Hi. unfold left_form, transpose. change (map ?f (seq 0 ?n)) with (mk n f).
  rewrite nth_mk by exact Hi. now rewrite map_length, right_form_length.
Qed.

Theorem sph_transform_is_exact l carts labels :
  l <= 10 ->
  (forall c, In c carts -> In c (default_comps l)) ->
  (forall lb, In lb labels -> adm_label l lb) ->
  sph_transform K l carts labels = map (map sden) (left_form l carts labels).
Proof.
  intros Hl Hcs Hls. destruct (sph_transform_shape l carts labels) as [L1 L2].
  apply (nth_ext _ _ [] []).
  - now rewrite L1, map_length, left_form_length.
  - intros i Hi. rewrite L1 in Hi.
    rewrite (nth_map_in _ (left_form l carts labels) i [] []) by (now rewrite left_form_length).
    apply (nth_ext _ _ 0 0).
    + now rewrite (L2 i Hi), map_length, left_form_row_length.
    + intros j Hj. rewrite (L2 i Hi) in Hj.
      rewrite (nth_map_in _ _ j szero 0) by (now rewrite left_form_row_length).
      now apply sph_transform_entry_link.
Qed.

(* the default conventions: the matrix Props/C10.v (C10_all) speaks about *)
Theorem sph_transform_default_is_exact l : l <= 10 ->
  sph_transform K l (default_comps l) (default_labels l) = map (map sden) (default_left l).
Proof.
  intro Hl. unfold default_left. apply sph_transform_is_exact; [exact Hl|auto|].
  intros lb H. now apply default_labels_adm.
Qed.

(* ... and the transformation matrix of a shell as the assemblies use it *)
Theorem shell_transform_is_exact (s : shell F) :
  (forall x, fapx K x = x) -> s_l s <= 10 ->
  (forall c, In c (comps_of s) -> In c (default_comps (s_l s))) ->
  (forall lb, In lb (labels_of s) -> adm_label (s_l s) lb) ->
  shell_transform K s = map (map sden) (left_form (s_l s) (comps_of s) (labels_of s)).
Proof.
  intros Hapx Hl Hcs Hls. unfold shell_transform.
  rewrite (sph_transform_is_exact _ _ _ Hl Hcs Hls).
  rewrite map_map. apply map_ext. intro row. rewrite map_map. apply map_ext. intro x. apply Hapx.
Qed.

End Link.

(* ------------------------------------------------------------------ *)
(* Part 5: the real numbers (RK: real sqrt) meet every hypothesis      *)
(* ------------------------------------------------------------------ *)
Section RealInstance.
Local Open Scope R_scope.

Lemma char0_R : forall n, ofnat RK (S n) <> f0 RK.
Proof. intro n. rewrite ofnat_R. change (f0 RK) with 0. apply not_0_INR. lia. Qed.

Lemma ofZ_R z : ofZ RK z = IZR z.
Proof.
  destruct z as [|p|p]; cbn [ofZ]; [reflexivity| |]; rewrite ofnat_R, INR_IZR_INZ, positive_nat_Z; [reflexivity|].
  change (fopp RK) with Ropp. rewrite <- opp_IZR. reflexivity.
Qed.

(* the embedding is the standard one *)
Lemma ofQc_R q : ofQc RK q = Q2R (this q).
Proof. unfold ofQc, ofQ, Q2R. rewrite !ofZ_R. reflexivity. Qed.

Lemma ofQc_pos_R q : (0 < q)%Qc -> 0 < ofQc RK q.
Proof.
  rewrite ofQc_R. unfold Qclt. intro H. apply Qlt_Rlt in H.
  assert (E : Q2R (this 0%Qc) = 0) by (unfold Q2R; cbn; lra). now rewrite E in H.
Qed.

Lemma sqrt_mul_pos_R : sqrt_mul_pos RK.
Proof.
  intros a b Ha Hb. change (sqrt (ofQc RK a * ofQc RK b) = sqrt (ofQc RK a) * sqrt (ofQc RK b)).
  apply sqrt_mult; apply Rlt_le; now apply ofQc_pos_R.
Qed.

Lemma sqrt_div_pos_R : sqrt_div_pos RK.
Proof.
  intros a b Ha Hb. change (sqrt (ofQc RK a / ofQc RK b) = sqrt (ofQc RK a) / sqrt (ofQc RK b)).
  apply sqrt_div_alt. now apply ofQc_pos_R.
Qed.

(* the value in R of a pair of the exact model *)
Definition sdenR (s : surd) : R := Q2R (this (fst s)) * sqrt (Q2R (this (snd s))).

Lemma sden_R s : sden RK s = sdenR s.
Proof. unfold sden, sdenR. now rewrite !ofQc_R. Qed.

Theorem sph_transform_entry_link_R l carts labels i j :
  (l <= 10)%nat ->
  (forall c, In c carts -> In c (default_comps l)) ->
  (forall lb, In lb labels -> adm_label l lb) ->
  (i < length labels)%nat -> (j < length carts)%nat ->
  nth j (nth i (sph_transform RK l carts labels) []) 0
  = sdenR (nth j (nth i (left_form l carts labels) []) szero).
Proof.
  intros Hl Hc Hb Hi Hj. rewrite <- sden_R.
  exact (sph_transform_entry_link RK RK_field char0_R sqrt_mul_pos_R sqrt_div_pos_R l carts labels i j Hl Hc Hb Hi Hj).
Qed.

Theorem sph_transform_is_exact_R l carts labels :
  (l <= 10)%nat ->
  (forall c, In c carts -> In c (default_comps l)) ->
  (forall lb, In lb labels -> adm_label l lb) ->
  sph_transform RK l carts labels = map (map sdenR) (left_form l carts labels).
Proof.
  intros Hl Hc Hb.
  rewrite (sph_transform_is_exact RK RK_field char0_R sqrt_mul_pos_R sqrt_div_pos_R l carts labels Hl Hc Hb).
  apply map_ext. intro row. apply map_ext. intro x. apply sden_R.
Qed.

Theorem shell_transform_is_exact_R (s : shell R) :
  (s_l s <= 10)%nat ->
  (forall c, In c (comps_of s) -> In c (default_comps (s_l s))) ->
  (forall lb, In lb (labels_of s) -> adm_label (s_l s) lb) ->
  shell_transform RK s = map (map sdenR) (left_form (s_l s) (comps_of s) (labels_of s)).
Proof.
  intros Hl Hc Hb.
  rewrite (shell_transform_is_exact RK RK_field char0_R sqrt_mul_pos_R sqrt_div_pos_R s fapx_id_R Hl Hc Hb).
  apply map_ext. intro row. apply map_ext. intro x. apply sden_R.
Qed.

(* the hypotheses of the generic theorems are satisfiable *)
Example link_hypotheses_R :
  is_field RK /\ (forall n, ofnat RK (S n) <> f0 RK) /\ sqrt_mul_pos RK /\ sqrt_div_pos RK
  /\ (forall x, fapx RK x = x).
Proof. exact (conj RK_field (conj char0_R (conj sqrt_mul_pos_R (conj sqrt_div_pos_R fapx_id_R)))). Qed.

(* a concrete entry: d shell, default conventions, function c0 (row 2), component zz (column 5):
   the exact model says (1/2, 4), i.e. 1/2 * sqrt 4 = 1 *)
Example link_d_c0_zz_R :
  nth 5 (nth 2 (sph_transform RK 2 (default_comps 2) (default_labels 2)) []) 0 = 1.
Proof.
  rewrite sph_transform_entry_link_R.
  - assert (E : nth 5 (nth 2 (left_form 2 (default_comps 2) (default_labels 2)) []) szero
               = (Q2Qc (1 # 2), Q2Qc 4)).
    { apply injective_projections; apply Qc_is_canon; vm_compute; reflexivity. }
    rewrite E. unfold sdenR. cbn [fst snd].
    assert (E1 : Q2R (this (Q2Qc (1 # 2))) = / 2) by (unfold Q2R; cbn; lra).
    assert (E2 : Q2R (this (Q2Qc 4)) = 2 * 2) by (unfold Q2R; cbn; lra).
    rewrite E1, E2, sqrt_square by lra. lra.
  - lia.
  - auto.
  - intros lb H. now apply default_labels_adm.
  - cbn. lia.
  - cbn. lia.
Qed.
End RealInstance.
