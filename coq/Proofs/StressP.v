(* Proofs/StressP.v — the documented formulas of stress_tensor.py obey the
   definitions (property C15), for all alpha, beta, every symmetric density
   matrix, any number of basis functions, in any commutative ring with three
   derivations.  Identities between combinations are decided by [equivb]
   (vm_compute on closed terms, complete enumeration of the 3 / 9 components)
   and transported to every model by [equivb_sound]. *)
From Coq Require Import QArith Qcanon Ring List Bool Arith.
From GB Require Import Base.Field Base.Tables Gauss.Jets Model.Stress.
Import ListNotations.
Local Close Scope Qc_scope.
Local Close Scope Q_scope.
Local Open Scope nat_scope.

(* ---- identities between combinations (pure computation) ---- *)
Lemma stress_forms_equiv i j : equivb (stress_doc1 i j) (stress_doc i j) = true.
Proof. destruct i, j; vm_compute; reflexivity. Qed.
Lemma stress_sym_equiv i j : equivb (stress_doc i j) (stress_doc j i) = true.
Proof. destruct i, j; vm_compute; reflexivity. Qed.
Lemma force_equiv j : equivb (force_doc j) (force_def j) = true.
Proof. destruct j; vm_compute; reflexivity. Qed.
Lemma hess_equiv j k : equivb (hess_doc j k) (hess_def j k) = true.
Proof. destruct j, k; vm_compute; reflexivity. Qed.
Lemma hess_symm_sym_equiv j k : equivb (hess_symm j k) (hess_symm k j) = true.
Proof. destruct j, k; vm_compute; reflexivity. Qed.
(* the decision procedure does separate: the unsymmetrised Hessian is NOT symmetric *)
Lemma hess_not_sym_example : equivb (hess_doc AX AY) (hess_doc AY AX) = false.
Proof. vm_compute; reflexivity. Qed.

(* the term the code skips at a special value has coefficient zero there *)
Lemma skip_alpha_0 b : csubst (Some 0%Qc) b c_al = czero.
Proof. destruct b; vm_compute; reflexivity. Qed.
Lemma skip_alpha_1 b : csubst (Some 1%Qc) b c_1mal = czero.
Proof. destruct b; vm_compute; reflexivity. Qed.
Lemma skip_alpha_half b : csubst (Some qhalf) b c_1m2al = czero.
Proof. destruct b; vm_compute; reflexivity. Qed.
Lemma skip_beta_0 a : csubst a (Some 0%Qc) c_hbe = czero.
Proof.
  destruct a as [v|]; unfold csubst, c_hbe, czero.
  - apply (f_equal2 pair); [apply (f_equal2 pair)|]; try reflexivity; ring.
  - apply (f_equal2 pair); [apply (f_equal2 pair)|]; try reflexivity; ring.
Qed.

Lemma all2b_nth {A B} (f : A -> B -> bool) : forall la lb, all2b f la lb = true ->
  forall n a b, nth_error la n = Some a -> nth_error lb n = Some b -> f a b = true.
Proof.
  induction la as [|x la IH]; intros [|y lb] H n a b Ha Hb; cbn [all2b] in H; try discriminate;
    destruct n; cbn [nth_error] in *; try discriminate.
  - apply andb_true_iff in H. destruct H as [H _]. now inversion Ha; inversion Hb; subst.
  - apply andb_true_iff in H. destruct H as [_ H]. eapply IH; eauto.
Qed.
Lemma all2b_length {A B} (f : A -> B -> bool) : forall la lb, all2b f la lb = true -> length la = length lb.
Proof.
  induction la as [|x la IH]; intros [|y lb] H; cbn [all2b] in H; try discriminate; [reflexivity|].
  apply andb_true_iff in H. cbn [length]. f_equal. now apply IH.
Qed.

Section P.
Context {R : Type} (K : Fops R) (Kr : is_ring K).
Add Ring KR3 : Kr.
Local Open Scope F_scope.
Notation "0" := (f0 K) : F_scope.
Notation "1" := (f1 K) : F_scope.
Infix "+" := (fadd K) : F_scope.
Infix "*" := (fmul K) : F_scope.
Infix "-" := (fsub K) : F_scope.
Notation "- x" := (fopp K x) : F_scope.

(* ---------------- level 1: any symmetric family of symbols ---------------- *)
Section L1.
Variable inj : Qc -> R.
Hypothesis Hinj : is_qhom K inj.
Variables (alpha beta : R) (G : order -> order -> R).
Hypothesis Gsym : forall a b, G a b = G b a.
Notation ev := (eval K inj alpha beta G).
Notation evq := (evalq K inj G).
Let sound := equivb_sound K Kr inj Hinj alpha beta G Gsym.

Lemma half_half : inj qhalf + inj qhalf = 1.
Proof. rewrite <- (inj_add K inj Hinj), <- (inj_1 K inj Hinj). f_equal. apply Qc_is_canon. reflexivity. Qed.

Lemma stress_forms_agree i j : ev (stress_doc1 i j) = ev (stress_doc i j).
Proof. apply sound, stress_forms_equiv. Qed.
Lemma stress_sym i j : ev (stress_doc i j) = ev (stress_doc j i).
Proof. apply sound, stress_sym_equiv. Qed.
Lemma stress_formula i j :
  ev (stress_doc i j)
  = (- alpha) * G (e_ i) (e_ j) + (1 - alpha) * G (oadd (e_ i) (e_ j)) o0
    - (if aeqb i j then inj qhalf * beta * evq lap_rho else 0).
Proof.
  unfold stress_doc. rewrite !(eval_app K Kr), !(eval_scal K Kr inj Hinj).
  rewrite (cev_opp K Kr inj Hinj). unfold c_al, c_1mal, c_hbe, sym.
  cbn [evalq cev kev fst snd]. rewrite (inj_opp K Kr inj Hinj), (inj_0 K Kr inj Hinj), (inj_1 K inj Hinj).
  unfold kev; cbn [fst snd].
  destruct (aeqb i j).
  - rewrite (eval_scal K Kr inj Hinj), (cev_opp K Kr inj Hinj). cbn [cev].
    rewrite (inj_0 K Kr inj Hinj). ring.
  - cbn [eval]. ring.
Qed.
Lemma hessian_symmetrised j k :
  ev (hess_symm j k) = inj qhalf * (ev (hess_doc j k) + ev (hess_doc k j)).
Proof. unfold hess_symm. now rewrite (eval_lscale K Kr inj Hinj), (eval_app K Kr). Qed.
Lemma hess_symm_sym j k : ev (hess_symm j k) = ev (hess_symm k j).
Proof. apply sound, hess_symm_sym_equiv. Qed.
Lemma force_eq_def j : ev (force_doc j) = ev (force_def j).
Proof. apply sound, force_equiv. Qed.
Lemma hess_eq_def j k : ev (hess_doc j k) = ev (hess_def j k).
Proof. apply sound, hess_equiv. Qed.

(* a regenerated trace table that passes [check_table] computes the specification *)
Section Traced.
Variable tt : list trace_case.
Hypothesis Hchk : check_table tt = true.
Variables (n : nat) (ab : par * par) (tc : trace_case).
Hypothesis Hab : nth_error cases n = Some ab.
Hypothesis Htc : nth_error tt n = Some tc.
(* the parameters have the values of the case (nothing is asked of a symbolic one) *)
Hypothesis Ha : forall v, fst ab = Some v -> alpha = inj v.
Hypothesis Hb : forall v, snd ab = Some v -> beta = inj v.

Lemma case_ok : check_case ab tc = true.
Proof. exact (all2b_nth check_case cases tt Hchk n ab tc Hab Htc). Qed.

Lemma traced_component (sel : trace_case -> list comb) (spec : list comb) :
  all2b equivb (sel tc) (map (lsubst (fst ab) (snd ab)) spec) = true ->
  forall m c s, nth_error (sel tc) m = Some c -> nth_error spec m = Some s -> ev c = ev s.
Proof.
  intros H m c s Hc Hs.
  rewrite <- (eval_lsubst K Kr inj Hinj alpha beta G (fst ab) (snd ab) s Ha Hb).
  apply sound. eapply all2b_nth; [exact H|exact Hc|]. now apply map_nth_error.
Qed.
Lemma traced_stress m c s :
  nth_error (t_stress tc) m = Some c -> nth_error (tab2 stress_doc) m = Some s -> ev c = ev s.
Proof. apply traced_component. pose proof case_ok as H. unfold check_case in H.
  rewrite !andb_true_iff in H. tauto. Qed.
Lemma traced_force m c s :
  nth_error (t_force tc) m = Some c -> nth_error (tab1 force_doc) m = Some s -> ev c = ev s.
Proof. apply traced_component. pose proof case_ok as H. unfold check_case in H.
  rewrite !andb_true_iff in H. tauto. Qed.
Lemma traced_hess m c s :
  nth_error (t_hess tc) m = Some c -> nth_error (tab2 hess_doc) m = Some s -> ev c = ev s.
Proof. apply traced_component. pose proof case_ok as H. unfold check_case in H.
  rewrite !andb_true_iff in H. tauto. Qed.
Lemma traced_hess_symm m c s :
  nth_error (t_hess_symm tc) m = Some c -> nth_error (tab2 hess_symm) m = Some s -> ev c = ev s.
Proof. apply traced_component. pose proof case_ok as H. unfold check_case in H.
  rewrite !andb_true_iff in H. tauto. Qed.
(* nothing is missing: every case and every component has its traced counterpart *)
Lemma traced_shapes :
  length tt = length cases /\ length (t_stress tc) = 9 /\ length (t_force tc) = 3
  /\ length (t_hess tc) = 9 /\ length (t_hess_symm tc) = 9.
Proof.
  pose proof case_ok as H. unfold check_case in H. rewrite !andb_true_iff in H.
  destruct H as [[[[_ H1] H2] H3] H4].
  apply all2b_length in H1, H2, H3, H4.
  unfold spec_stress, spec_force, spec_hess, spec_hess_symm in *. rewrite map_length in *.
  split; [symmetry; exact (all2b_length _ _ _ Hchk)|]. cbn in *. tauto.
Qed.
End Traced.
End L1.

(* ---------------- level 2: the symbols of a density matrix, real derivations ---------------- *)
Section L2.
Variable M : dmodel K.
Hypothesis Mok : dmodel_ok K M.
Notation ev := (m_eval K M).
Notation D := (m_D M).
Let Hinj := ok_inj K M Mok.
Let Gs : forall a b, m_G K M a b = m_G K M b a :=
  Gphi_sym K Kr (m_nb M) (m_P M) (m_phi M) (ok_Psym K M Mok).
Let evdk : forall k l, ev (dk k l) = D k (ev l) :=
  eval_dk_phi K Kr (m_inj M) (m_alpha M) (m_beta M) D (ok_add K M Mok) (ok_mul K M Mok)
    (ok_cinj K M Mok) (ok_alpha K M Mok) (ok_beta K M Mok) (m_nb M) (m_P M) (m_phi M)
    (ok_P K M Mok) (ok_phi K M Mok).

Lemma G_is_double_sum o1 o2 :
  m_G K M o1 o2 = sumn 0 (fadd K) (m_nb M) (fun a => sumn 0 (fadd K) (m_nb M)
                    (fun b => m_P M a b * m_phi M o1 a * m_phi M o2 b)).
Proof. reflexivity. Qed.

Lemma G_product_rule k o1 o2 : D k (m_G K M o1 o2) = m_G K M (osucc k o1) o2 + m_G K M o1 (osucc k o2).
Proof.
  apply (Gphi_deriv K Kr D (ok_add K M Mok) (ok_mul K M Mok) (m_nb M) (m_P M) (m_phi M)
           (ok_P K M Mok) (ok_phi K M Mok)).
Qed.

Lemma laplacian_meaning :
  m_evalq K M lap_rho = D AX (D AX (m_G K M o0 o0)) + D AY (D AY (m_G K M o0 o0)) + D AZ (D AZ (m_G K M o0 o0)).
Proof.
  unfold m_evalq, lap_rho, lsum, axes. cbn [flat_map].
  assert (App : forall a b, evalq K (m_inj M) (m_G K M) (a ++ b)
                            = evalq K (m_inj M) (m_G K M) a + evalq K (m_inj M) (m_G K M) b).
  { intros a b. induction a as [|u a IHa]; cbn [app evalq]; [ring|]. rewrite IHa. ring. }
  rewrite !App.
  rewrite !(evalq_dkq K Kr (m_inj M) D (ok_add K M Mok) (ok_mul K M Mok) (ok_cinj K M Mok)
              (m_G K M) G_product_rule).
  unfold rho, sym. cbn [evalq kev fst snd app]. rewrite (inj_1 K (m_inj M) Hinj).
  unfold kev; cbn [fst snd].
  assert (E : 1 * m_G K M o0 o0 + 0 = m_G K M o0 o0) by ring. rewrite E. ring.
Qed.

Theorem stress_tensor_formula i j :
  ev (stress_doc i j)
  = (- m_alpha M) * m_G K M (e_ i) (e_ j) + (1 - m_alpha M) * m_G K M (oadd (e_ i) (e_ j)) o0
    - (if aeqb i j then m_inj M qhalf * m_beta M *
         (D AX (D AX (m_G K M o0 o0)) + D AY (D AY (m_G K M o0 o0)) + D AZ (D AZ (m_G K M o0 o0)))
       else 0).
Proof.
  unfold m_eval. rewrite (stress_formula (m_inj M) Hinj). now rewrite <- laplacian_meaning.
Qed.

Theorem stress_symmetric i j : ev (stress_doc i j) = ev (stress_doc j i).
Proof. apply (stress_sym (m_inj M) Hinj _ _ _ Gs). Qed.

Theorem force_is_minus_div_stress j :
  ev (force_doc j)
  = - (D AX (ev (stress_doc AX j)) + D AY (ev (stress_doc AY j)) + D AZ (ev (stress_doc AZ j))).
Proof.
  unfold m_eval at 1. rewrite (force_eq_def (m_inj M) Hinj _ _ _ Gs).
  unfold force_def. rewrite (eval_lopp K Kr (m_inj M) Hinj), (eval_lsum K Kr).
  cbn [axes fold_right]. fold (m_eval K M). rewrite !evdk. ring.
Qed.

Theorem hessian_is_jacobian_of_force j k : ev (hess_doc j k) = D k (ev (force_doc j)).
Proof.
  unfold m_eval at 1. rewrite (hess_eq_def (m_inj M) Hinj _ _ _ Gs).
  unfold hess_def. fold (m_eval K M). apply evdk.
Qed.

Theorem hessian_symmetrised_avg j k :
  ev (hess_symm j k) = m_inj M qhalf * (ev (hess_doc j k) + ev (hess_doc k j))
  /\ m_inj M qhalf + m_inj M qhalf = 1
  /\ ev (hess_symm j k) = ev (hess_symm k j).
Proof.
  split; [apply (hessian_symmetrised (m_inj M) Hinj)|].
  split; [apply (half_half (m_inj M) Hinj)|].
  apply (hess_symm_sym (m_inj M) Hinj _ _ _ Gs).
Qed.
End L2.
End P.

(* ---------------- the hypotheses are satisfiable ---------------- *)
(* rationals, constant basis functions (all derivatives vanish): a degenerate but
   genuine model; ExDual below has non-zero derivatives *)
Section ExConst.
Local Open Scope Qc_scope.
Definition exK : Fops Qc := QcK true 0 (fun x => x) (fun x => x) (fun x => x) (fun _ x => x).
Definition exKr : is_ring exK := F_R (QcK_field true 0 (fun x => x) (fun x => x) (fun x => x) (fun _ x => x)).
Definition exM : dmodel exK :=
  mkdmodel Qc exK (fun q => q) (Q2Qc (1 # 3)) (Q2Qc (2 # 1)) (fun _ _ => 0) 2%nat
           (fun a b => Q2Qc (Z.of_nat (a + b) # 1))
           (fun o a => if oeqb o o0 then Q2Qc (Z.of_nat (S a) # 1) else 0).
Lemma exM_ok : dmodel_ok exK exM.
Proof.
  constructor; cbn [exM exK QcK m_inj m_alpha m_beta m_D m_nb m_P m_phi f0 f1 fadd fmul].
  - unfold is_qhom. cbn [exK QcK f1 fadd fmul]. split; [|split]; intros.
    + reflexivity.
    + now rewrite qc_add_eq.
    + now rewrite qc_mul_eq.
  - intros. rewrite qc_add_eq. ring.
  - intros. rewrite qc_add_eq, !qc_mul_eq. ring.
  - reflexivity.
  - reflexivity.
  - reflexivity.
  - reflexivity.
  - intros k [[a b] c] i. destruct k; cbn [osucc oeqb o0 Nat.eqb andb]; rewrite ?andb_false_r; reflexivity.
  - intros a b. now rewrite Nat.add_comm.
Qed.
End ExConst.

(* A model with non-vanishing derivatives of every order: dual numbers a + b.eps (eps^2 = 0) over Qc
   with the derivations D_k (a + b.eps) = c_k b.eps; phi^o_a = [o=0] + c^o s_a eps
   (first-order germ of 1 + s_a (exp(c.r) - 1) eps). *)
Section ExDual.
Local Open Scope Qc_scope.
Definition dual := (Qc * Qc)%type.
Definition d_add (x y : dual) : dual := (fst x + fst y, snd x + snd y).
Definition d_mul (x y : dual) : dual := (fst x * fst y, fst x * snd y + snd x * fst y).
Definition d_opp (x : dual) : dual := (- fst x, - snd x).
Definition d_sub (x y : dual) : dual := d_add x (d_opp y).
Definition dualK : Fops dual :=
  mkFops dual (0, 0) (1, 0) d_add d_mul d_sub d_opp (fun x _ => x) (fun x => x)
         (fun _ _ => true) (fun _ _ => true) (0, 0) (fun x => x) (fun x => x) (fun x => x) (fun _ x => x) (fun x => x).
Lemma dualKr : is_ring dualK.
Proof.
  constructor; cbn [dualK f0 f1 fadd fmul fsub fopp]; unfold d_sub, d_add, d_mul, d_opp;
    intros; repeat match goal with x : dual |- _ => destruct x end; cbn [fst snd];
    try reflexivity; apply (f_equal2 pair); ring.
Qed.
Definition cdir (k : axis) : Qc := match k with AX => Q2Qc (1 # 2) | AY => Q2Qc (2 # 1) | AZ => Q2Qc (-3 # 1) end.
Definition cpow (o : order) : Qc :=
  let '(a, b, c) := o in Qcpower (cdir AX) a * Qcpower (cdir AY) b * Qcpower (cdir AZ) c.
Definition dualM : dmodel dualK :=
  mkdmodel dual dualK (fun q => (q, 0)) (Q2Qc (1 # 3), 0) (Q2Qc (2 # 1), 0)
           (fun k x => (0, cdir k * snd x)) 2%nat
           (fun a b => (Q2Qc (Z.of_nat (a + b) # 1), 0))
           (fun o a => ((if oeqb o o0 then 1 else 0), cpow o * Q2Qc (Z.of_nat (S a) # 1))).
Lemma dualM_ok : dmodel_ok dualK dualM.
Proof.
  constructor; cbn [dualM dualK m_inj m_alpha m_beta m_D m_nb m_P m_phi f0 f1 fadd fmul];
    unfold d_add, d_mul; cbn [fst snd].
  - split; [reflexivity|]. split; intros; cbn [dualK fadd fmul]; unfold d_add, d_mul; cbn [fst snd];
      apply (f_equal2 pair); ring.
  - intros. apply (f_equal2 pair); ring.
  - intros. apply (f_equal2 pair); ring.
  - intros. apply (f_equal2 pair); ring.
  - intros. apply (f_equal2 pair); ring.
  - intros. apply (f_equal2 pair); ring.
  - intros. apply (f_equal2 pair); ring.
  - intros k [[a b] c] i. apply (f_equal2 pair).
    + destruct k; cbn [osucc oeqb o0 Nat.eqb andb]; rewrite ?andb_false_r; reflexivity.
    + destruct k; cbn [osucc cpow cdir Qcpower]; ring.
  - intros a b. now rewrite Nat.add_comm.
Qed.
(* the derivations are not trivial in this model *)
Lemma dualM_nontrivial : m_D dualM AX (m_phi dualM o0 0%nat) <> f0 dualK.
Proof. cbn. intro H. inversion H. Qed.
End ExDual.
